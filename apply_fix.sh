#!/bin/bash
# lead-only: apply fixes/<slug>.patch to /repo as one "fix:" commit after the pinned baseline passes
slug="$1"
cd /repo || exit 1
[ -z "$(git status --porcelain --untracked-files=no)" ] || { echo "repo dirty"; exit 1; }
git apply -3 --whitespace=nowarn /verif/fixes/$slug.patch || { echo "apply failed"; git checkout -- .; exit 1; }
git reset -q
/verif/baseline_check.sh /repo || { echo "baseline failed -> reverted"; git checkout -- .; exit 1; }
git add -u && git commit -q -F /verif/fixes/$slug.msg && git log --oneline | head -1
mkdir -p /verif/fixes/applied && git -C /repo rev-parse --short HEAD > /verif/fixes/applied/$slug.commit
