#!/bin/bash
# lead-only: apply several fixes/<slug>.patch as separate "fix:" commits, run the pinned baseline once at the end; roll the whole batch back if it fails
cd /repo || exit 1
[ -z "$(git status --porcelain --untracked-files=no)" ] || { echo "repo dirty"; exit 1; }
start=$(git rev-parse HEAD)
for slug in "$@"; do
  [ -f /verif/fixes/$slug.msg ] || { echo "no msg for $slug"; git reset -q --hard $start; exit 1; }
  git apply -3 --whitespace=nowarn /verif/fixes/$slug.patch || { echo "apply failed: $slug"; git reset -q --hard $start; exit 1; }
  git reset -q; git add -u; git commit -q -F /verif/fixes/$slug.msg
  mkdir -p /verif/fixes/applied; git rev-parse --short HEAD > /verif/fixes/applied/$slug.commit
  echo "committed $slug $(git rev-parse --short HEAD)"
done
/verif/baseline_check.sh /repo || { echo "baseline failed -> batch rolled back"; git reset -q --hard $start; for slug in "$@"; do rm -f /verif/fixes/applied/$slug.commit; done; exit 1; }
