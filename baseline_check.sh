#!/bin/bash
# Runs the repository's pinned test suite (guard OFF) and checks that every stable-pass test of BASELINE.json still passes.
# usage: baseline_check.sh [repo_dir]
repo="${1:-/repo}"
out=$(mktemp -d)
unset PYWHY_GRAPHS_VERIF
cd "$repo" && /venv/bin/python -m pytest -ra -q -p no:cacheprovider --timeout=900 --continue-on-collection-errors --junitxml=$out/j.xml > $out/log.txt 2>&1
/venv/bin/python - "$out/j.xml" <<'PY'
import json, sys, xml.etree.ElementTree as ET
base = json.load(open('/root/.vp/BASELINE.json'))['stable_pass']
passed = set()
for tc in ET.parse(sys.argv[1]).getroot().iter('testcase'):
    if not any(ch.tag in ('failure', 'error', 'skipped') for ch in tc):
        passed.add(tc.get('classname') + '::' + tc.get('name'))
missing = [t for t in base if t not in passed]
print('baseline: %d/%d stable-pass tests pass' % (len(base) - len(missing), len(base)))
for m in missing[:20]:
    print('  NOT PASSING:', m)
sys.exit(1 if missing else 0)
PY
rc=$?
rm -rf "$out"
exit $rc
