#!/bin/bash
# Extract every theories/Cxx/Model.v (ExtrOcamlBasic only) and link it with the generic driver -> bin/cxx
# usage: build_models.sh [C12 ...]   (default: all properties that have theories/Cxx/Extract.v or Model.v)
set -e
export OCAMLRUNPARAM=s=4M
cd "$(dirname "$0")/coq"
props="$@"
if [ -z "$props" ]; then props=$(ls theories | grep -E '^C[0-9]+$'); fi
rc=0
for p in $props; do
  lp=$(echo $p | tr 'A-Z' 'a-z')
  src=theories/$p/Model.v
  [ -f theories/$p/Run.v ] && src=theories/$p/Run.v
  mod=$(basename $src .v)
  out=/verif/bin/$lp
  if [ -x $out ] && [ $out -nt $src ] && [ $out -nt extract/driver.ml ] && [ $out -nt theories/$p/$mod.vo ]; then continue; fi
  b=build/$lp; rm -rf $b; mkdir -p $b
  cat > $b/extract.v <<EOV
From Coq Require Extraction ExtrOcamlBasic.
From PG Require $p.$mod.
Extraction Language OCaml.
Set Extraction Output Directory ".".
Extraction "model.ml" PG.$p.$mod.run_case.
EOV
  ( cd $b && timeout 600 coqc -Q ../../theories PG extract.v > extract.log 2>&1 && cp ../../extract/driver.ml . \
    && timeout 600 ocamlfind ocamlopt -O3 -w -a model.mli model.ml driver.ml -o $out >> extract.log 2>&1 ) \
    || { echo "build_models: $p FAILED (see coq/$b/extract.log)"; rc=1; }
done
exit $rc
