(* Generic line driver: one s-expression per stdin line -> Model.run_case -> one s-expression per stdout line.
   Hand-written, trusted (see DESIGN.md section 6). nat stays Peano (no ExtrOcamlNatInt). *)
open Model

let rec nat_of_int n = if n <= 0 then O else S (nat_of_int (n - 1))
let rec int_of_nat = function O -> 0 | S k -> 1 + int_of_nat k

(* parser *)
let parse (s : string) : sx =
  let n = String.length s in
  let pos = ref 0 in
  let rec skip () = if !pos < n && (s.[!pos] = ' ' || s.[!pos] = '\t' || s.[!pos] = '\r') then (incr pos; skip ()) in
  let rec value () : sx =
    skip ();
    if !pos >= n then failwith "eof"
    else if s.[!pos] = '(' then begin
      incr pos;
      let items = ref [] in
      let rec loop () =
        skip ();
        if !pos >= n then failwith "unclosed"
        else if s.[!pos] = ')' then incr pos
        else (items := value () :: !items; loop ()) in
      loop (); L (List.rev !items)
    end else begin
      let st = !pos in
      while !pos < n && s.[!pos] >= '0' && s.[!pos] <= '9' do incr pos done;
      if st = !pos then failwith "bad token";
      I (nat_of_int (int_of_string (String.sub s st (!pos - st))))
    end in
  value ()

let rec print (b : Buffer.t) (v : sx) : unit =
  match v with
  | I k -> Buffer.add_string b (string_of_int (int_of_nat k))
  | L l ->
    Buffer.add_char b '(';
    List.iteri (fun i x -> if i > 0 then Buffer.add_char b ' '; print b x) l;
    Buffer.add_char b ')'

let () =
  let b = Buffer.create 4096 in
  (try
    while true do
      let line = input_line stdin in
      if String.length line > 0 then begin
        Buffer.clear b;
        (try print b (run_case (parse line))
         with Failure m -> Buffer.add_string b ("!error " ^ m)
            | Stack_overflow -> Buffer.add_string b "!error stack_overflow");
        print_string (Buffer.contents b); print_newline ()
      end
    done
  with End_of_file -> ())
