(* Reachability closure over a finite universe: executable definition and its specification. *)
From Coq Require Import List Arith Bool Lia.
Import ListNotations.

Section Closure.
Variable A : Type.
Variable eqb : A -> A -> bool.
Hypothesis eqb_eq : forall a b, eqb a b = true <-> a = b.
Variable step : A -> list A.

Fixpoint gmemb (a : A) (l : list A) : bool :=
  match l with [] => false | x :: t => eqb a x || gmemb a t end.

Lemma gmemb_In a l : gmemb a l = true <-> In a l.
Proof.
  induction l as [|x t IH]; simpl; [split; [discriminate|tauto]|].
  rewrite orb_true_iff, eqb_eq, IH. split; intros [H|H]; auto.
Qed.

Lemma gmemb_false a l : gmemb a l = false <-> ~ In a l.
Proof. rewrite <- gmemb_In. destruct (gmemb a l); split; congruence. Qed.

Definition add1 (acc : list A) (x : A) : list A := if gmemb x acc then acc else x :: acc.
Definition add_new (acc xs : list A) : list A := fold_left add1 xs acc.

Lemma add_new_In acc xs a : In a (add_new acc xs) <-> In a acc \/ In a xs.
Proof.
  unfold add_new. revert acc; induction xs as [|x t IH]; intros acc; simpl; [tauto|].
  rewrite IH. unfold add1. destruct (gmemb x acc) eqn:E; simpl.
  - apply gmemb_In in E. split; [tauto|]. intros [H|[<-|H]]; auto.
  - split; [intros [[<-|H]|H]; auto|intros [H|[<-|H]]; auto].
Qed.

Lemma add_new_NoDup acc xs : NoDup acc -> NoDup (add_new acc xs).
Proof.
  unfold add_new. revert acc; induction xs as [|x t IH]; intros acc H; simpl; [exact H|].
  apply IH. unfold add1. destruct (gmemb x acc) eqn:E; [exact H|].
  constructor; [apply gmemb_false; exact E|exact H].
Qed.

Lemma add_new_length acc xs : length acc <= length (add_new acc xs).
Proof.
  unfold add_new. revert acc; induction xs as [|x t IH]; intros acc; simpl; [lia|].
  specialize (IH (add1 acc x)). unfold add1 in *. destruct (gmemb x acc); simpl in *; lia.
Qed.

Lemma add_new_same_length acc xs :
  length (add_new acc xs) = length acc -> incl xs acc.
Proof.
  unfold add_new. revert acc; induction xs as [|x t IH]; intros acc H; simpl in *; [intros a []|].
  pose proof (add_new_length (add1 acc x) t) as Hl. unfold add_new in Hl.
  unfold add1 in *. destruct (gmemb x acc) eqn:E.
  - intros a [<-|Ha]; [apply gmemb_In; exact E|apply (IH acc H a Ha)].
  - simpl in *. lia.
Qed.

Definition round (acc : list A) : list A := add_new acc (flat_map step acc).

Fixpoint iter (n : nat) (acc : list A) : list A :=
  match n with 0 => acc | S k => iter k (round acc) end.

Fixpoint gdedup (l : list A) : list A :=
  match l with [] => [] | x :: t => if gmemb x t then gdedup t else x :: gdedup t end.

Lemma gdedup_In a l : In a (gdedup l) <-> In a l.
Proof.
  induction l as [|x t IH]; simpl; [tauto|].
  destruct (gmemb x t) eqn:E; simpl; rewrite IH; [|tauto].
  apply gmemb_In in E. split; [auto|intros [->|H]; auto].
Qed.

Lemma gdedup_NoDup l : NoDup (gdedup l).
Proof.
  induction l as [|x t IH]; simpl; [constructor|].
  destruct (gmemb x t) eqn:E; [exact IH|].
  constructor; [|exact IH]. rewrite gdedup_In. apply gmemb_false. exact E.
Qed.

Definition closure (init : list A) (fuel : nat) : list A := iter fuel (gdedup init).

(* ---- specification ---- *)
Inductive reach (init : list A) : A -> Prop :=
| reach_init a : In a init -> reach init a
| reach_step a b : reach init a -> In b (step a) -> reach init b.

Lemma round_In acc a : In a (round acc) <-> In a acc \/ exists x, In x acc /\ In a (step x).
Proof. unfold round. rewrite add_new_In, in_flat_map. tauto. Qed.

Lemma iter_sound n : forall acc a, In a (iter n acc) -> reach acc a.
Proof.
  induction n as [|n IH]; intros acc a H; simpl in H; [constructor; exact H|].
  apply IH in H. induction H as [b Hb|b c Hb IHb Hc].
  - apply round_In in Hb. destruct Hb as [Hb|[x [Hx Hb]]].
    + constructor; exact Hb.
    + apply reach_step with x; [constructor; exact Hx|exact Hb].
  - apply reach_step with b; assumption.
Qed.

Lemma iter_mono n acc a : In a acc -> In a (iter n acc).
Proof.
  revert acc; induction n as [|n IH]; intros acc H; simpl; [exact H|].
  apply IH. apply round_In. left; exact H.
Qed.

Definition closed (acc : list A) : Prop := forall x a, In x acc -> In a (step x) -> In a acc.

Lemma closed_reach acc a : closed acc -> reach acc a -> In a acc.
Proof. intros Hc H. induction H as [b Hb|b c Hb IHb Hc']; [exact Hb|apply (Hc b c IHb Hc')]. Qed.

Lemma reach_incl init init' a : incl init init' -> reach init a -> reach init' a.
Proof.
  intros Hi H. induction H as [b Hb|b c Hb IHb Hc]; [constructor; auto|apply reach_step with b; auto].
Qed.

Lemma round_fix_closed acc : length (round acc) = length acc -> closed acc.
Proof.
  intros H x a Hx Ha. apply add_new_same_length in H. apply H. apply in_flat_map. exists x; auto.
Qed.

Lemma round_closed_id acc : closed acc -> forall a, In a (round acc) <-> In a acc.
Proof.
  intros Hc a. rewrite round_In. split; [|auto]. intros [H|[x [Hx Ha]]]; [exact H|apply (Hc x a Hx Ha)].
Qed.

Lemma round_closed acc : closed acc -> closed (round acc).
Proof.
  intros Hc x a Hx Ha. apply (proj1 (round_closed_id acc Hc x)) in Hx.
  apply (proj2 (round_closed_id acc Hc a)). apply (Hc x a Hx Ha).
Qed.

Lemma iter_closed_stays n acc : closed acc -> closed (iter n acc).
Proof. revert acc; induction n as [|n IH]; intros acc H; simpl; [exact H|apply IH, round_closed, H]. Qed.

Section Universe.
Variable univ : list A.
Hypothesis step_univ : forall x, In x univ -> incl (step x) univ.

Lemma round_univ acc : incl acc univ -> incl (round acc) univ.
Proof.
  intros H a Ha. apply round_In in Ha. destruct Ha as [Ha|[x [Hx Ha]]]; [auto|].
  apply (step_univ x (H x Hx) a Ha).
Qed.

Lemma iter_closed n acc :
  NoDup acc -> incl acc univ -> length univ <= n + length acc -> closed (iter n acc).
Proof.
  revert acc; induction n as [|n IH]; intros acc Hnd Hi Hl; simpl.
  - (* acc has as many elements as univ: round cannot grow *)
    apply round_fix_closed.
    pose proof (add_new_NoDup acc (flat_map step acc) Hnd) as Hnd'.
    pose proof (round_univ acc Hi) as Hi'.
    pose proof (NoDup_incl_length Hnd' Hi') as H1.
    pose proof (add_new_length acc (flat_map step acc)) as H2.
    unfold round in *. simpl in Hl. lia.
  - destruct (Nat.eq_dec (length (round acc)) (length acc)) as [E|E].
    + apply iter_closed_stays. apply round_closed. apply round_fix_closed. exact E.
    + apply IH.
      * apply add_new_NoDup. exact Hnd.
      * apply round_univ. exact Hi.
      * pose proof (add_new_length acc (flat_map step acc)) as H2. unfold round in *. lia.
Qed.

Theorem closure_spec init fuel a :
  incl init univ -> length univ <= fuel ->
  (In a (closure init fuel) <-> reach init a).
Proof.
  intros Hi Hf. unfold closure. split.
  - intros H. apply iter_sound in H. eapply reach_incl; [|exact H].
    intros x Hx. apply (proj1 (gdedup_In _ _)) in Hx. exact Hx.
  - intros H. apply closed_reach.
    + apply iter_closed; [apply gdedup_NoDup| |lia].
      intros x Hx. apply (proj1 (gdedup_In _ _)) in Hx. auto.
    + eapply reach_incl; [|exact H]. intros x Hx. apply iter_mono. apply (proj2 (gdedup_In _ _)). exact Hx.
Qed.

Lemma closure_univ init fuel : incl init univ -> incl (closure init fuel) univ.
Proof.
  intros Hi. unfold closure. assert (H : incl (gdedup init) univ).
  { intros x Hx. apply (proj1 (gdedup_In _ _)) in Hx. auto. }
  revert H. generalize (gdedup init). induction fuel as [|n IH]; intros acc H; simpl; [exact H|].
  apply IH. apply round_univ. exact H.
Qed.
End Universe.

Lemma closure_sound init fuel a : In a (closure init fuel) -> reach init a.
Proof.
  unfold closure. intros H. apply iter_sound in H. eapply reach_incl; [|exact H].
  intros x Hx. apply (proj1 (gdedup_In _ _)) in Hx. exact Hx.
Qed.

End Closure.

Arguments closure {A} eqb step init fuel.
Arguments reach {A} step init _.
Arguments gmemb {A} eqb a l.
Arguments closed {A} step acc.
