(* Finite sets of nat (and of pairs) as lists, boolean membership. Stdlib only. *)
From Coq Require Import List Arith Bool Lia.
Import ListNotations.

Fixpoint memb (a : nat) (l : list nat) : bool :=
  match l with [] => false | x :: t => Nat.eqb a x || memb a t end.

Lemma memb_In a l : memb a l = true <-> In a l.
Proof.
  induction l as [|x t IH]; simpl; [split; [discriminate|tauto]|].
  rewrite orb_true_iff, Nat.eqb_eq, IH. split; intros [H|H]; auto.
Qed.

Lemma memb_false a l : memb a l = false <-> ~ In a l.
Proof. rewrite <- memb_In. destruct (memb a l); split; congruence. Qed.

Definition pair_eqb (p q : nat * nat) : bool :=
  Nat.eqb (fst p) (fst q) && Nat.eqb (snd p) (snd q).

Lemma pair_eqb_eq p q : pair_eqb p q = true <-> p = q.
Proof.
  destruct p as [a b], q as [c d]; unfold pair_eqb; simpl.
  rewrite andb_true_iff, !Nat.eqb_eq. split; [intros [-> ->]; reflexivity|intros H; inversion H; auto].
Qed.

Fixpoint pmemb (p : nat * nat) (l : list (nat * nat)) : bool :=
  match l with [] => false | x :: t => pair_eqb p x || pmemb p t end.

Lemma pmemb_In p l : pmemb p l = true <-> In p l.
Proof.
  induction l as [|x t IH]; simpl; [split; [discriminate|tauto]|].
  rewrite orb_true_iff, pair_eqb_eq, IH. split; intros [H|H]; auto.
Qed.

Lemma pmemb_false p l : pmemb p l = false <-> ~ In p l.
Proof. rewrite <- pmemb_In. destruct (pmemb p l); split; congruence. Qed.

(* symmetric membership: {a,b} in a list of unordered pairs *)
Definition smemb (a b : nat) (l : list (nat * nat)) : bool := pmemb (a, b) l || pmemb (b, a) l.

Lemma smemb_In a b l : smemb a b l = true <-> In (a, b) l \/ In (b, a) l.
Proof. unfold smemb. rewrite orb_true_iff, !pmemb_In. tauto. Qed.

Lemma smemb_sym a b l : smemb a b l = smemb b a l.
Proof. unfold smemb. apply orb_comm. Qed.

Fixpoint dedup (l : list nat) : list nat :=
  match l with [] => [] | x :: t => if memb x t then dedup t else x :: dedup t end.

Lemma dedup_In a l : In a (dedup l) <-> In a l.
Proof.
  induction l as [|x t IH]; simpl; [tauto|].
  destruct (memb x t) eqn:E; simpl; rewrite IH; [|tauto].
  apply memb_In in E. split; [auto|intros [->|H]; auto].
Qed.

Lemma dedup_NoDup l : NoDup (dedup l).
Proof.
  induction l as [|x t IH]; simpl; [constructor|].
  destruct (memb x t) eqn:E; [exact IH|].
  constructor; [|exact IH]. rewrite dedup_In. apply memb_false. exact E.
Qed.

Definition subsetb (l m : list nat) : bool := forallb (fun a => memb a m) l.

Lemma subsetb_incl l m : subsetb l m = true <-> incl l m.
Proof.
  unfold subsetb, incl. rewrite forallb_forall.
  split; intros H a Ha; [apply memb_In|apply memb_In]; auto.
Qed.

Definition seteqb (l m : list nat) : bool := subsetb l m && subsetb m l.

Definition set_eq {A} (l m : list A) : Prop := incl l m /\ incl m l.

Lemma seteqb_spec l m : seteqb l m = true <-> set_eq l m.
Proof. unfold seteqb, set_eq. rewrite andb_true_iff, !subsetb_incl. tauto. Qed.

Definition interb (l m : list nat) : list nat := filter (fun a => memb a m) l.
Definition diffb (l m : list nat) : list nat := filter (fun a => negb (memb a m)) l.
Definition disjointb (l m : list nat) : bool := forallb (fun a => negb (memb a m)) l.

Lemma interb_In a l m : In a (interb l m) <-> In a l /\ In a m.
Proof. unfold interb. rewrite filter_In, memb_In. tauto. Qed.

Lemma diffb_In a l m : In a (diffb l m) <-> In a l /\ ~ In a m.
Proof. unfold diffb. rewrite filter_In, negb_true_iff, memb_false. tauto. Qed.

Lemma disjointb_spec l m : disjointb l m = true <-> (forall a, In a l -> ~ In a m).
Proof.
  unfold disjointb. rewrite forallb_forall. split; intros H a Ha.
  - apply memb_false. apply negb_true_iff. auto.
  - apply negb_true_iff. apply memb_false. auto.
Qed.

(* insertion sort + dedup, to print canonical sets *)
Fixpoint insert_sorted (a : nat) (l : list nat) : list nat :=
  match l with
  | [] => [a]
  | x :: t => if Nat.ltb a x then a :: l else if Nat.eqb a x then l else x :: insert_sorted a t
  end.
Definition sort_set (l : list nat) : list nat := fold_right insert_sorted [] l.

Lemma insert_sorted_In a b l : In b (insert_sorted a l) <-> b = a \/ In b l.
Proof.
  induction l as [|x t IH]; simpl; [intuition|].
  destruct (Nat.ltb a x); simpl; [intuition|].
  destruct (Nat.eqb a x) eqn:E; simpl.
  - apply Nat.eqb_eq in E. subst. intuition.
  - rewrite IH. intuition.
Qed.

Lemma sort_set_In a l : In a (sort_set l) <-> In a l.
Proof.
  induction l as [|x t IH]; simpl; [tauto|]. rewrite insert_sorted_In, IH. intuition.
Qed.

Definition pair_ltb (p q : nat * nat) : bool :=
  Nat.ltb (fst p) (fst q) || (Nat.eqb (fst p) (fst q) && Nat.ltb (snd p) (snd q)).
Fixpoint pinsert_sorted (a : nat * nat) (l : list (nat * nat)) : list (nat * nat) :=
  match l with
  | [] => [a]
  | x :: t => if pair_ltb a x then a :: l else if pair_eqb a x then l else x :: pinsert_sorted a t
  end.
Definition psort_set (l : list (nat * nat)) : list (nat * nat) := fold_right pinsert_sorted [] l.

Lemma pinsert_sorted_In a b l : In b (pinsert_sorted a l) <-> b = a \/ In b l.
Proof.
  induction l as [|x t IH]; simpl; [intuition|].
  destruct (pair_ltb a x); simpl; [intuition|].
  destruct (pair_eqb a x) eqn:E; simpl.
  - apply pair_eqb_eq in E. subst. intuition.
  - rewrite IH. intuition.
Qed.

Lemma psort_set_In a l : In a (psort_set l) <-> In a l.
Proof.
  induction l as [|x t IH]; simpl; [tauto|]. rewrite pinsert_sorted_In, IH. intuition.
Qed.

(* normalise an unordered pair *)
Definition norm_pair (p : nat * nat) : nat * nat :=
  if Nat.leb (fst p) (snd p) then p else (snd p, fst p).

(* all sublists (subsets) of a list *)
Fixpoint sublists (l : list nat) : list (list nat) :=
  match l with
  | [] => [[]]
  | x :: t => let r := sublists t in r ++ map (cons x) r
  end.

Lemma sublists_incl l s : In s (sublists l) -> incl s l.
Proof.
  revert s; induction l as [|x t IH]; simpl; intros s H.
  - destruct H as [<-|[]]. intros a [].
  - apply in_app_or in H. destruct H as [H|H].
    + apply incl_tl. auto.
    + apply in_map_iff in H. destruct H as [s' [<- H]].
      intros a [->|Ha]; [left; reflexivity|right; apply (IH s' H a Ha)].
Qed.

(* every subset of l (as a set) is represented in sublists l *)
Lemma sublists_complete l s : incl s l -> exists s', In s' (sublists l) /\ set_eq s s'.
Proof.
  revert s; induction l as [|x t IH]; intros s H.
  - exists []. split; [left; reflexivity|]. split; [|intros a []].
    intros a Ha. apply H in Ha. destruct Ha.
  - destruct (IH (filter (fun a => negb (Nat.eqb a x)) s)) as [s' [Hin [H1 H2]]].
    { intros a Ha. apply filter_In in Ha. destruct Ha as [Ha Hne].
      apply negb_true_iff, Nat.eqb_neq in Hne. apply H in Ha. destruct Ha; [congruence|auto]. }
    destruct (memb x s) eqn:E.
    + exists (x :: s'). split.
      * simpl. apply in_or_app. right. apply in_map. exact Hin.
      * split; intros a Ha.
        -- destruct (Nat.eq_dec a x) as [->|Hne]; [left; reflexivity|right].
           apply H1. apply filter_In. split; [exact Ha|]. apply negb_true_iff, Nat.eqb_neq. exact Hne.
        -- destruct Ha as [<-|Ha]; [apply memb_In; exact E|].
           apply H2 in Ha. apply filter_In in Ha. tauto.
    + exists s'. split; [simpl; apply in_or_app; left; exact Hin|].
      split; intros a Ha.
      * apply H1. apply filter_In. split; [exact Ha|]. apply negb_true_iff, Nat.eqb_neq.
        intros ->. apply memb_false in E. contradiction.
      * apply H2 in Ha. apply filter_In in Ha. tauto.
Qed.
