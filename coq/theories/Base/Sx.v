(* S-expression values: the wire format between the Python harness and the executable models.
   A case is one [sx]; [run_case : sx -> sx] of each property decodes it inside Gallina, so the
   very same function is run by the extracted OCaml driver and by vm_compute spot checks. *)
From Coq Require Import List Arith Bool.
Import ListNotations.

Inductive sx : Type := I (n : nat) | L (l : list sx).

Definition sx_nat (s : sx) : nat := match s with I n => n | L _ => 0 end.
Definition sx_list (s : sx) : list sx := match s with L l => l | I _ => [] end.
Definition sx_nth (s : sx) (i : nat) : sx := nth i (sx_list s) (L []).
Definition sx_nats (s : sx) : list nat := map sx_nat (sx_list s).
Definition sx_bool (s : sx) : bool := negb (Nat.eqb (sx_nat s) 0).
Definition sx_pair (s : sx) : nat * nat := (sx_nat (sx_nth s 0), sx_nat (sx_nth s 1)).
Definition sx_pairs (s : sx) : list (nat * nat) := map sx_pair (sx_list s).
Definition sx_natss (s : sx) : list (list nat) := map sx_nats (sx_list s).

Definition of_bool (b : bool) : sx := I (if b then 1 else 0).
Definition of_nats (l : list nat) : sx := L (map I l).
Definition of_pair (p : nat * nat) : sx := L [I (fst p); I (snd p)].
Definition of_pairs (l : list (nat * nat)) : sx := L (map of_pair l).
Definition of_natss (l : list (list nat)) : sx := L (map of_nats l).
Definition of_option {A} (f : A -> sx) (o : option A) : sx :=
  match o with None => L [] | Some a => L [f a] end.
