(* C01: the hypotheses of the theorems are satisfiable on non-trivial inputs, with both outcomes. *)
From Coq Require Import List Arith Bool.
From PG Require Import Base.ListSet Base.Closure Graph.MGraph Graph.MSep Graph.MSepDec Graph.Walks
  C01.Model C01.Spec C01.Proofs.
Import ListNotations.

(* a 5-node ADMG with two edge types on the pair {0,1}:  0 -> 1, 0 <-> 1, 1 -> 2 <- 3, 1 <-> 3, 2 -> 4 *)
Definition g5 : mgraph := MkG [0;1;2;3;4] [(0,1);(1,2);(3,2);(2,4)] [(0,1);(1,3)] [] [].
(* an ancestral graph with an undirected edge:  0 -- 1 -> 2 <- 3 *)
Definition gu : mgraph := MkG [0;1;2;3] [(1,2);(3,2)] [] [(0,1)] [].

Lemma disjoint_b A B : disjointb A B = true -> disjoint A B.
Proof. intros H. exact (proj1 (disjointb_spec A B) H). Qed.
Lemma incl_b A B : subsetb A B = true -> incl A B.
Proof. intros H. exact (proj1 (subsetb_incl A B) H). Qed.

Example g5_class : wf g5 /\ acyclicb g5 = true /\ U g5 = [].
Proof. split; [reflexivity|]. split; reflexivity. Qed.
Example gu_class : wf gu /\ acyclicb gu = true /\ U gu <> [] /\ ancestral_und gu.
Proof.
  split; [reflexivity|]. split; [reflexivity|]. split; [discriminate|]. apply ancestral_undb_spec. reflexivity.
Qed.

(* both outcomes of the model on admissible queries *)
Example msep_nonvacuous_model :
  msep_model g5 [0] [3] [] = Some true /\ msep_model g5 [0] [3] [4] = Some false /\
  msep_model gu [0] [3] [] = Some true /\ msep_model gu [0] [3] [2] = Some false.
Proof. vm_compute. repeat split. Qed.

(* ... and what msep_correct makes of them: statements about m-connecting paths *)
Example msep_nonvacuous_sep : msep g5 [0] [3] [].
Proof.
  apply msep_correct; try (apply incl_b; reflexivity); try (apply disjoint_b; reflexivity).
  - reflexivity.
  - left; reflexivity.
  - vm_compute. reflexivity.
Qed.

Example msep_nonvacuous_conn : exists x y p, In x [0] /\ In y [3] /\ mconn g5 [4] x p y.
Proof.
  apply msep_correct_false; try (apply incl_b; reflexivity); try (apply disjoint_b; reflexivity).
  - reflexivity.
  - left; reflexivity.
  - vm_compute. reflexivity.
Qed.

Example msep_nonvacuous_und : msep gu [0] [3] [] /\ ~ msep gu [0] [3] [2].
Proof.
  assert (Hq : forall Z, subsetb Z (V gu) = true -> disjointb [0] Z = true ->
               (msep_model gu [0] [3] Z = Some true <-> msep gu [0] [3] Z)).
  { intros Z HZ HXZ. apply msep_correct; try (apply incl_b; assumption); try (apply disjoint_b; assumption).
    - reflexivity.
    - right. apply ancestral_undb_spec. reflexivity.
    - apply incl_b. reflexivity.
    - apply disjoint_b. reflexivity. }
  split.
  - apply Hq; reflexivity.
  - intros H. apply Hq in H; [|reflexivity|reflexivity]. vm_compute in H. discriminate.
Qed.

(* the guard fires: 0 -> 1 -> 0 *)
Example msep_guard_nonvacuous : msep_model (MkG [0;1] [(0,1);(1,0)] [] [] []) [0] [1] [] = None.
Proof. reflexivity. Qed.

(* without the ancestral condition the walk/path equivalence (and hence the path reading of the answer) can fail:
   0 -> 1 -- 2 with an arrowhead at the endpoint 1 of an undirected edge is outside the property's domain *)
Example outside_domain_not_ancestral : ancestral_undb (MkG [0;1;2] [(0,1)] [] [(1,2)] []) = false.
Proof. reflexivity. Qed.
