(* C01: executable model of m_separated (pywhy_graphs/networkx/algorithms/causal/m_separation.py L71-177).
   One clause per Python branch of the two-deque search; the deque discipline is abstracted into [closure]
   over states (node, arrival) where arrival = false: popped from backward_deque (reached through a tail, or start),
   true: popped from forward_deque (reached through an arrowhead). *)
From Coq Require Import List Arith Bool Lia.
From PG Require Import Base.ListSet Base.Closure Base.Sx Graph.MGraph Graph.MSep.
Import ListNotations.

Definition state := (nat * bool)%type.
Definition state_eqb (s t : state) : bool := Nat.eqb (fst s) (fst t) && Bool.eqb (snd s) (snd t).

Lemma state_eqb_eq s t : state_eqb s t = true <-> s = t.
Proof.
  destruct s as [a b], t as [c d]; unfold state_eqb; simpl.
  rewrite andb_true_iff, Nat.eqb_eq, Bool.eqb_true_iff.
  split; [intros [-> ->]; reflexivity|intros H; inversion H; auto].
Qed.

Definition bwd (l : list nat) : list state := map (fun v => (v, false)) l.
Definition fwd (l : list nat) : list state := map (fun v => (v, true)) l.

(* transcription of the loop body; [anZ] = Z ∪ ancestors(Z) *)
Definition sep_step (g : mgraph) (Z anZ : list nat) (s : state) : list state :=
  let v := fst s in
  if snd s then
    (* popped from forward_deque *)
    (if memb v anZ then bwd (parents g v) ++ fwd (siblings g v) else []) ++
    (if negb (memb v Z) then bwd (unbrs g v) ++ fwd (children g v) else [])
  else
    (* popped from backward_deque *)
    if memb v Z then []
    else bwd (unbrs g v) ++ bwd (parents g v) ++ fwd (children g v) ++ fwd (siblings g v).

Definition sep_reach (g : mgraph) (X Z : list nat) : list state :=
  closure state_eqb (sep_step g Z (anc_of g Z)) (bwd X) (2 * length (V g)).

(* None = the implementation raises (directed layer cyclic) *)
Definition msep_model (g : mgraph) (X Y Z : list nat) : option bool :=
  if acyclicb g then Some (negb (existsb (fun s => memb (fst s) Y) (sep_reach g X Z)))
  else None.

Definition res_code (o : option bool) : sx := match o with Some b => of_bool b | None => I 2 end.

(* run_case: L [I 0; graph; L [ L [X; Y; Z]; ... ]] -> per query: model result and brute-force oracle (msep_dec)
   result code: 0 false / 1 true / 2 raises (model only).   L [I 1; ...] -> model only (for large graphs) *)
Definition run_case (s : sx) : sx :=
  let g := sx_graph (sx_nth s 1) in
  let qs := sx_list (sx_nth s 2) in
  let q3 (q : sx) := (sx_nats (sx_nth q 0), sx_nats (sx_nth q 1), sx_nats (sx_nth q 2)) in
  match sx_nat (sx_nth s 0) with
  | 0 => L (map (fun q => let '(X, Y, Z) := q3 q in
                          L [res_code (msep_model g X Y Z); of_bool (msep_dec g X Y Z)]) qs)
  | _ => L (map (fun q => let '(X, Y, Z) := q3 q in L [res_code (msep_model g X Y Z)]) qs)
  end.
