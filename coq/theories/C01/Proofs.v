(* C01: msep_model (transcription of m_separated) decides m-separation.
   Route: closure_spec  ->  "a state (b, h) is reachable  <->  an open walk from X ends in b with arrival mark h"
          (sep_reach_walk);  open walk <-> m-connecting path by Graph/Walks.open_walk_to_path. *)
From Coq Require Import List Arith Bool Lia.
From PG Require Import Base.ListSet Base.Closure Graph.MGraph Graph.MSep Graph.MSepDec Graph.Walks C01.Model C01.Spec C01.Run.
Import ListNotations.

(* ------------------------------------------------------------------ one transition = one admissible step *)
Lemma In_bwd b h l : In (b, h) (bwd l) <-> h = false /\ In b l.
Proof.
  unfold bwd. rewrite in_map_iff. split.
  - intros [v [E H]]. inversion E; subst. auto.
  - intros [-> H]. exists b. auto.
Qed.
Lemma In_fwd b h l : In (b, h) (fwd l) <-> h = true /\ In b l.
Proof.
  unfold fwd. rewrite in_map_iff. split.
  - intros [v [E H]]. inversion E; subst. auto.
  - intros [-> H]. exists b. auto.
Qed.

(* the condition under which the search leaves node a (popped with arrival mark h) through a step of kind k *)
Definition mcond (g : mgraph) (Z : list nat) (h : bool) (a : nat) (k : skind) : Prop :=
  if h && arrow_src k then in_anc g Z a else ~ In a Z.

Lemma sep_step_spec g Z a h b h' : incl Z (V g) ->
  (In (b, h') (sep_step g Z (anc_of g Z) (a, h)) <->
   exists k, In b (V g) /\ has_step g a k b = true /\ h' = arrow_tgt k /\ mcond g Z h a k).
Proof.
  intros HZ. unfold sep_step, mcond. cbn [fst snd].
  pose proof (in_anc_spec g Z a HZ) as HA.
  destruct h.
  - split.
    + intros H. apply in_app_or in H. destruct H as [H|H].
      * destruct (memb a (anc_of g Z)) eqn:E; [|destruct H].
        apply in_app_or in H. destruct H as [H|H].
        -- apply In_bwd in H. destruct H as [-> H]. apply parents_In in H.
           exists Bwd. cbn. repeat split; try tauto.
        -- apply In_fwd in H. destruct H as [-> H]. apply siblings_In in H.
           exists Bi. cbn. repeat split; try tauto.
      * destruct (memb a Z) eqn:E; cbn [negb] in H; [destruct H|]. apply memb_false in E.
        apply in_app_or in H. destruct H as [H|H].
        -- apply In_bwd in H. destruct H as [-> H]. apply unbrs_In in H.
           exists Un. cbn. repeat split; try tauto.
        -- apply In_fwd in H. destruct H as [-> H]. apply children_In in H.
           exists Fwd. cbn. repeat split; try tauto.
    + intros [k [Hb [Hs [-> Hc]]]]. apply in_or_app. destruct k; cbn in Hs, Hc |- *.
      * right. apply memb_false in Hc. rewrite Hc. cbn [negb]. apply in_or_app. right.
        apply In_fwd. split; [reflexivity|]. apply children_In. tauto.
      * left. apply HA in Hc. rewrite Hc. apply in_or_app. left.
        apply In_bwd. split; [reflexivity|]. apply parents_In. tauto.
      * left. apply HA in Hc. rewrite Hc. apply in_or_app. right.
        apply In_fwd. split; [reflexivity|]. apply siblings_In. tauto.
      * right. apply memb_false in Hc. rewrite Hc. cbn [negb]. apply in_or_app. left.
        apply In_bwd. split; [reflexivity|]. apply unbrs_In. tauto.
  - cbn [andb]. split.
    + intros H. destruct (memb a Z) eqn:E; [destruct H|]. apply memb_false in E.
      apply in_app_or in H. destruct H as [H|H]; [|apply in_app_or in H; destruct H as [H|H];
        [|apply in_app_or in H; destruct H as [H|H]]].
      * apply In_bwd in H. destruct H as [-> H]. apply unbrs_In in H. exists Un. cbn. repeat split; tauto.
      * apply In_bwd in H. destruct H as [-> H]. apply parents_In in H. exists Bwd. cbn. repeat split; tauto.
      * apply In_fwd in H. destruct H as [-> H]. apply children_In in H. exists Fwd. cbn. repeat split; tauto.
      * apply In_fwd in H. destruct H as [-> H]. apply siblings_In in H. exists Bi. cbn. repeat split; tauto.
    + intros [k [Hb [Hs [-> Hc]]]]. apply memb_false in Hc. rewrite Hc.
      destruct k; cbn in Hs |- *.
      * apply in_or_app; right. apply in_or_app; right. apply in_or_app; left.
        apply In_fwd. split; [reflexivity|]. apply children_In. tauto.
      * apply in_or_app; right. apply in_or_app; left.
        apply In_bwd. split; [reflexivity|]. apply parents_In. tauto.
      * apply in_or_app; right. apply in_or_app; right. apply in_or_app; right.
        apply In_fwd. split; [reflexivity|]. apply siblings_In. tauto.
      * apply in_or_app; left.
        apply In_bwd. split; [reflexivity|]. apply unbrs_In. tauto.
Qed.

(* ------------------------------------------------------------------ reachable states = ends of open walks *)
Definition hb (arr : option skind) : bool := match arr with None => false | Some k => arrow_tgt k end.

Lemma mcond_ccond g Z arr a k : (arr = None -> ~ In a Z) -> (mcond g Z (hb arr) a k <-> ccond g Z arr a k).
Proof.
  intros H0. destruct arr as [k1|]; unfold mcond, ccond, hb, collider; [tauto|].
  cbn [andb]. split; [auto|]. intros _. exact (H0 eq_refl).
Qed.

Lemma larr_none p : larr None p = None -> p = [].
Proof.
  intros H. destruct p as [|s t]; [reflexivity|]. destruct (larr_some (s :: t) None) as [k E]; [discriminate|].
  congruence.
Qed.

Definition walk_state (g : mgraph) (X Z : list nat) (s : state) : Prop :=
  exists x p, In x X /\ steps_ok g x p /\ wopen g Z None x p /\ (p <> [] -> ~ In x Z) /\
              last_node x p = fst s /\ snd s = hb (larr None p).

Lemma reach_walk g X Z : incl Z (V g) -> forall s,
  reach (sep_step g Z (anc_of g Z)) (bwd X) s -> walk_state g X Z s.
Proof.
  intros HZ s R. induction R as [[a h] Hs|[a h] [b h'] R IH Hs].
  - apply In_bwd in Hs. destruct Hs as [-> Hx]. exists a, []. cbn. repeat split; auto; congruence.
  - destruct IH as [x [p [Hx [Hst [Hop [Hxz [Hl Hh]]]]]]]. cbn [fst snd] in Hl, Hh.
    apply (sep_step_spec g Z a h b h' HZ) in Hs. destruct Hs as [k [Hb [Hs [-> Hc]]]].
    assert (HxZ : ~ In x Z).
    { destruct p as [|s0 p0]; [|apply Hxz; discriminate].
      rewrite last_node_nil in Hl. subst a. cbn in Hh. subst h. unfold mcond in Hc. cbn in Hc. exact Hc. }
    exists x, (p ++ [(k, b)]). cbn [fst snd]. repeat split; auto.
    + apply steps_ok_app. split; [exact Hst|]. rewrite Hl. cbn [steps_ok]. tauto.
    + apply wopen_app. split; [exact Hop|]. rewrite Hl. cbn [wopen]. split; [|exact Logic.I].
      subst h. apply mcond_ccond; [|exact Hc].
      intros E. apply larr_none in E. subst p. rewrite last_node_nil in Hl. subst a. exact HxZ.
    + rewrite last_node_app, last_node_cons. reflexivity.
    + rewrite larr_app. reflexivity.
Qed.

Lemma walk_reach g X Z : incl Z (V g) -> forall p x,
  In x X -> steps_ok g x p -> wopen g Z None x p -> (p <> [] -> ~ In x Z) ->
  reach (sep_step g Z (anc_of g Z)) (bwd X) (last_node x p, hb (larr None p)).
Proof.
  intros HZ p. induction p as [|[k b] q IH] using rev_ind; intros x Hx Hst Hop Hxz.
  - apply reach_init. apply In_bwd. auto.
  - apply steps_ok_app in Hst. destruct Hst as [Hst [Hb [Hs _]]].
    apply wopen_app in Hop. destruct Hop as [Hop [Hc _]].
    assert (HxZ : ~ In x Z). { apply Hxz. intros E. apply app_eq_nil in E. destruct E; discriminate. }
    apply reach_step with (last_node x q, hb (larr None q)).
    + apply IH; auto.
    + rewrite last_node_app, last_node_cons, larr_app. cbn [larr hb].
      apply (sep_step_spec g Z _ _ _ _ HZ). exists k. repeat split; auto.
      apply mcond_ccond; [|exact Hc].
      intros E. apply larr_none in E. subst q. rewrite last_node_nil. exact HxZ.
Qed.

Lemma sep_reach_spec g X Z s : incl X (V g) -> incl Z (V g) ->
  (In s (sep_reach g X Z) <-> reach (sep_step g Z (anc_of g Z)) (bwd X) s).
Proof.
  intros HX HZ. unfold sep_reach.
  apply closure_spec with (univ := bwd (V g) ++ fwd (V g)).
  - apply state_eqb_eq.
  - intros [a h] _ [b h'] Hb. apply (sep_step_spec g Z a h b h' HZ) in Hb.
    destruct Hb as [k [Hb _]]. apply in_or_app. destruct h'; [right; apply In_fwd|left; apply In_bwd]; auto.
  - intros [a h] Ha. apply In_bwd in Ha. destruct Ha as [-> Ha]. apply in_or_app. left. apply In_bwd. auto.
  - unfold bwd, fwd. rewrite app_length, !map_length. lia.
Qed.

(* ------------------------------------------------------------------ theorems *)
(* unbounded, for EVERY graph with an acyclic directed layer (no condition on undirected edges, X and Y may overlap):
   the model answers True exactly when no open walk joins X and Y *)
Theorem msep_correct_walk g X Y Z : acyclicb g = true -> incl X (V g) -> incl Z (V g) -> disjoint X Z ->
  (msep_model g X Y Z = Some true <-> forall x y p, In x X -> In y Y -> ~ wconn g Z x p y).
Proof.
  intros Hacy HX HZ HXZ. unfold msep_model. rewrite Hacy. split.
  - intros H x y p Hx Hy [Hst [Hl Hop]].
    assert (E : existsb (fun s => memb (fst s) Y) (sep_reach g X Z) = false).
    { destruct (existsb _ _); [discriminate|reflexivity]. }
    assert (R : In (last_node x p, hb (larr None p)) (sep_reach g X Z)).
    { apply sep_reach_spec; [exact HX|exact HZ|]. apply walk_reach; [exact HZ|exact Hx|exact Hst| |].
      - apply (open_inner_wopen g Z x p). exact Hop.
      - intros _. apply HXZ. exact Hx. }
    assert (E' : existsb (fun s => memb (fst s) Y) (sep_reach g X Z) = true).
    { apply existsb_exists. eexists. split; [exact R|]. cbn [fst]. apply memb_In. rewrite Hl. exact Hy. }
    congruence.
  - intros H. destruct (existsb (fun s => memb (fst s) Y) (sep_reach g X Z)) eqn:E; [|reflexivity].
    exfalso. apply existsb_exists in E. destruct E as [s [Hs Hy]]. apply memb_In in Hy.
    apply sep_reach_spec in Hs; auto. apply (reach_walk g X Z HZ) in Hs.
    destruct Hs as [x [p [Hx [Hst [Hop [_ [Hl _]]]]]]].
    apply (H x (fst s) p Hx Hy). repeat split; auto.
    apply (open_inner_wopen g Z x p). exact Hop.
Qed.

Lemma mconn_wconn g Z x p y : mconn g Z x p y -> wconn g Z x p y.
Proof. intros [_ [Hst [_ [Hl Hop]]]]. repeat split; assumption. Qed.

(* the property: True exactly when no m-connecting PATH joins X and Y *)
Theorem msep_correct g X Y Z :
  acyclicb g = true -> (U g = [] \/ ancestral_und g) ->
  incl X (V g) -> incl Z (V g) -> disjoint X Y -> disjoint X Z ->
  (msep_model g X Y Z = Some true <-> msep g X Y Z).
Proof.
  intros Hacy Hanc HX HZ HXY HXZ.
  assert (Hanc' : ancestral_und g). { destruct Hanc as [H|H]; [apply no_und_ancestral; exact H|exact H]. }
  rewrite (msep_correct_walk g X Y Z Hacy HX HZ HXZ). unfold msep. split.
  - intros H x y p Hx Hy Hc. apply (H x y p Hx Hy). apply mconn_wconn. exact Hc.
  - intros H x y p Hx Hy [Hst [Hl Hop]].
    assert (Hxy : x <> y). { intros ->. apply (HXY y Hx Hy). }
    destruct (open_walk_to_path g Z x y p) as [p' [Hc _]]; auto.
    + apply acyclicb_spec. exact Hacy.
    + apply (H x y p' Hx Hy Hc).
Qed.

Lemma msep_model_some g X Y Z : acyclicb g = true -> exists b, msep_model g X Y Z = Some b.
Proof. intros H. unfold msep_model. rewrite H. eexists. reflexivity. Qed.

(* both answers, and agreement with the brute-force oracle *)
Corollary msep_correct_false g X Y Z :
  acyclicb g = true -> (U g = [] \/ ancestral_und g) ->
  incl X (V g) -> incl Z (V g) -> disjoint X Y -> disjoint X Z ->
  (msep_model g X Y Z = Some false <-> exists x y p, In x X /\ In y Y /\ mconn g Z x p y).
Proof.
  intros Hacy Hanc HX HZ HXY HXZ.
  pose proof (msep_correct g X Y Z Hacy Hanc HX HZ HXY HXZ) as HC.
  rewrite <- (msep_dec_spec g X Y Z HZ) in HC.
  rewrite <- (msep_dec_false g X Y Z HZ).
  destruct (msep_model_some g X Y Z Hacy) as [b E]. rewrite E in *.
  destruct b, (msep_dec g X Y Z); split; intros H; try reflexivity; try congruence.
  - destruct HC as [HC _]. specialize (HC eq_refl). discriminate.
  - destruct HC as [_ HC]. specialize (HC eq_refl). discriminate.
Qed.

Corollary msep_model_dec g X Y Z :
  acyclicb g = true -> (U g = [] \/ ancestral_und g) ->
  incl X (V g) -> incl Z (V g) -> disjoint X Y -> disjoint X Z ->
  msep_model g X Y Z = Some (msep_dec g X Y Z).
Proof.
  intros Hacy Hanc HX HZ HXY HXZ.
  pose proof (msep_correct g X Y Z Hacy Hanc HX HZ HXY HXZ) as HC.
  rewrite <- (msep_dec_spec g X Y Z HZ) in HC.
  destruct (msep_model_some g X Y Z Hacy) as [b E]. rewrite E in *.
  destruct b, (msep_dec g X Y Z); try reflexivity.
  - destruct HC as [HC _]. specialize (HC eq_refl). discriminate.
  - destruct HC as [_ HC]. specialize (HC eq_refl). discriminate.
Qed.

(* swapping X and Y never changes the answer *)
Theorem msep_symmetric g X Y Z :
  (U g = [] \/ ancestral_und g) ->
  incl X (V g) -> incl Y (V g) -> incl Z (V g) -> disjoint X Y -> disjoint X Z -> disjoint Y Z ->
  msep_model g X Y Z = msep_model g Y X Z.
Proof.
  intros Hanc HX HY HZ HXY HXZ HYZ.
  destruct (acyclicb g) eqn:Hacy; [|unfold msep_model; rewrite Hacy; reflexivity].
  assert (HYX : disjoint Y X). { intros a Ha Hb. apply (HXY a Hb Ha). }
  pose proof (msep_correct g X Y Z Hacy Hanc HX HZ HXY HXZ) as H1.
  pose proof (msep_correct g Y X Z Hacy Hanc HY HZ HYX HYZ) as H2.
  rewrite (msep_sym g X Y Z HX HY) in H1. rewrite <- H2 in H1.
  destruct (msep_model_some g X Y Z Hacy) as [b1 E1]. destruct (msep_model_some g Y X Z Hacy) as [b2 E2].
  rewrite E1, E2 in *. destruct b1, b2; try reflexivity.
  - destruct H1 as [H1 _]. specialize (H1 eq_refl). discriminate.
  - destruct H1 as [_ H1]. specialize (H1 eq_refl). discriminate.
Qed.

(* the guard: a directed cycle makes the call raise, whatever X, Y, Z *)
Theorem msep_guard g X Y Z : (exists v, dpl g v v) -> msep_model g X Y Z = None.
Proof. intros H. apply acyclicb_false in H. unfold msep_model. rewrite H. reflexivity. Qed.

Theorem msep_guard_iff g X Y Z : msep_model g X Y Z = None <-> exists v, dpl g v v.
Proof.
  rewrite <- acyclicb_false. unfold msep_model. destruct (acyclicb g); split; intros H; congruence.
Qed.

(* ------------------------------------------------------------------ the theorem in the boolean form the harness measures *)
(* Run.class_flags / Run.query_ok are emitted by the extracted driver for every generated case; when they are all true
   (the harness requires it) the case lies in the domain of msep_correct, and the model answer is the m-separation fact *)
Theorem msep_correct_b g X Y Z :
  acyclicb g = true -> ancestral_undb g = true -> query_ok g X Y Z = true ->
  (msep_model g X Y Z = Some true <-> msep g X Y Z) /\
  (msep_model g X Y Z = Some false <-> exists x y p, In x X /\ In y Y /\ mconn g Z x p y) /\
  msep_model g X Y Z = Some (msep_dec g X Y Z) /\
  msep_model g X Y Z = msep_model g Y X Z.
Proof.
  intros Hacy Hanc Hq. unfold query_ok in Hq. rewrite !andb_true_iff in Hq.
  destruct Hq as [[[[[HX HY] HZ] HXY] HXZ] HYZ].
  apply subsetb_incl in HX, HY, HZ.
  pose proof (proj1 (disjointb_spec X Y) HXY) as DXY.
  pose proof (proj1 (disjointb_spec X Z) HXZ) as DXZ.
  pose proof (proj1 (disjointb_spec Y Z) HYZ) as DYZ.
  assert (HA : U g = [] \/ ancestral_und g). { right. apply ancestral_undb_spec. exact Hanc. }
  split; [apply msep_correct; assumption|].
  split; [apply msep_correct_false; assumption|].
  split; [apply msep_model_dec; assumption|].
  apply msep_symmetric; assumption.
Qed.
