(* C01: run_case of the extracted driver.  As C01.Model.run_case, plus the boolean forms of the theorems' hypotheses
   (graph class, admissible query), so that the harness can MEASURE that every generated case lies in the domain of
   msep_correct (Proofs.msep_correct_b is the theorem stated with exactly these booleans). *)
From Coq Require Import List Arith Bool.
From PG Require Import Base.ListSet Base.Closure Base.Sx Graph.MGraph Graph.MSep Graph.Walks C01.Model.
Import ListNotations.

(* graph class of the property: well-formed, directed layer acyclic, no arrowhead at an endpoint of an undirected edge *)
Definition class_flags (g : mgraph) : list bool := [wfb g; acyclicb g; ancestral_undb g].

(* admissible query: node sets of g, pairwise disjoint *)
Definition query_ok (g : mgraph) (X Y Z : list nat) : bool :=
  subsetb X (V g) && subsetb Y (V g) && subsetb Z (V g) &&
  disjointb X Y && disjointb X Z && disjointb Y Z.

(* L [I mode; graph; L [ L [X; Y; Z]; ... ]]  ->  L [ L [wf; acyclic; ancestral];  L [ L [res; query_ok; (oracle)]; ... ] ]
   res: 0 false / 1 true / 2 raises.  mode 0: with the brute-force oracle msep_dec, mode 1: without (large graphs) *)
Definition run_case (s : sx) : sx :=
  let g := sx_graph (sx_nth s 1) in
  let qs := sx_list (sx_nth s 2) in
  let with_oracle := Nat.eqb (sx_nat (sx_nth s 0)) 0 in
  let q3 (q : sx) := (sx_nats (sx_nth q 0), sx_nats (sx_nth q 1), sx_nats (sx_nth q 2)) in
  L [ L (map of_bool (class_flags g));
      L (map (fun q => let '(X, Y, Z) := q3 q in
                       L ([res_code (msep_model g X Y Z); of_bool (query_ok g X Y Z)] ++
                          (if with_oracle then [of_bool (msep_dec g X Y Z)] else []))) qs) ].
