(* C01 — the property as Props over the formal mixed graph.

   Property text: "For a mixed graph with directed, bidirected and undirected edges and pairwise-disjoint node sets
   X, Y, Z, m_separated(G, X, Y, Z) returns True exactly when no path between a node of X and a node of Y is
   m-connecting given Z (every collider on the path is in Z or has a directed descendant in Z, and every non-collider
   is outside Z). Swapping X and Y never changes the answer, and the call never mutates G."
   Domain: directed part acyclic; (a) arbitrary ADMGs (several edge types on one pair allowed) or (b) graphs with
   undirected edges where no arrowhead points at an endpoint of an undirected edge.

   Vocabulary (Graph/MSep.v, Graph/Walks.v):
     msep g X Y Z      no x in X, y in Y and SIMPLE step-path p from x to y with  mconn g Z x p y
     mconn             every collider of the path is in An*(Z) (in_anc = reflexive directed ancestor of a member of Z),
                       every non-collider inner node is outside Z; a step names its layer (Fwd/Bwd/Bi/Un)
     acyclicb g        boolean test of the model's guard;  acyclicb g = true <-> acyclic g (no directed cycle) is
                       Walks.acyclicb_spec
     ancestral_und g   no arrowhead (directed or bidirected) at an endpoint of an undirected edge
     msep_model        C01/Model.v, the transcription of m_separated: None = raises, Some b = returns b
   "never mutates G" is not a statement about the functional model; it is observed on the implementation by the harness. *)
From Coq Require Import List Arith Bool.
From PG Require Import Base.ListSet Base.Closure Graph.MGraph Graph.MSep Graph.Walks C01.Model.
Import ListNotations.

Definition disjoint (A B : list nat) : Prop := forall a, In a A -> ~ In a B.

(* an open walk from x to y given Z (nodes may repeat; p = [] is the trivial walk, x = y) *)
Definition wconn (g : mgraph) (Z : list nat) (x : nat) (p : spath) (y : nat) : Prop :=
  steps_ok g x p /\ last_node x p = y /\ open_inner g Z p.

(* the class of graphs of the property's quantifier *)
Definition c01_graph (g : mgraph) : Prop := acyclicb g = true /\ (U g = [] \/ ancestral_und g).
(* admissible queries (Y and Z need not be disjoint for the main clause; they must be for symmetry) *)
Definition c01_query (g : mgraph) (X Y Z : list nat) : Prop :=
  incl X (V g) /\ incl Z (V g) /\ disjoint X Y /\ disjoint X Z.

(* main clause *)
Definition msep_correct_stmt : Prop := forall g X Y Z,
  acyclicb g = true -> (U g = [] \/ ancestral_und g) ->
  incl X (V g) -> incl Z (V g) -> disjoint X Y -> disjoint X Z ->
  (msep_model g X Y Z = Some true <-> msep g X Y Z).

(* symmetry clause *)
Definition msep_symmetric_stmt : Prop := forall g X Y Z,
  (U g = [] \/ ancestral_und g) ->
  incl X (V g) -> incl Y (V g) -> incl Z (V g) -> disjoint X Y -> disjoint X Z -> disjoint Y Z ->
  msep_model g X Y Z = msep_model g Y X Z.

(* guard clause: raises exactly on a directed cycle *)
Definition msep_guard_stmt : Prop := forall g X Y Z,
  msep_model g X Y Z = None <-> exists v, dpl g v v.
