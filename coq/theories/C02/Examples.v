(* C02 — the hypotheses of the theorems are satisfiable on a non-trivial history (kernel-evaluated). *)
From Coq Require Import List Arith Bool.
From PG Require Import Base.ListSet Base.Sx C02.Model C02.Spec.
Import ListNotations.

(* ADMG(): add_edge(0,1,'directed', a0=1); add_edge_type(nx.Graph([(2,1)]),'extra'); add_edge(1,2,'all');
   copy(); on the copy: remove_node(1); on the original: remove_edge(0,1,'bidirected'); subgraph([1,2]);
   add_edge(0,3,'extra') on an ADMG without that type is the documented error *)
Definition ex_h : list (nat * op) :=
  [ (0, AddEdge 0 1 (SName 0) [(0, 1)]);
    (0, AddType 3 Und [(2, 1)]);
    (0, AddEdge 1 2 SAll []);
    (0, Copy);
    (1, RemNode 1);
    (0, RemEdge 0 1 (SName 1));
    (0, Subgraph [1; 2]);
    (2, AddEdge 0 3 (SName 3) []);
    (1, RemType 3);
    (1, AddEdge 0 3 (SName 3) []) ].

Example ex_objects : length (run 1 ex_h) = 3.
Proof. reflexivity. Qed.

(* edges per object (number_of_edges()): original 5 ({0->1, 1->2} directed, 1-2 bidirected, 1-2 undirected, 1-2 extra);
   copy after remove_node(1): 0 ; subgraph([1,2]) + 0-3 in 'extra': 5 *)
Example ex_counts : map q_noe (run 1 ex_h) = [5; 0; 5] /\ map q_size (run 1 ex_h) = [5; 0; 5].
Proof. split; reflexivity. Qed.

Example ex_outcomes :
  outcomes CA (init 1) ex_h = [Ok; Ok; Ok; Ok; Ok; Either; Ok; Ok; Ok; Err].
Proof. reflexivity. Qed.

(* copy is equal at the time of the copy, independent afterwards *)
Example ex_copy :
  let st := run_from CA (init 1) (firstn 3 ex_h) in
  nth_error (fst (step CA st (0, Copy))) 1 = nth_error st 0 /\
  nth_error (run 1 ex_h) 0 <> nth_error (run 1 ex_h) 1.
Proof. split; [reflexivity|]. vm_compute. discriminate. Qed.

(* the subgraph hypothesis (nodes present) holds for ex_h's subgraph call *)
Example ex_subgraph_hyp :
  let st := run_from CA (init 1) (firstn 6 ex_h) in
  exists s, nth_error st 0 = Some s /\ forallb (c_has_node s) [1; 2] = true.
Proof. eexists. split; reflexivity. Qed.

(* the wire format round trip used by the tie: one step of run_case on a tiny history *)
Example ex_run_case :
  run_case (L [I 1; I 2; L [L [I 2; I 0; I 0; I 1; I 0; L []]]]) <> L [].
Proof. vm_compute. discriminate. Qed.
