(* C02: executable model of the MixedEdgeGraph / ADMG container
   (pywhy_graphs/networkx/classes/mixededge.py, pywhy_graphs/classes/admg.py) as a state machine over histories.

   The operation semantics [step1] / [step] is written ONCE, generically over an algebra of primitive
   state transformers ([alg]); it is instantiated
     - here with the concrete container state [mstate] (master node dict + one record per layer, each layer with
       its own node list and edge list, like one networkx graph per edge type) : instance [CA], and
     - in Spec.v with the abstract state "set of nodes, name -> kind, set of edges per layer" : instance [AA].
   The refinement theorem (Proofs.v) says that [abs] is a homomorphism between the two, hence commutes with every history.

   Universe conventions of the wire format: nodes 0..N-1, layer names 0 directed, 1 bidirected, 2 undirected, 3 extra,
   edge-type selector 4 = "all"; kind 0 = Und (nx.Graph), 1 = Dir (nx.DiGraph); attribute keys 0..2, small int values.
   No proofs in this file. *)
From Coq Require Import List Arith Bool.
From PG Require Import Base.ListSet Base.Sx.
Import ListNotations.

(* ------------------------------------------------------------------ vocabulary *)
Definition attrs := list (nat * nat).          (* newest binding first; read through [alookup] *)
Fixpoint alookup (k : nat) (a : attrs) : option nat :=
  match a with [] => None | (k', v) :: t => if Nat.eqb k k' then Some v else alookup k t end.
Definition aupd (new old : attrs) : attrs := new ++ old.      (* dict.update *)

Inductive kind := Und | Dir.
Inductive sel := SAll | SName (l : nat).
Inductive outcome := Ok | Either | Err.
(* Ok: the call must succeed.  Err: the class documents an error (edge operation on an absent edge type).
   Either: malformed / undocumented (absent node, absent edge, duplicate or absent edge type): raising or not is not
   compared, the state afterwards is. *)

Inductive op :=
| AddNode (n : nat) (a : attrs)
| AddNodes (ns : list nat) (a : attrs)
| AddEdge (u v : nat) (t : sel) (a : attrs)
| AddEdges (es : list (nat * nat * attrs)) (t : sel)
| RemNode (n : nat)
| RemNodes (ns : list nat)
| RemEdge (u v : nat) (t : sel)
| RemEdges (es : list (nat * nat)) (t : sel)
| ClearEdges (t : sel)
| AddType (l : nat) (k : kind) (es : list (nat * nat))
| RemType (l : nat)
| SetGAttr (a : attrs)
| Copy
| Subgraph (ns : list nat)
| ClearAll
| EditNode (n : nat) (a : attrs)                         (* G.nodes[n].update(a) *)
| EditEdge (u v l : nat) (a : attrs)                     (* G.get_graphs(l).edges[u, v].update(a) *)
| Update (ns : list nat) (es : list (nat * nat * attrs)) (t : sel).   (* G.update(edges=es, nodes=ns, edge_type=t) *)

Definition sel_match (t : sel) (l : nat) : bool :=
  match t with SAll => true | SName l' => Nat.eqb l l' end.

Definition same_edge (k : kind) (u v x y : nat) : bool :=
  (Nat.eqb u x && Nat.eqb v y) || match k with Und => Nat.eqb u y && Nat.eqb v x | Dir => false end.

(* ------------------------------------------------------------------ the algebra of primitives *)
Record alg (S : Type) := mkAlg {
  has_node : S -> nat -> bool;
  layer_kind : S -> nat -> option kind;
  has_edge : S -> nat -> nat -> nat -> bool;            (* layer, u, v ; false if the layer is absent *)
  p_add_node : nat -> attrs -> S -> S;                  (* add to master and every layer / update attrs *)
  p_del_node : nat -> S -> S;                           (* with incident edges of every layer *)
  p_ins_edge : sel -> nat -> nat -> attrs -> S -> S;    (* into the selected existing layers; endpoints must be nodes *)
  p_del_edge : sel -> nat -> nat -> S -> S;
  p_clear : sel -> S -> S;
  p_add_layer : nat -> kind -> S -> S;                  (* empty layer on the current nodes; no-op if the name exists *)
  p_del_layer : nat -> S -> S;
  p_set_gattr : attrs -> S -> S;
  p_clear_all : S -> S;                                 (* clear(): no nodes, no edges, no graph attrs; edge types stay *)
  p_restrict : list nat -> S -> S                       (* induced subgraph, attributes of nodes and edges dropped *)
}.
Arguments has_node {S}. Arguments layer_kind {S}. Arguments has_edge {S}.
Arguments p_add_node {S}. Arguments p_del_node {S}. Arguments p_ins_edge {S}. Arguments p_del_edge {S}.
Arguments p_clear {S}. Arguments p_add_layer {S}. Arguments p_del_layer {S}. Arguments p_set_gattr {S}.
Arguments p_restrict {S}. Arguments p_clear_all {S}.

Section Generic.
  Context {S : Type} (A : alg S).

  Definition add_nodes (ns : list nat) (a : attrs) (s : S) : S :=
    fold_left (fun s n => p_add_node A n a s) ns s.
  Definition add_ends2 (es : list (nat * nat)) (s : S) : S :=
    fold_left (fun s e => p_add_node A (snd e) [] (p_add_node A (fst e) [] s)) es s.
  Definition add_ends3 (es : list (nat * nat * attrs)) (s : S) : S :=
    fold_left (fun s e => p_add_node A (snd (fst e)) [] (p_add_node A (fst (fst e)) [] s)) es s.
  Definition ins_edges3 (t : sel) (es : list (nat * nat * attrs)) (s : S) : S :=
    fold_left (fun s e => p_ins_edge A t (fst (fst e)) (snd (fst e)) (snd e) s) es s.
  Definition ins_edges2 (t : sel) (es : list (nat * nat)) (s : S) : S :=
    fold_left (fun s e => p_ins_edge A t (fst e) (snd e) [] s) es s.
  Definition del_edges (t : sel) (es : list (nat * nat)) (s : S) : S :=
    fold_left (fun s e => p_del_edge A t (fst e) (snd e) s) es s.
  Definition del_nodes (ns : list nat) (s : S) : S :=
    fold_left (fun s n => p_del_node A n s) ns s.

  (* absent edge type named in an edge operation: documented error *)
  Definition sel_ok (t : sel) (s : S) : bool :=
    match t with SAll => true | SName l => match layer_kind A s l with Some _ => true | None => false end end.

  (* one public mutation on one object *)
  Definition step1 (o : op) (s : S) : S * outcome :=
    match o with
    | AddNode n a => (p_add_node A n a s, Ok)
    | AddNodes ns a => (add_nodes ns a s, Ok)
    | AddEdge u v t a =>
        (* "The nodes u and v will be automatically added if they are not already in the graph"; an absent edge type
           is the documented error and is detected first: the call raises and leaves the graph unchanged *)
        let s1 := p_add_node A v [] (p_add_node A u [] s) in
        if sel_ok t s then (p_ins_edge A t u v a s1, Ok) else (s, Err)
    | AddEdges es t =>
        let s1 := add_ends3 es s in
        if sel_ok t s then (ins_edges3 t es s1, Ok) else (s, Err)
    | RemNode n => if has_node A s n then (p_del_node A n s, Ok) else (s, Either)
    | RemNodes ns => (del_nodes ns s, Ok)
    | RemEdge u v t =>
        match t with
        | SAll => (p_del_edge A SAll u v s, Either)
        | SName l =>
            if sel_ok t s then
              if has_edge A s l u v then (p_del_edge A t u v s, Ok) else (s, Either)
            else (s, Err)
        end
    | RemEdges es t => if sel_ok t s then (del_edges t es s, Ok) else (s, Err)
    | ClearEdges t => if sel_ok t s then (p_clear A t s, Ok) else (s, Err)
    | AddType l k es =>
        match layer_kind A s l with
        | Some _ => (s, Either)
        | None => (ins_edges2 (SName l) es (add_ends2 es (p_add_layer A l k s)), Ok)
        end
    | RemType l =>
        match layer_kind A s l with
        | Some _ => (p_del_layer A l s, Ok)
        | None => (s, Either)
        end
    | SetGAttr a => (p_set_gattr A a s, Ok)
    | Copy => (s, Ok)
    | Subgraph _ => (s, Ok)
    | ClearAll => (p_clear_all A s, Ok)
    | EditNode n a => if has_node A s n then (p_add_node A n a s, Ok) else (s, Either)
    | EditEdge u v l a => if has_edge A s l u v then (p_ins_edge A (SName l) u v a s, Ok) else (s, Either)
    | Update ns es t =>
        (* edges first, then the extra nodes; an absent edge type raises and leaves the graph unchanged *)
        if sel_ok t s then (add_nodes ns [] (ins_edges3 t es (add_ends3 es s)), Ok) else (s, Err)
    end.

  Fixpoint set_nth (i : nat) (x : S) (l : list S) : list S :=
    match l, i with
    | [], _ => []
    | _ :: t, 0 => x :: t
    | y :: t, Datatypes.S j => y :: set_nth j x t
    end.

  (* the store of live objects; copy / subgraph allocate a new object at the end *)
  Definition step (st : list S) (h : nat * op) : list S * outcome :=
    match nth_error st (fst h) with
    | None => (st, Either)
    | Some s =>
        match snd h with
        | Copy => (st ++ [s], Ok)
        | Subgraph ns => (st ++ [p_restrict A ns s], Ok)
        | o => (set_nth (fst h) (fst (step1 o s)) st, snd (step1 o s))
        end
    end.

  Definition run_from (st : list S) (h : list (nat * op)) : list S :=
    fold_left (fun st x => fst (step st x)) h st.
End Generic.

(* ------------------------------------------------------------------ the concrete container state *)
Record lay := mkLay { lname : nat; lkind : kind; lnodes : list nat; ledges : list (nat * nat * attrs) }.
Record mstate := mkSt { nodes : list (nat * attrs); layers : list lay; gattrs : attrs }.

Definition eu (e : nat * nat * attrs) : nat := fst (fst e).
Definition ev (e : nat * nat * attrs) : nat := snd (fst e).

Definition node_mem (n : nat) (ns : list (nat * attrs)) : bool := existsb (fun p => Nat.eqb n (fst p)) ns.
Fixpoint node_attrs (n : nat) (ns : list (nat * attrs)) : option attrs :=
  match ns with [] => None | p :: t => if Nat.eqb n (fst p) then Some (snd p) else node_attrs n t end.
Definition ins_node (n : nat) (a : attrs) (ns : list (nat * attrs)) : list (nat * attrs) :=
  if node_mem n ns then map (fun p => if Nat.eqb n (fst p) then (fst p, aupd a (snd p)) else p) ns
  else ns ++ [(n, a)].
Definition add_lnode (n : nat) (l : list nat) : list nat := if memb n l then l else l ++ [n].

Definition edge_mem (k : kind) (es : list (nat * nat * attrs)) (u v : nat) : bool :=
  existsb (fun e => same_edge k (eu e) (ev e) u v) es.
Fixpoint edge_attrs (k : kind) (es : list (nat * nat * attrs)) (u v : nat) : option attrs :=
  match es with
  | [] => None
  | e :: t => if same_edge k (eu e) (ev e) u v then Some (snd e) else edge_attrs k t u v
  end.
Definition ins_edge (k : kind) (u v : nat) (a : attrs) (es : list (nat * nat * attrs)) :=
  if edge_mem k es u v
  then map (fun e => if same_edge k (eu e) (ev e) u v then (fst e, aupd a (snd e)) else e) es
  else es ++ [(u, v, a)].
Definition del_edge (k : kind) (u v : nat) (es : list (nat * nat * attrs)) :=
  filter (fun e => negb (same_edge k (eu e) (ev e) u v)) es.

Definition find_layer (l : nat) (ls : list lay) : option lay := find (fun y => Nat.eqb l (lname y)) ls.

Definition map_layers (f : lay -> lay) (s : mstate) : mstate := mkSt (nodes s) (map f (layers s)) (gattrs s).
Definition on_sel (t : sel) (f : lay -> list (nat * nat * attrs)) (y : lay) : lay :=
  if sel_match t (lname y) then mkLay (lname y) (lkind y) (lnodes y) (f y) else y.

Definition c_add_node (n : nat) (a : attrs) (s : mstate) : mstate :=
  mkSt (ins_node n a (nodes s))
       (map (fun y => mkLay (lname y) (lkind y) (add_lnode n (lnodes y)) (ledges y)) (layers s)) (gattrs s).
Definition c_del_node (n : nat) (s : mstate) : mstate :=
  mkSt (filter (fun p => negb (Nat.eqb n (fst p))) (nodes s))
       (map (fun y => mkLay (lname y) (lkind y) (filter (fun m => negb (Nat.eqb n m)) (lnodes y))
                            (filter (fun e => negb (Nat.eqb n (eu e)) && negb (Nat.eqb n (ev e))) (ledges y)))
            (layers s)) (gattrs s).
(* an edge can only join nodes of the graph (every caller adds the endpoints first) *)
Definition c_ins_edge (t : sel) (u v : nat) (a : attrs) (s : mstate) : mstate :=
  if node_mem u (nodes s) && node_mem v (nodes s)
  then map_layers (on_sel t (fun y => ins_edge (lkind y) u v a (ledges y))) s
  else s.
Definition c_del_edge (t : sel) (u v : nat) (s : mstate) : mstate :=
  map_layers (on_sel t (fun y => del_edge (lkind y) u v (ledges y))) s.
Definition c_clear (t : sel) (s : mstate) : mstate := map_layers (on_sel t (fun _ => [])) s.
Definition c_add_layer (l : nat) (k : kind) (s : mstate) : mstate :=
  match find_layer l (layers s) with
  | Some _ => s
  | None => mkSt (nodes s) (layers s ++ [mkLay l k (map fst (nodes s)) []]) (gattrs s)
  end.
Definition c_del_layer (l : nat) (s : mstate) : mstate :=
  mkSt (nodes s) (filter (fun y => negb (Nat.eqb l (lname y))) (layers s)) (gattrs s).
Definition c_set_gattr (a : attrs) (s : mstate) : mstate := mkSt (nodes s) (layers s) (aupd a (gattrs s)).
Definition c_restrict (ns : list nat) (s : mstate) : mstate :=
  mkSt (map (fun p => (fst p, [])) (filter (fun p => memb (fst p) ns) (nodes s)))
       (map (fun y => mkLay (lname y) (lkind y) (filter (fun m => memb m ns) (lnodes y))
                            (map (fun e => (fst e, []))
                                 (filter (fun e => memb (eu e) ns && memb (ev e) ns) (ledges y))))
            (layers s)) (gattrs s).

Definition c_clear_all (s : mstate) : mstate :=
  mkSt [] (map (fun y => mkLay (lname y) (lkind y) [] []) (layers s)) [].

Definition c_has_node (s : mstate) (n : nat) : bool := node_mem n (nodes s).
Definition c_layer_kind (s : mstate) (l : nat) : option kind := option_map lkind (find_layer l (layers s)).
Definition c_has_edge (s : mstate) (l u v : nat) : bool :=
  match find_layer l (layers s) with Some y => edge_mem (lkind y) (ledges y) u v | None => false end.

Definition CA : alg mstate :=
  mkAlg mstate c_has_node c_layer_kind c_has_edge c_add_node c_del_node c_ins_edge c_del_edge c_clear
        c_add_layer c_del_layer c_set_gattr c_clear_all c_restrict.

Definition empty_state : mstate := mkSt [] [] [].
Definition admg_state : mstate := mkSt [] [mkLay 0 Dir [] []; mkLay 1 Und [] []; mkLay 2 Und [] []] [].
Definition init (cls : nat) : list mstate := [match cls with 0 => empty_state | _ => admg_state end].

Definition run (cls : nat) (h : list (nat * op)) : list mstate := run_from CA (init cls) h.

(* ------------------------------------------------------------------ read queries, computed the way the container does *)
Definition q_has_edge (s : mstate) (l u v : nat) : bool := c_has_edge s l u v.
Definition q_has_edge_any (s : mstate) (u v : nat) : bool :=
  existsb (fun y => edge_mem (lkind y) (ledges y) u v) (layers s).
Definition q_noe_layer (y : lay) : nat := length (ledges y).                       (* number_of_edges(edge_type=l) *)
Definition q_noe (s : mstate) : nat := list_sum (map q_noe_layer (layers s)).      (* number_of_edges() *)
Definition b2n (b : bool) : nat := if b then 1 else 0.
Definition q_noe_uv (s : mstate) (l u v : nat) : nat := b2n (c_has_edge s l u v).
Definition q_noe_uv_all (s : mstate) (u v : nat) : nat :=
  list_sum (map (fun y => b2n (edge_mem (lkind y) (ledges y) u v)) (layers s)).
Definition q_degree (y : lay) (n : nat) : nat :=                                   (* Und: self loop counts twice; Dir: in + out *)
  length (filter (fun e => Nat.eqb n (eu e)) (ledges y)) + length (filter (fun e => Nat.eqb n (ev e)) (ledges y)).
Definition q_size_layer (y : lay) : nat := Nat.div2 (list_sum (map (q_degree y) (lnodes y))).
Definition q_size (s : mstate) : nat := list_sum (map q_size_layer (layers s)).
(* neighbors / to_undirected: joined by an edge of some layer in some direction *)
Definition q_und (s : mstate) (u v : nat) : bool :=
  existsb (fun y => edge_mem Und (ledges y) u v) (layers s).
(* to_directed: Dir layers contribute u->v, Und layers both directions (= has_edge "any") *)
Definition q_dir (s : mstate) (u v : nat) : bool := q_has_edge_any s u v.

(* ------------------------------------------------------------------ observation of one object over the universe 0..N-1
   compact encoding (the harness packs the answers of the real object the same way):
     boolean row over 0..N-1 -> one number (bit i = entry i);  attribute dict -> acode (keys 0,1; values 0..3);
     optional attribute dict -> 0 absent / 1 + acode *)
Definition LNAMES := [0; 1; 2; 3].
Definition pack (bs : list bool) : nat := fold_right (fun b acc => b2n b + 2 * acc) 0 bs.
Definition brow (N : nat) (f : nat -> bool) : nat := pack (map f (seq 0 N)).
Definition btbl (N : nat) (f : nat -> nat -> bool) : sx := L (map (fun u => I (brow N (f u))) (seq 0 N)).
Definition ntbl (N : nat) (f : nat -> nat -> nat) : sx :=
  L (flat_map (fun u => map (fun v => I (f u v)) (seq 0 N)) (seq 0 N)).
Definition nrow (N : nat) (f : nat -> nat) : sx := L (map (fun n => I (f n)) (seq 0 N)).
Definition o2n (o : option nat) : nat := match o with None => 0 | Some v => Datatypes.S v end.
Definition acode (a : attrs) : nat := o2n (alookup 0 a) + 5 * o2n (alookup 1 a).
Definition ocode (o : option attrs) : nat := match o with None => 0 | Some a => Datatypes.S (acode a) end.
Definition per_layer (s : mstate) (f : lay -> sx) : sx :=
  L (map (fun l => match find_layer l (layers s) with Some y => L [f y] | None => L [] end) LNAMES).
Definition kind_code (k : kind) : nat := match k with Und => 0 | Dir => 1 end.
Definition outcome_code (r : outcome) : nat := match r with Ok => 0 | Either => 1 | Err => 2 end.
Definition both (s : mstate) (u v : nat) : bool := c_has_node s u && c_has_node s v.
(* get_edge_data(u,v)[l]: 0 key absent (no such layer) / 1 None / 2 a dict ; base-3 number over the four layer names *)
Definition ged_code (s : mstate) (u v : nat) : nat :=
  fold_right (fun l acc => match find_layer l (layers s) with
                           | None => 0
                           | Some y => Datatypes.S (b2n (q_has_edge s l u v))
                           end + 3 * acc) 0 LNAMES.

(* the raw state: 0 nodes(data=True) ; 1 graph attrs ; 2 per layer: kind, node set of the layer, edge table with attrs
   (Und: symmetric) — the table is also what edges(data=True) and adj must show *)
Definition obs_state (N : nat) (s : mstate) : list sx :=
  [ nrow N (fun n => ocode (node_attrs n (nodes s)));
    I (acode (gattrs s));
    per_layer s (fun y => L [I (kind_code (lkind y)); I (brow N (fun n => memb n (lnodes y)));
                             ntbl N (fun u v => ocode (edge_attrs (lkind y) (ledges y) u v))]) ].

Definition obs_queries (N : nat) (s : mstate) : list sx :=
  [ (* 3 has_edge(u,v,l) ; 4 has_edge(u,v) *)
    per_layer s (fun y => btbl N (fun u v => q_has_edge s (lname y) u v));
    btbl N (fun u v => q_has_edge_any s u v);
    (* 5 number_of_edges() ; 6 number_of_edges(edge_type=l) ; 7 number_of_edges(u,v,l) ; 8 number_of_edges(u,v)
       (u, v present; 0 otherwise: networkx raises KeyError for an absent u, not asked) *)
    I (q_noe s);
    per_layer s (fun y => I (q_noe_layer y));
    per_layer s (fun y => btbl N (fun u v => both s u v && Nat.eqb (q_noe_uv s (lname y) u v) 1));
    ntbl N (fun u v => if both s u v then q_noe_uv_all s u v else 0);
    (* 9 size() ; 10 size(edge_type=l) *)
    I (q_size s);
    per_layer s (fun y => I (q_size_layer y));
    (* 11 neighbors(n), present n: 1 + packed row *)
    nrow N (fun n => if c_has_node s n then Datatypes.S (brow N (fun m => q_und s n m)) else 0);
    (* 12 degree()[l][n], present n: 1 + degree *)
    per_layer s (fun y => nrow N (fun n => if c_has_node s n then Datatypes.S (q_degree y n) else 0));
    (* 13 get_edge_data(u,v) *)
    ntbl N (fun u v => ged_code s u v);
    (* 14 to_undirected: nodes, edges ; 15 to_directed: nodes, edges *)
    L [I (brow N (c_has_node s)); btbl N (fun u v => q_und s u v)];
    L [I (brow N (c_has_node s)); btbl N (fun u v => q_dir s u v)] ].

Definition obs (N : nat) (full : bool) (s : mstate) : sx :=
  L (obs_state N s ++ (if full then obs_queries N s else [])).

(* ------------------------------------------------------------------ wire format *)
Definition sx_attrs (s : sx) : attrs := sx_pairs s.
(* 0..3 layer names, 4 = "all"; any other code is a spelling the container does not know (e.g. an EdgeType enum member
   instead of its string): a name that no layer has *)
Definition sx_sel (s : sx) : sel :=
  let n := sx_nat s in if Nat.ltb n 4 then SName n else if Nat.eqb n 4 then SAll else SName n.
Definition sx_kind (s : sx) : kind := match sx_nat s with 0 => Und | _ => Dir end.
Definition sx_edges3 (s : sx) : list (nat * nat * attrs) :=
  map (fun e => (sx_nat (sx_nth e 0), sx_nat (sx_nth e 1), sx_attrs (sx_nth e 2))) (sx_list s).

(* L [I code; I obj; args...] *)
Definition sx_op (s : sx) : nat * op :=
  let a i := sx_nth s (2 + i) in
  (sx_nat (sx_nth s 1),
   match sx_nat (sx_nth s 0) with
   | 0 => AddNode (sx_nat (a 0)) (sx_attrs (a 1))
   | 1 => AddNodes (sx_nats (a 0)) (sx_attrs (a 1))
   | 2 => AddEdge (sx_nat (a 0)) (sx_nat (a 1)) (sx_sel (a 2)) (sx_attrs (a 3))
   | 3 => AddEdges (sx_edges3 (a 0)) (sx_sel (a 1))
   | 4 => RemNode (sx_nat (a 0))
   | 5 => RemNodes (sx_nats (a 0))
   | 6 => RemEdge (sx_nat (a 0)) (sx_nat (a 1)) (sx_sel (a 2))
   | 7 => RemEdges (sx_pairs (a 0)) (sx_sel (a 1))
   | 8 => ClearEdges (sx_sel (a 0))
   | 9 => AddType (sx_nat (a 0)) (sx_kind (a 1)) (sx_pairs (a 2))
   | 10 => RemType (sx_nat (a 0))
   | 11 => SetGAttr (sx_attrs (a 0))
   | 12 => Copy
   | 14 => ClearAll
   | 15 => EditNode (sx_nat (a 0)) (sx_attrs (a 1))
   | 16 => EditEdge (sx_nat (a 0)) (sx_nat (a 1)) (sx_nat (a 2)) (sx_attrs (a 3))
   | 17 => Update (sx_nats (a 0)) (sx_edges3 (a 1)) (sx_sel (a 2))
   | _ => Subgraph (sx_nats (a 0))
   end).

(* observations after every op: L [ L [outcome; L [obs of every live object]] ; ... ]
   every query is asked of the object the op was applied to and of a newly allocated object; of the other live
   objects only the raw state is observed (their queries were asked when they were last touched) *)
Definition touched (h : nat * op) (n_before i : nat) : bool :=
  Nat.eqb i (fst h) || negb (Nat.ltb i n_before).
Fixpoint trace (N : nat) (st : list mstate) (h : list (nat * op)) : list sx :=
  match h with
  | [] => []
  | x :: t => let r := step CA st x in
              L [I (outcome_code (snd r));
                 L (map (fun p => obs N (touched x (length st) (fst p)) (snd p))
                        (combine (seq 0 (length (fst r))) (fst r)))] :: trace N (fst r) t
  end.

(* run_case: L [I cls; I N; L ops] *)
Definition run_case (s : sx) : sx :=
  let cls := sx_nat (sx_nth s 0) in
  let N := sx_nat (sx_nth s 1) in
  L (trace N (init cls) (map sx_op (sx_list (sx_nth s 2)))).
