(* C02 — refinement including attributes: [absx] commutes with every primitive w.r.t. the dict.update semantics of
   Spec.v's [xp_*], hence (ProofsGeneric.run_sim on the product algebra XA) with every history. *)
From Coq Require Import List Arith Bool Lia.
From PG Require Import Base.ListSet C02.Model C02.Spec C02.ProofsGeneric C02.ProofsInv C02.ProofsRefine
  C02.ProofsQueries C02.ProofsCount.
Import ListNotations.

Lemma alookup_app k a b :
  alookup k (a ++ b) = match alookup k a with Some v => Some v | None => alookup k b end.
Proof. induction a as [|[k' v] a IH]; simpl; auto. destruct (Nat.eqb k k'); auto. Qed.

(* ------------------------------------------------------------------ node dicts *)
Lemma node_attrs_mem m ns : node_mem m ns = match node_attrs m ns with Some _ => true | None => false end.
Proof.
  unfold node_mem. induction ns as [|p ns IH]; simpl; auto. destruct (Nat.eqb m (fst p)); simpl; auto.
Qed.

Lemma node_attrs_map n at_ ns m :
  node_attrs m (map (fun p => if Nat.eqb n (fst p) then (fst p, aupd at_ (snd p)) else p) ns) =
  match node_attrs m ns with Some a => Some (if Nat.eqb n m then aupd at_ a else a) | None => None end.
Proof.
  induction ns as [|p ns IH]; simpl; auto.
  destruct (Nat.eqb n (fst p)) eqn:E1; simpl; destruct (Nat.eqb m (fst p)) eqn:E2; auto; beq.
  - subst. rewrite Nat.eqb_refl. reflexivity.
  - subst m. apply Nat.eqb_neq in E1. rewrite E1. reflexivity.
Qed.

Lemma node_attrs_app m ns p :
  node_attrs m (ns ++ [p]) =
  match node_attrs m ns with Some a => Some a | None => if Nat.eqb m (fst p) then Some (snd p) else None end.
Proof. induction ns as [|q ns IH]; simpl; auto. destruct (Nat.eqb m (fst q)); auto. Qed.

Lemma nd_ins_node n at_ ns m k :
  dict_of (node_attrs m (ins_node n at_ ns)) k =
  (if Nat.eqb n m then dupd at_ (dict_of (node_attrs m ns)) else dict_of (node_attrs m ns)) k.
Proof.
  unfold ins_node. destruct (node_mem n ns) eqn:E.
  - rewrite node_attrs_map. destruct (Nat.eqb n m) eqn:E1.
    + beq. subst m. rewrite node_attrs_mem in E. destruct (node_attrs n ns); [|discriminate].
      unfold dict_of, dupd, aupd. apply alookup_app.
    + destruct (node_attrs m ns); reflexivity.
  - rewrite node_attrs_app. simpl. destruct (Nat.eqb n m) eqn:E1.
    + beq. subst m. rewrite node_attrs_mem in E. destruct (node_attrs n ns); [discriminate|].
      rewrite Nat.eqb_refl. unfold dict_of, dupd. destruct (alookup k at_); reflexivity.
    + rewrite (Nat.eqb_sym m n), E1. destruct (node_attrs m ns); reflexivity.
Qed.

Lemma node_attrs_del n ns m :
  node_attrs m (filter (fun p => negb (Nat.eqb n (fst p))) ns) = if Nat.eqb n m then None else node_attrs m ns.
Proof.
  induction ns as [|p ns IH]; simpl; [destruct (Nat.eqb n m); reflexivity|].
  destruct (Nat.eqb n (fst p)) eqn:E1; simpl; destruct (Nat.eqb m (fst p)) eqn:E2; auto; beq.
  - subst. rewrite Nat.eqb_refl in IH. rewrite Nat.eqb_refl. exact IH.
  - subst m. apply Nat.eqb_neq in E1. rewrite E1. reflexivity.
Qed.

Lemma nd_dropped (l : list (nat * attrs)) m k :
  dict_of (node_attrs m (map (fun p => (fst p, @nil (nat * nat))) l)) k = None.
Proof. induction l as [|p l IH]; simpl; auto. destruct (Nat.eqb m (fst p)); auto. Qed.

(* ------------------------------------------------------------------ edge dicts *)
Lemma edge_attrs_map k u v at_ es x y :
  edge_attrs k (map (fun e => if same_edge k (eu e) (ev e) u v then (fst e, aupd at_ (snd e)) else e) es) x y =
  match edge_attrs k es x y with
  | Some a => Some (if same_edge k u v x y then aupd at_ a else a)
  | None => None
  end.
Proof.
  induction es as [|e es IH]; simpl; auto.
  assert (Hf : same_edge k (eu (if same_edge k (eu e) (ev e) u v then (fst e, aupd at_ (snd e)) else e))
                         (ev (if same_edge k (eu e) (ev e) u v then (fst e, aupd at_ (snd e)) else e)) x y
               = same_edge k (eu e) (ev e) x y)
    by (destruct (same_edge k (eu e) (ev e) u v); reflexivity).
  rewrite Hf. destruct (same_edge k (eu e) (ev e) x y) eqn:E; auto.
  rewrite (same_edge_eqv k _ _ x y u v E). destruct (same_edge k u v x y); reflexivity.
Qed.

Lemma edge_attrs_app k es e0 x y :
  edge_attrs k (es ++ [e0]) x y =
  match edge_attrs k es x y with
  | Some a => Some a
  | None => if same_edge k (eu e0) (ev e0) x y then Some (snd e0) else None
  end.
Proof. induction es as [|e es IH]; simpl; auto. destruct (same_edge k (eu e) (ev e) x y); auto. Qed.

Lemma edge_mem_attrs k es x y : edge_mem k es x y = match edge_attrs k es x y with Some _ => true | None => false end.
Proof.
  unfold edge_mem. induction es as [|e es IH]; simpl; auto. destruct (same_edge k (eu e) (ev e) x y); auto.
Qed.

Lemma edge_mem_same k es u v x y : same_edge k u v x y = true -> edge_mem k es u v = edge_mem k es x y.
Proof.
  intros H. unfold edge_mem. induction es as [|e es IH]; simpl; auto. rewrite IH. f_equal.
  destruct (same_edge k (eu e) (ev e) x y) eqn:E.
  - rewrite (same_edge_eqv k _ _ x y u v E). exact H.
  - destruct (same_edge k (eu e) (ev e) u v) eqn:F; auto.
    rewrite (same_edge_trans k _ _ u v x y F H) in E. discriminate.
Qed.

Lemma ed_ins_edge k u v at_ es x y key :
  dict_of (edge_attrs k (ins_edge k u v at_ es) x y) key =
  (if same_edge k u v x y then dupd at_ (dict_of (edge_attrs k es x y)) else dict_of (edge_attrs k es x y)) key.
Proof.
  unfold ins_edge. destruct (edge_mem k es u v) eqn:M.
  - rewrite edge_attrs_map. destruct (same_edge k u v x y) eqn:S.
    + rewrite (edge_mem_same k es u v x y S), edge_mem_attrs in M.
      destruct (edge_attrs k es x y); [|discriminate]. unfold dict_of, dupd, aupd. apply alookup_app.
    + destruct (edge_attrs k es x y); reflexivity.
  - rewrite edge_attrs_app. simpl. unfold eu, ev. simpl. destruct (same_edge k u v x y) eqn:S.
    + rewrite (edge_mem_same k es u v x y S), edge_mem_attrs in M.
      destruct (edge_attrs k es x y); [discriminate|]. unfold dict_of, dupd. destruct (alookup key at_); reflexivity.
    + destruct (edge_attrs k es x y); reflexivity.
Qed.

Lemma edge_attrs_del k u v es x y :
  edge_attrs k (del_edge k u v es) x y = if same_edge k u v x y then None else edge_attrs k es x y.
Proof.
  unfold del_edge. induction es as [|e es IH]; simpl; [destruct (same_edge k u v x y); reflexivity|].
  destruct (same_edge k (eu e) (ev e) x y) eqn:E.
  - rewrite (same_edge_eqv k _ _ x y u v E). destruct (same_edge k u v x y) eqn:S; simpl.
    + rewrite IH. reflexivity.
    + rewrite E. reflexivity.
  - destruct (negb (same_edge k (eu e) (ev e) u v)); simpl; rewrite ?E; exact IH.
Qed.

Lemma edge_attrs_filter_ends (c : nat -> bool) k es x y :
  edge_attrs k (filter (fun e => c (eu e) && c (ev e)) es) x y = if c x && c y then edge_attrs k es x y else None.
Proof.
  induction es as [|e es IH]; simpl; [destruct (c x && c y); reflexivity|].
  destruct (same_edge k (eu e) (ev e) x y) eqn:E.
  - rewrite (same_edge_ends c k _ _ x y E). destruct (c x && c y) eqn:F; simpl.
    + rewrite E. reflexivity.
    + exact IH.
  - destruct (c (eu e) && c (ev e)); simpl; rewrite ?E; exact IH.
Qed.

Lemma ed_dropped k (es : list (nat * nat * attrs)) x y key :
  dict_of (edge_attrs k (map (fun e => (fst e, @nil (nat * nat))) es) x y) key = None.
Proof.
  induction es as [|e es IH]; simpl; auto.
  change (eu (fst e, @nil (nat * nat))) with (eu e). change (ev (fst e, @nil (nat * nat))) with (ev e).
  destruct (same_edge k (eu e) (ev e) x y); auto.
Qed.

(* ------------------------------------------------------------------ absx commutes with the primitives *)
Lemma xeq_refl a : xeq a a.
Proof. repeat split. Qed.
Lemma xeq_trans a b c : xeq a b -> xeq b c -> xeq a c.
Proof.
  intros [A1 [A2 A3]] [B1 [B2 B3]]. split; [|split]; intros; [rewrite A1|rewrite A2|rewrite A3]; auto.
Qed.

(* the edge dict component of a state whose layers are a name-preserving image *)
Lemma xe_map_layers g ns ga s l u v :
  (forall y, lname (g y) = lname y) ->
  x_eattr (absx (mkSt ns (map g (layers s)) ga)) l u v =
  match find_layer l (layers s) with
  | Some y => dict_of (edge_attrs (lkind (g y)) (ledges (g y)) u v)
  | None => dnone
  end.
Proof.
  intros Hn. simpl. rewrite find_layer_map by auto. destruct (find_layer l (layers s)); reflexivity.
Qed.

Lemma homx_add_node n a s : xeq (absx (c_add_node n a s)) (xp_add_node n a (abs s) (absx s)).
Proof.
  split; [|split]; try (intros; reflexivity).
  - intros m k. simpl. apply nd_ins_node.
  - intros l u v k. unfold c_add_node. rewrite (xe_map_layers _ _ _ s) by auto. simpl.
    destruct (find_layer l (layers s)); reflexivity.
Qed.

Lemma homx_del_node n s : xeq (absx (c_del_node n s)) (xp_del_node n (abs s) (absx s)).
Proof.
  split; [|split]; try (intros; reflexivity).
  - intros m k. simpl. rewrite node_attrs_del. destruct (Nat.eqb n m); reflexivity.
  - intros l u v k. unfold c_del_node. rewrite (xe_map_layers _ _ _ s) by auto. simpl.
    destruct (find_layer l (layers s)); simpl.
    + rewrite (edge_attrs_filter_ends (fun m => negb (Nat.eqb n m))).
      destruct (negb (Nat.eqb n u) && negb (Nat.eqb n v)); reflexivity.
    + destruct (negb (Nat.eqb n u) && negb (Nat.eqb n v)); reflexivity.
Qed.

Lemma homx_ins_edge t u v a s : xeq (absx (c_ins_edge t u v a s)) (xp_ins_edge t u v a (abs s) (absx s)).
Proof.
  unfold c_ins_edge.
  destruct (node_mem u (nodes s) && node_mem v (nodes s)) eqn:G.
  - split; [|split]; try (intros; reflexivity). intros l x y k. unfold map_layers.
    rewrite (xe_map_layers _ _ _ s) by (intros z; apply on_sel_name).
    unfold xp_ins_edge. simpl. unfold c_has_node. rewrite G. simpl. unfold hits. simpl. unfold c_layer_kind.
    destruct (find_layer l (layers s)) as [z|] eqn:F; simpl.
    + destruct (find_layer_In _ _ _ F) as [_ Hl]. rewrite on_sel_kind, on_sel_edges, Hl.
      destruct (sel_match t l); simpl; auto. apply ed_ins_edge.
    + destruct (sel_match t l); reflexivity.
  - split; [|split]; try (intros; reflexivity). intros l x y k.
    unfold xp_ins_edge. simpl. unfold c_has_node. rewrite G. reflexivity.
Qed.

Lemma homx_del_edge t u v s : xeq (absx (c_del_edge t u v s)) (xp_del_edge t u v (abs s) (absx s)).
Proof.
  split; [|split]; try (intros; reflexivity). intros l x y k. unfold c_del_edge, map_layers.
  rewrite (xe_map_layers _ _ _ s) by (intros z; apply on_sel_name).
  unfold xp_del_edge. simpl. unfold hits. simpl. unfold c_layer_kind.
  destruct (find_layer l (layers s)) as [z|] eqn:F; simpl; [|destruct (sel_match t l); reflexivity].
  destruct (find_layer_In _ _ _ F) as [_ Hl]. rewrite on_sel_kind, on_sel_edges, Hl.
  destruct (sel_match t l); simpl; auto. rewrite edge_attrs_del.
  destruct (same_edge (lkind z) u v x y); reflexivity.
Qed.

Lemma homx_clear t s : xeq (absx (c_clear t s)) (xp_clear t (abs s) (absx s)).
Proof.
  split; [|split]; try (intros; reflexivity). intros l x y k. unfold c_clear, map_layers.
  rewrite (xe_map_layers _ _ _ s) by (intros z; apply on_sel_name).
  unfold xp_clear. simpl.
  destruct (find_layer l (layers s)) as [z|] eqn:F; simpl; [|destruct (sel_match t l); reflexivity].
  destruct (find_layer_In _ _ _ F) as [_ Hl]. rewrite on_sel_kind, on_sel_edges, Hl.
  destruct (sel_match t l); reflexivity.
Qed.

Lemma homx_add_layer l k s : xeq (absx (c_add_layer l k s)) (absx s).
Proof.
  unfold c_add_layer. destruct (find_layer l (layers s)) eqn:F; [apply xeq_refl|].
  split; [|split]; try (intros; reflexivity). intros l' x y key. simpl. rewrite find_layer_app. simpl.
  destruct (find_layer l' (layers s)); auto. destruct (Nat.eqb l' l); reflexivity.
Qed.

Lemma homx_del_layer l s : xeq (absx (c_del_layer l s)) (xp_del_layer l (abs s) (absx s)).
Proof.
  split; [|split]; try (intros; reflexivity). intros l' x y key. simpl. rewrite find_layer_filter.
  destruct (Nat.eqb l l'); reflexivity.
Qed.

Lemma homx_set_gattr a s : xeq (absx (c_set_gattr a s)) (xp_set_gattr a (abs s) (absx s)).
Proof. split; [|split]; try (intros; reflexivity). intros k. simpl. unfold dupd, aupd. apply alookup_app. Qed.

Lemma homx_clear_all s : xeq (absx (c_clear_all s)) (xp_clear_all (abs s) (absx s)).
Proof.
  split; [|split]; try (intros; reflexivity). intros l x y k. unfold c_clear_all. simpl.
  rewrite find_layer_map by auto. destruct (find_layer l (layers s)); reflexivity.
Qed.

Lemma homx_restrict ns s : xeq (absx (c_restrict ns s)) (xp_restrict ns (abs s) (absx s)).
Proof.
  split; [|split]; try (intros; reflexivity).
  - intros m k. simpl. apply nd_dropped.
  - intros l x y k. unfold c_restrict. simpl. rewrite find_layer_map by auto.
    destruct (find_layer l (layers s)); simpl; auto. apply ed_dropped.
Qed.

(* ------------------------------------------------------------------ the abstract attribute primitives respect (aeq, xeq) *)
Ltac properx :=
  let H1 := fresh in let H2 := fresh in let H3 := fresh in
  let G1 := fresh in let G2 := fresh in let G3 := fresh in
  intros ? ? ? ? [H1 [H2 H3]] [G1 [G2 G3]]; split; [|split]; intros; simpl; unfold hits;
  rewrite ?H1, ?H2, ?H3;
  repeat match goal with |- context [if ?c then _ else _] => destruct c end;
  unfold dupd, dnone; cbv beta; rewrite ?G1, ?G2, ?G3; reflexivity.

Lemma prx_add_node n c : forall a b x z, aeq a b -> xeq x z -> xeq (xp_add_node n c a x) (xp_add_node n c b z).
Proof. properx. Qed.
Lemma prx_del_node n : forall a b x z, aeq a b -> xeq x z -> xeq (xp_del_node n a x) (xp_del_node n b z).
Proof. properx. Qed.
Lemma prx_ins_edge t u v c :
  forall a b x z, aeq a b -> xeq x z -> xeq (xp_ins_edge t u v c a x) (xp_ins_edge t u v c b z).
Proof. properx. Qed.
Lemma prx_del_edge t u v : forall a b x z, aeq a b -> xeq x z -> xeq (xp_del_edge t u v a x) (xp_del_edge t u v b z).
Proof. properx. Qed.
Lemma prx_clear t : forall a b x z, aeq a b -> xeq x z -> xeq (xp_clear t a x) (xp_clear t b z).
Proof. properx. Qed.
Lemma prx_del_layer l : forall a b x z, aeq a b -> xeq x z -> xeq (xp_del_layer l a x) (xp_del_layer l b z).
Proof. properx. Qed.
Lemma prx_set_gattr c : forall a b x z, aeq a b -> xeq x z -> xeq (xp_set_gattr c a x) (xp_set_gattr c b z).
Proof. properx. Qed.
Lemma prx_restrict ns : forall a b x z, aeq a b -> xeq x z -> xeq (xp_restrict ns a x) (xp_restrict ns b z).
Proof. properx. Qed.

(* ------------------------------------------------------------------ refinement with attributes over histories *)
Definition Rx (s : mstate) (t : xstate) : Prop := aeq (abs s) (fst t) /\ xeq (absx s) (snd t).

Lemma Rx_init cls : Forall2 Rx (init cls) (x_init cls).
Proof.
  pose proof (Rabs_init cls) as H. unfold x_init, a_init, init in *.
  inversion H as [|s0 a0 l0 m0 Hsa _]; subst. simpl. constructor; [|constructor]. split; [exact Hsa|].
  simpl. destruct cls; (split; [|split]); intros; try reflexivity.
  destruct l as [|[|[|l]]]; reflexivity.
Qed.

Theorem mixed_refines_attrs : mixed_refines_attrs_stmt.
Proof.
  intros cls h. unfold run, run_x.
  apply (run_sim CA XA Rx); try apply Rx_init; unfold Rx; simpl.
  - intros s t n [[H _] _]. apply H.
  - intros s t l [[_ [H _]] _]. apply H.
  - intros s t l u v [[_ [_ H]] _]. apply H.
  - intros n a s t [H1 H2]. split.
    + eapply aeq_trans; [apply hom_add_node|apply pr_add_node; auto].
    + eapply xeq_trans; [apply homx_add_node|apply prx_add_node; auto].
  - intros n s t [H1 H2]. split.
    + eapply aeq_trans; [apply hom_del_node|apply pr_del_node; auto].
    + eapply xeq_trans; [apply homx_del_node|apply prx_del_node; auto].
  - intros x u v a s t [H1 H2]. split.
    + eapply aeq_trans; [apply hom_ins_edge|apply pr_ins_edge; auto].
    + eapply xeq_trans; [apply homx_ins_edge|apply prx_ins_edge; auto].
  - intros x u v s t [H1 H2]. split.
    + eapply aeq_trans; [apply hom_del_edge|apply pr_del_edge; auto].
    + eapply xeq_trans; [apply homx_del_edge|apply prx_del_edge; auto].
  - intros x s t [H1 H2]. split.
    + eapply aeq_trans; [apply hom_clear|apply pr_clear; auto].
    + eapply xeq_trans; [apply homx_clear|apply prx_clear; auto].
  - intros l k s t [H1 H2]. split.
    + eapply aeq_trans; [apply hom_add_layer|apply pr_add_layer; auto].
    + eapply xeq_trans; [apply homx_add_layer|exact H2].
  - intros l s t [H1 H2]. split.
    + eapply aeq_trans; [apply hom_del_layer|apply pr_del_layer; auto].
    + eapply xeq_trans; [apply homx_del_layer|apply prx_del_layer; auto].
  - intros a s t [H1 H2]. split.
    + eapply aeq_trans; [apply hom_set_gattr|auto].
    + eapply xeq_trans; [apply homx_set_gattr|apply prx_set_gattr; auto].
  - intros s t [H1 H2]. split.
    + eapply aeq_trans; [apply hom_clear_all|apply pr_clear_all; auto].
    + apply homx_clear_all.
  - intros ns s t [H1 H2]. split.
    + eapply aeq_trans; [apply hom_restrict|apply pr_restrict; auto].
    + eapply xeq_trans; [apply homx_restrict|apply prx_restrict; auto].
Qed.
