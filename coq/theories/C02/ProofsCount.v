(* C02 — the counting step: number_of_edges(edge_type=l) and degree()[l][n], which the container computes from the
   stored edge list, are the cardinality / incidence count of the ABSTRACT edge set of the layer: they equal the
   length / incidence count of EVERY duplicate-free enumeration [P] of that set ([represents], Spec.v). *)
From Coq Require Import List Arith Bool Lia.
From PG Require Import Base.ListSet C02.Model C02.Spec C02.ProofsGeneric C02.ProofsInv C02.ProofsRefine
  C02.ProofsQueries C02.ProofsEdges.
Import ListNotations.

(* two duplicate-free (modulo an equivalence R) lists that cover each other have the same R-invariant weight *)
Section RSum.
  Context {A : Type} (R : A -> A -> Prop) (w : A -> nat).
  Hypothesis Rsym : forall a b, R a b -> R b a.
  Hypothesis Rtrans : forall a b c, R a b -> R b c -> R a c.
  Hypothesis Rw : forall a b, R a b -> w a = w b.

  Definition rnodup (l : list A) : Prop := NoDup l /\ forall a b, In a l -> In b l -> R a b -> a = b.

  Lemma rsum : forall P E, rnodup P -> rnodup E ->
    (forall p, In p P -> exists e, In e E /\ R p e) -> (forall e, In e E -> exists p, In p P /\ R e p) ->
    list_sum (map w P) = list_sum (map w E).
  Proof.
    induction P as [|p P IH]; intros E [HP1 HP2] [HE1 HE2] HPE HEP.
    - destruct E as [|e E]; auto. destruct (HEP e (or_introl eq_refl)) as [p [[] _]].
    - destruct (HPE p (or_introl eq_refl)) as [e [He Rpe]].
      destruct (in_split _ _ He) as [E1 [E2 ->]].
      assert (Hne : ~ In e (E1 ++ E2)) by (apply NoDup_remove_2; exact HE1).
      inversion HP1 as [|? ? Hp HP']; subst.
      rewrite map_app. simpl. rewrite list_sum_app. simpl. rewrite (Rw p e Rpe).
      rewrite (IH (E1 ++ E2)).
      + rewrite map_app, list_sum_app. lia.
      + split; auto. intros a b Ha Hb. apply HP2; right; auto.
      + split; [apply NoDup_remove_1 in HE1; exact HE1|].
        intros a b Ha Hb. apply HE2; apply in_app_iff; apply in_app_iff in Ha; apply in_app_iff in Hb; simpl; tauto.
      + intros p' Hp'. destruct (HPE p' (or_intror Hp')) as [e' [He' Rp'e']].
        exists e'. split; auto. apply in_app_iff in He'. apply in_app_iff.
        destruct He' as [H|[<-|H]]; auto. exfalso.
        assert (p' = p) by (apply HP2; [right; auto|left; auto|eapply Rtrans; eauto]). subst. contradiction.
      + intros e' He'. assert (He'' : In e' (E1 ++ e :: E2))
          by (apply in_app_iff; apply in_app_iff in He'; simpl; tauto).
        destruct (HEP e' He'') as [p' [[<-|Hp'] Re'p']]; [|exists p'; auto]. exfalso.
        assert (e' = e) by (apply HE2; auto; eapply Rtrans; eauto). subst. contradiction.
  Qed.
End RSum.

Lemma list_sum_ones {A} (l : list A) : list_sum (map (fun _ => 1) l) = length l.
Proof. induction l; simpl; auto. Qed.

(* ------------------------------------------------------------------ the stored list represents the abstract set *)
Definition Rk (k : kind) (p q : nat * nat) : Prop := same_edge k (fst p) (snd p) (fst q) (snd q) = true.

Lemma Rk_sym k a b : Rk k a b -> Rk k b a.
Proof. unfold Rk. intros H. rewrite same_edge_sym. exact H. Qed.
Lemma Rk_trans k a b c : Rk k a b -> Rk k b c -> Rk k a c.
Proof. unfold Rk. apply same_edge_trans. Qed.

Lemma edge_mem_fst k es x y :
  edge_mem k es x y = true <-> exists p, In p (map fst es) /\ same_edge k (fst p) (snd p) x y = true.
Proof.
  unfold edge_mem. rewrite existsb_exists. split.
  - intros [e [He H]]. exists (fst e). split; [apply in_map; auto|exact H].
  - intros [p [Hp H]]. apply in_map_iff in Hp. destruct Hp as [e [<- He]]. exists e. split; auto.
Qed.

Lemma stored_represents s y :
  wf s -> edges_nodup s -> In y (layers s) ->
  represents (lkind y) (a_edge (abs s) (lname y)) (map fst (ledges y)).
Proof.
  intros Hwf Hnd Hy. destruct (Hnd y Hy) as [N1 N2]. split; [exact N1|split].
  - intros p q Hp Hq H. apply in_map_iff in Hp. apply in_map_iff in Hq.
    destruct Hp as [e1 [<- H1]]. destruct Hq as [e2 [<- H2]]. apply N2; auto.
  - intros x y0. simpl. rewrite (has_edge_layer s y x y0 Hwf Hy). apply edge_mem_fst.
Qed.

Definition w_inc (n : nat) (p : nat * nat) : nat := b2n (Nat.eqb n (fst p)) + b2n (Nat.eqb n (snd p)).

Lemma w_inc_inv k n a b : Rk k a b -> w_inc n a = w_inc n b.
Proof.
  unfold Rk, w_inc. intros H. destruct (same_edge_cases _ _ _ _ _ H) as [[-> ->]|[_ [-> ->]]]; lia.
Qed.

Lemma degree_as_sum y n : q_degree y n = list_sum (map (w_inc n) (map fst (ledges y))).
Proof.
  unfold q_degree, w_inc. rewrite map_map, list_sum_map_add, <- !sum_b2n_filter. reflexivity.
Qed.

Lemma incidences_as_sum n P : incidences n P = list_sum (map (w_inc n) P).
Proof. unfold incidences, w_inc. rewrite list_sum_map_add, <- !sum_b2n_filter. reflexivity. Qed.

Lemma represents_cover k edge P E :
  represents k edge P -> represents k edge E -> forall p, In p P -> exists e, In e E /\ Rk k p e.
Proof.
  intros [_ [_ HP]] [_ [_ HE]] p Hp.
  assert (H : edge (fst p) (snd p) = true) by (apply HP; exists p; split; auto; apply same_edge_refl).
  apply HE in H. destruct H as [e [He H]]. exists e. split; auto. apply Rk_sym. exact H.
Qed.

Theorem count_represented s y P :
  wf s -> edges_nodup s -> In y (layers s) -> represents (lkind y) (a_edge (abs s) (lname y)) P ->
  q_noe_layer y = length P /\ forall n, q_degree y n = incidences n P.
Proof.
  intros Hwf Hnd Hy HP. pose proof (stored_represents s y Hwf Hnd Hy) as HE.
  assert (Hr : forall Q, represents (lkind y) (a_edge (abs s) (lname y)) Q -> rnodup (Rk (lkind y)) Q).
  { intros Q [Q1 [Q2 _]]. split; auto. }
  split.
  - unfold q_noe_layer. rewrite <- (map_length fst (ledges y)), <- !list_sum_ones. symmetry.
    apply (rsum (Rk (lkind y)) (fun _ => 1)); auto using Rk_sym.
    + apply Rk_trans.
    + eapply represents_cover; eauto.
    + eapply represents_cover; eauto.
  - intros n. rewrite degree_as_sum, incidences_as_sum. symmetry.
    apply (rsum (Rk (lkind y)) (w_inc n)); auto using Rk_sym.
    + apply Rk_trans.
    + apply w_inc_inv.
    + eapply represents_cover; eauto.
    + eapply represents_cover; eauto.
Qed.

(* the edge table shown by edges(data=True) / adj has an entry exactly for the abstract edges *)
Lemma edge_attrs_mem k es u v : (edge_attrs k es u v <> None) <-> edge_mem k es u v = true.
Proof.
  unfold edge_mem. induction es as [|e es IH]; simpl; [split; [congruence|discriminate]|].
  destruct (same_edge k (eu e) (ev e) u v); simpl; auto. split; [reflexivity|discriminate].
Qed.

Theorem mixed_queries_counts : mixed_queries_counts_stmt.
Proof.
  intros cls h s Hs. pose proof (mixed_layers_sync cls h s Hs) as Hwf.
  pose proof (edges_nodup_reachable cls h s Hs) as Hnd. simpl. split; [|split; [|split]].
  - intros y P Hy HP. apply (count_represented s y P); auto.
  - intros y Hy. exists (map fst (ledges y)). apply stored_represents; auto.
  - reflexivity.
  - intros y u v Hy. rewrite edge_attrs_mem. rewrite (has_edge_layer s y u v Hwf Hy). tauto.
Qed.
