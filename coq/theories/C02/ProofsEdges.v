(* C02 — every abstract edge of a layer is stored exactly once (edges_nodup), in every reachable state.
   This is what makes number_of_edges(edge_type=l) = len(stored list) and degree = count of stored incidences the
   cardinalities of the abstract edge set. *)
From Coq Require Import List Arith Bool Lia.
From PG Require Import Base.ListSet C02.Model C02.Spec C02.ProofsGeneric C02.ProofsInv C02.ProofsRefine.
Import ListNotations.

Definition enodup (k : kind) (es : list (nat * nat * attrs)) : Prop :=
  NoDup (map fst es) /\
  forall e1 e2, In e1 es -> In e2 es -> same_edge k (eu e1) (ev e1) (eu e2) (ev e2) = true -> fst e1 = fst e2.

Lemma NoDup_snoc' {A} (x : A) l : NoDup l -> ~ In x l -> NoDup (l ++ [x]).
Proof.
  intros H E. apply NoDup_rev in H. rewrite <- (rev_involutive (l ++ [x])).
  apply NoDup_rev. rewrite rev_app_distr. simpl. constructor; auto. rewrite <- in_rev. exact E.
Qed.

Lemma same_edge_refl k u v : same_edge k u v u v = true.
Proof. unfold same_edge. rewrite !Nat.eqb_refl. reflexivity. Qed.

Lemma enodup_nil k : enodup k [].
Proof. split; [constructor|intros e1 e2 []]. Qed.

Lemma enodup_map k (f : nat * nat * attrs -> nat * nat * attrs) es :
  (forall e, fst (f e) = fst e) -> enodup k es -> enodup k (map f es).
Proof.
  intros Hf [H1 H2]. split.
  - rewrite map_map. rewrite (map_ext _ fst Hf). exact H1.
  - intros e1 e2 I1 I2. apply in_map_iff in I1. apply in_map_iff in I2.
    destruct I1 as [a [<- Ia]]. destruct I2 as [b [<- Ib]]. unfold eu, ev. rewrite !Hf. apply H2; auto.
Qed.

Lemma enodup_filter k g es : enodup k es -> enodup k (filter g es).
Proof.
  intros [H1 H2]. split.
  - apply NoDup_map_filter. exact H1.
  - intros e1 e2 I1 I2. apply filter_In in I1. apply filter_In in I2. apply H2; tauto.
Qed.

Lemma enodup_ins_edge k u v a es : enodup k es -> enodup k (ins_edge k u v a es).
Proof.
  intros H. unfold ins_edge. destruct (edge_mem k es u v) eqn:M.
  - apply enodup_map; auto. intros e. destruct (same_edge k (eu e) (ev e) u v); reflexivity.
  - destruct H as [H1 H2].
    assert (Hno : forall e, In e es -> same_edge k (eu e) (ev e) u v = false).
    { intros e He. destruct (same_edge k (eu e) (ev e) u v) eqn:E; auto.
      assert (edge_mem k es u v = true) by (apply existsb_exists; exists e; auto). congruence. }
    split.
    + rewrite map_app. simpl. apply NoDup_snoc'; auto. intros Hin. apply in_map_iff in Hin.
      destruct Hin as [e [E He]]. pose proof (Hno e He) as Hf. unfold eu, ev in Hf. rewrite E in Hf. simpl in Hf.
      rewrite same_edge_refl in Hf. discriminate.
    + intros e1 e2 I1 I2 Hs. apply in_app_or in I1. apply in_app_or in I2.
      destruct I1 as [I1|[<-|[]]]; destruct I2 as [I2|[<-|[]]]; auto.
      * unfold eu at 2, ev at 2 in Hs. simpl in Hs. rewrite (Hno e1 I1) in Hs. discriminate.
      * rewrite same_edge_sym in Hs. unfold eu at 2, ev at 2 in Hs. simpl in Hs. rewrite (Hno e2 I2) in Hs. discriminate.
Qed.

Definition enodup_st (s : mstate) : Prop := forall y, In y (layers s) -> enodup (lkind y) (ledges y).

Lemma enodup_st_iff s : enodup_st s <-> edges_nodup s.
Proof. unfold enodup_st, edges_nodup, enodup. split; intros H y Hy; apply (H y Hy). Qed.

Lemma enodup_map_layers f s :
  (forall y, lkind (f y) = lkind y) ->
  (forall y, enodup (lkind y) (ledges y) -> enodup (lkind y) (ledges (f y))) ->
  enodup_st s -> enodup_st (map_layers f s).
Proof.
  intros Hk Hf Hs y' Hy'. simpl in Hy'. apply in_map_iff in Hy'. destruct Hy' as [y [<- Hy]].
  rewrite Hk. apply Hf. apply Hs. exact Hy.
Qed.

Lemma enodup_on_sel t f s :
  (forall y, enodup (lkind y) (ledges y) -> enodup (lkind y) (f y)) ->
  enodup_st s -> enodup_st (map_layers (on_sel t f) s).
Proof.
  intros Hf. apply enodup_map_layers.
  - intros y. apply on_sel_kind.
  - intros y Hy. rewrite on_sel_edges. destruct (sel_match t (lname y)); auto.
Qed.

Theorem edges_nodup_reachable : edges_nodup_stmt.
Proof.
  intros cls h s Hs. apply enodup_st_iff.
  assert (H : Forall enodup_st (run cls h)).
  { unfold run. apply (run_inv CA enodup_st); simpl.
    - intros n a s0 H y' Hy'. simpl in Hy'. apply in_map_iff in Hy'. destruct Hy' as [y [<- Hy]]. apply (H y Hy).
    - intros n s0 H y' Hy'. simpl in Hy'. apply in_map_iff in Hy'. destruct Hy' as [y [<- Hy]]. simpl.
      apply enodup_filter. apply (H y Hy).
    - intros t u v a s0 H. unfold c_ins_edge. destruct (node_mem u (nodes s0) && node_mem v (nodes s0)); auto.
      apply enodup_on_sel; auto. intros y. apply enodup_ins_edge.
    - intros t u v s0 H. apply enodup_on_sel; auto. intros y. apply enodup_filter.
    - intros t s0 H. apply enodup_on_sel; auto. intros y _. apply enodup_nil.
    - intros l k s0 H. unfold c_add_layer. destruct (find_layer l (layers s0)); auto.
      intros y Hy. simpl in Hy. apply in_app_or in Hy. destruct Hy as [Hy|[<-|[]]]; [apply (H y Hy)|apply enodup_nil].
    - intros l s0 H y Hy. simpl in Hy. apply filter_In in Hy. apply H. tauto.
    - intros a s0 H. exact H.
    - intros s0 H y' Hy'. simpl in Hy'. apply in_map_iff in Hy'. destruct Hy' as [y [<- Hy]]. apply enodup_nil.
    - intros ns s0 H y' Hy'. simpl in Hy'. apply in_map_iff in Hy'. destruct Hy' as [y [<- Hy]]. simpl.
      apply enodup_map; auto. apply enodup_filter. apply (H y Hy).
    - constructor; [|constructor]. destruct cls; intros y Hy; simpl in Hy.
      + destruct Hy.
      + destruct Hy as [<-|[<-|[<-|[]]]]; apply enodup_nil. }
  rewrite Forall_forall in H. apply H. exact Hs.
Qed.
