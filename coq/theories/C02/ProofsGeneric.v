(* C02 — lemmas about the generic operation semantics of Model.v, valid for every algebra of primitives:
   (1) an invariant preserved by every primitive holds in every state of every store reachable by any history;
   (2) a relation between two algebras that is preserved by every primitive and respects the three observers is a
       simulation: related stores stay related under any history and every op has the same outcome.
   These are the "reachable-state by fold_left" lemmas; everything else in C02 instantiates them. *)
From Coq Require Import List Arith Bool Lia.
From PG Require Import C02.Model.
Import ListNotations.

Lemma fold_left_inv {S X} (P : S -> Prop) (f : S -> X -> S) :
  (forall s x, P s -> P (f s x)) -> forall l s, P s -> P (fold_left f l s).
Proof. intros H l; induction l as [|x l IH]; simpl; intros s Hs; auto. Qed.

Lemma fold_left_rel {S T X} (R : S -> T -> Prop) (f : S -> X -> S) (g : T -> X -> T) :
  (forall s t x, R s t -> R (f s x) (g t x)) -> forall l s t, R s t -> R (fold_left f l s) (fold_left g l t).
Proof. intros H l; induction l as [|x l IH]; simpl; intros s t Hs; auto. Qed.

Section SetNth.
  Context {S : Type}.
  Lemma set_nth_length i (x : S) l : length (set_nth i x l) = length l.
  Proof. revert i; induction l as [|y l IH]; intros [|i]; simpl; auto. Qed.

  Lemma set_nth_other i j (x : S) l : i <> j -> nth_error (set_nth i x l) j = nth_error l j.
  Proof.
    revert i j; induction l as [|y l IH]; intros [|i] [|j] H; simpl; auto; try congruence.
  Qed.

  Lemma set_nth_same i (x : S) l : i < length l -> nth_error (set_nth i x l) i = Some x.
  Proof. revert i; induction l as [|y l IH]; intros [|i] H; simpl in *; try lia; auto. apply IH. lia. Qed.

  Lemma set_nth_Forall (P : S -> Prop) i x l : P x -> Forall P l -> Forall P (set_nth i x l).
  Proof.
    intros Hx; revert i; induction l as [|y l IH]; intros [|i] H; simpl; auto;
      inversion H; subst; constructor; auto.
  Qed.

  Lemma set_nth_In i (x y : S) l : In y (set_nth i x l) -> y = x \/ In y l.
  Proof.
    revert i; induction l as [|z l IH]; intros [|i]; simpl; auto.
    - intros [H|H]; auto.
    - intros [H|H]; auto. destruct (IH _ H); auto.
  Qed.
End SetNth.

Lemma set_nth_Forall2 {S T} (R : S -> T -> Prop) i x y l m :
  R x y -> Forall2 R l m -> Forall2 R (set_nth i x l) (set_nth i y m).
Proof.
  intros Hx H; revert i; induction H as [|a b l m Hab H IH]; intros [|i]; simpl; constructor; auto.
Qed.

Lemma Forall2_nth_error {S T} (R : S -> T -> Prop) l m i :
  Forall2 R l m ->
  match nth_error l i, nth_error m i with
  | Some s, Some t => R s t
  | None, None => True
  | _, _ => False
  end.
Proof.
  intros H; revert i; induction H as [|a b l m Hab H IH]; intros [|i]; simpl; auto. apply IH.
Qed.

(* ------------------------------------------------------------------ (1) invariants *)
Section Inv.
  Context {S : Type} (A : alg S) (P : S -> Prop).
  Hypothesis H_add_node : forall n a s, P s -> P (p_add_node A n a s).
  Hypothesis H_del_node : forall n s, P s -> P (p_del_node A n s).
  Hypothesis H_ins_edge : forall t u v a s, P s -> P (p_ins_edge A t u v a s).
  Hypothesis H_del_edge : forall t u v s, P s -> P (p_del_edge A t u v s).
  Hypothesis H_clear : forall t s, P s -> P (p_clear A t s).
  Hypothesis H_add_layer : forall l k s, P s -> P (p_add_layer A l k s).
  Hypothesis H_del_layer : forall l s, P s -> P (p_del_layer A l s).
  Hypothesis H_set_gattr : forall a s, P s -> P (p_set_gattr A a s).
  Hypothesis H_clear_all : forall s, P s -> P (p_clear_all A s).
  Hypothesis H_restrict : forall ns s, P s -> P (p_restrict A ns s).

  Lemma add_nodes_inv ns a s : P s -> P (add_nodes A ns a s).
  Proof. apply fold_left_inv; auto. Qed.
  Lemma add_ends2_inv es s : P s -> P (add_ends2 A es s).
  Proof. apply fold_left_inv; auto. Qed.
  Lemma add_ends3_inv es s : P s -> P (add_ends3 A es s).
  Proof. apply fold_left_inv; auto. Qed.
  Lemma ins_edges3_inv t es s : P s -> P (ins_edges3 A t es s).
  Proof. apply fold_left_inv; auto. Qed.
  Lemma ins_edges2_inv t es s : P s -> P (ins_edges2 A t es s).
  Proof. apply fold_left_inv; auto. Qed.
  Lemma del_edges_inv t es s : P s -> P (del_edges A t es s).
  Proof. apply fold_left_inv; auto. Qed.
  Lemma del_nodes_inv ns s : P s -> P (del_nodes A ns s).
  Proof. apply fold_left_inv; auto. Qed.

  Lemma step1_inv o s : P s -> P (fst (step1 A o s)).
  Proof.
    intros Hs.
    destruct o; simpl;
      repeat match goal with
             | |- context [if ?c then _ else _] => destruct c; simpl
             | |- context [match ?c with SAll => _ | SName _ => _ end] => destruct c; simpl
             | |- context [match ?c with Some _ => _ | None => _ end] => destruct c; simpl
             end;
      auto 8 using add_nodes_inv, add_ends2_inv, add_ends3_inv, ins_edges3_inv, ins_edges2_inv, del_edges_inv,
        del_nodes_inv.
  Qed.

  Lemma step_inv st h : Forall P st -> Forall P (fst (step A st h)).
  Proof.
    intros H. unfold step. destruct (nth_error st (fst h)) as [s|] eqn:E; simpl; auto.
    assert (Hs : P s) by (rewrite Forall_forall in H; apply H; eapply nth_error_In; eauto).
    assert (Hd : Forall P (set_nth (fst h) (fst (step1 A (snd h) s)) st))
      by (apply set_nth_Forall; auto; apply step1_inv; auto).
    destruct (snd h); simpl; try exact Hd.
    - apply Forall_app; split; auto.
    - apply Forall_app; split; auto.
  Qed.

  Lemma run_inv h : forall st, Forall P st -> Forall P (run_from A st h).
  Proof.
    unfold run_from. induction h as [|x h IH]; simpl; intros st H; auto. apply IH. apply step_inv; auto.
  Qed.
End Inv.

(* ------------------------------------------------------------------ (2) simulation *)
Section Sim.
  Context {S T : Type} (A : alg S) (B : alg T) (R : S -> T -> Prop).
  Hypothesis O_node : forall s t n, R s t -> has_node A s n = has_node B t n.
  Hypothesis O_kind : forall s t l, R s t -> layer_kind A s l = layer_kind B t l.
  Hypothesis O_edge : forall s t l u v, R s t -> has_edge A s l u v = has_edge B t l u v.
  Hypothesis H_add_node : forall n a s t, R s t -> R (p_add_node A n a s) (p_add_node B n a t).
  Hypothesis H_del_node : forall n s t, R s t -> R (p_del_node A n s) (p_del_node B n t).
  Hypothesis H_ins_edge : forall x u v a s t, R s t -> R (p_ins_edge A x u v a s) (p_ins_edge B x u v a t).
  Hypothesis H_del_edge : forall x u v s t, R s t -> R (p_del_edge A x u v s) (p_del_edge B x u v t).
  Hypothesis H_clear : forall x s t, R s t -> R (p_clear A x s) (p_clear B x t).
  Hypothesis H_add_layer : forall l k s t, R s t -> R (p_add_layer A l k s) (p_add_layer B l k t).
  Hypothesis H_del_layer : forall l s t, R s t -> R (p_del_layer A l s) (p_del_layer B l t).
  Hypothesis H_set_gattr : forall a s t, R s t -> R (p_set_gattr A a s) (p_set_gattr B a t).
  Hypothesis H_clear_all : forall s t, R s t -> R (p_clear_all A s) (p_clear_all B t).
  Hypothesis H_restrict : forall ns s t, R s t -> R (p_restrict A ns s) (p_restrict B ns t).

  Lemma sel_ok_sim x s t : R s t -> sel_ok A x s = sel_ok B x t.
  Proof. intros H. destruct x; simpl; auto. rewrite (O_kind s t l H). reflexivity. Qed.

  Lemma add_nodes_sim ns a s t : R s t -> R (add_nodes A ns a s) (add_nodes B ns a t).
  Proof. apply fold_left_rel; auto. Qed.
  Lemma add_ends2_sim es s t : R s t -> R (add_ends2 A es s) (add_ends2 B es t).
  Proof. apply fold_left_rel; auto. Qed.
  Lemma add_ends3_sim es s t : R s t -> R (add_ends3 A es s) (add_ends3 B es t).
  Proof. apply fold_left_rel; auto. Qed.
  Lemma ins_edges3_sim x es s t : R s t -> R (ins_edges3 A x es s) (ins_edges3 B x es t).
  Proof. apply fold_left_rel; auto. Qed.
  Lemma ins_edges2_sim x es s t : R s t -> R (ins_edges2 A x es s) (ins_edges2 B x es t).
  Proof. apply fold_left_rel; auto. Qed.
  Lemma del_edges_sim x es s t : R s t -> R (del_edges A x es s) (del_edges B x es t).
  Proof. apply fold_left_rel; auto. Qed.
  Lemma del_nodes_sim ns s t : R s t -> R (del_nodes A ns s) (del_nodes B ns t).
  Proof. apply fold_left_rel; auto. Qed.

  Lemma step1_sim o s t :
    R s t -> R (fst (step1 A o s)) (fst (step1 B o t)) /\ snd (step1 A o s) = snd (step1 B o t).
  Proof.
    intros H.
    destruct o; simpl;
      try rewrite (sel_ok_sim _ s t H); try rewrite (O_node s t _ H); try rewrite (O_kind s t _ H);
      repeat match goal with
             | |- context [match ?c with SAll => _ | SName _ => _ end] => destruct c; simpl
             end;
      try rewrite (sel_ok_sim _ s t H); try rewrite (O_kind s t _ H); try rewrite (O_edge s t _ _ _ H);
      repeat match goal with
             | |- context [if ?c then _ else _] => destruct c; simpl
             | |- context [match ?c with Some _ => _ | None => _ end] => destruct c; simpl
             end;
      (split; [|reflexivity]);
      auto 8 using add_nodes_sim, add_ends2_sim, add_ends3_sim, ins_edges3_sim, ins_edges2_sim, del_edges_sim,
        del_nodes_sim.
  Qed.

  Lemma step_sim st st' h :
    Forall2 R st st' ->
    Forall2 R (fst (step A st h)) (fst (step B st' h)) /\ snd (step A st h) = snd (step B st' h).
  Proof.
    intros H. unfold step.
    pose proof (Forall2_nth_error R st st' (fst h) H) as Hn.
    destruct (nth_error st (fst h)) as [s|]; destruct (nth_error st' (fst h)) as [t|]; try contradiction; simpl; auto.
    destruct (step1_sim (snd h) s t Hn) as [H1 H2].
    assert (Hd : Forall2 R (set_nth (fst h) (fst (step1 A (snd h) s)) st)
                           (set_nth (fst h) (fst (step1 B (snd h) t)) st'))
      by (apply set_nth_Forall2; auto).
    destruct (snd h); simpl; try (split; [exact Hd|exact H2]).
    - split; auto. apply Forall2_app; auto.
    - split; auto. apply Forall2_app; auto.
  Qed.

  Lemma run_sim h : forall st st', Forall2 R st st' -> Forall2 R (run_from A st h) (run_from B st' h).
  Proof.
    unfold run_from. induction h as [|x h IH]; simpl; intros st st' H; auto. apply IH. apply step_sim; auto.
  Qed.
End Sim.
