(* C02 — the well-formedness invariant [wf] (Spec.v) is preserved by every concrete primitive, hence holds in every
   reachable state (mixed_layers_sync). *)
From Coq Require Import List Arith Bool Lia.
From PG Require Import Base.ListSet C02.Model C02.Spec C02.ProofsGeneric.
Import ListNotations.

Lemma bool_eq_iff (a b : bool) : (a = true <-> b = true) -> a = b.
Proof. destruct a, b; intros [H1 H2]; try reflexivity; [symmetry; apply H1; reflexivity|apply H2; reflexivity]. Qed.

Ltac beq :=
  repeat match goal with
         | H : Nat.eqb _ _ = true |- _ => apply Nat.eqb_eq in H
         | H : Nat.eqb _ _ = false |- _ => apply Nat.eqb_neq in H
         end.

(* ------------------------------------------------------------------ nodes *)
Lemma node_mem_In m ns : node_mem m ns = true <-> In m (map fst ns).
Proof.
  unfold node_mem. rewrite existsb_exists. split.
  - intros [p [Hp E]]. apply Nat.eqb_eq in E. subst. apply in_map. auto.
  - intros H. apply in_map_iff in H. destruct H as [p [E Hp]]. exists p. split; auto. apply Nat.eqb_eq. auto.
Qed.

Lemma map_fst_ins_node_mem n a ns : node_mem n ns = true -> map fst (ins_node n a ns) = map fst ns.
Proof.
  intros H. unfold ins_node. rewrite H. rewrite map_map. apply map_ext. intros p.
  destruct (Nat.eqb n (fst p)); reflexivity.
Qed.

Lemma map_fst_ins_node_new n a ns : node_mem n ns = false -> map fst (ins_node n a ns) = map fst ns ++ [n].
Proof. intros H. unfold ins_node. rewrite H. rewrite map_app. reflexivity. Qed.

Lemma node_mem_ins_node m n a ns : node_mem m (ins_node n a ns) = Nat.eqb n m || node_mem m ns.
Proof.
  apply bool_eq_iff. rewrite orb_true_iff, !node_mem_In, Nat.eqb_eq.
  destruct (node_mem n ns) eqn:E.
  - rewrite map_fst_ins_node_mem by auto. apply node_mem_In in E. split; auto. intros [<-|H]; auto.
  - rewrite map_fst_ins_node_new by auto. rewrite in_app_iff. simpl. intuition.
Qed.

Lemma map_filter_fst {B} (g : nat -> bool) (l : list (nat * B)) :
  map fst (filter (fun p => g (fst p)) l) = filter g (map fst l).
Proof. induction l as [|p l IH]; simpl; auto. destruct (g (fst p)); simpl; rewrite IH; reflexivity. Qed.

Lemma node_mem_del m n ns :
  node_mem m (filter (fun p => negb (Nat.eqb n (fst p))) ns) = negb (Nat.eqb n m) && node_mem m ns.
Proof.
  apply bool_eq_iff. rewrite andb_true_iff, negb_true_iff, !node_mem_In.
  rewrite (map_filter_fst (fun x => negb (Nat.eqb n x))). rewrite filter_In, negb_true_iff. tauto.
Qed.

Lemma node_mem_restrict m ns' ns :
  node_mem m (map (fun p => (fst p, @nil (nat * nat))) (filter (fun p => memb (fst p) ns') ns))
  = node_mem m ns && memb m ns'.
Proof.
  apply bool_eq_iff. rewrite andb_true_iff, !node_mem_In. rewrite map_map. simpl.
  change (map (fun x : nat * attrs => fst x) (filter (fun p => memb (fst p) ns') ns))
    with (map fst (filter (fun p => memb (fst p) ns') ns)).
  rewrite (map_filter_fst (fun x => memb x ns')). rewrite filter_In. tauto.
Qed.

Lemma NoDup_filter_nat (g : nat -> bool) l : NoDup l -> NoDup (filter g l).
Proof.
  induction 1 as [|x l Hx H IH]; simpl; [constructor|].
  destruct (g x); auto. constructor; auto. rewrite filter_In. tauto.
Qed.

Lemma In_add_lnode m n l : In m (add_lnode n l) <-> m = n \/ In m l.
Proof.
  unfold add_lnode. destruct (memb n l) eqn:E.
  - apply memb_In in E. split; auto. intros [->|H]; auto.
  - rewrite in_app_iff. simpl. intuition.
Qed.

Lemma NoDup_add_lnode n l : NoDup l -> NoDup (add_lnode n l).
Proof.
  intros H. unfold add_lnode. destruct (memb n l) eqn:E; auto.
  apply memb_false in E. apply NoDup_rev in H. rewrite <- (rev_involutive (l ++ [n])).
  apply NoDup_rev. rewrite rev_app_distr. simpl. constructor; auto. rewrite <- in_rev. exact E.
Qed.

Lemma NoDup_snoc (n : nat) l : NoDup l -> ~ In n l -> NoDup (l ++ [n]).
Proof.
  intros H E. apply NoDup_rev in H. rewrite <- (rev_involutive (l ++ [n])).
  apply NoDup_rev. rewrite rev_app_distr. simpl. constructor; auto. rewrite <- in_rev. exact E.
Qed.

(* ------------------------------------------------------------------ layers *)
Lemma find_layer_In l ls y : find_layer l ls = Some y -> In y ls /\ lname y = l.
Proof.
  intros H. apply find_some in H. destruct H as [H E]. apply Nat.eqb_eq in E. auto.
Qed.

Lemma find_layer_None l ls : find_layer l ls = None <-> ~ In l (map lname ls).
Proof.
  unfold find_layer. induction ls as [|y ls IH]; simpl; [tauto|].
  destruct (Nat.eqb l (lname y)) eqn:E; beq.
  - split; [discriminate|]. intros H. exfalso. apply H. auto.
  - rewrite IH. intuition.
Qed.

Lemma find_layer_NoDup ls y : NoDup (map lname ls) -> In y ls -> find_layer (lname y) ls = Some y.
Proof.
  unfold find_layer. induction ls as [|z ls IH]; simpl; intros Hn H; [destruct H|].
  destruct H as [->|H].
  - rewrite Nat.eqb_refl. reflexivity.
  - inversion Hn; subst. destruct (Nat.eqb (lname y) (lname z)) eqn:E; beq; auto.
    exfalso. apply H2. rewrite <- E. apply in_map. exact H.
Qed.

Lemma find_layer_map f l ls :
  (forall y, lname (f y) = lname y) -> find_layer l (map f ls) = option_map f (find_layer l ls).
Proof.
  intros Hf. unfold find_layer. induction ls as [|y ls IH]; simpl; auto.
  rewrite Hf. destruct (Nat.eqb l (lname y)); simpl; auto.
Qed.

Lemma map_lname_map f ls : (forall y, lname (f y) = lname y) -> map lname (map f ls) = map lname ls.
Proof. intros Hf. rewrite map_map. apply map_ext. exact Hf. Qed.

Lemma on_sel_name t f y : lname (on_sel t f y) = lname y.
Proof. unfold on_sel. destruct (sel_match t (lname y)); reflexivity. Qed.
Lemma on_sel_kind t f y : lkind (on_sel t f y) = lkind y.
Proof. unfold on_sel. destruct (sel_match t (lname y)); reflexivity. Qed.
Lemma on_sel_nodes t f y : lnodes (on_sel t f y) = lnodes y.
Proof. unfold on_sel. destruct (sel_match t (lname y)); reflexivity. Qed.
Lemma on_sel_edges t f y : ledges (on_sel t f y) = if sel_match t (lname y) then f y else ledges y.
Proof. unfold on_sel. destruct (sel_match t (lname y)); reflexivity. Qed.

Lemma efst_eu (e e0 : nat * nat * attrs) : fst e = fst e0 -> eu e = eu e0 /\ ev e = ev e0.
Proof. unfold eu, ev. intros ->. auto. Qed.

Lemma In_ins_edge k u v a es e :
  In e (ins_edge k u v a es) -> (exists e0, In e0 es /\ fst e = fst e0) \/ fst e = (u, v).
Proof.
  unfold ins_edge. destruct (edge_mem k es u v).
  - intros H. apply in_map_iff in H. destruct H as [e0 [<- H]]. left. exists e0. split; auto.
    destruct (same_edge k (eu e0) (ev e0) u v); reflexivity.
  - intros H. apply in_app_or in H. destruct H as [H|[<-|[]]]; [left; exists e; auto|right; reflexivity].
Qed.

(* ------------------------------------------------------------------ sync *)
Lemma sync_map_layers f s :
  (forall y, lnodes (f y) = lnodes y) -> sync s -> sync (map_layers f s).
Proof.
  intros Hf Hs y' Hy' m. simpl in Hy'. apply in_map_iff in Hy'. destruct Hy' as [y [<- Hy]].
  rewrite Hf. apply (Hs y Hy m).
Qed.

Lemma sync_add_node n a s : sync s -> sync (c_add_node n a s).
Proof.
  intros Hs y' Hy' m. simpl in Hy'. apply in_map_iff in Hy'. destruct Hy' as [y [<- Hy]]. simpl.
  rewrite In_add_lnode. unfold c_has_node; simpl. rewrite node_mem_ins_node, orb_true_iff, Nat.eqb_eq.
  rewrite (Hs y Hy m). unfold c_has_node. intuition.
Qed.

Lemma sync_del_node n s : sync s -> sync (c_del_node n s).
Proof.
  intros Hs y' Hy' m. simpl in Hy'. apply in_map_iff in Hy'. destruct Hy' as [y [<- Hy]]. simpl.
  unfold c_has_node; simpl. rewrite node_mem_del, filter_In, andb_true_iff.
  rewrite (Hs y Hy m). unfold c_has_node. tauto.
Qed.

Lemma sync_ins_edge t u v a s : sync s -> sync (c_ins_edge t u v a s).
Proof.
  intros Hs. unfold c_ins_edge. destruct (node_mem u (nodes s) && node_mem v (nodes s)); auto.
  apply sync_map_layers; auto. intros y. apply on_sel_nodes.
Qed.
Lemma sync_del_edge t u v s : sync s -> sync (c_del_edge t u v s).
Proof. intros Hs. apply sync_map_layers; auto. intros y. apply on_sel_nodes. Qed.
Lemma sync_clear t s : sync s -> sync (c_clear t s).
Proof. intros Hs. apply sync_map_layers; auto. intros y. apply on_sel_nodes. Qed.

Lemma sync_add_layer l k s : sync s -> sync (c_add_layer l k s).
Proof.
  intros Hs. unfold c_add_layer. destruct (find_layer l (layers s)); auto.
  intros y Hy m. simpl in Hy. apply in_app_or in Hy. destruct Hy as [Hy|[<-|[]]].
  - apply (Hs y Hy m).
  - simpl. unfold c_has_node; simpl. symmetry. apply node_mem_In.
Qed.

Lemma sync_del_layer l s : sync s -> sync (c_del_layer l s).
Proof.
  intros Hs y Hy m. simpl in Hy. apply filter_In in Hy. destruct Hy as [Hy _]. apply (Hs y Hy m).
Qed.

Lemma sync_set_gattr a s : sync s -> sync (c_set_gattr a s).
Proof. intros Hs y Hy m. apply (Hs y Hy m). Qed.

Lemma sync_restrict ns s : sync s -> sync (c_restrict ns s).
Proof.
  intros Hs y' Hy' m. simpl in Hy'. apply in_map_iff in Hy'. destruct Hy' as [y [<- Hy]]. simpl.
  unfold c_has_node; simpl. rewrite node_mem_restrict, filter_In, andb_true_iff.
  rewrite (Hs y Hy m). unfold c_has_node. tauto.
Qed.

(* ------------------------------------------------------------------ closed *)
Lemma closed_add_node n a s : closed s -> closed (c_add_node n a s).
Proof.
  intros Hs y' e Hy' He. simpl in Hy'. apply in_map_iff in Hy'. destruct Hy' as [y [<- Hy]]. simpl in He.
  destruct (Hs y e Hy He) as [H1 H2]. unfold c_has_node in *; simpl. rewrite !node_mem_ins_node, H1, H2, !orb_true_r. auto.
Qed.

Lemma closed_del_node n s : closed s -> closed (c_del_node n s).
Proof.
  intros Hs y' e Hy' He. simpl in Hy'. apply in_map_iff in Hy'. destruct Hy' as [y [<- Hy]]. simpl in He.
  apply filter_In in He. destruct He as [He Hn]. apply andb_true_iff in Hn. destruct Hn as [N1 N2].
  destruct (Hs y e Hy He) as [H1 H2]. unfold c_has_node in *; simpl. rewrite !node_mem_del, H1, H2, N1, N2. auto.
Qed.

Lemma closed_ins_edge t u v a s : closed s -> closed (c_ins_edge t u v a s).
Proof.
  intros Hs. unfold c_ins_edge. destruct (node_mem u (nodes s) && node_mem v (nodes s)) eqn:G; auto.
  apply andb_true_iff in G. destruct G as [Gu Gv].
  intros y' e Hy' He. simpl in Hy'. apply in_map_iff in Hy'. destruct Hy' as [y [<- Hy]].
  rewrite on_sel_edges in He. unfold c_has_node; simpl.
  destruct (sel_match t (lname y)); [|apply (Hs y e Hy He)].
  apply In_ins_edge in He. destruct He as [[e0 [H0 E]]|E].
  - destruct (efst_eu _ _ E) as [-> ->]. apply (Hs y e0 Hy H0).
  - unfold eu, ev. rewrite E. simpl. auto.
Qed.

Lemma closed_del_edge t u v s : closed s -> closed (c_del_edge t u v s).
Proof.
  intros Hs y' e Hy' He. simpl in Hy'. apply in_map_iff in Hy'. destruct Hy' as [y [<- Hy]].
  rewrite on_sel_edges in He. unfold c_has_node; simpl.
  destruct (sel_match t (lname y)); [|apply (Hs y e Hy He)].
  unfold del_edge in He. apply filter_In in He. apply (Hs y e Hy (proj1 He)).
Qed.

Lemma closed_clear t s : closed s -> closed (c_clear t s).
Proof.
  intros Hs y' e Hy' He. simpl in Hy'. apply in_map_iff in Hy'. destruct Hy' as [y [<- Hy]].
  rewrite on_sel_edges in He. unfold c_has_node; simpl.
  destruct (sel_match t (lname y)); [destruct He|apply (Hs y e Hy He)].
Qed.

Lemma closed_add_layer l k s : closed s -> closed (c_add_layer l k s).
Proof.
  intros Hs. unfold c_add_layer. destruct (find_layer l (layers s)); auto.
  intros y e Hy He. simpl in Hy. apply in_app_or in Hy. destruct Hy as [Hy|[<-|[]]].
  - apply (Hs y e Hy He).
  - destruct He.
Qed.

Lemma closed_del_layer l s : closed s -> closed (c_del_layer l s).
Proof.
  intros Hs y e Hy He. simpl in Hy. apply filter_In in Hy. destruct Hy as [Hy _]. apply (Hs y e Hy He).
Qed.

Lemma closed_set_gattr a s : closed s -> closed (c_set_gattr a s).
Proof. intros Hs y e Hy He. apply (Hs y e Hy He). Qed.

Lemma closed_restrict ns s : closed s -> closed (c_restrict ns s).
Proof.
  intros Hs y' e Hy' He. simpl in Hy'. apply in_map_iff in Hy'. destruct Hy' as [y [<- Hy]]. simpl in He.
  apply in_map_iff in He. destruct He as [e0 [<- He]]. apply filter_In in He. destruct He as [He Hn].
  apply andb_true_iff in Hn. destruct Hn as [N1 N2].
  destruct (Hs y e0 Hy He) as [H1 H2]. unfold c_has_node in *; simpl. unfold eu, ev in *; simpl.
  rewrite !node_mem_restrict, H1, H2, N1, N2. auto.
Qed.

(* ------------------------------------------------------------------ nodup *)
Lemma NoDup_map_filter {A B} (f : A -> B) (g : A -> bool) l : NoDup (map f l) -> NoDup (map f (filter g l)).
Proof.
  induction l as [|x l IH]; simpl; intros H; [constructor|]. inversion H; subst.
  destruct (g x); simpl; auto. constructor; auto.
  intros Hin. apply H2. apply in_map_iff in Hin. destruct Hin as [z [E Hz]]. apply filter_In in Hz.
  rewrite <- E. apply in_map. tauto.
Qed.

Lemma nodup_map_layers f s :
  (forall y, lname (f y) = lname y) -> (forall y, lnodes (f y) = lnodes y) -> nodup s -> nodup (map_layers f s).
Proof.
  intros Hn Hl [H1 [H2 H3]]. split; [exact H1|]. split.
  - simpl. rewrite map_lname_map; auto.
  - intros y' Hy'. simpl in Hy'. apply in_map_iff in Hy'. destruct Hy' as [y [<- Hy]]. rewrite Hl. auto.
Qed.

Lemma nodup_add_node n a s : nodup s -> nodup (c_add_node n a s).
Proof.
  intros [H1 [H2 H3]]. split; [|split]; simpl.
  - destruct (node_mem n (nodes s)) eqn:E.
    + rewrite map_fst_ins_node_mem; auto.
    + rewrite map_fst_ins_node_new; auto. apply NoDup_snoc; auto. rewrite <- node_mem_In. congruence.
  - rewrite map_lname_map; auto.
  - intros y' Hy'. apply in_map_iff in Hy'. destruct Hy' as [y [<- Hy]]. simpl. apply NoDup_add_lnode. auto.
Qed.

Lemma nodup_del_node n s : nodup s -> nodup (c_del_node n s).
Proof.
  intros [H1 [H2 H3]]. split; [|split]; simpl.
  - rewrite (map_filter_fst (fun x => negb (Nat.eqb n x))). apply NoDup_filter_nat. auto.
  - rewrite map_lname_map; auto.
  - intros y' Hy'. apply in_map_iff in Hy'. destruct Hy' as [y [<- Hy]]. simpl. apply NoDup_filter_nat. auto.
Qed.

Lemma nodup_ins_edge t u v a s : nodup s -> nodup (c_ins_edge t u v a s).
Proof.
  intros Hs. unfold c_ins_edge. destruct (node_mem u (nodes s) && node_mem v (nodes s)); auto.
  apply nodup_map_layers; auto; intros y; [apply on_sel_name|apply on_sel_nodes].
Qed.
Lemma nodup_del_edge t u v s : nodup s -> nodup (c_del_edge t u v s).
Proof. intros Hs. apply nodup_map_layers; auto; intros y; [apply on_sel_name|apply on_sel_nodes]. Qed.
Lemma nodup_clear t s : nodup s -> nodup (c_clear t s).
Proof. intros Hs. apply nodup_map_layers; auto; intros y; [apply on_sel_name|apply on_sel_nodes]. Qed.

Lemma nodup_add_layer l k s : nodup s -> nodup (c_add_layer l k s).
Proof.
  intros [H1 [H2 H3]]. unfold c_add_layer. destruct (find_layer l (layers s)) eqn:E; [split; auto|].
  split; [|split]; simpl; auto.
  - rewrite map_app. simpl. apply NoDup_snoc; auto. apply find_layer_None. exact E.
  - intros y Hy. apply in_app_or in Hy. destruct Hy as [Hy|[<-|[]]]; auto.
Qed.

Lemma nodup_del_layer l s : nodup s -> nodup (c_del_layer l s).
Proof.
  intros [H1 [H2 H3]]. split; [|split]; simpl; auto.
  - apply NoDup_map_filter. auto.
  - intros y Hy. apply filter_In in Hy. apply H3. tauto.
Qed.

Lemma nodup_set_gattr a s : nodup s -> nodup (c_set_gattr a s).
Proof. intros H. exact H. Qed.

Lemma nodup_restrict ns s : nodup s -> nodup (c_restrict ns s).
Proof.
  intros [H1 [H2 H3]]. split; [|split]; simpl.
  - rewrite map_map. simpl.
    change (map (fun x : nat * attrs => fst x) (filter (fun p => memb (fst p) ns) (nodes s)))
      with (map fst (filter (fun p => memb (fst p) ns) (nodes s))).
    rewrite (map_filter_fst (fun x => memb x ns)). apply NoDup_filter_nat. auto.
  - rewrite map_lname_map; auto.
  - intros y' Hy'. apply in_map_iff in Hy'. destruct Hy' as [y [<- Hy]]. simpl. apply NoDup_filter_nat. auto.
Qed.

Lemma wf_clear_all s : wf s -> wf (c_clear_all s).
Proof.
  intros [H1 [H2 [H3 [H4 H5]]]]. split; [|split; [|split; [|split]]]; simpl.
  - intros y' Hy' m. apply in_map_iff in Hy'. destruct Hy' as [y [<- Hy]]. simpl. split; [contradiction|discriminate].
  - intros y' e Hy' He. apply in_map_iff in Hy'. destruct Hy' as [y [<- Hy]]. destruct He.
  - constructor.
  - rewrite map_lname_map; auto.
  - intros y' Hy'. apply in_map_iff in Hy'. destruct Hy' as [y [<- Hy]]. constructor.
Qed.

(* ------------------------------------------------------------------ wf over histories *)
Lemma wf_init cls : Forall wf (init cls).
Proof.
  constructor; [|constructor].
  destruct cls; simpl; (split; [|split]).
  - intros y [].
  - intros y e [].
  - split; [constructor|]. split; [constructor|]. intros y [].
  - intros y Hy m. simpl in Hy. destruct Hy as [<-|[<-|[<-|[]]]]; simpl; split; (contradiction || discriminate).
  - intros y e Hy He. simpl in Hy. destruct Hy as [<-|[<-|[<-|[]]]]; destruct He.
  - split; [constructor|]. split.
    + simpl. repeat constructor; simpl; intuition discriminate.
    + intros y Hy. simpl in Hy. destruct Hy as [<-|[<-|[<-|[]]]]; constructor.
Qed.

Ltac wf3 H := destruct H as [? [? ?]]; split; [|split].

Theorem wf_reachable : forall cls h, Forall wf (run cls h).
Proof.
  intros cls h. unfold run. apply (run_inv CA wf); simpl.
  - intros n a s H; wf3 H; [apply sync_add_node|apply closed_add_node|apply nodup_add_node]; auto.
  - intros n s H; wf3 H; [apply sync_del_node|apply closed_del_node|apply nodup_del_node]; auto.
  - intros t u v a s H; wf3 H; [apply sync_ins_edge|apply closed_ins_edge|apply nodup_ins_edge]; auto.
  - intros t u v s H; wf3 H; [apply sync_del_edge|apply closed_del_edge|apply nodup_del_edge]; auto.
  - intros t s H; wf3 H; [apply sync_clear|apply closed_clear|apply nodup_clear]; auto.
  - intros l k s H; wf3 H; [apply sync_add_layer|apply closed_add_layer|apply nodup_add_layer]; auto.
  - intros l s H; wf3 H; [apply sync_del_layer|apply closed_del_layer|apply nodup_del_layer]; auto.
  - intros a s H; wf3 H; [apply sync_set_gattr|apply closed_set_gattr|apply nodup_set_gattr]; auto.
  - intros s H. apply wf_clear_all. exact H.
  - intros ns s H; wf3 H; [apply sync_restrict|apply closed_restrict|apply nodup_restrict]; auto.
  - apply wf_init.
Qed.

Theorem mixed_layers_sync : mixed_layers_sync_stmt.
Proof.
  intros cls h s Hs. pose proof (wf_reachable cls h) as H. rewrite Forall_forall in H. auto.
Qed.
