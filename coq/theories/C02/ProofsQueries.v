(* C02 — read queries answer from the abstract edge sets (mixed_queries), copy / subgraph clauses. *)
From Coq Require Import List Arith Bool Lia.
From PG Require Import Base.ListSet C02.Model C02.Spec C02.ProofsGeneric C02.ProofsInv C02.ProofsRefine.
Import ListNotations.

(* ------------------------------------------------------------------ counting lemmas *)
Lemma list_sum_map_add {A} (g h : A -> nat) l :
  list_sum (map (fun n => g n + h n) l) = list_sum (map g l) + list_sum (map h l).
Proof. induction l as [|x l IH]; simpl; auto. rewrite IH. lia. Qed.

Lemma sum_indicator a l : NoDup l -> In a l -> list_sum (map (fun n => b2n (Nat.eqb n a)) l) = 1.
Proof.
  induction 1 as [|x l Hx H IH]; simpl; intros Hin; [destruct Hin|].
  destruct Hin as [->|Hin].
  - rewrite Nat.eqb_refl. simpl. f_equal.
    clear IH H. induction l as [|z l IH]; simpl; auto.
    destruct (Nat.eqb z a) eqn:E; beq.
    + subst. exfalso. apply Hx. left. reflexivity.
    + simpl. apply IH. intros H. apply Hx. right. exact H.
  - destruct (Nat.eqb x a) eqn:E; beq.
    + subst. contradiction.
    + simpl. auto.
Qed.

Lemma list_sum_zero {A} (l : list A) : list_sum (map (fun _ => 0) l) = 0.
Proof. induction l; simpl; auto. Qed.

Lemma count_sum {E} (f : E -> nat) (es : list E) l :
  NoDup l -> (forall e, In e es -> In (f e) l) ->
  list_sum (map (fun n => length (filter (fun e => Nat.eqb n (f e)) es)) l) = length es.
Proof.
  intros Hl. induction es as [|e es IH]; intros Hin.
  - simpl. apply list_sum_zero.
  - assert (Heq : forall n, length (filter (fun e0 => Nat.eqb n (f e0)) (e :: es)) =
                            b2n (Nat.eqb n (f e)) + length (filter (fun e0 => Nat.eqb n (f e0)) es)).
    { intros n. simpl. destruct (Nat.eqb n (f e)); reflexivity. }
    rewrite (map_ext _ _ Heq). rewrite list_sum_map_add. rewrite sum_indicator; auto.
    + rewrite IH; auto. intros e0 H0. apply Hin. right. exact H0.
    + apply Hin. left. reflexivity.
Qed.

Lemma sum_b2n_filter {A} (f : A -> bool) l : list_sum (map (fun y => b2n (f y)) l) = length (filter f l).
Proof. induction l as [|x l IH]; simpl; auto. destruct (f x); simpl; rewrite IH; reflexivity. Qed.

Lemma handshake s y : wf s -> In y (layers s) -> list_sum (map (q_degree y) (lnodes y)) = 2 * length (ledges y).
Proof.
  intros [Hsync [Hclosed [_ [_ Hnd]]]] Hy. unfold q_degree.
  rewrite list_sum_map_add.
  rewrite (count_sum eu), (count_sum ev); auto; try lia.
  - intros e He. apply (Hsync y Hy). apply (Hclosed y e Hy He).
  - intros e He. apply (Hsync y Hy). apply (Hclosed y e Hy He).
Qed.

Lemma size_layer_noe s y : wf s -> In y (layers s) -> q_size_layer y = q_noe_layer y.
Proof.
  intros Hwf Hy. unfold q_size_layer, q_noe_layer. rewrite (handshake s y Hwf Hy). apply Nat.div2_double.
Qed.

(* ------------------------------------------------------------------ membership in some layer *)
Lemma has_edge_layer s y u v :
  wf s -> In y (layers s) -> c_has_edge s (lname y) u v = edge_mem (lkind y) (ledges y) u v.
Proof.
  intros [_ [_ [_ [Hn _]]]] Hy. unfold c_has_edge. rewrite (find_layer_NoDup _ _ Hn Hy). reflexivity.
Qed.

Lemma has_edge_any_spec s u v :
  wf s -> (q_has_edge_any s u v = true <-> exists l, c_has_edge s l u v = true).
Proof.
  intros Hwf. unfold q_has_edge_any. rewrite existsb_exists. split.
  - intros [y [Hy H]]. exists (lname y). rewrite has_edge_layer; auto.
  - intros [l H]. unfold c_has_edge in H. destruct (find_layer l (layers s)) as [y|] eqn:F; [|discriminate].
    exists y. split; auto. apply (find_layer_In _ _ _ F).
Qed.

Lemma same_und k a b u v : same_edge Und a b u v = same_edge k a b u v || same_edge k a b v u.
Proof.
  unfold same_edge. destruct k; destruct (Nat.eqb a u), (Nat.eqb b v), (Nat.eqb a v), (Nat.eqb b u); reflexivity.
Qed.

Lemma edge_mem_und k es u v : edge_mem Und es u v = edge_mem k es u v || edge_mem k es v u.
Proof.
  unfold edge_mem. induction es as [|e es IH]; simpl; auto.
  rewrite IH, (same_und k).
  destruct (same_edge k (eu e) (ev e) u v), (same_edge k (eu e) (ev e) v u),
    (existsb (fun e0 => same_edge k (eu e0) (ev e0) u v) es),
    (existsb (fun e0 => same_edge k (eu e0) (ev e0) v u) es); reflexivity.
Qed.

Lemma und_spec s u v :
  wf s -> (q_und s u v = true <-> exists l, c_has_edge s l u v = true \/ c_has_edge s l v u = true).
Proof.
  intros Hwf. unfold q_und. rewrite existsb_exists. split.
  - intros [y [Hy H]]. exists (lname y). rewrite !has_edge_layer; auto.
    rewrite (edge_mem_und (lkind y)) in H. apply orb_true_iff in H. exact H.
  - intros [l H]. unfold c_has_edge in H. destruct (find_layer l (layers s)) as [y|] eqn:F;
      [|destruct H; discriminate].
    exists y. split; [apply (find_layer_In _ _ _ F)|].
    rewrite (edge_mem_und (lkind y)). apply orb_true_iff. exact H.
Qed.

Lemma noe_uv_all_spec s u v :
  wf s -> q_noe_uv_all s u v = length (filter (fun y => c_has_edge s (lname y) u v) (layers s)).
Proof.
  intros Hwf. unfold q_noe_uv_all. rewrite sum_b2n_filter. f_equal. apply filter_ext_in.
  intros y Hy. symmetry. apply has_edge_layer; auto.
Qed.

Theorem mixed_queries : mixed_queries_stmt.
Proof.
  intros cls h s Hs. pose proof (mixed_layers_sync cls h s Hs) as Hwf. simpl.
  repeat split.
  - apply has_edge_any_spec; auto.
  - apply has_edge_any_spec; auto.
  - apply (has_edge_any_spec s u v Hwf).
  - apply (has_edge_any_spec s u v Hwf).
  - apply und_spec; auto.
  - apply und_spec; auto.
  - intros u v. apply noe_uv_all_spec; auto.
  - intros y Hy. apply (size_layer_noe s); auto.
  - unfold q_size, q_noe. f_equal. apply map_ext_in. intros y Hy. apply (size_layer_noe s); auto.
Qed.

(* ------------------------------------------------------------------ copy / subgraph *)
Theorem copy_equal_independent : copy_equal_independent_stmt.
Proof.
  split.
  - intros st o s H. unfold step. simpl. rewrite H. simpl.
    assert (Ho : o < length st) by (apply nth_error_Some; congruence).
    split; [|split].
    + rewrite nth_error_app2 by lia. rewrite Nat.sub_diag. reflexivity.
    + rewrite nth_error_app1 by lia. exact H.
    + rewrite app_length. simpl. lia.
  - intros st i j x Hij Hj. unfold step. simpl. destruct (nth_error st i) as [s|]; simpl; auto.
    destruct x; simpl; try (apply set_nth_other; exact Hij); apply nth_error_app1; exact Hj.
Qed.

Theorem subgraph_exact : subgraph_exact_stmt.
Proof.
  intros st o s ns H Hns. unfold step. simpl. rewrite H. simpl.
  assert (Ho : o < length st) by (apply nth_error_Some; congruence).
  exists (c_restrict ns s). split; [|split; [|split; [|split]]].
  - rewrite nth_error_app2 by lia. rewrite Nat.sub_diag. reflexivity.
  - rewrite nth_error_app1 by lia. exact H.
  - intros n. unfold c_has_node. simpl. rewrite node_mem_restrict, andb_true_iff, memb_In.
    split; [tauto|]. intros Hn. split; auto. apply (Hns n Hn).
  - intros l. apply (kind_map_layers _ _ _ s); auto.
  - intros l u v. destruct (hom_restrict ns s) as [_ [_ H3]]. apply (H3 l u v).
Qed.
