(* C02 — refinement: [abs] is a homomorphism from the concrete algebra CA to the set-level algebra AA (one lemma per
   primitive), the set-level primitives respect extensional equality, hence (ProofsGeneric.run_sim) the abstraction of
   the store reached by ANY history is what the set-level semantics computes (mixed_refines). *)
From Coq Require Import List Arith Bool Lia.
From PG Require Import Base.ListSet C02.Model C02.Spec C02.ProofsGeneric C02.ProofsInv.
Import ListNotations.

(* ------------------------------------------------------------------ same_edge is an equivalence on pairs *)
Lemma same_edge_sym k a b c d : same_edge k a b c d = same_edge k c d a b.
Proof.
  unfold same_edge. rewrite (Nat.eqb_sym c a), (Nat.eqb_sym d b), (Nat.eqb_sym c b), (Nat.eqb_sym d a).
  destruct k; destruct (Nat.eqb a c), (Nat.eqb b d), (Nat.eqb a d), (Nat.eqb b c); reflexivity.
Qed.

Lemma same_edge_swap a b c d : same_edge Und b a c d = same_edge Und a b c d.
Proof.
  unfold same_edge. destruct (Nat.eqb a c), (Nat.eqb b d), (Nat.eqb a d), (Nat.eqb b c); reflexivity.
Qed.

Lemma same_edge_cases k a b x y :
  same_edge k a b x y = true -> (a = x /\ b = y) \/ (k = Und /\ a = y /\ b = x).
Proof.
  unfold same_edge. intros H. apply orb_true_iff in H. destruct H as [H|H].
  - apply andb_true_iff in H. destruct H; beq; auto.
  - destruct k; [|discriminate]. apply andb_true_iff in H. destruct H; beq; auto.
Qed.

Lemma same_edge_eqv k a b x y u v :
  same_edge k a b x y = true -> same_edge k a b u v = same_edge k u v x y.
Proof.
  intros H. destruct (same_edge_cases _ _ _ _ _ H) as [[-> ->]|[-> [-> ->]]].
  - apply same_edge_sym.
  - rewrite same_edge_swap. apply same_edge_sym.
Qed.

Lemma same_edge_trans k a b u v x y :
  same_edge k a b u v = true -> same_edge k u v x y = true -> same_edge k a b x y = true.
Proof.
  intros H1 H2. rewrite (same_edge_eqv k a b u v x y H1). rewrite same_edge_sym. exact H2.
Qed.

Lemma same_edge_ends (c : nat -> bool) k a b x y :
  same_edge k a b x y = true -> c a && c b = c x && c y.
Proof.
  intros H. destruct (same_edge_cases _ _ _ _ _ H) as [[-> ->]|[_ [-> ->]]]; [reflexivity|apply andb_comm].
Qed.

(* ------------------------------------------------------------------ edge lists *)
Lemma edge_mem_map_fst k (f : nat * nat * attrs -> nat * nat * attrs) es x y :
  (forall e, fst (f e) = fst e) -> edge_mem k (map f es) x y = edge_mem k es x y.
Proof.
  intros Hf. unfold edge_mem. induction es as [|e es IH]; simpl; auto.
  rewrite IH. unfold eu, ev. rewrite Hf. reflexivity.
Qed.

Lemma edge_mem_ins_edge k u v a es x y :
  edge_mem k (ins_edge k u v a es) x y = edge_mem k es x y || same_edge k u v x y.
Proof.
  unfold ins_edge. destruct (edge_mem k es u v) eqn:M.
  - rewrite edge_mem_map_fst by (intros e; destruct (same_edge k (eu e) (ev e) u v); reflexivity).
    destruct (same_edge k u v x y) eqn:E; [|rewrite orb_false_r; reflexivity].
    rewrite orb_true_r. unfold edge_mem in *. apply existsb_exists in M. destruct M as [e [He Hs]].
    apply existsb_exists. exists e. split; auto. eapply same_edge_trans; eauto.
  - unfold edge_mem. rewrite existsb_app. simpl. rewrite orb_false_r. reflexivity.
Qed.

Lemma edge_mem_del_edge k u v es x y :
  edge_mem k (del_edge k u v es) x y = edge_mem k es x y && negb (same_edge k u v x y).
Proof.
  unfold del_edge, edge_mem. induction es as [|e es IH]; simpl; auto.
  destruct (same_edge k (eu e) (ev e) x y) eqn:E.
  - rewrite (same_edge_eqv k _ _ x y u v E). destruct (same_edge k u v x y); simpl.
    + rewrite IH. simpl. rewrite andb_false_r. reflexivity.
    + rewrite E. reflexivity.
  - destruct (negb (same_edge k (eu e) (ev e) u v)); simpl; rewrite ?E; simpl; exact IH.
Qed.

Lemma edge_mem_filter_ends (c : nat -> bool) k es x y :
  edge_mem k (filter (fun e => c (eu e) && c (ev e)) es) x y = edge_mem k es x y && c x && c y.
Proof.
  unfold edge_mem. induction es as [|e es IH]; simpl; auto.
  destruct (same_edge k (eu e) (ev e) x y) eqn:E.
  - rewrite (same_edge_ends c k _ _ x y E). simpl.
    destruct (c x && c y) eqn:F; simpl.
    + rewrite E. destruct (c x), (c y); try discriminate. reflexivity.
    + rewrite IH. rewrite <- andb_assoc, F. rewrite andb_false_r.
      destruct (c x), (c y); try discriminate; reflexivity.
  - destruct (c (eu e) && c (ev e)); simpl; rewrite ?E; simpl; exact IH.
Qed.

(* ------------------------------------------------------------------ layer lookup *)
Lemma find_layer_app l ls y :
  find_layer l (ls ++ [y]) =
  match find_layer l ls with Some z => Some z | None => if Nat.eqb l (lname y) then Some y else None end.
Proof.
  unfold find_layer. induction ls as [|z ls IH]; simpl; auto.
  destruct (Nat.eqb l (lname z)); auto.
Qed.

Lemma find_layer_filter l l' ls :
  find_layer l' (filter (fun y => negb (Nat.eqb l (lname y))) ls) =
  if Nat.eqb l l' then None else find_layer l' ls.
Proof.
  unfold find_layer. induction ls as [|z ls IH]; simpl.
  - destruct (Nat.eqb l l'); reflexivity.
  - destruct (Nat.eqb l (lname z)) eqn:E1; simpl.
    + rewrite IH. destruct (Nat.eqb l l') eqn:E2; auto.
      destruct (Nat.eqb l' (lname z)) eqn:E3; auto. beq. congruence.
    + destruct (Nat.eqb l' (lname z)) eqn:E3; auto.
      destruct (Nat.eqb l l') eqn:E2; auto. beq. congruence.
Qed.

(* kind and edges of a state whose layers are a name-preserving image of another's *)
Lemma kind_map_layers g ns ga s l :
  (forall y, lname (g y) = lname y) -> (forall y, lkind (g y) = lkind y) ->
  c_layer_kind (mkSt ns (map g (layers s)) ga) l = c_layer_kind s l.
Proof.
  intros Hn Hk. unfold c_layer_kind. simpl. rewrite find_layer_map by auto.
  destruct (find_layer l (layers s)); simpl; auto. rewrite Hk. reflexivity.
Qed.

Lemma edge_map_layers g ns ga s l u v :
  (forall y, lname (g y) = lname y) ->
  c_has_edge (mkSt ns (map g (layers s)) ga) l u v =
  match find_layer l (layers s) with
  | Some y => edge_mem (lkind (g y)) (ledges (g y)) u v
  | None => false
  end.
Proof.
  intros Hn. unfold c_has_edge. simpl. rewrite find_layer_map by auto.
  destruct (find_layer l (layers s)); reflexivity.
Qed.

(* ------------------------------------------------------------------ abs is a homomorphism *)
Lemma aeq_refl a : aeq a a.
Proof. repeat split. Qed.
Lemma aeq_trans a b c : aeq a b -> aeq b c -> aeq a c.
Proof.
  intros [A1 [A2 A3]] [B1 [B2 B3]]. split; [|split]; intros; [rewrite A1|rewrite A2|rewrite A3]; auto.
Qed.

Lemma hom_add_node n a s : aeq (abs (c_add_node n a s)) (a_add_node n a (abs s)).
Proof.
  split; [|split]; simpl.
  - intros m. unfold c_has_node; simpl. apply node_mem_ins_node.
  - intros l. apply (kind_map_layers _ _ _ s); auto.
  - intros l u v. unfold c_add_node. rewrite (edge_map_layers _ _ _ s) by auto. reflexivity.
Qed.

Lemma hom_del_node n s : aeq (abs (c_del_node n s)) (a_del_node n (abs s)).
Proof.
  split; [|split]; simpl.
  - intros m. unfold c_has_node; simpl. apply node_mem_del.
  - intros l. apply (kind_map_layers _ _ _ s); auto.
  - intros l u v. unfold c_del_node. rewrite (edge_map_layers _ _ _ s) by auto. unfold c_has_edge.
    destruct (find_layer l (layers s)); simpl; auto.
    apply (edge_mem_filter_ends (fun m => negb (Nat.eqb n m))).
Qed.

Lemma hom_ins_edge t u v a s : aeq (abs (c_ins_edge t u v a s)) (a_ins_edge t u v a (abs s)).
Proof.
  unfold c_ins_edge.
  destruct (node_mem u (nodes s) && node_mem v (nodes s)) eqn:G.
  - split; [|split]; simpl.
    + intros m. reflexivity.
    + intros l. apply (kind_map_layers _ _ _ s); intros y; [apply on_sel_name|apply on_sel_kind].
    + intros l x y. unfold map_layers. rewrite (edge_map_layers _ _ _ s) by (intros z; apply on_sel_name).
      unfold c_has_node. rewrite G. simpl.
      unfold hits, c_has_edge. simpl. unfold c_layer_kind.
      destruct (find_layer l (layers s)) as [z|] eqn:F; simpl; [|rewrite andb_false_r; reflexivity].
      destruct (find_layer_In _ _ _ F) as [_ Hl]. rewrite on_sel_kind, on_sel_edges, Hl.
      destruct (sel_match t l); simpl; [|rewrite orb_false_r; reflexivity].
      apply edge_mem_ins_edge.
  - split; [|split]; simpl; auto. intros l x y. unfold c_has_node. rewrite G. simpl.
    rewrite orb_false_r. reflexivity.
Qed.

Lemma hom_del_edge t u v s : aeq (abs (c_del_edge t u v s)) (a_del_edge t u v (abs s)).
Proof.
  split; [|split]; simpl.
  - intros m. reflexivity.
  - intros l. apply (kind_map_layers _ _ _ s); intros y; [apply on_sel_name|apply on_sel_kind].
  - intros l x y. unfold c_del_edge, map_layers. rewrite (edge_map_layers _ _ _ s) by (intros z; apply on_sel_name).
    unfold hits, c_has_edge. simpl. unfold c_layer_kind.
    destruct (find_layer l (layers s)) as [z|] eqn:F; simpl; auto.
    destruct (find_layer_In _ _ _ F) as [_ Hl]. rewrite on_sel_kind, on_sel_edges, Hl.
    destruct (sel_match t l); simpl; [|rewrite andb_true_r; reflexivity].
    apply edge_mem_del_edge.
Qed.

Lemma hom_clear t s : aeq (abs (c_clear t s)) (a_clear t (abs s)).
Proof.
  split; [|split]; simpl.
  - intros m. reflexivity.
  - intros l. apply (kind_map_layers _ _ _ s); intros y; [apply on_sel_name|apply on_sel_kind].
  - intros l x y. unfold c_clear, map_layers. rewrite (edge_map_layers _ _ _ s) by (intros z; apply on_sel_name).
    unfold c_has_edge. destruct (find_layer l (layers s)) as [z|] eqn:F; simpl; auto.
    destruct (find_layer_In _ _ _ F) as [_ Hl]. rewrite on_sel_kind, on_sel_edges, Hl.
    destruct (sel_match t l); simpl; [rewrite andb_false_r; reflexivity|rewrite andb_true_r; reflexivity].
Qed.

Lemma hom_add_layer l k s : aeq (abs (c_add_layer l k s)) (a_add_layer l k (abs s)).
Proof.
  unfold c_add_layer. destruct (find_layer l (layers s)) as [z|] eqn:F.
  - split; [|split]; simpl; auto. intros l'. destruct (Nat.eqb l l') eqn:E; auto. beq. subst l'.
    unfold c_layer_kind. rewrite F. reflexivity.
  - split; [|split]; simpl; auto.
    + intros l'. unfold c_layer_kind. simpl. rewrite find_layer_app. simpl.
      destruct (Nat.eqb l l') eqn:E.
      * beq. subst l'. rewrite F. rewrite Nat.eqb_refl. reflexivity.
      * rewrite (Nat.eqb_sym l' l), E. destruct (find_layer l' (layers s)); reflexivity.
    + intros l' x y. unfold c_has_edge. simpl. rewrite find_layer_app. simpl.
      destruct (find_layer l' (layers s)); auto. destruct (Nat.eqb l' l); reflexivity.
Qed.

Lemma hom_del_layer l s : aeq (abs (c_del_layer l s)) (a_del_layer l (abs s)).
Proof.
  split; [|split]; simpl; auto.
  - intros l'. unfold c_layer_kind. simpl. rewrite find_layer_filter. destruct (Nat.eqb l l'); reflexivity.
  - intros l' x y. unfold c_has_edge. simpl. rewrite find_layer_filter. destruct (Nat.eqb l l'); reflexivity.
Qed.

Lemma hom_set_gattr a s : aeq (abs (c_set_gattr a s)) (a_set_gattr a (abs s)).
Proof. apply aeq_refl. Qed.

Lemma hom_clear_all s : aeq (abs (c_clear_all s)) (a_clear_all (abs s)).
Proof.
  split; [|split]; simpl; auto.
  - intros l. apply (kind_map_layers _ _ _ s); auto.
  - intros l u v. unfold c_clear_all. rewrite (edge_map_layers _ _ _ s) by auto.
    destruct (find_layer l (layers s)); reflexivity.
Qed.

Lemma hom_restrict ns s : aeq (abs (c_restrict ns s)) (a_restrict ns (abs s)).
Proof.
  split; [|split]; simpl.
  - intros m. unfold c_has_node; simpl. apply node_mem_restrict.
  - intros l. apply (kind_map_layers _ _ _ s); auto.
  - intros l u v. unfold c_restrict. rewrite (edge_map_layers _ _ _ s) by auto. unfold c_has_edge.
    destruct (find_layer l (layers s)); simpl; auto.
    rewrite edge_mem_map_fst by auto. apply (edge_mem_filter_ends (fun m => memb m ns)).
Qed.

(* ------------------------------------------------------------------ the set-level primitives respect aeq *)
Ltac proper :=
  let H1 := fresh in let H2 := fresh in let H3 := fresh in
  intros ? ? [H1 [H2 H3]]; split; [|split]; intros; simpl; unfold hits; rewrite ?H1, ?H2, ?H3; reflexivity.

Lemma pr_add_node n x : forall a b, aeq a b -> aeq (a_add_node n x a) (a_add_node n x b). Proof. proper. Qed.
Lemma pr_del_node n : forall a b, aeq a b -> aeq (a_del_node n a) (a_del_node n b). Proof. proper. Qed.
Lemma pr_ins_edge t u v x : forall a b, aeq a b -> aeq (a_ins_edge t u v x a) (a_ins_edge t u v x b). Proof. proper. Qed.
Lemma pr_del_edge t u v : forall a b, aeq a b -> aeq (a_del_edge t u v a) (a_del_edge t u v b). Proof. proper. Qed.
Lemma pr_clear t : forall a b, aeq a b -> aeq (a_clear t a) (a_clear t b). Proof. proper. Qed.
Lemma pr_add_layer l k : forall a b, aeq a b -> aeq (a_add_layer l k a) (a_add_layer l k b). Proof. proper. Qed.
Lemma pr_del_layer l : forall a b, aeq a b -> aeq (a_del_layer l a) (a_del_layer l b). Proof. proper. Qed.
Lemma pr_clear_all : forall a b, aeq a b -> aeq (a_clear_all a) (a_clear_all b). Proof. proper. Qed.
Lemma pr_restrict ns : forall a b, aeq a b -> aeq (a_restrict ns a) (a_restrict ns b). Proof. proper. Qed.

(* ------------------------------------------------------------------ refinement over histories *)
Definition Rabs (s : mstate) (a : astate) : Prop := aeq (abs s) a.

Lemma Rabs_init cls : Forall2 Rabs (init cls) (a_init cls).
Proof.
  constructor; [|constructor]. destruct cls; (split; [|split]); simpl; auto.
  intros l. destruct l as [|[|[|l]]]; reflexivity.
  intros l u v. destruct l as [|[|[|l]]]; reflexivity.
Qed.

Section Square.
  Let sim_step := step_sim CA AA Rabs.
  Let sim_run := run_sim CA AA Rabs.

  Lemma Rabs_hyps :
    (forall s t n, Rabs s t -> has_node CA s n = has_node AA t n) /\
    (forall s t l, Rabs s t -> layer_kind CA s l = layer_kind AA t l) /\
    (forall s t l u v, Rabs s t -> has_edge CA s l u v = has_edge AA t l u v).
  Proof.
    split; [|split]; intros; match goal with H : Rabs _ _ |- _ => destruct H as [H1 [H2 H3]] end; simpl;
      [rewrite <- H1|rewrite <- H2|rewrite <- H3]; reflexivity.
  Qed.
End Square.

Lemma refine_step st st' x :
  Forall2 Rabs st st' ->
  Forall2 Rabs (fst (step CA st x)) (fst (step AA st' x)) /\ snd (step CA st x) = snd (step AA st' x).
Proof.
  destruct Rabs_hyps as [O1 [O2 O3]].
  apply (step_sim CA AA Rabs O1 O2 O3); simpl; unfold Rabs; intros.
  - eapply aeq_trans; [apply hom_add_node|apply pr_add_node; auto].
  - eapply aeq_trans; [apply hom_del_node|apply pr_del_node; auto].
  - eapply aeq_trans; [apply hom_ins_edge|apply pr_ins_edge; auto].
  - eapply aeq_trans; [apply hom_del_edge|apply pr_del_edge; auto].
  - eapply aeq_trans; [apply hom_clear|apply pr_clear; auto].
  - eapply aeq_trans; [apply hom_add_layer|apply pr_add_layer; auto].
  - eapply aeq_trans; [apply hom_del_layer|apply pr_del_layer; auto].
  - eapply aeq_trans; [apply hom_set_gattr|auto].
  - eapply aeq_trans; [apply hom_clear_all|apply pr_clear_all; auto].
  - eapply aeq_trans; [apply hom_restrict|apply pr_restrict; auto].
Qed.

Lemma refine_fold h : forall st st' acc,
  Forall2 Rabs st st' ->
  Forall2 Rabs (fst (fold_left (fun acc x => let r := step CA (fst acc) x in (fst r, snd acc ++ [snd r])) h (st, acc)))
               (fst (fold_left (fun acc x => let r := step AA (fst acc) x in (fst r, snd acc ++ [snd r])) h (st', acc))) /\
  snd (fold_left (fun acc x => let r := step CA (fst acc) x in (fst r, snd acc ++ [snd r])) h (st, acc)) =
  snd (fold_left (fun acc x => let r := step AA (fst acc) x in (fst r, snd acc ++ [snd r])) h (st', acc)).
Proof.
  induction h as [|x h IH]; simpl; intros st st' acc H; auto.
  destruct (refine_step st st' x H) as [H1 H2]. rewrite H2. apply IH. exact H1.
Qed.

Lemma refine_run h : forall st st', Forall2 Rabs st st' -> Forall2 Rabs (run_from CA st h) (run_from AA st' h).
Proof.
  unfold run_from. induction h as [|x h IH]; simpl; intros st st' H; auto.
  apply IH. apply refine_step. exact H.
Qed.

Theorem mixed_refines : mixed_refines_stmt.
Proof.
  intros cls h. split.
  - apply refine_run. apply Rabs_init.
  - unfold outcomes. apply refine_fold. apply Rabs_init.
Qed.
