(* C02 — specification: the abstract "sets of edges per layer" state, its operation semantics, and the
   statements proved in Proofs*.v (each statement is a closed Prop named *_stmt; Props/C02.v proves exactly these).

   Abstract state = (node set, layer name -> kind, layer name -> edge set) as boolean characteristic functions,
   compared extensionally ([aeq]); attributes are not part of it (they are covered by the copy clause, which is
   Leibniz equality of concrete states, and observed by the tie).  The abstract operation semantics is the SAME
   generic [step1]/[step] of Model.v, instantiated with the set-level primitives [AA] below. *)
From Coq Require Import List Arith Bool.
From PG Require Import Base.ListSet C02.Model.
Import ListNotations.

Record astate := mkA {
  a_node : nat -> bool;                    (* node set *)
  a_kind : nat -> option kind;             (* which edge types exist, and their kind *)
  a_edge : nat -> nat -> nat -> bool       (* layer, u, v : "u -> v" (Dir) / "{u,v}" (Und) is in the layer's edge set *)
}.

Definition aeq (a b : astate) : Prop :=
  (forall n, a_node a n = a_node b n) /\ (forall l, a_kind a l = a_kind b l) /\
  (forall l u v, a_edge a l u v = a_edge b l u v).

(* edge (u,v) of an existing selected layer, as a predicate on (l, x, y) *)
Definition hits (s : astate) (t : sel) (u v l x y : nat) : bool :=
  sel_match t l && match a_kind s l with Some k => same_edge k u v x y | None => false end.

Definition a_add_node (n : nat) (_ : attrs) (s : astate) : astate :=
  mkA (fun m => Nat.eqb n m || a_node s m) (a_kind s) (a_edge s).
Definition a_del_node (n : nat) (s : astate) : astate :=
  mkA (fun m => negb (Nat.eqb n m) && a_node s m) (a_kind s)
      (fun l u v => a_edge s l u v && negb (Nat.eqb n u) && negb (Nat.eqb n v)).
Definition a_ins_edge (t : sel) (u v : nat) (_ : attrs) (s : astate) : astate :=
  mkA (a_node s) (a_kind s) (fun l x y => a_edge s l x y || (a_node s u && a_node s v && hits s t u v l x y)).
Definition a_del_edge (t : sel) (u v : nat) (s : astate) : astate :=
  mkA (a_node s) (a_kind s) (fun l x y => a_edge s l x y && negb (hits s t u v l x y)).
Definition a_clear (t : sel) (s : astate) : astate :=
  mkA (a_node s) (a_kind s) (fun l x y => a_edge s l x y && negb (sel_match t l)).
Definition a_add_layer (l : nat) (k : kind) (s : astate) : astate :=
  mkA (a_node s)
      (fun l' => if Nat.eqb l l' then match a_kind s l' with Some k0 => Some k0 | None => Some k end else a_kind s l')
      (a_edge s).
Definition a_del_layer (l : nat) (s : astate) : astate :=
  mkA (a_node s) (fun l' => if Nat.eqb l l' then None else a_kind s l')
      (fun l' x y => negb (Nat.eqb l l') && a_edge s l' x y).
Definition a_set_gattr (_ : attrs) (s : astate) : astate := s.
Definition a_restrict (ns : list nat) (s : astate) : astate :=
  mkA (fun m => a_node s m && memb m ns) (a_kind s)
      (fun l x y => a_edge s l x y && memb x ns && memb y ns).

Definition AA : alg astate :=
  mkAlg astate a_node a_kind a_edge a_add_node a_del_node a_ins_edge a_del_edge a_clear a_add_layer a_del_layer
        a_set_gattr a_restrict.

(* abstraction of a concrete container state *)
Definition abs (s : mstate) : astate := mkA (c_has_node s) (c_layer_kind s) (c_has_edge s).

Definition a_empty : astate := mkA (fun _ => false) (fun _ => None) (fun _ _ _ => false).
Definition a_admg : astate :=
  mkA (fun _ => false) (fun l => match l with 0 => Some Dir | 1 => Some Und | 2 => Some Und | _ => None end)
      (fun _ _ _ => false).
Definition a_init (cls : nat) : list astate := [match cls with 0 => a_empty | _ => a_admg end].
Definition run_abs (cls : nat) (h : list (nat * op)) : list astate := run_from AA (a_init cls) h.

Definition outcomes {S} (A : alg S) (st : list S) (h : list (nat * op)) : list outcome :=
  snd (fold_left (fun acc x => let r := step A (fst acc) x in (fst r, snd acc ++ [snd r])) h (st, [])).

(* ------------------------------------------------------------------ statements *)

(* (1) refinement: after ANY history the concrete store abstracts to what the set-level semantics computes, object by
   object, and every op has the same outcome class (accepted / rejected / documented error) *)
Definition mixed_refines_stmt : Prop :=
  forall cls h,
    Forall2 (fun s a => aeq (abs s) a) (run cls h) (run_abs cls h) /\
    outcomes CA (init cls) h = outcomes AA (a_init cls) h.

(* (2) every layer has exactly the graph's node set, and every stored edge joins nodes of the graph;
   layer names are unique, node lists duplicate-free (the dict keys of the implementation) *)
Definition sync (s : mstate) : Prop :=
  forall y, In y (layers s) -> forall n, In n (lnodes y) <-> c_has_node s n = true.
Definition closed (s : mstate) : Prop :=
  forall y e, In y (layers s) -> In e (ledges y) -> c_has_node s (eu e) = true /\ c_has_node s (ev e) = true.
Definition nodup (s : mstate) : Prop :=
  NoDup (map fst (nodes s)) /\ NoDup (map lname (layers s)) /\ forall y, In y (layers s) -> NoDup (lnodes y).
Definition wf (s : mstate) : Prop := sync s /\ closed s /\ nodup s.

Definition mixed_layers_sync_stmt : Prop :=
  forall cls h s, In s (run cls h) -> wf s.

(* (3) every read query answers from the abstract edge sets (for every reachable state) *)
Definition mixed_queries_stmt : Prop :=
  forall cls h s, In s (run cls h) ->
    let a := abs s in
    (* has_edge(u,v,l), number_of_edges(u,v,l), get_edge_data(u,v)[l] *)
    (forall l u v, q_has_edge s l u v = a_edge a l u v) /\
    (forall l u v, q_noe_uv s l u v = b2n (a_edge a l u v)) /\
    (* has_edge(u,v) / to_directed: some layer holds u->v resp. {u,v} *)
    (forall u v, q_has_edge_any s u v = true <-> exists l, a_edge a l u v = true) /\
    (forall u v, q_dir s u v = true <-> exists l, a_edge a l u v = true) /\
    (* neighbors / to_undirected: some layer joins u and v in some direction *)
    (forall u v, q_und s u v = true <-> exists l, a_edge a l u v = true \/ a_edge a l v u = true) /\
    (* number_of_edges(u,v): the number of layers holding the edge *)
    (forall u v, q_noe_uv_all s u v = length (filter (fun y => a_edge a (lname y) u v) (layers s))) /\
    (* size() == number_of_edges(), per layer and in total (handshake: degree sums count every stored edge twice) *)
    (forall y, In y (layers s) -> q_size_layer y = q_noe_layer y) /\
    q_size s = q_noe s.

(* number_of_edges(edge_type=l) and degree()[l][n] are computed from the stored edge list (its length, its
   incidences). What is proved about them: the stored list holds every abstract edge exactly once (edges_nodup_stmt,
   unbounded) and the handshake identity above. The final counting step "hence length = cardinality of the abstract
   set" is NOT proved in Coq; it is observed by the tie on every case (fields number_of_edges_layer, degree).
   Attributes are not part of the abstract state: the copy clause covers them by Leibniz equality of concrete states,
   the dict.update semantics of attribute writes is observed by the tie only. *)
Definition edges_nodup (s : mstate) : Prop :=
  forall y, In y (layers s) ->
    NoDup (map fst (ledges y)) /\
    forall e1 e2, In e1 (ledges y) -> In e2 (ledges y) ->
                  same_edge (lkind y) (eu e1) (ev e1) (eu e2) (ev e2) = true -> fst e1 = fst e2.
Definition edges_nodup_stmt : Prop := forall cls h s, In s (run cls h) -> edges_nodup s.

(* (4) copy: the new object is EQUAL to the original (Leibniz equality of the whole state: nodes, edges, all
   attribute dicts, graph attributes), the original is untouched, and no later op on one object changes another *)
Definition copy_equal_independent_stmt : Prop :=
  (forall st o s, nth_error st o = Some s ->
     let st' := fst (step CA st (o, Copy)) in
     nth_error st' (length st) = Some s /\ nth_error st' o = Some s /\ length st' = Datatypes.S (length st)) /\
  (forall st i j x, i <> j -> j < length st ->
     nth_error (fst (step CA st (i, x))) j = nth_error st j).

(* (5) subgraph(ns) with ns present: exactly the nodes ns, the same edge types, and of every type exactly the edges
   between them; the original is untouched *)
Definition subgraph_exact_stmt : Prop :=
  forall st o s ns, nth_error st o = Some s -> (forall n, In n ns -> c_has_node s n = true) ->
    let st' := fst (step CA st (o, Subgraph ns)) in
    exists s', nth_error st' (length st) = Some s' /\ nth_error st' o = Some s /\
      (forall n, c_has_node s' n = true <-> In n ns) /\
      (forall l, c_layer_kind s' l = c_layer_kind s l) /\
      (forall l u v, c_has_edge s' l u v = c_has_edge s l u v && memb u ns && memb v ns).
