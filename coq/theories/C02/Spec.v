(* C02 — specification: the abstract "sets of edges per layer" state, its operation semantics, and the
   statements proved in Proofs*.v (each statement is a closed Prop named *_stmt; Props/C02.v proves exactly these).

   Abstract state = (node set, layer name -> kind, layer name -> edge set) as boolean characteristic functions,
   compared extensionally ([aeq]); attributes are not part of it (they are covered by the copy clause, which is
   Leibniz equality of concrete states, and observed by the tie).  The abstract operation semantics is the SAME
   generic [step1]/[step] of Model.v, instantiated with the set-level primitives [AA] below. *)
From Coq Require Import List Arith Bool.
From PG Require Import Base.ListSet C02.Model.
Import ListNotations.

Record astate := mkA {
  a_node : nat -> bool;                    (* node set *)
  a_kind : nat -> option kind;             (* which edge types exist, and their kind *)
  a_edge : nat -> nat -> nat -> bool       (* layer, u, v : "u -> v" (Dir) / "{u,v}" (Und) is in the layer's edge set *)
}.

Definition aeq (a b : astate) : Prop :=
  (forall n, a_node a n = a_node b n) /\ (forall l, a_kind a l = a_kind b l) /\
  (forall l u v, a_edge a l u v = a_edge b l u v).

(* edge (u,v) of an existing selected layer, as a predicate on (l, x, y) *)
Definition hits (s : astate) (t : sel) (u v l x y : nat) : bool :=
  sel_match t l && match a_kind s l with Some k => same_edge k u v x y | None => false end.

Definition a_add_node (n : nat) (_ : attrs) (s : astate) : astate :=
  mkA (fun m => Nat.eqb n m || a_node s m) (a_kind s) (a_edge s).
Definition a_del_node (n : nat) (s : astate) : astate :=
  mkA (fun m => negb (Nat.eqb n m) && a_node s m) (a_kind s)
      (fun l u v => a_edge s l u v && negb (Nat.eqb n u) && negb (Nat.eqb n v)).
Definition a_ins_edge (t : sel) (u v : nat) (_ : attrs) (s : astate) : astate :=
  mkA (a_node s) (a_kind s) (fun l x y => a_edge s l x y || (a_node s u && a_node s v && hits s t u v l x y)).
Definition a_del_edge (t : sel) (u v : nat) (s : astate) : astate :=
  mkA (a_node s) (a_kind s) (fun l x y => a_edge s l x y && negb (hits s t u v l x y)).
Definition a_clear (t : sel) (s : astate) : astate :=
  mkA (a_node s) (a_kind s) (fun l x y => a_edge s l x y && negb (sel_match t l)).
Definition a_add_layer (l : nat) (k : kind) (s : astate) : astate :=
  mkA (a_node s)
      (fun l' => if Nat.eqb l l' then match a_kind s l' with Some k0 => Some k0 | None => Some k end else a_kind s l')
      (a_edge s).
Definition a_del_layer (l : nat) (s : astate) : astate :=
  mkA (a_node s) (fun l' => if Nat.eqb l l' then None else a_kind s l')
      (fun l' x y => negb (Nat.eqb l l') && a_edge s l' x y).
Definition a_set_gattr (_ : attrs) (s : astate) : astate := s.
Definition a_clear_all (s : astate) : astate := mkA (fun _ => false) (a_kind s) (fun _ _ _ => false).
Definition a_restrict (ns : list nat) (s : astate) : astate :=
  mkA (fun m => a_node s m && memb m ns) (a_kind s)
      (fun l x y => a_edge s l x y && memb x ns && memb y ns).

Definition AA : alg astate :=
  mkAlg astate a_node a_kind a_edge a_add_node a_del_node a_ins_edge a_del_edge a_clear a_add_layer a_del_layer
        a_set_gattr a_clear_all a_restrict.

(* abstraction of a concrete container state *)
Definition abs (s : mstate) : astate := mkA (c_has_node s) (c_layer_kind s) (c_has_edge s).

Definition a_empty : astate := mkA (fun _ => false) (fun _ => None) (fun _ _ _ => false).
Definition a_admg : astate :=
  mkA (fun _ => false) (fun l => match l with 0 => Some Dir | 1 => Some Und | 2 => Some Und | _ => None end)
      (fun _ _ _ => false).
Definition a_init (cls : nat) : list astate := [match cls with 0 => a_empty | _ => a_admg end].
Definition run_abs (cls : nat) (h : list (nat * op)) : list astate := run_from AA (a_init cls) h.

Definition outcomes {S} (A : alg S) (st : list S) (h : list (nat * op)) : list outcome :=
  snd (fold_left (fun acc x => let r := step A (fst acc) x in (fst r, snd acc ++ [snd r])) h (st, [])).

(* ------------------------------------------------------------------ statements *)

(* (1) refinement: after ANY history the concrete store abstracts to what the set-level semantics computes, object by
   object, and every op has the same outcome class (accepted / rejected / documented error) *)
Definition mixed_refines_stmt : Prop :=
  forall cls h,
    Forall2 (fun s a => aeq (abs s) a) (run cls h) (run_abs cls h) /\
    outcomes CA (init cls) h = outcomes AA (a_init cls) h.

(* (2) every layer has exactly the graph's node set, and every stored edge joins nodes of the graph;
   layer names are unique, node lists duplicate-free (the dict keys of the implementation) *)
Definition sync (s : mstate) : Prop :=
  forall y, In y (layers s) -> forall n, In n (lnodes y) <-> c_has_node s n = true.
Definition closed (s : mstate) : Prop :=
  forall y e, In y (layers s) -> In e (ledges y) -> c_has_node s (eu e) = true /\ c_has_node s (ev e) = true.
Definition nodup (s : mstate) : Prop :=
  NoDup (map fst (nodes s)) /\ NoDup (map lname (layers s)) /\ forall y, In y (layers s) -> NoDup (lnodes y).
Definition wf (s : mstate) : Prop := sync s /\ closed s /\ nodup s.

Definition mixed_layers_sync_stmt : Prop :=
  forall cls h s, In s (run cls h) -> wf s.

(* (3) every read query answers from the abstract edge sets (for every reachable state) *)
Definition mixed_queries_stmt : Prop :=
  forall cls h s, In s (run cls h) ->
    let a := abs s in
    (* has_edge(u,v,l), number_of_edges(u,v,l), get_edge_data(u,v)[l] *)
    (forall l u v, q_has_edge s l u v = a_edge a l u v) /\
    (forall l u v, q_noe_uv s l u v = b2n (a_edge a l u v)) /\
    (* has_edge(u,v) / to_directed: some layer holds u->v resp. {u,v} *)
    (forall u v, q_has_edge_any s u v = true <-> exists l, a_edge a l u v = true) /\
    (forall u v, q_dir s u v = true <-> exists l, a_edge a l u v = true) /\
    (* neighbors / to_undirected: some layer joins u and v in some direction *)
    (forall u v, q_und s u v = true <-> exists l, a_edge a l u v = true \/ a_edge a l v u = true) /\
    (* number_of_edges(u,v): the number of layers holding the edge *)
    (forall u v, q_noe_uv_all s u v = length (filter (fun y => a_edge a (lname y) u v) (layers s))) /\
    (* size() == number_of_edges(), per layer and in total (handshake: degree sums count every stored edge twice) *)
    (forall y, In y (layers s) -> q_size_layer y = q_noe_layer y) /\
    q_size s = q_noe s.

(* number_of_edges(edge_type=l) and degree()[l][n] are computed from the stored edge list (its length, its
   incidences). They are the cardinality / incidence count of the ABSTRACT edge set: [P] is a duplicate-free enumeration
   of the edge set [edge] of a layer of kind [k] (one representative per edge; for Und either orientation) *)
Definition represents (k : kind) (edge : nat -> nat -> bool) (P : list (nat * nat)) : Prop :=
  NoDup P /\
  (forall p q, In p P -> In q P -> same_edge k (fst p) (snd p) (fst q) (snd q) = true -> p = q) /\
  (forall x y, edge x y = true <-> exists p, In p P /\ same_edge k (fst p) (snd p) x y = true).
(* incidences of n: an Und self loop counts twice, Dir: in-degree + out-degree (networkx's degree) *)
Definition incidences (n : nat) (P : list (nat * nat)) : nat :=
  length (filter (fun p => Nat.eqb n (fst p)) P) + length (filter (fun p => Nat.eqb n (snd p)) P).

Definition mixed_queries_counts_stmt : Prop :=
  forall cls h s, In s (run cls h) ->
    let a := abs s in
    (* number_of_edges(edge_type=l) = |edge set of l| and degree()[l][n] = incidences of n, for EVERY enumeration P *)
    (forall y P, In y (layers s) -> represents (lkind y) (a_edge a (lname y)) P ->
       q_noe_layer y = length P /\ forall n, q_degree y n = incidences n P) /\
    (* ... and such an enumeration exists (non-vacuity) *)
    (forall y, In y (layers s) -> exists P, represents (lkind y) (a_edge a (lname y)) P) /\
    (* number_of_edges() is the sum of the layers' cardinalities *)
    q_noe s = list_sum (map q_noe_layer (layers s)) /\
    (* edges(data=True)[l] / adj[l] (observed as tables): an entry exactly for the edges of the abstract set *)
    (forall y u v, In y (layers s) ->
       (edge_attrs (lkind y) (ledges y) u v <> None <-> a_edge a (lname y) u v = true)).

(* Attributes are not part of this structural abstract state; see the attribute section at the end of this file. *)
Definition edges_nodup (s : mstate) : Prop :=
  forall y, In y (layers s) ->
    NoDup (map fst (ledges y)) /\
    forall e1 e2, In e1 (ledges y) -> In e2 (ledges y) ->
                  same_edge (lkind y) (eu e1) (ev e1) (eu e2) (ev e2) = true -> fst e1 = fst e2.
Definition edges_nodup_stmt : Prop := forall cls h s, In s (run cls h) -> edges_nodup s.

(* (4) copy: the new object is EQUAL to the original (Leibniz equality of the whole state: nodes, edges, all
   attribute dicts, graph attributes), the original is untouched, and no later op on one object changes another *)
Definition copy_equal_independent_stmt : Prop :=
  (forall st o s, nth_error st o = Some s ->
     let st' := fst (step CA st (o, Copy)) in
     nth_error st' (length st) = Some s /\ nth_error st' o = Some s /\ length st' = Datatypes.S (length st)) /\
  (forall st i j x, i <> j -> j < length st ->
     nth_error (fst (step CA st (i, x))) j = nth_error st j).

(* (5) subgraph(ns) with ns present: exactly the nodes ns, the same edge types, and of every type exactly the edges
   between them; the original is untouched *)
Definition subgraph_exact_stmt : Prop :=
  forall st o s ns, nth_error st o = Some s -> (forall n, In n ns -> c_has_node s n = true) ->
    let st' := fst (step CA st (o, Subgraph ns)) in
    exists s', nth_error st' (length st) = Some s' /\ nth_error st' o = Some s /\
      (forall n, c_has_node s' n = true <-> In n ns) /\
      (forall l, c_layer_kind s' l = c_layer_kind s l) /\
      (forall l u v, c_has_edge s' l u v = c_has_edge s l u v && memb u ns && memb v ns).

(* ------------------------------------------------------------------ attributes at the abstract level
   Abstract attribute dicts are functions key -> option value; an attribute write is dict.update ([dupd]).
   The extended abstract state pairs the structural state with the attribute maps; its operation semantics is again
   the generic step of Model.v, instantiated with [XA]. copy (generic [step]) duplicates the pair, i.e. all
   attributes; subgraph keeps graph attributes only (what the tie normalises the implementation to). *)
Definition adict := nat -> option nat.
Definition dnone : adict := fun _ => None.
Definition dupd (new : attrs) (old : adict) : adict :=
  fun k => match alookup k new with Some v => Some v | None => old k end.
Definition dict_of (o : option attrs) : adict := fun k => match o with Some a => alookup k a | None => None end.

Record xattr := mkX {
  x_nattr : nat -> adict;                     (* node -> dict (dnone for absent nodes) *)
  x_eattr : nat -> nat -> nat -> adict;       (* layer, u, v -> dict (dnone for absent edges) *)
  x_gattr : adict }.
Definition xeq (a b : xattr) : Prop :=
  (forall n k, x_nattr a n k = x_nattr b n k) /\ (forall l u v k, x_eattr a l u v k = x_eattr b l u v k) /\
  (forall k, x_gattr a k = x_gattr b k).

Definition xp_add_node (n : nat) (at_ : attrs) (a : astate) (x : xattr) : xattr :=
  mkX (fun m => if Nat.eqb n m then dupd at_ (x_nattr x m) else x_nattr x m) (x_eattr x) (x_gattr x).
Definition xp_del_node (n : nat) (a : astate) (x : xattr) : xattr :=
  mkX (fun m => if Nat.eqb n m then dnone else x_nattr x m)
      (fun l u v => if negb (Nat.eqb n u) && negb (Nat.eqb n v) then x_eattr x l u v else dnone) (x_gattr x).
Definition xp_ins_edge (t : sel) (u v : nat) (at_ : attrs) (a : astate) (x : xattr) : xattr :=
  mkX (x_nattr x)
      (fun l p q => if a_node a u && a_node a v && hits a t u v l p q then dupd at_ (x_eattr x l p q)
                    else x_eattr x l p q) (x_gattr x).
Definition xp_del_edge (t : sel) (u v : nat) (a : astate) (x : xattr) : xattr :=
  mkX (x_nattr x) (fun l p q => if hits a t u v l p q then dnone else x_eattr x l p q) (x_gattr x).
Definition xp_clear (t : sel) (a : astate) (x : xattr) : xattr :=
  mkX (x_nattr x) (fun l p q => if sel_match t l then dnone else x_eattr x l p q) (x_gattr x).
Definition xp_del_layer (l : nat) (a : astate) (x : xattr) : xattr :=
  mkX (x_nattr x) (fun l' p q => if Nat.eqb l l' then dnone else x_eattr x l' p q) (x_gattr x).
Definition xp_set_gattr (at_ : attrs) (a : astate) (x : xattr) : xattr :=
  mkX (x_nattr x) (x_eattr x) (dupd at_ (x_gattr x)).
Definition xp_clear_all (a : astate) (x : xattr) : xattr := mkX (fun _ => dnone) (fun _ _ _ => dnone) dnone.
Definition xp_restrict (ns : list nat) (a : astate) (x : xattr) : xattr :=
  mkX (fun _ => dnone) (fun _ _ _ => dnone) (x_gattr x).

Definition xstate := (astate * xattr)%type.
Definition lift (f : astate -> astate) (g : astate -> xattr -> xattr) (t : xstate) : xstate :=
  (f (fst t), g (fst t) (snd t)).
Definition XA : alg xstate :=
  mkAlg xstate (fun t => a_node (fst t)) (fun t => a_kind (fst t)) (fun t => a_edge (fst t))
        (fun n at_ => lift (a_add_node n at_) (xp_add_node n at_))
        (fun n => lift (a_del_node n) (xp_del_node n))
        (fun t u v at_ => lift (a_ins_edge t u v at_) (xp_ins_edge t u v at_))
        (fun t u v => lift (a_del_edge t u v) (xp_del_edge t u v))
        (fun t => lift (a_clear t) (xp_clear t))
        (fun l k => lift (a_add_layer l k) (fun _ x => x))
        (fun l => lift (a_del_layer l) (xp_del_layer l))
        (fun at_ => lift (a_set_gattr at_) (xp_set_gattr at_))
        (lift a_clear_all xp_clear_all)
        (fun ns => lift (a_restrict ns) (xp_restrict ns)).

Definition absx (s : mstate) : xattr :=
  mkX (fun n => dict_of (node_attrs n (nodes s)))
      (fun l u v => match find_layer l (layers s) with
                    | Some y => dict_of (edge_attrs (lkind y) (ledges y) u v)
                    | None => dnone
                    end)
      (dict_of (Some (gattrs s))).
Definition x_none : xattr := mkX (fun _ => dnone) (fun _ _ _ => dnone) dnone.
Definition x_init (cls : nat) : list xstate := map (fun a => (a, x_none)) (a_init cls).
Definition run_x (cls : nat) (h : list (nat * op)) : list xstate := run_from XA (x_init cls) h.

(* (1') refinement including attributes: node, edge and graph attribute dicts of every object after ANY history are
   what dict.update semantics on the abstract state gives; in particular a copy (which duplicates the abstract pair)
   carries all attributes, and later writes to one object do not reach the other *)
Definition mixed_refines_attrs_stmt : Prop :=
  forall cls h,
    Forall2 (fun s t => aeq (abs s) (fst t) /\ xeq (absx s) (snd t)) (run cls h) (run_x cls h).
