(* C03: the boundary of the known finding  edge_type = "all"  as theorems about the AS-IS machine (histories WITH "all"
   insertions), and the lagged (lagswap = true) instance of orient_uncertain_edge.

   What an accepted "all" insertion breaks: the validity of the ONE pair it names (all_insertion_breaks: which clauses).
   What still holds on every history, with or without "all" (no validity hypothesis on the graph):
     frame            every operation changes only the pairs it names                                   (step_frame)
     pair validity    a pair is contradictory only if an accepted "all" insertion named it              (c03_pair_valid_unless_all)
     first break      the first contradictory graph of a history appears right after an accepted "all"
                      insertion, from a valid graph                                                     (c03_first_break_is_all)
     atomic raise     add_edge / add_edges_from / constructor that raise leave the graph identical;
                      orient_uncertain_edge that raises on a still-valid pair changes nothing            (raise_atomic_any, orient_raise_atomic_local)
     orient-one-mark  on a still-valid pair, whatever the rest of the graph looks like                  (orient_one_mark_local)
     removal          drops exactly the named marks of the named pair                                   (remove_exact)
     is_valid_mec_graph accepts exactly the graphs all of whose pairs are valid                         (mec_exact)
   What does NOT survive: orient_uncertain_edge on a pair already made contradictory may raise after having removed
   a mark (orient_nonatomic_on_contradictory: witness). *)
From Coq Require Import List Arith Bool Lia.
From PG Require Import Base.ListSet C03.PState Gen.Gen_Guards Gen.Gen_Orient C03.Model C03.Spec C03.Proofs.
Import ListNotations.

(* ---------------------------------------------------------------- what "all" breaks, on the pair *)
Lemma all_insertion_breaks : forall c s d, conforming c = true -> valid_of c s = true -> guard_of c s d EAll = false ->
  let s' := view (insert c s d EAll) d in
  valid_of c (insert c s d EAll) = false /\
  dir_uv s' = true /\ und s' = true /\ dir_vu s' = dir_vu (view s d) /\ cir_vu s' = cir_vu (view s d) /\
  (if pag_like c
   then bid s' && dir_uv s' = true       (* clause 1: bidirected together with a directed mark *)
        /\ dir_uv s' && cir_uv s' = true (* clause 3: arrowhead and circle at the same endpoint v *)
   else (dir_uv s' || dir_vu s') && und s' = true).  (* CPDAG clause 1: directed together with undirected *)
Proof.
  assert (H : chk3 (fun c s d => implb (conforming c && valid_of c s && negb (guard_of c s d EAll))
     (let s' := view (insert c s d EAll) d in
      negb (valid_of c (insert c s d EAll)) && dir_uv s' && und s' && Bool.eqb (dir_vu s') (dir_vu (view s d)) &&
      Bool.eqb (cir_vu s') (cir_vu (view s d)) &&
      (if pag_like c then bid s' && dir_uv s' && (dir_uv s' && cir_uv s') else (dir_uv s' || dir_vu s') && und s'))) = true)
    by (vm_compute; reflexivity).
  intros c s d H1 H2 H3 s'. pose proof (implb_elim _ _ (chk3_spec _ H c s d)) as G. cbv beta zeta in G.
  rewrite H1, H2, H3 in G. specialize (G eq_refl). fold s' in G.
  apply andb_true_iff in G as [G G6]. apply andb_true_iff in G as [G G5]. apply andb_true_iff in G as [G G4].
  apply andb_true_iff in G as [G G3]. apply andb_true_iff in G as [G1 G2].
  apply negb_true_iff in G1. apply eqb_prop in G4. apply eqb_prop in G5.
  repeat split; auto.
  destruct (pag_like c); [apply andb_true_iff in G6 as [A B]; split; assumption | exact G6].
Qed.

(* ---------------------------------------------------------------- keys an operation names *)
Definition key_of (e : nat * nat) : key := fst (canon (fst e) (snd e)).
Definition keys_of (o : op) : list key :=
  match o with
  | AddEdge u v _ | RemoveEdge u v _ | Orient u v | OrientLag u v => [key_of (u, v)]
  | AddEdges es _ | RemoveEdges es _ => map key_of es
  | Construct _ _ _ _ => []
  end.
Definition is_construct (o : op) : bool := match o with Construct _ _ _ _ => true | _ => false end.

Lemma add1_frame c et st e st' k : add1 c et st e = Some st' -> k <> key_of e -> get st' k = get st k.
Proof.
  unfold add1, key_of. destruct e as [u v]. simpl. destruct (Nat.eqb u v || negb (supported c et)); [discriminate|].
  destruct (canon u v) as [k0 d]. simpl. destruct (guard_of c (get st k0) d et); [discriminate|].
  intros [= <-] N. apply get_set_other. exact N.
Qed.
Lemma add_all_frame c et es : forall st st' k, add_all c et st es = Some st' -> ~ In k (map key_of es) -> get st' k = get st k.
Proof.
  induction es as [|e t IH]; intros st st' k H N; cbn [add_all] in H; [congruence|].
  cbn [map] in N.
  assert (N1 : k <> key_of e) by (intros ->; apply N, in_eq).
  assert (N2 : ~ In k (map key_of t)) by (intros X; apply N, in_cons, X).
  destruct (add1 c et st e) as [st1|] eqn:A; [|discriminate].
  rewrite (IH _ _ _ H N2). eapply add1_frame; eauto.
Qed.
Lemma rem1_frame c et st e k : k <> key_of e -> get (rem1 c et st e) k = get st k.
Proof.
  unfold rem1, key_of. destruct e as [u v]. simpl. destruct (Nat.eqb u v || negb (supported c et)); [reflexivity|].
  destruct (canon u v) as [k0 d]. simpl. intros N. apply get_set_other. exact N.
Qed.
Lemma fold_rem_frame c et es : forall st k, ~ In k (map key_of es) -> get (fold_left (rem1 c et) es st) k = get st k.
Proof.
  induction es as [|e t IH]; intros st k N; cbn [fold_left]; [reflexivity|].
  cbn [map] in N.
  assert (N1 : k <> key_of e) by (intros ->; apply N, in_eq).
  assert (N2 : ~ In k (map key_of t)) by (intros X; apply N, in_cons, X).
  rewrite IH by exact N2. apply rem1_frame. exact N1.
Qed.

(* frame: any class, any graph (valid or not), any operation but the constructor (which builds a new object) *)
Theorem step_frame : forall c st o k, is_construct o = false -> ~ In k (keys_of o) -> get (fst (step c st o)) k = get st k.
Proof.
  intros c st o k Hc N. destruct o as [u v et|es et|u v et|es et|u v|dl ul bl cl|u v]; try discriminate Hc; unfold step; simpl in N.
  - destruct (add1 c et st (u, v)) as [st'|] eqn:A; simpl; [eapply add1_frame; eauto | reflexivity].
  - destruct (scratch_copy_fails c st); [reflexivity|].
    destruct (add_all c et st es) as [st'|] eqn:A; simpl; [eapply add_all_frame; eauto | reflexivity].
  - cbn [fst]. apply rem1_frame. intros E; apply N; left; symmetry; exact E.
  - cbn [fst]. apply fold_rem_frame. exact N.
  - destruct (Nat.eqb u v); [reflexivity|]. unfold key_of in N. cbn [fst snd] in N. destruct (canon u v) as [k0 d]. cbn [fst snd] in *.
    apply get_set_other. intros E; apply N; left; symmetry; exact E.
  - destruct (Nat.eqb u v); [reflexivity|]. unfold key_of in N. cbn [fst snd] in N. destruct (canon u v) as [k0 d]. cbn [fst snd] in *.
    apply get_set_other. intros E; apply N; left; symmetry; exact E.
Qed.

(* ---------------------------------------------------------------- pair-wise preservation *)
Lemma add1_pair c et st e st' k : conforming c = true -> et <> EAll -> valid_of c (get st k) = true ->
  add1 c et st e = Some st' -> valid_of c (get st' k) = true.
Proof.
  intros Hc Het Hv A. destruct (key_dec k (key_of e)) as [E|N].
  - revert A. unfold add1, key_of in *. destruct e as [u v]. simpl in E.
    destruct (Nat.eqb u v || negb (supported c et)) eqn:S; [discriminate|].
    apply orb_false_iff in S as [_ S]. apply negb_false_iff in S.
    destruct (canon u v) as [k0 d]. simpl in E. subst k0.
    destruct (guard_of c (get st k) d et) eqn:G; [discriminate|]. intros [= <-]. rewrite get_set_same.
    apply guard_inductive; auto.
  - rewrite (add1_frame _ _ _ _ _ _ A N). exact Hv.
Qed.
Lemma add_all_pair c et es k : conforming c = true -> et <> EAll -> forall st st', valid_of c (get st k) = true ->
  add_all c et st es = Some st' -> valid_of c (get st' k) = true.
Proof.
  intros Hc Het. induction es as [|e t IH]; simpl; intros st st' Hv H; [congruence|].
  destruct (add1 c et st e) as [st1|] eqn:A; [|discriminate]. eapply IH; [|exact H]. eapply add1_pair; eauto.
Qed.
Lemma rem1_pair c et st e k : valid_of c (get st k) = true -> valid_of c (get (rem1 c et st e) k) = true.
Proof.
  intros Hv. destruct (key_dec k (key_of e)) as [E|N]; [|rewrite rem1_frame by exact N; exact Hv].
  unfold rem1, key_of in *. destruct e as [u v]. simpl in E. destruct (Nat.eqb u v || negb (supported c et)); [exact Hv|].
  destruct (canon u v) as [k0 d]. simpl in E. subst k0. rewrite get_set_same. apply remove_valid, Hv.
Qed.
Lemma fold_rem_pair c et es k : forall st, valid_of c (get st k) = true -> valid_of c (get (fold_left (rem1 c et) es st) k) = true.
Proof. induction es as [|e t IH]; simpl; intros st Hv; [exact Hv | apply IH, rem1_pair, Hv]. Qed.

(* one pair through one step: it stays valid unless the step is an "all" insertion naming it *)
Lemma step_pair c st o k : conforming c = true -> valid_of c (get st k) = true ->
  no_all_op o = true \/ ~ In k (keys_of o) -> valid_of c (get (fst (step c st o)) k) = true.
Proof.
  intros Hc Hv Hn.
  destruct (is_construct o) eqn:Ic.
  - destruct o; try discriminate Ic. unfold step.
    destruct (mec_ok c (build c dl ul bl cl)) eqn:M; simpl; [apply (mec_ok_inv _ _ M) | exact Hv].
  - destruct Hn as [Hn|Hn]; [|rewrite step_frame by assumption; exact Hv].
    destruct o as [u v et|es et|u v et|es et|u v|dl ul bl cl|u v]; try discriminate Ic; simpl in Hn; unfold step.
    + apply negb_true_iff, et_all_dec in Hn.
      destruct (add1 c et st (u, v)) as [st'|] eqn:A; simpl; [eapply add1_pair; eauto | exact Hv].
    + apply negb_true_iff, et_all_dec in Hn. destruct (scratch_copy_fails c st); [exact Hv|].
      destruct (add_all c et st es) as [st'|] eqn:A; simpl; [eapply add_all_pair; eauto | exact Hv].
    + cbn [fst]. apply rem1_pair, Hv.
    + cbn [fst]. apply fold_rem_pair, Hv.
    + destruct (Nat.eqb u v); simpl; [exact Hv|]. destruct (canon u v) as [k0 d]. simpl.
      destruct (key_dec k k0) as [->|N]; [rewrite get_set_same; apply orient_valid; auto | rewrite get_set_other by exact N; exact Hv].
    + destruct (Nat.eqb u v); simpl; [exact Hv|]. destruct (canon u v) as [k0 d]. simpl.
      destruct (key_dec k k0) as [->|N]; [|rewrite get_set_other by exact N; exact Hv].
      rewrite get_set_same, orient_lag_reversed by exact Hc. apply orient_valid; auto.
Qed.

(* THE BOUNDARY, per pair: on ANY history of the as-is machine (with "all" insertions), a pair can be contradictory only
   if some "all" insertion of the history names it *)
Theorem c03_pair_valid_unless_all : forall c ops k, conforming c = true ->
  (forall o, In o ops -> no_all_op o = true \/ ~ In k (keys_of o)) ->
  valid_of c (get (run c ops []) k) = true.
Proof.
  intros c ops k Hc. unfold run.
  assert (G : forall st, valid_of c (get st k) = true ->
     (forall o, In o ops -> no_all_op o = true \/ ~ In k (keys_of o)) ->
     valid_of c (get (fold_left (fun st o => fst (step c st o)) ops st) k) = true).
  { induction ops as [|o t IH]; simpl; intros st Hv H; [exact Hv|].
    apply IH; [apply step_pair; auto | intros o' Ho'; apply H; auto]. }
  intros H. apply G; [apply empty_valid | exact H].
Qed.

(* ---------------------------------------------------------------- the first contradictory graph of a history *)
Definition invb (c : cls) (st : pairmap) : bool := forallb (fun kv => valid_of c (get st (fst kv))) st.
Lemma invb_Inv c st : invb c st = true <-> Inv c st.
Proof.
  split.
  - intros H k. destruct (find (fun kv => pair_eqb (fst kv) k) st) as [kv|] eqn:F.
    + apply find_some in F as [Hin Heq]. apply pair_eqb_eq in Heq. unfold invb in H. rewrite forallb_forall in H.
      specialize (H _ Hin). cbv beta in H. subst k. exact H.
    + unfold get. rewrite F. apply empty_valid.
  - intros H. apply forallb_forall. intros kv _. apply H.
Qed.

(* is_valid_mec_graph accepts exactly the graphs all of whose pairs are valid -- all five classes, any graph *)
Theorem mec_exact : forall c st, mec_ok c st = true <-> Inv c st.
Proof. intros c st. split; [apply mec_ok_inv | apply inv_mec_ok]. Qed.

(* from a valid graph, only an ACCEPTED insertion with edge_type "all" gives a graph with a contradictory pair *)
Theorem only_all_breaks_validity : forall c st o, conforming c = true -> Inv c st ->
  invb c (fst (step c st o)) = false -> no_all_op o = false /\ snd (step c st o) = false.
Proof.
  intros c st o Hc Hi Hb. split.
  - destruct (no_all_op o) eqn:N; [|reflexivity].
    pose proof (step_inv c st o Hc N Hi) as Hi'. apply invb_Inv in Hi'. congruence.
  - destruct (step c st o) as [st' r] eqn:S. simpl in *. destruct r; [|reflexivity].
    pose proof (step_raise_same c st o st' Hc Hi S) as Hs.
    assert (Inv c st') by (intros k; rewrite Hs; apply Hi). apply invb_Inv in H. congruence.
Qed.

Theorem c03_first_break_is_all : forall c ops, conforming c = true -> invb c (run c ops []) = false ->
  exists ops1 o ops2, ops = ops1 ++ o :: ops2 /\
    Inv c (run c ops1 []) /\                               (* valid up to here *)
    no_all_op o = false /\ snd (step c (run c ops1 []) o) = false /\   (* an accepted "all" insertion *)
    invb c (run c (ops1 ++ [o]) []) = false.               (* gives the first contradictory graph *)
Proof.
  intros c ops Hc. unfold run.
  assert (G : forall st, Inv c st -> invb c (fold_left (fun st o => fst (step c st o)) ops st) = false ->
    exists ops1 o ops2, ops = ops1 ++ o :: ops2 /\
      Inv c (fold_left (fun st o => fst (step c st o)) ops1 st) /\
      no_all_op o = false /\ snd (step c (fold_left (fun st o => fst (step c st o)) ops1 st) o) = false /\
      invb c (fold_left (fun st o => fst (step c st o)) (ops1 ++ [o]) st) = false).
  { induction ops as [|o t IH]; simpl; intros st Hi Hb.
    - apply invb_Inv in Hi. congruence.
    - destruct (invb c (fst (step c st o))) eqn:B.
      + apply invb_Inv in B. destruct (IH _ B Hb) as (ops1 & o' & ops2 & E & H1 & H2 & H3 & H4).
        exists (o :: ops1), o', ops2. simpl. repeat split; auto. rewrite E. reflexivity.
      + destruct (only_all_breaks_validity c st o Hc Hi B) as [N R].
        exists [], o, t. simpl. repeat split; auto. }
  intros Hb. apply G; [apply Inv_empty | exact Hb].
Qed.

(* ---------------------------------------------------------------- what still holds on ANY graph *)
(* insertions and the constructor: a raise leaves the graph IDENTICAL -- any class, any graph *)
Theorem raise_atomic_any : forall c st o st',
  match o with AddEdge _ _ _ | AddEdges _ _ | Construct _ _ _ _ => True | _ => False end ->
  step c st o = (st', true) -> st' = st.
Proof.
  intros c st o st' Ho. destruct o as [u v et|es et|u v et|es et|u v|dl ul bl cl|u v]; try contradiction; unfold step.
  - destruct (add1 c et st (u, v)); intros [= <-]; reflexivity.
  - destruct (scratch_copy_fails c st); [intros [= <-]; reflexivity|].
    destruct (add_all c et st es); intros [= <-]; reflexivity.
  - destruct (mec_ok c (build c dl ul bl cl)); intros [= <-]; reflexivity.
Qed.

(* removal drops exactly the named marks of the named pair -- any class, any graph *)
Theorem remove_exact : forall c st u v et, u <> v -> supported c et = true ->
  let k := fst (canon u v) in let d := snd (canon u v) in
  get (fst (step c st (RemoveEdge u v et))) k = remove c (get st k) d et /\
  snd (step c st (RemoveEdge u v et)) = false.
Proof.
  intros c st u v et Huv Hs. unfold step, rem1. simpl. rewrite (proj2 (Nat.eqb_neq u v) Huv), Hs. simpl.
  destruct (canon u v) as [k d]. simpl. rewrite get_set_same. split; reflexivity.
Qed.

(* orient_uncertain_edge (both argument orders w.r.t. time) on a pair that is still valid: atomic raise and one-mark, whatever
   the REST of the graph looks like.  For StationaryTimeSeriesCPDAG on a lagged pair with u later than v the arrowhead
   goes to u (the undirected edge is oriented forward in time): the statement is the one for the reversed call *)
Definition orient_step_dir (c : cls) (lagged : bool) (d : dir) : dir := if lagged then lag_dir c d else d.

Theorem orient_raise_atomic_local : forall c st u v st' (lagged : bool), conforming c = true ->
  valid_of c (get st (fst (canon u v))) = true ->
  step c st (if lagged then OrientLag u v else Orient u v) = (st', true) -> same_graph st st'.
Proof.
  intros c st u v st' lagged Hc Hv. destruct lagged; unfold step;
    (destruct (Nat.eqb u v); [intros [= <-]; intros k; reflexivity|]); destruct (canon u v) as [k d]; simpl in Hv.
  - rewrite orient_lag_reversed by exact Hc. intros [= <- Hr]. intros k'.
    rewrite (orient_atomic c (get st k) (lag_dir c d) Hc Hv Hr). apply same_set_get.
  - intros [= <- Hr]. intros k'. rewrite (orient_atomic c (get st k) d Hc Hv Hr). apply same_set_get.
Qed.

Theorem orient_one_mark_local : forall c st u v st' (lagged : bool), conforming c = true -> u <> v ->
  valid_of c (get st (fst (canon u v))) = true ->
  step c st (if lagged then OrientLag u v else Orient u v) = (st', false) ->
  let k := fst (canon u v) in let d := orient_step_dir c lagged (snd (canon u v)) in
  (forall k', k' <> k -> get st' k' = get st k') /\
  mark_v (proj c (view (get st k) d)) = Some (if pag_like c then Circle else Tail) /\
  mark_v (proj c (view (get st' k) d)) = Some Arrow /\
  mark_u (proj c (view (get st' k) d)) = mark_u (proj c (view (get st k) d)) /\
  (pag_like c = true -> und (get st' k) = und (get st k)).
Proof.
  intros c st u v st' lagged Hc Huv Hv H k d. subst k d.
  destruct lagged; unfold step in H; rewrite (proj2 (Nat.eqb_neq u v) Huv) in H;
    destruct (canon u v) as [k d]; simpl in *.
  - rewrite orient_lag_reversed in H by exact Hc. injection H as <- Hr.
    split; [intros k' N; apply get_set_other; exact N|]. rewrite get_set_same.
    exact (orient_marks c (get st k) (lag_dir c d) Hc Hv Hr).
  - injection H as <- Hr.
    split; [intros k' N; apply get_set_other; exact N|]. rewrite get_set_same.
    exact (orient_marks c (get st k) d Hc Hv Hr).
Qed.

(* ---------------------------------------------------------------- what does NOT survive "all" *)
(* after add_edge(0, 1) with the default edge type, orient_uncertain_edge(0, 1) removes the circle mark and then raises *)
Lemma orient_nonatomic_on_contradictory :
  let st := run CPag [AddEdge 0 1 EAll] [] in
  snd (step CPag st (Orient 0 1)) = true /\ get (fst (step CPag st (Orient 0 1))) (0, 1) <> get st (0, 1).
Proof. split; [vm_compute; reflexivity | vm_compute; discriminate]. Qed.

(* with "all" and removals every one of the 64 pair states of a PAG is reachable: no pair invariant at all survives *)
Definition reach_ops (s : pstate) : list op :=
  [AddEdge 0 1 EAll; RemoveEdge 0 1 EBid; RemoveEdge 0 1 EUnd] ++
  (if dir_uv s then [] else [RemoveEdge 0 1 EDir]) ++ (if cir_uv s then [] else [RemoveEdge 0 1 ECir]) ++
  [AddEdge 1 0 EAll] ++
  (if dir_vu s then [] else [RemoveEdge 1 0 EDir]) ++ (if cir_vu s then [] else [RemoveEdge 1 0 ECir]) ++
  (if bid s then [] else [RemoveEdge 0 1 EBid]) ++ (if und s then [] else [RemoveEdge 0 1 EUnd]).
Lemma all_reaches_every_pair_state : forall s, get (run CPag (reach_ops s) []) (0, 1) = s.
Proof.
  assert (H : forallb (fun s => pstate_eqb (get (run CPag (reach_ops s) []) (0, 1)) s) all_pstates = true)
    by (vm_compute; reflexivity).
  intros s. apply pstate_eqb_eq. exact (forall_pstate _ H s).
Qed.

(* ---------------------------------------------------------------- the boundary in one statement *)
Theorem c03_all_breaks_only_validity : forall c ops, conforming c = true ->
  let st := run c ops [] in     (* ANY history, "all" insertions included *)
  (* 1. a pair is contradictory only if an "all" insertion named it *)
  (forall k, (forall o, In o ops -> no_all_op o = true \/ ~ In k (keys_of o)) -> valid_of c (get st k) = true) /\
  (* 2. is_valid_mec_graph still tells exactly whether the graph has a contradictory pair *)
  (mec_ok c st = true <-> Inv c st) /\
  (* 3. raising insertions / constructor calls leave the graph identical *)
  (forall o st', match o with AddEdge _ _ _ | AddEdges _ _ | Construct _ _ _ _ => True | _ => False end ->
                 step c st o = (st', true) -> st' = st) /\
  (* 4. every operation changes only the pairs it names *)
  (forall o k, is_construct o = false -> ~ In k (keys_of o) -> get (fst (step c st o)) k = get st k) /\
  (* 5. on a pair that is still valid, orient_uncertain_edge raises atomically ... *)
  (forall u v st' (lagged : bool), valid_of c (get st (fst (canon u v))) = true ->
     step c st (if lagged then OrientLag u v else Orient u v) = (st', true) -> same_graph st st') /\
  (* 6. ... and otherwise changes exactly the one mark *)
  (forall u v st' (lagged : bool), u <> v -> valid_of c (get st (fst (canon u v))) = true ->
     step c st (if lagged then OrientLag u v else Orient u v) = (st', false) ->
     let k := fst (canon u v) in let d := orient_step_dir c lagged (snd (canon u v)) in
     (forall k', k' <> k -> get st' k' = get st k') /\
     mark_v (proj c (view (get st k) d)) = Some (if pag_like c then Circle else Tail) /\
     mark_v (proj c (view (get st' k) d)) = Some Arrow /\
     mark_u (proj c (view (get st' k) d)) = mark_u (proj c (view (get st k) d)) /\
     (pag_like c = true -> und (get st' k) = und (get st k))).
Proof.
  intros c ops Hc st. split; [|split; [|split; [|split; [|split]]]].
  - intros k H. apply c03_pair_valid_unless_all; assumption.
  - apply mec_exact.
  - intros o st'. apply raise_atomic_any.
  - intros o k. apply step_frame.
  - intros u v st' lagged. apply orient_raise_atomic_local. exact Hc.
  - intros u v st' lagged. apply orient_one_mark_local. exact Hc.
Qed.
