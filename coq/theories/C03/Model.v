(* C03: executable model of the PAG / CPDAG / AugmentedPAG / StationaryTimeSeries{PAG,CPDAG} edge-mutation state machine.

   Generated from /repo on every run (tie T): the guards [guard_pag], [guard_cpdag], the four [orient_*] functions, the
   wrapper shapes and the guard selection of is_valid_mec_graph  (Gen/Gen_Guards.v, Gen/Gen_Orient.v).
   Hand-written here (tie K): the glue -- a graph is a finite map from canonical node pairs (a < b) to the pair state,
   an operation touches only the pairs it names.  The glue is what the PROPERTY demands:
     * add_edge            = guard of the class's kind (PAG-like / CPDAG-like); raises and changes nothing, or inserts
     * add_edges_from      = every element is validated against the graph plus the elements before it; the batch is
                             applied completely or not at all
     * remove_edge(s)      = drops the named marks (never changes anything else)
     * orient_uncertain_edge = the generated function of the class on the one pair
     * constructor         = the four (two) edge lists taken as they are, rejected unless is_valid_mec_graph accepts
   Time-series classes: Orient is the call on contemporaneous nodes or with u earlier than v (lagswap = false),
   OrientLag the call with u later than v (lagswap = true).  No proofs in this file. *)
From Coq Require Import List Arith Bool.
From PG Require Import Base.ListSet Base.Sx C03.PState Gen.Gen_Guards Gen.Gen_Orient.
Import ListNotations.

Inductive cls := CPag | CCpdag | CAugPag | CTsPag | CTsCpdag.

Definition pag_like (c : cls) : bool := match c with CCpdag | CTsCpdag => false | _ => true end.

Definition guard_sel (g : guardsel) : pstate -> dir -> etype -> bool :=
  match g with GPag => guard_pag | GCpdag => guard_cpdag | GNone => fun _ _ _ => false end.

(* the generated wrapper shape of the class: which guard its add_edge calls before delegating *)
Definition wrap_of (c : cls) : wrapper :=
  match c with
  | CPag => wrap_pag | CCpdag => wrap_cpdag | CAugPag => wrap_augpag | CTsPag => wrap_tspag | CTsCpdag => wrap_tscpdag
  end.
(* the guard in front of every insertion.  The property demands the PAG guard for PAG-like and the CPDAG guard for
   CPDAG-like classes; C03/Proofs.v proves (by computation on the generated record) that the shape read from the source
   is exactly that for every class the theorems cover.  A class whose add_edge is not overridden (GNone) is modelled
   as it is -- unguarded -- and is excluded from the theorems (known finding for StationaryTimeSeriesPAG). *)
Definition guard_of (c : cls) : pstate -> dir -> etype -> bool := guard_sel (w_guard (wrap_of c)).
(* what the property demands *)
Definition demanded_guard (c : cls) : guardsel := if pag_like c then GPag else GCpdag.

(* the guard is_valid_mec_graph re-applies (generated selection) *)
Definition mec_guard_of (c : cls) : guardsel :=
  match c with
  | CPag | CAugPag => mec_guard_pag | CCpdag => mec_guard_cpdag
  | CTsPag => mec_guard_tspag | CTsCpdag => mec_guard_tscpdag
  end.

Definition orient_of (c : cls) : pstate -> dir -> outcome :=
  match c with
  | CPag | CAugPag => orient_pag false | CCpdag => orient_cpdag false
  | CTsPag => orient_tspag false | CTsCpdag => orient_tscpdag false
  end.

(* the same call on a LAGGED pair of a time-series graph with u later than v (the generated `sorted by lag` exchanges the
   two nodes: lagswap = true); the other classes have no lags and ignore the parameter *)
Definition orient_lag_of (c : cls) : pstate -> dir -> outcome :=
  match c with
  | CPag | CAugPag => orient_pag true | CCpdag => orient_cpdag true
  | CTsPag => orient_tspag true | CTsCpdag => orient_tscpdag true
  end.

(* edge types a class has layers for *)
Definition supported (c : cls) (et : etype) : bool :=
  pag_like c || match et with EDir | EUnd | EAll => true | _ => false end.

Definition layers_of (c : cls) (et : etype) : list layer :=
  match et with
  | EDir => [LDir] | EBid => [LBid] | EUnd => [LUnd] | ECir => [LCir]
  | EAll => if pag_like c then [LDir; LBid; LUnd; LCir] else [LDir; LUnd]
  end.

(* delegation to the layers: layer.add_edge(u, v) / layer.remove_edge(u, v) for every layer the edge type names *)
Definition write (x : bool) (c : cls) (s : pstate) (d : dir) (et : etype) : pstate :=
  view (fold_left (fun s l => put s false l x) (layers_of c et) (view s d)) d.
Definition insert := write true.
Definition remove := write false.

(* ---- the invariant of the property, as booleans (Spec.v restates it as Props) ---- *)
Definition valid_pag (s : pstate) : bool :=
  negb (bid s && (dir_uv s || dir_vu s || cir_uv s || cir_vu s)) &&
  negb (dir_uv s && dir_vu s) && negb (dir_uv s && cir_uv s) && negb (dir_vu s && cir_vu s).
Definition valid_cpdag (s : pstate) : bool :=
  negb ((dir_uv s || dir_vu s) && und s) && negb (dir_uv s && dir_vu s).
Definition valid_of (c : cls) : pstate -> bool := if pag_like c then valid_pag else valid_cpdag.

(* ---- is_valid_mec_graph on one pair: the guard re-applied to every stored edge ---- *)
Definition stored (s : pstate) : list (dir * etype) :=
  (if dir_uv s then [(Fw, EDir)] else []) ++ (if dir_vu s then [(Bw, EDir)] else []) ++
  (if cir_uv s then [(Fw, ECir)] else []) ++ (if cir_vu s then [(Bw, ECir)] else []) ++
  (if bid s then [(Fw, EBid)] else []) ++ (if und s then [(Fw, EUnd)] else []).
Definition mec_pair (c : cls) (s : pstate) : bool :=
  forallb (fun de => negb (guard_sel (mec_guard_of c) s (fst de) (snd de))) (stored s).

(* ---- graphs ---- *)
Definition key := (nat * nat)%type.
Definition pairmap := list (key * pstate).

Definition get (st : pairmap) (k : key) : pstate :=
  match find (fun kv => pair_eqb (fst kv) k) st with Some kv => snd kv | None => empty_ps end.
Definition set (st : pairmap) (k : key) (v : pstate) : pairmap :=
  (k, v) :: filter (fun kv => negb (pair_eqb (fst kv) k)) st.
Definition canon (u v : nat) : key * dir := if Nat.ltb u v then ((u, v), Fw) else ((v, u), Bw).

Definition mec_ok (c : cls) (st : pairmap) : bool := forallb (fun kv => mec_pair c (get st (fst kv))) st.

Inductive op :=
| AddEdge (u v : nat) (et : etype)
| AddEdges (es : list (nat * nat)) (et : etype)
| RemoveEdge (u v : nat) (et : etype)
| RemoveEdges (es : list (nat * nat)) (et : etype)
| Orient (u v : nat)
| Construct (dl ul bl cl : list (nat * nat))
| OrientLag (u v : nat).      (* orient_uncertain_edge(u, v) where u is LATER in time than v *)

(* one guarded insertion; None = raises *)
Definition add1 (c : cls) (et : etype) (st : pairmap) (e : nat * nat) : option pairmap :=
  let (u, v) := e in
  if Nat.eqb u v || negb (supported c et) then None else
  let (k, d) := canon u v in
  let s := get st k in
  if guard_of c s d et then None else Some (set st k (insert c s d et)).

Fixpoint add_all (c : cls) (et : etype) (st : pairmap) (es : list (nat * nat)) : option pairmap :=
  match es with
  | [] => Some st
  | e :: t => match add1 c et st e with None => None | Some st' => add_all c et st' t end
  end.

Definition rem1 (c : cls) (et : etype) (st : pairmap) (e : nat * nat) : pairmap :=
  let (u, v) := e in
  if Nat.eqb u v || negb (supported c et) then st else
  let (k, d) := canon u v in set st k (remove c (get st k) d et).

(* unguarded insertion of one listed edge (constructor) *)
Definition raw1 (c : cls) (et : etype) (st : pairmap) (e : nat * nat) : pairmap :=
  let (u, v) := e in
  if Nat.eqb u v then st else
  let (k, d) := canon u v in set st k (insert c (get st k) d et).

Definition build (c : cls) (dl ul bl cl : list (nat * nat)) : pairmap :=
  let st := fold_left (raw1 c EDir) dl [] in
  let st := fold_left (raw1 c EUnd) ul st in
  if pag_like c then fold_left (raw1 c ECir) cl (fold_left (raw1 c EBid) bl st) else st.

(* A bulk add of shape BulkEvolving validates on self.copy(); copy() re-inserts every stored edge through the guarded
   add_edge, so it raises exactly when is_valid_mec_graph rejects the graph.  On every reachable graph of the theorems
   this is false (c03_reachable); it only matters for the as-is behaviour after a recorded known finding. *)
Definition scratch_copy_fails (c : cls) (st : pairmap) : bool :=
  match w_bulk (wrap_of c) with BulkEvolving => negb (mec_ok c st) | _ => false end.

(* step: new state and "an exception escaped" *)
Definition step (c : cls) (st : pairmap) (o : op) : pairmap * bool :=
  match o with
  | AddEdge u v et => match add1 c et st (u, v) with Some st' => (st', false) | None => (st, true) end
  | AddEdges es et =>
      if scratch_copy_fails c st then (st, true) else
      match add_all c et st es with Some st' => (st', false) | None => (st, true) end
  | RemoveEdge u v et => (rem1 c et st (u, v), false)
  | RemoveEdges es et => (fold_left (rem1 c et) es st, false)
  | Orient u v =>
      if Nat.eqb u v then (st, true) else
      let (k, d) := canon u v in
      let r := orient_of c (get st k) d in (set st k (fst r), snd r)
  | Construct dl ul bl cl =>
      let st' := build c dl ul bl cl in if mec_ok c st' then (st', false) else (st, true)
  | OrientLag u v =>
      if Nat.eqb u v then (st, true) else
      let (k, d) := canon u v in
      let r := orient_lag_of c (get st k) d in (set st k (fst r), snd r)
  end.

Definition run (c : cls) (ops : list op) (st : pairmap) : pairmap := fold_left (fun st o => fst (step c st o)) ops st.

(* ---- observables: per-layer edge sets ---- *)
Definition edges_d (st : pairmap) : list (nat * nat) :=
  flat_map (fun kv => let s := get st (fst kv) in let (a, b) := fst kv in
    (if dir_uv s then [(a, b)] else []) ++ (if dir_vu s then [(b, a)] else [])) st.
Definition edges_c (st : pairmap) : list (nat * nat) :=
  flat_map (fun kv => let s := get st (fst kv) in let (a, b) := fst kv in
    (if cir_uv s then [(a, b)] else []) ++ (if cir_vu s then [(b, a)] else [])) st.
Definition edges_b (st : pairmap) : list (nat * nat) :=
  flat_map (fun kv => if bid (get st (fst kv)) then [fst kv] else []) st.
Definition edges_u (st : pairmap) : list (nat * nat) :=
  flat_map (fun kv => if und (get st (fst kv)) then [fst kv] else []) st.

(* ---- wire format ---- *)
Definition cls_of_nat (n : nat) : cls :=
  match n with 0 => CPag | 1 => CCpdag | 2 => CAugPag | 3 => CTsPag | _ => CTsCpdag end.
Definition et_of_nat (n : nat) : etype :=
  match n with 0 => EDir | 1 => EBid | 2 => EUnd | 3 => ECir | _ => EAll end.
Definition op_of_sx (s : sx) : op :=
  match sx_nat (sx_nth s 0) with
  | 0 => AddEdge (sx_nat (sx_nth s 1)) (sx_nat (sx_nth s 2)) (et_of_nat (sx_nat (sx_nth s 3)))
  | 1 => AddEdges (sx_pairs (sx_nth s 1)) (et_of_nat (sx_nat (sx_nth s 2)))
  | 2 => RemoveEdge (sx_nat (sx_nth s 1)) (sx_nat (sx_nth s 2)) (et_of_nat (sx_nat (sx_nth s 3)))
  | 3 => RemoveEdges (sx_pairs (sx_nth s 1)) (et_of_nat (sx_nat (sx_nth s 2)))
  | 4 => Orient (sx_nat (sx_nth s 1)) (sx_nat (sx_nth s 2))
  | 5 => Construct (sx_pairs (sx_nth s 1)) (sx_pairs (sx_nth s 2)) (sx_pairs (sx_nth s 3)) (sx_pairs (sx_nth s 4))
  | _ => OrientLag (sx_nat (sx_nth s 1)) (sx_nat (sx_nth s 2))
  end.

Definition observe (c : cls) (st : pairmap) (raised : bool) : sx :=
  L [of_bool raised; of_bool (mec_ok c st); of_pairs (psort_set (edges_d st)); of_pairs (psort_set (edges_b st));
     of_pairs (psort_set (edges_u st)); of_pairs (psort_set (edges_c st))].

Fixpoint trace (c : cls) (st : pairmap) (ops : list op) : list sx :=
  match ops with
  | [] => []
  | o :: t => let r := step c st o in observe c (fst r) (snd r) :: trace c (fst r) t
  end.

(* two live objects of one class built by the same constructor call (from the SAME argument objects): an operation on one
   must leave the other exactly as it was; every step reports both *)
Fixpoint trace2 (c : cls) (sp sq : pairmap) (ops : list (bool * op)) : list sx :=
  match ops with
  | [] => []
  | (q, o) :: t =>
      if q then let r := step c sq o in L [observe c sp false; observe c (fst r) (snd r)] :: trace2 c sp (fst r) t
      else let r := step c sp o in L [observe c (fst r) (snd r); observe c sq false] :: trace2 c (fst r) sq t
  end.

(* table dump of everything generated, for the cell-by-cell comparison with the real functions *)
Definition code (s : pstate) : nat :=
  (if dir_uv s then 1 else 0) + (if dir_vu s then 2 else 0) + (if cir_uv s then 4 else 0) +
  (if cir_vu s then 8 else 0) + (if bid s then 16 else 0) + (if und s then 32 else 0).
Definition guard_table (g : pstate -> dir -> etype -> bool) : sx :=
  L (map (fun s => L [I (code s); L (flat_map (fun d => map (fun et => of_bool (g s d et)) all_etypes) all_dirs)]) all_pstates).
Definition orient_table (f : bool -> pstate -> dir -> outcome) : sx :=
  L (map (fun s => L [I (code s); L (flat_map (fun sw => map (fun d => let r := f sw s d in
       L [I (code (fst r)); of_bool (snd r)]) all_dirs) bools)]) all_pstates).
Definition gsel_nat (g : guardsel) : nat := match g with GPag => 0 | GCpdag => 1 | GNone => 2 end.
Definition bulk_nat (b : bulkshape) : nat := match b with BulkEvolving => 0 | BulkStartState => 1 | BulkUnguarded => 2 end.
Definition wrap_sx (w : wrapper) : sx := L [I (gsel_nat (w_guard w)); I (bulk_nat (w_bulk w))].

Definition tables : sx :=
  L [guard_table guard_pag; guard_table guard_cpdag;
     orient_table orient_pag; orient_table orient_cpdag; orient_table orient_tspag; orient_table orient_tscpdag;
     L [wrap_sx wrap_pag; wrap_sx wrap_cpdag; wrap_sx wrap_augpag; wrap_sx wrap_tspag; wrap_sx wrap_tscpdag];
     L [I (gsel_nat mec_guard_pag); I (gsel_nat mec_guard_cpdag); I (gsel_nat mec_guard_tspag); I (gsel_nat mec_guard_tscpdag)];
     L (map (fun c => L (map (fun s => L [I (code s); of_bool (mec_pair c s)]) all_pstates))
            [CPag; CCpdag; CAugPag; CTsPag; CTsCpdag])].

(* run_case:  L [I 0; I cls; L ops] -> per-step observations ;  L [I 1] -> the generated tables ;
              L [I 2; I cls; ctor; L [L [I target; op] ...]] -> two objects from one constructor call, both observed per step *)
Definition run_case (s : sx) : sx :=
  match sx_nat (sx_nth s 0) with
  | 0 => L (trace (cls_of_nat (sx_nat (sx_nth s 1))) [] (map op_of_sx (sx_list (sx_nth s 2))))
  | 1 => tables
  | _ => let c := cls_of_nat (sx_nat (sx_nth s 1)) in
         let r := step c [] (op_of_sx (sx_nth s 2)) in
         L (L [observe c (fst r) (snd r); observe c (fst r) (snd r)] ::
            trace2 c (fst r) (fst r) (map (fun x => (sx_bool (sx_nth x 0), op_of_sx (sx_nth x 1))) (sx_list (sx_nth s 3))))
  end.
