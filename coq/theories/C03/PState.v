(* C03: the pair-local vocabulary shared by the GENERATED guard / orient tables (Gen/Gen_Guards.v,
   Gen/Gen_Orient.v, written by /verif/translator/guards.py from /repo) and the hand-written model.

   A [pstate] records which marks the four layers hold between an ordered pair (u, v):
     dir_uv : (u,v) in the directed layer   u -> v        dir_vu : (v,u) in the directed layer
     cir_uv : (u,v) in the circle layer     u *-o v       cir_vu : (v,u) in the circle layer
     bid    : {u,v} in the bidirected layer               und    : {u,v} in the undirected layer
   2^6 = 64 states: "the 64 mark-combinations a node pair can be in" of the property text. *)
From Coq Require Import List Bool.
Import ListNotations.

Record pstate := PS { dir_uv : bool; dir_vu : bool; cir_uv : bool; cir_vu : bool; bid : bool; und : bool }.

Definition empty_ps : pstate := PS false false false false false false.

(* direction of a call relative to the canonical (smaller, larger) orientation of the pair *)
Inductive dir := Fw | Bw.
(* the five edge_type strings of pywhy_graphs.config.EdgeType *)
Inductive etype := EDir | EBid | EUnd | ECir | EAll.
(* the four layers *)
Inductive layer := LDir | LBid | LUnd | LCir.

Definition flip (s : pstate) : pstate :=
  PS (dir_vu s) (dir_uv s) (cir_vu s) (cir_uv s) (bid s) (und s).
Definition view (s : pstate) (d : dir) : pstate := match d with Fw => s | Bw => flip s end.

Definition etype_eqb (a b : etype) : bool :=
  match a, b with
  | EDir, EDir | EBid, EBid | EUnd, EUnd | ECir, ECir | EAll, EAll => true
  | _, _ => false
  end.

(* has_edge(a, b, layer) seen from the local pair (u, v); [sw = false]: (a,b) = (u,v), [sw = true]: (a,b) = (v,u) *)
Definition has (s : pstate) (sw : bool) (l : layer) : bool :=
  match l, sw with
  | LDir, false => dir_uv s | LDir, true => dir_vu s
  | LCir, false => cir_uv s | LCir, true => cir_vu s
  | LBid, _ => bid s
  | LUnd, _ => und s
  end.

(* layer.add_edge(a, b) / layer.remove_edge(a, b), local pair *)
Definition put (s : pstate) (sw : bool) (l : layer) (x : bool) : pstate :=
  match l, sw with
  | LDir, false => PS x (dir_vu s) (cir_uv s) (cir_vu s) (bid s) (und s)
  | LDir, true => PS (dir_uv s) x (cir_uv s) (cir_vu s) (bid s) (und s)
  | LCir, false => PS (dir_uv s) (dir_vu s) x (cir_vu s) (bid s) (und s)
  | LCir, true => PS (dir_uv s) (dir_vu s) (cir_uv s) x (bid s) (und s)
  | LBid, _ => PS (dir_uv s) (dir_vu s) (cir_uv s) (cir_vu s) x (und s)
  | LUnd, _ => PS (dir_uv s) (dir_vu s) (cir_uv s) (cir_vu s) (bid s) x
  end.

(* has_edge(a, b) with edge_type "any": any layer of the class; PAG-like graphs have four layers, CPDAG-like two *)
Definition has_any4 (s : pstate) (sw : bool) : bool :=
  has s sw LDir || has s sw LBid || has s sw LUnd || has s sw LCir.
Definition has_any2 (s : pstate) (sw : bool) : bool := has s sw LDir || has s sw LUnd.

(* the explicit list of all 64 pair states, and the small enumerations *)
Definition bools : list bool := [false; true].
Definition all_pstates : list pstate :=
  flat_map (fun a => flat_map (fun b => flat_map (fun c => flat_map (fun d => flat_map (fun e =>
    map (fun f => PS a b c d e f) bools) bools) bools) bools) bools) bools.
Definition all_dirs : list dir := [Fw; Bw].
Definition all_etypes : list etype := [EDir; EBid; EUnd; ECir; EAll].
Definition all_layers : list layer := [LDir; LBid; LUnd; LCir].

Lemma In_all_pstates : forall s, In s all_pstates.
Proof. intros [[] [] [] [] [] []]; vm_compute; tauto. Qed.
Lemma In_all_dirs : forall d, In d all_dirs.
Proof. intros []; simpl; tauto. Qed.
Lemma In_all_etypes : forall e, In e all_etypes.
Proof. intros []; simpl; tauto. Qed.
Lemma In_bools : forall b, In b bools.
Proof. intros []; simpl; tauto. Qed.

(* complete case analysis: a boolean predicate true on the explicit lists is true everywhere *)
Lemma forall_pstate (P : pstate -> bool) : forallb P all_pstates = true -> forall s, P s = true.
Proof. intros H s. rewrite forallb_forall in H. apply H, In_all_pstates. Qed.
Lemma forall_dir (P : dir -> bool) : forallb P all_dirs = true -> forall d, P d = true.
Proof. intros H d. rewrite forallb_forall in H. apply H, In_all_dirs. Qed.
Lemma forall_etype (P : etype -> bool) : forallb P all_etypes = true -> forall e, P e = true.
Proof. intros H e. rewrite forallb_forall in H. apply H, In_all_etypes. Qed.
Lemma forall_bool (P : bool -> bool) : forallb P bools = true -> forall b, P b = true.
Proof. intros H b. rewrite forallb_forall in H. apply H, In_bools. Qed.

Definition pstate_eqb (a b : pstate) : bool :=
  Bool.eqb (dir_uv a) (dir_uv b) && Bool.eqb (dir_vu a) (dir_vu b) && Bool.eqb (cir_uv a) (cir_uv b) &&
  Bool.eqb (cir_vu a) (cir_vu b) && Bool.eqb (bid a) (bid b) && Bool.eqb (und a) (und b).
Lemma pstate_eqb_eq a b : pstate_eqb a b = true <-> a = b.
Proof.
  destruct a as [[] [] [] [] [] []], b as [[] [] [] [] [] []]; vm_compute; split; intros H;
    try reflexivity; try discriminate.
Qed.

Lemma flip_flip s : flip (flip s) = s.
Proof. destruct s; reflexivity. Qed.
Lemma view_view s d : view (view s d) d = s.
Proof. destruct d; simpl; [reflexivity | apply flip_flip]. Qed.

(* result of a translated method body: the pair state afterwards and whether an exception escaped *)
Definition outcome := (pstate * bool)%type.

(* the pair state seen by a call whose arguments are (a, b): exchanged iff sw *)
Definition vw (s : pstate) (sw : bool) : pstate := if sw then flip s else s.

(* checked shape of the add_edge / add_edges_from overrides of a class (read by the translator):
   which guard add_edge calls on (self, u, v, edge_type) BEFORE delegating to the layers, and how a bulk add validates:
   BulkEvolving   : every element goes through guard-then-insert on a scratch copy (= against the graph plus the
                    elements before it); the graph itself is touched only after the whole batch passed
   BulkStartState : every element is checked against the graph as it was before the call, then all are inserted
   BulkUnguarded  : no check *)
Inductive guardsel := GPag | GCpdag | GNone.
Inductive bulkshape := BulkEvolving | BulkStartState | BulkUnguarded.
Record wrapper := { w_guard : guardsel; w_bulk : bulkshape }.
