(* C03: proofs.
   Part 1 -- FINITE lemmas about the tables GENERATED from /repo (Gen_Guards.v, Gen_Orient.v): complete case analysis over
             the explicit list of all 64 pair states x 2 directions x 5 edge types x 5 classes, by vm_compute, lifted with
             forallb_forall and [In s all_pstates].  A semantic change of a guard, of an orient function, of a wrapper or
             of the guard selection of is_valid_mec_graph in /repo changes the generated text and breaks these lemmas.
   Part 2 -- pair maps (frame lemmas).
   Part 3 -- the lifted theorems, by induction over operation lists. *)
From Coq Require Import List Arith Bool Lia.
From PG Require Import Base.ListSet C03.PState Gen.Gen_Guards Gen.Gen_Orient C03.Model C03.Spec.
Import ListNotations.

(* ================================================================ Part 1 *)
Definition all_cls : list cls := [CPag; CCpdag; CAugPag; CTsPag; CTsCpdag].
Lemma In_all_cls : forall c, In c all_cls.
Proof. intros []; simpl; tauto. Qed.
Lemma forall_cls (P : cls -> bool) : forallb P all_cls = true -> forall c, P c = true.
Proof. intros H c. rewrite forallb_forall in H. apply H, In_all_cls. Qed.

Definition chk2 (P : cls -> pstate -> bool) : bool :=
  forallb (fun c => forallb (P c) all_pstates) all_cls.
Definition chk3 (P : cls -> pstate -> dir -> bool) : bool :=
  forallb (fun c => forallb (fun s => forallb (P c s) all_dirs) all_pstates) all_cls.
Definition chk4 (P : cls -> pstate -> dir -> etype -> bool) : bool :=
  forallb (fun c => forallb (fun s => forallb (fun d => forallb (P c s d) all_etypes) all_dirs) all_pstates) all_cls.

Lemma chk2_spec P : chk2 P = true -> forall c s, P c s = true.
Proof. intros H c s. exact (forall_pstate _ (forall_cls _ H c) s). Qed.
Lemma chk3_spec P : chk3 P = true -> forall c s d, P c s d = true.
Proof. intros H c s d. exact (forall_dir _ (forall_pstate _ (forall_cls _ H c) s) d). Qed.
Lemma chk4_spec P : chk4 P = true -> forall c s d et, P c s d et = true.
Proof. intros H c s d et. exact (forall_etype _ (forall_dir _ (forall_pstate _ (forall_cls _ H c) s) d) et). Qed.

Lemma implb_elim a b : implb a b = true -> a = true -> b = true.
Proof. destruct a, b; simpl; congruence. Qed.

Lemma et_not_all et : et <> EAll -> etype_eqb et EAll = false.
Proof. destruct et; try reflexivity; congruence. Qed.

(* --- the wrapper shapes read from the class sources are the demanded ones (checked record) --- *)
Lemma wrappers_conform : forall c, conforming c = true ->
  w_guard (wrap_of c) = demanded_guard c /\ w_bulk (wrap_of c) = BulkEvolving.
Proof. intros [] H; try discriminate H; vm_compute; split; reflexivity. Qed.

Lemma guard_of_demanded : forall c, conforming c = true -> guard_of c = guard_sel (demanded_guard c).
Proof. intros c H. unfold guard_of. rewrite (proj1 (wrappers_conform c H)). reflexivity. Qed.

(* --- guard_inductive: an insertion the guard lets through keeps the pair valid --- *)
Lemma guard_inductive : forall c s d et, conforming c = true -> supported c et = true -> et <> EAll ->
  valid_of c s = true -> guard_of c s d et = false -> valid_of c (insert c s d et) = true.
Proof.
  assert (H : chk4 (fun c s d et =>
    implb (conforming c && supported c et && negb (etype_eqb et EAll) && valid_of c s && negb (guard_of c s d et))
          (valid_of c (insert c s d et))) = true) by (vm_compute; reflexivity).
  intros c s d et H1 H2 H3 H4 H5. apply (implb_elim _ _ (chk4_spec _ H c s d et)).
  rewrite H1, H2, H4, H5, (et_not_all _ H3). reflexivity.
Qed.

(* --- the guards are disjunctions of has_edge tests: a batch element is rejected on graph + earlier elements iff it is
       rejected on one of them (this is why validating on a scratch copy = validating against the evolving state) --- *)
Definition por (a b : pstate) : pstate :=
  PS (dir_uv a || dir_uv b) (dir_vu a || dir_vu b) (cir_uv a || cir_uv b) (cir_vu a || cir_vu b) (bid a || bid b) (und a || und b).
Lemma guard_union : forall g s1 s2 d et, et <> EAll ->
  guard_sel g (por s1 s2) d et = guard_sel g s1 d et || guard_sel g s2 d et.
Proof.
  assert (H : forallb (fun g => forallb (fun s1 => forallb (fun s2 => forallb (fun d => forallb (fun et =>
     etype_eqb et EAll || Bool.eqb (guard_sel g (por s1 s2) d et) (guard_sel g s1 d et || guard_sel g s2 d et))
     all_etypes) all_dirs) all_pstates) all_pstates) [GPag; GCpdag; GNone] = true) by (vm_compute; reflexivity).
  intros g s1 s2 d et Het. rewrite forallb_forall in H.
  assert (Hg : In g [GPag; GCpdag; GNone]) by (destruct g; simpl; tauto).
  pose proof (forall_etype _ (forall_dir _ (forall_pstate _ (forall_pstate _ (H g Hg) s1) s2) d) et) as G.
  cbv beta in G. rewrite (et_not_all _ Het) in G. simpl in G. apply eqb_prop in G. exact G.
Qed.

(* --- removal never breaks validity --- *)
Lemma remove_valid : forall c s d et, valid_of c s = true -> valid_of c (remove c s d et) = true.
Proof.
  assert (H : chk4 (fun c s d et => implb (valid_of c s) (valid_of c (remove c s d et))) = true) by (vm_compute; reflexivity).
  intros c s d et H1. exact (implb_elim _ _ (chk4_spec _ H c s d et) H1).
Qed.

(* --- orient_uncertain_edge on one pair --- *)
Lemma orient_valid : forall c s d, conforming c = true -> valid_of c s = true ->
  valid_of c (fst (orient_of c s d)) = true.
Proof.
  assert (H : chk3 (fun c s d => implb (conforming c && valid_of c s) (valid_of c (fst (orient_of c s d)))) = true)
    by (vm_compute; reflexivity).
  intros c s d H1 H2. apply (implb_elim _ _ (chk3_spec _ H c s d)). rewrite H1, H2. reflexivity.
Qed.

Lemma orient_atomic : forall c s d, conforming c = true -> valid_of c s = true ->
  snd (orient_of c s d) = true -> fst (orient_of c s d) = s.
Proof.
  assert (H : chk3 (fun c s d => implb (conforming c && valid_of c s && snd (orient_of c s d))
                                       (pstate_eqb (fst (orient_of c s d)) s)) = true) by (vm_compute; reflexivity).
  intros c s d H1 H2 H3. apply pstate_eqb_eq. apply (implb_elim _ _ (chk3_spec _ H c s d)). rewrite H1, H2, H3. reflexivity.
Qed.

(* the three cases spelt out, seen from (u, v):  u <-o v => u <-> v ;  u o-o v => u o-> v ;  u -o v => u -> v ;
   CPDAG-like:  u - v => u -> v *)
Definition oriented (c : cls) (sv : pstate) : pstate :=
  if pag_like c then
    if dir_vu sv then put (put (put sv true LDir false) false LCir false) false LBid true
    else put (put sv false LCir false) false LDir true
  else put (put sv false LUnd false) false LDir true.

Lemma orient_only_one_mark : forall c s d, conforming c = true -> valid_of c s = true ->
  snd (orient_of c s d) = false ->
  has (view s d) false (if pag_like c then LCir else LUnd) = true /\
  view (fst (orient_of c s d)) d = oriented c (view s d).
Proof.
  assert (H : chk3 (fun c s d => implb (conforming c && valid_of c s && negb (snd (orient_of c s d)))
     (has (view s d) false (if pag_like c then LCir else LUnd) &&
      pstate_eqb (view (fst (orient_of c s d)) d) (oriented c (view s d)))) = true) by (vm_compute; reflexivity).
  intros c s d H1 H2 H3. pose proof (implb_elim _ _ (chk3_spec _ H c s d)) as G. cbv beta in G.
  rewrite H1, H2, H3 in G. specialize (G eq_refl). apply andb_true_iff in G as [G1 G2].
  split; [exact G1 | apply pstate_eqb_eq; exact G2].
Qed.

Definition mark_code (o : option mark) : nat :=
  match o with None => 0 | Some Arrow => 1 | Some Circle => 2 | Some Tail => 3 end.
Lemma mark_code_inj a b : Nat.eqb (mark_code a) (mark_code b) = true -> a = b.
Proof. destruct a as [[]|], b as [[]|]; simpl; intros H; try reflexivity; discriminate. Qed.

Lemma orient_marks : forall c s d, conforming c = true -> valid_of c s = true ->
  snd (orient_of c s d) = false ->
  let s' := fst (orient_of c s d) in
  mark_v (proj c (view s d)) = Some (if pag_like c then Circle else Tail) /\
  mark_v (proj c (view s' d)) = Some Arrow /\
  mark_u (proj c (view s' d)) = mark_u (proj c (view s d)) /\
  (pag_like c = true -> und s' = und s).
Proof.
  assert (H : chk3 (fun c s d => implb (conforming c && valid_of c s && negb (snd (orient_of c s d)))
     (let s' := fst (orient_of c s d) in
      Nat.eqb (mark_code (mark_v (proj c (view s d)))) (mark_code (Some (if pag_like c then Circle else Tail))) &&
      Nat.eqb (mark_code (mark_v (proj c (view s' d)))) (mark_code (Some Arrow)) &&
      Nat.eqb (mark_code (mark_u (proj c (view s' d)))) (mark_code (mark_u (proj c (view s d)))) &&
      implb (pag_like c) (Bool.eqb (und s') (und s)))) = true) by (vm_compute; reflexivity).
  intros c s d H1 H2 H3 s'. pose proof (implb_elim _ _ (chk3_spec _ H c s d)) as G. cbv beta zeta in G.
  rewrite H1, H2, H3 in G. specialize (G eq_refl).
  apply andb_true_iff in G as [G G4]. apply andb_true_iff in G as [G G3]. apply andb_true_iff in G as [G1 G2].
  repeat split.
  - apply mark_code_inj; exact G1.
  - apply mark_code_inj; exact G2.
  - apply mark_code_inj; exact G3.
  - intros Hp. subst s'. rewrite Hp in G4. simpl in G4. apply eqb_prop in G4. exact G4.
Qed.

(* --- the lagswap = true instance (time-series classes, lagged pair, u later than v) --- *)
Definition opp (d : dir) : dir := match d with Fw => Bw | Bw => Fw end.
Definition outcome_eqb (a b : outcome) : bool := pstate_eqb (fst a) (fst b) && Bool.eqb (snd a) (snd b).
Lemma outcome_eqb_eq a b : outcome_eqb a b = true -> a = b.
Proof.
  destruct a as [s1 r1], b as [s2 r2]. unfold outcome_eqb. simpl. intros H. apply andb_true_iff in H as [H1 H2].
  apply pstate_eqb_eq in H1. apply eqb_prop in H2. congruence.
Qed.
(* where the arrowhead of a lagged orientation goes: StationaryTimeSeriesCPDAG orients an undirected edge of a lagged
   pair FORWARD IN TIME whatever the argument order, i.e. orient(u, v) with u later than v acts as orient(v, u) *)
Definition lag_dir (c : cls) (d : dir) : dir := match c with CTsCpdag => opp d | _ => d end.
Lemma orient_lag_reversed : forall c s d, conforming c = true -> orient_lag_of c s d = orient_of c s (lag_dir c d).
Proof.
  assert (H : chk3 (fun c s d => implb (conforming c) (outcome_eqb (orient_lag_of c s d) (orient_of c s (lag_dir c d)))) = true)
    by (vm_compute; reflexivity).
  intros c s d H1. apply outcome_eqb_eq. exact (implb_elim _ _ (chk3_spec _ H c s d) H1).
Qed.
(* StationaryTimeSeriesPAG (as it is): with u later than v the call needs a circle mark from the later to the earlier node;
   without one it raises and changes nothing *)
Lemma tspag_lag_raises : forall s d, cir_uv (view s d) = false -> orient_lag_of CTsPag s d = (s, true).
Proof.
  assert (H : forallb (fun s => forallb (fun d => implb (negb (cir_uv (view s d)))
     (outcome_eqb (orient_lag_of CTsPag s d) (s, true))) all_dirs) all_pstates = true) by (vm_compute; reflexivity).
  intros s d H1. apply outcome_eqb_eq. apply (implb_elim _ _ (forall_dir _ (forall_pstate _ H s) d)). rewrite H1. reflexivity.
Qed.

(* --- the known finding StationaryTimeSeriesPAG, pinned: the class the harness suppresses is exactly "no insertion guard,
       and orient_uncertain_edge = remove the circle mark (u, v), add the directed edge (u, v), unguarded".  Any other
       change of that class's wrappers or orient (also a repair) makes this lemma fail, so it cannot hide behind the
       known-finding key; update the record and this lemma together. --- *)
Definition orient_tspag_asis (s : pstate) (d : dir) : outcome :=
  if cir_uv (view s d) then (view (put (put (view s d) false LCir false) false LDir true) d, false) else (s, true).
Lemma tspag_asis_pinned :
  wrap_tspag = {| w_guard := GNone; w_bulk := BulkUnguarded |} /\
  forall s d, orient_tspag false s d = orient_tspag_asis s d.
Proof.
  split; [reflexivity|].
  assert (H : forallb (fun s => forallb (fun d => outcome_eqb (orient_tspag false s d) (orient_tspag_asis s d)) all_dirs)
                all_pstates = true) by (vm_compute; reflexivity).
  intros s d. apply outcome_eqb_eq. exact (forall_dir _ (forall_pstate _ H s) d).
Qed.

(* --- is_valid_mec_graph on a pair accepts exactly the valid states (all five classes) --- *)
Lemma mec_accepts_valid : forall c s, valid_of c s = true -> mec_pair c s = true.
Proof.
  assert (H : chk2 (fun c s => implb (valid_of c s) (mec_pair c s)) = true) by (vm_compute; reflexivity).
  intros c s H1. exact (implb_elim _ _ (chk2_spec _ H c s) H1).
Qed.
Lemma mec_rejects_invalid : forall c s, mec_pair c s = true -> valid_of c s = true.
Proof.
  assert (H : chk2 (fun c s => implb (mec_pair c s) (valid_of c s)) = true) by (vm_compute; reflexivity).
  intros c s H1. exact (implb_elim _ _ (chk2_spec _ H c s) H1).
Qed.
(* the re-applied guard does not depend on the orientation in which an undirected layer lists its edge *)
Lemma mec_guard_symmetric : forall c s,
  guard_sel (mec_guard_of c) s Fw EBid = guard_sel (mec_guard_of c) s Bw EBid /\
  guard_sel (mec_guard_of c) s Fw EUnd = guard_sel (mec_guard_of c) s Bw EUnd.
Proof.
  assert (H : chk2 (fun c s =>
     Bool.eqb (guard_sel (mec_guard_of c) s Fw EBid) (guard_sel (mec_guard_of c) s Bw EBid) &&
     Bool.eqb (guard_sel (mec_guard_of c) s Fw EUnd) (guard_sel (mec_guard_of c) s Bw EUnd)) = true)
    by (vm_compute; reflexivity).
  intros c s. pose proof (chk2_spec _ H c s) as G. cbv beta in G. apply andb_true_iff in G as [G1 G2].
  split; apply eqb_prop; assumption.
Qed.

Lemma empty_valid : forall c, valid_of c empty_ps = true.
Proof. intros []; reflexivity. Qed.

(* ================================================================ Part 2: pair maps *)
Lemma pair_eqb_refl k : pair_eqb k k = true.
Proof. apply pair_eqb_eq. reflexivity. Qed.
Lemma pair_eqb_neq k k' : k <> k' -> pair_eqb k k' = false.
Proof. intros H. destruct (pair_eqb k k') eqn:E; [apply pair_eqb_eq in E; contradiction | reflexivity]. Qed.

Lemma find_filter {A} (p q : A -> bool) l :
  (forall x, p x = true -> q x = true) -> find p (filter q l) = find p l.
Proof.
  intros H. induction l as [|a l IH]; simpl; [reflexivity|].
  destruct (q a) eqn:Q; simpl.
  - destruct (p a); [reflexivity | exact IH].
  - destruct (p a) eqn:P; [rewrite (H a P) in Q; discriminate | exact IH].
Qed.

Lemma get_set_same st k v : get (set st k v) k = v.
Proof. unfold get, set. simpl. rewrite pair_eqb_refl. reflexivity. Qed.

Lemma get_set_other st k v k' : k' <> k -> get (set st k v) k' = get st k'.
Proof.
  intros H. unfold get, set. simpl. rewrite (pair_eqb_neq k k') by congruence.
  rewrite find_filter; [reflexivity|].
  intros x Hx. apply pair_eqb_eq in Hx. rewrite Hx. rewrite (pair_eqb_neq k' k H). reflexivity.
Qed.

Lemma key_dec (k k' : key) : {k = k'} + {k <> k'}.
Proof. decide equality; apply Nat.eq_dec. Qed.

Definition Inv (c : cls) (st : pairmap) : Prop := forall k, valid_of c (get st k) = true.

Lemma Inv_empty c : Inv c [].
Proof. intros k. apply empty_valid. Qed.

Lemma Inv_set c st k v : Inv c st -> valid_of c v = true -> Inv c (set st k v).
Proof.
  intros H Hv k'. destruct (key_dec k' k) as [->|N]; [rewrite get_set_same; exact Hv | rewrite get_set_other by exact N; apply H].
Qed.

Lemma same_set_get st k : forall k', get (set st k (get st k)) k' = get st k'.
Proof. intros k'. destruct (key_dec k' k) as [->|N]; [apply get_set_same | apply get_set_other; exact N]. Qed.

(* ================================================================ Part 3: operations *)
Lemma inv_mec_ok c st : Inv c st -> mec_ok c st = true.
Proof. intros H. unfold mec_ok. apply forallb_forall. intros kv _. apply mec_accepts_valid, H. Qed.

Lemma mec_ok_inv c st : mec_ok c st = true -> Inv c st.
Proof.
  intros H k. destruct (find (fun kv => pair_eqb (fst kv) k) st) as [kv|] eqn:F.
  - apply find_some in F as [Hin Heq]. apply pair_eqb_eq in Heq.
    unfold mec_ok in H. rewrite forallb_forall in H. specialize (H _ Hin). cbv beta in H. subst k.
    apply mec_rejects_invalid. exact H.
  - unfold get. rewrite F. apply empty_valid.
Qed.

Lemma add1_inv c et st e st' : conforming c = true -> et <> EAll -> Inv c st ->
  add1 c et st e = Some st' -> Inv c st'.
Proof.
  intros Hc Het Hi. unfold add1. destruct e as [u v].
  destruct (Nat.eqb u v || negb (supported c et)) eqn:E; [discriminate|].
  apply orb_false_iff in E as [_ E]. apply negb_false_iff in E.
  destruct (canon u v) as [k d].
  destruct (guard_of c (get st k) d et) eqn:G; [discriminate|].
  intros [= <-]. apply Inv_set; [exact Hi|]. apply guard_inductive; auto.
Qed.

Lemma add_all_inv c et es : conforming c = true -> et <> EAll -> forall st st', Inv c st ->
  add_all c et st es = Some st' -> Inv c st'.
Proof.
  intros Hc Het. induction es as [|e t IH]; simpl; intros st st' Hi H.
  - injection H as <-. exact Hi.
  - destruct (add1 c et st e) as [st1|] eqn:A; [|discriminate].
    apply (IH st1 st'); [eapply add1_inv; eauto | exact H].
Qed.

Lemma rem1_inv c et st e : Inv c st -> Inv c (rem1 c et st e).
Proof.
  intros Hi. unfold rem1. destruct e as [u v].
  destruct (Nat.eqb u v || negb (supported c et)); [exact Hi|].
  destruct (canon u v) as [k d]. apply Inv_set; [exact Hi | apply remove_valid, Hi].
Qed.

Lemma fold_rem_inv c et es : forall st, Inv c st -> Inv c (fold_left (rem1 c et) es st).
Proof. induction es as [|e t IH]; simpl; intros st Hi; [exact Hi | apply IH, rem1_inv, Hi]. Qed.

Lemma et_all_dec et : etype_eqb et EAll = false -> et <> EAll.
Proof. destruct et; simpl; congruence. Qed.

Lemma step_inv c st o : conforming c = true -> no_all_op o = true -> Inv c st -> Inv c (fst (step c st o)).
Proof.
  intros Hc Hn Hi. destruct o as [u v et|es et|u v et|es et|u v|dl ul bl cl|u v]; simpl in Hn; unfold step.
  - apply negb_true_iff, et_all_dec in Hn.
    destruct (add1 c et st (u, v)) as [st'|] eqn:A; simpl; [eapply add1_inv; eauto | exact Hi].
  - apply negb_true_iff, et_all_dec in Hn.
    destruct (scratch_copy_fails c st); [exact Hi|].
    destruct (add_all c et st es) as [st'|] eqn:A; simpl; [eapply add_all_inv; eauto | exact Hi].
  - apply rem1_inv, Hi.
  - apply fold_rem_inv, Hi.
  - destruct (Nat.eqb u v); simpl; [exact Hi|].
    destruct (canon u v) as [k d]. simpl. apply Inv_set; [exact Hi | apply orient_valid; auto].
  - destruct (mec_ok c (build c dl ul bl cl)) eqn:M; simpl; [apply mec_ok_inv, M | exact Hi].
  - destruct (Nat.eqb u v); simpl; [exact Hi|].
    destruct (canon u v) as [k d]. simpl. apply Inv_set; [exact Hi|].
    rewrite orient_lag_reversed by exact Hc. apply orient_valid; auto.
Qed.

Lemma run_inv c ops : conforming c = true -> no_all ops = true -> forall st, Inv c st -> Inv c (run c ops st).
Proof.
  intros Hc. unfold run. induction ops as [|o t IH]; simpl; intros Hn st Hi; [exact Hi|].
  apply andb_true_iff in Hn as [Ho Ht]. apply IH; [exact Ht | apply step_inv; assumption].
Qed.

(* ---- c03_reachable ---- *)
Theorem c03_reachable : reachable_stmt.
Proof.
  intros c ops Hc Hn. pose proof (run_inv c ops Hc Hn [] (Inv_empty c)) as Hi. split.
  - intros k. apply valid_reflect, Hi.
  - apply inv_mec_ok, Hi.
Qed.

(* ---- c03_raise_atomic ---- *)
Lemma step_raise_same c st o st' : conforming c = true -> Inv c st ->
  step c st o = (st', true) -> same_graph st st'.
Proof.
  intros Hc Hi. destruct o as [u v et|es et|u v et|es et|u v|dl ul bl cl|u v]; unfold step.
  - destruct (add1 c et st (u, v)); intros [= <-]; intros k; reflexivity.
  - destruct (scratch_copy_fails c st); [intros [= <-]; intros k; reflexivity|].
    destruct (add_all c et st es); intros [= <-]; intros k; reflexivity.
  - discriminate.
  - discriminate.
  - destruct (Nat.eqb u v); [intros [= <-]; intros k; reflexivity|].
    destruct (canon u v) as [k d]. intros [= <- Hr]. intros k'.
    rewrite (orient_atomic c (get st k) d Hc (Hi k) Hr). apply same_set_get.
  - destruct (mec_ok c (build c dl ul bl cl)); intros [= <-]; intros k; reflexivity.
  - destruct (Nat.eqb u v); [intros [= <-]; intros k; reflexivity|].
    destruct (canon u v) as [k d]. rewrite orient_lag_reversed by exact Hc. intros [= <- Hr]. intros k'.
    rewrite (orient_atomic c (get st k) (lag_dir c d) Hc (Hi k) Hr). apply same_set_get.
Qed.

Theorem c03_raise_atomic : raise_atomic_stmt.
Proof.
  intros c ops o st' Hc Hn H. eapply step_raise_same; eauto. apply run_inv; auto. apply Inv_empty.
Qed.

(* ---- orient_uncertain_edge changes only the one mark ---- *)
Theorem c03_orient_one_mark : orient_one_mark_stmt.
Proof.
  intros c ops u v st' Hc Hn Huv H st k d. subst st k d.
  pose proof (run_inv c ops Hc Hn [] (Inv_empty c)) as Hi. set (st := run c ops []) in *.
  unfold step in H. rewrite (proj2 (Nat.eqb_neq u v) Huv) in H.
  destruct (canon u v) as [k d]. simpl. injection H as <- Hr.
  split; [intros k' N; apply get_set_other; exact N|].
  rewrite get_set_same.
  exact (orient_marks c (get st k) d Hc (Hi k) Hr).
Qed.

(* ---- a raising insertion is recognised by the guard alone (guard_atomic) ---- *)
Lemma guard_atomic c st u v et : u <> v -> supported c et = true ->
  guard_of c (get st (fst (canon u v))) (snd (canon u v)) et = true ->
  step c st (AddEdge u v et) = (st, true).
Proof.
  intros Huv Hs Hg. unfold step, add1. rewrite (proj2 (Nat.eqb_neq u v) Huv), Hs. simpl.
  destruct (canon u v) as [k d]. simpl in Hg. rewrite Hg. reflexivity.
Qed.

(* ---- bulk insertion is all-or-nothing and, when accepted, equals the successive single insertions ---- *)
Lemma add_all_as_singles c et es : forall st st',
  add_all c et st es = Some st' ->
  st' = fold_left (fun s e => fst (step c s (AddEdge (fst e) (snd e) et))) es st.
Proof.
  induction es as [|[u v] t IH]; simpl; intros st st' H; [congruence|].
  destruct (Nat.eqb u v || negb (supported c et)) eqn:E; [discriminate|].
  destruct (canon u v) as [k d] eqn:C.
  destruct (guard_of c (get st k) d et) eqn:G; [discriminate|]. simpl. exact (IH _ _ H).
Qed.

(* non-vacuity: a history meeting every hypothesis, with a rejected self-conflicting batch, an accepted batch, an
   orientation and a rejected insertion *)
Example c03_nonvacuous :
  let ops := [AddEdges [(0, 1); (1, 0)] EDir; AddEdges [(0, 1); (1, 0)] ECir; AddEdge 1 2 EDir; Orient 0 1;
              AddEdge 0 1 EBid; RemoveEdge 1 0 EAll] in
  no_all ops = true /\
  map (fun n => snd (step CPag (run CPag (firstn n ops) []) (nth n ops (Orient 0 0)))) [0; 1; 2; 3; 4; 5]
    = [true; false; false; false; true; false] /\
  get (run CPag ops []) (0, 1) = PS true false false false false false.
Proof. vm_compute. repeat split. Qed.
