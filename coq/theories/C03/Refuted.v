(* C03: what is FALSE for the code as it stood at /repo commit 9c1894f -- documentation, independent of the generated
   files (hand transcription of the old behaviour, so these stay true whatever /repo becomes).
   1. bulk add validated against the start state only (repaired: fixes/C03-bulk-add-self-conflict.patch)
   2. edge_type = "all" (known finding)        3. StationaryTimeSeriesPAG unguarded (known finding) *)
From Coq Require Import List Bool.
From PG Require Import C03.PState.
Import ListNotations.

(* transcription of _check_adding_pag_edge, generic.py L195-246, seen from (u_of_edge, v_of_edge) *)
Definition guard_pag_asis (s : pstate) (et : etype) : bool :=
  match et with
  | EAll => dir_uv s || bid s || und s || cir_uv s
  | ECir => dir_uv s || bid s
  | EDir => cir_uv s || bid s || dir_vu s
  | EBid => dir_uv s || cir_uv s || dir_vu s || cir_vu s
  | EUnd => false
  end.
Definition valid_pag_asis (s : pstate) : bool :=
  negb (bid s && (dir_uv s || dir_vu s || cir_uv s || cir_vu s)) &&
  negb (dir_uv s && dir_vu s) && negb (dir_uv s && cir_uv s) && negb (dir_vu s && cir_vu s).

(* 1. PAG.add_edges_from as it was: every element checked against the graph before the call, then all inserted.
      On one pair: the batch [(u,v); (v,u)] of directed edges on the empty pair *)
Definition bulk_asis (s : pstate) (batch : list bool (* exchanged? *)) (et : etype) (l : layer) : option pstate :=
  if existsb (fun sw => guard_pag_asis (vw s sw) et) batch then None
  else Some (fold_left (fun s sw => put s sw l true) batch s).
Lemma bulk_start_state_refuted :
  exists s', bulk_asis empty_ps [false; true] EDir LDir = Some s' /\ valid_pag_asis s' = false.
Proof. eexists. split; [vm_compute; reflexivity | vm_compute; reflexivity]. Qed.

(* 2. add_edge(u, v) with the default edge_type "all" on an empty pair passes the guard and fills the four layers *)
Lemma all_refuted :
  guard_pag_asis empty_ps EAll = false /\
  valid_pag_asis (put (put (put (put empty_ps false LDir true) false LBid true) false LUnd true) false LCir true) = false.
Proof. split; vm_compute; reflexivity. Qed.

(* 3. StationaryTimeSeriesPAG: add_edge unguarded; orient_uncertain_edge = remove circle (u,v), add directed (u,v) *)
Definition orient_tspag_asis (s : pstate) : option pstate :=
  if cir_uv s then Some (put (put s false LCir false) false LDir true) else None.
Lemma tspag_refuted :
  (* u <-o v is a valid pair; orienting the circle gives u -> v together with v -> u *)
  let s := PS false true true false false false in
  valid_pag_asis s = true /\ exists s', orient_tspag_asis s = Some s' /\ valid_pag_asis s' = false.
Proof. split; [vm_compute; reflexivity | eexists; split; vm_compute; reflexivity]. Qed.
