(* C03: the property, as Props over the formal pair states and graphs (to be compared with the property text).

   "After any sequence of successful public mutations (single or bulk edge addition, removal, orientation of an uncertain
    edge, construction from edge lists) a PAG never has, on one node pair, a bidirected edge together with a directed or
    circle mark, directed edges in both directions, or an arrowhead and a circle at the same endpoint, and a CPDAG never
    has a directed edge together with an undirected or an opposite directed edge; is_valid_mec_graph accepts every
    reachable graph.  A mutation that would break this raises and leaves the graph exactly as it was.
    orient_uncertain_edge changes only the one circle/undirected mark it is asked to orient." *)
From Coq Require Import List Bool.
From PG Require Import C03.PState C03.Model.
Import ListNotations.

Definition T (b : bool) : Prop := b = true.

(* PAG: on one node pair (u, v) *)
Definition valid_pag_P (s : pstate) : Prop :=
  ~ (T (bid s) /\ (T (dir_uv s) \/ T (dir_vu s) \/ T (cir_uv s) \/ T (cir_vu s))) (* <-> with a directed or circle mark *)
  /\ ~ (T (dir_uv s) /\ T (dir_vu s))                                              (* directed edges in both directions *)
  /\ ~ (T (dir_uv s) /\ T (cir_uv s))                                              (* arrowhead and circle at v *)
  /\ ~ (T (dir_vu s) /\ T (cir_vu s)).                                             (* arrowhead and circle at u *)

(* CPDAG: on one node pair *)
Definition valid_cpdag_P (s : pstate) : Prop :=
  ~ ((T (dir_uv s) \/ T (dir_vu s)) /\ T (und s))                                  (* directed with undirected *)
  /\ ~ (T (dir_uv s) /\ T (dir_vu s)).                                             (* opposite directed edges *)

Definition valid_P (c : cls) : pstate -> Prop := if pag_like c then valid_pag_P else valid_cpdag_P.

Lemma valid_pag_reflect s : valid_pag s = true <-> valid_pag_P s.
Proof. destruct s as [[] [] [] [] [] []]; vm_compute; intuition discriminate. Qed.
Lemma valid_cpdag_reflect s : valid_cpdag s = true <-> valid_cpdag_P s.
Proof. destruct s as [[] [] [] [] [] []]; vm_compute; intuition discriminate. Qed.
Lemma valid_reflect c s : valid_of c s = true <-> valid_P c s.
Proof. unfold valid_of, valid_P. destruct (pag_like c); [apply valid_pag_reflect | apply valid_cpdag_reflect]. Qed.

(* every pair of the graph satisfies the class invariant *)
Definition all_pairs_valid (c : cls) (st : pairmap) : Prop := forall k, valid_P c (get st k).

(* two graphs hold the same marks on every pair *)
Definition same_graph (st st' : pairmap) : Prop := forall k, get st' k = get st k.

(* end marks on the pair (u, v), for the statement about orient_uncertain_edge *)
Inductive mark := Arrow | Circle | Tail.
Definition mark_v (s : pstate) : option mark :=
  if dir_uv s || bid s then Some Arrow else if cir_uv s then Some Circle
  else if dir_vu s || cir_vu s || und s then Some Tail else None.
Definition mark_u (s : pstate) : option mark := mark_v (flip s).
(* a CPDAG-like graph has no bidirected / circle layer: its pair states are read through this projection *)
Definition proj (c : cls) (s : pstate) : pstate :=
  if pag_like c then s else PS (dir_uv s) (dir_vu s) false false false (und s).

(* the classes the theorems are about: those whose insertion wrappers have the demanded shape.  StationaryTimeSeriesPAG
   defines no add_edge / add_edges_from override (recorded known finding) and is excluded. *)
Definition conforming (c : cls) : bool := match c with CTsPag => false | _ => true end.

(* the histories the theorems are about: no insertion with edge_type="all".  add_edge(u, v) with the default edge type
   inserts the pair into every layer at once (recorded known finding: the repository's own tests require it), which is
   contradictory by itself; removal with "all" is covered. *)
Definition no_all_op (o : op) : bool :=
  match o with
  | AddEdge _ _ et | AddEdges _ et => negb (etype_eqb et EAll)
  | _ => true
  end.
Definition no_all (ops : list op) : bool := forallb no_all_op ops.

(* ---- the statements (proved in Proofs.v, restated in Props/C03.v) ---- *)
Definition reachable_stmt : Prop :=
  forall c ops, conforming c = true -> no_all ops = true ->
    all_pairs_valid c (run c ops []) /\ mec_ok c (run c ops []) = true.

(* the full property (false for the code as it stands, see above): the same without the restriction on "all" *)
Definition reachable_full_stmt : Prop :=
  forall c ops, all_pairs_valid c (run c ops []) /\ mec_ok c (run c ops []) = true.

Definition raise_atomic_stmt : Prop :=
  forall c ops o st', conforming c = true -> no_all ops = true ->
    step c (run c ops []) o = (st', true) -> same_graph (run c ops []) st'.

(* orient_uncertain_edge(u, v) that returns normally: every other pair is untouched; on the pair, seen from (u, v),
   the mark at v was a circle (PAG-like) / the tail of an undirected edge (CPDAG-like) and is now an arrowhead, the mark at u is
   unchanged, and the undirected layer of a PAG is not involved *)
Definition orient_one_mark_stmt : Prop :=
  forall c ops u v st', conforming c = true -> no_all ops = true -> u <> v ->
    step c (run c ops []) (Orient u v) = (st', false) ->
    let st := run c ops [] in
    let k := fst (canon u v) in let d := snd (canon u v) in
    (forall k', k' <> k -> get st' k' = get st k') /\
    mark_v (proj c (view (get st k) d)) = Some (if pag_like c then Circle else Tail) /\
    mark_v (proj c (view (get st' k) d)) = Some Arrow /\
    mark_u (proj c (view (get st' k) d)) = mark_u (proj c (view (get st k) d)) /\
    (pag_like c = true -> und (get st' k) = und (get st k)).
