(* acycb (repeated sink removal) decides acyclicity (existence of a topological numbering). *)
From Coq Require Import List Arith Bool Lia.
From PG Require Import Base.ListSet Base.Sx Graph.MGraph C04.Dag C04.DagFacts.
Import ListNotations.

Definition ranked (es : list (nat * nat)) (vs : list nat) (rk : nat -> nat) : Prop :=
  forall a b, In (a, b) es -> In a vs -> In b vs -> rk a < rk b.

Lemma is_sink_in_spec es vs v : is_sink_in es vs v = true <-> forall b, In (v, b) es -> ~ In b vs.
Proof.
  unfold is_sink_in. rewrite forallb_forall. split.
  - intros H b Hb Hin. specialize (H _ Hb). simpl in H. rewrite Nat.eqb_refl in H. simpl in H.
    apply negb_true_iff, memb_false in H. contradiction.
  - intros H [a b] He. simpl. apply negb_true_iff. destruct (Nat.eqb a v) eqn:E; [|reflexivity].
    apply Nat.eqb_eq in E. subst a. simpl. apply memb_false. apply H, He.
Qed.

Lemma acyc_loop_sound fuel es : forall vs, acyc_loop fuel es vs = true -> exists rk, ranked es vs rk.
Proof.
  induction fuel as [|k IH]; intros vs H.
  - destruct vs; [|discriminate]. exists (fun _ => 0). intros a b _ [].
  - destruct vs as [|v0 t] eqn:EV; [exists (fun _ => 0); intros a b _ []|]. rewrite <- EV in *.
    assert (H' : match find (is_sink_in es vs) vs with None => false | Some v => acyc_loop k es (rm v vs) end = true).
    { rewrite EV in H |- *. exact H. }
    clear H. destruct (find (is_sink_in es vs) vs) as [v|] eqn:Ef; [|discriminate].
    apply find_some in Ef. destruct Ef as [Hv Hs]. rewrite is_sink_in_spec in Hs.
    destruct (IH _ H') as [rk' Hrk'].
    exists (fun u => if Nat.eqb u v then S (list_max (map rk' vs)) else rk' u).
    intros a b He Ha Hb.
    assert (Hav : a <> v) by (intros ->; apply (Hs b He Hb)).
    apply Nat.eqb_neq in Hav. rewrite Hav. destruct (Nat.eqb b v) eqn:Eb.
    + pose proof (list_max_ge rk' vs a Ha). lia.
    + apply Nat.eqb_neq in Eb. apply Nat.eqb_neq in Hav. apply Hrk'; [exact He|apply rm_In; tauto|apply rm_In; tauto].
Qed.

Lemma acyc_loop_complete fuel es : forall vs rk, ranked es vs rk -> length vs <= fuel -> acyc_loop fuel es vs = true.
Proof.
  induction fuel as [|k IH]; intros vs rk Hr Hl.
  - destruct vs; [reflexivity|simpl in Hl; lia].
  - destruct vs as [|v0 t] eqn:EV; [reflexivity|]. rewrite <- EV in *.
    assert (Hne : vs <> []) by (rewrite EV; discriminate).
    destruct (argmax_exists rk vs Hne) as [x [Hx Hmax]].
    assert (Hsx : is_sink_in es vs x = true).
    { apply is_sink_in_spec. intros b He Hb. pose proof (Hr x b He Hx Hb). specialize (Hmax b Hb). lia. }
    assert (G : match find (is_sink_in es vs) vs with None => false | Some v => acyc_loop k es (rm v vs) end = true).
    { destruct (find (is_sink_in es vs) vs) as [v|] eqn:Ef.
      - apply find_some in Ef. destruct Ef as [Hv _]. apply (IH _ rk).
        + intros a b He Ha Hb. apply rm_In in Ha. apply rm_In in Hb. apply Hr; tauto.
        + pose proof (rm_length v vs Hv). lia.
      - pose proof (find_none _ _ Ef x Hx). congruence. }
    rewrite EV in G |- *. exact G.
Qed.

Lemma acycb_sound g : acycb g = true -> edges_in (V g) (D g) -> acyclic g.
Proof.
  unfold acycb. intros H He. destruct (acyc_loop_sound _ _ _ H) as [rk Hrk]. exists rk.
  intros a b Hab. destruct (He a b Hab) as (Ha & Hb & _). apply Hrk; assumption.
Qed.

Lemma acycb_complete g : acyclic g -> acycb g = true.
Proof.
  intros [rk Hrk]. unfold acycb. apply (acyc_loop_complete _ _ _ rk); [|lia]. intros a b H _ _. apply Hrk, H.
Qed.

Lemma is_dagb_spec g : is_dagb g = true <-> is_dag g.
Proof.
  unfold is_dagb, is_dag. rewrite !andb_true_iff, pedges_ok_spec. split.
  - intros [[H1 H2] H3]. split; [exact H1|].
    destruct (B g); [|discriminate]. destruct (U g); [|discriminate]. destruct (C g); [|discriminate].
    repeat split; try reflexivity. apply acycb_sound; assumption.
  - intros (H1 & HB & HU & HC & H5). rewrite HB, HU, HC. split; [split; [exact H1|reflexivity]|apply acycb_complete; exact H5].
Qed.
