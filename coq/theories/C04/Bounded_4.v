(* C04: the essential-graph clause by kernel computation: for every labelled DAG on n<=4 nodes (all 543+25+3+1+1 of them,
   one canonical edge list each) and EVERY topological order, the compelled edges of the model are exactly the
   edges that occur in every Markov-equivalent DAG (brute-force oracle over all orientations of the skeleton). *)
From Coq Require Import List Arith Bool Lia.
From PG Require Import Base.ListSet Base.Sx Graph.MGraph C04.Dag C04.DagFacts C04.Acyc C04.Refl C04.EssRefl C04.Model C04.Proofs.
Import ListNotations.

Definition pairs_lt (n : nat) : list (nat * nat) :=
  flat_map (fun a => map (fun b => (a, b)) (filter (fun b => Nat.ltb a b) (seq 0 n))) (seq 0 n).

(* per pair a<b: no edge, a->b, b->a *)
Fixpoint kinds_enum (ps : list (nat * nat)) : list (list (nat * nat)) :=
  match ps with
  | [] => [[]]
  | e :: t => let r := kinds_enum t in r ++ map (cons e) r ++ map (cons (snd e, fst e)) r
  end.

Definition dags (n : nat) : list (list (nat * nat)) :=
  filter (fun es => is_dagb (mkd (seq 0 n) es)) (kinds_enum (pairs_lt n)).

(* all lists of length k over an alphabet *)
Fixpoint lists_of (k : nat) (alph : list nat) : list (list nat) :=
  match k with
  | 0 => [[]]
  | S k' => flat_map (fun a => map (cons a) (lists_of k' alph)) alph
  end.

Lemma lists_of_In k alph l : length l = k -> incl l alph -> In l (lists_of k alph).
Proof.
  revert l; induction k as [|k IH]; intros l Hl Hi.
  - destruct l; [left; reflexivity|discriminate].
  - destruct l as [|a t]; [discriminate|]. simpl. apply in_flat_map. exists a. split; [apply Hi; left; reflexivity|].
    apply in_map. apply IH; [simpl in Hl; lia|]. intros x Hx. apply Hi. right. exact Hx.
Qed.

Definition pseteqb (l m : list (nat * nat)) : bool := psubset l m && psubset m l.

Lemma pseteqb_spec l m : pseteqb l m = true -> forall e, In e l <-> In e m.
Proof.
  unfold pseteqb, psubset. rewrite andb_true_iff, !forallb_forall. intros [H1 H2] e.
  split; intros H; apply pmemb_In; auto.
Qed.

Definition check_dag (n : nat) (es : list (nat * nat)) : bool :=
  let d := mkd (seq 0 n) es in
  let ess := essential_edges d in
  forallb (fun ord => negb (topob d ord) ||
                      match cpdag_model d ord with
                      | Some (_, c, _) => pseteqb c ess
                      | None => false
                      end) (lists_of n (seq 0 n)).

Definition check_n (n : nat) : bool := forallb (check_dag n) (dags n).

Lemma check_0 : check_n 0 = true. Proof. vm_cast_no_check (eq_refl true). Qed.
Lemma check_1 : check_n 1 = true. Proof. vm_cast_no_check (eq_refl true). Qed.
Lemma check_2 : check_n 2 = true. Proof. vm_cast_no_check (eq_refl true). Qed.
Lemma check_3 : check_n 3 = true. Proof. vm_cast_no_check (eq_refl true). Qed.
Lemma check_4 : check_n 4 = true. Proof. vm_cast_no_check (eq_refl true). Qed.

Lemma nodupb_NoDup l : nodupb l = true -> NoDup l.
Proof.
  induction l as [|a t IH]; simpl; [constructor|]. rewrite andb_true_iff, negb_true_iff. intros [H1 H2].
  constructor; [apply memb_false; exact H1|apply IH; exact H2].
Qed.

Lemma topob_length n es ord : topob (mkd (seq 0 n) es) ord = true -> length ord = n /\ incl ord (seq 0 n).
Proof.
  unfold topob. rewrite !andb_true_iff. intros [[Hn Hs] _]. apply nodupb_NoDup in Hn.
  apply seteqb_spec in Hs. simpl in Hs. destruct Hs as [H1 H2]. split; [|exact H1].
  pose proof (NoDup_incl_length Hn H1). pose proof (NoDup_incl_length (seq_NoDup n 0) H2).
  rewrite seq_length in *. lia.
Qed.

Theorem cpdag_essential_bounded_4_proof : forall n es ord, n <= 4 -> In es (dags n) ->
  let d := mkd (seq 0 n) es in
  topob d ord = true ->
  exists c r, cpdag_model d ord = Some (seq 0 n, c, r) /\ forall a b, In (a, b) c <-> essential d a b.
Proof.
  intros n es ord Hn Hes d Ht.
  assert (Hc : check_n n = true).
  { destruct n as [|[|[|[|[|n]]]]]; [apply check_0|apply check_1|apply check_2|apply check_3|apply check_4|lia]. }
  unfold check_n in Hc. rewrite forallb_forall in Hc. specialize (Hc es Hes). unfold check_dag in Hc.
  fold d in Hc. cbv zeta in Hc. rewrite forallb_forall in Hc.
  destruct (topob_length n es ord Ht) as [Hl Hi].
  specialize (Hc ord (lists_of_In n (seq 0 n) ord Hl Hi)). fold d in Ht. rewrite Ht in Hc. simpl in Hc.
  destruct (cpdag_model d ord) as [[[vs c] r]|] eqn:E; [|discriminate].
  pose proof (cpdag_structure_proof d ord vs c r E) as [Hvs _]. subst vs.
  assert (Hdag : is_dag d). { unfold dags in Hes. apply filter_In in Hes. apply is_dagb_spec. tauto. }
  exists c, r. split; [reflexivity|]. intros a b. rewrite <- (essential_dec_spec d Hdag).
  unfold essential_dec. rewrite pmemb_In. apply pseteqb_spec. exact Hc.
Qed.

Lemma dags_are_dags n es : In es (dags n) -> is_dag (mkd (seq 0 n) es).
Proof. unfold dags. intros H. apply filter_In in H. apply is_dagb_spec. tauto. Qed.

(* the enumeration is not vacuous: 543 labelled DAGs on 4 nodes, 25 on 3 *)
Lemma dags_count : map (fun n => length (dags n)) [0; 1; 2; 3; 4] = [1; 1; 3; 25; 543].
Proof. vm_compute. reflexivity. Qed.
