(* C04: "directed = essential" for EVERY DAG on the nodes 0..n-1, n <= 5 (29 281 DAGs for n = 5), and EVERY topological
   order, by kernel computation (8 shards, table-driven per skeleton) + coverage of the enumerations + invariance of
   the model under set-equal edge lists. *)
From Coq Require Import List Arith Bool Lia.
From PG Require Import Base.ListSet Base.Sx Graph.MGraph C04.Dag C04.DagFacts C04.Acyc C04.Refl C04.EssRefl C04.Model
  C04.Spec C04.Proofs C04.Structure C04.Bounded_4 C04.Cover C04.Fast C04.Invariant C04.Bounded_5_defs
  C04.Bounded_5_s0 C04.Bounded_5_s1 C04.Bounded_5_s2 C04.Bounded_5_s3 C04.Bounded_5_s4 C04.Bounded_5_s5
  C04.Bounded_5_s6 C04.Bounded_5_s7.
Import ListNotations.

Definition check_all (n : nat) : bool := let vs := seq 0 n in forallb (check_skel vs (perms vs)) (skels n).

Lemma all_0 : check_all 0 = true. Proof. vm_cast_no_check (eq_refl true). Qed.
Lemma all_1 : check_all 1 = true. Proof. vm_cast_no_check (eq_refl true). Qed.
Lemma all_2 : check_all 2 = true. Proof. vm_cast_no_check (eq_refl true). Qed.
Lemma all_3 : check_all 3 = true. Proof. vm_cast_no_check (eq_refl true). Qed.
Lemma all_4 : check_all 4 = true. Proof. vm_cast_no_check (eq_refl true). Qed.

Lemma all_5 : check_all 5 = true.
Proof.
  unfold check_all. cbv zeta. apply forallb_forall. intros s Hs.
  destruct (shard_cover _ _ Hs) as [k [Hk Hin]].
  assert (Hc : check_shard 5 k = true).
  { destruct k as [|[|[|[|[|[|[|[|k]]]]]]]];
      [apply shard5_0|apply shard5_1|apply shard5_2|apply shard5_3|apply shard5_4|apply shard5_5|apply shard5_6|apply shard5_7|lia]. }
  unfold check_shard in Hc. cbv zeta in Hc. rewrite forallb_forall in Hc. apply Hc, Hin.
Qed.

Lemma check_all_le5 n : n <= 5 -> check_all n = true.
Proof.
  intros H. destruct n as [|[|[|[|[|[|n]]]]]]; [apply all_0|apply all_1|apply all_2|apply all_3|apply all_4|apply all_5|lia].
Qed.

(* ---- every duplicate-free list over 0..n-1 of length n is one of the enumerated permutations (n <= 5) ---- *)
Fixpoint nl_eqb (l m : list nat) : bool :=
  match l, m with
  | [], [] => true
  | x :: l', y :: m' => Nat.eqb x y && nl_eqb l' m'
  | _, _ => false
  end.
Lemma nl_eqb_eq l : forall m, nl_eqb l m = true -> l = m.
Proof.
  induction l as [|x t IH]; intros [|y m] H; simpl in H; try discriminate; [reflexivity|].
  apply andb_true_iff in H. destruct H as [H1 H2]. apply Nat.eqb_eq in H1. apply IH in H2. congruence.
Qed.

Definition perms_ok (n : nat) : bool :=
  let ps := perms (seq 0 n) in
  forallb (fun l => negb (nodupb l) || existsb (nl_eqb l) ps) (lists_of n (seq 0 n)).
Lemma perms_ok_le5 : forallb perms_ok [0; 1; 2; 3; 4; 5] = true.
Proof. vm_cast_no_check (eq_refl true). Qed.

Lemma topob_perm n es ord : n <= 5 -> topob (mkd (seq 0 n) es) ord = true ->
  In ord (perms (seq 0 n)) /\ fwdb es ord = true.
Proof.
  intros Hn Ht. destruct (topob_length n es ord Ht) as [Hl Hi].
  unfold topob in Ht. rewrite !andb_true_iff in Ht. destruct Ht as [[Hnd _] Hf]. split; [|exact Hf].
  pose proof perms_ok_le5 as Hp. rewrite forallb_forall in Hp.
  assert (Hin : In n [0; 1; 2; 3; 4; 5]) by (simpl; lia).
  specialize (Hp n Hin). unfold perms_ok in Hp. cbv zeta in Hp. rewrite forallb_forall in Hp.
  specialize (Hp ord (lists_of_In n (seq 0 n) ord Hl Hi)). rewrite Hnd in Hp. simpl in Hp.
  apply existsb_exists in Hp. destruct Hp as [p [Hp He]]. apply nl_eqb_eq in He. subst. exact Hp.
Qed.

(* ---- the enumeration: all acyclic orientations of all skeletons ---- *)
Definition dagsF (n : nat) : list (list (nat * nat)) := flat_map (acyc_orients (seq 0 n)) (skels n).

Lemma psublists_incl l : forall s, In s (psublists l) -> incl s l.
Proof.
  induction l as [|x t IH]; intros s H; simpl in H.
  - destruct H as [<-|[]]. intros e [].
  - apply in_app_or in H. destruct H as [H|H]; [apply incl_tl, IH, H|].
    apply in_map_iff in H. destruct H as [s' [<- H]]. intros e [<-|He]; [left; reflexivity|right; apply (IH s' H e He)].
Qed.

Lemma filter_psublists (f : nat * nat -> bool) l : In (filter f l) (psublists l).
Proof.
  induction l as [|x t IH]; simpl; [left; reflexivity|]. apply in_or_app.
  destruct (f x); [right; apply in_map; exact IH|left; exact IH].
Qed.

Lemma dagsF_dag n es : In es (dagsF n) -> is_dag (mkd (seq 0 n) es).
Proof.
  unfold dagsF. intros H. apply in_flat_map in H. destruct H as [s [Hs Ho]]. unfold acyc_orients in Ho.
  apply filter_In in Ho. destruct Ho as [Ho Hac]. apply psublists_incl in Hs.
  destruct (orientations_skel _ _ Ho) as [S1 _].
  assert (E : edges_in (seq 0 n) es).
  { intros a b H. apply S1 in H. destruct H as [H|H]; apply Hs in H; apply pairs_lt_In in H; rewrite !in_seq; lia. }
  unfold is_dag. simpl. split; [exact E|]. repeat split; try reflexivity. apply acycb_sound; [exact Hac|exact E].
Qed.

Theorem fast_essential n es ord : n <= 5 -> In es (dagsF n) ->
  let d := mkd (seq 0 n) es in topob d ord = true ->
  exists c r, cpdag_model d ord = Some (seq 0 n, c, r) /\ forall a b, In (a, b) c <-> essential d a b.
Proof.
  intros Hn Hes d Ht. pose proof (dagsF_dag n es Hes) as Hdag. fold d in Hdag.
  destruct (topob_perm n es ord Hn Ht) as [Hp Hf].
  pose proof (check_all_le5 n Hn) as Hc. unfold check_all in Hc. cbv zeta in Hc. rewrite forallb_forall in Hc.
  unfold dagsF in Hes. apply in_flat_map in Hes. destruct Hes as [s [Hs Ho]].
  destruct (check_skel_spec _ _ _ (Hc s Hs) es Ho ord Hp Hf) as (vs' & c & r & Hm & Hce). fold d in Hm, Hce.
  pose proof (cpdag_structure_proof d ord vs' c r Hm) as [Hvs _]. subst vs'.
  exists c, r. split; [exact Hm|]. intros a b. rewrite <- (essential_dec_spec d Hdag).
  unfold essential_dec. rewrite pmemb_In. apply Hce.
Qed.

(* ---- coverage: every DAG on 0..n-1 is, up to the order of its edge list, in the enumeration ---- *)
Lemma dagsF_cover n d : is_dag d -> V d = seq 0 n -> exists es, In es (dagsF n) /\ peq (D d) es.
Proof.
  intros (E & HB & HU & HC & [rk Hrk]) HV. rewrite HV in E.
  set (s := filter (fun e => pmemb e (D d) || pmemb (swap e) (D d)) (pairs_lt n)).
  set (es := map (fun e => if pmemb e (D d) then e else swap e) s).
  assert (Hpe : peq (D d) es).
  { intros [a b]. split.
    - intros H. destruct (E a b H) as (Ha & Hb & Hab). apply in_seq in Ha. apply in_seq in Hb.
      unfold es. apply in_map_iff. destruct (lt_dec a b) as [Hlt|Hge].
      + exists (a, b). split; [apply pmemb_In in H; rewrite H; reflexivity|].
        unfold s. apply filter_In. split; [apply pairs_lt_In; lia|]. apply pmemb_In in H. rewrite H. reflexivity.
      + exists (b, a). split.
        * destruct (pmemb (b, a) (D d)) eqn:Eb; [|reflexivity]. apply pmemb_In in Eb.
          pose proof (Hrk _ _ Eb). pose proof (Hrk _ _ H). lia.
        * unfold s. apply filter_In. split; [apply pairs_lt_In; lia|]. apply orb_true_iff. right.
          unfold swap. simpl. apply pmemb_In. exact H.
    - intros H. unfold es in H. apply in_map_iff in H. destruct H as [e [He Hin]].
      unfold s in Hin. apply filter_In in Hin. destruct Hin as [_ Hor].
      destruct (pmemb e (D d)) eqn:E1.
      + subst e. apply pmemb_In. exact E1.
      + simpl in Hor. rewrite <- He. apply pmemb_In. exact Hor. }
  exists es. split; [|exact Hpe]. unfold dagsF. apply in_flat_map. exists s. split; [apply filter_psublists|].
  unfold acyc_orients. apply filter_In. split; [apply orientations_choice|].
  apply acycb_complete. exists rk. simpl. intros a b H. apply Hrk. apply Hpe. exact H.
Qed.

(* ---- transport along set-equal edge lists ---- *)
Lemma topob_geq d d' ord : geq d d' -> topob d ord = topob d' ord.
Proof.
  intros [HV HD]. unfold topob. rewrite HV. f_equal. apply forallb_set_ext. exact HD.
Qed.

Lemma essential_geq d d' a b : geq d d' -> U d = U d' -> (essential d a b <-> essential d' a b).
Proof.
  intros [HV HD] HU.
  assert (HP : forall x y, Padj d x y <-> Padj d' x y) by (intros x y; unfold Padj; rewrite HU, !(HD _); tauto).
  assert (HS : forall x z y, Vstr d x z y <-> Vstr d' x z y) by (intros x z y; unfold Vstr; rewrite HP, !(HD _); tauto).
  assert (HM : forall g, meq d g <-> meq d' g).
  { intros g. unfold meq. rewrite HV. split; intros (H1 & H2 & H3); (split; [exact H1|]); split; intros.
    - rewrite <- HP. apply H2. - rewrite <- HS. apply H3. - rewrite HP. apply H2. - rewrite HS. apply H3. }
  unfold essential. rewrite (HD (a, b)). split; intros [H1 H2]; (split; [exact H1|]); intros g Hg Hm; apply H2; try exact Hg; apply HM; exact Hm.
Qed.

Theorem cpdag_essential_bounded_5_proof : forall n d ord, n <= 5 -> is_dag d -> V d = seq 0 n -> topo d ord ->
  exists c r, cpdag_model d ord = Some (V d, c, r) /\ forall a b, In (a, b) c <-> essential d a b.
Proof.
  intros n d ord Hn Hd HV Ht. apply topob_spec in Ht.
  destruct (dagsF_cover n d Hd HV) as [es [Hes Hpe]].
  set (d' := mkd (seq 0 n) es).
  assert (Hg : geq d' d). { split; [simpl; symmetry; exact HV|intros e; symmetry; apply Hpe]. }
  rewrite <- (topob_geq d' d ord Hg) in Ht.
  destruct (fast_essential n es ord Hn Hes Ht) as (c & r & Hm & Hce). fold d' in Hm, Hce.
  destruct (cpdag_model_invariant_proof d' d ord _ _ _ Hg Hm) as (c' & r' & Hm' & Hc' & _).
  exists c', r'. rewrite HV. split; [exact Hm'|]. intros a b. rewrite <- (Hc' (a, b)), Hce.
  apply essential_geq; [exact Hg|]. destruct Hd as (_ & _ & HU & _). rewrite HU. reflexivity.
Qed.
