(* Enumerations for the n<=5 kernel computation: skeletons (sub-lists of the pairs a<b), permutations, 8 shards. *)
From Coq Require Import List Arith Bool Lia.
From PG Require Import Base.ListSet Base.Sx Graph.MGraph C04.Dag C04.Model C04.Bounded_4 C04.Fast.
Import ListNotations.

Fixpoint ins_all (a : nat) (l : list nat) : list (list nat) :=
  match l with [] => [[a]] | x :: t => (a :: l) :: map (cons x) (ins_all a t) end.
Fixpoint perms (l : list nat) : list (list nat) :=
  match l with [] => [[]] | a :: t => flat_map (ins_all a) (perms t) end.

Fixpoint psublists (l : list (nat * nat)) : list (list (nat * nat)) :=
  match l with [] => [[]] | x :: t => let r := psublists t in r ++ map (cons x) r end.

Definition skels (n : nat) : list (list (nat * nat)) := psublists (pairs_lt n).

Definition shard {A} (k : nat) (l : list A) : list A :=
  map snd (filter (fun p => Nat.eqb (fst p mod 8) k) (combine (seq 0 (length l)) l)).

Lemma combine_seq_nth {A} (l : list A) d : forall st i, i < length l ->
  In (st + i, nth i l d) (combine (seq st (length l)) l).
Proof.
  induction l as [|a t IH]; intros st i Hi; simpl in *; [lia|].
  destruct i as [|i]; [left; rewrite Nat.add_0_r; reflexivity|]. right.
  replace (st + S i) with (S st + i) by lia. apply IH. lia.
Qed.

Lemma shard_cover {A} (l : list A) x : In x l -> exists k, k < 8 /\ In x (shard k l).
Proof.
  intros H. destruct (In_nth l x x H) as [i [Hi Hn]]. exists (i mod 8). split; [apply Nat.mod_upper_bound; lia|].
  unfold shard. apply in_map_iff. exists (i, x). split; [reflexivity|]. apply filter_In. split.
  - pose proof (combine_seq_nth l x 0 i Hi) as Hc. simpl in Hc. rewrite Hn in Hc. exact Hc.
  - simpl. apply Nat.eqb_refl.
Qed.

Definition check_shard (n k : nat) : bool :=
  let vs := seq 0 n in forallb (check_skel vs (perms vs)) (shard k (skels n)).
