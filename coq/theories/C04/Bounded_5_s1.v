(* shard 1 of 8 of the n=5 kernel computation (skeletons with index = 1 mod 8) *)
From PG Require Import C04.Bounded_5_defs.
Lemma shard5_1 : check_shard 5 1 = true.
Proof. vm_cast_no_check (eq_refl true). Qed.
