(* shard 3 of 8 of the n=5 kernel computation (skeletons with index = 3 mod 8) *)
From PG Require Import C04.Bounded_5_defs.
Lemma shard5_3 : check_shard 5 3 = true.
Proof. vm_cast_no_check (eq_refl true). Qed.
