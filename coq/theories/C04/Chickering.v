(* C04, UNBOUNDED: every edge labelled compelled by the model is essential (lies in every Markov-equivalent DAG).
   Route: an inductive derivation system [Der] (v-structure edges + four orientation rules, all relative to the DAG d);
   (1) Der is sound for [essential]; (2) Der is closed under "w->x derived, x->y and w->y edges => w->y derived"
   (the chain-graph lemma, by induction on the derivation); (3) every labelling step of Algorithm 5 only adds
   Der-derivable edges (loop invariant along the processing order). *)
From Coq Require Import List Arith Bool Lia.
From PG Require Import Base.ListSet Base.Sx Graph.MGraph C04.Dag C04.DagFacts C04.Model C04.Spec C04.Proofs C04.Structure
  C04.VStruct.
Import ListNotations.

Section Chick.
Variable d : mgraph.
Hypothesis Hd : is_dag d.

Let E := D d.

Lemma dU : U d = [].
Proof. destruct Hd as (_ & _ & H & _). exact H. Qed.

Lemma adj_dir a b : Padj d a b -> In (a, b) E \/ In (b, a) E.
Proof. unfold Padj. rewrite dU. simpl. tauto. Qed.

Lemma dir_adj a b : In (a, b) E -> Padj d a b.
Proof. intros H. left. exact H. Qed.

Lemma no2 a b : In (a, b) E -> In (b, a) E -> False.
Proof. destruct Hd as (_ & _ & _ & _ & [rk Hrk]). intros H1 H2. apply Hrk in H1. apply Hrk in H2. lia. Qed.

Lemma no3 a b c : In (a, b) E -> In (b, c) E -> In (c, a) E -> False.
Proof. destruct Hd as (_ & _ & _ & _ & [rk Hrk]). intros H1 H2 H3. apply Hrk in H1. apply Hrk in H2. apply Hrk in H3. lia. Qed.

Lemma irrefl a : ~ In (a, a) E.
Proof. intros H. apply (no2 a a H H). Qed.

(* transitive triangle: a->b->c and a adjacent c gives a->c *)
Lemma tri a b c : In (a, b) E -> In (b, c) E -> Padj d a c -> In (a, c) E.
Proof. intros H1 H2 H. apply adj_dir in H. destruct H as [H|H]; [exact H|]. exfalso. apply (no3 a b c H1 H2 H). Qed.

Lemma padj_dec a b : Padj d a b \/ ~ Padj d a b.
Proof. destruct (padj d a b) eqn:Ep; [left; apply padj_Padj; exact Ep|right; apply padj_false; exact Ep]. Qed.

(* ---------- the derivation system ---------- *)
Inductive Der : nat -> nat -> Prop :=
| DV a b c : Vstr d a b c -> Der a b
| D1 c a b : Der c a -> In (a, b) E -> ~ Padj d c b -> Der a b
| D2 a c b : Der a c -> Der c b -> In (a, b) E -> Der a b
| D3 a b c e : Padj d a c -> Padj d a e -> Der c b -> Der e b -> ~ Padj d c e -> c <> e -> In (a, b) E ->
               ~ (In (c, a) E /\ In (e, a) E) -> Der a b
| D4 a b c e : Padj d a c -> Der c e -> Der e b -> ~ Padj d c b -> Padj d a e -> In (a, b) E -> Der a b.

Lemma Der_edge a b : Der a b -> In (a, b) E.
Proof. intros H. destruct H; try assumption. destruct H as (H & _). exact H. Qed.

Lemma Vstr_sym a b c : Vstr d a b c -> Vstr d c b a.
Proof. intros (H1 & H2 & H3 & H4). repeat split; try assumption; [congruence|]. intros H. apply H4, Padj_sym, H. Qed.

(* ---------- (1) soundness ---------- *)
Section Sound.
Variable d' : mgraph.
Hypothesis Hd' : is_dag d'.
Hypothesis Hm : meq d d'.

Let E' := D d'.

Lemma sk a b : Padj d a b <-> Padj d' a b.
Proof. destruct Hm as (_ & H & _). apply H. Qed.
Lemma vs a b c : Vstr d a b c <-> Vstr d' a b c.
Proof. destruct Hm as (_ & _ & H). apply H. Qed.

Lemma adj_dir' a b : Padj d' a b -> In (a, b) E' \/ In (b, a) E'.
Proof. destruct Hd' as (_ & _ & H & _). unfold Padj. rewrite H. simpl. tauto. Qed.

Lemma no2' a b : In (a, b) E' -> In (b, a) E' -> False.
Proof. destruct Hd' as (_ & _ & _ & _ & [rk Hrk]). intros H1 H2. apply Hrk in H1. apply Hrk in H2. lia. Qed.
Lemma no3' a b c : In (a, b) E' -> In (b, c) E' -> In (c, a) E' -> False.
Proof. destruct Hd' as (_ & _ & _ & _ & [rk Hrk]). intros H1 H2 H3. apply Hrk in H1. apply Hrk in H2. apply Hrk in H3. lia. Qed.

(* an edge of d is in d' in one of the two directions *)
Lemma edge' a b : In (a, b) E -> In (a, b) E' \/ In (b, a) E'.
Proof. intros H. apply adj_dir'. apply sk. left. exact H. Qed.

Lemma tri' a b c : In (a, b) E' -> In (b, c) E' -> Padj d a c -> In (a, c) E'.
Proof.
  intros H1 H2 H. apply sk in H. apply adj_dir' in H. destruct H as [H|H]; [exact H|]. exfalso. apply (no3' a b c H1 H2 H).
Qed.

(* an unshielded collider of d' is one of d *)
Lemma coll' a b c : In (a, b) E' -> In (c, b) E' -> a <> c -> ~ Padj d a c -> In (a, b) E /\ In (c, b) E.
Proof.
  intros H1 H2 H3 H4. assert (Hv : Vstr d' a b c).
  { repeat split; try assumption. intros H. apply H4, sk, H. }
  apply vs in Hv. destruct Hv as (K1 & K2 & _). tauto.
Qed.

Lemma Der_in' a b : Der a b -> In (a, b) E'.
Proof.
  intros H. induction H as [a b c Hv|c a b Hca IH Hab Hn|a c b Hac IH1 Hcb IH2 Hab
                           |a b c e Hac Hae Hcb IH1 Heb IH2 Hn Hne Hab Hside|a b c e Hac Hce IH1 Heb IH2 Hn Hae Hab].
  - apply vs in Hv. destruct Hv as (K & _). exact K.
  - destruct (edge' a b Hab) as [K|K]; [exact K|]. exfalso.
    assert (Hcb : c <> b). { intros ->. apply (no2 a b Hab (Der_edge _ _ Hca)). }
    destruct (coll' c a b IH K Hcb Hn) as [_ K2]. apply (no2 a b Hab K2).
  - destruct (edge' a b Hab) as [K|K]; [exact K|]. exfalso. apply (no3' a c b IH1 IH2 K).
  - destruct (edge' a b Hab) as [K|K]; [exact K|]. exfalso.
    pose proof (tri' c b a IH1 K (Padj_sym _ _ _ Hac)) as Kc. pose proof (tri' e b a IH2 K (Padj_sym _ _ _ Hae)) as Ke.
    destruct (coll' c a e Kc Ke Hne Hn) as [K1 K2]. apply Hside. tauto.
  - destruct (edge' a b Hab) as [K|K]; [exact K|]. exfalso.
    pose proof (tri' e b a IH2 K (Padj_sym _ _ _ Hae)) as Ke. pose proof (tri' c e a IH1 Ke (Padj_sym _ _ _ Hac)) as Kc.
    assert (Hcb : c <> b). { intros ->. apply (no2 e b (Der_edge _ _ Heb) (Der_edge _ _ Hce)). }
    destruct (coll' c a b Kc K Hcb Hn) as [_ K2]. apply (no2 a b Hab K2).
Qed.
End Sound.

Theorem Der_essential a b : Der a b -> essential d a b.
Proof. intros H. split; [apply Der_edge, H|]. intros d' Hd' Hm. apply (Der_in' d' Hd' Hm a b H). Qed.

(* ---------- (2) the chain-graph lemma for derivations ---------- *)
Lemma Der_down w x : Der w x -> forall y, In (x, y) E -> In (w, y) E -> Der w y.
Proof.
  intros H. induction H as [w x u Hv|c w x Hcw IH Hwx Hn|w c x Hwc IH1 Hcx IH2 Hwx
                           |w x c e Hwc Hwe Hcx IH1 Hex IH2 Hn Hne Hwx Hside|w x c e Hwc Hce IH1 Hex IH2 Hn Hwe Hwx];
    intros y Hxy Hwy.
  - (* v-structure w -> x <- u *)
    pose proof Hv as (Hwx & Hux & Hwu & Hnwu).
    destruct (padj_dec u y) as [Hadj|Hnadj].
    + pose proof (tri u x y Hux Hxy Hadj) as Huy. apply (DV w y u). repeat split; assumption.
    + apply (D2 w x y); [apply (DV w x u Hv)| |exact Hwy].
      apply (D1 u x y); [apply (DV u x w), Vstr_sym, Hv|exact Hxy|exact Hnadj].
  - (* D1: c -> w derived, c not adjacent to x *)
    pose proof (Der_edge _ _ Hcw) as Ecw.
    destruct (padj_dec c y) as [Hadj|Hnadj].
    + pose proof (tri c w y Ecw Hwy Hadj) as Hcy.
      assert (Hcx : c <> x). { intros ->. apply (no2 x w Ecw Hwx). }
      apply (D2 w x y); [apply (D1 c w x Hcw Hwx Hn)| |exact Hwy].
      apply (DV x y c). repeat split; try assumption; [congruence|]. intros H. apply Hn, Padj_sym, H.
    + apply (D1 c w y Hcw Hwy Hnadj).
  - (* D2: w -> c -> x derived *)
    pose proof (Der_edge _ _ Hcx) as Ecx.
    destruct (padj_dec c y) as [Hadj|Hnadj].
    + apply IH1; [apply (tri c x y Ecx Hxy Hadj)|exact Hwy].
    + apply (D2 w x y); [apply (D2 w c x Hwc Hcx Hwx)|apply (D1 c x y Hcx Hxy Hnadj)|exact Hwy].
  - (* D3 *)
    pose proof (Der_edge _ _ Hcx) as Ecx. pose proof (Der_edge _ _ Hex) as Eex.
    assert (Hme : Der w x) by (apply (D3 w x c e); assumption).
    destruct (padj_dec c y) as [Hc|Hc]; [|apply (D2 w x y); [exact Hme|apply (D1 c x y Hcx Hxy Hc)|exact Hwy]].
    destruct (padj_dec e y) as [He|He]; [|apply (D2 w x y); [exact Hme|apply (D1 e x y Hex Hxy He)|exact Hwy]].
    pose proof (tri c x y Ecx Hxy Hc) as Hcy. pose proof (tri e x y Eex Hxy He) as Hey.
    apply (D3 w y c e); try assumption.
    + apply (DV c y e). repeat split; assumption.
    + apply (DV e y c). repeat split; try assumption; [congruence|]. intros H. apply Hn, Padj_sym, H.
  - (* D4 *)
    pose proof (Der_edge _ _ Hce) as Ece. pose proof (Der_edge _ _ Hex) as Eex.
    assert (Hme : Der w x) by (apply (D4 w x c e); assumption).
    destruct (padj_dec e y) as [He|He]; [|apply (D2 w x y); [exact Hme|apply (D1 e x y Hex Hxy He)|exact Hwy]].
    pose proof (tri e x y Eex Hxy He) as Hey.
    destruct (padj_dec c y) as [Hc|Hc].
    + pose proof (tri c e y Ece Hey Hc) as Hcy.
      assert (Hcx : c <> x). { intros ->. apply (no2 x e Ece Eex). }
      apply (D2 w x y); [exact Hme| |exact Hwy].
      apply (DV x y c). repeat split; try assumption; [congruence|]. intros H. apply Hn, Padj_sym, H.
    + apply (D4 w y c e); try assumption. apply (D1 c e y Hce Hey Hc).
Qed.
End Chick.
