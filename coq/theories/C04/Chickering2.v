(* C04, UNBOUNDED: the labelling loop only ever marks Der-derivable edges as compelled; hence every directed edge of the
   model's CPDAG is essential (cpdag_compelled_sound). *)
From Coq Require Import List Arith Bool Lia.
From PG Require Import Base.ListSet Base.Sx Graph.MGraph C04.Dag C04.DagFacts C04.Model C04.Spec C04.Proofs C04.Structure
  C04.VStruct C04.Chickering.
Import ListNotations.

Lemma filter_head {A} (p : A -> bool) l : forall x t, filter p l = x :: t ->
  exists r1 r2, l = r1 ++ x :: r2 /\ forall a, In a r1 -> p a = false.
Proof.
  induction l as [|a l IH]; intros x t H; simpl in H; [discriminate|].
  destruct (p a) eqn:Ea.
  - inversion H; subst. exists [], l. split; [reflexivity|]. intros ? [].
  - destruct (IH x t H) as (r1 & r2 & -> & Hr). exists (a :: r1), r2. split; [reflexivity|].
    intros b [<-|Hb]; [exact Ea|apply Hr, Hb].
Qed.

Lemma filter_rev' {A} (p : A -> bool) l : filter p (rev l) = rev (filter p l).
Proof.
  induction l as [|a l IH]; simpl; [reflexivity|]. rewrite filter_app, IH. simpl.
  destruct (p a); simpl; [reflexivity|rewrite app_nil_r; reflexivity].
Qed.

Lemma index_prefix z x o1 o2 : In z o1 -> ~ In x o1 -> index_of z (o1 ++ x :: o2) < index_of x (o1 ++ x :: o2).
Proof.
  induction o1 as [|a t IH]; simpl; intros Hz Hx; [destruct Hz|].
  destruct (Nat.eqb x a) eqn:Ex; [apply Nat.eqb_eq in Ex; exfalso; apply Hx; left; congruence|].
  destruct (Nat.eqb z a) eqn:Ez; [lia|]. apply Nat.eqb_neq in Ez.
  destruct Hz as [Hz|Hz]; [congruence|]. apply -> Nat.succ_lt_mono. apply IH; tauto.
Qed.

Section Loop.
Variable d : mgraph.
Variable ord : list nat.
Hypothesis Hd : is_dag d.
Hypothesis Ht : topo d ord.

Let order := order_model d ord.
Let E := D d.

(* the chosen edge x -> y comes from the LATEST parent of y in the order *)
Lemma chosen_latest st x y : last_unknown st order = Some (x, y) ->
  (forall a, In (a, y) E -> is_unknown st (a, y) = true) ->
  forall z, In (z, y) E -> z <> x -> index_of z ord < index_of x ord.
Proof.
  intros Hl Hall z Hz Hzx. destruct Ht as (Hnd & [Hs1 Hs2] & Hidx). pose proof Hd as (Ed & _).
  pose proof (last_unknown_some _ _ _ Hl) as [Ho Hu]. apply order_model_In in Ho. destruct Ho as (Hx & Hy & Hxy).
  unfold last_unknown, order, order_model in Hl. rewrite rev_flat_map, rev_involutive in Hl.
  destruct (in_split _ _ Hy) as [l1 [l2 Hord]].
  assert (Hny1 : ~ In y l1). { rewrite Hord in Hnd. apply NoDup_remove_2 in Hnd. intros H. apply Hnd. apply in_or_app. left; exact H. }
  assert (Hny2 : ~ In y l2). { rewrite Hord in Hnd. apply NoDup_remove_2 in Hnd. intros H. apply Hnd. apply in_or_app. right; exact H. }
  set (h := fun x0 => rev (in_edges_ord d ord x0)) in *.
  assert (Htgt : forall l e, In e (flat_map h l) -> In (snd e) l).
  { intros l e H. apply in_flat_map in H. destruct H as [y' [Hy' Hin]]. unfold h in Hin. apply in_rev in Hin.
    unfold in_edges_ord in Hin. apply in_map_iff in Hin. destruct Hin as [x' [<- _]]. exact Hy'. }
  rewrite Hord in Hl. rewrite flat_map_app, find_app in Hl.
  destruct (find (is_unknown st) (flat_map h l1)) as [e|] eqn:Ef.
  { exfalso. injection Hl as ->. apply find_some in Ef. destruct Ef as [Ef _]. apply Htgt in Ef. simpl in Ef. contradiction. }
  simpl flat_map in Hl. rewrite find_app in Hl.
  set (p := fun x0 => has_d d x0 y) in *.
  assert (Hh : h y = map (fun x0 => (x0, y)) (filter p (rev ord))).
  { unfold h, in_edges_ord. rewrite <- map_rev, filter_rev'. reflexivity. }
  rewrite Hh in Hl.
  destruct (filter p (rev ord)) as [|f0 F] eqn:EF.
  { exfalso. simpl in Hl. apply find_some in Hl. destruct Hl as [Hl _]. apply Htgt in Hl. simpl in Hl. contradiction. }
  simpl in Hl.
  assert (Hf0 : In (f0, y) E).
  { assert (In f0 (filter p (rev ord))) by (rewrite EF; left; reflexivity). apply filter_In in H. destruct H as [_ H].
    unfold p in H. apply has_d_In in H. exact H. }
  rewrite (Hall f0 Hf0) in Hl. injection Hl as ->.
  destruct (filter_head p (rev ord) x F EF) as (r1 & r2 & Hrev & Hr1).
  assert (Hord2 : ord = rev r2 ++ x :: rev r1).
  { rewrite <- (rev_involutive ord), Hrev, rev_app_distr. simpl. rewrite <- app_assoc. reflexivity. }
  assert (Hzr : In z (rev ord)). { rewrite <- in_rev. apply Ed in Hz. apply Hs2. tauto. }
  rewrite Hrev in Hzr. apply in_app_or in Hzr. destruct Hzr as [Hzr|[Hzr|Hzr]].
  - apply Hr1 in Hzr. unfold p in Hzr. apply has_d_In in Hz. congruence.
  - congruence.
  - rewrite Hord2. apply index_prefix; [rewrite <- in_rev; exact Hzr|].
    rewrite Hord2 in Hnd. apply NoDup_remove_2 in Hnd. intros H. apply Hnd. apply in_or_app. left; exact H.
Qed.

Definition Inv2 (st : lst) : Prop := forall a b, is_ce st (a, b) = true -> Der d a b.

Lemma step_inv2 st x y : Inv2 st -> In (x, y) E ->
  (forall z, In (z, y) E -> z <> x -> Padj d z x -> In (z, x) E) ->
  Inv2 (label_step d st x y).
Proof.
  intros HI Hxy Hlate a b Hce. unfold label_step in Hce.
  set (ws := filter (fun w => is_ce st (w, x)) (parents d x)) in *.
  assert (Hws : forall w, In w ws -> Der d w x /\ In (w, x) E).
  { intros w Hw. unfold ws in Hw. apply filter_In in Hw. destruct Hw as [Hp Hc]. split; [apply HI, Hc|].
    apply parents_In in Hp. apply has_d_In. tauto. }
  destruct (existsb (fun w => negb (has_d d w y)) ws) eqn:E1.
  - (* some compelled w -> x with w not adjacent to y *)
    rewrite is_ce_add_ce in Hce. apply orb_true_iff in Hce. destruct Hce as [Hin|Hold]; [|apply HI, Hold].
    apply pmemb_In, in_edges_In in Hin. destruct Hin as [Hay ->].
    apply existsb_exists in E1. destruct E1 as [w [Hw Hnw]]. destruct (Hws w Hw) as [Dwx Ewx].
    apply negb_true_iff in Hnw. assert (Hnwy : ~ In (w, y) E) by (intros H; apply has_d_In in H; congruence).
    assert (Hnadj : ~ Padj d w y).
    { intros H. apply (adj_dir d Hd) in H. destruct H as [H|H]; [tauto|apply (no3 d Hd w x y Ewx Hxy H)]. }
    assert (Dxy : Der d x y) by (apply (D1 d w x y Dwx Hxy Hnadj)).
    destruct (Nat.eq_dec a x) as [->|Hax]; [exact Dxy|].
    destruct (padj_dec d a x) as [Hadj|Hn].
    + pose proof (Hlate a Hay Hax Hadj) as Eax.
      assert (Haw : a <> w) by (intros ->; tauto).
      destruct (padj_dec d a w) as [Haw2|Hnaw].
      * apply (D4 d a y w x); assumption.
      * apply (D2 d a x y); [|exact Dxy|exact Hay]. apply (DV d a x w). repeat split; assumption.
    + apply (DV d a y x). repeat split; assumption.
  - (* all compelled parents of x are parents of y *)
    assert (Hwy : forall w, In w ws -> In (w, y) E).
    { intros w Hw. destruct (has_d d w y) eqn:Eh; [apply has_d_In; exact Eh|]. exfalso.
      assert (existsb (fun w => negb (has_d d w y)) ws = true) by (apply existsb_exists; exists w; rewrite Eh; tauto).
      congruence. }
    assert (Hmap : forall a0 b0, In (a0, b0) (map (fun w => (w, y)) ws) -> Der d a0 b0).
    { intros a0 b0 H. apply in_map_iff in H. destruct H as [w [Eq Hw]]. inversion Eq; subst.
      destruct (Hws a0 Hw) as [Dwx _]. apply (Der_down d Hd a0 x Dwx b0 Hxy (Hwy a0 Hw)). }
    set (st1 := add_ce (map (fun w => (w, y)) ws) st) in *.
    assert (H1 : forall a0 b0, is_ce st1 (a0, b0) = true -> Der d a0 b0).
    { intros a0 b0 H. unfold st1 in H. rewrite is_ce_add_ce in H. apply orb_true_iff in H.
      destruct H as [H|H]; [apply Hmap, pmemb_In, H|apply HI, H]. }
    destruct (existsb (fun z => negb (z =? x) && negb (has_d d z x)) (parents d y)) eqn:E2.
    + rewrite is_ce_add_ce in Hce. apply orb_true_iff in Hce. destruct Hce as [Hin|Hold]; [|apply H1, Hold].
      apply pmemb_In, filter_In in Hin. destruct Hin as [Hin _]. apply in_edges_In in Hin. destruct Hin as [Hay ->].
      apply existsb_exists in E2. destruct E2 as [z [Hz Hc]]. apply andb_true_iff in Hc. destruct Hc as [Hzx Hnzx].
      apply negb_true_iff, Nat.eqb_neq in Hzx. apply negb_true_iff in Hnzx.
      apply parents_In in Hz. destruct Hz as [_ Hzy]. apply has_d_In in Hzy.
      assert (Hnadj : ~ Padj d z x). { intros H. apply Hlate in H; try assumption. apply has_d_In in H. congruence. }
      assert (Dxy : Der d x y). { apply (DV d x y z). repeat split; try assumption; [congruence|]. intros H. apply Hnadj, Padj_sym, H. }
      assert (Dzy : Der d z y). { apply (DV d z y x). repeat split; assumption. }
      destruct (Nat.eq_dec a x) as [->|Hax]; [exact Dxy|]. destruct (Nat.eq_dec a z) as [->|Haz]; [exact Dzy|].
      destruct (padj_dec d a x) as [Hadjx|Hn]; [|apply (DV d a y x); repeat split; assumption].
      destruct (padj_dec d a z) as [Hadjz|Hn]; [|apply (DV d a y z); repeat split; assumption].
      pose proof (Hlate a Hay Hax Hadjx) as Eax.
      apply (D3 d a y z x); try assumption. intros [_ H]. apply (no2 d Hd a x Eax H).
    + rewrite is_ce_add_re in Hce. apply H1, Hce.
Qed.

Lemma loop_inv2 fuel : forall st st', Inv2 st -> AON d st -> label_loop fuel d order st = Some st' -> Inv2 st'.
Proof.
  induction fuel as [|k IH]; intros st st' HI HA H; simpl in H;
    destruct (last_unknown st order) as [[x y]|] eqn:El; try discriminate; try (inversion H; subst; exact HI).
  pose proof (last_unknown_some _ _ _ El) as [Ho Hu]. apply order_model_In in Ho. destruct Ho as (_ & _ & Hxy).
  apply (IH (label_step d st x y) st'); [|apply step_aon; exact HA|exact H].
  apply step_inv2; [exact HI|exact Hxy|].
  intros z Hz Hzx Hadj.
  assert (Hall : forall a, In (a, y) E -> is_unknown st (a, y) = true).
  { intros a Ha. rewrite (HA a x y Ha Hxy). exact Hu. }
  pose proof (chosen_latest st x y El Hall z Hz Hzx) as Hidx.
  apply (adj_dir d Hd) in Hadj. destruct Hadj as [H1|H1]; [exact H1|]. exfalso.
  destruct Ht as (_ & _ & Hi). apply Hi in H1. lia.
Qed.

Theorem compelled_sound vs c r : cpdag_model d ord = Some (vs, c, r) -> forall a b, In (a, b) c -> essential d a b.
Proof.
  unfold cpdag_model, label_model. fold order.
  destruct (label_loop (S (length (D d))) d order (MkL [] [])) as [st|] eqn:El; [|discriminate].
  intros H a b Hab. inversion H; subst. apply filter_In in Hab. destruct Hab as [_ Hce].
  apply (Der_essential d Hd).
  apply (loop_inv2 (S (length (D d))) (MkL [] []) st); [|intros ? ? ? _ _; reflexivity|exact El|exact Hce].
  intros ? ? Hk. unfold is_ce in Hk. simpl in Hk. discriminate.
Qed.
End Loop.

Theorem cpdag_compelled_sound_thm : forall d ord vs c r, is_dag d -> topo d ord -> cpdag_model d ord = Some (vs, c, r) ->
  forall a b, In (a, b) c -> essential d a b.
Proof. intros d ord vs c r Hd Ht. exact (compelled_sound d ord Hd Ht vs c r). Qed.
