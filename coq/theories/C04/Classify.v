(* Spec-level: two DAGs have the same essential graph iff they are Markov equivalent (unbounded). *)
From Coq Require Import List Arith Bool Lia.
From PG Require Import Base.ListSet Base.Sx Graph.MGraph C04.Dag C04.DagFacts C04.Model C04.Spec.
Import ListNotations.

Lemma meq_refl d : meq d d.
Proof. unfold meq. split; [split; apply incl_refl|]. split; intros; tauto. Qed.
Lemma meq_sym d1 d2 : meq d1 d2 -> meq d2 d1.
Proof. intros ((H1 & H2) & H3 & H4). unfold meq. split; [split; assumption|]. split; intros; [rewrite H3|rewrite H4]; tauto. Qed.
Lemma meq_trans d1 d2 d3 : meq d1 d2 -> meq d2 d3 -> meq d1 d3.
Proof.
  intros ((H1 & H2) & H3 & H4) ((K1 & K2) & K3 & K4). unfold meq. split; [split; eapply incl_tran; eassumption|].
  split; intros; [rewrite H3, K3|rewrite H4, K4]; tauto.
Qed.

(* the two edges of a v-structure are essential *)
Lemma vstr_essential d a c b : Vstr d a c b -> essential d a c /\ essential d b c.
Proof.
  intros Hv. pose proof Hv as (H1 & H2 & _). split; (split; [assumption|]); intros d' _ (_ & _ & Hvs); apply Hvs in Hv;
    destruct Hv as (K1 & K2 & _); assumption.
Qed.

Theorem essential_classifies_proof : essential_classifies_stmt.
Proof.
  intros d1 d2 Hd1 Hd2. split.
  - intros (HV & Hsk & Hes). unfold meq. split; [exact HV|]. split; [exact Hsk|].
    intros a c b. split; intros Hv.
    + destruct (vstr_essential _ _ _ _ Hv) as [E1 E2]. apply Hes in E1. apply Hes in E2.
      destruct Hv as (_ & _ & Hab & Hn). destruct E1 as [E1 _]. destruct E2 as [E2 _].
      repeat split; try assumption. intros H. apply Hn, Hsk, H.
    + destruct (vstr_essential _ _ _ _ Hv) as [E1 E2]. apply Hes in E1. apply Hes in E2.
      destruct Hv as (_ & _ & Hab & Hn). destruct E1 as [E1 _]. destruct E2 as [E2 _].
      repeat split; try assumption. intros H. apply Hn, Hsk, H.
  - intros Hm. pose proof Hm as (HV & Hsk & Hvs). unfold same_essential. split; [exact HV|]. split; [exact Hsk|].
    intros a b. split; intros [Hab Hall].
    + split; [apply Hall; [exact Hd2|exact Hm]|]. intros d' Hd' Hm'. apply Hall; [exact Hd'|]. apply (meq_trans _ _ _ Hm Hm').
    + split; [apply Hall; [exact Hd1|apply meq_sym; exact Hm]|]. intros d' Hd' Hm'. apply Hall; [exact Hd'|].
      apply (meq_trans _ _ _ (meq_sym _ _ Hm) Hm').
Qed.
