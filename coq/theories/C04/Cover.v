(* Coverage of the enumeration used by the bounded theorems: every DAG on the nodes 0..n-1 has, as a set,
   the edge list of a member of [dags n]. *)
From Coq Require Import List Arith Bool Lia.
From PG Require Import Base.ListSet Base.Sx Graph.MGraph C04.Dag C04.DagFacts C04.Acyc C04.EssRefl C04.Model C04.Bounded_4.
Import ListNotations.

Lemma pairs_lt_In n a b : In (a, b) (pairs_lt n) <-> a < b /\ b < n.
Proof.
  unfold pairs_lt. rewrite in_flat_map. split.
  - intros [x [Hx H]]. apply in_map_iff in H. destruct H as [y [E Hy]]. inversion E; subst.
    apply filter_In in Hy. destruct Hy as [Hy Hlt]. apply in_seq in Hy. apply Nat.ltb_lt in Hlt. lia.
  - intros [H1 H2]. exists a. split; [apply in_seq; lia|]. apply in_map_iff. exists b. split; [reflexivity|].
    apply filter_In. split; [apply in_seq; lia|apply Nat.ltb_lt; exact H1].
Qed.

Definition pick (E : list (nat * nat)) (e : nat * nat) : list (nat * nat) :=
  if pmemb e E then [e] else if pmemb (swap e) E then [swap e] else [].

Lemma pick_in_enum E ps : In (flat_map (pick E) ps) (kinds_enum ps).
Proof.
  induction ps as [|e t IH]; simpl; [left; reflexivity|]. unfold pick at 1.
  apply in_or_app. destruct (pmemb e E).
  - right. apply in_or_app. left. simpl. apply in_map. exact IH.
  - destruct (pmemb (swap e) E).
    + right. apply in_or_app. right. simpl. apply in_map. exact IH.
    + left. exact IH.
Qed.

Lemma pick_set_eq E ps :
  (forall a b, In (a, b) E -> In (a, b) ps \/ In (b, a) ps) ->
  (forall a b, In (a, b) E -> ~ In (b, a) E) ->
  set_eq E (flat_map (pick E) ps).
Proof.
  intros Hcov Hanti. split.
  - intros [a b] H. apply in_flat_map. destruct (Hcov a b H) as [Hp|Hp].
    + exists (a, b). split; [exact Hp|]. unfold pick. apply pmemb_In in H. rewrite H. left; reflexivity.
    + exists (b, a). split; [exact Hp|]. unfold pick.
      destruct (pmemb (b, a) E) eqn:E1; [apply pmemb_In in E1; destruct (Hanti a b H E1)|].
      unfold swap. simpl. apply pmemb_In in H. rewrite H. left; reflexivity.
  - intros x H. apply in_flat_map in H. destruct H as [e [_ H]]. unfold pick in H.
    destruct (pmemb e E) eqn:E1.
    + destruct H as [<-|[]]. apply pmemb_In. exact E1.
    + destruct (pmemb (swap e) E) eqn:E2; [|destruct H]. destruct H as [<-|[]]. apply pmemb_In. exact E2.
Qed.

Theorem dags_cover n d : is_dag d -> V d = seq 0 n -> exists es, In es (dags n) /\ set_eq (D d) es.
Proof.
  intros (E & HB & HU & HC & [rk Hrk]) HV. rewrite HV in E.
  set (es := flat_map (pick (D d)) (pairs_lt n)).
  assert (Hs : set_eq (D d) es).
  { apply pick_set_eq.
    - intros a b H. apply E in H. destruct H as (Ha & Hb & Hab). apply in_seq in Ha. apply in_seq in Hb.
      rewrite !pairs_lt_In. lia.
    - intros a b H1 H2. apply Hrk in H1. apply Hrk in H2. lia. }
  exists es. split; [|exact Hs]. unfold dags. apply filter_In. split; [apply pick_in_enum|].
  apply is_dagb_spec. unfold is_dag. simpl. split; [|repeat split; try reflexivity].
  - intros a b H. apply Hs in H. apply E. exact H.
  - exists rk. simpl. intros a b H. apply Hrk. apply Hs. exact H.
Qed.
