(* Vocabulary shared by C04 and C05: DAGs / PDAGs as mgraphs using the D and U layers only,
   adjacency, v-structures, acyclicity, Markov equivalence, consistent extension —
   each as a Prop (what the theorems talk about) and as a boolean (what the oracles compute). *)
From Coq Require Import List Arith Bool Lia.
From PG Require Import Base.ListSet Base.Sx Graph.MGraph.
Import ListNotations.

Definition mkd (vs : list nat) (es : list (nat * nat)) : mgraph := MkG vs es [] [] [].
Definition mkp (vs : list nat) (ds us : list (nat * nat)) : mgraph := MkG vs ds [] us [].

(* ---------------- Props ---------------- *)
(* adjacency in the skeleton (directed either way, or undirected) *)
Definition Padj (g : mgraph) (a b : nat) : Prop :=
  In (a, b) (D g) \/ In (b, a) (D g) \/ In (a, b) (U g) \/ In (b, a) (U g).

(* unshielded collider a -> c <- b *)
Definition Vstr (g : mgraph) (a c b : nat) : Prop :=
  In (a, c) (D g) /\ In (b, c) (D g) /\ a <> b /\ ~ Padj g a b.

(* acyclic = the directed edges admit a topological numbering *)
Definition acyclic (g : mgraph) : Prop :=
  exists rk : nat -> nat, forall a b, In (a, b) (D g) -> rk a < rk b.

Definition edges_in (vs : list nat) (l : list (nat * nat)) : Prop :=
  forall a b, In (a, b) l -> In a vs /\ In b vs /\ a <> b.

Definition is_dag (g : mgraph) : Prop :=
  edges_in (V g) (D g) /\ B g = [] /\ U g = [] /\ C g = [] /\ acyclic g.

(* Markov equivalence of two DAGs: same nodes, same skeleton, same v-structures (Verma & Pearl) *)
Definition meq (d1 d2 : mgraph) : Prop :=
  set_eq (V d1) (V d2) /\ (forall a b, Padj d1 a b <-> Padj d2 a b) /\
  (forall a c b, Vstr d1 a c b <-> Vstr d2 a c b).

(* a -> b is in every DAG Markov equivalent to d *)
Definition essential (d : mgraph) (a b : nat) : Prop :=
  In (a, b) (D d) /\ forall d', is_dag d' -> meq d d' -> In (a, b) (D d').

(* PDAG: endpoints in V, no self loops, at most one edge per pair; acyclicity of D is NOT assumed *)
Definition wf_pdag (p : mgraph) : Prop :=
  edges_in (V p) (D p) /\ edges_in (V p) (U p) /\
  (forall a b, In (a, b) (D p) -> ~ In (b, a) (D p)) /\
  (forall a b, In (a, b) (D p) -> ~ In (a, b) (U p) /\ ~ In (b, a) (U p)).

(* d is a consistent extension of p (the wording of C05) *)
Definition consistent_ext (p d : mgraph) : Prop :=
  is_dag d /\ set_eq (V d) (V p) /\ (forall a b, Padj d a b <-> Padj p a b) /\
  incl (D p) (D d) /\ (forall a c b, Vstr d a c b <-> Vstr p a c b).

(* ---------------- booleans ---------------- *)
Definition padj (g : mgraph) (a b : nat) : bool := has_d g a b || has_d g b a || has_u g a b.

Definition vstrb (g : mgraph) (a c b : nat) : bool :=
  has_d g a c && has_d g b c && negb (Nat.eqb a b) && negb (padj g a b).

(* acyclicity by repeated removal of a sink among the remaining nodes *)
Definition is_sink_in (es : list (nat * nat)) (vs : list nat) (v : nat) : bool :=
  forallb (fun e => negb (Nat.eqb (fst e) v && memb (snd e) vs)) es.

Definition rm (v : nat) (vs : list nat) : list nat := filter (fun a => negb (Nat.eqb a v)) vs.

Fixpoint acyc_loop (fuel : nat) (es : list (nat * nat)) (vs : list nat) : bool :=
  match vs with
  | [] => true
  | _ => match fuel with
         | 0 => false
         | S k => match find (is_sink_in es vs) vs with
                  | None => false
                  | Some v => acyc_loop k es (rm v vs)
                  end
         end
  end.

Definition pedges_ok (vs : list nat) (l : list (nat * nat)) : bool :=
  forallb (fun p => memb (fst p) vs && memb (snd p) vs && negb (Nat.eqb (fst p) (snd p))) l.

Definition acycb (g : mgraph) : bool := acyc_loop (length (V g)) (D g) (V g).

Definition is_dagb (g : mgraph) : bool :=
  pedges_ok (V g) (D g) && match B g, U g, C g with [], [], [] => true | _, _, _ => false end && acycb g.

Definition all2 (vs : list nat) (f : nat -> nat -> bool) : bool :=
  forallb (fun a => forallb (f a) vs) vs.
Definition all3 (vs : list nat) (f : nat -> nat -> nat -> bool) : bool :=
  forallb (fun a => forallb (fun c => forallb (f a c) vs) vs) vs.

Definition same_skel (vs : list nat) (g1 g2 : mgraph) : bool :=
  all2 vs (fun a b => Bool.eqb (padj g1 a b) (padj g2 a b)).
Definition same_vstr (vs : list nat) (g1 g2 : mgraph) : bool :=
  all3 vs (fun a c b => Bool.eqb (vstrb g1 a c b) (vstrb g2 a c b)).

Definition psubset (l m : list (nat * nat)) : bool := forallb (fun e => pmemb e m) l.

(* both arguments are assumed to be dags over their own V; used by oracles and witness checkers *)
Definition meqb (d1 d2 : mgraph) : bool :=
  seteqb (V d1) (V d2) && same_skel (V d1) d1 d2 && same_vstr (V d1) d1 d2.

Definition wf_pdagb (p : mgraph) : bool :=
  pedges_ok (V p) (D p) && pedges_ok (V p) (U p) &&
  forallb (fun e => negb (pmemb (snd e, fst e) (D p)) && negb (smemb (fst e) (snd e) (U p))) (D p).

Definition consistent_extb (p d : mgraph) : bool :=
  is_dagb d && seteqb (V d) (V p) && same_skel (V p) d p && psubset (D p) (D d) && same_vstr (V p) d p.

(* all ways of orienting a list of (undirected) edges *)
Fixpoint orientations (es : list (nat * nat)) : list (list (nat * nat)) :=
  match es with
  | [] => [[]]
  | e :: t => let r := orientations t in map (cons e) r ++ map (cons (snd e, fst e)) r
  end.
