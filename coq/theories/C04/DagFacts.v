(* Reflection lemmas between the booleans and the Props of Dag.v, and facts about node removal. *)
From Coq Require Import List Arith Bool Lia.
From PG Require Import Base.ListSet Base.Sx Graph.MGraph C04.Dag.
Import ListNotations.

Lemma has_d_In g a b : has_d g a b = true <-> In (a, b) (D g).
Proof. unfold has_d. apply pmemb_In. Qed.
Lemma has_u_In g a b : has_u g a b = true <-> In (a, b) (U g) \/ In (b, a) (U g).
Proof. unfold has_u. apply smemb_In. Qed.

Lemma padj_Padj g a b : padj g a b = true <-> Padj g a b.
Proof. unfold padj, Padj. rewrite !orb_true_iff, !has_d_In, has_u_In. tauto. Qed.

Lemma Padj_sym g a b : Padj g a b -> Padj g b a.
Proof. unfold Padj. tauto. Qed.

Lemma padj_false g a b : padj g a b = false <-> ~ Padj g a b.
Proof. rewrite <- padj_Padj. destruct (padj g a b); split; congruence. Qed.

Lemma vstrb_Vstr g a c b : vstrb g a c b = true <-> Vstr g a c b.
Proof.
  unfold vstrb, Vstr. rewrite !andb_true_iff, !has_d_In, !negb_true_iff, Nat.eqb_neq, padj_false. tauto.
Qed.

Lemma rm_In v x vs : In v (rm x vs) <-> In v vs /\ v <> x.
Proof. unfold rm. rewrite filter_In, negb_true_iff, Nat.eqb_neq. tauto. Qed.

Lemma filter_len_le {A} (f : A -> bool) l : length (filter f l) <= length l.
Proof. induction l as [|a t IH]; simpl; [lia|]. destruct (f a); simpl; lia. Qed.

Lemma rm_length x vs : In x vs -> length (rm x vs) < length vs.
Proof.
  unfold rm. induction vs as [|a t IH]; simpl; [tauto|]. intros [->|H].
  - rewrite Nat.eqb_refl. simpl. pose proof (filter_len_le (fun a => negb (a =? x)) t). lia.
  - specialize (IH H). destruct (negb (a =? x)); simpl; lia.
Qed.

Lemma list_max_ge (f : nat -> nat) l x : In x l -> f x <= list_max (map f l).
Proof.
  intros H. assert (Hm : list_max (map f l) <= list_max (map f l)) by lia.
  apply list_max_le in Hm. rewrite Forall_forall in Hm. apply Hm. apply in_map. exact H.
Qed.

Lemma argmax_exists (f : nat -> nat) l : l <> [] -> exists x, In x l /\ forall y, In y l -> f y <= f x.
Proof.
  induction l as [|a t IH]; [congruence|]. intros _. destruct t as [|b t'].
  - exists a. split; [left; reflexivity|]. intros y [<-|[]]. lia.
  - destruct IH as [x [Hx Hm]]; [congruence|].
    destruct (le_lt_dec (f a) (f x)) as [Hle|Hlt].
    + exists x. split; [right; exact Hx|]. intros y [<-|Hy]; [exact Hle|apply Hm, Hy].
    + exists a. split; [left; reflexivity|]. intros y [<-|Hy]; [lia|]. specialize (Hm y Hy). lia.
Qed.

Lemma edges_in_nil l : edges_in [] l -> l = [].
Proof. destruct l as [|[a b] t]; [reflexivity|]. intros H. destruct (H a b) as [[] _]. left; reflexivity. Qed.

Lemma pedges_ok_spec vs l : pedges_ok vs l = true <-> edges_in vs l.
Proof.
  unfold pedges_ok, edges_in. rewrite forallb_forall. split.
  - intros H a b Hab. apply H in Hab. simpl in Hab.
    rewrite !andb_true_iff, !memb_In, negb_true_iff, Nat.eqb_neq in Hab. tauto.
  - intros H [a b] Hab. apply H in Hab. simpl.
    rewrite !andb_true_iff, !memb_In, negb_true_iff, Nat.eqb_neq. tauto.
Qed.

Lemma wf_pdagb_spec p : wf_pdagb p = true -> wf_pdag p.
Proof.
  unfold wf_pdagb, wf_pdag. rewrite !andb_true_iff, !pedges_ok_spec, forallb_forall.
  intros [[H1 H2] H3]. split; [exact H1|split; [exact H2|]]. split.
  - intros a b H Hba. specialize (H3 _ H). simpl in H3. apply andb_true_iff in H3. destruct H3 as [H3 _].
    apply negb_true_iff, pmemb_false in H3. contradiction.
  - intros a b H. specialize (H3 _ H). simpl in H3. apply andb_true_iff in H3. destruct H3 as [_ H3].
    apply negb_true_iff in H3. split; intros Hu; assert (smemb a b (U p) = true) by (apply smemb_In; tauto); congruence.
Qed.

