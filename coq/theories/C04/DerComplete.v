(* C04, UNBOUNDED: the edges labelled compelled by the model are EXACTLY the Der-derivable ones (v-structure edges closed
   under the four orientation rules relative to d).  Chickering2 gives "compelled => Der"; here "Der => compelled":
   a per-node description [T] of the final labelling is a loop invariant, and from it the set of compelled edges is closed
   under every rule (strong induction along the node order). *)
From Coq Require Import List Arith Bool Lia.
From PG Require Import Base.ListSet Base.Sx Graph.MGraph C04.Dag C04.DagFacts C04.Model C04.Spec C04.Proofs C04.Structure
  C04.VStruct C04.Chickering C04.Chickering2.
Import ListNotations.

Section DC.
Variable d : mgraph.
Variable ord : list nat.
Hypothesis Hd : is_dag d.
Hypothesis Ht : topo d ord.

Let order := order_model d ord.
Let E := D d.
Definition pos (a : nat) : nat := index_of a ord.

Lemma pos_edge a b : In (a, b) E -> pos a < pos b.
Proof. destruct Ht as (_ & _ & H). apply H. Qed.

Lemma edge_V a b : In (a, b) E -> In a (V d) /\ In b (V d) /\ a <> b.
Proof. destruct Hd as (H & _). apply H. Qed.

(* everything that points into a node before the chosen target is already labelled *)
Lemma chosen_prefix_done st x y : last_unknown st order = Some (x, y) ->
  forall u v, In (u, v) E -> pos v < pos y -> is_unknown st (u, v) = false.
Proof.
  intros Hl u v Huv Hlt. destruct Ht as (Hnd & [Hs1 Hs2] & Hidx).
  pose proof (last_unknown_some _ _ _ Hl) as [Ho Hu]. apply order_model_In in Ho. destruct Ho as (Hx & Hy & Hxy).
  unfold last_unknown, order, order_model in Hl. rewrite rev_flat_map, rev_involutive in Hl.
  destruct (in_split _ _ Hy) as [l1 [l2 Hord]].
  assert (Hny : ~ In y l1). { rewrite Hord in Hnd. apply NoDup_remove_2 in Hnd. intros H. apply Hnd. apply in_or_app. left; exact H. }
  assert (Hv1 : In v l1). { apply (index_lt_in v y l1 l2 Hny). rewrite <- Hord. exact Hlt. }
  set (h := fun x0 => rev (in_edges_ord d ord x0)) in *.
  rewrite Hord, flat_map_app, find_app in Hl.
  destruct (find (is_unknown st) (flat_map h l1)) as [e|] eqn:Ef.
  - exfalso. injection Hl as ->. apply find_some in Ef. destruct Ef as [Ef _]. apply in_flat_map in Ef.
    destruct Ef as [y' [Hy' Hin]]. unfold h in Hin. apply in_rev in Hin. unfold in_edges_ord in Hin. apply in_map_iff in Hin.
    destruct Hin as [x' [Eq _]]. inversion Eq; subst. contradiction.
  - apply (find_none _ _ Ef). apply in_flat_map. exists v. split; [exact Hv1|]. unfold h. apply -> in_rev.
    unfold in_edges_ord. apply in_map_iff. exists u. split; [reflexivity|]. apply filter_In. split.
    + apply edge_V in Huv. apply Hs2. tauto.
    + apply has_d_In. exact Huv.
Qed.

Definition latest (x y : nat) : Prop := In (x, y) E /\ forall z, In (z, y) E -> z <> x -> pos z < pos x.

Lemma latest_unique x x' y : latest x y -> latest x' y -> x = x'.
Proof.
  intros [H1 H2] [H1' H2']. destruct (Nat.eq_dec x x') as [e|n]; [exact e|]. exfalso.
  pose proof (H2 x' H1' (fun e => n (eq_sym e))). pose proof (H2' x H1 n). lia.
Qed.

Lemma latest_adj x y z : latest x y -> In (z, y) E -> z <> x -> Padj d z x -> In (z, x) E.
Proof.
  intros [_ H] Hz Hzx Hadj. apply (adj_dir d Hd) in Hadj. destruct Hadj as [K|K]; [exact K|].
  exfalso. pose proof (H z Hz Hzx). apply pos_edge in K. lia.
Qed.

Definition wsP (st : lst) (x w : nat) : Prop := In (w, x) E /\ is_ce st (w, x) = true.
Definition zexP (x y : nat) : Prop := exists z, In (z, y) E /\ z <> x /\ ~ In (z, x) E.

(* description of the labels of the edges into y, x its latest parent *)
Definition T (st : lst) (y : nat) : Prop := forall x, latest x y ->
  ((exists w, wsP st x w /\ ~ In (w, y) E) -> forall a, In (a, y) E -> is_ce st (a, y) = true) /\
  ((forall w, wsP st x w -> In (w, y) E) ->
     (forall w, wsP st x w -> is_ce st (w, y) = true) /\
     (zexP x y -> forall a, In (a, y) E -> is_ce st (a, y) = true) /\
     (~ zexP x y -> forall a, In (a, y) E -> is_ce st (a, y) = true -> wsP st x a)).

Definition labelled (st : lst) (y : nat) : Prop := exists a, In (a, y) E /\ is_unknown st (a, y) = false.

Definition Prefix (st : lst) : Prop := forall a b a' b', In (a, b) E -> In (a', b') E -> pos b < pos b' ->
  is_unknown st (a', b') = false -> is_unknown st (a, b) = false.

Definition KI (st : lst) : Prop := AON d st /\ Prefix st /\ forall y, labelled st y -> T st y.

Lemma T_ext st st' y : (forall a, is_ce st' (a, y) = is_ce st (a, y)) ->
  (forall x w, latest x y -> is_ce st' (w, x) = is_ce st (w, x)) -> T st y -> T st' y.
Proof.
  intros H1 H2 HT x Hl. destruct (HT x Hl) as [A B].
  assert (Hw : forall w, wsP st' x w <-> wsP st x w) by (intros w; unfold wsP; rewrite (H2 x w Hl); tauto).
  split.
  - intros [w [Hws Hn]] a Ha. rewrite H1. apply A; [|exact Ha]. exists w. split; [apply Hw, Hws|exact Hn].
  - intros Hall. destruct B as (B1 & B2 & B3); [intros w Hws; apply Hall, Hw, Hws|]. split; [|split].
    + intros w Hws. rewrite H1. apply B1, Hw, Hws.
    + intros Hz a Ha. rewrite H1. apply B2; assumption.
    + intros Hz a Ha Hc. rewrite H1 in Hc. apply Hw. apply B3; assumption.
Qed.

Lemma unknown_not_ce st e : is_unknown st e = true -> is_ce st e = false /\ pmemb e (re st) = false.
Proof. unfold is_unknown, is_ce. rewrite andb_true_iff, !negb_true_iff. tauto. Qed.

Lemma step_KI st x y : KI st -> last_unknown st order = Some (x, y) -> KI (label_step d st x y).
Proof.
  intros (HA & HP & HT) Hl.
  pose proof (last_unknown_some _ _ _ Hl) as [Ho Hu]. apply order_model_In in Ho. destruct Ho as (_ & _ & Hxy).
  assert (Hall : forall a, In (a, y) E -> is_unknown st (a, y) = true) by (intros a Ha; rewrite (HA a x y Ha Hxy); exact Hu).
  assert (Hlat : latest x y). { split; [exact Hxy|]. apply (chosen_latest d ord Hd Ht st x y Hl Hall). }
  assert (Hxney : x <> y) by (apply edge_V in Hxy; tauto).
  split; [apply step_aon; exact HA|]. split.
  - (* Prefix *)
    intros a b a' b' Hab Hab' Hlt Hk.
    destruct (Nat.eq_dec b' y) as [->|Hb'].
    + destruct (Nat.eq_dec b y) as [->|Hb]; [lia|].
      destruct (step_other d st x y (a, b) Hb) as [-> _]. apply (chosen_prefix_done st x y Hl a b Hab Hlt).
    + destruct (step_other d st x y (a', b') Hb') as [Eq _]. rewrite Eq in Hk.
      pose proof (HP a b a' b' Hab Hab' Hlt Hk) as Hk2.
      destruct (is_unknown (label_step d st x y) (a, b)) eqn:Eu; [|reflexivity].
      apply label_step_mono in Eu. congruence.
  - intros y' [a [Ha Hk]]. destruct (Nat.eq_dec y' y) as [->|Hy'].
    + (* the node just processed *)
      intros x0 Hl0. rewrite <- (latest_unique x x0 y Hlat Hl0). clear x0 Hl0.
      assert (Hws : forall w, wsP (label_step d st x y) x w <-> wsP st x w).
      { intros w. unfold wsP. destruct (step_other d st x y (w, x) Hxney) as [_ ->]. tauto. }
      set (wl := filter (fun w => is_ce st (w, x)) (parents d x)).
      assert (Hwl : forall w, In w wl <-> wsP st x w).
      { intros w. unfold wl, wsP. rewrite filter_In, parents_In, has_d_In. split; [tauto|].
        intros [H1 H2]. split; [split; [apply edge_V in H1; tauto|exact H1]|exact H2]. }
      assert (Hzb : existsb (fun z => negb (z =? x) && negb (has_d d z x)) (parents d y) = true <-> zexP x y).
      { rewrite existsb_exists. unfold zexP. split.
        - intros [z [Hz Hc]]. apply parents_In in Hz. destruct Hz as [_ Hz]. apply has_d_In in Hz.
          rewrite andb_true_iff, !negb_true_iff, Nat.eqb_neq in Hc. destruct Hc as [Hc1 Hc2].
          exists z. split; [exact Hz|]. split; [exact Hc1|]. intros H. apply has_d_In in H. congruence.
        - intros [z (Hz & Hzx & Hn)]. exists z. split; [apply parents_In; split; [apply edge_V in Hz; tauto|apply has_d_In; exact Hz]|].
          rewrite andb_true_iff, !negb_true_iff, Nat.eqb_neq. split; [exact Hzx|].
          destruct (has_d d z x) eqn:Eh; [apply has_d_In in Eh; contradiction|reflexivity]. }
      set (st1 := add_ce (map (fun w => (w, y)) wl) st).
      set (zb := existsb (fun z => negb (z =? x) && negb (has_d d z x)) (parents d y)) in *.
      set (unk := filter (is_unknown st1) (in_edges d y)).
      assert (Est : label_step d st x y =
                    if existsb (fun w => negb (has_d d w y)) wl then add_ce (in_edges d y) st
                    else if zb then add_ce unk st1 else add_re unk st1) by reflexivity.
      set (st' := label_step d st x y) in *.
      destruct (existsb (fun w => negb (has_d d w y)) wl) eqn:E1.
      * apply existsb_exists in E1. destruct E1 as [w0 [Hw0 Hn0]]. apply negb_true_iff in Hn0.
        split.
        -- intros _ a0 Ha0. rewrite Est, is_ce_add_ce. apply orb_true_iff. left. apply pmemb_In, in_edges_In. tauto.
        -- intros Hallw. exfalso. assert (In (w0, y) E) by (apply Hallw, Hws, Hwl, Hw0).
           apply has_d_In in H. congruence.
      * assert (Hallw : forall w, In w wl -> In (w, y) E).
        { intros w Hw. destruct (has_d d w y) eqn:Eh; [apply has_d_In; exact Eh|]. exfalso.
          assert (existsb (fun w => negb (has_d d w y)) wl = true) by (apply existsb_exists; exists w; rewrite Eh; tauto).
          congruence. }
        assert (Hmap : forall a0, pmemb (a0, y) (map (fun w => (w, y)) wl) = true <-> In a0 wl).
        { intros a0. rewrite pmemb_In, in_map_iff. split; [intros [w [Eq Hw]]; inversion Eq; subst; exact Hw|].
          intros Hw. exists a0. tauto. }
        assert (Hce1 : forall a0, In (a0, y) E -> (is_ce st1 (a0, y) = true <-> In a0 wl)).
        { intros a0 Ha0. unfold st1. rewrite is_ce_add_ce, orb_true_iff, Hmap.
          destruct (unknown_not_ce st (a0, y) (Hall a0 Ha0)) as [Hc _]. rewrite Hc. split; [intros [H|H]; [exact H|discriminate]|tauto]. }
        assert (Hun1 : forall a0, In (a0, y) E -> is_unknown st1 (a0, y) = false -> is_ce st1 (a0, y) = true).
        { intros a0 Ha0 Hk1. unfold is_unknown in Hk1. unfold is_ce.
          destruct (pmemb (a0, y) (ce st1)); [reflexivity|]. simpl in Hk1.
          destruct (unknown_not_ce st (a0, y) (Hall a0 Ha0)) as [_ Hr]. unfold st1, add_ce in Hk1. simpl in Hk1.
          rewrite Hr in Hk1. discriminate. }
        split; [intros [w [Hw Hn]]; exfalso; apply Hn, Hallw, Hwl, Hws, Hw|].
        intros _.
        destruct zb eqn:E2.
        -- assert (Hz : zexP x y) by (apply Hzb; reflexivity). split; [|split].
           ++ intros w Hw. apply Hws in Hw. rewrite Est, is_ce_add_ce. apply orb_true_iff. right.
              apply Hce1; [apply Hallw, Hwl, Hw|apply Hwl, Hw].
           ++ intros _ a0 Ha0. rewrite Est, is_ce_add_ce. destruct (is_unknown st1 (a0, y)) eqn:Eu.
              ** apply orb_true_iff. left. apply pmemb_In, filter_In. split; [apply in_edges_In; tauto|exact Eu].
              ** apply orb_true_iff. right. apply Hun1; assumption.
           ++ intros Hn. contradiction.
        -- assert (Hz : ~ zexP x y) by (intros H; apply Hzb in H; congruence). split; [|split].
           ++ intros w Hw. apply Hws in Hw. rewrite Est, is_ce_add_re. apply Hce1; [apply Hallw, Hwl, Hw|apply Hwl, Hw].
           ++ intros H. contradiction.
           ++ intros _ a0 Ha0 Hc. rewrite Est, is_ce_add_re in Hc. apply Hws, Hwl. apply Hce1; assumption.
    + (* a node labelled earlier: nothing it depends on is touched *)
      assert (Hk' : is_unknown st (a, y') = false) by (destruct (step_other d st x y (a, y') Hy') as [<- _]; exact Hk).
      assert (Hlab : labelled st y') by (exists a; tauto).
      apply (T_ext st); [|  |apply HT, Hlab].
      * intros a0. destruct (step_other d st x y (a0, y') Hy') as [_ Eq]. exact Eq.
      * intros x0 w [Hx0 _]. assert (Hx0y : x0 <> y).
        { intros ->. pose proof (pos_edge _ _ Hx0) as Hlt. pose proof (HP x y a y' Hxy Ha Hlt Hk'). congruence. }
        destruct (step_other d st x y (w, x0) Hx0y) as [_ Eq]. exact Eq.
Qed.

Lemma loop_KI fuel : forall st st', KI st -> label_loop fuel d order st = Some st' -> KI st'.
Proof.
  induction fuel as [|k IH]; intros st st' HK H; simpl in H;
    destruct (last_unknown st order) as [[x y]|] eqn:El; try discriminate; try (inversion H; subst; exact HK).
  apply (IH (label_step d st x y) st'); [apply step_KI; assumption|exact H].
Qed.

Lemma KI_init : KI (MkL [] []).
Proof.
  split; [intros ? ? ? _ _; reflexivity|]. split.
  - intros a b a' b' _ _ _ H. unfold is_unknown in H. simpl in H. discriminate.
  - intros y [a [_ H]]. unfold is_unknown in H. simpl in H. discriminate.
Qed.

(* ---------- the final labelling ---------- *)
Variable st : lst.
Hypothesis Hfin : label_loop (S (length (D d))) d order (MkL [] []) = Some st.

Lemma fin_KI : KI st.
Proof. apply (loop_KI _ _ _ KI_init Hfin). Qed.

Lemma fin_labelled a b : In (a, b) E -> is_unknown st (a, b) = false.
Proof.
  intros H. apply (label_loop_done _ _ _ _ _ Hfin). apply order_model_In.
  destruct Ht as (_ & [_ Hs2] & _). apply edge_V in H as H'. split; [apply Hs2; tauto|split; [apply Hs2; tauto|exact H]].
Qed.

Lemma fin_T a y : In (a, y) E -> T st y.
Proof. intros H. destruct fin_KI as (_ & _ & HT). apply HT. exists a. split; [exact H|apply fin_labelled, H]. Qed.

Lemma index_of_inj (l : list nat) a b : In a l -> In b l -> index_of a l = index_of b l -> a = b.
Proof.
  induction l as [|z t IH]; simpl; [tauto|]. intros Ha Hb H.
  destruct (Nat.eqb a z) eqn:Ea, (Nat.eqb b z) eqn:Eb; try lia.
  - apply Nat.eqb_eq in Ea. apply Nat.eqb_eq in Eb. congruence.
  - apply Nat.eqb_neq in Ea. apply Nat.eqb_neq in Eb. apply IH; [|  |lia].
    + destruct Ha as [Ha|Ha]; [congruence|exact Ha].
    + destruct Hb as [Hb|Hb]; [congruence|exact Hb].
Qed.

Lemma pos_inj a b : In a ord -> In b ord -> pos a = pos b -> a = b.
Proof. apply index_of_inj. Qed.

Lemma in_ord a b : In (a, b) E -> In a ord /\ In b ord.
Proof. intros H. destruct Ht as (_ & [_ Hs2] & _). apply edge_V in H. split; apply Hs2; tauto. Qed.

Lemma latest_exists a y : In (a, y) E -> exists x, latest x y.
Proof.
  intros Ha. assert (Hne : parents d y <> []).
  { intros H. assert (In a (parents d y)) by (apply parents_In; split; [apply edge_V in Ha; tauto|apply has_d_In; exact Ha]).
    rewrite H in H0. destruct H0. }
  destruct (argmax_exists pos (parents d y) Hne) as [x [Hx Hmax]].
  apply parents_In in Hx. destruct Hx as [_ Hx]. apply has_d_In in Hx.
  exists x. split; [exact Hx|]. intros z Hz Hzx.
  assert (Hzp : In z (parents d y)) by (apply parents_In; split; [apply edge_V in Hz; tauto|apply has_d_In; exact Hz]).
  pose proof (Hmax z Hzp) as Hle. destruct (Nat.eq_dec (pos z) (pos x)) as [e|n]; [|lia].
  exfalso. apply Hzx. apply pos_inj; [apply (in_ord z y Hz)|apply (in_ord x y Hx)|exact e].
Qed.

Definition comp (a b : nat) : Prop := In (a, b) E /\ is_ce st (a, b) = true.

(* the two shapes of the labels into b *)
Lemma type_cases a b x : In (a, b) E -> latest x b ->
  (forall a0, In (a0, b) E -> comp a0 b) \/
  ((forall w, comp w x -> In (w, b) E) /\ (forall z, In (z, b) E -> z <> x -> In (z, x) E) /\
   (forall a0, In (a0, b) E -> (comp a0 b <-> comp a0 x))).
Proof.
  intros Ha Hl. destruct (fin_T a b Ha x Hl) as [A B].
  set (wl := filter (fun w => is_ce st (w, x)) (parents d x)).
  assert (Hwl : forall w, In w wl <-> comp w x).
  { intros w. unfold wl, comp. rewrite filter_In, parents_In, has_d_In. split; [tauto|].
    intros [H1 H2]. split; [split; [apply edge_V in H1; tauto|exact H1]|exact H2]. }
  destruct (existsb (fun w => negb (has_d d w b)) wl) eqn:E1.
  - left. intros a0 Ha0. split; [exact Ha0|]. apply A; [|exact Ha0].
    apply existsb_exists in E1. destruct E1 as [w [Hw Hn]]. exists w. split; [apply Hwl, Hw|].
    apply negb_true_iff in Hn. intros H. apply has_d_In in H. congruence.
  - assert (Hall : forall w, comp w x -> In (w, b) E).
    { intros w Hw. destruct (has_d d w b) eqn:Eh; [apply has_d_In; exact Eh|]. exfalso.
      assert (existsb (fun w => negb (has_d d w b)) wl = true) by (apply existsb_exists; exists w; rewrite Eh; split; [apply Hwl, Hw|reflexivity]).
      congruence. }
    destruct (B Hall) as (B1 & B2 & B3).
    destruct (existsb (fun z => negb (z =? x) && negb (has_d d z x)) (parents d b)) eqn:E2.
    + left. intros a0 Ha0. split; [exact Ha0|]. apply B2; [|exact Ha0].
      apply existsb_exists in E2. destruct E2 as [z [Hz Hc]]. apply parents_In in Hz. destruct Hz as [_ Hz]. apply has_d_In in Hz.
      rewrite andb_true_iff, !negb_true_iff, Nat.eqb_neq in Hc. destruct Hc as [Hc1 Hc2].
      exists z. split; [exact Hz|]. split; [exact Hc1|]. intros H. apply has_d_In in H. congruence.
    + right. assert (Hnz : ~ zexP x b).
      { intros [z (Hz & Hzx & Hn)].
        assert (existsb (fun z => negb (z =? x) && negb (has_d d z x)) (parents d b) = true).
        { apply existsb_exists. exists z. split; [apply parents_In; split; [apply edge_V in Hz; tauto|apply has_d_In; exact Hz]|].
          rewrite andb_true_iff, !negb_true_iff, Nat.eqb_neq. split; [exact Hzx|].
          destruct (has_d d z x) eqn:Eh; [apply has_d_In in Eh; contradiction|reflexivity]. }
        congruence. }
      split; [exact Hall|]. split.
      * intros z Hz Hzx. destruct (has_d d z x) eqn:Eh; [apply has_d_In; exact Eh|]. exfalso. apply Hnz.
        exists z. split; [exact Hz|]. split; [exact Hzx|]. intros H. apply has_d_In in H. congruence.
      * intros a0 Ha0. split.
        -- intros [_ Hc]. apply (B3 Hnz a0 Ha0 Hc).
        -- intros Hw. split; [exact Ha0|]. apply B1, Hw.
Qed.

Definition Closed (b : nat) : Prop :=
  (forall c r, comp c r -> In (r, b) E -> In (c, b) E -> comp c b) /\
  (forall c a, comp c a -> In (a, b) E -> ~ Padj d c b -> comp a b) /\
  (forall a c, comp a c -> comp c b -> In (a, b) E -> comp a b) /\
  (forall a c e, Padj d a c -> Padj d a e -> comp c b -> comp e b -> ~ Padj d c e -> c <> e -> In (a, b) E ->
                 ~ (In (c, a) E /\ In (e, a) E) -> comp a b) /\
  (forall a c e, Padj d a c -> comp c e -> comp e b -> ~ Padj d c b -> Padj d a e -> In (a, b) E -> comp a b).

Lemma closed_step b : (forall b', pos b' < pos b -> Closed b') -> Closed b.
Proof.
  intros IH. unfold Closed. split; [|split; [|split; [|split]]].
  - (* LD *)
    intros c r Hcr Hrb Hcb. destruct (latest_exists c b Hcb) as [x Hl].
    destruct (type_cases c b x Hcb Hl) as [All|(Hws & Hnz & Hiff)]; [apply All, Hcb|].
    apply (Hiff c Hcb). pose proof (pos_edge x b (proj1 Hl)) as Hpx. destruct (IH x Hpx) as (LD & _).
    destruct (Nat.eq_dec r x) as [->|Hrx]; [exact Hcr|].
    pose proof (Hnz r Hrb Hrx) as Erx.
    assert (Hcx : c <> x). { intros ->. apply (no2 d Hd x r (proj1 Hcr) Erx). }
    apply (LD c r Hcr Erx (Hnz c Hcb Hcx)).
  - (* C1 *)
    intros c a Hca Hab Hn. destruct (latest_exists a b Hab) as [x Hl].
    destruct (type_cases a b x Hab Hl) as [All|(Hws & Hnz & Hiff)]; [apply All, Hab|].
    apply (Hiff a Hab). pose proof (pos_edge x b (proj1 Hl)) as Hpx. destruct (IH x Hpx) as (LD & C1 & _).
    destruct (Nat.eq_dec a x) as [->|Hax]; [exfalso; apply Hn; left; apply Hws, Hca|].
    pose proof (Hnz a Hab Hax) as Eax.
    destruct (padj_dec d c x) as [Hadj|Hnadj].
    + exfalso. apply Hn. left. apply Hws. apply (LD c a Hca Eax). apply (tri d Hd c a x (proj1 Hca) Eax Hadj).
    + apply (C1 c a Hca Eax Hnadj).
  - (* C2 *)
    intros a c Hac Hcb Hab. destruct (latest_exists a b Hab) as [x Hl].
    destruct (type_cases a b x Hab Hl) as [All|(Hws & Hnz & Hiff)]; [apply All, Hab|].
    apply (Hiff a Hab). pose proof (pos_edge x b (proj1 Hl)) as Hpx. destruct (IH x Hpx) as (_ & _ & C2 & _).
    pose proof (proj1 (Hiff c (proj1 Hcb)) Hcb) as Hcx.
    assert (Hax : a <> x). { intros ->. apply (no2 d Hd x c (proj1 Hac) (proj1 Hcx)). }
    apply (C2 a c Hac Hcx (Hnz a Hab Hax)).
  - (* C3 *)
    intros a c e Hadc Hade Hcb Heb Hn Hne Hab Hside. destruct (latest_exists a b Hab) as [x Hl].
    destruct (type_cases a b x Hab Hl) as [All|(Hws & Hnz & Hiff)]; [apply All, Hab|].
    apply (Hiff a Hab). pose proof (pos_edge x b (proj1 Hl)) as Hpx. destruct (IH x Hpx) as (_ & _ & _ & C3 & _).
    pose proof (proj1 (Hiff c (proj1 Hcb)) Hcb) as Hcx. pose proof (proj1 (Hiff e (proj1 Heb)) Heb) as Hex.
    destruct (Nat.eq_dec a x) as [->|Hax]; [exfalso; apply Hside; split; [apply Hcx|apply Hex]|].
    apply (C3 a c e Hadc Hade Hcx Hex Hn Hne (Hnz a Hab Hax) Hside).
  - (* C4 *)
    intros a c e Hadc Hce Heb Hn Hade Hab. destruct (latest_exists a b Hab) as [x Hl].
    destruct (type_cases a b x Hab Hl) as [All|(Hws & Hnz & Hiff)]; [apply All, Hab|].
    apply (Hiff a Hab). pose proof (pos_edge x b (proj1 Hl)) as Hpx. destruct (IH x Hpx) as (LD & _ & _ & _ & C4).
    pose proof (proj1 (Hiff e (proj1 Heb)) Heb) as Hex.
    destruct (padj_dec d c x) as [Hadj|Hnadj].
    + exfalso. apply Hn. left. apply Hws. apply (LD c e Hce (proj1 Hex)). apply (tri d Hd c e x (proj1 Hce) (proj1 Hex) Hadj).
    + destruct (Nat.eq_dec a x) as [->|Hax]; [exfalso; apply Hnadj, Padj_sym, Hadc|].
      apply (C4 a c e Hadc Hce Hex Hnadj Hade (Hnz a Hab Hax)).
Qed.

Lemma closed_all n : forall b, pos b < n -> Closed b.
Proof.
  induction n as [|n IH]; intros b Hb; [lia|]. apply closed_step. intros b' Hb'. apply IH. lia.
Qed.

Lemma closed b : Closed b.
Proof. apply (closed_all (S (pos b))). lia. Qed.

Lemma fin_Inv : Inv d st.
Proof.
  apply (loop_inv d ord Hd Ht (S (length (D d))) (MkL [] []) st); [|intros ? ? ? _ _; reflexivity|exact Hfin].
  intros ? ? ? _ Hk. unfold is_unknown in Hk. simpl in Hk. discriminate.
Qed.

Theorem Der_comp a b : Der d a b -> comp a b.
Proof.
  intros H. induction H as [a b c Hv|c a b Hca IH Hab Hn|a c b Hac IH1 Hcb IH2 Hab
                           |a b c e Hac Hae Hcb IH1 Heb IH2 Hn Hne Hab Hside|a b c e Hac Hce IH1 Heb IH2 Hn Hae Hab].
  - pose proof Hv as (Hab & _). split; [exact Hab|]. apply (fin_Inv a b c Hv). apply fin_labelled, Hab.
  - destruct (closed b) as (_ & C1 & _). apply (C1 c a IH Hab Hn).
  - destruct (closed b) as (_ & _ & C2 & _). apply (C2 a c IH1 IH2 Hab).
  - destruct (closed b) as (_ & _ & _ & C3 & _). apply (C3 a c e Hac Hae IH1 IH2 Hn Hne Hab Hside).
  - destruct (closed b) as (_ & _ & _ & _ & C4). apply (C4 a c e Hac IH1 IH2 Hn Hae Hab).
Qed.
End DC.

(* the labelling computes exactly the rule closure *)
Theorem cpdag_compelled_iff_der_thm : forall d ord vs c r, is_dag d -> topo d ord -> cpdag_model d ord = Some (vs, c, r) ->
  forall a b, In (a, b) c <-> Der d a b.
Proof.
  intros d ord vs c r Hd Ht H a b. unfold cpdag_model, label_model in H.
  destruct (label_loop (S (length (D d))) d (order_model d ord) (MkL [] [])) as [st|] eqn:El; [|discriminate].
  inversion H; subst. rewrite filter_In. split.
  - intros [_ Hce].
    apply (loop_inv2 d ord Hd Ht (S (length (D d))) (MkL [] []) st); [|intros ? ? ? _ _; reflexivity|exact El|exact Hce].
    intros ? ? Hk. unfold is_ce in Hk. simpl in Hk. discriminate.
  - intros HD. destruct (Der_comp d ord Hd Ht st El a b HD) as [H1 H2]. split; assumption.
Qed.
