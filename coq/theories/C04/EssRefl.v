(* The brute-force oracle reflects the definition: essential_dec d a b = true <-> a->b is in every DAG
   Markov equivalent to d (the enumeration of all orientations of the skeleton is complete). *)
From Coq Require Import List Arith Bool Lia.
From PG Require Import Base.ListSet Base.Sx Graph.MGraph C04.Dag C04.DagFacts C04.Acyc C04.Refl C04.Model.
Import ListNotations.

Definition swap (e : nat * nat) : nat * nat := (snd e, fst e).

Lemma orientations_skel es : forall o, In o (orientations es) ->
  (forall a b, In (a, b) o -> In (a, b) es \/ In (b, a) es) /\
  (forall a b, In (a, b) es -> In (a, b) o \/ In (b, a) o).
Proof.
  induction es as [|[u v] t IH]; intros o Ho; simpl in Ho.
  - destruct Ho as [<-|[]]. split; intros a b [].
  - apply in_app_or in Ho. destruct Ho as [Ho|Ho]; apply in_map_iff in Ho; destruct Ho as [o' [<- Ho']];
      destruct (IH o' Ho') as [H1 H2]; split; intros a b [E|H]; simpl in *;
      try (inversion E; subst; tauto);
      try (apply H1 in H; tauto); try (apply H2 in H; tauto).
Qed.

Lemma orientations_choice (ch : nat * nat -> bool) es :
  In (map (fun e => if ch e then e else swap e) es) (orientations es).
Proof.
  induction es as [|e t IH]; simpl; [left; reflexivity|]. apply in_or_app.
  destruct (ch e); [left|right]; apply in_map; exact IH.
Qed.

Section Ess.
Variable d : mgraph.
Hypothesis Hd : is_dag d.

Lemma class_member_dag es : In es (meq_class d) -> is_dag (mkd (V d) es) /\ meq d (mkd (V d) es).
Proof.
  unfold meq_class. rewrite filter_In, andb_true_iff. intros (Ho & Hac & Hvs).
  destruct (orientations_skel _ _ Ho) as [S1 S2].
  pose proof Hd as (E & HB & HU & HC & Hacy).
  assert (Hdag' : is_dag (mkd (V d) es)).
  { unfold is_dag. simpl. split; [|repeat split; try reflexivity].
    - intros a b H. apply S1 in H. destruct H as [H|H]; apply E in H; intuition.
    - apply acycb_sound; [exact Hac|]. simpl. intros a b H. apply S1 in H. destruct H as [H|H]; apply E in H; intuition. }
  split; [exact Hdag'|].
  assert (Hsk : forall a b, Padj d a b <-> Padj (mkd (V d) es) a b).
  { intros a b. unfold Padj. simpl. rewrite HU. split.
    - intros [H|[H|[[]|[]]]]; apply S2 in H; tauto.
    - intros [H|[H|[[]|[]]]]; apply S1 in H; tauto. }
  unfold meq. split; [split; apply incl_refl|]. split; [exact Hsk|].
  apply (same_vstr_spec (V d)); [apply dag_ends; [exact Hd|apply incl_refl]|apply dag_ends; [exact Hdag'|apply incl_refl]|exact Hvs].
Qed.

Lemma class_complete d' : is_dag d' -> meq d d' ->
  exists es, In es (meq_class d) /\ incl es (D d').
Proof.
  intros Hd' (HV & Hsk & Hvs).
  pose proof Hd as (E & HB & HU & HC & Hacy). pose proof Hd' as (E' & HB' & HU' & HC' & [rk Hrk]).
  set (es := map (fun e => if pmemb e (D d') then e else swap e) (D d)).
  assert (Hin : incl es (D d')).
  { intros [a b] H. unfold es in H. apply in_map_iff in H. destruct H as [[u v] [Heq Huv]].
    destruct (pmemb (u, v) (D d')) eqn:Ep.
    - inversion Heq; subst. apply pmemb_In. exact Ep.
    - unfold swap in Heq. simpl in Heq. inversion Heq; subst.
      assert (P : Padj d b a) by (left; exact Huv). apply Hsk in P.
      destruct P as [P|[P|[P|P]]]; try (rewrite HU' in P; destruct P).
      + apply pmemb_In in P. congruence.
      + exact P. }
  assert (Hout : incl (D d') es).
  { intros [a b] H. assert (P : Padj d' a b) by (left; exact H). apply Hsk in P.
    destruct P as [P|[P|[P|P]]]; try (rewrite HU in P; destruct P).
    - unfold es. apply in_map_iff. exists (a, b). split; [|exact P].
      apply pmemb_In in H. rewrite H. reflexivity.
    - unfold es. apply in_map_iff. exists (b, a). split; [|exact P].
      destruct (pmemb (b, a) (D d')) eqn:Ep; [|reflexivity].
      apply pmemb_In in Ep. pose proof (Hrk _ _ Ep). pose proof (Hrk _ _ H). lia. }
  exists es. split; [|exact Hin].
  unfold meq_class. apply filter_In. split; [apply orientations_choice|].
  assert (Hdag2 : is_dag (mkd (V d) es)).
  { unfold is_dag. simpl. split; [|repeat split; try reflexivity].
    - intros a b H. apply Hin in H. apply E' in H. destruct HV as [_ HV2]. split; [apply HV2; tauto|split; [apply HV2; tauto|tauto]].
    - exists rk. simpl. intros a b H. apply Hrk. apply Hin. exact H. }
  apply andb_true_iff. split.
  - apply acycb_complete. destruct Hdag2 as (_ & _ & _ & _ & H). exact H.
  - apply (same_vstr_spec (V d)); [apply dag_ends; [exact Hd|apply incl_refl]|apply dag_ends; [exact Hdag2|apply incl_refl]|].
    assert (Hsk2 : forall a b, Padj (mkd (V d) es) a b <-> Padj d' a b).
    { intros a b. unfold Padj. simpl. rewrite HU'. split.
      - intros [H|[H|[[]|[]]]]; apply Hin in H; tauto.
      - intros [H|[H|[[]|[]]]]; apply Hout in H; tauto. }
    intros a c b. rewrite Hvs. unfold Vstr. rewrite Hsk2. simpl. split.
    + intros (H1 & H2 & H3 & H4). repeat split; try assumption; apply Hout; assumption.
    + intros (H1 & H2 & H3 & H4). repeat split; try assumption; apply Hin; assumption.
Qed.

Theorem essential_dec_spec a b : essential_dec d a b = true <-> essential d a b.
Proof.
  unfold essential_dec, essential_edges, essential. rewrite pmemb_In, filter_In, forallb_forall. split.
  - intros [Hab Hall]. split; [exact Hab|]. intros d' Hd' Hm.
    destruct (class_complete d' Hd' Hm) as [es [Hes Hin]]. apply Hin. apply pmemb_In. apply Hall. exact Hes.
  - intros [Hab Hall]. split; [exact Hab|]. intros es Hes. apply pmemb_In.
    destruct (class_member_dag es Hes) as [H1 H2]. apply (Hall _ H1 H2).
Qed.
End Ess.
