(* C04 — Chickering's theorem for the model, ALL sizes: the directed edges of cpdag_model are exactly the essential edges
   (compelled_sound + reversible_reversed), and two DAGs get the same CPDAG iff they are Markov equivalent. *)
From Coq Require Import List Arith Bool Lia.
From PG Require Import Base.ListSet Base.Sx Graph.MGraph C04.Dag C04.DagFacts C04.Model C04.Spec C04.Proofs C04.Structure
  C04.Classify C04.VStruct C04.Chickering C04.Chickering2 C04.DerComplete C04.Reversible.
Import ListNotations.

Theorem cpdag_reversible_not_essential_thm : cpdag_reversible_not_essential_stmt.
Proof.
  intros d ord vs c r Hd Ht H a b Hab Hess. unfold cpdag_model, label_model in H.
  destruct (label_loop (S (length (D d))) d (order_model d ord) (MkL [] [])) as [st|] eqn:El; [|discriminate].
  inversion H; subst. apply filter_In in Hab. destruct Hab as [He Hre].
  assert (Hn : ~ comp d st a b).
  { intros [_ Hc]. unfold is_re in Hre. unfold is_ce in Hc. rewrite Hc in Hre. discriminate. }
  destruct (reversible_reversed d ord Hd Ht st El a b He Hn) as (g & Hg & Hm & Hba).
  destruct Hess as [_ Hall]. pose proof (Hall g Hg Hm) as Hab'.
  destruct Hg as (_ & _ & _ & _ & [rk Hrk]). apply Hrk in Hba. apply Hrk in Hab'. lia.
Qed.

Theorem cpdag_essential_thm : cpdag_essential_stmt.
Proof.
  intros d ord Hd Ht. destruct (cpdag_structure_thm d ord Hd Ht) as (c & r & Hm & _). exists c, r. split; [exact Hm|].
  intros a b. split.
  - apply (compelled_sound d ord Hd Ht _ _ _ Hm).
  - intros Hess. pose proof (proj1 Hess) as He.
    destruct (cpdag_structure_proof d ord _ c r Hm) as (_ & _ & _ & _ & Hcov).
    assert (Hcv : covers d ord).
    { intros x y H. destruct Hd as (E & _). destruct Ht as (_ & [_ Hs] & _). apply E in H. split; apply Hs; tauto. }
    destruct (Hcov Hcv (a, b) He) as [Hc|Hr]; [exact Hc|].
    exfalso. apply (cpdag_reversible_not_essential_thm d ord _ c r Hd Ht Hm a b Hr Hess).
Qed.

(* equal CPDAGs (same nodes, same skeleton, same directed edges) iff Markov equivalent — about the MODEL, all sizes *)
Theorem cpdag_classifies_thm : forall d1 d2 o1 o2, is_dag d1 -> is_dag d2 -> topo d1 o1 -> topo d2 o2 ->
  exists c1 r1 c2 r2, cpdag_model d1 o1 = Some (V d1, c1, r1) /\ cpdag_model d2 o2 = Some (V d2, c2, r2) /\
    (meq d1 d2 <->
     (set_eq (V d1) (V d2) /\ (forall e, In e c1 <-> In e c2) /\
      (forall a b, Padj (mkp (V d1) c1 r1) a b <-> Padj (mkp (V d2) c2 r2) a b))).
Proof.
  intros d1 d2 o1 o2 H1 H2 T1 T2.
  destruct (cpdag_essential_thm d1 o1 H1 T1) as (c1 & r1 & M1 & E1).
  destruct (cpdag_essential_thm d2 o2 H2 T2) as (c2 & r2 & M2 & E2).
  destruct (cpdag_structure_thm d1 o1 H1 T1) as (c1' & r1' & M1' & _ & _ & _ & S1). rewrite M1 in M1'. inversion M1'; subst c1' r1'.
  destruct (cpdag_structure_thm d2 o2 H2 T2) as (c2' & r2' & M2' & _ & _ & _ & S2). rewrite M2 in M2'. inversion M2'; subst c2' r2'.
  exists c1, r1, c2, r2. split; [exact M1|]. split; [exact M2|].
  rewrite <- (essential_classifies_proof d1 d2 H1 H2). unfold same_essential. split.
  - intros (HV & Hsk & Hes). split; [exact HV|]. split.
    + intros [a b]. rewrite E1, E2. apply Hes.
    + intros a b. rewrite S1, S2. apply Hsk.
  - intros (HV & Hc & Hsk). split; [exact HV|]. split.
    + intros a b. rewrite <- S1, <- S2. apply Hsk.
    + intros a b. rewrite <- E1, <- E2. apply Hc.
Qed.
