(* Table-driven check of "compelled = essential" per skeleton: the acyclic orientations of a skeleton are computed once,
   each with its v-structure signature; the Markov equivalence class of an orientation is the set of orientations with
   the same signature.  [check_skel_spec] proves that this implies the statement with the naive oracle
   [essential_edges] (hence, by EssRefl, with the Prop [essential]). *)
From Coq Require Import List Arith Bool Lia.
From PG Require Import Base.ListSet Base.Sx Graph.MGraph C04.Dag C04.DagFacts C04.Acyc C04.Refl C04.EssRefl C04.Model
  C04.Proofs C04.Bounded_4.
Import ListNotations.

(* ---- signatures ---- *)
Definition triples (vs : list nat) : list (nat * nat * nat) :=
  flat_map (fun a => flat_map (fun c => map (fun b => (a, c, b)) vs) vs) vs.
Definition vstr3 (g : mgraph) (t : nat * nat * nat) : bool := vstrb g (fst (fst t)) (snd (fst t)) (snd t).
Definition sig (vs : list nat) (g : mgraph) : list bool := map (vstr3 g) (triples vs).
Fixpoint bl_eqb (l m : list bool) : bool :=
  match l, m with
  | [], [] => true
  | x :: l', y :: m' => Bool.eqb x y && bl_eqb l' m'
  | _, _ => false
  end.

Lemma forallb_flat_map {A B} (f : B -> bool) (g : A -> list B) l :
  forallb f (flat_map g l) = forallb (fun a => forallb f (g a)) l.
Proof. induction l as [|a t IH]; simpl; [reflexivity|]. rewrite forallb_app, IH. reflexivity. Qed.

Lemma forallb_map {A B} (f : B -> bool) (g : A -> B) l : forallb f (map g l) = forallb (fun a => f (g a)) l.
Proof. induction l as [|a t IH]; simpl; [reflexivity|]. rewrite IH. reflexivity. Qed.

Lemma bl_eqb_map {A} (f g : A -> bool) l : bl_eqb (map f l) (map g l) = forallb (fun x => Bool.eqb (f x) (g x)) l.
Proof. induction l as [|a t IH]; simpl; [reflexivity|]. rewrite IH. reflexivity. Qed.

Lemma forallb_ext' {A} (f g : A -> bool) l : (forall a, f a = g a) -> forallb f l = forallb g l.
Proof. intros H. induction l as [|a t IH]; simpl; [reflexivity|]. rewrite H, IH. reflexivity. Qed.

Lemma sig_same_vstr vs g1 g2 : bl_eqb (sig vs g1) (sig vs g2) = same_vstr vs g1 g2.
Proof.
  unfold sig, same_vstr, all3, triples. rewrite bl_eqb_map, forallb_flat_map.
  apply forallb_ext'. intros a. rewrite forallb_flat_map. apply forallb_ext'. intros c.
  rewrite forallb_map. reflexivity.
Qed.

(* ---- orientations of an orientation ---- *)
Inductive orel : list (nat * nat) -> list (nat * nat) -> Prop :=
| orel_nil : orel [] []
| orel_keep e s o : orel s o -> orel (e :: s) (e :: o)
| orel_swap e s o : orel s o -> orel (e :: s) (swap e :: o).

Lemma orientations_orel s o : In o (orientations s) <-> orel s o.
Proof.
  revert o; induction s as [|e t IH]; intros o; simpl.
  - split; [intros [<-|[]]; constructor|intros H; inversion H; left; reflexivity].
  - rewrite in_app_iff, !in_map_iff. split.
    + intros [[o' [<- H]]|[o' [<- H]]]; apply IH in H; [apply orel_keep|apply (orel_swap e)]; exact H.
    + intros H. inversion H; subst; [left|right]; eexists; (split; [reflexivity|apply IH; assumption]).
Qed.

Lemma swap_swap e : swap (swap e) = e.
Proof. destruct e; reflexivity. Qed.

Lemma orel_trans_iff s o : orel s o -> forall o', orel o o' <-> orel s o'.
Proof.
  intros H. induction H as [|e s o H IH|e s o H IH]; intros o'.
  - tauto.
  - split; intros H'; inversion H'; subst; constructor; apply IH; assumption.
  - split; intros H'; inversion H'; subst.
    + apply orel_swap. apply IH; assumption.
    + rewrite swap_swap. apply orel_keep. apply IH; assumption.
    + rewrite <- (swap_swap e) at 2. apply orel_swap. apply IH; assumption.
    + apply orel_keep. apply IH; assumption.
Qed.

(* ---- the per-skeleton check ---- *)
Definition fwdb (es : list (nat * nat)) (ord : list nat) : bool :=
  forallb (fun e => Nat.ltb (index_of (fst e) ord) (index_of (snd e) ord)) es.

Definition acyc_orients (vs : list nat) (s : list (nat * nat)) : list (list (nat * nat)) :=
  filter (fun o => acycb (mkd vs o)) (orientations s).

Definition check_skel (vs : list nat) (perms : list (list nat)) (s : list (nat * nat)) : bool :=
  let AS := map (fun o => (o, sig vs (mkd vs o))) (acyc_orients vs s) in
  forallb (fun os =>
     let cls := map fst (filter (fun os' => bl_eqb (snd os) (snd os')) AS) in
     let ess := filter (fun e => forallb (fun o' => pmemb e o') cls) (fst os) in
     let d := mkd vs (fst os) in
     forallb (fun ord => if fwdb (fst os) ord       (* [if], not [||]: vm_compute is strict *)
                         then match cpdag_model d ord with
                              | Some (_, c, _) => pseteqb c ess
                              | None => false
                              end
                         else true) perms) AS.

Lemma forallb_set_ext {A} (f : A -> bool) l m : (forall x, In x l <-> In x m) -> forallb f l = forallb f m.
Proof.
  intros H. destruct (forallb f l) eqn:E1, (forallb f m) eqn:E2; try reflexivity.
  - rewrite forallb_forall in E1. assert (forallb f m = true) by (apply forallb_forall; intros x Hx; apply E1, H, Hx). congruence.
  - rewrite forallb_forall in E2. assert (forallb f l = true) by (apply forallb_forall; intros x Hx; apply E2, H, Hx). congruence.
Qed.

Lemma check_skel_spec vs perms s : check_skel vs perms s = true ->
  forall o, In o (acyc_orients vs s) -> forall ord, In ord perms -> fwdb o ord = true ->
  exists vs' c r, cpdag_model (mkd vs o) ord = Some (vs', c, r) /\
                  forall e, In e c <-> In e (essential_edges (mkd vs o)).
Proof.
  unfold check_skel. intros Hc o Ho ord Hord Hf.
  rewrite forallb_forall in Hc.
  specialize (Hc (o, sig vs (mkd vs o))). cbv zeta in Hc. simpl fst in Hc. simpl snd in Hc.
  assert (Hin : In (o, sig vs (mkd vs o)) (map (fun o0 => (o0, sig vs (mkd vs o0))) (acyc_orients vs s))).
  { apply in_map_iff. exists o. split; [reflexivity|exact Ho]. }
  specialize (Hc Hin). rewrite forallb_forall in Hc. specialize (Hc ord Hord). rewrite Hf in Hc.
  destruct (cpdag_model (mkd vs o) ord) as [[[vs' c] r]|]; [|discriminate].
  exists vs', c, r. split; [reflexivity|]. intros e. rewrite (pseteqb_spec _ _ Hc e).
  unfold essential_edges. simpl D. rewrite !filter_In.
  assert (Hcls : forall o', In o' (map fst (filter (fun os' => bl_eqb (sig vs (mkd vs o)) (snd os'))
                                 (map (fun o0 => (o0, sig vs (mkd vs o0))) (acyc_orients vs s))))
                            <-> In o' (meq_class (mkd vs o))).
  { intros o'. unfold meq_class, acyc_orients in *. simpl V. simpl D.
    apply filter_In in Ho. destruct Ho as [Ho _]. apply orientations_orel in Ho.
    rewrite in_map_iff, filter_In, andb_true_iff, orientations_orel, (orel_trans_iff _ _ Ho), <- sig_same_vstr. split.
    - intros [[o1 sg] [E H]]. simpl in E. subst o1. apply filter_In in H. destruct H as [H Hs]. simpl in Hs.
      apply in_map_iff in H. destruct H as [o2 [E H]]. inversion E; subst. apply filter_In in H.
      rewrite orientations_orel in H. tauto.
    - intros (H1 & H2 & H3). exists (o', sig vs (mkd vs o')). split; [reflexivity|]. apply filter_In. split; [|exact H3].
      apply in_map_iff. exists o'. split; [reflexivity|]. apply filter_In. rewrite orientations_orel. tauto. }
  rewrite (forallb_set_ext _ _ _ Hcls). tauto.
Qed.
