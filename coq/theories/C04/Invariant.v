(* cpdag_model depends on the edge LIST of the DAG only through its set of edges:
   two graphs with the same node list and set-equal edge lists get set-equal results (same node order). *)
From Coq Require Import List Arith Bool Lia.
From PG Require Import Base.ListSet Base.Sx Graph.MGraph C04.Dag C04.DagFacts C04.Model C04.Proofs.
Import ListNotations.

Definition peq (l m : list (nat * nat)) : Prop := forall e, In e l <-> In e m.
Definition geq (d d' : mgraph) : Prop := V d = V d' /\ peq (D d) (D d').
Definition st_eq (s s' : lst) : Prop := peq (ce s) (ce s') /\ peq (re s) (re s').

Lemma pmemb_peq l m x : peq l m -> pmemb x l = pmemb x m.
Proof.
  intros H. destruct (pmemb x l) eqn:E1, (pmemb x m) eqn:E2; try reflexivity.
  - apply pmemb_In in E1. apply H in E1. apply pmemb_In in E1. congruence.
  - apply pmemb_In in E2. apply H in E2. apply pmemb_In in E2. congruence.
Qed.

Lemma filter_ext' {A} (f g : A -> bool) l : (forall a, f a = g a) -> filter f l = filter g l.
Proof. intros H. induction l as [|a t IH]; simpl; [reflexivity|]. rewrite H, IH. reflexivity. Qed.
Lemma find_ext' {A} (f g : A -> bool) l : (forall a, f a = g a) -> find f l = find g l.
Proof. intros H. induction l as [|a t IH]; simpl; [reflexivity|]. rewrite H, IH. reflexivity. Qed.
Lemma existsb_ext' {A} (f g : A -> bool) l : (forall a, f a = g a) -> existsb f l = existsb g l.
Proof. intros H. induction l as [|a t IH]; simpl; [reflexivity|]. rewrite H, IH. reflexivity. Qed.

Lemma peq_filter (f g : nat * nat -> bool) l m : (forall a, f a = g a) -> peq l m -> peq (filter f l) (filter g m).
Proof. intros H Hp e. rewrite !filter_In, H, (Hp e). tauto. Qed.

Lemma peq_app l l' m m' : peq l l' -> peq m m' -> peq (l ++ m) (l' ++ m').
Proof. intros H1 H2 e. rewrite !in_app_iff, (H1 e), (H2 e). tauto. Qed.

Section Inv.
Variables d d' : mgraph.
Hypothesis Hg : geq d d'.

Lemma has_d_geq a b : has_d d a b = has_d d' a b.
Proof. unfold has_d. apply pmemb_peq. apply Hg. Qed.

Lemma parents_geq x : parents d x = parents d' x.
Proof. unfold parents. destruct Hg as [-> _]. apply filter_ext'. intros a. apply has_d_geq. Qed.

Lemma order_model_geq ord : order_model d ord = order_model d' ord.
Proof.
  unfold order_model, in_edges_ord. induction (rev ord) as [|y t IH]; simpl; [reflexivity|].
  rewrite IH. f_equal. f_equal. apply filter_ext'. intros a. apply has_d_geq.
Qed.

Lemma in_edges_geq y : peq (in_edges d y) (in_edges d' y).
Proof. unfold in_edges. apply peq_filter; [reflexivity|apply Hg]. Qed.

Lemma is_unknown_eq s s' e : st_eq s s' -> is_unknown s e = is_unknown s' e.
Proof. intros [H1 H2]. unfold is_unknown. rewrite (pmemb_peq _ _ e H1), (pmemb_peq _ _ e H2). reflexivity. Qed.
Lemma is_ce_eq s s' e : st_eq s s' -> is_ce s e = is_ce s' e.
Proof. intros [H1 _]. unfold is_ce. apply pmemb_peq, H1. Qed.
Lemma is_re_eq s s' e : st_eq s s' -> is_re s e = is_re s' e.
Proof. intros [H1 H2]. unfold is_re. rewrite (pmemb_peq _ _ e H1), (pmemb_peq _ _ e H2). reflexivity. Qed.

Lemma add_ce_eq l l' s s' : peq l l' -> st_eq s s' -> st_eq (add_ce l s) (add_ce l' s').
Proof. intros Hl [H1 H2]. split; simpl; [apply peq_app; assumption|exact H2]. Qed.
Lemma add_re_eq l l' s s' : peq l l' -> st_eq s s' -> st_eq (add_re l s) (add_re l' s').
Proof. intros Hl [H1 H2]. split; simpl; [exact H1|apply peq_app; assumption]. Qed.

Lemma label_step_eq s s' x y : st_eq s s' -> st_eq (label_step d s x y) (label_step d' s' x y).
Proof.
  intros Hs. unfold label_step. rewrite <- parents_geq, <- (parents_geq y).
  rewrite (filter_ext' (fun w => is_ce s (w, x)) (fun w => is_ce s' (w, x)) (parents d x))
    by (intros w; apply is_ce_eq, Hs).
  set (ws := filter (fun w => is_ce s' (w, x)) (parents d x)).
  rewrite (existsb_ext' (fun w => negb (has_d d w y)) (fun w => negb (has_d d' w y)) ws)
    by (intros w; rewrite has_d_geq; reflexivity).
  destruct (existsb (fun w => negb (has_d d' w y)) ws).
  - apply add_ce_eq; [apply in_edges_geq|exact Hs].
  - assert (Hs1 : st_eq (add_ce (map (fun w => (w, y)) ws) s) (add_ce (map (fun w => (w, y)) ws) s'))
      by (apply add_ce_eq; [intros e; tauto|exact Hs]).
    rewrite (existsb_ext' (fun z => negb (z =? x) && negb (has_d d z x)) (fun z => negb (z =? x) && negb (has_d d' z x)) (parents d y))
      by (intros z; rewrite has_d_geq; reflexivity).
    assert (Hu : peq (filter (is_unknown (add_ce (map (fun w => (w, y)) ws) s)) (in_edges d y))
                     (filter (is_unknown (add_ce (map (fun w => (w, y)) ws) s')) (in_edges d' y))).
    { apply peq_filter; [intros e; apply is_unknown_eq, Hs1|apply in_edges_geq]. }
    destruct (existsb _ (parents d y)); [apply add_ce_eq|apply add_re_eq]; assumption.
Qed.

Lemma label_loop_eq fuel : forall order s s', st_eq s s' ->
  match label_loop fuel d order s, label_loop fuel d' order s' with
  | Some r, Some r' => st_eq r r'
  | None, None => True
  | _, _ => False
  end.
Proof.
  induction fuel as [|k IH]; intros order s s' Hs; simpl; unfold last_unknown;
    rewrite (find_ext' (is_unknown s) (is_unknown s') (rev order)) by (intros e; apply is_unknown_eq, Hs).
  - destruct (find (is_unknown s') (rev order)) as [[x y]|]; [exact Logic.I|exact Hs].
  - destruct (find (is_unknown s') (rev order)) as [[x y]|]; [|exact Hs].
    apply IH. apply label_step_eq, Hs.
Qed.
End Inv.

Lemma label_loop_more_fuel f : forall d order s r, label_loop f d order s = Some r ->
  forall f', f <= f' -> label_loop f' d order s = Some r.
Proof.
  induction f as [|k IH]; intros d order s r H f' Hf; simpl in H.
  - destruct (last_unknown s order) as [[x y]|] eqn:E; [discriminate|].
    destruct f'; simpl; rewrite E; exact H.
  - destruct (last_unknown s order) as [[x y]|] eqn:E.
    + destruct f' as [|f']; [lia|]. simpl. rewrite E. apply (IH _ _ _ _ H). lia.
    + destruct f'; simpl; rewrite E; exact H.
Qed.

Theorem cpdag_model_invariant_proof d d' ord vs c r : geq d d' -> cpdag_model d ord = Some (vs, c, r) ->
  exists c' r', cpdag_model d' ord = Some (vs, c', r') /\ peq c c' /\ peq r r'.
Proof.
  intros Hg H. pose proof (cpdag_model_total d' ord) as Ht.
  unfold cpdag_model, label_model in *. rewrite <- (order_model_geq d d' Hg) in *.
  set (order := order_model d ord) in *.
  destruct (label_loop (S (length (D d))) d order (MkL [] [])) as [s|] eqn:E1; [|discriminate].
  destruct (label_loop (S (length (D d'))) d' order (MkL [] [])) as [s'|] eqn:E2; [|congruence].
  inversion H; subst. clear H Ht.
  set (F := S (length (D d)) + S (length (D d'))).
  apply (label_loop_more_fuel _ _ _ _ _) with (f' := F) in E1; [|unfold F; lia].
  apply (label_loop_more_fuel _ _ _ _ _) with (f' := F) in E2; [|unfold F; lia].
  pose proof (label_loop_eq d d' Hg F order (MkL [] []) (MkL [] []) (conj (fun e => iff_refl _) (fun e => iff_refl _))) as Hl.
  rewrite E1, E2 in Hl.
  exists (filter (is_ce s') (D d')), (filter (is_re s') (D d')). destruct Hg as [HV HD]. rewrite HV.
  split; [reflexivity|]. split; apply peq_filter; try exact HD; intros e; [apply is_ce_eq|apply is_re_eq]; exact Hl.
Qed.
