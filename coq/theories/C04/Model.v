(* C04: executable model of dag_to_cpdag (pywhy_graphs/algorithms/cpdag.py: order_edges L24-70,
   label_edges L73-148, dag_to_cpdag L235-263) and the brute-force oracle for "essential edge".
   The node order (nx.topological_sort) is an explicit input [ord].
   Repaired behaviour: the result carries ALL nodes of the DAG (the code builds the CPDAG from edges only). *)
From Coq Require Import List Arith Bool Lia.
From PG Require Import Base.ListSet Base.Sx Graph.MGraph C04.Dag.
Import ListNotations.

(* ---- order_edges.  The loop numbers, in this order: the unordered edge whose target is LATEST in [ord],
   and among those the one whose source is EARLIEST in [ord].  Hence numbers 0,1,2,... are handed out
   target by target from the last node of [ord] to the first, sources ascending: closed form below.
   The list is in increasing "order" attribute. *)
Definition in_edges_ord (d : mgraph) (ord : list nat) (y : nat) : list (nat * nat) :=
  map (fun x => (x, y)) (filter (fun x => has_d d x y) ord).
Definition order_model (d : mgraph) (ord : list nat) : list (nat * nat) :=
  flat_map (in_edges_ord d ord) (rev ord).

(* ---- label_edges.  label = compelled if in [ce], else reversible if in [re], else unknown *)
Record lst := MkL { ce : list (nat * nat); re : list (nat * nat) }.
Definition is_ce (st : lst) (e : nat * nat) : bool := pmemb e (ce st).
Definition is_re (st : lst) (e : nat * nat) : bool := negb (pmemb e (ce st)) && pmemb e (re st).
Definition is_unknown (st : lst) (e : nat * nat) : bool := negb (pmemb e (ce st)) && negb (pmemb e (re st)).
Definition add_ce (l : list (nat * nat)) (st : lst) : lst := MkL (l ++ ce st) (re st).
Definition add_re (l : list (nat * nat)) (st : lst) : lst := MkL (ce st) (l ++ re st).

(* G.in_edges(y) *)
Definition in_edges (d : mgraph) (y : nat) : list (nat * nat) :=
  filter (fun e => Nat.eqb (snd e) y) (D d).

(* unknown edge with the largest order number *)
Definition last_unknown (st : lst) (order : list (nat * nat)) : option (nat * nat) :=
  find (is_unknown st) (rev order).

(* one pass of the body of the while loop for the chosen edge x -> y (L112-147) *)
Definition label_step (d : mgraph) (st : lst) (x y : nat) : lst :=
  let ws := filter (fun w => is_ce st (w, x)) (parents d x) in
  if existsb (fun w => negb (has_d d w y)) ws then
    (* some compelled w -> x without w -> y: every edge into y becomes compelled, loop restarts *)
    add_ce (in_edges d y) st
  else
    let st1 := add_ce (map (fun w => (w, y)) ws) st in
    let zex := existsb (fun z => negb (Nat.eqb z x) && negb (has_d d z x)) (parents d y) in
    let unk := filter (is_unknown st1) (in_edges d y) in
    if zex then add_ce unk st1 else add_re unk st1.

(* None = out of fuel (excluded by label_loop_total in Proofs.v for fuel > |D|) *)
Fixpoint label_loop (fuel : nat) (d : mgraph) (order : list (nat * nat)) (st : lst) : option lst :=
  match last_unknown st order with
  | None => Some st
  | Some (x, y) => match fuel with
                   | 0 => None
                   | S k => label_loop k d order (label_step d st x y)
                   end
  end.

Definition label_model (d : mgraph) (order : list (nat * nat)) : option lst :=
  label_loop (S (length (D d))) d order (MkL [] []).

(* (nodes, compelled = directed edges, reversible = undirected edges, each listed as oriented in d) *)
Definition cpdag_model (d : mgraph) (ord : list nat) : option (list nat * list (nat * nat) * list (nat * nat)) :=
  match label_model d (order_model d ord) with
  | None => None
  | Some st => Some (V d, filter (is_ce st) (D d), filter (is_re st) (D d))
  end.

(* the CPDAG as a mixed graph *)
Definition cpdag_graph (d : mgraph) (ord : list nat) : option mgraph :=
  match cpdag_model d ord with
  | None => None
  | Some (vs, c, r) => Some (mkp vs c r)
  end.

(* ---- oracle: the Markov equivalence class by enumeration of all orientations of the skeleton *)
Definition meq_class (d : mgraph) : list (list (nat * nat)) :=
  filter (fun es => let d' := mkd (V d) es in acycb d' && same_vstr (V d) d d') (orientations (D d)).

Definition essential_edges (d : mgraph) : list (nat * nat) :=
  let cls := meq_class d in
  filter (fun e => forallb (fun es => pmemb e es) cls) (D d).

Definition essential_dec (d : mgraph) (a b : nat) : bool := pmemb (a, b) (essential_edges d).

(* topological order: a duplicate-free list of exactly the nodes, every edge points forward *)
Fixpoint nodupb (l : list nat) : bool :=
  match l with [] => true | x :: t => negb (memb x t) && nodupb t end.
Fixpoint index_of (a : nat) (l : list nat) : nat :=
  match l with [] => 0 | x :: t => if Nat.eqb a x then 0 else S (index_of a t) end.
Definition topob (d : mgraph) (ord : list nat) : bool :=
  nodupb ord && seteqb ord (V d) &&
  forallb (fun e => Nat.ltb (index_of (fst e) ord) (index_of (snd e) ord)) (D d).

(* run_case: L [I mode; graph; ord]
   -> L [I ok; nodes; directed; undirected (normalised pairs); I topo_ok; oracle]
   ok = 1 unless out of fuel; oracle = essential edges by brute force (mode 0 only, else L []);
   a 7th element lists the edges in increasing "order" number (order_model), for the unit-level tie of order_edges *)
Definition run_case (s : sx) : sx :=
  let g := sx_graph (sx_nth s 1) in
  let d := mkd (V g) (D g) in
  let ord := sx_nats (sx_nth s 2) in
  let orc := match sx_nat (sx_nth s 0) with
             | 0 => of_pairs (psort_set (essential_edges d))
             | _ => L []
             end in
  match cpdag_model d ord with
  | None => L [I 0; L []; L []; L []; of_bool (topob d ord); orc; of_pairs (order_model d ord)]
  | Some (vs, c, r) =>
      L [I 1; of_nats (sort_set vs); of_pairs (psort_set c); of_pairs (norm_pairs r); of_bool (topob d ord); orc;
         of_pairs (order_model d ord)]
  end.
