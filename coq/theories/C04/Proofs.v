(* C04: structural theorem about the model of dag_to_cpdag, for every graph and node order (unbounded):
   the labelling loop never runs out of fuel; the result has the DAG's nodes; compelled and reversible edges
   partition the DAG's edge set (so the skeleton is the DAG's) and compelled edges keep the DAG's orientation. *)
From Coq Require Import List Arith Bool Lia.
From PG Require Import Base.ListSet Base.Sx Graph.MGraph C04.Dag C04.DagFacts C04.Model.
Import ListNotations.

Lemma order_model_In d ord a b :
  In (a, b) (order_model d ord) <-> In a ord /\ In b ord /\ In (a, b) (D d).
Proof.
  unfold order_model, in_edges_ord. rewrite in_flat_map. split.
  - intros [y [Hy H]]. apply in_map_iff in H. destruct H as [x [E Hx]]. inversion E; subst.
    apply filter_In in Hx. destruct Hx as [Hx Hd]. apply has_d_In in Hd. apply in_rev in Hy. tauto.
  - intros (Ha & Hb & Hd). exists b. split; [apply in_rev; rewrite rev_involutive; exact Hb|].
    apply in_map_iff. exists a. split; [reflexivity|]. apply filter_In. split; [exact Ha|apply has_d_In; exact Hd].
Qed.

Lemma in_edges_In d y a b : In (a, b) (in_edges d y) <-> In (a, b) (D d) /\ b = y.
Proof. unfold in_edges. rewrite filter_In. simpl. rewrite Nat.eqb_eq. tauto. Qed.

(* labels only ever move away from "unknown" *)
Lemma unknown_add_ce l st e : is_unknown (add_ce l st) e = true -> is_unknown st e = true /\ ~ In e l.
Proof.
  unfold is_unknown, add_ce. simpl. rewrite !andb_true_iff, !negb_true_iff, !pmemb_false, in_app_iff. tauto.
Qed.
Lemma unknown_add_re l st e : is_unknown (add_re l st) e = true -> is_unknown st e = true /\ ~ In e l.
Proof.
  unfold is_unknown, add_re. simpl. rewrite !andb_true_iff, !negb_true_iff, !pmemb_false, in_app_iff. tauto.
Qed.

Lemma label_step_mono d st x y e :
  is_unknown (label_step d st x y) e = true -> is_unknown st e = true.
Proof.
  unfold label_step.
  destruct (existsb _ (filter _ (parents d x))).
  - intros H. apply unknown_add_ce in H. tauto.
  - destruct (existsb _ (parents d y)); intros H.
    + apply unknown_add_ce in H. destruct H as [H _]. apply unknown_add_ce in H. tauto.
    + apply unknown_add_re in H. destruct H as [H _]. apply unknown_add_ce in H. tauto.
Qed.

Lemma label_step_progress d st x y :
  In (x, y) (D d) -> is_unknown (label_step d st x y) (x, y) = false.
Proof.
  intros Hd. destruct (is_unknown (label_step d st x y) (x, y)) eqn:E; [|reflexivity]. exfalso.
  assert (Hin : In (x, y) (in_edges d y)) by (apply in_edges_In; tauto).
  unfold label_step in E.
  destruct (existsb _ (filter _ (parents d x))).
  - apply unknown_add_ce in E. tauto.
  - set (st1 := add_ce _ st) in *.
    destruct (existsb _ (parents d y)).
    + apply unknown_add_ce in E. destruct E as [E1 E2]. apply E2. apply filter_In. tauto.
    + apply unknown_add_re in E. destruct E as [E1 E2]. apply E2. apply filter_In. tauto.
Qed.

Lemma filter_length_lt {A} (f g : A -> bool) l e0 :
  (forall e, g e = true -> f e = true) -> In e0 l -> f e0 = true -> g e0 = false ->
  length (filter g l) < length (filter f l).
Proof.
  intros Hm. induction l as [|a t IH]; simpl; [tauto|]. intros [->|Hin] Hf Hg.
  - rewrite Hf, Hg. simpl.
    assert (length (filter g t) <= length (filter f t)).
    { clear -Hm. induction t as [|b t IH]; simpl; [lia|].
      destruct (g b) eqn:Eg; [rewrite (Hm b Eg); simpl; lia|destruct (f b); simpl; lia]. }
    lia.
  - specialize (IH Hin Hf Hg). destruct (g a) eqn:Eg; [rewrite (Hm a Eg); simpl; lia|destruct (f a); simpl; lia].
Qed.

Definition ucount (d : mgraph) (st : lst) : nat := length (filter (is_unknown st) (D d)).

Lemma last_unknown_some st order e :
  last_unknown st order = Some e -> In e order /\ is_unknown st e = true.
Proof. unfold last_unknown. intros H. apply find_some in H. rewrite <- in_rev in H. exact H. Qed.

Lemma last_unknown_none st order :
  last_unknown st order = None -> forall e, In e order -> is_unknown st e = false.
Proof. unfold last_unknown. intros H e He. apply (find_none _ _ H). rewrite <- in_rev. exact He. Qed.

Lemma label_loop_total fuel : forall d order st, incl order (D d) -> ucount d st < fuel ->
  label_loop fuel d order st <> None.
Proof.
  induction fuel as [|k IH]; intros d order st Hin Hc; [lia|].
  simpl. destruct (last_unknown st order) as [[x y]|] eqn:E; [|discriminate].
  apply last_unknown_some in E. destruct E as [Ho Hu].
  apply IH; [exact Hin|].
  assert (ucount d (label_step d st x y) < ucount d st).
  { unfold ucount. apply filter_length_lt with (e0 := (x, y)).
    - intros e. apply label_step_mono.
    - apply Hin, Ho.
    - exact Hu.
    - apply label_step_progress. apply Hin, Ho. }
  lia.
Qed.

Lemma label_loop_done fuel : forall d order st st', label_loop fuel d order st = Some st' ->
  forall e, In e order -> is_unknown st' e = false.
Proof.
  induction fuel as [|k IH]; intros d order st st' H; simpl in H;
    destruct (last_unknown st order) as [[x y]|] eqn:E; try discriminate.
  - inversion H; subst. apply last_unknown_none. exact E.
  - apply (IH _ _ _ _ H).
  - inversion H; subst. apply last_unknown_none. exact E.
Qed.

Lemma order_model_incl d ord : incl (order_model d ord) (D d).
Proof. intros [a b] H. apply order_model_In in H. tauto. Qed.

(* never out of fuel, whatever the graph and the order *)
Theorem cpdag_model_total d ord : cpdag_model d ord <> None.
Proof.
  unfold cpdag_model, label_model.
  pose proof (label_loop_total (S (length (D d))) d (order_model d ord) (MkL [] []) (order_model_incl d ord)) as H.
  destruct (label_loop _ d _ _); [discriminate|]. exfalso. apply H; [|reflexivity].
  unfold ucount. pose proof (filter_len_le (is_unknown (MkL [] [])) (D d)). lia.
Qed.

(* [ord] lists the endpoints of every edge (true of any topological order of a well-formed DAG) *)
Definition covers (d : mgraph) (ord : list nat) : Prop :=
  forall a b, In (a, b) (D d) -> In a ord /\ In b ord.

Theorem cpdag_structure_proof d ord vs c r :
  cpdag_model d ord = Some (vs, c, r) ->
  vs = V d /\ incl c (D d) /\ incl r (D d) /\ (forall e, In e c -> ~ In e r) /\
  (covers d ord -> forall e, In e (D d) -> In e c \/ In e r).
Proof.
  unfold cpdag_model. destruct (label_model d (order_model d ord)) as [st|] eqn:E; [|discriminate].
  intros H. inversion H; subst. split; [reflexivity|]. split; [|split; [|split]].
  - intros e He. apply filter_In in He. tauto.
  - intros e He. apply filter_In in He. tauto.
  - intros e Hc Hr. apply filter_In in Hc. apply filter_In in Hr. destruct Hc as [_ Hc]. destruct Hr as [_ Hr].
    unfold is_ce in Hc. unfold is_re in Hr. rewrite Hc in Hr. discriminate.
  - intros Hcov [a b] He. unfold label_model in E.
    pose proof (label_loop_done _ _ _ _ _ E (a, b)) as Hk.
    assert (Ho : In (a, b) (order_model d ord)) by (apply order_model_In; destruct (Hcov a b He); tauto).
    specialize (Hk Ho). unfold is_unknown in Hk.
    destruct (pmemb (a, b) (ce st)) eqn:E1.
    + left. apply filter_In. split; [exact He|exact E1].
    + right. apply filter_In. split; [exact He|]. unfold is_re. rewrite E1. simpl in *.
      destruct (pmemb (a, b) (re st)); [reflexivity|discriminate].
Qed.

Lemma topob_covers d ord : edges_in (V d) (D d) -> topob d ord = true -> covers d ord.
Proof.
  intros He Ht a b Hab. unfold topob in Ht. rewrite !andb_true_iff in Ht. destruct Ht as [[_ Hs] _].
  apply seteqb_spec in Hs. destruct Hs as [_ Hs]. apply He in Hab. split; apply Hs; tauto.
Qed.
