(* The boolean witness checkers used by the harness reflect the Props: consistent_extb, meqb. *)
From Coq Require Import List Arith Bool Lia.
From PG Require Import Base.ListSet Base.Sx Graph.MGraph C04.Dag C04.DagFacts C04.Acyc.
Import ListNotations.

Lemma all2_spec vs f : all2 vs f = true <-> forall a b, In a vs -> In b vs -> f a b = true.
Proof.
  unfold all2. rewrite forallb_forall. split.
  - intros H a b Ha Hb. specialize (H a Ha). rewrite forallb_forall in H. apply H, Hb.
  - intros H a Ha. apply forallb_forall. intros b Hb. apply H; assumption.
Qed.

Lemma all3_spec vs f : all3 vs f = true <-> forall a c b, In a vs -> In c vs -> In b vs -> f a c b = true.
Proof.
  unfold all3. rewrite forallb_forall. split.
  - intros H a c b Ha Hc Hb. specialize (H a Ha). rewrite forallb_forall in H. specialize (H c Hc).
    rewrite forallb_forall in H. apply H, Hb.
  - intros H a Ha. apply forallb_forall. intros c Hc. apply forallb_forall. intros b Hb. apply H; assumption.
Qed.

Lemma psubset_incl l m : psubset l m = true <-> incl l m.
Proof.
  unfold psubset, incl. rewrite forallb_forall. split; intros H a Ha; [apply pmemb_In|apply pmemb_In]; auto.
Qed.

Definition ends_in (g : mgraph) (vs : list nat) : Prop :=
  forall a b, Padj g a b -> In a vs /\ In b vs.

Lemma same_skel_spec vs g1 g2 : ends_in g1 vs -> ends_in g2 vs ->
  (same_skel vs g1 g2 = true <-> forall a b, Padj g1 a b <-> Padj g2 a b).
Proof.
  intros E1 E2. unfold same_skel. rewrite all2_spec. split.
  - intros H a b. split; intros Hp.
    + destruct (E1 a b Hp) as [Ha Hb]. specialize (H a b Ha Hb). apply eqb_prop in H.
      apply padj_Padj. rewrite <- H. apply padj_Padj. exact Hp.
    + destruct (E2 a b Hp) as [Ha Hb]. specialize (H a b Ha Hb). apply eqb_prop in H.
      apply padj_Padj. rewrite H. apply padj_Padj. exact Hp.
  - intros H a b _ _.
    destruct (padj g1 a b) eqn:P1, (padj g2 a b) eqn:P2; try reflexivity; exfalso.
    + apply padj_Padj in P1. apply H in P1. apply padj_Padj in P1. congruence.
    + apply padj_Padj in P2. apply H in P2. apply padj_Padj in P2. congruence.
Qed.

Lemma Vstr_ends g vs a c b : ends_in g vs -> Vstr g a c b -> In a vs /\ In c vs /\ In b vs.
Proof.
  intros E (H1 & H2 & _). assert (P1 : Padj g a c) by (left; exact H1). assert (P2 : Padj g b c) by (left; exact H2).
  apply E in P1. apply E in P2. tauto.
Qed.

Lemma same_vstr_spec vs g1 g2 : ends_in g1 vs -> ends_in g2 vs ->
  (same_vstr vs g1 g2 = true <-> forall a c b, Vstr g1 a c b <-> Vstr g2 a c b).
Proof.
  intros E1 E2. unfold same_vstr. rewrite all3_spec. split.
  - intros H a c b. split; intros Hp.
    + destruct (Vstr_ends _ _ _ _ _ E1 Hp) as (Ha & Hc & Hb). specialize (H a c b Ha Hc Hb). apply eqb_prop in H.
      apply vstrb_Vstr. rewrite <- H. apply vstrb_Vstr. exact Hp.
    + destruct (Vstr_ends _ _ _ _ _ E2 Hp) as (Ha & Hc & Hb). specialize (H a c b Ha Hc Hb). apply eqb_prop in H.
      apply vstrb_Vstr. rewrite H. apply vstrb_Vstr. exact Hp.
  - intros H a c b _ _ _.
    destruct (vstrb g1 a c b) eqn:P1, (vstrb g2 a c b) eqn:P2; try reflexivity; exfalso.
    + apply vstrb_Vstr in P1. apply H in P1. apply vstrb_Vstr in P1. congruence.
    + apply vstrb_Vstr in P2. apply H in P2. apply vstrb_Vstr in P2. congruence.
Qed.

Lemma dag_ends d vs : is_dag d -> incl (V d) vs -> ends_in d vs.
Proof.
  intros (E & _ & HU & _) Hi a b [H|[H|[H|H]]]; try (rewrite HU in H; destruct H);
    apply E in H; split; apply Hi; tauto.
Qed.

Lemma pdag_ends p : wf_pdag p -> ends_in p (V p).
Proof. intros (W1 & W2 & _) a b [H|[H|[H|H]]]; [apply W1 in H|apply W1 in H|apply W2 in H|apply W2 in H]; tauto. Qed.

Theorem consistent_extb_spec p d : wf_pdag p -> (consistent_extb p d = true <-> consistent_ext p d).
Proof.
  intros Hwf. unfold consistent_extb, consistent_ext. rewrite !andb_true_iff, is_dagb_spec, seteqb_spec, psubset_incl.
  split.
  - intros ((((Hd & Hv) & Hs) & Hi) & Hvs).
    assert (E1 : ends_in d (V p)) by (apply dag_ends; [exact Hd|apply Hv]).
    pose proof (pdag_ends p Hwf) as E2.
    rewrite (same_skel_spec _ _ _ E1 E2) in Hs. rewrite (same_vstr_spec _ _ _ E1 E2) in Hvs. tauto.
  - intros (Hd & Hv & Hs & Hi & Hvs).
    assert (E1 : ends_in d (V p)) by (apply dag_ends; [exact Hd|apply Hv]).
    pose proof (pdag_ends p Hwf) as E2.
    rewrite (same_skel_spec _ _ _ E1 E2), (same_vstr_spec _ _ _ E1 E2). tauto.
Qed.

Theorem meqb_spec d1 d2 : is_dag d1 -> is_dag d2 -> (meqb d1 d2 = true <-> meq d1 d2).
Proof.
  intros H1 H2. unfold meqb, meq. rewrite !andb_true_iff, seteqb_spec. split.
  - intros ((Hv & Hs) & Hvs).
    assert (E1 : ends_in d1 (V d1)) by (apply dag_ends; [exact H1|apply incl_refl]).
    assert (E2 : ends_in d2 (V d1)) by (apply dag_ends; [exact H2|apply Hv]).
    rewrite (same_skel_spec _ _ _ E1 E2) in Hs. rewrite (same_vstr_spec _ _ _ E1 E2) in Hvs. tauto.
  - intros (Hv & Hs & Hvs).
    assert (E1 : ends_in d1 (V d1)) by (apply dag_ends; [exact H1|apply incl_refl]).
    assert (E2 : ends_in d2 (V d1)) by (apply dag_ends; [exact H2|apply Hv]).
    rewrite (same_skel_spec _ _ _ E1 E2), (same_vstr_spec _ _ _ E1 E2). tauto.
Qed.
