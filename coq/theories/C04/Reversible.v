(* C04, UNBOUNDED — the second half of Chickering's theorem: an edge a -> b of the DAG that is NOT labelled compelled is
   reversed in some Markov-equivalent DAG.
   Route (classical chain-graph argument): the non-compelled edges form an undirected graph U;
   (1) compelled parents are shared across U-edges (cg1: a -> b compelled, b - c in U  =>  a -> c compelled);
   (2) the reverse of the topological order is a perfect elimination ordering of U, so (C08/Chordal.v: peo_last) U has a
       PEO in which b comes last;
   (3) re-orienting U by that PEO ("later -> earlier") and keeping the compelled edges gives a DAG with the same skeleton
       and v-structures, and it contains b -> a.  Acyclicity: rank = (length of the longest compelled chain, PEO index). *)
From Coq Require Import List Arith Bool Lia.
From PG Require Import Base.ListSet Base.Sx Graph.MGraph C04.Dag C04.DagFacts C04.Model C04.Spec C04.Proofs C04.Structure
  C04.VStruct C04.Chickering C04.Chickering2 C04.DerComplete C04.EssRefl C08.Chordal.
Import ListNotations.

Lemma list_max_set (f : nat -> nat) l m : (forall x, In x l <-> In x m) -> list_max (map f l) = list_max (map f m).
Proof.
  intros H. apply Nat.le_antisymm; apply list_max_le; apply Forall_forall; intros y Hy; apply in_map_iff in Hy;
    destruct Hy as [x [<- Hx]]; apply H in Hx; apply list_max_ge; exact Hx.
Qed.

Lemma peo_of_suffixes adj l : (forall pre v t, l = pre ++ v :: t -> simpl_in adj t v) -> is_peo adj l.
Proof.
  induction l as [|v t IH]; intros H; simpl; [exact Logic.I|]. split; [apply (H [] v t); reflexivity|].
  apply IH. intros pre w t' ->. apply (H (v :: pre) w t'). reflexivity.
Qed.

Lemma index_of_lt (l : list nat) v : In v l -> index_of v l < length l.
Proof.
  induction l as [|z t IH]; simpl; [tauto|]. intros H. destruct (Nat.eqb v z) eqn:Ez; [lia|].
  apply Nat.eqb_neq in Ez. destruct H as [H|H]; [congruence|]. specialize (IH H). lia.
Qed.

Section Rev.
Variable d : mgraph.
Variable ord : list nat.
Hypothesis Hd : is_dag d.
Hypothesis Ht : topo d ord.
Variable st : lst.
Hypothesis Hfin : label_loop (S (length (D d))) d (order_model d ord) (MkL [] []) = Some st.

Let E := D d.
Notation cmp := (comp d st).
Notation ps := (pos ord).

Lemma cmp_dec a b : cmp a b \/ ~ cmp a b.
Proof.
  unfold comp. destruct (pmemb (a, b) (D d)) eqn:E1; [|right; intros [H _]; apply pmemb_In in H; congruence].
  destruct (is_ce st (a, b)) eqn:E2; [left; split; [apply pmemb_In; exact E1|reflexivity]|right; intros [_ H]; congruence].
Qed.

Lemma psE a b : In (a, b) E -> ps a < ps b.
Proof. apply (pos_edge d ord Ht). Qed.

(* ---------- (1) compelled parents are shared along non-compelled edges ---------- *)
Lemma cg_in_n n : forall b, ps b < n -> forall a c, cmp a b -> In (c, b) E -> ~ cmp c b -> cmp a c.
Proof.
  induction n as [|n IH]; intros b Hb a c Hab Hcb Hn; [lia|].
  destruct (latest_exists d ord Hd Ht a b (proj1 Hab)) as [x Hl].
  destruct (type_cases d ord Hd Ht st Hfin a b x (proj1 Hab) Hl) as [All|(Hws & Hnz & Hiff)].
  - exfalso. apply Hn, All, Hcb.
  - pose proof (proj1 (Hiff a (proj1 Hab)) Hab) as Hax.
    destruct (Nat.eq_dec c x) as [->|Hcx]; [exact Hax|].
    pose proof (Hnz c Hcb Hcx) as Ecx.
    apply (IH x); [pose proof (psE x b (proj1 Hl)); lia|exact Hax|exact Ecx|].
    intros H. apply Hn. apply (Hiff c Hcb). exact H.
Qed.

Lemma cg_in a b c : cmp a b -> In (c, b) E -> ~ cmp c b -> cmp a c.
Proof. apply (cg_in_n (S (ps b))). lia. Qed.

Lemma cg_out a b c : cmp a b -> In (b, c) E -> ~ cmp b c -> cmp a c.
Proof.
  intros Hab Hbc Hn. destruct (closed d ord Hd Ht st Hfin c) as (LD & C1 & _).
  destruct (padj_dec d a c) as [Hadj|Hnadj].
  - apply (LD a b Hab Hbc). apply (tri d Hd a b c (proj1 Hab) Hbc Hadj).
  - exfalso. apply Hn. apply (C1 a b Hab Hbc Hnadj).
Qed.

Definition urev (a b : nat) : Prop := (In (a, b) E /\ ~ cmp a b) \/ (In (b, a) E /\ ~ cmp b a).
Definition uadj (a b : nat) : bool :=
  (pmemb (a, b) (D d) && negb (is_ce st (a, b))) || (pmemb (b, a) (D d) && negb (is_ce st (b, a))).

Lemma half_spec a b : pmemb (a, b) (D d) && negb (is_ce st (a, b)) = true <-> In (a, b) E /\ ~ cmp a b.
Proof.
  rewrite andb_true_iff, negb_true_iff, pmemb_In. unfold comp. split.
  - intros [H1 H2]. split; [exact H1|]. intros [_ H]. congruence.
  - intros [H1 H2]. split; [exact H1|]. destruct (is_ce st (a, b)); [exfalso; apply H2; tauto|reflexivity].
Qed.

Lemma uadj_spec a b : uadj a b = true <-> urev a b.
Proof. unfold uadj, urev. rewrite orb_true_iff, !half_spec. tauto. Qed.

Lemma uadj_sym a b : uadj a b = uadj b a.
Proof. unfold uadj. apply orb_comm. Qed.

Lemma uadj_irrefl a : uadj a a = false.
Proof.
  destruct (uadj a a) eqn:Eu; [|reflexivity]. apply uadj_spec in Eu. destruct Eu as [[H _]|[H _]]; destruct (irrefl d Hd a H).
Qed.

Lemma urev_sym a b : urev a b -> urev b a.
Proof. unfold urev. tauto. Qed.

Lemma urev_adj a b : urev a b -> Padj d a b.
Proof. intros [[H _]|[H _]]; [left; exact H|right; left; exact H]. Qed.

Lemma cg1 a b c : cmp a b -> urev b c -> cmp a c.
Proof. intros Hab [[H1 H2]|[H1 H2]]; [apply (cg_out a b c Hab H1 H2)|apply (cg_in a b c Hab H1 H2)]. Qed.

Lemma same_par a b c : urev b c -> (cmp a b <-> cmp a c).
Proof. intros H. split; intros Hc; [apply (cg1 a b c Hc H)|apply (cg1 a c b Hc (urev_sym _ _ H))]. Qed.

(* ---------- (2) the reversed topological order is a PEO of U ---------- *)
Lemma rev_parent v x : ps x < ps v -> urev v x -> In (x, v) E /\ ~ cmp x v.
Proof. intros Hlt [[H _]|H]; [apply psE in H; lia|exact H]. Qed.

Lemma simplicial_earlier v x y : ps x < ps v -> ps y < ps v -> urev v x -> urev v y -> x <> y -> urev x y.
Proof.
  intros Hx Hy Ux Uy Hne. destruct (rev_parent v x Hx Ux) as [Exv Nxv]. destruct (rev_parent v y Hy Uy) as [Eyv Nyv].
  destruct (closed d ord Hd Ht st Hfin v) as (LD & _).
  destruct (padj_dec d x y) as [Hadj|Hnadj].
  - apply (adj_dir d Hd) in Hadj. destruct Hadj as [H|H].
    + left. split; [exact H|]. intros Hc. apply Nxv. apply (LD x y Hc Eyv Exv).
    + right. split; [exact H|]. intros Hc. apply Nyv. apply (LD y x Hc Exv Eyv).
  - exfalso. apply Nxv. split; [exact Exv|]. apply (fin_Inv d ord Hd Ht st Hfin x v y).
    + repeat split; assumption.
    + apply (fin_labelled d ord Hd Ht st Hfin). exact Exv.
Qed.

Lemma rev_ord_peo : is_peo uadj (rev ord).
Proof.
  apply peo_of_suffixes. intros pre v t Heq x y Hx Hy Ax Ay Hne.
  assert (Hord : ord = rev t ++ v :: rev pre).
  { rewrite <- (rev_involutive ord), Heq, rev_app_distr. simpl. rewrite <- app_assoc. reflexivity. }
  destruct Ht as (Hnd & _).
  assert (Hnv : ~ In v (rev t)). { rewrite Hord in Hnd. apply NoDup_remove_2 in Hnd. intros H. apply Hnd. apply in_or_app. left; exact H. }
  assert (Hpos : forall z, In z t -> ps z < ps v).
  { intros z Hz. unfold pos. rewrite Hord. apply index_prefix; [rewrite <- in_rev; exact Hz|exact Hnv]. }
  apply uadj_spec. apply uadj_spec in Ax. apply uadj_spec in Ay.
  apply (simplicial_earlier v x y (Hpos x Hx) (Hpos y Hy) Ax Ay Hne).
Qed.

(* ---------- (3a) a rank that is constant along U and increases along compelled edges ---------- *)
Definition dpar (v : nat) : list nat := filter (fun a => is_ce st (a, v)) (parents d v).

Lemma dpar_In a v : In a (dpar v) <-> cmp a v.
Proof.
  unfold dpar, comp. rewrite filter_In, parents_In, has_d_In. split; [tauto|].
  intros [H1 H2]. split; [split; [apply (edge_V d Hd) in H1; tauto|exact H1]|exact H2].
Qed.

Fixpoint gf (n : nat) (v : nat) : nat :=
  match n with 0 => 0 | S k => list_max (map (fun a => S (gf k a)) (dpar v)) end.

Lemma gf_stable n : forall m v, S (ps v) <= n -> S (ps v) <= m -> gf n v = gf m v.
Proof.
  induction n as [|n IH]; intros m v Hn Hm; [lia|]. destruct m as [|m]; [lia|]. simpl. f_equal.
  apply map_ext_in. intros a Ha. apply dpar_In in Ha. pose proof (psE a v (proj1 Ha)). f_equal. apply IH; lia.
Qed.

Definition G (v : nat) : nat := gf (length ord) v.

Lemma ps_lt v : In v ord -> ps v < length ord.
Proof. apply index_of_lt. Qed.

Lemma G_unfold v : In v ord -> G v = list_max (map (fun a => S (G a)) (dpar v)).
Proof.
  intros Hv. pose proof (ps_lt v Hv) as Hlt. unfold G. destruct (length ord) as [|N] eqn:EN; [lia|].
  change (gf (S N) v) with (list_max (map (fun a => S (gf N a)) (dpar v))). f_equal.
  apply map_ext_in. intros a Ha. apply dpar_In in Ha. pose proof (psE a v (proj1 Ha)). f_equal. apply gf_stable; lia.
Qed.

Lemma G_edge a v : cmp a v -> G a < G v.
Proof.
  intros H. destruct (in_ord d ord Hd Ht a v (proj1 H)) as [_ Hv]. rewrite (G_unfold v Hv).
  apply dpar_In in H. pose proof (list_max_ge (fun a => S (G a)) (dpar v) a H). simpl in H0. lia.
Qed.

Lemma urev_ord a b : urev a b -> In a ord /\ In b ord.
Proof. intros [[H _]|[H _]]; apply (in_ord d ord Hd Ht) in H; tauto. Qed.

Lemma G_urev b c : urev b c -> G b = G c.
Proof.
  intros H. destruct (urev_ord b c H) as [Hb Hc]. rewrite (G_unfold b Hb), (G_unfold c Hc).
  apply list_max_set. intros a. rewrite !dpar_In. apply same_par. exact H.
Qed.

(* ---------- (3b) re-orientation by a PEO ---------- *)
Section Orient.
Variable L : list nat.
Hypothesis LND : NoDup L.
Hypothesis Lmem : forall x, In x L <-> In x ord.
Hypothesis Lpeo : is_peo uadj L.

Definition reor (e : nat * nat) : nat * nat :=
  if is_ce st e then e else if Nat.ltb (idx L (snd e)) (idx L (fst e)) then e else swap e.
Definition E' : list (nat * nat) := map reor (D d).
Definition d' : mgraph := mkd (V d) E'.

Lemma idx_ne u v : In u L -> In v L -> u <> v -> idx L u <> idx L v.
Proof. intros Hu Hv Hne H. apply Hne. apply (idx_inj L u v Hu Hv H). Qed.

Lemma E'_char u v : In (u, v) E' <-> cmp u v \/ (urev u v /\ idx L v < idx L u).
Proof.
  unfold E'. rewrite in_map_iff. split.
  - intros [[p q] [Hf He]]. unfold reor in Hf. simpl in Hf.
    destruct (is_ce st (p, q)) eqn:Ec.
    + inversion Hf; subst. left. split; assumption.
    + assert (Hn : ~ cmp p q) by (intros [_ H]; congruence).
      destruct (Nat.ltb (idx L q) (idx L p)) eqn:El.
      * inversion Hf; subst. right. split; [left; tauto|apply Nat.ltb_lt; exact El].
      * unfold swap in Hf. simpl in Hf. inversion Hf; subst. right. split; [right; tauto|].
        apply Nat.ltb_ge in El. destruct (in_ord d ord Hd Ht v u He) as [Hp Hq].
        assert (v <> u) by (apply (edge_V d Hd) in He; tauto).
        pose proof (idx_ne v u (proj2 (Lmem v) Hp) (proj2 (Lmem u) Hq) H). lia.
  - intros [[He Hc]|[[[He Hn]|[He Hn]] Hlt]].
    + exists (u, v). split; [|exact He]. unfold reor. rewrite Hc. reflexivity.
    + exists (u, v). split; [|exact He]. unfold reor. simpl.
      destruct (is_ce st (u, v)) eqn:Ec; [exfalso; apply Hn; split; assumption|].
      apply Nat.ltb_lt in Hlt. rewrite Hlt. reflexivity.
    + exists (v, u). split; [|exact He]. unfold reor. simpl.
      destruct (is_ce st (v, u)) eqn:Ec; [exfalso; apply Hn; split; assumption|].
      assert (El : Nat.ltb (idx L u) (idx L v) = false) by (apply Nat.ltb_ge; lia). rewrite El. reflexivity.
Qed.

Lemma E'_adj u v : In (u, v) E' -> In (u, v) E \/ In (v, u) E.
Proof. intros H. apply E'_char in H. destruct H as [[H _]|[[[H _]|[H _]] _]]; tauto. Qed.

Lemma E_in_E' u v : In (u, v) E -> In (u, v) E' \/ In (v, u) E'.
Proof.
  intros H. destruct (cmp_dec u v) as [Hc|Hn]; [left; apply E'_char; tauto|].
  destruct (in_ord d ord Hd Ht u v H) as [Hu Hv]. assert (Hne : u <> v) by (apply (edge_V d Hd) in H; tauto).
  pose proof (idx_ne u v (proj2 (Lmem u) Hu) (proj2 (Lmem v) Hv) Hne).
  destruct (lt_dec (idx L v) (idx L u)) as [Hlt|Hge].
  - left. apply E'_char. right. split; [left; tauto|exact Hlt].
  - right. apply E'_char. right. split; [right; tauto|lia].
Qed.

Lemma d'_dag : is_dag d'.
Proof.
  unfold is_dag, d'. simpl. split; [|repeat split; try reflexivity].
  - intros u v H. apply E'_adj in H. destruct H as [H|H]; apply (edge_V d Hd) in H; intuition.
  - exists (fun v => G v * S (length L) + (length L - idx L v)). simpl. intros u v H. apply E'_char in H.
    destruct H as [Hc|[Hu Hlt]].
    + pose proof (G_edge u v Hc). nia.
    + rewrite (G_urev u v Hu). destruct (urev_ord u v Hu) as [Hou _].
      pose proof (idx_lt L u (proj2 (Lmem u) Hou)). lia.
Qed.

Lemma d'_adj u v : Padj d' u v <-> Padj d u v.
Proof.
  unfold Padj at 1. unfold d'. simpl. split.
  - intros [H|[H|[[]|[]]]]; apply E'_adj in H; destruct H as [H|H]; unfold Padj; tauto.
  - intros H. apply (adj_dir d Hd) in H. destruct H as [H|H]; apply E_in_E' in H; tauto.
Qed.

Lemma d'_meq : meq d d'.
Proof.
  unfold meq. split; [split; apply incl_refl|]. split; [intros u v; symmetry; apply d'_adj|].
  intros x c y. split.
  - intros Hv. pose proof Hv as (H1 & H2 & H3 & H4).
    assert (C1 : cmp x c).
    { split; [exact H1|]. apply (fin_Inv d ord Hd Ht st Hfin x c y Hv). apply (fin_labelled d ord Hd Ht st Hfin). exact H1. }
    assert (C2 : cmp y c).
    { split; [exact H2|]. apply (fin_Inv d ord Hd Ht st Hfin y c x (Vstr_sym d x c y Hv)). apply (fin_labelled d ord Hd Ht st Hfin). exact H2. }
    repeat split; [apply E'_char; tauto|apply E'_char; tauto|exact H3|]. intros H. apply H4, d'_adj, H.
  - intros (H1 & H2 & H3 & H4). assert (Hn : ~ Padj d x y) by (intros H; apply H4, d'_adj, H).
    simpl in H1, H2. apply E'_char in H1. apply E'_char in H2.
    destruct H1 as [C1|[U1 L1]]; destruct H2 as [C2|[U2 L2]].
    + repeat split; [apply C1|apply C2|exact H3|exact Hn].
    + exfalso. apply Hn. left. apply (cg1 x c y C1 (urev_sym _ _ U2)).
    + exfalso. apply Hn. right; left. apply (cg1 y c x C2 (urev_sym _ _ U1)).
    + exfalso. apply Hn. apply urev_adj. apply uadj_spec.
      destruct (urev_ord x c U1) as [Ox Oc]. destruct (urev_ord y c U2) as [Oy _].
      apply (peo_later uadj L Lpeo c x y); try (apply Lmem; assumption); try assumption.
      * apply uadj_spec, urev_sym, U1.
      * apply uadj_spec, urev_sym, U2.
Qed.
End Orient.

Theorem reversible_reversed a b : In (a, b) E -> ~ cmp a b -> exists g, is_dag g /\ meq d g /\ In (b, a) (D g).
Proof.
  intros Hab Hn. destruct (in_ord d ord Hd Ht a b Hab) as [Oa Ob]. destruct Ht as (Hnd & _).
  assert (Hb : In b (rev ord)) by (rewrite <- in_rev; exact Ob).
  destruct (peo_last uadj uadj_sym uadj_irrefl (length (rev ord)) (rev ord) (le_n _) (NoDup_rev Hnd) rev_ord_peo b Hb)
    as (l' & N' & E'' & P').
  assert (Lmem : forall x, In x (l' ++ [b]) <-> In x ord) by (intros x; rewrite E'', <- in_rev; tauto).
  exists (d' (l' ++ [b])). split; [apply d'_dag; try assumption|]. split; [apply d'_meq; try assumption|].
  simpl. apply E'_char; try assumption. right. split; [right; tauto|].
  apply idx_app_last.
  - pose proof (NoDup_remove_2 l' [] b N') as X. rewrite app_nil_r in X. exact X.
  - assert (X : In a (l' ++ [b])) by (apply Lmem; exact Oa). apply in_app_or in X.
    destruct X as [X|[X|[]]]; [exact X|]. exfalso. subst. apply (irrefl d Hd a Hab).
Qed.
End Rev.
