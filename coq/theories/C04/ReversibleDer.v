(* Model-free form of Chickering's / Meek's theorem for a DAG d (all sizes): an edge of d is essential iff it is derivable
   from the v-structures by the four orientation rules; every non-derivable edge is reversed in an equivalent DAG. *)
From Coq Require Import List Arith Bool Lia.
From PG Require Import Base.ListSet Base.Sx Graph.MGraph C04.Dag C04.DagFacts C04.Model C04.Spec C04.Proofs C04.Structure
  C04.VStruct C04.Chickering C04.Chickering2 C04.DerComplete C04.Reversible C05.Model C05.SomeTopo.
Import ListNotations.

Theorem Der_or_reversible : forall d, is_dag d -> forall a b, In (a, b) (D d) -> ~ Der d a b ->
  exists g, is_dag g /\ meq d g /\ In (b, a) (D g).
Proof.
  intros d Hd a b Hab Hn. pose proof (some_topo_topo d Hd) as Ht. set (ord := some_topo d) in *.
  pose proof (cpdag_model_total d ord) as Htot. unfold cpdag_model, label_model in Htot.
  destruct (label_loop (S (length (D d))) d (order_model d ord) (MkL [] [])) as [st|] eqn:El; [|congruence].
  apply (reversible_reversed d ord Hd Ht st El a b Hab). intros [_ Hc]. apply Hn.
  apply (loop_inv2 d ord Hd Ht (S (length (D d))) (MkL [] []) st); [|intros ? ? ? _ _; reflexivity|exact El|exact Hc].
  intros ? ? Hk. unfold is_ce in Hk. simpl in Hk. discriminate.
Qed.

Theorem essential_iff_Der : forall d, is_dag d -> forall a b, essential d a b <-> Der d a b.
Proof.
  intros d Hd a b. split; [|apply (Der_essential d Hd)].
  intros Hess. pose proof (some_topo_topo d Hd) as Ht.
  destruct (cpdag_structure_thm d (some_topo d) Hd Ht) as (c & r & Hm & _).
  apply (cpdag_compelled_iff_der_thm d (some_topo d) _ c r Hd Ht Hm).
  pose proof (proj1 Hess) as He.
  destruct (cpdag_structure_proof d (some_topo d) _ c r Hm) as (_ & _ & _ & _ & Hcov).
  assert (Hcv : covers d (some_topo d)).
  { intros x y H. destruct Hd as (E & _). destruct Ht as (_ & [_ Hs] & _). apply E in H. split; apply Hs; tauto. }
  destruct (Hcov Hcv (a, b) He) as [Hc|Hr]; [exact Hc|]. exfalso.
  assert (Hnd : ~ Der d a b).
  { intros HD. apply (cpdag_compelled_iff_der_thm d (some_topo d) _ c r Hd Ht Hm) in HD.
    destruct (cpdag_structure_proof d (some_topo d) _ c r Hm) as (_ & _ & _ & Hdis & _). apply (Hdis _ HD Hr). }
  destruct (Der_or_reversible d Hd a b He Hnd) as (g & Hg & Hmq & Hba).
  destruct Hess as [_ Hall]. pose proof (Hall g Hg Hmq) as Hab'.
  destruct Hg as (_ & _ & _ & _ & [rk Hrk]). apply Hrk in Hba. apply Hrk in Hab'. lia.
Qed.
