(* C04 — the property as Props over the formal graph.
   dag_to_cpdag(D) has exactly D's nodes and D's skeleton; an edge is directed a->b iff every DAG with D's skeleton
   and v-structures contains a->b, undirected otherwise; equal CPDAGs iff Markov equivalent. *)
From Coq Require Import List Arith Bool Lia.
From PG Require Import Base.ListSet Base.Sx Graph.MGraph C04.Dag C04.Model.
Import ListNotations.

(* a topological order of d: duplicate-free, exactly the nodes, every edge points forward *)
Definition topo (d : mgraph) (ord : list nat) : Prop :=
  NoDup ord /\ set_eq ord (V d) /\ forall a b, In (a, b) (D d) -> index_of a ord < index_of b ord.

(* clause 1 (unbounded, proved): nodes, skeleton, orientation kept, directed and undirected disjoint, no fuel error *)
Definition cpdag_structure_stmt : Prop := forall d ord, is_dag d -> topo d ord ->
  exists c r, cpdag_model d ord = Some (V d, c, r) /\
    incl c (D d) /\ incl r (D d) /\ (forall e, In e c -> ~ In e r) /\
    (forall a b, Padj (mkp (V d) c r) a b <-> Padj d a b).

(* unbounded, proved (C04/VStruct.v): every v-structure edge is compelled, hence the CPDAG has exactly d's v-structures *)
Definition cpdag_vstructs_stmt : Prop := forall d ord c r, is_dag d -> topo d ord -> cpdag_model d ord = Some (V d, c, r) ->
  forall a y b, Vstr (mkp (V d) c r) a y b <-> Vstr d a y b.

(* unbounded, proved (C04/Chickering.v, Chickering2.v): directed => essential *)
Definition cpdag_compelled_sound_stmt : Prop := forall d ord vs c r, is_dag d -> topo d ord ->
  cpdag_model d ord = Some (vs, c, r) -> forall a b, In (a, b) c -> essential d a b.

(* NOT proved for all sizes (proved for n <= 5 as part of cpdag_essential_bounded_5): undirected => not essential.
   By cpdag_compelled_iff_derivable (C04/DerComplete.v) this is equivalent to the algorithm-free statement
   "forall d a b, is_dag d -> In (a,b) (D d) -> ~ Der d a b -> exists d', is_dag d' /\ meq d d' /\ In (b,a) (D d')".
   Proof plan (not formalised): represent equivalent DAGs by node orders; by strong induction on the position of b, make the
   parent set of b equal to any K with all removed parents w non-derivable, using: latest parent p of b; F1 other parents of b
   are parents of p (else v-structure); F2 parents of p not adjacent to b are non-derivable (rule 1); recursive call at p; then
   p -> b is covered and the adjacent transposition preserves skeleton and v-structures; Der is invariant under meq. *)
Definition cpdag_reversible_not_essential_stmt : Prop := forall d ord vs c r, is_dag d -> topo d ord ->
  cpdag_model d ord = Some (vs, c, r) -> forall a b, In (a, b) r -> ~ essential d a b.

(* clause 2, FULL statement (Chickering 2002, Thm 8 + Alg. 4/5). Proved for every DAG on the nodes 0..n-1, n <= 5, every topological order
   (C04/Bounded_5.v); not proved for larger graphs. *)
Definition cpdag_essential_stmt : Prop := forall d ord, is_dag d -> topo d ord ->
  exists c r, cpdag_model d ord = Some (V d, c, r) /\ forall a b, In (a, b) c <-> essential d a b.

(* the essential graph as a relation; "equal CPDAGs iff Markov equivalent" at the level of the spec *)
Definition same_essential (d1 d2 : mgraph) : Prop :=
  set_eq (V d1) (V d2) /\ (forall a b, Padj d1 a b <-> Padj d2 a b) /\ (forall a b, essential d1 a b <-> essential d2 a b).
Definition essential_classifies_stmt : Prop := forall d1 d2, is_dag d1 -> is_dag d2 ->
  (same_essential d1 d2 <-> meq d1 d2).
