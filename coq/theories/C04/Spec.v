(* C04 — the property as Props over the formal graph.
   dag_to_cpdag(D) has exactly D's nodes and D's skeleton; an edge is directed a->b iff every DAG with D's skeleton
   and v-structures contains a->b, undirected otherwise; equal CPDAGs iff Markov equivalent. *)
From Coq Require Import List Arith Bool Lia.
From PG Require Import Base.ListSet Base.Sx Graph.MGraph C04.Dag C04.Model.
Import ListNotations.

(* a topological order of d: duplicate-free, exactly the nodes, every edge points forward *)
Definition topo (d : mgraph) (ord : list nat) : Prop :=
  NoDup ord /\ set_eq ord (V d) /\ forall a b, In (a, b) (D d) -> index_of a ord < index_of b ord.

(* clause 1 (unbounded, proved): nodes, skeleton, orientation kept, directed and undirected disjoint, no fuel error *)
Definition cpdag_structure_stmt : Prop := forall d ord, is_dag d -> topo d ord ->
  exists c r, cpdag_model d ord = Some (V d, c, r) /\
    incl c (D d) /\ incl r (D d) /\ (forall e, In e c -> ~ In e r) /\
    (forall a b, Padj (mkp (V d) c r) a b <-> Padj d a b).

(* unbounded, proved (C04/VStruct.v): every v-structure edge is compelled, hence the CPDAG has exactly d's v-structures *)
Definition cpdag_vstructs_stmt : Prop := forall d ord c r, is_dag d -> topo d ord -> cpdag_model d ord = Some (V d, c, r) ->
  forall a y b, Vstr (mkp (V d) c r) a y b <-> Vstr d a y b.

(* unbounded, proved (C04/Chickering.v, Chickering2.v): directed => essential *)
Definition cpdag_compelled_sound_stmt : Prop := forall d ord vs c r, is_dag d -> topo d ord ->
  cpdag_model d ord = Some (vs, c, r) -> forall a b, In (a, b) c -> essential d a b.

(* proved for ALL sizes (C04/Reversible.v + Essential.v): undirected => not essential.  Route: the non-compelled edges form an
   undirected graph U; compelled parents are shared along U (chain-graph lemma); the reversed topological order is a perfect
   elimination ordering of U; by C08/Chordal.v (peo_last) there is a PEO with any vertex last; re-orienting U by it keeps
   skeleton, v-structures and acyclicity. *)
Definition cpdag_reversible_not_essential_stmt : Prop := forall d ord vs c r, is_dag d -> topo d ord ->
  cpdag_model d ord = Some (vs, c, r) -> forall a b, In (a, b) r -> ~ essential d a b.

(* clause 2, FULL statement (Chickering 2002, Thm 8 + Alg. 4/5): PROVED for all sizes, C04/Essential.v cpdag_essential_thm
   (and independently re-checked by kernel computation for n <= 5, C04/Bounded_5.v). *)
Definition cpdag_essential_stmt : Prop := forall d ord, is_dag d -> topo d ord ->
  exists c r, cpdag_model d ord = Some (V d, c, r) /\ forall a b, In (a, b) c <-> essential d a b.

(* the essential graph as a relation; "equal CPDAGs iff Markov equivalent" at the level of the spec *)
Definition same_essential (d1 d2 : mgraph) : Prop :=
  set_eq (V d1) (V d2) /\ (forall a b, Padj d1 a b <-> Padj d2 a b) /\ (forall a b, essential d1 a b <-> essential d2 a b).
Definition essential_classifies_stmt : Prop := forall d1 d2, is_dag d1 -> is_dag d2 ->
  (same_essential d1 d2 <-> meq d1 d2).
