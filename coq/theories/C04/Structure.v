(* C04: the structural clause in the form of Spec.v, and topob <-> topo. *)
From Coq Require Import List Arith Bool Lia.
From PG Require Import Base.ListSet Base.Sx Graph.MGraph C04.Dag C04.DagFacts C04.Model C04.Spec C04.Proofs.
Import ListNotations.

Lemma nodupb_iff l : nodupb l = true <-> NoDup l.
Proof.
  induction l as [|a t IH]; simpl; [split; [constructor|reflexivity]|].
  rewrite andb_true_iff, negb_true_iff, memb_false, IH. split.
  - intros [H1 H2]. constructor; assumption.
  - intros H. inversion H; subst. tauto.
Qed.

Lemma topob_spec d ord : topob d ord = true <-> topo d ord.
Proof.
  unfold topob, topo. rewrite !andb_true_iff, nodupb_iff, seteqb_spec, forallb_forall. split.
  - intros [[H1 H2] H3]. repeat split; try apply H1; try apply H2.
    intros a b H. apply H3 in H. simpl in H. apply Nat.ltb_lt. exact H.
  - intros (H1 & H2 & H3). repeat split; try assumption; try apply H2.
    intros [a b] H. simpl. apply Nat.ltb_lt. apply H3. exact H.
Qed.

Theorem cpdag_structure_thm : cpdag_structure_stmt.
Proof.
  intros d ord Hd Ht.
  destruct (cpdag_model d ord) as [[[vs c] r]|] eqn:E; [|exfalso; apply (cpdag_model_total d ord E)].
  destruct (cpdag_structure_proof d ord vs c r E) as (-> & Hc & Hr & Hdis & Hcov).
  destruct Hd as (He & _ & HU & _). destruct Ht as (_ & [_ Hs] & _).
  assert (Hcv : covers d ord). { intros a b H. apply He in H. split; apply Hs; tauto. }
  specialize (Hcov Hcv).
  exists c, r. split; [reflexivity|]. split; [exact Hc|]. split; [exact Hr|]. split; [exact Hdis|].
  intros a b. unfold Padj. simpl. rewrite HU. split.
  - intros [H|[H|[H|H]]]; [apply Hc in H|apply Hc in H|apply Hr in H|apply Hr in H]; tauto.
  - intros [H|[H|[[]|[]]]]; apply Hcov in H; tauto.
Qed.
