(* C04, unbounded: every edge of a v-structure of the DAG is labelled compelled by the model (for every DAG and every
   topological order).  With cpdag_structure this gives: the CPDAG has exactly the DAG's skeleton AND v-structures. *)
From Coq Require Import List Arith Bool Lia.
From PG Require Import Base.ListSet Base.Sx Graph.MGraph C04.Dag C04.DagFacts C04.Model C04.Spec C04.Proofs C04.Structure.
Import ListNotations.

Lemma pmemb_app e l m : pmemb e (l ++ m) = pmemb e l || pmemb e m.
Proof. induction l as [|x t IH]; simpl; [reflexivity|]. rewrite IH, orb_assoc. reflexivity. Qed.

Lemma find_app {A} (f : A -> bool) l m :
  find f (l ++ m) = match find f l with Some e => Some e | None => find f m end.
Proof. induction l as [|x t IH]; simpl; [reflexivity|]. destruct (f x); [reflexivity|exact IH]. Qed.

Lemma rev_flat_map {A B} (f : A -> list B) l : rev (flat_map f l) = flat_map (fun x => rev (f x)) (rev l).
Proof.
  induction l as [|a t IH]; simpl; [reflexivity|]. rewrite rev_app_distr, IH, flat_map_app. simpl. rewrite app_nil_r. reflexivity.
Qed.

Lemma index_lt_in a y l1 l2 : ~ In y l1 -> index_of a (l1 ++ y :: l2) < index_of y (l1 ++ y :: l2) -> In a l1.
Proof.
  induction l1 as [|z t IH]; simpl; intros Hy H.
  - rewrite Nat.eqb_refl in H. lia.
  - destruct (Nat.eqb a z) eqn:Ea; [apply Nat.eqb_eq in Ea; left; congruence|].
    destruct (Nat.eqb y z) eqn:Ey; [apply Nat.eqb_eq in Ey; exfalso; apply Hy; left; congruence|].
    right. apply IH; [tauto|lia].
Qed.

Section VS.
Variable d : mgraph.
Variable ord : list nat.
Hypothesis Hd : is_dag d.
Hypothesis Ht : topo d ord.

Let order := order_model d ord.

(* when x -> y is chosen, every edge into x is already labelled *)
Lemma chosen_parent_done st x y : last_unknown st order = Some (x, y) ->
  forall w, In (w, x) (D d) -> is_unknown st (w, x) = false.
Proof.
  intros Hl w Hw. destruct Ht as (Hnd & [Hs1 Hs2] & Hidx). destruct Hd as (E & _).
  pose proof (last_unknown_some _ _ _ Hl) as [Ho Hu]. apply order_model_In in Ho. destruct Ho as (Hx & Hy & Hxy).
  unfold last_unknown, order, order_model in Hl. rewrite rev_flat_map, rev_involutive in Hl.
  destruct (in_split _ _ Hy) as [l1 [l2 Hord]].
  assert (Hny : ~ In y l1). { rewrite Hord in Hnd. apply NoDup_remove_2 in Hnd. intros H. apply Hnd. apply in_or_app. left; exact H. }
  assert (Hx1 : In x l1). { apply (index_lt_in x y l1 l2 Hny). rewrite <- Hord. apply Hidx, Hxy. }
  set (h := fun x0 => rev (in_edges_ord d ord x0)) in *.
  rewrite Hord, flat_map_app, find_app in Hl.
  destruct (find (is_unknown st) (flat_map h l1)) as [e|] eqn:Ef.
  - exfalso. injection Hl as ->. apply find_some in Ef. destruct Ef as [Ef _]. apply in_flat_map in Ef.
    destruct Ef as [y' [Hy' Hin]]. unfold h in Hin. apply in_rev in Hin. unfold in_edges_ord in Hin. apply in_map_iff in Hin.
    destruct Hin as [x' [Eq _]]. inversion Eq; subst. contradiction.
  - apply (find_none _ _ Ef). apply in_flat_map. exists x. split; [exact Hx1|]. unfold h. apply -> in_rev.
    unfold in_edges_ord. apply in_map_iff. exists w. split; [reflexivity|]. apply filter_In. split.
    + apply E in Hw. apply Hs2. tauto.
    + apply has_d_In. exact Hw.
Qed.

Definition Inv (st : lst) : Prop :=
  forall a c b, Vstr d a c b -> is_unknown st (a, c) = false -> is_ce st (a, c) = true.

(* effect of one step on edges that do not point into y / that do *)
Lemma step_other st x y e : snd e <> y ->
  is_unknown (label_step d st x y) e = is_unknown st e /\ is_ce (label_step d st x y) e = is_ce st e.
Proof.
  intros Hne.
  assert (Hnot : forall l, (forall e', In e' l -> snd e' = y) -> pmemb e l = false).
  { intros l Hl. apply pmemb_false. intros H. apply Hl in H. contradiction. }
  assert (H1 : pmemb e (in_edges d y) = false).
  { apply Hnot. intros [a b] H. apply in_edges_In in H. simpl. tauto. }
  assert (H2 : forall ws, pmemb e (map (fun w => (w, y)) ws) = false).
  { intros ws. apply Hnot. intros e' H. apply in_map_iff in H. destruct H as [w [<- _]]. reflexivity. }
  assert (H3 : forall f, pmemb e (filter f (in_edges d y)) = false).
  { intros f. apply Hnot. intros [a b] H. apply filter_In in H. destruct H as [H _]. apply in_edges_In in H. simpl. tauto. }
  unfold label_step. destruct (existsb _ (filter _ (parents d x))).
  - unfold is_unknown, is_ce, add_ce. simpl. rewrite pmemb_app, H1. simpl. tauto.
  - destruct (existsb _ (parents d y)); unfold is_unknown, is_ce, add_ce, add_re; simpl;
      rewrite ?pmemb_app, ?H2, ?H3; simpl; tauto.
Qed.

Lemma is_ce_add_ce l st e : is_ce (add_ce l st) e = pmemb e l || is_ce st e.
Proof. unfold is_ce, add_ce. simpl. apply pmemb_app. Qed.
Lemma is_ce_add_re l st e : is_ce (add_re l st) e = is_ce st e.
Proof. reflexivity. Qed.

Lemma step_ce_mono st x y e : is_ce st e = true -> is_ce (label_step d st x y) e = true.
Proof.
  intros H. unfold label_step. destruct (existsb _ (filter _ (parents d x))).
  - rewrite is_ce_add_ce, H. apply orb_true_r.
  - destruct (existsb _ (parents d y)); rewrite ?is_ce_add_re, ?is_ce_add_ce, ?is_ce_add_ce, H, ?orb_true_r; reflexivity.
Qed.

Lemma step_inv st x y : Inv st -> In (x, y) (D d) ->
  (forall a, In (a, y) (D d) -> is_unknown st (a, y) = true) ->
  (forall w, In (w, x) (D d) -> is_unknown st (w, x) = false) ->
  Inv (label_step d st x y).
Proof.
  intros HI Hxy Hally Hallx a c b Hv Hk.
  destruct (Nat.eq_dec c y) as [->|Hcy].
  2:{ destruct (step_other st x y (a, c) Hcy) as [E1 E2]. rewrite E1 in Hk. rewrite E2. apply (HI a c b Hv Hk). }
  clear Hk. pose proof Hv as (Hay & Hby & Hab & Hnadj). destruct Hd as (E & _ & HU & _).
  unfold label_step.
  set (ws := filter (fun w => is_ce st (w, x)) (parents d x)).
  destruct (existsb (fun w => negb (has_d d w y)) ws) eqn:E1.
  { rewrite is_ce_add_ce. apply orb_true_iff. left. apply pmemb_In. apply in_edges_In. tauto. }
  set (st1 := add_ce (map (fun w => (w, y)) ws) st).
  destruct (existsb (fun z => negb (z =? x) && negb (has_d d z x)) (parents d y)) eqn:E2.
  { (* every unknown edge into y becomes compelled *)
    rewrite is_ce_add_ce. destruct (is_unknown st1 (a, y)) eqn:Eu.
    - apply orb_true_iff. left. apply pmemb_In. apply filter_In. split; [apply in_edges_In; tauto|exact Eu].
    - apply orb_true_iff. right. unfold is_unknown in Eu. unfold is_ce.
      destruct (pmemb (a, y) (ce st1)) eqn:Ec; [reflexivity|]. simpl in Eu.
      (* reversible in st1 is impossible: re st1 = re st and (a,y) was unknown in st *)
      exfalso. specialize (Hally a Hay). unfold is_unknown in Hally. unfold st1, add_ce in Eu. simpl in Eu.
      apply andb_true_iff in Hally. destruct Hally as [_ H2]. rewrite Eu in H2. discriminate. }
  (* no z: every parent of y other than x is a parent of x *)
  assert (Hpar : forall z, In (z, y) (D d) -> z <> x -> In (z, x) (D d)).
  { intros z Hz Hzx. destruct (has_d d z x) eqn:Ez; [apply has_d_In; exact Ez|]. exfalso.
    assert (Hex : existsb (fun z => negb (z =? x) && negb (has_d d z x)) (parents d y) = true).
    { apply existsb_exists. exists z. split; [apply parents_In; split; [apply E in Hz; tauto|apply has_d_In; exact Hz]|].
      apply Nat.eqb_neq in Hzx. rewrite Hzx, Ez. reflexivity. }
    congruence. }
  assert (Hax : a <> x).
  { intros ->. destruct (Nat.eq_dec b x) as [->|Hbx]; [congruence|]. apply Hnadj. right; left. apply Hpar; assumption. }
  assert (Hbx : b <> x).
  { intros ->. apply Hnadj. left. apply Hpar; assumption. }
  assert (Hvx : Vstr d a x b). { repeat split; try assumption; apply Hpar; assumption. }
  assert (Hcex : is_ce st (a, x) = true). { apply (HI a x b Hvx). apply Hallx. apply Hpar; assumption. }
  assert (Haw : In a ws).
  { unfold ws. apply filter_In. split; [|exact Hcex]. apply parents_In. split; [apply E in Hay; tauto|].
    apply has_d_In. apply Hpar; assumption. }
  rewrite is_ce_add_re. unfold st1. rewrite is_ce_add_ce. apply orb_true_iff. left. apply pmemb_In.
  apply in_map_iff. exists a. split; [reflexivity|exact Haw].
Qed.

(* all-or-none: the in-edges of a node are all unknown or all labelled *)
Definition AON (st : lst) : Prop :=
  forall a b y, In (a, y) (D d) -> In (b, y) (D d) -> is_unknown st (a, y) = is_unknown st (b, y).

Lemma step_labels_all st x y a : In (a, y) (D d) -> is_unknown (label_step d st x y) (a, y) = false.
Proof.
  intros Ha. destruct (is_unknown (label_step d st x y) (a, y)) eqn:E; [|reflexivity]. exfalso.
  assert (Hin : In (a, y) (in_edges d y)) by (apply in_edges_In; tauto).
  unfold label_step in E. destruct (existsb _ (filter _ (parents d x))).
  - apply unknown_add_ce in E. tauto.
  - set (st1 := add_ce _ st) in *. destruct (existsb _ (parents d y)).
    + apply unknown_add_ce in E. destruct E as [E1 E2]. apply E2. apply filter_In. tauto.
    + apply unknown_add_re in E. destruct E as [E1 E2]. apply E2. apply filter_In. tauto.
Qed.

Lemma step_aon st x y : AON st -> AON (label_step d st x y).
Proof.
  intros H a b z Ha Hb. destruct (Nat.eq_dec z y) as [->|Hz].
  - rewrite !step_labels_all by assumption. reflexivity.
  - destruct (step_other st x y (a, z) Hz) as [-> _]. destruct (step_other st x y (b, z) Hz) as [-> _]. apply H; assumption.
Qed.

Lemma loop_inv fuel : forall st st', Inv st -> AON st -> label_loop fuel d order st = Some st' -> Inv st'.
Proof.
  induction fuel as [|k IH]; intros st st' HI HA H; simpl in H;
    destruct (last_unknown st order) as [[x y]|] eqn:El; try discriminate; try (inversion H; subst; exact HI).
  pose proof (last_unknown_some _ _ _ El) as [Ho Hu]. apply order_model_In in Ho. destruct Ho as (_ & _ & Hxy).
  apply (IH (label_step d st x y) st'); [|apply step_aon; exact HA|exact H].
  apply step_inv; [exact HI|exact Hxy| |apply (chosen_parent_done st x y El)].
  intros a Ha. rewrite (HA a x y Ha Hxy). exact Hu.
Qed.

Theorem vstruct_compelled vs c r : cpdag_model d ord = Some (vs, c, r) ->
  forall a y b, Vstr d a y b -> In (a, y) c.
Proof.
  unfold cpdag_model, label_model. fold order.
  destruct (label_loop (S (length (D d))) d order (MkL [] [])) as [st|] eqn:E; [|discriminate].
  intros H a y b Hv. inversion H; subst. apply filter_In. pose proof Hv as (Hay & _). split; [exact Hay|].
  assert (HI : Inv st).
  { apply (loop_inv (S (length (D d))) (MkL [] []) st); [|intros ? ? ? _ _; reflexivity|exact E].
    intros ? ? ? _ Hk. unfold is_unknown in Hk. simpl in Hk. discriminate. }
  apply (HI a y b Hv).
  apply (label_loop_done _ _ _ _ _ E). apply order_model_In.
  destruct Ht as (_ & [_ Hs2] & _). destruct Hd as (Ed & _). apply Ed in Hay. split; [apply Hs2; tauto|split; [apply Hs2; tauto|]].
  destruct Hv; assumption.
Qed.
End VS.
