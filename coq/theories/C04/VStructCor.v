(* C04, unbounded corollary: the CPDAG computed by the model, read as a PDAG, has exactly the DAG's v-structures,
   is a well-formed PDAG, and the DAG itself is a consistent extension of it. *)
From Coq Require Import List Arith Bool Lia.
From PG Require Import Base.ListSet Base.Sx Graph.MGraph C04.Dag C04.DagFacts C04.Model C04.Spec C04.Proofs C04.Structure
  C04.VStruct.
Import ListNotations.

Section Cor.
Variables (d : mgraph) (ord : list nat) (c r : list (nat * nat)).
Hypothesis Hd : is_dag d.
Hypothesis Ht : topo d ord.
Hypothesis Hm : cpdag_model d ord = Some (V d, c, r).

Lemma cor_struct : incl c (D d) /\ incl r (D d) /\ (forall e, In e c -> ~ In e r) /\
  (forall a b, Padj (mkp (V d) c r) a b <-> Padj d a b).
Proof.
  destruct (cpdag_structure_thm d ord Hd Ht) as (c0 & r0 & Hm0 & H). rewrite Hm in Hm0. inversion Hm0; subst. exact H.
Qed.

Theorem cpdag_vstructs_proof : forall a y b, Vstr (mkp (V d) c r) a y b <-> Vstr d a y b.
Proof.
  destruct cor_struct as (Hc & Hr & Hdis & Hsk). intros a y b. unfold Vstr at 1. simpl D. split.
  - intros (H1 & H2 & H3 & H4). repeat split; [apply Hc, H1|apply Hc, H2|exact H3|]. intros H. apply H4, Hsk, H.
  - intros Hv. pose proof Hv as (_ & _ & H3 & H4). repeat split.
    + apply (vstruct_compelled d ord Hd Ht _ _ _ Hm a y b Hv).
    + apply (vstruct_compelled d ord Hd Ht _ _ _ Hm b y a). destruct Hv as (K1 & K2 & K3 & K4).
      repeat split; try assumption; [congruence|]. intros H. apply K4. apply Padj_sym, H.
    + exact H3.
    + intros H. apply H4, Hsk, H.
Qed.

Lemma no_two_cycle a b : In (a, b) (D d) -> ~ In (b, a) (D d).
Proof. destruct Hd as (_ & _ & _ & _ & [rk Hrk]). intros H1 H2. apply Hrk in H1. apply Hrk in H2. lia. Qed.

Theorem cpdag_wf_pdag : wf_pdag (mkp (V d) c r).
Proof.
  destruct cor_struct as (Hc & Hr & Hdis & _). pose proof Hd as (E & _).
  unfold wf_pdag. simpl. split; [|split; [|split]].
  - intros a b H. apply E, Hc, H.
  - intros a b H. apply E, Hr, H.
  - intros a b H1 H2. apply (no_two_cycle a b); [apply Hc, H1|apply Hc, H2].
  - intros a b H. split; [apply Hdis, H|]. intros H2. apply (no_two_cycle a b); [apply Hc, H|apply Hr, H2].
Qed.

Theorem dag_extends_its_cpdag : consistent_ext (mkp (V d) c r) d.
Proof.
  destruct cor_struct as (Hc & Hr & Hdis & Hsk).
  unfold consistent_ext. split; [exact Hd|]. split; [simpl; split; apply incl_refl|]. split; [intros a b; symmetry; apply Hsk|].
  split; [exact Hc|]. intros a y b. symmetry. apply cpdag_vstructs_proof.
Qed.
End Cor.

Theorem cpdag_vstructs_compelled_thm : forall d ord vs c r, is_dag d -> topo d ord -> cpdag_model d ord = Some (vs, c, r) ->
  forall a y b, Vstr d a y b -> In (a, y) c.
Proof. intros d ord vs c r Hd Ht. exact (vstruct_compelled d ord Hd Ht vs c r). Qed.

Theorem cpdag_vstructs_thm : forall d ord c r, is_dag d -> topo d ord -> cpdag_model d ord = Some (V d, c, r) ->
  (forall a y b, Vstr (mkp (V d) c r) a y b <-> Vstr d a y b) /\ wf_pdag (mkp (V d) c r) /\ consistent_ext (mkp (V d) c r) d.
Proof.
  intros d ord c r Hd Ht Hm. split; [exact (cpdag_vstructs_proof d ord c r Hd Ht Hm)|].
  split; [exact (cpdag_wf_pdag d ord c r Hd Ht Hm)|exact (dag_extends_its_cpdag d ord c r Hd Ht Hm)].
Qed.
