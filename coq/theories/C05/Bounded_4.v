(* C05 consequences by kernel computation: for every labelled DAG d on n<=4 nodes and every topological order,
   pdag_to_dag (cpdag d) is Markov equivalent to d and pdag_to_cpdag (cpdag d) = cpdag d. *)
From Coq Require Import List Arith Bool Lia.
From PG Require Import Base.ListSet Base.Sx Graph.MGraph C04.Dag C04.DagFacts C04.Acyc C04.Refl C04.Model C04.Bounded_4
  C05.Model C05.Spec C05.Proofs.
Import ListNotations.

Definition check_cons (n : nat) (es : list (nat * nat)) : bool :=
  let d := mkd (seq 0 n) es in
  forallb (fun ord => negb (topob d ord) ||
     match cpdag_graph d ord with
     | None => false
     | Some c => wf_pdagb c &&
        match pdag_model c with
        | None => false
        | Some d' => meqb d d' && match cpdag_graph d' (some_topo d') with None => false | Some c' => graph_eqb c c' end
        end
     end) (lists_of n (seq 0 n)).

Definition check_cons_n (n : nat) : bool := forallb (check_cons n) (dags n).

Lemma cons_0 : check_cons_n 0 = true. Proof. vm_cast_no_check (eq_refl true). Qed.
Lemma cons_1 : check_cons_n 1 = true. Proof. vm_cast_no_check (eq_refl true). Qed.
Lemma cons_2 : check_cons_n 2 = true. Proof. vm_cast_no_check (eq_refl true). Qed.
Lemma cons_3 : check_cons_n 3 = true. Proof. vm_cast_no_check (eq_refl true). Qed.
Lemma cons_4 : check_cons_n 4 = true. Proof. vm_cast_no_check (eq_refl true). Qed.

Theorem roundtrip_bounded_4_proof : forall n es ord, n <= 4 -> In es (dags n) ->
  let d := mkd (seq 0 n) es in topob d ord = true -> roundtrip_stmt d ord.
Proof.
  intros n es ord Hn Hes d Ht.
  assert (Hc : check_cons_n n = true).
  { destruct n as [|[|[|[|[|n]]]]]; [apply cons_0|apply cons_1|apply cons_2|apply cons_3|apply cons_4|lia]. }
  unfold check_cons_n in Hc. rewrite forallb_forall in Hc. specialize (Hc es Hes). unfold check_cons in Hc.
  fold d in Hc. cbv zeta in Hc. rewrite forallb_forall in Hc.
  destruct (topob_length n es ord Ht) as [Hl Hi].
  specialize (Hc ord (lists_of_In n (seq 0 n) ord Hl Hi)). fold d in Ht. rewrite Ht in Hc.
  cbn [negb orb] in Hc. unfold roundtrip_stmt.
  destruct (cpdag_graph d ord) as [c|] eqn:E1; [|discriminate]. apply andb_true_iff in Hc. destruct Hc as [Hwf Hc].
  apply wf_pdagb_spec in Hwf.
  destruct (pdag_model c) as [d'|] eqn:Ep; [|discriminate]. apply andb_true_iff in Hc. destruct Hc as [Hm Hc].
  destruct (cpdag_graph d' (some_topo d')) as [c'|] eqn:E2; [|discriminate].
  exists c, d'. split; [reflexivity|]. split; [exact Ep|]. split.
  - apply meqb_spec; [apply dags_are_dags; exact Hes| |exact Hm].
    pose proof (pdag_sound_proof c d' Hwf Ep) as [Hd' _]. exact Hd'.
  - exists c'. split; [exact E2|exact Hc].
Qed.
