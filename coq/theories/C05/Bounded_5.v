(* C05 consequences by kernel computation: for every DAG of the (complete, see C04.Bounded_5.dagsF_cover) enumeration of
   the DAGs on 0..n-1, n <= 5, and EVERY topological order: pdag_to_dag (cpdag d) is Markov equivalent to d and
   pdag_to_cpdag (cpdag d) = cpdag d. *)
From Coq Require Import List Arith Bool Lia.
From PG Require Import Base.ListSet Base.Sx Graph.MGraph C04.Dag C04.DagFacts C04.Acyc C04.Refl C04.Model C04.Bounded_4
  C04.Fast C04.Bounded_5_defs C04.Bounded_5 C05.Model C05.Spec C05.Proofs C05.Bounded_5_defs
  C05.Bounded_5_s0 C05.Bounded_5_s1 C05.Bounded_5_s2 C05.Bounded_5_s3 C05.Bounded_5_s4 C05.Bounded_5_s5
  C05.Bounded_5_s6 C05.Bounded_5_s7.
Import ListNotations.

Lemma cons_all_0 : check_cons_all 0 = true. Proof. vm_cast_no_check (eq_refl true). Qed.
Lemma cons_all_1 : check_cons_all 1 = true. Proof. vm_cast_no_check (eq_refl true). Qed.
Lemma cons_all_2 : check_cons_all 2 = true. Proof. vm_cast_no_check (eq_refl true). Qed.
Lemma cons_all_3 : check_cons_all 3 = true. Proof. vm_cast_no_check (eq_refl true). Qed.
Lemma cons_all_4 : check_cons_all 4 = true. Proof. vm_cast_no_check (eq_refl true). Qed.

Lemma cons_all_5 : check_cons_all 5 = true.
Proof.
  unfold check_cons_all. cbv zeta. apply forallb_forall. intros s Hs.
  destruct (shard_cover _ _ Hs) as [k [Hk Hin]].
  assert (Hc : check_cons_shard 5 k = true).
  { destruct k as [|[|[|[|[|[|[|[|k]]]]]]]];
      [apply cons5_0|apply cons5_1|apply cons5_2|apply cons5_3|apply cons5_4|apply cons5_5|apply cons5_6|apply cons5_7|lia]. }
  unfold check_cons_shard in Hc. cbv zeta in Hc. rewrite forallb_forall in Hc. apply Hc, Hin.
Qed.

Lemma cons_all_le5 n : n <= 5 -> check_cons_all n = true.
Proof.
  intros H. destruct n as [|[|[|[|[|[|n]]]]]];
    [apply cons_all_0|apply cons_all_1|apply cons_all_2|apply cons_all_3|apply cons_all_4|apply cons_all_5|lia].
Qed.

Lemma cons_ok_roundtrip d ord : is_dag d -> cons_ok d ord = true -> roundtrip_stmt d ord.
Proof.
  intros Hd Hc. unfold cons_ok in Hc. unfold roundtrip_stmt.
  destruct (cpdag_graph d ord) as [c|] eqn:E1; [|discriminate]. apply andb_true_iff in Hc. destruct Hc as [Hwf Hc].
  apply wf_pdagb_spec in Hwf.
  destruct (pdag_model c) as [d'|] eqn:Ep; [|discriminate]. apply andb_true_iff in Hc. destruct Hc as [Hm Hc].
  destruct (cpdag_graph d' (some_topo d')) as [c'|] eqn:E2; [|discriminate].
  exists c, d'. split; [reflexivity|]. split; [exact Ep|]. split.
  - apply meqb_spec; [exact Hd| |exact Hm]. pose proof (pdag_sound_proof c d' Hwf Ep) as [Hd' _]. exact Hd'.
  - exists c'. split; [exact E2|exact Hc].
Qed.

Theorem roundtrip_bounded_5_proof : forall n es ord, n <= 5 -> In es (dagsF n) ->
  let d := mkd (seq 0 n) es in topob d ord = true -> roundtrip_stmt d ord.
Proof.
  intros n es ord Hn Hes d Ht. destruct (topob_perm n es ord Hn Ht) as [Hp Hf].
  pose proof (cons_all_le5 n Hn) as Hc. unfold check_cons_all in Hc. cbv zeta in Hc. rewrite forallb_forall in Hc.
  specialize (Hc es Hes). unfold check_cons_dag in Hc. rewrite forallb_forall in Hc. specialize (Hc ord Hp).
  rewrite Hf in Hc. apply cons_ok_roundtrip; [apply dagsF_dag; exact Hes|exact Hc].
Qed.
