(* C05 consequences for n <= 5 by kernel computation: the per-DAG check and its 8 shards over dagsF 5. *)
From Coq Require Import List Arith Bool Lia.
From PG Require Import Base.ListSet Base.Sx Graph.MGraph C04.Dag C04.Model C04.Bounded_4 C04.Fast C04.Bounded_5_defs
  C04.Bounded_5 C05.Model.
Import ListNotations.

Definition cons_ok (d : mgraph) (ord : list nat) : bool :=
  match cpdag_graph d ord with
  | None => false
  | Some c => wf_pdagb c &&
      match pdag_model c with
      | None => false
      | Some d' => meqb d d' && match cpdag_graph d' (some_topo d') with None => false | Some c' => graph_eqb c c' end
      end
  end.

Definition check_cons_dag (vs : list nat) (ps : list (list nat)) (es : list (nat * nat)) : bool :=
  forallb (fun ord => if fwdb es ord then cons_ok (mkd vs es) ord else true) ps.

Definition check_cons_all (n : nat) : bool :=
  let vs := seq 0 n in forallb (check_cons_dag vs (perms vs)) (dagsF n).

Definition check_cons_shard (n k : nat) : bool :=
  let vs := seq 0 n in forallb (check_cons_dag vs (perms vs)) (shard k (dagsF n)).
