(* shard 1 of 8 of the n=5 round-trip computation (DAGs of dagsF 5 with index = 1 mod 8) *)
From PG Require Import C05.Bounded_5_defs.
Lemma cons5_1 : check_cons_shard 5 1 = true.
Proof. vm_cast_no_check (eq_refl true). Qed.
