(* shard 4 of 8 of the n=5 round-trip computation (DAGs of dagsF 5 with index = 4 mod 8) *)
From PG Require Import C05.Bounded_5_defs.
Lemma cons5_4 : check_cons_shard 5 4 = true.
Proof. vm_cast_no_check (eq_refl true). Qed.
