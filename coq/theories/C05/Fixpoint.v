(* C05 consequence 1, UNBOUNDED: pdag_to_cpdag maps the CPDAG of a DAG to itself — for every DAG d, every topological
   order of d, and EVERY topological order of the extension returned by pdag_to_dag.  From roundtrip_equiv and C04's
   all-sizes Chickering theorem (cpdag_classifies_thm). *)
From Coq Require Import List Arith Bool Lia.
From PG Require Import Base.ListSet Base.Sx Graph.MGraph C04.Dag C04.DagFacts C04.Refl C04.Model C04.Spec C04.Proofs
  C04.Structure C04.Chickering C04.Essential C05.Model C05.Spec C05.Proofs C05.Roundtrip.
Import ListNotations.

Lemma und_transfer d o c1 r1 (V2 : list nat) c2 r2 : is_dag d -> topo d o -> cpdag_model d o = Some (V d, c1, r1) ->
  (forall e, In e c1 <-> In e c2) ->
  (forall a b, Padj (mkp (V d) c1 r1) a b <-> Padj (mkp V2 c2 r2) a b) ->
  forall a b, In (a, b) r1 -> In (a, b) r2 \/ In (b, a) r2.
Proof.
  intros Hd Ht Hm Hc Hsk a b Hr.
  destruct (cpdag_structure_thm d o Hd Ht) as (c' & r' & Hm' & Hci & Hri & Hdis & _). rewrite Hm in Hm'. inversion Hm'; subst c' r'.
  assert (P : Padj (mkp (V d) c1 r1) a b) by (unfold Padj; simpl; tauto).
  apply Hsk in P. unfold Padj in P. simpl in P. destruct P as [P|[P|[P|P]]]; [| |tauto|tauto].
  - exfalso. apply Hc in P. apply (Hdis _ P Hr).
  - exfalso. apply Hc in P. apply (no2 d Hd a b (Hri _ Hr) (Hci _ P)).
Qed.

Theorem cpdag_fixpoint_proof : forall d ord, is_dag d -> topo d ord ->
  exists cg d', cpdag_graph d ord = Some cg /\ pdag_model cg = Some d' /\ meq d d' /\
    forall ord', topo d' ord' -> exists cg', cpdag_graph d' ord' = Some cg' /\ graph_eqb cg cg' = true.
Proof.
  intros d ord Hd Ht. destruct (roundtrip_equiv_proof d ord Hd Ht) as (cg & d' & Hcg & Hp & Hext & Hmeq).
  exists cg, d'. split; [exact Hcg|]. split; [exact Hp|]. split; [exact Hmeq|].
  intros ord' Ht'. destruct Hext as (Hd' & _).
  destruct (cpdag_classifies_thm d d' ord ord' Hd Hd' Ht Ht') as (c1 & r1 & c2 & r2 & M1 & M2 & Hiff).
  destruct (proj1 Hiff Hmeq) as (HV & Hc & Hsk).
  unfold cpdag_graph in Hcg |- *. rewrite M1 in Hcg. inversion Hcg; subst cg. rewrite M2.
  exists (mkp (V d') c2 r2). split; [reflexivity|].
  unfold graph_eqb. simpl. rewrite !andb_true_iff. split; [split; [split; [split|]|]|].
  - apply seteqb_spec. exact HV.
  - apply psubset_incl. intros e He. apply Hc, He.
  - apply psubset_incl. intros e He. apply Hc, He.
  - apply forallb_forall. intros [a b] He. simpl. apply smemb_In.
    apply (und_transfer d ord c1 r1 (V d') c2 r2 Hd Ht M1 Hc Hsk a b He).
  - apply forallb_forall. intros [a b] He. simpl. apply smemb_In.
    apply (und_transfer d' ord' c2 r2 (V d) c1 r1 Hd' Ht' M2); [intros e; symmetry; apply Hc|intros x y; symmetry; apply Hsk|exact He].
Qed.
