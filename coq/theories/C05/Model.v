(* C05: executable model of pdag_to_dag (pywhy_graphs/algorithms/cpdag.py L151-232, Dor & Tarsi sink elimination).
   The qualifying test is a parameter: [qual_dt] = Dor–Tarsi's neighbourhood condition (the repaired behaviour,
   what the property demands), [qual_code] = the clique test the code has today (too strong; see Refuted.v). *)
From Coq Require Import List Arith Bool Lia.
From PG Require Import Base.ListSet Base.Sx Graph.MGraph C04.Dag C04.Model.
Import ListNotations.

Definition pnbrs (p : mgraph) (x : nat) : list nat := filter (fun z => padj p x z) (V p).

Definition no_out (p : mgraph) (x : nat) : bool := forallb (fun c => negb (has_d p x c)) (V p).

(* (ii) every undirected neighbour of x is adjacent to every other node adjacent to x *)
Definition nbhd_dt (p : mgraph) (x : nat) : bool :=
  forallb (fun y => forallb (fun z => Nat.eqb z y || padj p y z) (pnbrs p x)) (unbrs p x).

(* (i) as coded: no undirected neighbour, or (undirected neighbours ∪ parents) is a clique of the skeleton *)
Definition nbhd_code (p : mgraph) (x : nat) : bool :=
  match unbrs p x with
  | [] => true
  | _ => let s := dedup (unbrs p x ++ parents p x) in
         forallb (fun y => forallb (fun z => Nat.eqb z y || padj p y z) s) s
  end.

Definition qual_dt (p : mgraph) (x : nat) : bool := no_out p x && nbhd_dt p x.
Definition qual_code (p : mgraph) (x : nat) : bool := no_out p x && nbhd_code p x.

Definition remove_node (x : nat) (p : mgraph) : mgraph :=
  let keep (e : nat * nat) := negb (Nat.eqb (fst e) x) && negb (Nat.eqb (snd e) x) in
  MkG (rm x (V p)) (filter keep (D p)) [] (filter keep (U p)) [].

(* returns the NEW directed edges (orientations of the undirected ones); None = ValueError.
   fuel = |V| suffices: every round removes a node (pdag_loop_fuel in Proofs.v: fuel never decides). *)
Fixpoint pdag_loop (qual : mgraph -> nat -> bool) (fuel : nat) (p : mgraph) : option (list (nat * nat)) :=
  match V p with
  | [] => Some []
  | _ => match fuel with
         | 0 => None
         | S k => match find (qual p) (V p) with
                  | None => None
                  | Some x => match pdag_loop qual k (remove_node x p) with
                              | None => None
                              | Some acc => Some (map (fun y => (y, x)) (unbrs p x) ++ acc)
                              end
                  end
         end
  end.

Definition pdag_gen (qual : mgraph -> nat -> bool) (p : mgraph) : option mgraph :=
  match pdag_loop qual (length (V p)) p with
  | None => None
  | Some new => Some (mkd (V p) (D p ++ new))
  end.

Definition pdag_model : mgraph -> option mgraph := pdag_gen qual_dt.
Definition pdag_code : mgraph -> option mgraph := pdag_gen qual_code.

(* oracle: try every orientation of the undirected edges *)
Definition has_extension (p : mgraph) : bool :=
  existsb (fun o => consistent_extb p (mkd (V p) (D p ++ o))) (orientations (U p)).

(* pdag_to_cpdag = dag_to_cpdag ∘ pdag_to_dag ; the DAG's node order is an input *)
Definition graph_eqb (g h : mgraph) : bool :=
  seteqb (V g) (V h) && psubset (D g) (D h) && psubset (D h) (D g) &&
  forallb (fun e => smemb (fst e) (snd e) (U h)) (U g) && forallb (fun e => smemb (fst e) (snd e) (U g)) (U h).

(* some topological order of a DAG (sink removal, reversed) — used for the model-side consequences *)
Fixpoint topo_loop (fuel : nat) (es : list (nat * nat)) (vs : list nat) (acc : list nat) : list nat :=
  match vs with
  | [] => acc
  | _ => match fuel with
         | 0 => acc
         | S k => match find (is_sink_in es vs) vs with
                  | None => acc
                  | Some v => topo_loop k es (rm v vs) (v :: acc)
                  end
         end
  end.
Definition some_topo (d : mgraph) : list nat := topo_loop (length (V d)) (D d) (V d) [].

(* consequences on a DAG d with order ord: (1) pdag_to_cpdag (cpdag d) = cpdag d; (2) pdag_to_dag (cpdag d) ~ d *)
Definition consequences (d : mgraph) (ord : list nat) : bool * bool :=
  match cpdag_graph d ord with
  | None => (false, false)
  | Some c => match pdag_model c with
              | None => (false, false)
              | Some d' => (match cpdag_graph d' (some_topo d') with
                            | None => false
                            | Some c' => graph_eqb c c'
                            end, meqb d d')
              end
  end.

(* run_case:
   L [I 0; p]            -> L [I model_ok; I model_valid; I oracle; I wf; I code_ok]   (oracle over all orientations)
   L [I 1; p]            -> same with oracle = 2 (not computed)
   L [I 2; p; d]         -> L [I (consistent_extb p d)]           witness checker
   L [I 3; d1; d2]       -> L [I (meqb d1 d2)]                    Markov equivalence checker (both DAGs)
   L [I 4; d; ord]       -> L [I fixpoint; I equivalent]          model-side consequences
   L [I 5; p]            -> L [I model_ok]                        model only (long graphs: no validity re-check, no oracle) *)
Definition run_case (s : sx) : sx :=
  let g := sx_graph (sx_nth s 1) in
  match sx_nat (sx_nth s 0) with
  | 0 | 1 =>
      let p := mkp (V g) (D g) (U g) in
      let r := pdag_model p in
      L [of_bool (match r with Some _ => true | None => false end);
         of_bool (match r with Some d => consistent_extb p d | None => false end);
         match sx_nat (sx_nth s 0) with 0 => of_bool (has_extension p) | _ => I 2 end;
         of_bool (wf_pdagb p);
         of_bool (match pdag_code p with Some _ => true | None => false end)]
  | 2 => let h := sx_graph (sx_nth s 2) in
         L [of_bool (consistent_extb (mkp (V g) (D g) (U g)) (mkd (V h) (D h)))]
  | 3 => let h := sx_graph (sx_nth s 2) in
         L [of_bool (is_dagb (mkd (V g) (D g)) && is_dagb (mkd (V h) (D h)) && meqb (mkd (V g) (D g)) (mkd (V h) (D h)))]
  | 4 => let d := mkd (V g) (D g) in
         let r := consequences d (sx_nats (sx_nth s 2)) in
         L [of_bool (fst r); of_bool (snd r)]
  | 5 => L [of_bool (match pdag_model (mkp (V g) (D g) (U g)) with Some _ => true | None => false end)]
  | _ => L []
  end.
