(* C05: soundness and completeness of the Dor–Tarsi model, for every PDAG (unbounded). *)
From Coq Require Import List Arith Bool Lia.
From PG Require Import Base.ListSet Base.Sx Graph.MGraph C04.Dag C04.DagFacts C05.Model.
Import ListNotations.

(* ---------- node removal ---------- *)
Lemma rn_V x p v : In v (V (remove_node x p)) <-> In v (V p) /\ v <> x.
Proof. simpl. apply rm_In. Qed.

Lemma rn_keep x a b :
  (negb (fst (a, b) =? x) && negb (snd (a, b) =? x)) = true <-> a <> x /\ b <> x.
Proof. simpl. rewrite andb_true_iff, !negb_true_iff, !Nat.eqb_neq. tauto. Qed.

Lemma rn_D x p a b : In (a, b) (D (remove_node x p)) <-> In (a, b) (D p) /\ a <> x /\ b <> x.
Proof. simpl. rewrite filter_In. rewrite rn_keep. tauto. Qed.

Lemma rn_U x p a b : In (a, b) (U (remove_node x p)) <-> In (a, b) (U p) /\ a <> x /\ b <> x.
Proof. simpl. rewrite filter_In. rewrite rn_keep. tauto. Qed.

Lemma rn_Padj x p a b : Padj (remove_node x p) a b <-> Padj p a b /\ a <> x /\ b <> x.
Proof. unfold Padj. rewrite !rn_D, !rn_U. tauto. Qed.

Lemma rn_Vstr x p a c b :
  Vstr (remove_node x p) a c b <-> Vstr p a c b /\ a <> x /\ b <> x /\ c <> x.
Proof. unfold Vstr. rewrite !rn_D, rn_Padj. tauto. Qed.

Lemma rn_wf x p : wf_pdag p -> wf_pdag (remove_node x p).
Proof.
  intros (H1 & H2 & H3 & H4). unfold wf_pdag. split; [|split; [|split]].
  - intros a b H. apply rn_D in H. destruct H as (H & Ha & Hb). apply H1 in H. rewrite !rn_V. tauto.
  - intros a b H. apply rn_U in H. destruct H as (H & Ha & Hb). apply H2 in H. rewrite !rn_V. tauto.
  - intros a b Hab Hba. apply rn_D in Hab. apply rn_D in Hba. apply (H3 a b); tauto.
  - intros a b H. apply rn_D in H. destruct H as (H & _ & _). apply H4 in H. rewrite !rn_U. tauto.
Qed.

Lemma rn_length x p : In x (V p) -> length (V (remove_node x p)) < length (V p).
Proof. simpl. apply rm_length. Qed.

(* ---------- the qualifying test ---------- *)
Lemma no_out_spec p x : no_out p x = true <-> forall c, In c (V p) -> ~ In (x, c) (D p).
Proof.
  unfold no_out. rewrite forallb_forall. split; intros H c Hc.
  - specialize (H c Hc). apply negb_true_iff in H. intros Hd. apply has_d_In in Hd. congruence.
  - apply negb_true_iff. destruct (has_d p x c) eqn:E; [|reflexivity]. apply has_d_In in E. destruct (H c Hc E).
Qed.

Lemma nbhd_dt_spec p x : nbhd_dt p x = true <->
  forall y z, In y (V p) -> has_u p x y = true -> In z (V p) -> Padj p x z -> z <> y -> Padj p y z.
Proof.
  unfold nbhd_dt. rewrite forallb_forall. split.
  - intros H y z Hy Hu Hz Hxz Hne. assert (Hy' : In y (unbrs p x)) by (apply unbrs_In; tauto).
    specialize (H y Hy'). rewrite forallb_forall in H.
    assert (Hz' : In z (pnbrs p x)). { unfold pnbrs. apply filter_In. split; [exact Hz|]. apply padj_Padj. exact Hxz. }
    specialize (H z Hz'). apply orb_true_iff in H. destruct H as [H|H].
    + apply Nat.eqb_eq in H. contradiction.
    + apply padj_Padj. exact H.
  - intros H y Hy. apply unbrs_In in Hy. destruct Hy as [Hy Hu]. apply forallb_forall. intros z Hz.
    unfold pnbrs in Hz. apply filter_In in Hz. destruct Hz as [Hz Hxz]. apply padj_Padj in Hxz.
    destruct (Nat.eqb z y) eqn:E; [reflexivity|]. simpl. apply Nat.eqb_neq in E. apply padj_Padj. apply (H y z); assumption.
Qed.

(* ---------- soundness step ---------- *)
Definition inx (p : mgraph) (x : nat) : list (nat * nat) := map (fun y => (y, x)) (unbrs p x).

Lemma inx_In p x a b : In (a, b) (inx p x) <-> b = x /\ In a (V p) /\ has_u p x a = true.
Proof.
  unfold inx. rewrite in_map_iff. split.
  - intros [y [E Hy]]. inversion E; subst. apply unbrs_In in Hy. tauto.
  - intros (-> & Ha & Hu). exists a. split; [reflexivity|]. apply unbrs_In. tauto.
Qed.

Lemma ext_step p x acc :
  wf_pdag p -> In x (V p) -> no_out p x = true -> nbhd_dt p x = true ->
  consistent_ext (remove_node x p) (mkd (V (remove_node x p)) (D (remove_node x p) ++ acc)) ->
  consistent_ext p (mkd (V p) (D p ++ inx p x ++ acc)).
Proof.
  intros Hwf Hx Hno Hnb Hext.
  pose proof Hwf as (W1 & W2 & W3 & W4).
  rewrite no_out_spec in Hno. rewrite nbhd_dt_spec in Hnb.
  destruct Hext as (Hdag' & _ & Hsk' & _ & Hvs').
  destruct Hdag' as (E' & _ & _ & _ & [rk' Hrk']). simpl in E', Hrk', Hsk', Hvs'.
  set (p' := remove_node x p) in *.
  set (d' := mkd (V p') (D p' ++ acc)) in *.
  set (d := mkd (V p) (D p ++ inx p x ++ acc)).
  (* endpoints of acc avoid x and lie in V p *)
  assert (Hacc : forall a b, In (a, b) acc -> In a (V p) /\ In b (V p) /\ a <> x /\ b <> x /\ a <> b).
  { intros a b H. destruct (E' a b) as (Ha & Hb & Hab); [apply in_or_app; right; exact H|].
    apply rn_V in Ha. apply rn_V in Hb. tauto. }
  (* undirected neighbours of x *)
  assert (Hun : forall a, has_u p x a = true -> In a (V p) /\ a <> x).
  { intros a Hu. apply has_u_In in Hu. destruct Hu as [Hu|Hu]; apply W2 in Hu; intuition. }
  (* edges of d *)
  assert (Hd : forall a b, In (a, b) (D d) <->
             In (a, b) (D p) \/ (b = x /\ In a (V p) /\ has_u p x a = true) \/ In (a, b) acc).
  { intros a b. change (D d) with (D p ++ inx p x ++ acc). rewrite !in_app_iff, inx_In. tauto. }
  assert (Hd' : forall a b, In (a, b) (D d') <-> (In (a, b) (D p) /\ a <> x /\ b <> x) \/ In (a, b) acc).
  { intros a b. change (D d') with (D (remove_node x p) ++ acc). rewrite in_app_iff, rn_D. tauto. }
  (* x is a sink of d *)
  assert (Hsink : forall b, ~ In (x, b) (D d)).
  { intros b H. apply Hd in H. destruct H as [H|[(-> & _ & Hu)|H]].
    - apply (Hno b); [apply W1 in H; tauto|exact H].
    - apply Hun in Hu. tauto.
    - apply Hacc in H. tauto. }
  assert (Hdown : forall a b, In (a, b) (D d) -> b <> x -> In (a, b) (D d')).
  { intros a b H Hb. assert (Ha : a <> x) by (intros ->; apply (Hsink b H)).
    apply Hd'. apply Hd in H. destruct H as [H|[(-> & _)|H]]; tauto. }
  assert (Hup : forall a b, In (a, b) (D d') -> In (a, b) (D d)).
  { intros a b H. apply Hd. apply Hd' in H. tauto. }
  assert (Hends : forall a b, In (a, b) (D d) -> In a (V p) /\ In b (V p) /\ a <> b).
  { intros a b H. apply Hd in H. destruct H as [H|[(-> & Ha & Hu)|H]].
    - apply W1 in H. exact H.
    - apply Hun in Hu. tauto.
    - apply Hacc in H. tauto. }
  (* skeleton *)
  assert (Hsk : forall a b, Padj d a b <-> Padj p a b).
  { assert (Hfw : forall a b, In (a, b) (D d) -> Padj p a b).
    { intros a b H. apply Hd in H. destruct H as [H|[(-> & Ha & Hu)|H]].
      - left; exact H.
      - apply has_u_In in Hu. unfold Padj. tauto.
      - assert (Hp : Padj d' a b) by (left; apply Hd'; tauto).
        apply Hsk' in Hp. unfold p' in Hp. apply rn_Padj in Hp. tauto. }
    assert (Hbw : forall a b, In (a, b) (U p) -> Padj d a b).
    { intros a b H. destruct (W2 a b H) as (Ha & Hb & Hab).
      destruct (Nat.eq_dec a x) as [->|Hax].
      - right; left. apply Hd. right; left. repeat split; [exact Hb|]. apply has_u_In. tauto.
      - destruct (Nat.eq_dec b x) as [->|Hbx].
        + left. apply Hd. right; left. repeat split; [exact Ha|]. apply has_u_In. tauto.
        + assert (Hp : Padj p' a b) by (unfold p'; apply rn_Padj; unfold Padj; tauto).
          apply Hsk' in Hp. destruct Hp as [Hp|[Hp|[Hp|Hp]]]; try (simpl in Hp; contradiction).
          * left. apply Hup, Hp.
          * right; left. apply Hup, Hp. }
    intros a b. split.
    - intros [H|[H|[H|H]]]; try (simpl in H; contradiction).
      + apply Hfw, H.
      + apply Padj_sym, Hfw, H.
    - intros [H|[H|[H|H]]].
      + left. apply Hd. tauto.
      + right; left. apply Hd. tauto.
      + apply Hbw, H.
      + apply Padj_sym, Hbw, H. }
  unfold consistent_ext. split; [|split; [|split; [|split]]].
  - (* is_dag d *)
    unfold is_dag. split; [exact Hends|]. repeat split; try reflexivity.
    exists (fun v => if Nat.eqb v x then S (list_max (map rk' (V p))) else rk' v).
    intros a b H. assert (Ha : a <> x) by (intros ->; apply (Hsink b H)).
    apply Nat.eqb_neq in Ha. rewrite Ha. destruct (Nat.eqb b x) eqn:Eb.
    + apply Hends in H. pose proof (list_max_ge rk' (V p) a (proj1 H)). lia.
    + apply Nat.eqb_neq in Eb. apply Hrk'. apply (Hdown a b H Eb).
  - simpl. split; intros v Hv; exact Hv.
  - exact Hsk.
  - intros e He. destruct e as [a b]. apply Hd. tauto.
  - intros a c b. split.
    + intros (Hac & Hbc & Hab & Hnadj).
      assert (Hnp : ~ Padj p a b) by (intros H; apply Hnadj, Hsk, H).
      destruct (Nat.eq_dec c x) as [->|Hcx].
      * (* collider at x: both parents must come from D p *)
        assert (Hxa : Padj p x a) by (apply Hsk; right; left; exact Hac).
        assert (Hxb : Padj p x b) by (apply Hsk; right; left; exact Hbc).
        pose proof (Hends _ _ Hac) as (HaV & _ & _). pose proof (Hends _ _ Hbc) as (HbV & _ & _).
        apply Hd in Hac. apply Hd in Hbc.
        destruct Hac as [Hac|[(_ & _ & Hua)|Hac]]; [| |apply Hacc in Hac; tauto].
        -- destruct Hbc as [Hbc|[(_ & _ & Hub)|Hbc]]; [| |apply Hacc in Hbc; tauto].
           ++ repeat split; assumption.
           ++ exfalso. apply Hnp. apply Padj_sym. apply (Hnb b a HbV Hub HaV Hxa Hab).
        -- exfalso. apply Hnp. apply (Hnb a b HaV Hua HbV Hxb). congruence.
      * assert (Hv : Vstr d' a c b).
        { repeat split; try (apply Hdown; assumption); try assumption.
          intros H. apply Hnp. apply Hsk' in H. unfold p' in H. apply rn_Padj in H. tauto. }
        apply Hvs' in Hv. unfold p' in Hv. apply rn_Vstr in Hv. tauto.
    + intros (Hac & Hbc & Hab & Hnadj). repeat split.
      * apply Hd; tauto.
      * apply Hd; tauto.
      * exact Hab.
      * intros H. apply Hnadj, Hsk, H.
Qed.

Lemma pdag_loop_sound fuel : forall p new, wf_pdag p ->
  pdag_loop qual_dt fuel p = Some new -> consistent_ext p (mkd (V p) (D p ++ new)).
Proof.
  induction fuel as [|k IH]; intros p new Hwf Hl.
  - simpl in Hl. destruct (V p) eqn:EV; [|discriminate]. inversion Hl; subst new.
    destruct Hwf as (W1 & W2 & _). rewrite EV in W1, W2. apply edges_in_nil in W1. apply edges_in_nil in W2.
    unfold consistent_ext, is_dag, Padj, Vstr, acyclic, edges_in, Padj. simpl. rewrite W1, W2, EV. simpl.
    repeat split; try tauto; try (intros ? []).
    exists (fun _ => 0). intros ? ? [].
  - simpl in Hl. destruct (V p) eqn:EV.
    + inversion Hl; subst new.
      destruct Hwf as (W1 & W2 & _). rewrite EV in W1, W2. apply edges_in_nil in W1. apply edges_in_nil in W2.
      unfold consistent_ext, is_dag, Padj, Vstr, acyclic, edges_in, Padj. simpl. rewrite W1, W2, EV. simpl.
      repeat split; try tauto; try (intros ? []).
      exists (fun _ => 0). intros ? ? [].
    + rewrite <- EV in Hl |- *. destruct (find (qual_dt p) (V p)) as [x|] eqn:Ef; [|discriminate].
      apply find_some in Ef. destruct Ef as [Hx Hq]. unfold qual_dt in Hq. apply andb_true_iff in Hq.
      destruct Hq as [Hno Hnb].
      destruct (pdag_loop qual_dt k (remove_node x p)) as [acc|] eqn:Er; [|discriminate].
      inversion Hl; subst new. apply ext_step; try assumption.
      apply IH; [apply rn_wf; exact Hwf|exact Er].
Qed.

Theorem pdag_sound_proof p d : wf_pdag p -> pdag_model p = Some d -> consistent_ext p d.
Proof.
  unfold pdag_model, pdag_gen. intros Hwf H.
  destruct (pdag_loop qual_dt (length (V p)) p) as [new|] eqn:E; [|discriminate].
  inversion H; subst d. apply (pdag_loop_sound _ _ _ Hwf E).
Qed.

(* ---------- completeness ---------- *)
Lemma ext_restrict p d x : consistent_ext p d -> consistent_ext (remove_node x p) (remove_node x d).
Proof.
  intros (Hdag & HV & Hsk & Hin & Hvs). destruct Hdag as (E & HB & HU & HC & [rk Hrk]).
  unfold consistent_ext. split; [|split; [|split; [|split]]].
  - unfold is_dag. split; [|split; [reflexivity|split; [simpl; rewrite HU; reflexivity|split; [reflexivity|]]]].
    + intros a b H. apply rn_D in H. destruct H as (H & Ha & Hb). apply E in H. rewrite !rn_V. tauto.
    + exists rk. intros a b H. apply rn_D in H. apply Hrk. tauto.
  - destruct HV as [H1 H2]. split; intros v Hv; apply rn_V in Hv; apply rn_V; split; try tauto; [apply H1|apply H2]; tauto.
  - intros a b. rewrite !rn_Padj, Hsk. tauto.
  - intros [a b] H. apply rn_D in H. apply rn_D. split; [apply Hin; tauto|tauto].
  - intros a c b. rewrite !rn_Vstr, Hvs. tauto.
Qed.

Lemma ext_has_qualifying p d : wf_pdag p -> consistent_ext p d -> V p <> [] ->
  exists x, In x (V p) /\ qual_dt p x = true.
Proof.
  intros (W1 & W2 & W3 & W4) (Hdag & HV & Hsk & Hin & Hvs) Hne.
  destruct Hdag as (E & HB & HU & HC & [rk Hrk]).
  destruct (argmax_exists rk (V p) Hne) as [x [Hx Hmax]].
  exists x. split; [exact Hx|]. unfold qual_dt. apply andb_true_iff. split.
  - apply no_out_spec. intros c Hc Hd. apply Hin in Hd. apply Hrk in Hd. specialize (Hmax c Hc). lia.
  - apply nbhd_dt_spec. intros y z Hy Hu Hz Hxz Hne'.
    destruct (padj p y z) eqn:Ep; [apply padj_Padj; exact Ep|]. exfalso. apply padj_false in Ep.
    assert (Hinto : forall w, In w (V p) -> Padj p x w -> In (w, x) (D d)).
    { intros w Hw Hp. apply Hsk in Hp. destruct Hp as [Hp|[Hp|[Hp|Hp]]]; try (rewrite HU in Hp; destruct Hp).
      - apply Hrk in Hp. specialize (Hmax w Hw). lia.
      - exact Hp. }
    assert (Hxy : Padj p x y) by (apply has_u_In in Hu; unfold Padj; tauto).
    assert (Hv : Vstr d y x z).
    { repeat split; [apply Hinto; assumption|apply Hinto; assumption|congruence|].
      intros H. apply Ep. apply Hsk. exact H. }
    apply Hvs in Hv. destruct Hv as (Hyx & _). apply has_u_In in Hu. destruct (W4 y x Hyx). tauto.
Qed.

Lemma pdag_loop_complete fuel : forall p, wf_pdag p -> length (V p) <= fuel ->
  (exists d, consistent_ext p d) -> pdag_loop qual_dt fuel p <> None.
Proof.
  induction fuel as [|k IH]; intros p Hwf Hlen [d Hd].
  - simpl. destruct (V p) eqn:EV; [discriminate|simpl in Hlen; lia].
  - simpl. destruct (V p) eqn:EV; [discriminate|]. rewrite <- EV in *.
    destruct (ext_has_qualifying p d Hwf Hd) as [x0 [Hx0 Hq0]]; [rewrite EV; discriminate|].
    destruct (find (qual_dt p) (V p)) as [x|] eqn:Ef.
    + apply find_some in Ef. destruct Ef as [Hx Hq].
      assert (Hr : pdag_loop qual_dt k (remove_node x p) <> None).
      { apply IH; [apply rn_wf; exact Hwf| |exists (remove_node x d); apply ext_restrict; exact Hd].
        pose proof (rn_length x p Hx). lia. }
      destruct (pdag_loop qual_dt k (remove_node x p)); [discriminate|congruence].
    + pose proof (find_none _ _ Ef x0 Hx0). congruence.
Qed.

Theorem pdag_complete_proof p : wf_pdag p -> pdag_model p = None -> ~ exists d, consistent_ext p d.
Proof.
  unfold pdag_model, pdag_gen. intros Hwf H Hex.
  apply (pdag_loop_complete (length (V p)) p Hwf (le_n _)) in Hex.
  destruct (pdag_loop qual_dt (length (V p)) p); [discriminate|congruence].
Qed.

(* fuel never decides: any fuel >= |V| gives the same answer (for either test) *)
Lemma pdag_loop_fuel qual f1 : forall f2 p, length (V p) <= f1 -> length (V p) <= f2 ->
  pdag_loop qual f1 p = pdag_loop qual f2 p.
Proof.
  induction f1 as [|k IH]; intros f2 p H1 H2.
  - destruct f2; simpl; destruct (V p) eqn:EV; try reflexivity; simpl in H1; lia.
  - destruct f2; simpl; destruct (V p) eqn:EV; try reflexivity; [simpl in H2; lia|].
    rewrite <- EV in *. destruct (find (qual p) (V p)) as [x|] eqn:Ef; [|reflexivity].
    apply find_some in Ef. destruct Ef as [Hx _]. pose proof (rn_length x p Hx).
    rewrite (IH f2 (remove_node x p)); [reflexivity|lia|lia].
Qed.

Theorem pdag_total_proof : forall qual p fuel, length (V p) <= fuel ->
  pdag_loop qual fuel p = pdag_loop qual (length (V p)) p.
Proof. intros qual p fuel H. apply pdag_loop_fuel; [exact H|apply le_n]. Qed.
