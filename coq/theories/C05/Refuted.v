(* The clique test of the current code rejects an extendable PDAG: 0->2, 0->3, 1->2, 1->3, 2-3
   (the CPDAG of the DAG 0->2, 0->3, 1->2, 1->3, 2->3).  Also the design's witness a->x<-b, x-c, c-a, c-b. *)
From Coq Require Import List Arith Bool Lia.
From PG Require Import Base.ListSet Base.Sx Graph.MGraph C04.Dag C04.DagFacts C04.Model C05.Model C05.Spec C05.Proofs.
Import ListNotations.

Definition witness : mgraph := mkp [0;1;2;3] [(0,2);(0,3);(1,2);(1,3)] [(2,3)].
Definition witness2 : mgraph := mkp [0;1;2;3] [(0,3);(1,3)] [(3,2);(2,0);(2,1)].

Theorem pdag_complete_code_refuted_proof : pdag_complete_code_refuted_stmt.
Proof.
  exists witness. split; [apply wf_pdagb_spec; vm_compute; reflexivity|]. split; [vm_compute; reflexivity|].
  exists (mkd [0;1;2;3] ([(0,2);(0,3);(1,2);(1,3)] ++ [(3,2)])).
  apply pdag_sound_proof; [apply wf_pdagb_spec; vm_compute; reflexivity|vm_compute; reflexivity].
Qed.

Lemma witness2_refutes : wf_pdag witness2 /\ pdag_code witness2 = None /\ exists d, pdag_model witness2 = Some d.
Proof. split; [apply wf_pdagb_spec; vm_compute; reflexivity|]. split; [vm_compute; reflexivity|]. vm_compute. eexists; reflexivity. Qed.
