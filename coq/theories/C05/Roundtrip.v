(* C05 consequence, UNBOUNDED: for every DAG d and every topological order, pdag_to_dag (dag_to_cpdag d) succeeds
   and returns a DAG Markov equivalent to d.  Uses C04's structure + v-structure theorems and pdag_sound / pdag_complete. *)
From Coq Require Import List Arith Bool Lia.
From PG Require Import Base.ListSet Base.Sx Graph.MGraph C04.Dag C04.DagFacts C04.Model C04.Spec C04.Proofs C04.Structure
  C04.VStruct C04.VStructCor C05.Model C05.Spec C05.Proofs.
Import ListNotations.

Theorem roundtrip_equiv_proof : forall d ord, is_dag d -> topo d ord ->
  exists cg d', cpdag_graph d ord = Some cg /\ pdag_model cg = Some d' /\ consistent_ext cg d' /\ meq d d'.
Proof.
  intros d ord Hd Ht. destruct (cpdag_structure_thm d ord Hd Ht) as (c & r & Hm & _).
  pose proof (cpdag_wf_pdag d ord c r Hd Ht Hm) as Hwf.
  pose proof (dag_extends_its_cpdag d ord c r Hd Ht Hm) as Hext.
  unfold cpdag_graph. rewrite Hm. exists (mkp (V d) c r).
  destruct (pdag_model (mkp (V d) c r)) as [d'|] eqn:Ep.
  - exists d'. split; [reflexivity|]. split; [reflexivity|].
    pose proof (pdag_sound_proof _ _ Hwf Ep) as Hs. split; [exact Hs|].
    destruct Hs as (_ & [V1 V2] & Hsk' & _ & Hvs'). destruct Hext as (_ & _ & Hsk & _ & Hvs).
    unfold meq. split; [split; simpl in *; assumption|]. split.
    + intros a b. rewrite Hsk, Hsk'. tauto.
    + intros a y b. rewrite Hvs, Hvs'. tauto.
  - exfalso. apply (pdag_complete_proof _ Hwf Ep). exists d. exact Hext.
Qed.
