(* C05: both consequences, with the model's own choice of topological order for the second conversion (roundtrip_stmt),
   for ALL sizes. *)
From Coq Require Import List Arith Bool Lia.
From PG Require Import Base.ListSet Base.Sx Graph.MGraph C04.Dag C04.Model C04.Spec C05.Model C05.Spec C05.Proofs
  C05.Roundtrip C05.Fixpoint C05.SomeTopo.
Import ListNotations.

Theorem roundtrip_all_proof : forall d ord, is_dag d -> topo d ord -> roundtrip_stmt d ord.
Proof.
  intros d ord Hd Ht. destruct (cpdag_fixpoint_proof d ord Hd Ht) as (cg & d' & Hcg & Hp & Hm & Hfix).
  destruct (roundtrip_equiv_proof d ord Hd Ht) as (cg0 & d0 & Hcg0 & Hp0 & (Hd0 & _) & _).
  rewrite Hcg in Hcg0. inversion Hcg0; subst cg0. rewrite Hp in Hp0. inversion Hp0; subst d0.
  destruct (Hfix (some_topo d') (some_topo_topo d' Hd0)) as (cg' & Hc' & He).
  exists cg, d'. split; [exact Hcg|]. split; [exact Hp|]. split; [exact Hm|]. exists cg'. split; assumption.
Qed.
