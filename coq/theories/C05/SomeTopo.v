(* [some_topo d] (repeated sink removal) is a topological order of every DAG d: in particular every DAG has one. *)
From Coq Require Import List Arith Bool Lia.
From PG Require Import Base.ListSet Base.Sx Graph.MGraph C04.Dag C04.DagFacts C04.Acyc C04.Model C04.Spec C05.Model.
Import ListNotations.

Definition Before (l : list nat) (a b : nat) : Prop := exists l1 l2 l3, l = l1 ++ a :: l2 ++ b :: l3.

Lemma index_of_app_notin a l1 l2 : ~ In a l1 -> index_of a (l1 ++ l2) = length l1 + index_of a l2.
Proof.
  induction l1 as [|z t IH]; simpl; intros H; [reflexivity|].
  destruct (Nat.eqb a z) eqn:E; [apply Nat.eqb_eq in E; exfalso; apply H; left; congruence|]. rewrite IH; [reflexivity|tauto].
Qed.

Lemma Before_index l a b : NoDup l -> Before l a b -> index_of a l < index_of b l.
Proof.
  intros Hnd (l1 & l2 & l3 & ->).
  assert (Ha : ~ In a l1). { apply NoDup_remove_2 in Hnd. intros H. apply Hnd. apply in_or_app. left; exact H. }
  assert (Hb : ~ In b (l1 ++ a :: l2)).
  { replace (l1 ++ a :: l2 ++ b :: l3) with ((l1 ++ a :: l2) ++ b :: l3) in Hnd by (rewrite <- app_assoc; reflexivity).
    apply NoDup_remove_2 in Hnd. intros H. apply Hnd. apply in_or_app. left; exact H. }
  rewrite (index_of_app_notin a l1 _ Ha). simpl. rewrite Nat.eqb_refl.
  replace (l1 ++ a :: l2 ++ b :: l3) with ((l1 ++ a :: l2) ++ b :: l3) by (rewrite <- app_assoc; reflexivity).
  rewrite (index_of_app_notin b _ _ Hb). rewrite app_length. simpl. lia.
Qed.

Lemma topo_loop_spec es rk fuel : forall vs acc, length vs <= fuel -> ranked es vs rk ->
  exists pre, topo_loop fuel es vs acc = pre ++ acc /\ NoDup pre /\ (forall x, In x pre <-> In x vs) /\
              (forall a b, In (a, b) es -> In a pre -> In b pre -> Before pre a b).
Proof.
  induction fuel as [|k IH]; intros vs acc Hl Hr.
  - destruct vs; [|simpl in Hl; lia]. exists []. simpl. repeat split; try tauto; try constructor.
  - destruct vs as [|v0 t] eqn:EV.
    { exists []. simpl. repeat split; try tauto; try constructor. }
    rewrite <- EV in *. assert (Hne : vs <> []) by (rewrite EV; discriminate).
    destruct (argmax_exists rk vs Hne) as [x [Hx Hmax]].
    assert (Hsx : is_sink_in es vs x = true).
    { apply is_sink_in_spec. intros b He Hb. pose proof (Hr x b He Hx Hb). specialize (Hmax b Hb). lia. }
    assert (Eq : topo_loop (S k) es vs acc =
                 match find (is_sink_in es vs) vs with None => acc | Some v => topo_loop k es (rm v vs) (v :: acc) end).
    { rewrite EV. reflexivity. }
    rewrite Eq. destruct (find (is_sink_in es vs) vs) as [v|] eqn:Ef; [|pose proof (find_none _ _ Ef x Hx); congruence].
    apply find_some in Ef. destruct Ef as [Hv Hs]. rewrite is_sink_in_spec in Hs.
    destruct (IH (rm v vs) (v :: acc)) as (pre & E1 & N1 & M1 & F1).
    + pose proof (rm_length v vs Hv). lia.
    + intros a b He Ha Hb. apply rm_In in Ha. apply rm_In in Hb. apply Hr; tauto.
    + exists (pre ++ [v]). split; [rewrite E1, <- app_assoc; reflexivity|]. split; [|split].
      * assert (Hnv : ~ In v pre) by (intros H; apply M1 in H; apply rm_In in H; tauto).
        clear -N1 Hnv. induction pre as [|p q IHp]; simpl; [constructor; [tauto|constructor]|].
        inversion N1; subst. constructor.
        -- rewrite in_app_iff. simpl. intros [H|[H|[]]]; [tauto|]. apply Hnv. left; congruence.
        -- apply IHp; [assumption|]. intros H. apply Hnv. right; exact H.
      * intros y. rewrite in_app_iff, M1, rm_In. simpl. split.
        -- intros [[H _]|[<-|[]]]; assumption.
        -- intros H. destruct (Nat.eq_dec y v) as [->|n]; [right; left; reflexivity|left; tauto].
      * intros a b He Ha Hb. rewrite in_app_iff in Ha, Hb. simpl in Ha, Hb.
        destruct Ha as [Ha|[<-|[]]].
        -- destruct Hb as [Hb|[<-|[]]].
           ++ destruct (F1 a b He Ha Hb) as (l1 & l2 & l3 & ->). exists l1, l2, (l3 ++ [v]).
              rewrite <- !app_assoc. simpl. rewrite <- app_assoc. reflexivity.
           ++ destruct (in_split _ _ Ha) as (l1 & l2 & ->). exists l1, l2, []. rewrite <- app_assoc. reflexivity.
        -- exfalso. destruct Hb as [Hb|[<-|[]]].
           ++ apply M1 in Hb. apply rm_In in Hb. apply (Hs b He). tauto.
           ++ apply (Hs v He Hv).
Qed.

Theorem some_topo_topo d : is_dag d -> topo d (some_topo d).
Proof.
  intros (E & _ & _ & _ & [rk Hrk]). unfold some_topo.
  destruct (topo_loop_spec (D d) rk (length (V d)) (V d) [] (le_n _)) as (pre & Eq & Nd & Mem & Fw).
  { intros a b H _ _. apply Hrk, H. }
  rewrite Eq, app_nil_r. split; [exact Nd|]. split; [split; intros x Hx; apply Mem; exact Hx|].
  intros a b H. apply Before_index; [exact Nd|]. destruct (E a b H) as (Ha & Hb & _).
  apply Fw; [exact H|apply Mem, Ha|apply Mem, Hb].
Qed.

Corollary topo_order_exists d : is_dag d -> exists ord, topo d ord.
Proof. intros H. exists (some_topo d). apply some_topo_topo, H. Qed.
