(* C05 — the property as Props: pdag_to_dag returns a consistent extension exactly when one exists.
   [consistent_ext p d] (C04/Dag.v): d is a DAG on p's nodes with p's skeleton, keeps every directed edge of p
   and has exactly p's v-structures.  [wf_pdag p]: endpoints are nodes, no self loops, at most one edge per pair;
   acyclicity of the directed layer is NOT assumed (a cyclic layer simply has no extension). *)
From Coq Require Import List Arith Bool Lia.
From PG Require Import Base.ListSet Base.Sx Graph.MGraph C04.Dag C04.Model C04.Spec C05.Model.
Import ListNotations.

Definition pdag_sound_stmt : Prop := forall p d, wf_pdag p -> pdag_model p = Some d -> consistent_ext p d.
Definition pdag_complete_stmt : Prop := forall p, wf_pdag p -> pdag_model p = None -> ~ exists d, consistent_ext p d.
(* the fuel (= number of nodes) never decides *)
Definition pdag_total_stmt : Prop := forall qual p fuel, length (V p) <= fuel ->
  pdag_loop qual fuel p = pdag_loop qual (length (V p)) p.

(* the test the code has today (clique on undirected neighbours ∪ parents) is incomplete *)
Definition pdag_complete_code_refuted_stmt : Prop :=
  exists p, wf_pdag p /\ pdag_code p = None /\ exists d, consistent_ext p d.

(* consequence 2, unbounded, proved (C05/Roundtrip.v): dag_to_cpdag followed by pdag_to_dag is Markov equivalent to d *)
Definition roundtrip_equiv_stmt : Prop := forall d ord, is_dag d -> topo d ord ->
  exists cg d', cpdag_graph d ord = Some cg /\ pdag_model cg = Some d' /\ consistent_ext cg d' /\ meq d d'.

(* both consequences incl. the fixpoint pdag_to_cpdag (cpdag d) = cpdag d, with the model's own order some_topo for the second
   conversion: PROVED for all sizes (C05/RoundtripAll.v; C05/Fixpoint.v for every order) *)
Definition roundtrip_stmt (d : mgraph) (ord : list nat) : Prop :=
  exists c d', cpdag_graph d ord = Some c /\ pdag_model c = Some d' /\ meq d d' /\
    exists c', cpdag_graph d' (some_topo d') = Some c' /\ graph_eqb c c' = true.
