(* C06 — the bounded kernel computation restated with the Props of Spec.v (msep / dsep by m-connecting paths). *)
From Coq Require Import List Arith Bool Lia.
From PG Require Import Base.ListSet Graph.MGraph Graph.MSep C06.Model C06.Spec C06.Enum C06.Lift C06.Bounded_n4.
Import ListNotations.

Lemma S_of_V n E L0 S0 : incl (S_of n L0 S0) (V (dag_of n E)).
Proof. intros v Hv. apply S_of_In in Hv. simpl. unfold nodes. apply in_seq. lia. Qed.

(* for EVERY edge list E with acyclic directed graph on 0..n-1, n <= 4, every L0, S0 (L = L0 /\ V, S = S0 /\ V \ L):
   x, y adjacent in the MAG  <->  no set Z of other observed nodes d-separates them given Z u S *)
Theorem mag_adjacency_bounded_4_prop n E L0 S0 :
  n <= 4 -> acyclicb (dag_of n E) = true ->
  mag_adjacency_stmt (dag_of n E) (L_of n L0) (S_of n L0 S0).
Proof.
  intros Hn Hac. apply adjacency_lift; [apply S_of_V|]. apply mag_adjacency_bounded_4; assumption.
Qed.

(* ... and m-separation given Z in the MAG  <->  d-separation given Z u S in the DAG *)
Theorem mag_independence_bounded_4_prop n E L0 S0 :
  n <= 4 -> acyclicb (dag_of n E) = true ->
  mag_independence_stmt (dag_of n E) (L_of n L0) (S_of n L0 S0).
Proof.
  intros Hn Hac. apply independence_lift; [apply S_of_V|]. apply mag_independence_bounded_4; assumption.
Qed.
