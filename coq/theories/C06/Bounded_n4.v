(* C06 — the two research-level clauses of dag_to_mag (adjacency = inseparability, m-separation in the MAG =
   d-separation given S in the DAG) for ALL DAGs on at most 4 nodes, all disjoint (L,S), all ordered pairs, all
   conditioning sets: kernel computation over the enumerations of C06/Enum.v (about 80 s of vm_compute). *)
From Coq Require Import List Arith Bool Lia.
From PG Require Import Base.ListSet Graph.MGraph Graph.MSep C06.Model C06.Enum.
Import ListNotations.

Definition mag_ok (d : mgraph) (L S : list nat) : bool := adjacency_ok d L S && independence_ok d L S.

Definition check_n (n : nat) : bool :=
  forallb (fun d => forallb (fun ls => mag_ok d (fst ls) (snd ls)) (ls_enum (nodes n))) (dags n).

Lemma check_le4 : forallb check_n [0; 1; 2; 3; 4] = true.
Proof. vm_compute. reflexivity. Qed.

(* E, L0, S0 are ARBITRARY lists: the graph is the DAG on 0..n-1 whose edge set is E (restricted to proper pairs),
   L = L0 restricted to the nodes, S = S0 restricted to the nodes outside L *)
Theorem mag_ok_bounded_4 n E L0 S0 :
  n <= 4 -> acyclicb (dag_of n E) = true ->
  mag_ok (dag_of n E) (L_of n L0) (S_of n L0 S0) = true.
Proof.
  intros Hn Hac. pose proof check_le4 as H. rewrite forallb_forall in H.
  assert (Hin : In n [0; 1; 2; 3; 4]) by (simpl; lia).
  specialize (H n Hin). unfold check_n in H. rewrite forallb_forall in H.
  specialize (H _ (dag_of_enum n E Hac)). rewrite forallb_forall in H.
  exact (H _ (ls_of_enum n L0 S0)).
Qed.

Corollary mag_adjacency_bounded_4 n E L0 S0 :
  n <= 4 -> acyclicb (dag_of n E) = true ->
  adjacency_ok (dag_of n E) (L_of n L0) (S_of n L0 S0) = true.
Proof. intros Hn Hac. pose proof (mag_ok_bounded_4 n E L0 S0 Hn Hac) as H. apply andb_true_iff in H. tauto. Qed.

Corollary mag_independence_bounded_4 n E L0 S0 :
  n <= 4 -> acyclicb (dag_of n E) = true ->
  independence_ok (dag_of n E) (L_of n L0) (S_of n L0 S0) = true.
Proof. intros Hn Hac. pose proof (mag_ok_bounded_4 n E L0 S0 Hn Hac) as H. apply andb_true_iff in H. tauto. Qed.

(* the hypotheses are satisfiable on a non-trivial input: 0 -> 2 <- 1, 2 -> 3 with L = {}, S = {3}: conditioning on the
   descendant 3 of the collider makes 0 and 1 adjacent (undirected: both are ancestors of S) *)
Example mag_example :
  let d := dag_of 4 [(0, 2); (1, 2); (2, 3)] in
  acyclicb d = true /\ U (dag_to_mag_model d (L_of 4 []) (S_of 4 [] [3])) = [(0, 1); (0, 2); (1, 2)].
Proof. vm_compute. split; reflexivity. Qed.
