(* Finite enumerations used by the bounded theorems of C06/C07: all edge subsets over the ordered pairs of 0..n-1,
   all disjoint (L,S), and the coverage lemmas: the canonical listing of ANY edge list / node lists is enumerated. *)
From Coq Require Import List Arith Bool Lia.
From PG Require Import Base.ListSet Graph.MGraph C06.Model.
Import ListNotations.

Fixpoint psublists (l : list (nat * nat)) : list (list (nat * nat)) :=
  match l with
  | [] => [[]]
  | x :: t => let r := psublists t in r ++ map (cons x) r
  end.

Lemma filter_in_psublists f l : In (filter f l) (psublists l).
Proof.
  induction l as [|x t IH]; simpl; [left; reflexivity|].
  apply in_or_app. destruct (f x); [right; apply in_map; exact IH|left; exact IH].
Qed.

Lemma filter_in_sublists f l : In (filter f l) (sublists l).
Proof.
  induction l as [|x t IH]; simpl; [left; reflexivity|].
  apply in_or_app. destruct (f x); [right; apply in_map; exact IH|left; exact IH].
Qed.

Definition ordered_pairs := opairs.

Lemma ordered_pairs_In l a b : In (a, b) (ordered_pairs l) <-> In a l /\ In b l /\ a <> b.
Proof.
  unfold ordered_pairs, opairs. rewrite in_flat_map. split.
  - intros [a' [Ha H]]. apply in_map_iff in H. destruct H as [b' [E H]]. inversion E; subst.
    apply filter_In in H. destruct H as [Hb H]. apply negb_true_iff, Nat.eqb_neq in H. auto.
  - intros [Ha [Hb Hne]]. exists a. split; [exact Ha|]. apply in_map. apply filter_In. split; [exact Hb|].
    apply negb_true_iff, Nat.eqb_neq. exact Hne.
Qed.

Definition nodes (n : nat) : list nat := seq 0 n.
Definition all_pairs (n : nat) : list (nat * nat) := ordered_pairs (nodes n).

(* canonical listing of an arbitrary edge list restricted to the proper pairs over 0..n-1 *)
Definition canon_edges (n : nat) (E : list (nat * nat)) : list (nat * nat) :=
  filter (fun p => pmemb p E) (all_pairs n).

Lemma canon_edges_In n E a b :
  In (a, b) (canon_edges n E) <-> In (a, b) E /\ a < n /\ b < n /\ a <> b.
Proof.
  unfold canon_edges, all_pairs, nodes. rewrite filter_In, ordered_pairs_In, pmemb_In, !in_seq. split.
  - intros [[H1 [H2 H3]] H4]. repeat split; auto; lia.
  - intros [H1 [H2 [H3 H4]]]. repeat split; auto; lia.
Qed.

Lemma canon_edges_enum n E : In (canon_edges n E) (psublists (all_pairs n)).
Proof. apply filter_in_psublists. Qed.

(* the DAG on 0..n-1 with edge set E *)
Definition dag_of (n : nat) (E : list (nat * nat)) : mgraph := MkG (nodes n) (canon_edges n E) [] [] [].
Definition digraphs (n : nat) : list mgraph := map (fun E => MkG (nodes n) E [] [] []) (psublists (all_pairs n)).
Definition dags (n : nat) : list mgraph := filter acyclicb (digraphs n).

Lemma dag_of_enum n E : acyclicb (dag_of n E) = true -> In (dag_of n E) (dags n).
Proof.
  intros H. apply filter_In. split; [|exact H]. unfold digraphs, dag_of.
  apply in_map_iff. exists (canon_edges n E). split; [reflexivity|apply canon_edges_enum].
Qed.

(* all disjoint (L, S) over a node list; canonical listing of arbitrary L0, S0 *)
Definition ls_enum (vs : list nat) : list (list nat * list nat) :=
  flat_map (fun L => map (pair L) (sublists (diffb vs L))) (sublists vs).
Definition L_of (n : nat) (L0 : list nat) : list nat := filter (fun v => memb v L0) (nodes n).
Definition S_of (n : nat) (L0 S0 : list nat) : list nat := filter (fun v => memb v S0) (diffb (nodes n) (L_of n L0)).

Lemma ls_of_enum n L0 S0 : In (L_of n L0, S_of n L0 S0) (ls_enum (nodes n)).
Proof.
  unfold ls_enum. apply in_flat_map. exists (L_of n L0). split; [apply filter_in_sublists|].
  apply in_map. apply filter_in_sublists.
Qed.

Lemma L_of_In n L0 v : In v (L_of n L0) <-> v < n /\ In v L0.
Proof. unfold L_of, nodes. rewrite filter_In, in_seq, memb_In. split; intros [H1 H2]; split; auto; lia. Qed.
Lemma S_of_In n L0 S0 v : In v (S_of n L0 S0) <-> v < n /\ In v S0 /\ ~ In v L0.
Proof.
  unfold S_of. rewrite filter_In, diffb_In, L_of_In, memb_In. unfold nodes. rewrite in_seq. split.
  - intros [[H1 H2] H3]. repeat split; auto; try lia. intros H. apply H2. split; [lia|exact H].
  - intros [H1 [H2 H3]]. repeat split; auto; try lia. tauto.
Qed.
