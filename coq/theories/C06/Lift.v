(* C06 — from the boolean brute-force oracles to the Prop statements of Spec.v (via Graph/MSepDec.msep_dec_spec). *)
From Coq Require Import List Arith Bool Lia.
From PG Require Import Base.ListSet Base.Closure Graph.MGraph Graph.MSep Graph.MSepDec C06.Model C06.Spec C06.Enum.
Import ListNotations.

(* m-separation depends on the conditioning set only as a set *)
Lemma open_inner_seteq g Z Z' p : set_eq Z Z' -> open_inner g Z p -> open_inner g Z' p.
Proof.
  intros [H1 H2]. induction p as [|[k1 b] t IH]; [simpl; tauto|]. destruct t as [|[k2 c] t']; [simpl; tauto|].
  change (open_inner g Z ((k1, b) :: (k2, c) :: t'))
    with ((if collider k1 k2 then in_anc g Z b else ~ In b Z) /\ open_inner g Z ((k2, c) :: t')).
  change (open_inner g Z' ((k1, b) :: (k2, c) :: t'))
    with ((if collider k1 k2 then in_anc g Z' b else ~ In b Z') /\ open_inner g Z' ((k2, c) :: t')).
  intros [Ha Hb]. split; [|apply IH; exact Hb]. destruct (collider k1 k2).
  - unfold in_anc in *. eapply reach_incl; [exact H1|exact Ha].
  - intros Hin. apply Ha. apply H2. exact Hin.
Qed.

Lemma msep_seteq g X Y Z Z' : set_eq Z Z' -> msep g X Y Z -> msep g X Y Z'.
Proof.
  intros Hs H x y p Hx Hy [Hne [Hst [Hnd [Hl Ho]]]]. apply (H x y p Hx Hy).
  repeat split; auto. apply open_inner_seteq with Z'; [|exact Ho]. destruct Hs; split; assumption.
Qed.

Lemma set_eq_app_r (Z Z' S : list nat) : set_eq Z Z' -> set_eq (Z ++ S) (Z' ++ S).
Proof.
  intros [H1 H2]. split; intros a Ha; apply in_app_iff in Ha; apply in_app_iff; destruct Ha; auto.
Qed.

Lemma set_eq_sym {A} (l m : list A) : set_eq l m -> set_eq m l.
Proof. intros [H1 H2]. split; assumption. Qed.

Lemma obs_In d L S v : In v (obs d L S) <-> In v (V d) /\ ~ In v (L ++ S).
Proof. unfold obs. apply diffb_In. Qed.

Section Lift.
Variables (d : mgraph) (L S : list nat).
Hypothesis HS : incl S (V d).
Let O := obs d L S.
Let m := dag_to_mag_model d L S.

Lemma O_V : incl O (V d).
Proof. intros v Hv. apply obs_In in Hv. tauto. Qed.

Lemma ZS_V Z : incl Z O -> incl (Z ++ S) (V (only_directed d)).
Proof. intros HZ v Hv. simpl. apply in_app_iff in Hv. destruct Hv as [Hv|Hv]; [apply O_V, HZ, Hv|apply HS, Hv]. Qed.

Lemma dsep_dec_spec X Y Z : incl Z O -> (dsep_dec d X Y (Z ++ S) = true <-> dsep d X Y (Z ++ S)).
Proof. intros HZ. unfold dsep_dec, dsep. apply msep_dec_spec. apply ZS_V. exact HZ. Qed.

(* every admissible Z has a representative in the enumeration *)
Lemma Z_repr x y Z : incl Z O -> ~ In x Z -> ~ In y Z ->
  exists Z', In Z' (sublists (diffb O [x; y])) /\ set_eq Z Z'.
Proof.
  intros HZ Hx Hy. apply sublists_complete. intros v Hv. apply diffb_In. split; [apply HZ, Hv|].
  intros [<-|[<-|[]]]; contradiction.
Qed.

Lemma Z_enum x y Z : In Z (sublists (diffb O [x; y])) -> incl Z O /\ ~ In x Z /\ ~ In y Z.
Proof.
  intros H. apply sublists_incl in H. split; [|split].
  - intros v Hv. apply H in Hv. apply diffb_In in Hv. tauto.
  - intros Hx. apply H in Hx. apply diffb_In in Hx. apply (proj2 Hx). left; reflexivity.
  - intros Hy. apply H in Hy. apply diffb_In in Hy. apply (proj2 Hy). right; left; reflexivity.
Qed.

Lemma spec_adj_spec x y :
  spec_adj d L S x y = true <->
  forall Z, incl Z O -> ~ In x Z -> ~ In y Z -> ~ dsep d [x] [y] (Z ++ S).
Proof.
  unfold spec_adj. rewrite forallb_forall. split.
  - intros H Z HZ Hx Hy Hsep. destruct (Z_repr x y Z HZ Hx Hy) as [Z' [Hin Heq]].
    specialize (H Z' Hin). apply negb_true_iff in H.
    assert (E : dsep_dec d [x] [y] (Z' ++ S) = true).
    { apply dsep_dec_spec; [apply (Z_enum x y Z' Hin)|].
      unfold dsep in *. apply msep_seteq with (Z ++ S); [apply set_eq_app_r; exact Heq|exact Hsep]. }
    congruence.
  - intros H Z Hin. destruct (Z_enum x y Z Hin) as [HZ [Hx Hy]]. apply negb_true_iff.
    destruct (dsep_dec d [x] [y] (Z ++ S)) eqn:E; [|reflexivity]. exfalso.
    apply (H Z HZ Hx Hy). apply dsep_dec_spec; assumption.
Qed.

Lemma adjacency_lift : adjacency_ok d L S = true -> mag_adjacency_stmt d L S.
Proof.
  unfold adjacency_ok. rewrite forallb_forall. intros H x y Hx Hy Hne.
  assert (Hp : In (x, y) (opairs (obs d L S))) by (apply ordered_pairs_In; auto).
  specialize (H _ Hp). cbn [fst snd] in H. apply eqb_prop in H. rewrite H. apply spec_adj_spec.
Qed.

Lemma independence_lift : independence_ok d L S = true -> mag_independence_stmt d L S.
Proof.
  unfold independence_ok. rewrite forallb_forall. intros H x y Z Hx Hy Hne HZ HxZ HyZ.
  assert (Hp : In (x, y) (opairs (obs d L S))) by (apply ordered_pairs_In; auto).
  specialize (H _ Hp). cbn [fst snd] in H. rewrite forallb_forall in H.
  destruct (Z_repr x y Z HZ HxZ HyZ) as [Z' [Hin Heq]]. specialize (H Z' Hin). apply eqb_prop in H.
  destruct (Z_enum x y Z' Hin) as [HZ' _].
  assert (Hm : msep_dec (dag_to_mag_model d L S) [x] [y] Z' = true <-> msep (dag_to_mag_model d L S) [x] [y] Z').
  { apply msep_dec_spec. exact HZ'. }
  pose proof (dsep_dec_spec [x] [y] Z' HZ') as Hd.
  split; intros Hsep.
  - unfold dsep. apply msep_seteq with (Z' ++ S); [apply set_eq_app_r, set_eq_sym, Heq|].
    apply Hd. rewrite <- H. apply Hm. apply msep_seteq with Z; assumption.
  - apply msep_seteq with Z'; [apply set_eq_sym, Heq|]. apply Hm. rewrite H. apply Hd.
    unfold dsep in *. apply msep_seteq with (Z ++ S); [apply set_eq_app_r, Heq|exact Hsep].
Qed.
End Lift.
