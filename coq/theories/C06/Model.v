(* C06: executable model of what the property demands of
     inducing_path (pywhy_graphs/algorithms/generic.py L527-617, with _shortest_valid_path L437-524, _is_collider L409-434)
     dag_to_mag    (generic.py L717-790).
   inducing_model is the REPAIRED search: a depth-first enumeration of simple paths that un-marks on backtrack
   (the code shares one never-unmarked [visited] set between branches, DESIGN 9.1), pruned by the same test the
   code applies to the triple (prev, cur, next): cur a collider => cur in An*({x,y} u S); otherwise cur in L.
   Paths are step lists (Graph/MSep.v): a step names its layer, so a pair carrying -> and <-> offers two steps. *)
From Coq Require Import List Arith Bool Lia.
From PG Require Import Base.ListSet Base.Closure Base.Sx Graph.MGraph Graph.MSep.
Import ListNotations.

(* admissibility of the inner node b, entered by step kind k1 and left by k2 *)
Definition ok_inner (An L : list nat) (k1 : skind) (b : nat) (k2 : skind) : bool :=
  if collider k1 k2 then memb b An else memb b L.

(* the node a was entered by step kind kin (None: a is the start node, nothing to test) and is left by k *)
Definition ok_at (An L : list nat) (kin : option skind) (a : nat) (k : skind) : bool :=
  match kin with None => true | Some k1 => ok_inner An L k1 a k end.

(* all admissible continuations from the node a (entered by kin) that end in y; [visited] = nodes on the path so far
   (a included).  Reaching y ends the path (a path is simple, y cannot be an inner node). *)
Fixpoint ind_from (g : mgraph) (An L : list nat) (y : nat) (fuel : nat) (a : nat) (kin : option skind)
         (visited : list nat) : list spath :=
  match fuel with
  | 0 => []
  | S f =>
      flat_map (fun s : skind * nat =>
                  if ok_at An L kin a (fst s) then
                    if Nat.eqb (snd s) y then [[s]]
                    else map (cons s) (ind_from g An L y f (snd s) (Some (fst s)) (snd s :: visited))
                  else [])
               (next_steps g a visited)
  end.

Definition ind_anc (g : mgraph) (x y : nat) (S : list nat) : list nat := anc_of g (x :: y :: S).

Definition ind_paths (g : mgraph) (x y : nat) (L S : list nat) : list spath :=
  ind_from g (ind_anc g x y S) L y (Datatypes.S (length (V g))) x None [x].

(* (False, []) when an endpoint is latent or selected (generic.py L577-578) *)
Definition inducing_model (g : mgraph) (x y : nat) (L S : list nat) : bool * list nat :=
  if memb x (L ++ S) || memb y (L ++ S) then (false, [])
  else match ind_paths g x y L S with
       | [] => (false, [])
       | p :: _ => (true, nodes_of x p)
       end.

Definition inducing_b (g : mgraph) (x y : nat) (L S : list nat) : bool := fst (inducing_model g x y L S).

(* ---------------- dag_to_mag ---------------- *)
Definition obs (d : mgraph) (L S : list nat) : list nat := diffb (V d) (L ++ S).

Fixpoint upairs (l : list nat) : list (nat * nat) :=
  match l with
  | [] => []
  | a :: t => map (pair a) t ++ upairs t
  end.

(* all ordered pairs (a,b), a <> b, of a list *)
Definition opairs (l : list nat) : list (nat * nat) :=
  flat_map (fun a => map (pair a) (filter (fun b => negb (Nat.eqb a b)) l)) l.

(* a in An*({b} u S) *)
Definition in_an (d : mgraph) (S : list nat) (a b : nat) : bool := memb a (anc_of d (b :: S)).

Definition mag_pairs (d : mgraph) (L S : list nat) : list (nat * nat) :=
  filter (fun p => inducing_b d (fst p) (snd p) L S) (upairs (obs d L S)).

Definition swap (p : nat * nat) : nat * nat := (snd p, fst p).

Definition dag_to_mag_model (d : mgraph) (L S : list nat) : mgraph :=
  let adj := mag_pairs d L S in
  let ab p := in_an d S (fst p) (snd p) in          (* A in An(B u S) *)
  let ba p := in_an d S (snd p) (fst p) in          (* B in An(A u S) *)
  MkG (obs d L S)
      (filter (fun p => ab p && negb (ba p)) adj ++ map swap (filter (fun p => negb (ab p) && ba p) adj))
      (filter (fun p => negb (ab p) && negb (ba p)) adj)
      (filter (fun p => ab p && ba p) adj)
      [].

(* ---------------- brute-force spec oracles ---------------- *)
Definition dsep_dec (d : mgraph) (X Y Z : list nat) : bool := msep_dec (only_directed d) X Y Z.

(* no subset of the other observed nodes d-separates x and y given S *)
Definition spec_adj (d : mgraph) (L S : list nat) (x y : nat) : bool :=
  forallb (fun Z => negb (dsep_dec d [x] [y] (Z ++ S))) (sublists (diffb (obs d L S) [x; y])).

Definition adjacency_ok (d : mgraph) (L S : list nat) : bool :=
  let m := dag_to_mag_model d L S in
  forallb (fun p => Bool.eqb (adjacent m (fst p) (snd p)) (spec_adj d L S (fst p) (snd p)))
          (opairs (obs d L S)).

Definition independence_ok (d : mgraph) (L S : list nat) : bool :=
  let m := dag_to_mag_model d L S in
  let O := obs d L S in
  forallb (fun p =>
             forallb (fun Z => Bool.eqb (msep_dec m [fst p] [snd p] Z) (dsep_dec d [fst p] [snd p] (Z ++ S)))
                     (sublists (diffb O [fst p; snd p])))
          (opairs O).

(* ---------------- run_case ----------------
   in : L [I mode; graph; L; S; L [ L [x; y]; ... ]]       mode bit0: graph is a DAG -> also dag_to_mag
                                                            mode bit1: also the brute-force oracles
   out: L [ L [ L [I found; path-nodes; L [all inducing node paths]] ... ];
            mag graph | L [];  L [I adjacency_ok; I independence_ok] | L [] ]                           *)
Definition run_case (s : sx) : sx :=
  let mode := sx_nat (sx_nth s 0) in
  let g := sx_graph (sx_nth s 1) in
  let Ls := sx_nats (sx_nth s 2) in
  let Ss := sx_nats (sx_nth s 3) in
  let qs := sx_pairs (sx_nth s 4) in
  let isdag := Nat.odd mode in
  let oracle := Nat.odd (Nat.div2 mode) in
  L [ L (map (fun q =>
               let r := inducing_model g (fst q) (snd q) Ls Ss in
               L [of_bool (fst r); of_nats (snd r);
                  of_natss (if fst r then map (nodes_of (fst q)) (ind_paths g (fst q) (snd q) Ls Ss) else [])]) qs);
      (if isdag then of_graph (dag_to_mag_model g Ls Ss) else L []);
      (if isdag && oracle then L [of_bool (adjacency_ok g Ls Ss); of_bool (independence_ok g Ls Ss)] else L []) ].
