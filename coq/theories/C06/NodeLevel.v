(* C06 — the code tests colliders at NODE level: _is_collider(G, prev, cur, next) (generic.py L409-434) is true iff both
   neighbours have an arrowhead INTO cur by ANY edge between them (prev/next in parents(cur) u spouses(cur)); the
   model and the spec (C06/Model.v, Spec.v) are EDGE level (a step names its layer, so on a bow a -> b, a <-> b the path
   chooses the edge).  This file defines the node-level search and proves that it decides the same thing:
     inducing_node_level g x y L S = true  <->  exists p, inducing_path_def g L S x p y
   for well-formed graphs without undirected edges whose directed layer is acyclic (bows allowed).  Only the absence of
   2-cycles is used from acyclicity; with a 2-cycle the two readings differ (node_level_needs_acyclic below). *)
From Coq Require Import List Arith Bool Lia.
From PG Require Import Base.ListSet Base.Closure Graph.MGraph Graph.MSep Graph.MSepDec C06.Model C06.Spec C06.Proofs.
Import ListNotations.

(* ---------------- the node-level search ---------------- *)
(* an arrowhead into b on some edge between a and b: a in parents(b) u spouses(b) *)
Definition into (g : mgraph) (a b : nat) : bool := has_d g a b || has_b g a b.
(* _is_collider(G, prev = a, cur = b, next = c) *)
Definition ncoll (g : mgraph) (a b c : nat) : bool := into g a b && into g c b.
(* the test of _shortest_valid_path on (prev, cur = a, elem = c): collider => in An u S, non-collider => in L *)
Definition nok (g : mgraph) (An L : list nat) (prev : option nat) (a c : nat) : bool :=
  match prev with
  | None => true
  | Some p => if ncoll g p a c then memb a An else memb a L
  end.

(* depth-first search over neighbours (un-marking on backtrack); neighbours are listed layer by layer through
   [next_steps], the layer label plays no role in the test *)
Fixpoint nfrom (g : mgraph) (An L : list nat) (y : nat) (fuel : nat) (a : nat) (prev : option nat)
         (visited : list nat) : list spath :=
  match fuel with
  | 0 => []
  | S f =>
      flat_map (fun s : skind * nat =>
                  if nok g An L prev a (snd s) then
                    if Nat.eqb (snd s) y then [[s]]
                    else map (cons s) (nfrom g An L y f (snd s) (Some a) (snd s :: visited))
                  else [])
               (next_steps g a visited)
  end.

Definition npaths (g : mgraph) (x y : nat) (L S : list nat) : list spath :=
  nfrom g (ind_anc g x y S) L y (Datatypes.S (length (V g))) x None [x].

Definition inducing_node_level (g : mgraph) (x y : nat) (L S : list nat) : bool :=
  negb (memb x (L ++ S) || memb y (L ++ S)) &&
  match npaths g x y L S with [] => false | _ => true end.

(* ---------------- exactness of the enumeration (same argument as ind_from_spec) ---------------- *)
Fixpoint ninner_b (g : mgraph) (An L : list nat) (prev : option nat) (a : nat) (p : spath) : bool :=
  match p with
  | [] => true
  | (k, b) :: t => nok g An L prev a b && ninner_b g An L (Some a) b t
  end.

Lemma nfrom_spec g An L y fuel : forall a prev visited p,
  In p (nfrom g An L y fuel a prev visited) <->
  p <> [] /\ steps_ok g a p /\ NoDup (map snd p) /\ (forall b, In b (map snd p) -> ~ In b visited) /\
  length p <= fuel /\ last (map snd p) a = y /\ ninner_b g An L prev a p = true.
Proof.
  induction fuel as [|f IH]; intros a prev visited p; simpl.
  - split; [tauto|]. intros [Hne [_ [_ [_ [Hl _]]]]]. destruct p; [congruence|simpl in Hl; lia].
  - rewrite in_flat_map. split.
    + intros [[k b] [Hs Hp]]. apply next_steps_In in Hs. destruct Hs as [Hv [Hs Hn]].
      simpl in Hp. destruct (nok g An L prev a b) eqn:Eok; [|destruct Hp].
      destruct (Nat.eqb b y) eqn:Eby.
      * destruct Hp as [<-|[]]. apply Nat.eqb_eq in Eby. simpl. rewrite Eok.
        repeat split; auto; try congruence; try lia.
        -- constructor; [intros []|constructor].
        -- intros c [<-|[]]. exact Hn.
      * apply in_map_iff in Hp. destruct Hp as [q [<- Hq]]. apply IH in Hq.
        destruct Hq as [Hne [Hst [Hnd [Hav [Hl [Hlast Hin]]]]]].
        split; [congruence|]. split; [simpl; auto|]. split.
        { simpl. constructor; [|exact Hnd]. intros Hb. apply (Hav b Hb). left; reflexivity. }
        split.
        { simpl. intros c [<-|Hc]; [exact Hn|]. intros Hcv. apply (Hav c Hc). right; exact Hcv. }
        split; [simpl; lia|]. split.
        { simpl map. rewrite last_cons. exact Hlast. }
        simpl. rewrite Eok. exact Hin.
    + intros [Hne [Hst [Hnd [Hav [Hl [Hlast Hin]]]]]]. destruct p as [|[k b] q]; [congruence|].
      simpl in Hst, Hnd, Hav, Hl, Hin. destruct Hst as [Hv [Hs Hst]].
      apply andb_true_iff in Hin. destruct Hin as [Eok Hin].
      simpl map in Hlast. rewrite last_cons in Hlast. inversion Hnd as [|? ? Hnb Hnd']; subst.
      exists (k, b). split.
      * apply next_steps_In. repeat split; auto.
      * simpl. rewrite Eok. destruct (Nat.eqb b (last (map snd q) b)) eqn:Eby.
        -- apply Nat.eqb_eq in Eby. destruct q as [|s q']; [left; reflexivity|]. exfalso. apply Hnb.
           rewrite Eby at 1. apply last_In. simpl; congruence.
        -- apply Nat.eqb_neq in Eby. destruct q as [|s q']; [simpl in Eby; congruence|].
           apply in_map. apply IH. repeat split; auto; try congruence.
           ++ intros c Hc [<-|Hcv]; [contradiction|]. apply (Hav c); auto.
           ++ simpl in *; lia.
Qed.

Lemma npaths_spec g x y L S p :
  In p (npaths g x y L S) <->
  p <> [] /\ steps_ok g x p /\ NoDup (nodes_of x p) /\ last_node x p = y /\
  ninner_b g (ind_anc g x y S) L None x p = true.
Proof.
  unfold npaths, nodes_of, last_node. rewrite nfrom_spec. split.
  - intros [Hne [Hst [Hnd [Hav [_ [Hlast Hin]]]]]]. repeat split; auto.
    constructor; [|exact Hnd]. intros Hx. apply (Hav x Hx). left; reflexivity.
  - intros [Hne [Hst [Hnd [Hlast Hin]]]]. inversion Hnd; subst. repeat split; auto.
    + intros b Hb [<-|[]]. contradiction.
    + rewrite <- (map_length snd p). apply le_S. apply NoDup_incl_length; [assumption|].
      apply steps_ok_nodes with x. exact Hst.
Qed.

(* ---------------- the node-level condition as a Prop; a = the node before the first step ---------------- *)
Fixpoint ninner (g : mgraph) (A L : list nat) (a : nat) (p : spath) : Prop :=
  match p with
  | (k1, b) :: (((k2, c) :: _) as t) =>
      (if ncoll g a b c then in_anc g A b else In b L) /\ ninner g A L b t
  | _ => True
  end.

Lemma ninner_b_some g A L : incl A (V g) -> forall t a b k,
  ninner_b g (anc_of g A) L (Some a) b t = true <-> ninner g A L a ((k, b) :: t).
Proof.
  intros HA. induction t as [|[k2 c] t' IH]; intros a b k; [simpl; tauto|].
  change (ninner_b g (anc_of g A) L (Some a) b ((k2, c) :: t'))
    with (nok g (anc_of g A) L (Some a) b c && ninner_b g (anc_of g A) L (Some b) c t').
  change (ninner g A L a ((k, b) :: (k2, c) :: t'))
    with ((if ncoll g a b c then in_anc g A b else In b L) /\ ninner g A L b ((k2, c) :: t')).
  rewrite andb_true_iff, (IH b c k2). unfold nok. destruct (ncoll g a b c).
  - rewrite in_anc_spec by exact HA. tauto.
  - rewrite memb_In. tauto.
Qed.

Lemma ninner_b_none g A L x p : incl A (V g) ->
  (ninner_b g (anc_of g A) L None x p = true <-> ninner g A L x p).
Proof.
  intros HA. destruct p as [|[k b] t]; [simpl; tauto|].
  change (ninner_b g (anc_of g A) L None x ((k, b) :: t)) with (true && ninner_b g (anc_of g A) L (Some x) b t).
  rewrite andb_true_l. apply ninner_b_some. exact HA.
Qed.

(* ---------------- graph facts ---------------- *)
Lemma wf_has_d g a b : wf g -> has_d g a b = true -> In a (V g) /\ In b (V g) /\ a <> b.
Proof.
  unfold wf, wfb, has_d. rewrite !andb_true_iff, pmemb_In. intros [[[H _] _] _].
  apply (proj1 (edges_ok_spec _ _) H).
Qed.

Lemma no_un g a b : U g = [] -> has_step g a Un b = false.
Proof. intros H. unfold has_step, has_u. rewrite H. reflexivity. Qed.

(* a parent of an ancestor is an ancestor *)
Lemma anc_parent g A a c : wf g -> has_d g a c = true -> in_anc g A c -> in_anc g A a.
Proof.
  intros Hwf Hd Hc. unfold in_anc. apply reach_step with c; [exact Hc|].
  apply parents_In. split; [apply (wf_has_d g a c Hwf Hd)|exact Hd].
Qed.

Lemma acyclic_no_2cycle g a b : wf g -> acyclicb g = true -> has_d g a b = true -> has_d g b a = false.
Proof.
  intros Hwf Hac Hab. destruct (has_d g b a) eqn:Hba; [|reflexivity]. exfalso.
  destruct (wf_has_d g a b Hwf Hab) as [Ha [Hb _]].
  unfold acyclicb in Hac. rewrite forallb_forall in Hac. specialize (Hac a Ha).
  apply negb_true_iff in Hac. unfold reaches_plus in Hac. apply memb_false in Hac. apply Hac.
  assert (E : In a (closure Nat.eqb (children g) (children g a) (length (V g))) <->
              reach (children g) (children g a) a)
    by (apply closure_spec with (univ := V g); auto using Nat.eqb_eq, children_univ).
  apply E. apply reach_step with b; [apply reach_init; apply children_In; auto|apply children_In; auto].
Qed.

Section Equiv.
Variable g : mgraph.
Hypothesis Hwf : wf g.
Hypothesis HU : U g = [].
Hypothesis Hno2 : forall a b, has_d g a b = true -> has_d g b a = false.
Variables (A L : list nat) (y : nat).
Hypothesis HyA : In y A.

(* --- edge level => node level, on the SAME path.  The point: an inner non-collider has a tail on the path, and
   following the path from a tail one only meets ->-steps until a collider or an endpoint: it is an ancestor. --- *)
Lemma fwd_tail : forall t a c,
  steps_ok g a ((Fwd, c) :: t) -> ind_inner g A L ((Fwd, c) :: t) -> last (map snd ((Fwd, c) :: t)) a = y ->
  in_anc g A a.
Proof.
  induction t as [|[k2 d] t' IH]; intros a c Hst Hin Hl.
  - simpl in Hst, Hl. subst c. apply anc_parent with y; [exact Hwf|tauto|]. apply reach_init. exact HyA.
  - destruct Hst as [_ [Had Hst]]. simpl in Had.
    apply anc_parent with c; [exact Hwf|exact Had|].
    change (ind_inner g A L ((Fwd, c) :: (k2, d) :: t'))
      with ((if collider Fwd k2 then in_anc g A c else In c L) /\ ind_inner g A L ((k2, d) :: t')) in Hin.
    destruct Hin as [Hc Hin]. simpl map in Hl. rewrite last_cons in Hl.
    destruct k2; simpl in Hc; try exact Hc.
    + apply (IH c d); [exact Hst|exact Hin|]. exact Hl.
    + destruct Hst as [_ [Hs _]]. rewrite (no_un g c d HU) in Hs. discriminate.
Qed.

Lemma collider_ncoll a k1 b k2 c :
  has_step g a k1 b = true -> has_step g b k2 c = true -> collider k1 k2 = true -> ncoll g a b c = true.
Proof.
  intros H1 H2 Hc. unfold collider in Hc. apply andb_true_iff in Hc. destruct Hc as [Ht Hs].
  unfold ncoll, into. apply andb_true_iff. split.
  - destruct k1; simpl in Ht, H1; try discriminate; rewrite H1; auto using orb_true_r.
  - destruct k2; simpl in Hs, H2; try discriminate.
    + rewrite H2. reflexivity.
    + rewrite (has_b_sym g c b), H2. apply orb_true_r.
Qed.

(* prev --k0--> a is the step just taken; Hb: if it was a <- step (a -> prev) then prev is an ancestor *)
Lemma e2n : forall p prev k0 a,
  has_step g prev k0 a = true -> (k0 = Bwd -> in_anc g A prev) ->
  steps_ok g a p -> ind_inner g A L ((k0, a) :: p) -> last (map snd ((k0, a) :: p)) prev = y ->
  ninner g A L prev ((k0, a) :: p).
Proof.
  induction p as [|[k2 c] t IH]; intros prev k0 a H0 Hb Hst Hin Hl; [simpl; tauto|].
  change (ind_inner g A L ((k0, a) :: (k2, c) :: t))
    with ((if collider k0 k2 then in_anc g A a else In a L) /\ ind_inner g A L ((k2, c) :: t)) in Hin.
  change (ninner g A L prev ((k0, a) :: (k2, c) :: t))
    with ((if ncoll g prev a c then in_anc g A a else In a L) /\ ninner g A L a ((k2, c) :: t)).
  destruct Hin as [Hc Hin]. destruct Hst as [Hcv [H2 Hst]].
  simpl map in Hl. rewrite last_cons in Hl.
  (* whenever the incoming step has a tail at a, a is an ancestor *)
  assert (Hback : arrow_tgt k0 = false -> in_anc g A a).
  { intros Ht. destruct k0; simpl in Ht; try discriminate.
    - simpl in H0. apply anc_parent with prev; [exact Hwf|exact H0|]. apply Hb. reflexivity.
    - rewrite (no_un g prev a HU) in H0. discriminate. }
  split.
  - destruct (ncoll g prev a c) eqn:En.
    + destruct (collider k0 k2) eqn:Ec; [exact Hc|].
      unfold collider in Ec. apply andb_false_iff in Ec. destruct Ec as [Ec|Ec]; [apply Hback; exact Ec|].
      destruct k2; simpl in Ec; try discriminate.
      * apply (fwd_tail t a c); [simpl; auto|exact Hin|]. exact Hl.
      * rewrite (no_un g a c HU) in H2. discriminate.
    + destruct (collider k0 k2) eqn:Ec; [|exact Hc].
      rewrite (collider_ncoll prev k0 a k2 c H0 H2 Ec) in En. discriminate.
  - apply (IH a k2 c); auto.
    + intros ->. destruct (arrow_tgt k0) eqn:Et; [|apply Hback; reflexivity].
      assert (Ec : collider k0 Bwd = true) by (unfold collider; rewrite Et; reflexivity).
      rewrite Ec in Hc. exact Hc.
Qed.

(* --- node level => edge level: relabel every step with the edge of the pair that carries most arrowheads --- *)
Definition rk (a b : nat) : skind := if has_b g a b then Bi else if has_d g a b then Fwd else Bwd.
Fixpoint relab (a : nat) (p : spath) : spath :=
  match p with
  | [] => []
  | (k, b) :: t => (rk a b, b) :: relab b t
  end.

Lemma relab_nodes : forall p a, map snd (relab a p) = map snd p.
Proof. induction p as [|[k b] t IH]; intros a; simpl; [reflexivity|]. rewrite IH. reflexivity. Qed.

Lemma rk_step a k b : has_step g a k b = true -> has_step g a (rk a b) b = true.
Proof.
  intros H. unfold rk. destruct (has_b g a b) eqn:Eb; [exact Eb|].
  destruct (has_d g a b) eqn:Ed; [exact Ed|].
  destruct k; [simpl in H; congruence|exact H|simpl in H; congruence|].
  rewrite (no_un g a b HU) in H. discriminate.
Qed.

Lemma relab_steps : forall p a, steps_ok g a p -> steps_ok g a (relab a p).
Proof.
  induction p as [|[k b] t IH]; intros a H; simpl; [exact I|]. destruct H as [Hv [Hs Ht]].
  split; [exact Hv|]. split; [apply rk_step with k; exact Hs|apply IH; exact Ht].
Qed.

Lemma rk_tgt a b : arrow_tgt (rk a b) = into g a b.
Proof. unfold rk, into. destruct (has_b g a b), (has_d g a b); reflexivity. Qed.

Lemma rk_src b k c : has_step g b k c = true -> arrow_src (rk b c) = into g c b.
Proof.
  intros H. unfold rk, into. rewrite (has_b_sym g c b). destruct (has_b g b c) eqn:Eb; [apply eq_sym, orb_true_r|].
  destruct (has_d g b c) eqn:Ed.
  - rewrite (Hno2 b c Ed). reflexivity.
  - destruct k; [simpl in H; congruence|simpl in H; rewrite H; reflexivity|simpl in H; congruence|].
    rewrite (no_un g b c HU) in H. discriminate.
Qed.

Lemma n2e : forall t a k b,
  steps_ok g a ((k, b) :: t) -> ninner g A L a ((k, b) :: t) -> ind_inner g A L (relab a ((k, b) :: t)).
Proof.
  induction t as [|[k2 c] t' IH]; intros a k b Hst Hin; [simpl; exact I|].
  change (ninner g A L a ((k, b) :: (k2, c) :: t'))
    with ((if ncoll g a b c then in_anc g A b else In b L) /\ ninner g A L b ((k2, c) :: t')) in Hin.
  change (relab a ((k, b) :: (k2, c) :: t')) with ((rk a b, b) :: relab b ((k2, c) :: t')).
  change (relab b ((k2, c) :: t')) with ((rk b c, c) :: relab c t').
  change (ind_inner g A L ((rk a b, b) :: (rk b c, c) :: relab c t'))
    with ((if collider (rk a b) (rk b c) then in_anc g A b else In b L) /\ ind_inner g A L ((rk b c, c) :: relab c t')).
  destruct Hin as [Hc Hin]. destruct Hst as [_ [_ Hst]].
  split.
  - unfold collider. rewrite rk_tgt. destruct Hst as [_ [H2 _]]. rewrite (rk_src b k2 c H2). exact Hc.
  - apply (IH b k2 c Hst Hin).
Qed.
End Equiv.

(* ---------------- the theorem ---------------- *)
Theorem node_level_exact g x y L S :
  wf g -> U g = [] -> acyclicb g = true -> incl (x :: y :: S) (V g) ->
  (inducing_node_level g x y L S = true <-> exists p, inducing_path_def g L S x p y).
Proof.
  intros Hwf HU Hac HA.
  assert (Hno2 : forall a b, has_d g a b = true -> has_d g b a = false)
    by (intros a b; apply acyclic_no_2cycle; assumption).
  assert (HyA : In y (x :: y :: S)) by (right; left; reflexivity).
  unfold inducing_node_level, inducing_path_def.
  rewrite andb_true_iff, negb_true_iff, orb_false_iff, !memb_false. split.
  - intros [[Hx Hy] Hp]. destruct (npaths g x y L S) as [|p l] eqn:Ep; [discriminate|].
    assert (Hin : In p (npaths g x y L S)) by (rewrite Ep; left; reflexivity).
    apply npaths_spec in Hin. destruct Hin as [Hne [Hst [Hnd [Hl Hi]]]].
    unfold ind_anc in Hi. apply (ninner_b_none g _ L x p HA) in Hi.
    exists (relab g x p). split; [exact Hx|]. split; [exact Hy|].
    destruct p as [|[k b] t]; [congruence|].
    split; [simpl; congruence|]. split; [apply relab_steps; assumption|].
    unfold nodes_of, last_node. rewrite relab_nodes. split; [exact Hnd|]. split; [exact Hl|].
    apply n2e; assumption.
  - intros [p [Hx [Hy [Hne [Hst [Hnd [Hl Hi]]]]]]]. split; [split; assumption|].
    assert (Hin : In p (npaths g x y L S)).
    { apply npaths_spec. repeat split; auto. unfold ind_anc. apply (ninner_b_none g _ L x p HA).
      destruct p as [|[k b] t]; [congruence|]. destruct Hst as [Hv [Hs Hst]].
      apply (e2n g Hwf HU (x :: y :: S) L y HyA t x k b); auto.
      intros _. apply reach_init. left; reflexivity. }
    destruct (npaths g x y L S); [destruct Hin|reflexivity].
Qed.

(* hence the node-level search and the (edge-level) model agree *)
Corollary node_level_eq_model g x y L S :
  wf g -> U g = [] -> acyclicb g = true -> incl (x :: y :: S) (V g) ->
  inducing_node_level g x y L S = fst (inducing_model g x y L S).
Proof.
  intros Hwf HU Hac HA. pose proof (node_level_exact g x y L S Hwf HU Hac HA) as H1.
  pose proof (inducing_exact g x y L S HA) as H2.
  destruct (inducing_node_level g x y L S), (fst (inducing_model g x y L S)); try reflexivity.
  - symmetry. apply H2, H1. reflexivity.
  - apply H1, H2. reflexivity.
Qed.

(* acyclicity is needed: with the 2-cycle 1 <-> 2 (as 1 -> 2, 2 -> 1) the node-level test sees an arrowhead at both
   ends of the pair at once, 0 -> 1 ⇄ 2 <- 3 with 1 -> 4 <- 2, S = {4}: node level accepts 0,1,2,3 (both "colliders" are
   ancestors of S), but whichever edge of the 2-cycle a path takes, one of 1, 2 is a non-collider outside L *)
Example node_level_needs_acyclic :
  let g := MkG [0; 1; 2; 3; 4] [(0, 1); (1, 2); (2, 1); (3, 2); (1, 4); (2, 4)] [] [] [] in
  wf g /\ acyclicb g = false /\
  inducing_node_level g 0 3 [] [4] = true /\ fst (inducing_model g 0 3 [] [4]) = false.
Proof. vm_compute. repeat split; reflexivity. Qed.
