(* C06 — unbounded theorems: the inducing-path search is exact (enumeration of simple step paths pruned by the triple
   test), its witness is an inducing path, node set and marks of dag_to_mag_model. *)
From Coq Require Import List Arith Bool Lia.
From PG Require Import Base.ListSet Base.Closure Graph.MGraph Graph.MSep Graph.MSepDec C06.Model C06.Spec.
Import ListNotations.

Lemma last_cons (b : nat) l d : last (b :: l) d = last l b.
Proof.
  revert b d. induction l as [|c l IH]; intros b d; [reflexivity|].
  change (last (b :: c :: l) d) with (last (c :: l) d). rewrite (IH c d), (IH c b). reflexivity.
Qed.

Lemma last_In (l : list nat) d : l <> [] -> In (last l d) l.
Proof.
  induction l as [|a l IH]; [congruence|]. intros _. destruct l as [|b l']; [left; reflexivity|].
  right. change (last (a :: b :: l') d) with (last (b :: l') d). apply IH. congruence.
Qed.

(* boolean form of the inner-node condition, following ind_from's recursion *)
Fixpoint inner_b (An L : list nat) (kin : option skind) (a : nat) (p : spath) : bool :=
  match p with
  | [] => true
  | (k, b) :: t => ok_at An L kin a k && inner_b An L (Some k) b t
  end.

Lemma ind_from_spec g An L y fuel : forall a kin visited p,
  In p (ind_from g An L y fuel a kin visited) <->
  p <> [] /\ steps_ok g a p /\ NoDup (map snd p) /\ (forall b, In b (map snd p) -> ~ In b visited) /\
  length p <= fuel /\ last (map snd p) a = y /\ inner_b An L kin a p = true.
Proof.
  induction fuel as [|f IH]; intros a kin visited p; simpl.
  - split; [tauto|]. intros [Hne [_ [_ [_ [Hl _]]]]]. destruct p; [congruence|simpl in Hl; lia].
  - rewrite in_flat_map. split.
    + intros [[k b] [Hs Hp]]. apply next_steps_In in Hs. destruct Hs as [Hv [Hs Hn]].
      simpl in Hp. destruct (ok_at An L kin a k) eqn:Eok; [|destruct Hp].
      destruct (Nat.eqb b y) eqn:Eby.
      * destruct Hp as [<-|[]]. apply Nat.eqb_eq in Eby. simpl. rewrite Eok.
        repeat split; auto; try congruence; try lia.
        -- constructor; [intros []|constructor].
        -- intros c [<-|[]]. exact Hn.
      * apply in_map_iff in Hp. destruct Hp as [q [<- Hq]]. apply IH in Hq.
        destruct Hq as [Hne [Hst [Hnd [Hav [Hl [Hlast Hin]]]]]].
        split; [congruence|]. split; [simpl; auto|]. split.
        { simpl. constructor; [|exact Hnd]. intros Hb. apply (Hav b Hb). left; reflexivity. }
        split.
        { simpl. intros c [<-|Hc]; [exact Hn|]. intros Hcv. apply (Hav c Hc). right; exact Hcv. }
        split; [simpl; lia|]. split.
        { simpl map. rewrite last_cons. exact Hlast. }
        simpl. rewrite Eok. exact Hin.
    + intros [Hne [Hst [Hnd [Hav [Hl [Hlast Hin]]]]]]. destruct p as [|[k b] q]; [congruence|].
      simpl in Hst, Hnd, Hav, Hl, Hin. destruct Hst as [Hv [Hs Hst]].
      apply andb_true_iff in Hin. destruct Hin as [Eok Hin].
      simpl map in Hlast. rewrite last_cons in Hlast. inversion Hnd as [|? ? Hnb Hnd']; subst.
      exists (k, b). split.
      * apply next_steps_In. repeat split; auto.
      * simpl. rewrite Eok. destruct (Nat.eqb b (last (map snd q) b)) eqn:Eby.
        -- apply Nat.eqb_eq in Eby. destruct q as [|s q']; [left; reflexivity|]. exfalso. apply Hnb.
           rewrite Eby at 1. apply last_In. simpl; congruence.
        -- apply Nat.eqb_neq in Eby. destruct q as [|s q']; [simpl in Eby; congruence|].
           apply in_map. apply IH. repeat split; auto; try congruence.
           ++ intros c Hc [<-|Hcv]; [contradiction|]. apply (Hav c); auto.
           ++ simpl in *; lia.
Qed.

Lemma ind_paths_spec g x y L S p :
  In p (ind_paths g x y L S) <->
  p <> [] /\ steps_ok g x p /\ NoDup (nodes_of x p) /\ last_node x p = y /\
  inner_b (ind_anc g x y S) L None x p = true.
Proof.
  unfold ind_paths, nodes_of, last_node. rewrite ind_from_spec. split.
  - intros [Hne [Hst [Hnd [Hav [_ [Hlast Hin]]]]]]. repeat split; auto.
    constructor; [|exact Hnd]. intros Hx. apply (Hav x Hx). left; reflexivity.
  - intros [Hne [Hst [Hnd [Hlast Hin]]]]. inversion Hnd; subst. repeat split; auto.
    + intros b Hb [<-|[]]. contradiction.
    + rewrite <- (map_length snd p). apply le_S. apply NoDup_incl_length; [assumption|].
      apply steps_ok_nodes with x. exact Hst.
Qed.

Lemma inner_b_some g A L k1 b t : incl A (V g) ->
  (inner_b (anc_of g A) L (Some k1) b t = true <-> ind_inner g A L ((k1, b) :: t)).
Proof.
  intros HA. revert k1 b. induction t as [|[k2 c] t' IH]; intros k1 b; [simpl; tauto|].
  change (inner_b (anc_of g A) L (Some k1) b ((k2, c) :: t'))
    with (ok_inner (anc_of g A) L k1 b k2 && inner_b (anc_of g A) L (Some k2) c t').
  change (ind_inner g A L ((k1, b) :: (k2, c) :: t'))
    with ((if collider k1 k2 then in_anc g A b else In b L) /\ ind_inner g A L ((k2, c) :: t')).
  rewrite andb_true_iff, IH. unfold ok_inner. destruct (collider k1 k2).
  - rewrite in_anc_spec by exact HA. tauto.
  - rewrite memb_In. tauto.
Qed.

Lemma inner_b_none g A L x p : incl A (V g) ->
  (inner_b (anc_of g A) L None x p = true <-> ind_inner g A L p).
Proof.
  intros HA. destruct p as [|[k b] t]; [simpl; tauto|].
  change (inner_b (anc_of g A) L None x ((k, b) :: t)) with (true && inner_b (anc_of g A) L (Some k) b t).
  rewrite andb_true_l. apply inner_b_some. exact HA.
Qed.

Lemma ind_paths_def g x y L S p : incl (x :: y :: S) (V g) ->
  (In p (ind_paths g x y L S) <->
   p <> [] /\ steps_ok g x p /\ NoDup (nodes_of x p) /\ last_node x p = y /\ ind_inner g (x :: y :: S) L p).
Proof.
  intros HA. rewrite ind_paths_spec. unfold ind_anc. rewrite (inner_b_none g _ L x p HA). tauto.
Qed.

Theorem inducing_exact : inducing_exact_stmt.
Proof.
  intros g x y L S HA. unfold inducing_model, inducing_path_def.
  destruct (memb x (L ++ S) || memb y (L ++ S)) eqn:E.
  - simpl. split; [discriminate|]. intros [p [Hx [Hy _]]]. apply orb_true_iff in E.
    destruct E as [E|E]; apply memb_In in E; contradiction.
  - apply orb_false_iff in E. destruct E as [Ex Ey]. apply memb_false in Ex, Ey.
    destruct (ind_paths g x y L S) as [|p l] eqn:Ep; simpl.
    + split; [discriminate|]. intros [p [_ [_ H]]]. apply (ind_paths_def g x y L S p HA) in H.
      rewrite Ep in H. destruct H.
    + split; [|reflexivity]. intros _. exists p. split; [exact Ex|]. split; [exact Ey|].
      apply (ind_paths_def g x y L S p HA). rewrite Ep. left; reflexivity.
Qed.

Theorem inducing_witness : inducing_witness_stmt.
Proof.
  intros g x y L S ns HA. unfold inducing_model, inducing_path_def.
  destruct (memb x (L ++ S) || memb y (L ++ S)) eqn:E; [discriminate|].
  apply orb_false_iff in E. destruct E as [Ex Ey]. apply memb_false in Ex, Ey.
  destruct (ind_paths g x y L S) as [|p l] eqn:Ep; [discriminate|].
  intros H. inversion H; subst. exists p. split; [reflexivity|]. split; [exact Ex|]. split; [exact Ey|].
  apply (ind_paths_def g x y L S p HA). rewrite Ep. left; reflexivity.
Qed.

(* ---------------- dag_to_mag: node set and marks ---------------- *)
Theorem mag_nodes : mag_nodes_stmt.
Proof.
  intros d L S v. unfold dag_to_mag_model, obs. simpl. rewrite diffb_In, in_app_iff. tauto.
Qed.

Lemma mag_pairs_In d L S a b :
  In (a, b) (mag_pairs d L S) <-> In (a, b) (upairs (obs d L S)) /\ inducing_b d a b L S = true.
Proof. unfold mag_pairs. rewrite filter_In. simpl. tauto. Qed.

Lemma not_true_negb (b : bool) : ~ b = true <-> negb b = true.
Proof. destruct b; simpl; split; congruence. Qed.

Theorem mag_marks : mag_marks_stmt.
Proof.
  intros d L S a b. cbv zeta. split; [apply mag_pairs_In|]. unfold dag_to_mag_model. simpl.
  split; [|split; [|split; [|reflexivity]]].
  - rewrite in_app_iff, filter_In, in_map_iff. simpl. rewrite andb_true_iff, <- not_true_negb. split.
    + intros [[H1 [H2 H3]]|[[b' a'] [E H]]].
      * tauto.
      * unfold swap in E. simpl in E. inversion E; subst. apply filter_In in H. simpl in H.
        rewrite andb_true_iff, <- not_true_negb in H. tauto.
    + intros [[H|H] [H2 H3]]; [left; tauto|right]. exists (b, a). split; [reflexivity|].
      apply filter_In. simpl. rewrite andb_true_iff, <- not_true_negb. tauto.
  - rewrite filter_In. simpl. rewrite andb_true_iff, <- !not_true_negb, mag_pairs_In. tauto.
  - rewrite filter_In. simpl. rewrite andb_true_iff, mag_pairs_In. tauto.
Qed.

(* upairs lists every unordered pair of a duplicate-free list exactly once, in list order *)
Lemma upairs_In l a b : In (a, b) (upairs l) -> In a l /\ In b l.
Proof.
  induction l as [|c t IH]; simpl; [tauto|]. rewrite in_app_iff, in_map_iff.
  intros [[b' [E H]]|H]; [inversion E; subst; auto|]. apply IH in H. tauto.
Qed.

Lemma upairs_complete l a b : In a l -> In b l -> a <> b -> In (a, b) (upairs l) \/ In (b, a) (upairs l).
Proof.
  induction l as [|c t IH]; simpl; [tauto|]. intros [->|Ha] [->|Hb] Hne; try congruence.
  - left. apply in_or_app. left. apply in_map. exact Hb.
  - right. apply in_or_app. left. apply in_map. exact Ha.
  - destruct (IH Ha Hb Hne); [left|right]; apply in_or_app; right; assumption.
Qed.

(* the hypotheses are satisfiable on a non-trivial input: the 5-node witness of the visit-order dependence of the
   as-found search; 1 <- 4 <-> 3 <-> 0 is inducing relative to L = {4} (4 a non-collider in L, 3 a collider and an
   ancestor of 0 through 2), and there is no inducing path once 4 is observed *)
Example inducing_example :
  let g := MkG [0; 1; 2; 3; 4] [(2, 0); (4, 1); (3, 2)] [(0, 3); (2, 4); (3, 4)] [] [] in
  inducing_model g 1 0 [4] [] = (true, [1; 4; 3; 0]) /\ inducing_model g 1 0 [] [] = (false, []).
Proof. vm_compute. split; reflexivity. Qed.
