(* C06 — the property as Props over the formal graph (compare with properties.jsonl, id C06).

   inducing path (Zhang 2008, relative to <L,S>): a simple path between x and y, both outside L u S, on which every
   inner node is a collider or in L, and every collider is an ancestor (reflexive) of x, y or a member of S.
   Paths are step lists (Graph/MSep.v): a step names its layer. *)
From Coq Require Import List Arith Bool Lia.
From PG Require Import Base.ListSet Base.Closure Graph.MGraph Graph.MSep C06.Model.
Import ListNotations.

(* A = {x,y} u S : the set whose ancestors may be colliders *)
Fixpoint ind_inner (g : mgraph) (A L : list nat) (p : spath) : Prop :=
  match p with
  | (k1, b) :: (((k2, _) :: _) as t) =>
      (if collider k1 k2 then in_anc g A b else In b L) /\ ind_inner g A L t
  | _ => True
  end.

Definition inducing_path_def (g : mgraph) (L S : list nat) (x : nat) (p : spath) (y : nat) : Prop :=
  ~ In x (L ++ S) /\ ~ In y (L ++ S) /\
  p <> [] /\ steps_ok g x p /\ NoDup (nodes_of x p) /\ last_node x p = y /\
  ind_inner g (x :: y :: S) L p.

(* clause "inducing_path reports True iff such a path exists, and any path it returns is such a path" *)
Definition inducing_exact_stmt : Prop := forall g x y L S,
  incl (x :: y :: S) (V g) ->
  (fst (inducing_model g x y L S) = true <-> exists p, inducing_path_def g L S x p y).
Definition inducing_witness_stmt : Prop := forall g x y L S ns,
  incl (x :: y :: S) (V g) ->
  inducing_model g x y L S = (true, ns) -> exists p, ns = nodes_of x p /\ inducing_path_def g L S x p y.

(* ---- dag_to_mag ---- *)
Definition is_dag (d : mgraph) : Prop := wf d /\ B d = [] /\ U d = [] /\ C d = [] /\ acyclicb d = true.
Definition dsep (d : mgraph) (X Y Z : list nat) : Prop := msep (only_directed d) X Y Z.

(* clause "every remaining node of D is a node of the result" (and nothing else is) *)
Definition mag_nodes_stmt : Prop := forall d L S v,
  In v (V (dag_to_mag_model d L S)) <-> In v (V d) /\ ~ In v L /\ ~ In v S.

(* orientation of the adjacent pairs by the four ancestry cases (Zhang 2008 p.1877); (a,b) ranges over the
   pairs of observed nodes, each unordered pair once *)
Definition mag_marks_stmt : Prop := forall d L S a b,
  let m := dag_to_mag_model d L S in
  let adj := In (a, b) (upairs (obs d L S)) /\ inducing_b d a b L S = true in
  let ab := in_an d S a b = true in       (* a in An({b} u S) *)
  let ba := in_an d S b a = true in       (* b in An({a} u S) *)
  (In (a, b) (mag_pairs d L S) <-> adj) /\
  (In (a, b) (D m) <-> (In (a, b) (mag_pairs d L S) \/ In (b, a) (mag_pairs d L S)) /\ ab /\ ~ ba) /\
  (In (a, b) (B m) <-> adj /\ ~ ab /\ ~ ba) /\
  (In (a, b) (U m) <-> adj /\ ab /\ ba) /\
  C m = [].

(* FULL statements of the two research-level clauses (Richardson & Spirtes 2002, Thm 4.2 / 4.18; Zhang 2008):
   proved only for all DAGs on at most 4 nodes (Bounded_*.v); n = 5, 6 are covered by the extracted oracle in the tie. *)
Definition mag_adjacency_stmt (d : mgraph) (L S : list nat) : Prop :=
  forall x y, In x (obs d L S) -> In y (obs d L S) -> x <> y ->
    (adjacent (dag_to_mag_model d L S) x y = true <->
     forall Z, incl Z (obs d L S) -> ~ In x Z -> ~ In y Z -> ~ dsep d [x] [y] (Z ++ S)).
Definition mag_independence_stmt (d : mgraph) (L S : list nat) : Prop :=
  forall x y Z, In x (obs d L S) -> In y (obs d L S) -> x <> y -> incl Z (obs d L S) -> ~ In x Z -> ~ In y Z ->
    (msep (dag_to_mag_model d L S) [x] [y] Z <-> dsep d [x] [y] (Z ++ S)).
Definition mag_full_stmt : Prop := forall d L S,
  is_dag d -> NoDup (V d) -> incl (L ++ S) (V d) -> (forall v, In v L -> ~ In v S) ->
  mag_adjacency_stmt d L S /\ mag_independence_stmt d L S.
