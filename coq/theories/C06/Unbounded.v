(* C06/C07 — the Richardson–Spirtes / Verma–Pearl theorem for ALL sizes, at path level (Graph/MSep.v msep):

     in a graph with directed and bidirected edges only (bows allowed, NOT necessarily ancestral) whose directed layer is
     acyclic, for x, y outside L u S:
        an inducing path relative to <L,S> between x and y exists
          <->  no set Z of observed nodes other than x, y m-separates x and y given Z u S.

   (=>) [inducing_unblockable] an inducing path cannot be blocked: walking along it, a collider that is not an ancestor of
        the conditioning set W has a W-free directed path to x or to y; restart from x along that path (reversed) or leave
        to y along it.  The result is an open WALK; Graph/Walks.open_walk_to_path turns it into an m-connecting path.
   (<=) [sepset_separates] with W0 = (An({x,y} u S) /\ O \ {x,y}) u S every m-connecting path has all its nodes in
        An({x,y} u S), so an inner non-collider (not in W0) is latent and a collider is in An(W0) <= An({x,y} u S): the
        path is inducing. *)
From Coq Require Import List Arith Bool Lia.
From PG Require Import Base.ListSet Base.Closure Graph.MGraph Graph.MSep Graph.MSepDec Graph.Walks
  C06.Model C06.Spec C06.Proofs.
Import ListNotations.

(* ---------------- ancestors and directed paths ---------------- *)
Lemma in_anc_V g A a : incl A (V g) -> in_anc g A a -> In a (V g).
Proof.
  intros HA H. destruct H as [a Ha|b a _ Ha]; [apply HA, Ha|]. apply parents_In in Ha. tauto.
Qed.

Lemma in_anc_dpl g A a : incl A (V g) -> in_anc g A a -> exists z, In z A /\ (a = z \/ dpl g a z).
Proof.
  intros HA H. induction H as [a Ha|b a Hb IH Ha].
  - exists a. auto.
  - destruct IH as [z [Hz Hbz]]. exists z. split; [exact Hz|right].
    apply parents_In in Ha. destruct Ha as [Ha Hd].
    assert (HbV : In b (V g)) by (apply in_anc_V with A; assumption).
    destruct Hbz as [<-|Hbz]; [apply dpl_one; assumption|apply dpl_cons with b; assumption].
Qed.

Lemma dpl_in_anc g W a z : In a (V g) -> dpl g a z -> in_anc g W z -> in_anc g W a.
Proof.
  intros Ha H. induction H as [b Hb Hab|b c Hab IH Hc Hbc]; intros Hz.
  - apply in_anc_parent with b; assumption.
  - apply IH. apply in_anc_parent with c; [apply dpl_In with a; exact Hab|exact Hbc|exact Hz].
Qed.

Lemma in_anc_trans g W A v : (forall w, In w W -> in_anc g A w) -> in_anc g W v -> in_anc g A v.
Proof.
  intros HW H. induction H as [v Hv|b v _ IH Hv]; [apply HW, Hv|].
  apply reach_step with b; assumption.
Qed.

Definition allfwd (p : spath) : Prop := forall s, In s p -> fst s = Fwd.

Lemma dpl_walk g a z : dpl g a z ->
  exists p, p <> [] /\ steps_ok g a p /\ last_node a p = z /\ allfwd p /\ (forall v, In v (map snd p) -> dpl g a v).
Proof.
  intros H. induction H as [b Hb Hab|b c Hab IH Hc Hbc].
  - exists [(Fwd, b)]. split; [discriminate|]. split; [simpl; auto|]. split; [reflexivity|]. split.
    + intros s [<-|[]]. reflexivity.
    + intros v [<-|[]]. apply dpl_one; assumption.
  - destruct IH as [p [Hne [Hst [Hl [Hf Hn]]]]]. exists (p ++ [(Fwd, c)]).
    split; [intros E; apply app_eq_nil in E; destruct E; discriminate|].
    split; [apply steps_ok_app; split; [exact Hst|rewrite Hl; simpl; auto]|].
    split; [rewrite last_node_app; reflexivity|]. split.
    + intros s Hs. apply in_app_or in Hs. destruct Hs as [Hs|[<-|[]]]; [apply Hf, Hs|reflexivity].
    + intros v Hv. rewrite map_app in Hv. apply in_app_or in Hv. destruct Hv as [Hv|[<-|[]]]; [apply Hn, Hv|].
      apply dpl_snoc with b; assumption.
Qed.

(* a forward run all of whose nodes are outside W is open *)
Lemma fwd_open g W : forall p b, allfwd p -> ~ In b W -> (forall v, In v (map snd p) -> ~ In v W) ->
  wopen g W (Some Fwd) b p.
Proof.
  induction p as [|[k c] t IH]; intros b Hf Hb Hn; [exact I|].
  assert (Ek : k = Fwd) by (apply (Hf (k, c)); left; reflexivity). subst k.
  split; [simpl; exact Hb|]. apply IH.
  - intros s Hs. apply Hf. right; exact Hs.
  - apply Hn. left; reflexivity.
  - intros v Hv. apply Hn. right; exact Hv.
Qed.

Lemma no_un g a b : U g = [] -> has_step g a Un b = false.
Proof. intros H. unfold has_step, has_u. rewrite H. reflexivity. Qed.

Lemma walk_end_V g x w : w <> [] -> steps_ok g x w -> In (last_node x w) (V g).
Proof. intros Hne Hst. apply (steps_ok_nodes g x w Hst). apply last_node_In. exact Hne. Qed.

(* ================================================================== (=>) an inducing path cannot be blocked *)
Section Unblockable.
Variable g : mgraph.
Hypothesis HU : U g = [].
Variables (L S W : list nat) (x y : nat).
Hypothesis HA : incl (x :: y :: S) (V g).
Hypothesis HW : incl W (V g).
Hypothesis HSW : incl S W.
Hypothesis HLW : forall v, In v L -> ~ In v W.
Let A := x :: y :: S.

Lemma build : forall q k1 a w,
  steps_ok g x w -> last_node x w = a -> wopen g W None x w -> larr None w = Some k1 ->
  steps_ok g a q -> last_node a q = y -> ind_inner g A L ((k1, a) :: q) ->
  exists w', steps_ok g x w' /\ last_node x w' = y /\ wopen g W None x w'.
Proof.
  induction q as [|[k2 b] t IH]; intros k1 a w Hst Hl Hop Harr Hq Hly Hin.
  - rewrite last_node_nil in Hly. subst a. exists w. auto.
  - change (ind_inner g A L ((k1, a) :: (k2, b) :: t))
      with ((if collider k1 k2 then in_anc g A a else In a L) /\ ind_inner g A L ((k2, b) :: t)) in Hin.
    destruct Hin as [Hc Hin]. destruct Hq as [Hb [Hs Hq]]. rewrite last_node_cons in Hly.
    assert (Hwne : w <> []) by (intros ->; discriminate).
    assert (HaV : In a (V g)) by (rewrite <- Hl; apply walk_end_V; assumption).
    (* either we can already finish, or there is an open walk to a from which the step (k2, b) is allowed *)
    assert (K : (exists w', steps_ok g x w' /\ last_node x w' = y /\ wopen g W None x w') \/
                (exists w0, steps_ok g x w0 /\ last_node x w0 = a /\ wopen g W None x w0 /\
                            ccond g W (larr None w0) a k2)).
    { destruct (collider k1 k2) eqn:Ec.
      2:{ right. exists w. repeat split; auto. rewrite Harr. simpl. rewrite Ec. apply HLW. exact Hc. }
      destruct (memb a (anc_of g W)) eqn:Ea.
      { right. exists w. repeat split; auto. rewrite Harr. simpl. rewrite Ec. apply in_anc_spec; assumption. }
      assert (Hna : ~ in_anc g W a).
      { intros H. apply (in_anc_spec g W a HW) in H. congruence. }
      assert (HaW : ~ In a W) by (intros H; apply Hna, in_anc_Z, H).
      assert (Hdesc : forall v, dpl g a v -> ~ In v W).
      { intros v Hv HvW. apply Hna. apply dpl_in_anc with v; [exact HaV|exact Hv|apply in_anc_Z, HvW]. }
      destruct (in_anc_dpl g A a HA Hc) as [z [Hz Haz]].
      destruct Hz as [<-|[<-|Hz]].
      - (* a is x or an ancestor of x: restart from x *)
        right. destruct Haz as [->|Haz].
        + exists []. repeat split; auto.
        + destruct (dpl_walk g a x Haz) as [pf [Hne [Hpf [Hlp [Hf Hn]]]]].
          destruct pf as [|[k0 c] pt]; [congruence|].
          assert (Ek : k0 = Fwd) by (apply (Hf (k0, c)); left; reflexivity). subst k0.
          exists (rev_path a ((Fwd, c) :: pt)). rewrite <- Hlp. split; [|split; [|split]].
          * apply rev_path_steps; assumption.
          * apply rev_path_last.
          * apply rev_path_open. split; [exact I|]. apply fwd_open.
            -- intros s0 Hs0. apply Hf. right; exact Hs0.
            -- apply Hdesc, Hn. left; reflexivity.
            -- intros v Hv. apply Hdesc, Hn. right; exact Hv.
          * rewrite rev_path_larr by discriminate. simpl. exact HaW.
      - (* a is y or an ancestor of y: leave to y *)
        left. destruct Haz as [->|Haz]; [exists w; auto|].
        destruct (dpl_walk g a y Haz) as [pf [Hne [Hpf [Hlp [Hf Hn]]]]].
        exists (w ++ pf). split; [|split].
        + apply steps_ok_app. rewrite Hl. auto.
        + rewrite last_node_app, Hl. exact Hlp.
        + apply wopen_app. split; [exact Hop|]. rewrite Harr, Hl.
          destruct pf as [|[k0 c] pt]; [congruence|].
          assert (Ek : k0 = Fwd) by (apply (Hf (k0, c)); left; reflexivity). subst k0.
          split.
          * simpl. unfold collider. simpl. rewrite andb_false_r. exact HaW.
          * apply fwd_open.
            -- intros s0 Hs0. apply Hf. right; exact Hs0.
            -- apply Hdesc, Hn. left; reflexivity.
            -- intros v Hv. apply Hdesc, Hn. right; exact Hv.
      - (* a is in S or an ancestor of S: then it is an ancestor of W *)
        exfalso. apply Hna. destruct Haz as [->|Haz]; [apply in_anc_Z, HSW, Hz|].
        apply dpl_in_anc with z; [exact HaV|exact Haz|apply in_anc_Z, HSW, Hz]. }
    destruct K as [K|[w0 [H1 [H2 [H3 H4]]]]]; [exact K|].
    apply (IH k2 b (w0 ++ [(k2, b)])); auto.
    + apply steps_ok_app. split; [exact H1|]. rewrite H2. simpl. auto.
    + rewrite last_node_app. reflexivity.
    + apply wopen_app. split; [exact H3|]. rewrite H2. simpl. auto.
    + rewrite larr_app. reflexivity.
Qed.

Theorem inducing_unblockable p :
  acyclicb g = true -> inducing_path_def g L S x p y -> ~ msep g [x] [y] W.
Proof.
  intros Hac [Hx [Hy [Hne [Hst [Hnd [Hl Hin]]]]]] Hsep.
  destruct p as [|[k1 a] q]; [congruence|].
  assert (Hxy : x <> y).
  { intros ->. unfold nodes_of in Hnd. inversion Hnd as [|? ? Hn _]; subst. apply Hn.
    rewrite <- Hl at 1. apply last_node_In. discriminate. }
  destruct Hst as [Ha [Hs Hq]]. rewrite last_node_cons in Hl.
  destruct (build q k1 a [(k1, a)]) as [w [W1 [W2 W3]]]; auto.
  - simpl. auto.
  - simpl. auto.
  - destruct (open_walk_to_path g W x y w) as [p' [Hc _]]; auto.
    + apply acyclicb_spec. exact Hac.
    + apply no_und_ancestral. exact HU.
    + apply (open_inner_wopen g W x w). exact W3.
    + apply (Hsep x y p'); [left; reflexivity|left; reflexivity|exact Hc].
Qed.
End Unblockable.

(* ================================================================== (<=) a canonical separating set *)
Section Sepset.
Variable g : mgraph.
Hypothesis HU : U g = [].
Variables (L S W : list nat) (x y : nat).
Hypothesis HA : incl (x :: y :: S) (V g).
Let A := x :: y :: S.
(* what is used of W: its ancestors are ancestors of {x,y} u S, and a node of An({x,y} u S) other than x, y outside W is latent *)
Hypothesis HW1 : forall v, in_anc g W v -> in_anc g A v.
Hypothesis HW2 : forall v, In v (V g) -> in_anc g A v -> v <> x -> v <> y -> ~ In v W -> In v L.

Lemma all_ind : forall q prev k0 a,
  has_step g prev k0 a = true -> (k0 = Bwd -> in_anc g A prev) -> In a (V g) ->
  steps_ok g a q -> wopen g W (Some k0) a q -> last_node a q = y -> NoDup (x :: a :: map snd q) ->
  ind_inner g A L ((k0, a) :: q).
Proof.
  induction q as [|[k2 c] t IH]; intros prev k0 a H0 Hb Ha Hst Hop Hl Hnd; [simpl; exact I|].
  change (ind_inner g A L ((k0, a) :: (k2, c) :: t))
    with ((if collider k0 k2 then in_anc g A a else In a L) /\ ind_inner g A L ((k2, c) :: t)).
  destruct Hst as [Hc [H2 Hst]]. destruct Hop as [Hcc Hop]. rewrite last_node_cons in Hl.
  assert (Hy : In y (map snd ((k2, c) :: t))).
  { rewrite <- Hl. change (last_node c t) with (last_node c t). rewrite <- (last_node_cons a k2 c t).
    apply last_node_In. discriminate. }
  assert (Hax : a <> x).
  { intros ->. inversion Hnd as [|? ? Hn _]; subst. apply Hn. left; reflexivity. }
  assert (Hay : a <> y).
  { intros ->. inversion Hnd as [|? ? _ Hnd']; subst. inversion Hnd' as [|? ? Hn _]; subst. apply Hn. exact Hy. }
  assert (HyA : in_anc g A y) by (apply in_anc_Z; right; left; reflexivity).
  (* every inner node is an ancestor of {x,y} u S *)
  assert (HaA : in_anc g A a).
  { simpl in Hcc. destruct (collider k0 k2) eqn:Ec; [apply HW1; exact Hcc|].
    unfold collider in Ec. apply andb_false_iff in Ec. destruct Ec as [Ec|Ec].
    - destruct k0; simpl in Ec; try discriminate.
      + simpl in H0. apply in_anc_parent with prev; [exact Ha|exact H0|apply Hb; reflexivity].
      + rewrite (no_un g prev a HU) in H0. discriminate.
    - destruct k2; simpl in Ec; try discriminate.
      + destruct (fwd_run g W (no_und_ancestral g HU) t a c Ha) as [H|H].
        * simpl. auto.
        * exact Hop.
        * apply HW1. exact H.
        * rewrite Hl in H. apply dpl_in_anc with y; assumption.
      + rewrite (no_un g a c HU) in H2. discriminate. }
  split.
  - destruct (collider k0 k2) eqn:Ec; [exact HaA|]. simpl in Hcc. rewrite Ec in Hcc. apply HW2; assumption.
  - apply (IH a k2 c); auto.
    inversion Hnd as [|? ? Hn1 Hnd1]; subst. inversion Hnd1 as [|? ? Hn2 Hnd2]; subst.
    constructor; [|exact Hnd2]. intros H. apply Hn1. right. exact H.
Qed.

Theorem mconn_is_inducing p :
  ~ In x (L ++ S) -> ~ In y (L ++ S) -> mconn g W x p y -> inducing_path_def g L S x p y.
Proof.
  intros Hx Hy [Hne [Hst [Hnd [Hl Hop]]]]. unfold inducing_path_def. repeat (split; [assumption|]).
  destruct p as [|[k a] q]; [congruence|]. destruct Hst as [Ha [Hs Hq]].
  apply (all_ind q x k a); auto.
  - intros _. apply in_anc_Z. left; reflexivity.
  - apply (open_inner_cons_wopen g W q k a). exact Hop.
  - rewrite last_node_cons in Hl. exact Hl.
Qed.
End Sepset.

(* the canonical set: the observed ancestors of {x,y} u S other than x, y — together with S *)
Definition sepset0 (g : mgraph) (L S : list nat) (x y : nat) : list nat :=
  diffb (interb (obs g L S) (anc_of g (x :: y :: S))) [x; y].
Definition sepset (g : mgraph) (L S : list nat) (x y : nat) : list nat := sepset0 g L S x y ++ S.

Lemma sepset0_In g L S x y v : incl (x :: y :: S) (V g) ->
  (In v (sepset0 g L S x y) <->
   In v (V g) /\ ~ In v (L ++ S) /\ in_anc g (x :: y :: S) v /\ v <> x /\ v <> y).
Proof.
  intros HA. unfold sepset0, obs. rewrite diffb_In, interb_In, diffb_In, (anc_of_spec g _ v HA).
  unfold in_anc. simpl. intuition.
Qed.

Theorem sepset_separates g L S x y :
  U g = [] -> incl (x :: y :: S) (V g) -> ~ In x (L ++ S) -> ~ In y (L ++ S) ->
  (forall p, ~ inducing_path_def g L S x p y) -> msep g [x] [y] (sepset g L S x y).
Proof.
  intros HU HA Hx Hy Hno x' y' p [<-|[]] [<-|[]] Hc. apply (Hno p).
  apply (mconn_is_inducing g HU L S (sepset g L S x y) x y HA); auto.
  - (* ancestors of the set are ancestors of {x,y} u S *)
    intros v Hv. apply in_anc_trans with (sepset g L S x y); [|exact Hv].
    intros w Hw. unfold sepset in Hw. apply in_app_or in Hw. destruct Hw as [Hw|Hw].
    + apply (sepset0_In g L S x y w HA) in Hw. tauto.
    + apply in_anc_Z. right; right; exact Hw.
  - (* an ancestor outside the set, other than x and y, is latent *)
    intros v Hv HvA Hvx Hvy HvW.
    destruct (in_dec Nat.eq_dec v (L ++ S)) as [Hin|Hnin].
    + apply in_app_or in Hin. destruct Hin as [Hin|Hin]; [exact Hin|].
      exfalso. apply HvW. unfold sepset. apply in_or_app. right; exact Hin.
    + exfalso. apply HvW. unfold sepset. apply in_or_app. left.
      apply (sepset0_In g L S x y v HA). tauto.
Qed.

(* ================================================================== the equivalence *)
Theorem inducing_iff_inseparable g L S x y :
  wf g -> U g = [] -> acyclicb g = true -> incl (x :: y :: S) (V g) ->
  ~ In x (L ++ S) -> ~ In y (L ++ S) -> (forall v, In v L -> ~ In v S) ->
  ((exists p, inducing_path_def g L S x p y) <->
   (forall Z, incl Z (obs g L S) -> ~ In x Z -> ~ In y Z -> ~ msep g [x] [y] (Z ++ S))).
Proof.
  intros Hwf HU Hac HA Hx Hy Hdis. split.
  - intros [p Hp] Z HZ HxZ HyZ.
    apply (inducing_unblockable g HU L S (Z ++ S) x y HA) with p; auto.
    + intros v Hv. apply in_app_or in Hv. destruct Hv as [Hv|Hv].
      * apply HZ in Hv. unfold obs in Hv. apply diffb_In in Hv. tauto.
      * apply HA. right; right; exact Hv.
    + intros v Hv. apply in_or_app. right; exact Hv.
    + intros v HvL Hv. apply in_app_or in Hv. destruct Hv as [Hv|Hv].
      * apply HZ in Hv. unfold obs in Hv. apply diffb_In in Hv. apply (proj2 Hv). apply in_or_app. left; exact HvL.
      * apply (Hdis v HvL Hv).
  - intros H. destruct (fst (inducing_model g x y L S)) eqn:E.
    + apply (inducing_exact g x y L S HA). exact E.
    + exfalso. apply (H (sepset0 g L S x y)).
      * intros v Hv. apply (sepset0_In g L S x y v HA) in Hv. unfold obs. apply diffb_In. tauto.
      * intros Hv. apply (sepset0_In g L S x y x HA) in Hv. tauto.
      * intros Hv. apply (sepset0_In g L S x y y HA) in Hv. tauto.
      * apply sepset_separates; auto. intros p Hp.
        assert (E' : fst (inducing_model g x y L S) = true) by (apply (inducing_exact g x y L S HA); exists p; exact Hp).
        congruence.
Qed.
