(* C06 — the converse of the independence clause of dag_to_mag (Richardson–Spirtes Thm 4.18 <=) for all sizes:
     m-separation given Z in the MAG  ->  d-separation given Z u S in the DAG,
   i.e. a d-connecting path of the DAG given Z u S between observed x, y yields an m-connecting path of the MAG given Z.
   Plan (walk level): A. generic open walks, reversal; inducing WALKS: tail lemmas, adjacency in the MAG; the MAG is ancestral.
                      B. segment lists: cut / merge normalisation;  a normalised list is an open walk of the MAG.
                      C. a d-connecting path -> a walk whose colliders are in An(S) or in Z \ An(S) -> a segment list. *)
From Coq Require Import List Arith Bool Lia.
From PG Require Import Base.ListSet Base.Closure Graph.MGraph Graph.MSep Graph.MSepDec Graph.Walks
  C06.Model C06.Spec C06.Proofs C06.Unbounded C06.UnboundedWalk C06.UnboundedMag C06.UnboundedInd.
Import ListNotations.

(* ================================================================== A0. generic open walks *)
Section GOpen.
Variables (P Q : nat -> Prop).   (* a collider must satisfy P, a non-collider Q *)

Definition gcond (arr : option skind) (a : nat) (k : skind) : Prop :=
  match arr with None => True | Some k1 => if collider k1 k then P a else Q a end.

Fixpoint gopen (arr : option skind) (a : nat) (p : spath) : Prop :=
  match p with [] => True | (k, b) :: t => gcond arr a k /\ gopen (Some k) b t end.

Lemma gopen_app arr a p q :
  gopen arr a (p ++ q) <-> gopen arr a p /\ gopen (larr arr p) (last_node a p) q.
Proof.
  revert arr a; induction p as [|[k b] t IH]; intros arr a.
  - cbn [app larr gopen]. rewrite last_node_nil. tauto.
  - cbn [app larr gopen]. rewrite last_node_cons, IH. tauto.
Qed.

Lemma gopen_rev : forall p x, gopen None x p -> gopen None (last_node x p) (rev_path x p).
Proof.
  induction p as [|[k b] t IH]; intros x Hop; [exact I|].
  destruct Hop as [_ Hop]. rewrite last_node_cons. cbn [rev_path]. apply gopen_app. split.
  - apply IH. destruct t as [|[k2 c] t']; [exact I|]. destruct Hop as [_ Hop]. split; [exact I|exact Hop].
  - rewrite rev_path_last. cbn [gopen]. split; [|exact I].
    destruct t as [|[k2 c] t']; [exact I|].
    rewrite rev_path_larr by discriminate. cbn [gcond]. rewrite collider_flip.
    destruct Hop as [Hc _]. exact Hc.
Qed.
End GOpen.

Lemma gopen_mono (P Q P' Q' : nat -> Prop) : (forall v, P v -> P' v) -> (forall v, Q v -> Q' v) ->
  forall p arr a, gopen P Q arr a p -> gopen P' Q' arr a p.
Proof.
  intros HP HQ. induction p as [|[k b] t IH]; intros arr a H; [exact I|]. destruct H as [Hc H]. split; [|apply IH, H].
  destruct arr as [k1|]; [|exact I]. simpl in *. destruct (collider k1 k); auto.
Qed.

Lemma ind_inner_gopen_cons g A L : forall t k b,
  ind_inner g A L ((k, b) :: t) <-> gopen (in_anc g A) (fun v => In v L) (Some k) b t.
Proof.
  induction t as [|[k2 c] t' IH]; intros k b; [simpl; tauto|].
  specialize (IH k2 c). split.
  - intros [H1 H2]. split; [exact H1|]. apply IH. exact H2.
  - intros [H1 H2]. split; [exact H1|]. apply IH. exact H2.
Qed.

Lemma ind_inner_gopen g A L x p : ind_inner g A L p <-> gopen (in_anc g A) (fun v => In v L) None x p.
Proof.
  destruct p as [|[k b] t]; [simpl; tauto|]. rewrite ind_inner_gopen_cons. cbn [gopen gcond]. tauto.
Qed.

Lemma open_inner_gopen g Z x p : open_inner g Z p <-> gopen (in_anc g Z) (fun v => ~ In v Z) None x p.
Proof.
  rewrite (open_inner_wopen g Z x p). generalize (@None skind). revert x.
  induction p as [|[k b] t IH]; intros x arr; [simpl; tauto|]. cbn [wopen gopen]. rewrite IH.
  destruct arr; simpl; tauto.
Qed.

Lemma rev_fst : forall p x, p <> [] -> fst_kind (rev_path x p) = option_map flip (larr None p).
Proof.
  induction p as [|[k b] t IH]; intros x Hne; [congruence|]. cbn [rev_path larr].
  destruct t as [|s t']; [reflexivity|]. rewrite fst_kind_app by (apply rev_path_nonnil; discriminate).
  rewrite IH by discriminate. destruct s as [k2 c]. reflexivity.
Qed.

Lemma in_anc_incl g A A' v : incl A A' -> in_anc g A v -> in_anc g A' v.
Proof. intros H. apply reach_incl. exact H. Qed.

(* ================================================================== A1. the setting *)
Section Bwd.
Variable d : mgraph.
Hypothesis Hwf : wf d.
Hypothesis HB : B d = [].
Hypothesis HU : U d = [].
Hypothesis HC : C d = [].
Hypothesis Hac : acyclicb d = true.
Variables (L S : list nat).
Hypothesis HLS : incl (L ++ S) (V d).
Hypothesis Hdis : forall v, In v L -> ~ In v S.
Let m := dag_to_mag_model d L S.
Let O := obs d L S.

Lemma Dacy : acyclic d.
Proof. apply acyclicb_spec. exact Hac. Qed.
Lemma SV : incl S (V d).
Proof. intros v Hv. apply HLS, in_or_app. right; exact Hv. Qed.
Lemma Oin a : In a O -> In a (V d) /\ ~ In a (L ++ S).
Proof. apply O_in. Qed.
Lemma AV a b : In a O -> In b O -> incl (a :: b :: S) (V d).
Proof. apply A_V. exact HLS. Qed.
Lemma Oclass v : In v (V d) -> In v O \/ In v L \/ In v S.
Proof.
  intros Hv. destruct (in_dec Nat.eq_dec v (L ++ S)) as [H|H].
  - apply in_app_or in H. tauto.
  - left. unfold O, obs. apply diffb_In. auto.
Qed.
Lemma d_kind a k b : has_step d a k b = true -> k = Fwd \/ k = Bwd.
Proof.
  destruct k; auto; simpl; unfold has_b, has_u; [rewrite HB|rewrite HU]; discriminate.
Qed.

(* an inducing WALK relative to <L,S> between a and b (nodes may repeat, a = b allowed) *)
Definition iwalk (a : nat) (s : spath) (b : nat) : Prop :=
  s <> [] /\ steps_ok d a s /\ last_node a s = b /\ ind_inner d (a :: b :: S) L s.

(* ---- tail lemmas ---- *)
Lemma first_tail a b : incl (a :: b :: S) (V d) -> forall t a' c, (a' = a \/ dpl d a a') -> In a' (V d) ->
  steps_ok d a' ((Fwd, c) :: t) -> ind_inner d (a :: b :: S) L ((Fwd, c) :: t) -> last_node a' ((Fwd, c) :: t) = b ->
  in_anc d S a' \/ dpl d a' b.
Proof.
  intros HA. induction t as [|[k2 e] t' IH]; intros a' c Hxa Ha Hst Hin Hl.
  - rewrite last_node_cons, last_node_nil in Hl. subst c. destruct Hst as [Hy [Hd _]]. right. apply dpl_one; assumption.
  - destruct Hst as [Hc [Hd Hst]]. simpl in Hd.
    assert (Hxc : dpl d a c).
    { destruct Hxa as [->|Hxa]; [apply dpl_one; assumption|apply dpl_snoc with a'; assumption]. }
    change (ind_inner d (a :: b :: S) L ((Fwd, c) :: (k2, e) :: t'))
      with ((if collider Fwd k2 then in_anc d (a :: b :: S) c else In c L) /\ ind_inner d (a :: b :: S) L ((k2, e) :: t')) in Hin.
    destruct Hin as [Hcc Hin]. rewrite last_node_cons in Hl.
    assert (Lift : in_anc d S c \/ dpl d c b -> in_anc d S a' \/ dpl d a' b).
    { intros [H|H]; [left; apply in_anc_parent with c; assumption|right; apply dpl_cons with c; assumption]. }
    assert (Hcol : in_anc d (a :: b :: S) c -> in_anc d S a' \/ dpl d a' b).
    { intros H. destruct (in_anc_dpl d _ c HA H) as [z [[<-|[<-|Hz]] Hcz]].
      - exfalso. destruct Hcz as [E|Hcz]; [subst c; apply (Dacy a Hxc)|apply (Dacy a (dpl_trans d a c a Hxc Hcz))].
      - right. destruct Hcz as [E|Hcz]; [subst c; apply dpl_one; assumption|apply dpl_cons with c; assumption].
      - apply Lift. left. destruct Hcz as [->|Hcz]; [apply in_anc_Z, Hz|].
        apply dpl_in_anc with z; [exact Hc|exact Hcz|apply in_anc_Z, Hz]. }
    destruct k2; simpl in Hcc.
    + apply Lift. apply (IH c e); auto.
    + apply Hcol, Hcc.
    + apply Hcol, Hcc.
    + destruct Hst as [_ [Hs _]]. rewrite (no_un d c e HU) in Hs. discriminate.
Qed.

Lemma iwalk_first_tail a s b : In a O -> In b O -> iwalk a s b -> fst_kind s = Some Fwd -> in_anc d S a \/ dpl d a b.
Proof.
  intros Ha Hb [Hne [Hst [Hl Hin]]] Hf. destruct s as [|[k c] t]; [congruence|]. simpl in Hf. inversion Hf; subst k.
  apply (first_tail a b (AV a b Ha Hb) t a c); auto. apply Oin, Ha.
Qed.

Lemma iwalk_rev a s b : In a O -> iwalk a s b -> iwalk b (rev_path a s) a.
Proof.
  intros Ha [Hne [Hst [Hl Hin]]]. unfold iwalk. rewrite <- Hl.
  split; [apply rev_path_nonnil, Hne|]. split; [apply rev_path_steps; [apply Oin, Ha|exact Hst]|].
  split; [apply rev_path_last|].
  apply (ind_inner_gopen d _ L (last_node a s)). 
  apply gopen_mono with (P := in_anc d (a :: b :: S)) (Q := fun v => In v L); auto.
  - intros v Hv. rewrite Hl. eapply in_anc_incl; [|exact Hv]. intros w [<-|[<-|Hw]]; simpl; auto.
  - apply gopen_rev. apply (ind_inner_gopen d _ L a s). exact Hin.
Qed.

Lemma iwalk_last_tail a s b : In a O -> In b O -> iwalk a s b -> larr None s = Some Bwd -> in_anc d S b \/ dpl d b a.
Proof.
  intros Ha Hb Hw Hl. apply (iwalk_first_tail b (rev_path a s) a Hb Ha (iwalk_rev a s b Ha Hw)).
  destruct Hw as [Hne _]. rewrite rev_fst by exact Hne. rewrite Hl. reflexivity.
Qed.

(* ---- an inducing walk between distinct observed nodes makes them adjacent in the MAG ---- *)
Lemma iwalk_adj a s b : In a O -> In b O -> a <> b -> iwalk a s b -> inducing_b d a b L S = true.
Proof.
  intros Ha Hb Hne [Hsn [Hst [Hl Hin]]].
  destruct (inducing_b d a b L S) eqn:E; [reflexivity|]. exfalso.
  assert (HA := AV a b Ha Hb).
  assert (Hno : forall p, ~ inducing_path_def d L S a p b).
  { intros p Hp. unfold inducing_b in E.
    assert (E' : fst (inducing_model d a b L S) = true) by (apply (inducing_exact d a b L S HA); exists p; exact Hp).
    congruence. }
  pose proof (sepset_separates d L S a b HU HA (proj2 (Oin a Ha)) (proj2 (Oin b Hb)) Hno) as Hsep.
  set (W := sepset d L S a b) in *.
  assert (HWV : incl W (V d)).
  { intros v Hv. unfold W, sepset in Hv. apply in_app_or in Hv. destruct Hv as [Hv|Hv]; [|apply SV, Hv].
    apply (sepset0_In d L S a b v HA) in Hv. tauto. }
  assert (HSW : incl S W) by (intros v Hv; unfold W, sepset; apply in_or_app; right; exact Hv).
  assert (HLW : forall v, In v L -> ~ In v W).
  { intros v HvL Hv. unfold W, sepset in Hv. apply in_app_or in Hv. destruct Hv as [Hv|Hv]; [|apply (Hdis v HvL Hv)].
    apply (sepset0_In d L S a b v HA) in Hv. apply (proj1 (proj2 Hv)). apply in_or_app. left; exact HvL. }
  destruct s as [|[k1 c] q]; [congruence|]. destruct Hst as [Hc [Hs Hq]]. rewrite last_node_cons in Hl.
  destruct (build d L S W a b HA HWV HSW HLW q k1 c [(k1, c)]) as [w [W1 [W2 W3]]]; auto.
  - simpl. auto.
  - simpl. auto.
  - destruct (open_walk_to_path d W a b w) as [p' [Hcn _]]; auto.
    + exact Dacy.
    + apply no_und_ancestral. exact HU.
    + apply (open_inner_wopen d W a w). exact W3.
    + apply (Hsep a b p'); [left; reflexivity|left; reflexivity|exact Hcn].
Qed.

Lemma in_an_iff a b : In b O -> (in_an d S a b = true <-> in_anc d (b :: S) a).
Proof. apply in_an_spec. exact HLS. Qed.

(* the edge of the MAG between adjacent a and b, with its marks *)
Lemma mag_edge a b : In a O -> In b O -> a <> b -> inducing_b d a b L S = true ->
  exists k, has_step m a k b = true /\ arrow_src k = negb (in_an d S a b) /\ arrow_tgt k = negb (in_an d S b a).
Proof.
  intros Ha Hb Hne Hi.
  pose proof (mag_marks d L S a b) as Mab. pose proof (mag_marks d L S b a) as Mba. cbv zeta in Mab, Mba.
  destruct Mab as [Pab [Dab [Bab [Uab _]]]]. destruct Mba as [Pba [Dba [Bba [Uba _]]]].
  fold m in Dab, Bab, Uab, Dba, Bba, Uba.
  assert (Hi' : inducing_b d b a L S = true) by (apply (inducing_sym d Hwf HU Hac L S HLS Hdis a b); assumption).
  assert (Hp : In (a, b) (mag_pairs d L S) \/ In (b, a) (mag_pairs d L S)).
  { destruct (upairs_complete (obs d L S) a b Ha Hb Hne) as [H|H]; [left|right]; apply mag_pairs_In; auto. }
  assert (Hq : forall u v, In (u, v) (mag_pairs d L S) -> In (u, v) (upairs (obs d L S)) /\ inducing_b d u v L S = true)
    by (intros u v H; apply mag_pairs_In; exact H).
  destruct (in_an d S a b) eqn:E1, (in_an d S b a) eqn:E2.
  - exists Un. split; [|split; reflexivity]. simpl. unfold has_u. apply smemb_In.
    destruct Hp as [Hp|Hp]; [left; apply Uab|right; apply Uba]; apply Hq in Hp; intuition congruence.
  - exists Fwd. split; [|split; reflexivity]. simpl. unfold has_d. apply pmemb_In. apply Dab. intuition congruence.
  - exists Bwd. split; [|split; reflexivity]. simpl. unfold has_d. apply pmemb_In. apply Dba. intuition congruence.
  - exists Bi. split; [|split; reflexivity]. simpl. unfold has_b. apply smemb_In.
    destruct Hp as [Hp|Hp]; [left; apply Bab|right; apply Bba]; apply Hq in Hp; intuition congruence.
Qed.

(* ---- the model MAG is ancestral: directed layer acyclic, no arrowhead into an endpoint of an undirected edge ---- *)
Lemma mag_fwd a b : has_d m a b = true -> In a O /\ In b O /\ in_anc d (b :: S) a /\ ~ in_anc d (a :: S) b.
Proof.
  intros H. destruct (mag_step d Hwf HU Hac L S HLS Hdis a Fwd b H) as [Ha [Hb [_ [Hs Ht]]]]. simpl in Hs, Ht.
  repeat split; auto.
  - apply (in_an_iff a b Hb). destruct (in_an d S a b); [reflexivity|discriminate].
  - intros Hx. apply (in_an_iff b a Ha) in Hx. rewrite Hx in Ht. discriminate.
Qed.

Lemma mag_dpl_anc a b : dpl m a b -> In b O /\ in_anc d (b :: S) a.
Proof.
  intros H. induction H as [b Hb Hab|b c Hab IH Hc Hbc].
  - destruct (mag_fwd a b Hab) as [_ [HbO [H _]]]. auto.
  - destruct IH as [HbO IH]. destruct (mag_fwd b c Hbc) as [_ [HcO [H _]]]. split; [exact HcO|].
    apply in_anc_trans with (b :: S); [|exact IH].
    intros w [<-|Hw]; [exact H|apply in_anc_Z; right; exact Hw].
Qed.

Lemma dpl_front g a b : dpl g a b -> has_d g a b = true \/ exists c, In c (V g) /\ has_d g a c = true /\ dpl g c b.
Proof.
  intros H. induction H as [b Hb Hab|b c Hab IH Hc Hbc]; [left; exact Hab|right].
  destruct IH as [H|[e [He [Hae Heb]]]].
  - exists b. split; [apply dpl_In with a; exact Hab|]. split; [exact H|apply dpl_one; assumption].
  - exists e. split; [exact He|]. split; [exact Hae|apply dpl_snoc with b; assumption].
Qed.

Lemma mag_acyclic : acyclic m.
Proof.
  intros v Hv. destruct (dpl_front m v v Hv) as [H|[c [_ [Hvc Hcv]]]].
  - destruct (mag_fwd v v H) as [_ [_ [_ Hn]]]. apply Hn. apply in_anc_Z. left; reflexivity.
  - destruct (mag_fwd v c Hvc) as [_ [_ [_ Hn]]]. apply Hn. apply (mag_dpl_anc c v Hcv).
Qed.

Lemma mag_ancestral_und : ancestral_und m.
Proof.
  intros a b c Hu.
  destruct (mag_step d Hwf HU Hac L S HLS Hdis b Un c Hu) as [Hb [Hc [Hi [Hs Ht]]]]. simpl in Hs, Ht.
  assert (E1 : in_anc d (c :: S) b) by (apply (in_an_iff b c Hc); destruct (in_an d S b c); [reflexivity|discriminate]).
  assert (E2 : in_anc d (b :: S) c) by (apply (in_an_iff c b Hb); destruct (in_an d S c b); [reflexivity|discriminate]).
  (* b is an ancestor of S *)
  assert (HbS : in_anc d S b).
  { assert (HcS : incl (c :: S) (V d)) by (intros v [<-|Hv]; [apply Oin, Hc|apply SV, Hv]).
    assert (HbS' : incl (b :: S) (V d)) by (intros v [<-|Hv]; [apply Oin, Hb|apply SV, Hv]).
    destruct (in_anc_dpl d _ b HcS E1) as [z [[<-|Hz] Hbz]].
    - destruct (in_anc_dpl d _ c HbS' E2) as [z' [[<-|Hz'] Hcz]].
      + exfalso. destruct Hbz as [E|Hbz]; destruct Hcz as [E'|Hcz].
        * (* b = c: an edge of the MAG joins distinct nodes *)
          subst c. unfold inducing_b in Hi. apply (inducing_exact d b b L S (AV b b Hb Hb)) in Hi. destruct Hi as [p Hp].
          destruct Hp as [_ [_ [Hpn [_ [Hnd [Hl _]]]]]]. unfold nodes_of in Hnd. apply NoDup_cons_iff in Hnd.
          apply (proj1 Hnd). rewrite <- Hl at 1. apply last_node_In. exact Hpn.
        * subst c. apply (Dacy b Hcz).
        * subst c. apply (Dacy b Hbz).
        * apply (Dacy b (dpl_trans d b c b Hbz Hcz)).
      + assert (HcS2 : in_anc d S c).
        { destruct Hcz as [->|Hcz]; [apply in_anc_Z, Hz'|]. apply dpl_in_anc with z'; [apply Oin, Hc|exact Hcz|apply in_anc_Z, Hz']. }
        destruct Hbz as [->|Hbz]; [exact HcS2|]. apply dpl_in_anc with c; [apply Oin, Hb|exact Hbz|exact HcS2].
    - destruct Hbz as [->|Hbz]; [apply in_anc_Z, Hz|]. apply dpl_in_anc with z; [apply Oin, Hb|exact Hbz|apply in_anc_Z, Hz]. }
  assert (HbaS : in_anc d (a :: S) b) by (eapply in_anc_incl; [|exact HbS]; intros v Hv; right; exact Hv).
  split.
  - destruct (has_d m a b) eqn:E; [|reflexivity]. exfalso. destruct (mag_fwd a b E) as [_ [_ [_ Hn]]]. apply Hn, HbaS.
  - destruct (has_b m a b) eqn:E; [|reflexivity]. exfalso.
    destruct (mag_step d Hwf HU Hac L S HLS Hdis a Bi b E) as [Ha [_ [_ [_ Ht']]]]. simpl in Ht'.
    apply (in_an_iff b a Ha) in HbaS. rewrite HbaS in Ht'. discriminate.
Qed.

(* ================================================================== B. segment lists *)
Variable Z : list nat.
Hypothesis HZ : incl Z O.

Lemma last_kind_d : forall s a k, steps_ok d a s -> larr None s = Some k -> k = Fwd \/ k = Bwd.
Proof.
  assert (K : forall s a arr k, steps_ok d a s -> s <> [] -> larr arr s = Some k -> k = Fwd \/ k = Bwd).
  { induction s as [|[k0 b] t IH]; intros a arr k Hst Hne Hl; [congruence|].
    destruct Hst as [_ [Hs Hst]]. cbn [larr] in Hl. destruct t as [|s' t'].
    - cbn [larr] in Hl. inversion Hl; subst. apply (d_kind a k b Hs).
    - apply (IH b (Some k0) k Hst); [discriminate|exact Hl]. }
  intros s a k Hst Hl. destruct s as [|x t]; [discriminate|]. apply (K (x :: t) a None k Hst); [discriminate|exact Hl].
Qed.

Lemma first_kind_d s a k : steps_ok d a s -> fst_kind s = Some k -> k = Fwd \/ k = Bwd.
Proof. destruct s as [|[k0 b] t]; [discriminate|]. intros [_ [Hs _]] E. simpl in E. inversion E; subst. apply (d_kind a k b Hs). Qed.

Definition juncok (kl : option skind) (a : nat) (kf : option skind) : Prop :=
  match kl, kf with
  | Some k1, Some k2 =>
      if memb a Z then arrow_tgt k1 = true /\ arrow_src k2 = true /\ ~ in_anc d S a
      else in_anc d S a \/ arrow_tgt k1 = false \/ arrow_src k2 = false
  | _, _ => True
  end.

Definition frames := list (nat * spath).

Fixpoint seg (a : nat) (kl : option skind) (F : frames) : Prop :=
  match F with
  | [] => True
  | (b, s) :: F' => In b O /\ iwalk a s b /\ juncok kl a (fst_kind s) /\ seg b (larr None s) F'
  end.

Fixpoint endn (a : nat) (F : frames) : nat := match F with [] => a | (b, _) :: F' => endn b F' end.

Definition headok (a b : nat) (F' : frames) : Prop :=
  match F' with (c, _) :: _ => In b Z -> ~ dpl d b a /\ ~ dpl d b c | [] => True end.

Fixpoint good (a : nat) (kl : option skind) (F : frames) : Prop :=
  match F with
  | [] => True
  | (b, s) :: F' => In b O /\ a <> b /\ iwalk a s b /\ juncok kl a (fst_kind s) /\ headok a b F' /\ good b (larr None s) F'
  end.

Lemma good_seg : forall F a kl, good a kl F -> seg a kl F.
Proof. induction F as [|[b s] F' IH]; intros a kl H; [exact I|]. destruct H as [H1 [_ [H2 [H3 [_ H4]]]]]. simpl. auto. Qed.

(* removing a closed segment at a *)
Lemma cut_junc a sc kl kf : In a O -> iwalk a sc a ->
  juncok kl a (fst_kind sc) -> juncok (larr None sc) a kf -> juncok kl a kf.
Proof.
  intros Ha Hw H1 H2. destruct kl as [k1|]; [|exact I]. destruct kf as [k2|]; [|destruct k1; exact I].
  pose proof Hw as [Hne [Hst _]].
  destruct (fst_kind sc) as [kc|] eqn:Ef; [|destruct sc as [|[? ?] ?]; [congruence|simpl in Ef; discriminate]].
  destruct (larr None sc) as [kd|] eqn:El.
  2:{ exfalso. destruct (larr_some sc None Hne) as [k E]. congruence. }
  unfold juncok in *. destruct (memb a Z).
  - tauto.
  - destruct H1 as [H1|[H1|H1]]; auto. destruct H2 as [H2|[H2|H2]]; auto.
    left. destruct (first_kind_d sc a kc Hst Ef) as [ E0 | E0 ]; subst kc; [|discriminate].
    destruct (iwalk_first_tail a sc a Ha Ha Hw Ef) as [H|H]; [exact H|destruct (Dacy a H)].
Qed.

(* absorbing an observed collider b of Z that is an ancestor of a neighbour *)
Lemma merge_iwalk a s1 b s2 c k1 k2 : In a O -> In b O -> In c O ->
  iwalk a s1 b -> iwalk b s2 c -> larr None s1 = Some k1 -> fst_kind s2 = Some k2 ->
  arrow_tgt k1 = true -> arrow_src k2 = true -> (dpl d b a \/ dpl d b c) -> iwalk a (s1 ++ s2) c.
Proof.
  intros Ha Hb Hc [N1 [S1 [L1 I1]]] [N2 [S2 [L2 I2]]] El Ef Ht Hs Hd.
  assert (HbA : in_anc d (a :: c :: S) b).
  { destruct Hd as [Hd|Hd].
    - apply dpl_in_anc with a; [apply Oin, Hb|exact Hd|apply in_anc_Z; left; reflexivity].
    - apply dpl_in_anc with c; [apply Oin, Hb|exact Hd|apply in_anc_Z; right; left; reflexivity]. }
  assert (M1 : forall v, in_anc d (a :: b :: S) v -> in_anc d (a :: c :: S) v).
  { intros v Hv. apply in_anc_trans with (a :: b :: S); [|exact Hv].
    intros w [<-|[<-|Hw]]; [apply in_anc_Z; left; reflexivity|exact HbA|apply in_anc_Z; right; right; exact Hw]. }
  assert (M2 : forall v, in_anc d (b :: c :: S) v -> in_anc d (a :: c :: S) v).
  { intros v Hv. apply in_anc_trans with (b :: c :: S); [|exact Hv].
    intros w [<-|[<-|Hw]]; [exact HbA|apply in_anc_Z; right; left; reflexivity|apply in_anc_Z; right; right; exact Hw]. }
  split; [intros E; apply app_eq_nil in E; destruct E; contradiction|].
  split; [apply steps_ok_app; rewrite L1; auto|]. split; [rewrite last_node_app, L1; exact L2|].
  apply (ind_inner_gopen d _ L a). apply gopen_app. split.
  - apply gopen_mono with (P := in_anc d (a :: b :: S)) (Q := fun v => In v L); auto.
    apply (ind_inner_gopen d _ L a s1). exact I1.
  - rewrite L1, El. apply (ind_inner_gopen d _ L b s2) in I2.
    destruct s2 as [|[k e] t2]; [congruence|]. simpl in Ef. inversion Ef; subst k.
    destruct I2 as [_ I2]. split.
    + simpl. unfold collider. rewrite Ht, Hs. simpl. exact HbA.
    + apply gopen_mono with (P := in_anc d (b :: c :: S)) (Q := fun v => In v L); auto.
Qed.

Lemma dpl_dec a b : {dpl d a b} + {~ dpl d a b}.
Proof.
  destruct (reaches_plus d a b) eqn:E; [left; apply reaches_plus_spec; exact E|right].
  intros H. apply reaches_plus_spec in H. congruence.
Qed.

Lemma norm : forall n F a kl, length F <= n -> In a O -> seg a kl F ->
  exists F', good a kl F' /\ endn a F' = endn a F /\ length F' <= length F.
Proof.
  induction n as [|n IH]; intros F a kl Hlen Ha Hseg.
  - destruct F; [|simpl in Hlen; lia]. exists []. simpl. auto.
  - destruct F as [|[b s1] R]; [exists []; simpl; auto|].
    destruct Hseg as [Hb [Hw1 [Hj1 HsR]]]. simpl in Hlen.
    destruct (Nat.eq_dec a b) as [<-|Hne].
    + (* closed first segment: cut it *)
      destruct R as [|[c s2] R'].
      * exists []. simpl. auto.
      * destruct HsR as [Hc [Hw2 [Hj2 HsR']]].
        destruct (IH ((c, s2) :: R') a kl) as [F' [G1 [G2 G3]]]; [simpl in *; lia|exact Ha| |].
        -- simpl. split; [exact Hc|]. split; [exact Hw2|]. split; [|exact HsR'].
           apply (cut_junc a s1 kl (fst_kind s2) Ha Hw1 Hj1 Hj2).
        -- exists F'. split; [exact G1|]. split; [exact G2|]. simpl in *. lia.
    + destruct (IH R b (larr None s1)) as [R' [G1 [G2 G3]]]; [lia|exact Hb|exact HsR|].
      destruct R' as [|[c s2] R''].
      * exists [(b, s1)]. simpl in G2.
        assert (Hg : good a kl [(b, s1)]) by (cbn [good headok]; tauto).
        split; [exact Hg|]. split; [cbn [endn]; exact G2|cbn [length]; lia].
      * destruct (in_dec Nat.eq_dec b Z) as [HbZ|HbZ].
        2:{ exists ((b, s1) :: (c, s2) :: R''). split; [|split; [simpl; simpl in G2; exact G2|simpl; simpl in G3; lia]].
            split; [exact Hb|]. split; [exact Hne|]. split; [exact Hw1|]. split; [exact Hj1|]. split; [|exact G1].
            intros HbZ'. contradiction. }
        destruct (dpl_dec b a) as [Dba|Dba]; [|destruct (dpl_dec b c) as [Dbc|Dbc]].
        3:{ exists ((b, s1) :: (c, s2) :: R''). split; [|split; [simpl; simpl in G2; exact G2|simpl; simpl in G3; lia]].
            split; [exact Hb|]. split; [exact Hne|]. split; [exact Hw1|]. split; [exact Hj1|]. split; [|exact G1].
            intros _. split; assumption. }
        all: destruct G1 as [Hc [Hbc [Hw2 [Hj2 [Hh2 Hg2]]]]].
        all: pose proof Hw1 as [N1 _]; pose proof Hw2 as [N2 _].
        all: destruct (larr_some s1 None N1) as [k1 El].
        all: destruct (fst_kind s2) as [k2|] eqn:Ef; [|destruct s2 as [|[? ?] ?]; [congruence|simpl in Ef; discriminate]].
        all: assert (Hz : arrow_tgt k1 = true /\ arrow_src k2 = true)
               by (rewrite El in Hj2; unfold juncok in Hj2; apply memb_In in HbZ; rewrite HbZ in Hj2; tauto).
        all: assert (Hm : iwalk a (s1 ++ s2) c)
               by (apply (merge_iwalk a s1 b s2 c k1 k2); auto; tauto).
        all: assert (Hseg2 : seg a kl ((c, s1 ++ s2) :: R'')).
        all: try (simpl; split; [exact Hc|]; split; [exact Hm|]; split;
                  [rewrite fst_kind_app by exact N1; exact Hj1|];
                  rewrite larr_app, El; rewrite (larr_nonnil s2 (Some k1)) with (kl := match larr None s2 with Some k => k | None => Fwd end);
                  [destruct (larr_some s2 None N2) as [k3 E3]; rewrite E3; rewrite E3 in Hg2; apply good_seg; exact Hg2
                  |exact N2|destruct (larr_some s2 None N2) as [k3 E3]; rewrite E3; reflexivity]).
        all: destruct (IH ((c, s1 ++ s2) :: R'') a kl) as [F' [H1 [H2 H3]]]; [simpl in *; lia|exact Ha|exact Hseg2|].
        all: exists F'; split; [exact H1|]; split; [rewrite H2; simpl; simpl in G2; exact G2|simpl in *; lia].
Qed.

(* ---- a normalised segment list is an open walk of the MAG ---- *)
Lemma in_an_false a b : In a O -> In b O -> a <> b -> ~ in_anc d S a -> ~ dpl d a b -> in_an d S a b = false.
Proof.
  intros Ha Hb Hne HnS Hnd. destruct (in_an d S a b) eqn:E; [|reflexivity]. exfalso.
  apply (in_an_iff a b Hb) in E.
  assert (HbS : incl (b :: S) (V d)) by (intros v [<-|Hv]; [apply Oin, Hb|apply SV, Hv]).
  destruct (in_anc_dpl d _ a HbS E) as [z [[<-|Hz] Haz]].
  - destruct Haz as [E'|Haz]; [congruence|contradiction].
  - apply HnS. destruct Haz as [->|Haz]; [apply in_anc_Z, Hz|].
    apply dpl_in_anc with z; [apply Oin, Ha|exact Haz|apply in_anc_Z, Hz].
Qed.

Lemma in_an_true a b : In a O -> In b O -> in_anc d S a \/ dpl d a b -> in_an d S a b = true.
Proof.
  intros Ha Hb H. apply (in_an_iff a b Hb). destruct H as [H|H].
  - eapply in_anc_incl; [|exact H]. intros v Hv. right; exact Hv.
  - apply dpl_in_anc with b; [apply Oin, Ha|exact H|apply in_anc_Z; left; reflexivity].
Qed.

Lemma good_walk : forall F al a s0 kma,
  In al O -> In a O -> al <> a -> iwalk al s0 a ->
  arrow_tgt kma = negb (in_an d S a al) ->
  good a (larr None s0) F -> headok al a F ->
  exists mu, steps_ok m a mu /\ last_node a mu = endn a F /\ wopen m Z (Some kma) a mu.
Proof.
  induction F as [|[b s] F' IH]; intros al a s0 kma Hal Ha Hne Hw0 Hkm Hg Hh.
  - exists []. simpl. auto.
  - destruct Hg as [Hb [Hab [Hw [Hj [Hh' Hg']]]]].
    destruct (mag_edge a b Ha Hb Hab (iwalk_adj a s b Ha Hb Hab Hw)) as [k [Hk [Hks Hkt]]].
    destruct (IH a b s k Ha Hb Hab Hw Hkt Hg' Hh') as [mu [M1 [M2 M3]]].
    exists ((k, b) :: mu). split; [simpl; split; [|split; [exact Hk|exact M1]]|].
    { destruct (mag_step d Hwf HU Hac L S HLS Hdis a k b Hk) as [_ [HbO _]].
      unfold m, dag_to_mag_model. simpl. exact HbO. }
    split; [rewrite last_node_cons; exact M2|]. split; [|exact M3].
    (* the junction at a *)
    pose proof Hw0 as [N0 [St0 _]]. pose proof Hw as [N1 [St1 _]].
    destruct (larr_some s0 None N0) as [k1 El]. rewrite El in Hj.
    destruct (fst_kind s) as [k2|] eqn:Ef; [|destruct s as [|[? ?] ?]; [congruence|simpl in Ef; discriminate]].
    simpl. unfold collider. rewrite Hkm, Hks. unfold juncok in Hj.
    destruct (memb a Z) eqn:EZ.
    + (* a in Z: both marks are arrowheads, a collider of Z *)
      apply memb_In in EZ. destruct Hj as [_ [_ HnS]]. destruct (Hh EZ) as [Hn1 Hn2].
      rewrite (in_an_false a al Ha Hal (not_eq_sym Hne) HnS Hn1), (in_an_false a b Ha Hb Hab HnS Hn2). simpl.
      apply in_anc_Z. exact EZ.
    + (* a not in Z: one of the marks is a tail *)
      assert (HnZ : ~ In a Z) by (intros H; apply memb_In in H; congruence).
      assert (Hor : in_an d S a al = true \/ in_an d S a b = true).
      { destruct Hj as [H|[H|H]].
        - left. apply in_an_true; auto.
        - left. apply in_an_true; auto.
          destruct (last_kind_d s0 al k1 St0 El) as [E|E]; subst k1; [discriminate|].
          apply (iwalk_last_tail al s0 a Hal Ha Hw0 El).
        - right. apply in_an_true; auto.
          destruct (first_kind_d s a k2 St1 Ef) as [E|E]; subst k2; [|discriminate].
          apply (iwalk_first_tail a s b Ha Hb Hw Ef). }
      destruct Hor as [E|E]; rewrite E; simpl; [exact HnZ|rewrite andb_false_r; exact HnZ].
Qed.

Theorem good_mconn x y F : In x O -> x <> y -> good x None F -> endn x F = y -> exists p, mconn m Z x p y.
Proof.
  intros Hx Hxy Hg He. destruct F as [|[b s] F']; [simpl in He; congruence|].
  destruct Hg as [Hb [Hab [Hw [_ [Hh Hg]]]]].
  destruct (mag_edge x b Hx Hb Hab (iwalk_adj x s b Hx Hb Hab Hw)) as [k [Hk [Hks Hkt]]].
  destruct (good_walk F' x b s k Hx Hb Hab Hw Hkt Hg Hh) as [mu [M1 [M2 M3]]].
  assert (HbV : In b (V m)) by (unfold m, dag_to_mag_model; simpl; exact Hb).
  destruct (open_walk_to_path m Z x y ((k, b) :: mu)) as [p [Hp _]]; auto.
  - exact mag_acyclic.
  - exact mag_ancestral_und.
  - simpl. auto.
  - rewrite last_node_cons, M2. exact He.
  - apply (open_inner_wopen m Z x). split; [exact I|exact M3].
  - exists p. exact Hp.
Qed.

(* ================================================================== C. from a d-connecting path to a segment list *)
Let W := Z ++ S.

Lemma WV : incl W (V d).
Proof. intros v Hv. apply in_app_or in Hv. destruct Hv as [Hv|Hv]; [apply Oin, HZ, Hv|apply SV, Hv]. Qed.
Lemma SinW v : In v S -> In v W.
Proof. intros H. apply in_or_app. right; exact H. Qed.
Lemma ZinW v : In v Z -> In v W.
Proof. intros H. apply in_or_app. left; exact H. Qed.
Lemma W_notS_Z v : In v W -> ~ in_anc d S v -> In v Z.
Proof. intros Hv Hn. apply in_app_or in Hv. destruct Hv as [H|H]; [exact H|]. exfalso. apply Hn, in_anc_Z, H. Qed.

(* normal form: every collider occurrence is an ancestor of S or a node of Z that is not; non-colliders are outside W *)
Definition nfP (v : nat) : Prop := in_anc d S v \/ (In v Z /\ ~ in_anc d S v).
Definition nfQ (v : nat) : Prop := ~ In v W.

Lemma mono_run k : (k = Fwd \/ k = Bwd) -> forall p b, allk k p -> ~ In b W -> (forall v, In v (map snd p) -> ~ In v W) ->
  gopen nfP nfQ (Some k) b p.
Proof.
  intros Hk. induction p as [|[k0 c] t IH]; intros b Hall Hb Hn; [exact I|].
  assert (E : k0 = k) by (apply (Hall (k0, c)); left; reflexivity). subst k0. split.
  - simpl. destruct Hk as [->| ->]; simpl; exact Hb.
  - apply IH; [intros s0 Hs0; apply Hall; right; exact Hs0|apply Hn; left; reflexivity|intros v Hv; apply Hn; right; exact Hv].
Qed.

Lemma first_hit : forall pf a, allk Fwd pf -> pf <> [] -> In (last_node a pf) W ->
  exists pre z post, pf = pre ++ (Fwd, z) :: post /\ In z W /\ forall v, In v (map snd pre) -> ~ In v W.
Proof.
  induction pf as [|[k c] t IH]; intros a Hall Hne Hl; [congruence|].
  assert (E : k = Fwd) by (apply (Hall (k, c)); left; reflexivity). subst k.
  destruct (in_dec Nat.eq_dec c W) as [Hc|Hc].
  - exists [], c, t. split; [reflexivity|]. split; [exact Hc|]. intros v [].
  - rewrite last_node_cons in Hl. destruct t as [|s t']; [rewrite last_node_nil in Hl; contradiction|].
    destruct (IH c) as [pre [z [post [E [Hz Hn]]]]]; [intros s0 Hs0; apply Hall; right; exact Hs0|discriminate|exact Hl|].
    exists ((Fwd, c) :: pre), z, post. split; [rewrite E; reflexivity|]. split; [exact Hz|].
    intros v [<-|Hv]; [exact Hc|apply Hn, Hv].
Qed.

Lemma rev_path_app : forall p q x, rev_path x (p ++ q) = rev_path (last_node x p) q ++ rev_path x p.
Proof.
  induction p as [|[k b] t IH]; intros q x; [cbn [app rev_path]; rewrite last_node_nil, app_nil_r; reflexivity|].
  cbn [app rev_path]. rewrite last_node_cons, IH, app_assoc. reflexivity.
Qed.

Lemma NF : forall q a arr, In a (V d) -> steps_ok d a q -> wopen d W arr a q ->
  exists w, steps_ok d a w /\ last_node a w = last_node a q /\ gopen nfP nfQ arr a w.
Proof.
  induction q as [|[k b] t IH]; intros a arr Ha Hst Hop; [exists []; simpl; auto|].
  destruct Hst as [Hb [Hs Hst]]. destruct Hop as [Hc Hop].
  destruct (IH b (Some k) Hb Hst Hop) as [w' [W1 [W2 W3]]].
  assert (Plain : gcond nfP nfQ arr a k ->
                  exists w, steps_ok d a w /\ last_node a w = last_node a ((k, b) :: t) /\ gopen nfP nfQ arr a w).
  { intros Hg. exists ((k, b) :: w'). split; [simpl; auto|]. split; [rewrite !last_node_cons; exact W2|]. split; assumption. }
  destruct arr as [k1|]; [|apply Plain; exact I].
  simpl in Hc. destruct (collider k1 k) eqn:Ec.
  2:{ apply Plain. simpl. rewrite Ec. exact Hc. }
  destruct (memb a (anc_of d S)) eqn:EaS.
  { apply Plain. simpl. rewrite Ec. left. apply (in_anc_spec d S a SV). exact EaS. }
  assert (HnS : ~ in_anc d S a) by (intros H; apply (in_anc_spec d S a SV) in H; congruence).
  destruct (in_dec Nat.eq_dec a W) as [HaW|HaW].
  { apply Plain. simpl. rewrite Ec. right. split; [apply W_notS_Z; assumption|exact HnS]. }
  (* a collider outside W that is an ancestor of Z but not of S: go down to the first node of W and come back *)
  destruct (in_anc_dpl d W a WV Hc) as [z0 [Hz0 [E|Haz]]]; [congruence|].
  destruct (dpl_walk d a z0 Haz) as [pf [Hpn [Hpf [Hlp [Hff Hn]]]]].
  destruct (first_hit pf a (proj1 (allfwd_allk pf) Hff) Hpn) as [pre [z [post [E [Hz Hpre]]]]]; [rewrite Hlp; exact Hz0|].
  subst pf. apply steps_ok_app in Hpf. destruct Hpf as [Sp Sz]. simpl in Sz. destruct Sz as [HzV [Hsz _]].
  assert (Hallpre : allk Fwd pre) by (intros s0 Hs0; apply Hff; apply in_or_app; left; exact Hs0).
  assert (Haz' : dpl d a z) by (apply Hn; rewrite map_app; apply in_or_app; right; left; reflexivity).
  assert (HzS : ~ in_anc d S z) by (intros H; apply HnS; apply dpl_in_anc with z; assumption).
  assert (HzZ : In z Z) by (apply W_notS_Z; assumption).
  set (c := last_node a pre) in *.
  assert (HcW : ~ In c W).
  { unfold c. destruct pre as [|s0 pre']; [rewrite last_node_nil; exact HaW|]. apply Hpre, last_node_In. discriminate. }
  exists (pre ++ (Fwd, z) :: (Bwd, c) :: rev_path a pre ++ (k, b) :: w').
  split; [|split].
  - apply steps_ok_app. split; [exact Sp|]. fold c. simpl. split; [exact HzV|]. split; [exact Hsz|].
    split; [unfold c; destruct pre as [|s0 pre']; [rewrite last_node_nil; exact Ha|apply walk_end_V; [discriminate|exact Sp]]|].
    split; [exact Hsz|]. apply steps_ok_app. split.
    + unfold c. apply rev_path_steps; assumption.
    + unfold c. rewrite rev_path_last. simpl. auto.
  - rewrite last_node_app. fold c. rewrite !last_node_cons, last_node_app. unfold c. rewrite rev_path_last, !last_node_cons. exact W2.
  - apply gopen_app. split.
    + destruct pre as [|[k0 e] pre']; [exact I|].
      assert (E0 : k0 = Fwd) by (apply (Hallpre (k0, e)); left; reflexivity). subst k0. split.
      * simpl. unfold collider. simpl. rewrite andb_false_r. exact HaW.
      * apply (mono_run Fwd (or_introl eq_refl)); [intros s0 Hs0; apply Hallpre; right; exact Hs0
          |apply Hpre; left; reflexivity|intros v Hv; apply Hpre; right; exact Hv].
    + fold c. assert (Harr : forall g0, gcond nfP nfQ g0 c Fwd -> gcond nfP nfQ (larr (Some k1) pre) c Fwd).
      { intros g0 _. destruct pre as [|s0 pre'].
        - simpl. unfold collider. simpl. rewrite andb_false_r. unfold c. rewrite last_node_nil. exact HaW.
        - rewrite (allk_larr Fwd (s0 :: pre') (Some k1) Hallpre) by discriminate. simpl. exact HcW. }
      split; [apply (Harr None); exact I|]. split.
      * simpl. right. split; assumption.
      * apply gopen_app. split.
        -- assert (Hrb : allk Bwd (rev_path a pre)) by (apply rev_allfwd; exact Hallpre).
           apply (mono_run Bwd (or_intror eq_refl)); [exact Hrb|exact HcW|].
           intros v Hv. change (map snd (rev_path a pre)) with (tl (nodes_of c (rev_path a pre))) in Hv.
           unfold c in Hv. rewrite rev_path_nodes in Hv. unfold nodes_of in Hv.
           assert (Hin : In v (a :: map snd pre)).
           { apply in_rev. destruct (rev (a :: map snd pre)); [destruct Hv|right; exact Hv]. }
           destruct Hin as [<-|Hin]; [exact HaW|apply Hpre, Hin].
        -- unfold c. rewrite rev_path_last. split; [|exact W3].
           assert (El : larr (Some Bwd) (rev_path a pre) = Some Bwd).
           { destruct pre as [|s0 pre']; [reflexivity|].
             apply allk_larr; [apply rev_allfwd; exact Hallpre|apply rev_path_nonnil; discriminate]. }
           rewrite El. simpl. exact HaW.
Qed.

(* cutting the normal-form walk at its observed non-colliders and at its colliders of Z \ An(S) *)
Lemma pre_iwalk ak rho b : rho <> [] -> steps_ok d ak rho -> last_node ak rho = b ->
  gopen (in_anc d S) (fun v => In v L) None ak rho -> iwalk ak rho b.
Proof.
  intros Hne Hst Hl Hg. split; [exact Hne|]. split; [exact Hst|]. split; [exact Hl|].
  apply (ind_inner_gopen d _ L ak). apply gopen_mono with (P := in_anc d S) (Q := fun v => In v L); auto.
  intros v Hv. eapply in_anc_incl; [|exact Hv]. intros w Hw. right; right; exact Hw.
Qed.

Lemma scan y : In y O -> forall q ak klt rho c,
  In ak O -> steps_ok d ak rho -> last_node ak rho = c ->
  gopen (in_anc d S) (fun v => In v L) None ak rho ->
  (rho = [] -> klt = None) -> (rho <> [] -> juncok klt ak (fst_kind rho)) ->
  steps_ok d c q -> gopen nfP nfQ (larr klt rho) c q -> last_node c q = y ->
  exists F, seg ak klt F /\ endn ak F = y.
Proof.
  intros Hy. induction q as [|[k c'] t IH]; intros ak klt rho c Hak Hst Hl Hpre Hnil Hj Hq Hnf Hly.
  - rewrite last_node_nil in Hly. subst c. destruct rho as [|r0 rho'].
    + rewrite last_node_nil in Hly. subst ak. exists []. simpl. auto.
    + exists [(y, r0 :: rho')]. split; [|reflexivity]. simpl. split; [exact Hy|]. split; [|split; [|exact I]].
      * apply pre_iwalk; auto. discriminate.
      * apply Hj. discriminate.
  - destruct Hq as [Hc' [Hs Hq]]. destruct Hnf as [Hg Hnf]. rewrite last_node_cons in Hly.
    destruct rho as [|r0 rho'].
    + (* at the start node *)
      rewrite last_node_nil in Hl. subst c. rewrite (Hnil eq_refl) in *.
      assert (A1 : steps_ok d ak [(k, c')]) by (simpl; auto).
      assert (A2 : gopen (in_anc d S) (fun v => In v L) None ak [(k, c')]) by (simpl; auto).
      assert (A3 : [(k, c')] <> [] -> juncok None ak (fst_kind [(k, c')])) by (intros _; exact I).
      apply (IH ak None [(k, c')] c' Hak A1 eq_refl A2 (fun _ => eq_refl) A3 Hq Hnf Hly).
    + set (rho := r0 :: rho') in *. assert (Hrn : rho <> []) by discriminate.
      destruct (larr_some rho None Hrn) as [k1 El].
      assert (Earr : larr klt rho = Some k1) by (apply larr_nonnil; assumption).
      rewrite Earr in Hg. simpl in Hg.
      assert (HcV : In c (V d)) by (rewrite <- Hl; apply walk_end_V; assumption).
      assert (Extend : (if collider k1 k then in_anc d S c else In c L) ->
                       exists F, seg ak klt F /\ endn ak F = y).
      { intros Hcond.
        assert (A1 : steps_ok d ak (rho ++ [(k, c')])) by (apply steps_ok_app; split; [exact Hst|rewrite Hl; simpl; auto]).
        assert (A2 : last_node ak (rho ++ [(k, c')]) = c') by (rewrite last_node_app; reflexivity).
        assert (A3 : gopen (in_anc d S) (fun v => In v L) None ak (rho ++ [(k, c')])).
        { apply gopen_app. split; [exact Hpre|]. rewrite El, Hl. simpl. auto. }
        assert (A4 : rho ++ [(k, c')] = [] -> klt = None) by (intros E; apply app_eq_nil in E; destruct E; discriminate).
        assert (A5 : rho ++ [(k, c')] <> [] -> juncok klt ak (fst_kind (rho ++ [(k, c')])))
          by (intros _; rewrite fst_kind_app by exact Hrn; apply Hj; exact Hrn).
        assert (A6 : gopen nfP nfQ (larr klt (rho ++ [(k, c')])) c' t) by (rewrite larr_app; exact Hnf).
        apply (IH ak klt (rho ++ [(k, c')]) c' Hak A1 A2 A3 A4 A5 Hq A6 Hly). }
      assert (Close : In c O -> juncok (Some k1) c (Some k) -> exists F, seg ak klt F /\ endn ak F = y).
      { intros HcO Hjc.
        assert (A1 : steps_ok d c [(k, c')]) by (simpl; auto).
        assert (A2 : gopen (in_anc d S) (fun v => In v L) None c [(k, c')]) by (simpl; auto).
        assert (A3 : [(k, c')] = [] -> Some k1 = None) by discriminate.
        assert (A4 : [(k, c')] <> [] -> juncok (Some k1) c (fst_kind [(k, c')])) by (intros _; exact Hjc).
        destruct (IH c (Some k1) [(k, c')] c' HcO A1 eq_refl A2 A3 A4 Hq Hnf Hly) as [F [F1 F2]].
        + exists ((c, rho) :: F). split; [|exact F2]. cbn [seg]. split; [exact HcO|]. split; [apply pre_iwalk; auto|].
          split; [apply Hj; exact Hrn|]. rewrite El. exact F1. }
      destruct (collider k1 k) eqn:Ec.
      * destruct Hg as [HcS|[HcZ HcnS]]; [apply Extend; exact HcS|].
        apply Close; [apply HZ, HcZ|]. unfold juncok. apply memb_In in HcZ. rewrite HcZ.
        apply andb_true_iff in Ec. tauto.
      * destruct (Oclass c HcV) as [HcO|[HcL|HcS]].
        -- apply Close; [exact HcO|]. unfold juncok.
           assert (EZ : memb c Z = false).
           { destruct (memb c Z) eqn:E; [|reflexivity]. exfalso. apply Hg, ZinW. apply memb_In. exact E. }
           rewrite EZ. apply andb_false_iff in Ec. tauto.
        -- apply Extend. exact HcL.
        -- exfalso. apply Hg, SinW, HcS.
Qed.

Theorem dag_path_folds x y p : In x O -> In y O -> x <> y -> mconn d W x p y -> exists p', mconn m Z x p' y.
Proof.
  intros Hx Hy Hxy [Hne [Hst [_ [Hl Hop]]]].
  destruct (NF p x None (proj1 (Oin x Hx)) Hst) as [w [W1 [W2 W3]]]; [apply (open_inner_wopen d W x p); exact Hop|].
  assert (A5 : ([] : spath) <> [] -> juncok None x (fst_kind [])) by (intros H; congruence).
  assert (A6 : last_node x w = y) by (rewrite W2; exact Hl).
  destruct (scan y Hy w x None [] x Hx I eq_refl I (fun _ => eq_refl) A5 W1 W3 A6) as [F [F1 F2]].
  destruct (norm (length F) F x None (le_n _) Hx F1) as [F' [G1 [G2 _]]].
  apply (good_mconn x y F' Hx Hxy G1). rewrite G2. exact F2.
Qed.
End Bwd.

(* ================================================================== the independence clause, second half, ALL sizes *)
Theorem mag_independence_bwd d L S :
  is_dag d -> incl (L ++ S) (V d) -> (forall v, In v L -> ~ In v S) ->
  forall x y Z, In x (obs d L S) -> In y (obs d L S) -> x <> y -> incl Z (obs d L S) ->
    msep (dag_to_mag_model d L S) [x] [y] Z -> dsep d [x] [y] (Z ++ S).
Proof.
  intros [Hwf [HB [HU [HC Hac]]]] HLS Hdis x y Z Hx Hy Hne HZ Hsep.
  unfold dsep. rewrite (only_directed_dag d HB HU HC). intros x' y' p [<-|[]] [<-|[]] Hc.
  destruct (dag_path_folds d Hwf HB HU Hac L S HLS Hdis Z HZ x y p Hx Hy Hne Hc) as [p' Hp'].
  apply (Hsep x y p'); [left; reflexivity|left; reflexivity|exact Hp'].
Qed.

Theorem mag_independence_all d L S :
  is_dag d -> incl (L ++ S) (V d) -> (forall v, In v L -> ~ In v S) -> mag_independence_stmt d L S.
Proof.
  intros Hd HLS Hdis x y Z Hx Hy Hne HZ _ _. split.
  - apply mag_independence_bwd; assumption.
  - apply mag_independence_fwd; assumption.
Qed.

Theorem mag_full : mag_full_stmt.
Proof.
  intros d L S Hd _ HLS Hdis. split; [apply mag_adjacency_all|apply mag_independence_all]; assumption.
Qed.
