(* C06 — towards the independence clause of dag_to_mag (Richardson–Spirtes Thm 4.18) for all sizes.
   Part 1: end marks of an inducing path: a tail at an endpoint makes that endpoint an ancestor of the other one or of S.
   Part 2: every edge of the model MAG unfolds into an open walk of the DAG with matching end marks.
   Part 3: an m-connecting path of the MAG given Z unfolds into an open walk of the DAG given Z u S, hence
           d-separation given Z u S in the DAG  ->  m-separation given Z in the MAG      (mag_independence_fwd). *)
From Coq Require Import List Arith Bool Lia.
From PG Require Import Base.ListSet Base.Closure Graph.MGraph Graph.MSep Graph.MSepDec Graph.Walks
  C06.Model C06.Spec C06.Proofs C06.Unbounded C06.UnboundedWalk C06.UnboundedMag.
Import ListNotations.

Lemma dpl_trans g a b c : dpl g a b -> dpl g b c -> dpl g a c.
Proof.
  intros Hab Hbc. induction Hbc as [c Hc Hd|c e Hbc IH He Hd].
  - apply dpl_snoc with b; assumption.
  - apply dpl_snoc with c; assumption.
Qed.

Lemma allbwd_dpl g : forall q v, allk Bwd q -> q <> [] -> In v (V g) -> steps_ok g v q -> dpl g (last_node v q) v.
Proof.
  induction q as [|[k c] t IH]; intros v H Hne Hv Hst; [congruence|].
  assert (E : k = Bwd) by (apply (H (k, c)); left; reflexivity). subst k.
  destruct Hst as [Hc [Hs Hst]]. simpl in Hs. rewrite last_node_cons.
  destruct t as [|s t']; [rewrite last_node_nil; apply dpl_one; assumption|].
  apply dpl_snoc with c; [|exact Hv|exact Hs].
  apply IH; auto; [intros s0 Hs0; apply H; right; exact Hs0|discriminate].
Qed.

(* ================================================================== Part 1: end marks of inducing paths *)
Section EndMarks.
Variable g : mgraph.
Hypothesis HU : U g = [].
Hypothesis Hacy : acyclic g.
Variables (L S : list nat) (x y : nat).
Hypothesis HA : incl (x :: y :: S) (V g).
Let A := x :: y :: S.

Lemma anc_split_x c : in_anc g A c -> (c = x \/ dpl g c x) \/ in_anc g (y :: S) c.
Proof.
  intros H. assert (Hc : In c (V g)) by (apply in_anc_V with A; assumption).
  destruct (in_anc_dpl g A c HA H) as [z [Hz Hcz]]. destruct Hz as [<-|Hz]; [left; exact Hcz|right].
  destruct Hcz as [->|Hcz]; [apply in_anc_Z; exact Hz|].
  apply dpl_in_anc with z; [exact Hc|exact Hcz|apply in_anc_Z; exact Hz].
Qed.

Lemma anc_split_y c : in_anc g A c -> (c = y \/ dpl g c y) \/ in_anc g (x :: S) c.
Proof.
  intros H. assert (Hc : In c (V g)) by (apply in_anc_V with A; assumption).
  destruct (in_anc_dpl g A c HA H) as [z [Hz Hcz]].
  destruct Hz as [<-|[<-|Hz]]; [right| left; exact Hcz |right].
  - destruct Hcz as [->|Hcz]; [apply in_anc_Z; left; reflexivity|].
    apply dpl_in_anc with x; [exact Hc|exact Hcz|apply in_anc_Z; left; reflexivity].
  - destruct Hcz as [->|Hcz]; [apply in_anc_Z; right; exact Hz|].
    apply dpl_in_anc with z; [exact Hc|exact Hcz|apply in_anc_Z; right; exact Hz].
Qed.

(* following the path from a tail: only -> steps until a collider or y *)
Lemma first_mark : forall t a' c, (a' = x \/ dpl g x a') -> In a' (V g) ->
  steps_ok g a' ((Fwd, c) :: t) -> ind_inner g A L ((Fwd, c) :: t) -> last_node a' ((Fwd, c) :: t) = y ->
  in_anc g (y :: S) a'.
Proof.
  induction t as [|[k2 e] t' IH]; intros a' c Hxa Ha Hst Hin Hl.
  - rewrite last_node_cons, last_node_nil in Hl. subst c. destruct Hst as [Hy [Hd _]]. simpl in Hd.
    apply in_anc_parent with y; [exact Ha|exact Hd|apply in_anc_Z; left; reflexivity].
  - destruct Hst as [Hc [Hd Hst]]. simpl in Hd.
    assert (Hxc : dpl g x c).
    { destruct Hxa as [->|Hxa]; [apply dpl_one; assumption|apply dpl_snoc with a'; assumption]. }
    change (ind_inner g A L ((Fwd, c) :: (k2, e) :: t'))
      with ((if collider Fwd k2 then in_anc g A c else In c L) /\ ind_inner g A L ((k2, e) :: t')) in Hin.
    destruct Hin as [Hcc Hin]. rewrite last_node_cons in Hl.
    apply in_anc_parent with c; [exact Ha|exact Hd|].
    assert (Hcol : in_anc g A c -> in_anc g (y :: S) c).
    { intros H. destruct (anc_split_x c H) as [[->|Hcx]|H']; [destruct (Hacy x Hxc)| |exact H'].
      destruct (Hacy x (dpl_trans g x c x Hxc Hcx)). }
    destruct k2; simpl in Hcc.
    + apply (IH c e); auto.
    + apply Hcol, Hcc.
    + apply Hcol, Hcc.
    + destruct Hst as [_ [Hs _]]. rewrite (no_un g c e HU) in Hs. discriminate.
Qed.

Lemma first_arrow k c t :
  inducing_path_def g L S x ((k, c) :: t) y -> ~ in_anc g (y :: S) x -> arrow_src k = true.
Proof.
  intros [_ [_ [_ [Hst [_ [Hl Hin]]]]]] Hn. destruct k; try reflexivity.
  - exfalso. apply Hn. apply (first_mark t x c); auto. apply HA. left; reflexivity.
  - destruct Hst as [_ [Hs _]]. rewrite (no_un g x c HU) in Hs. discriminate.
Qed.

(* a suffix that ends with a <- step: either it consists of <- steps only, or y is an ancestor of x or S *)
Lemma last_mark : forall q v kin, In v (V g) -> q <> [] ->
  steps_ok g v q -> last_node v q = y -> ind_inner g A L ((kin, v) :: q) -> larr (Some kin) q = Some Bwd ->
  allk Bwd q \/ in_anc g (x :: S) y.
Proof.
  induction q as [|[k c] t IH]; intros v kin Hv Hne Hst Hl Hin Hla; [congruence|].
  destruct Hst as [Hc [Hs Hst]]. rewrite last_node_cons in Hl. cbn [larr] in Hla.
  destruct t as [|[k2 e] t'].
  - left. cbn [larr] in Hla. assert (E1 : k = Bwd) by congruence. subst k. intros s [<-|[]]. reflexivity.
  - change (ind_inner g A L ((kin, v) :: (k, c) :: (k2, e) :: t'))
      with ((if collider kin k then in_anc g A v else In v L) /\ ind_inner g A L ((k, c) :: (k2, e) :: t')) in Hin.
    destruct Hin as [_ Hin].
    assert (Hne2 : (k2, e) :: t' <> []) by discriminate.
    destruct (IH c k Hc Hne2 Hst Hl Hin Hla) as [Hall|Hq]; [|right; exact Hq].
    assert (E2 : k2 = Bwd) by (apply (Hall (k2, e)); left; reflexivity).
    assert (Hyc : dpl g y c).
    { rewrite <- Hl. apply allbwd_dpl; auto; try discriminate. }
    change (ind_inner g A L ((k, c) :: (k2, e) :: t'))
      with ((if collider k k2 then in_anc g A c else In c L) /\ ind_inner g A L ((k2, e) :: t')) in Hin.
    destruct Hin as [Hcc _]. subst k2.
    assert (HyV : In y (V g)) by (apply HA; right; left; reflexivity).
    destruct k; simpl in Hcc.
    + right. destruct (anc_split_y c Hcc) as [[->|Hcy]|H'].
      * destruct (Hacy y Hyc).
      * destruct (Hacy y (dpl_trans g y c y Hyc Hcy)).
      * apply dpl_in_anc with c; assumption.
    + left. intros s [<-|Hs0]; [reflexivity|apply Hall, Hs0].
    + right. destruct (anc_split_y c Hcc) as [[->|Hcy]|H'].
      * destruct (Hacy y Hyc).
      * destruct (Hacy y (dpl_trans g y c y Hyc Hcy)).
      * apply dpl_in_anc with c; assumption.
    + rewrite (no_un g v c HU) in Hs. discriminate.
Qed.

Lemma last_arrow p kl :
  inducing_path_def g L S x p y -> larr None p = Some kl -> ~ in_anc g (x :: S) y -> arrow_tgt kl = true.
Proof.
  intros [_ [_ [Hne [Hst [_ [Hl Hin]]]]]] Hla Hn.
  assert (HxV : In x (V g)) by (apply HA; left; reflexivity).
  assert (HyV : In y (V g)) by (apply HA; right; left; reflexivity).
  assert (Hstp : steps_ok g x p) by exact Hst.
  destruct p as [|[k1 a] q]; [congruence|]. cbn [larr] in Hla.
  destruct Hst as [Ha [Hs Hq]]. rewrite last_node_cons in Hl.
  destruct kl; try reflexivity.
  - exfalso. apply Hn. destruct q as [|[k2 b] t].
    + cbn [larr] in Hla. assert (E1 : k1 = Bwd) by congruence. subst k1. rewrite last_node_nil in Hl. subst a. simpl in Hs.
      apply in_anc_parent with x; [exact HyV|exact Hs|apply in_anc_Z; left; reflexivity].
    + assert (Hne2 : (k2, b) :: t <> []) by discriminate.
      destruct (last_mark ((k2, b) :: t) a k1 Ha Hne2 Hq Hl Hin Hla) as [Hall|Hq']; [|exact Hq'].
      assert (E2 : k2 = Bwd) by (apply (Hall (k2, b)); left; reflexivity). subst k2.
      assert (Hya : dpl g y a) by (rewrite <- Hl; apply allbwd_dpl; auto; try discriminate).
      change (ind_inner g A L ((k1, a) :: (Bwd, b) :: t))
        with ((if collider k1 Bwd then in_anc g A a else In a L) /\ ind_inner g A L ((Bwd, b) :: t)) in Hin.
      destruct Hin as [Hcc _].
      destruct k1; simpl in Hcc.
      * destruct (anc_split_y a Hcc) as [[->|Hay]|H']; [destruct (Hacy y Hya)| |apply dpl_in_anc with a; assumption].
        destruct (Hacy y (dpl_trans g y a y Hya Hay)).
      * simpl in Hs. apply dpl_in_anc with a; [exact HyV|exact Hya|].
        apply in_anc_parent with x; [exact Ha|exact Hs|apply in_anc_Z; left; reflexivity].
      * destruct (anc_split_y a Hcc) as [[->|Hay]|H']; [destruct (Hacy y Hya)| |apply dpl_in_anc with a; assumption].
        destruct (Hacy y (dpl_trans g y a y Hya Hay)).
      * rewrite (no_un g x a HU) in Hs. discriminate.
  - (* the last step cannot be undirected *)
    exfalso. clear Hn.
    assert (K : forall q v kin, steps_ok g v q -> larr (Some kin) q = Some Un -> kin = Un \/ False).
    { induction q0 as [|[k c] t IHq]; intros v kin Hst0 Hl0; [cbn [larr] in Hl0; inversion Hl0; left; reflexivity|].
      destruct Hst0 as [_ [Hs0 Hst0]]. cbn [larr] in Hl0. destruct (IHq c k Hst0 Hl0) as [->|[]].
      rewrite (no_un g v c HU) in Hs0. discriminate. }
    destruct (K q a k1 Hq Hla) as [->|[]]. rewrite (no_un g x a HU) in Hs. discriminate.
Qed.
End EndMarks.

(* ================================================================== Part 2: the edges of the model MAG *)
Section Mag.
Variable d : mgraph.
Hypothesis Hwf : wf d.
Hypothesis HB : B d = [].
Hypothesis HU : U d = [].
Hypothesis Hac : acyclicb d = true.
Variables (L S : list nat).
Hypothesis HLS : incl (L ++ S) (V d).
Hypothesis Hdis : forall v, In v L -> ~ In v S.
Let m := dag_to_mag_model d L S.
Let O := obs d L S.

Lemma Hacy : acyclic d.
Proof. apply acyclicb_spec. exact Hac. Qed.

Lemma S_V : incl S (V d).
Proof. intros v Hv. apply HLS, in_or_app. right; exact Hv. Qed.

Lemma O_in a : In a O -> In a (V d) /\ ~ In a (L ++ S).
Proof. intros H. unfold O, obs in H. apply diffb_In in H. exact H. Qed.

Lemma A_V a b : In a O -> In b O -> incl (a :: b :: S) (V d).
Proof. intros Ha Hb v [<-|[<-|Hv]]; [apply O_in, Ha|apply O_in, Hb|apply S_V, Hv]. Qed.

Lemma in_an_spec a b : In b O -> (in_an d S a b = true <-> in_anc d (b :: S) a).
Proof.
  intros Hb. unfold in_an. apply in_anc_spec. intros v [<-|Hv]; [apply O_in, Hb|apply S_V, Hv].
Qed.

Lemma inducing_sym a b : In a O -> In b O -> inducing_b d a b L S = true -> inducing_b d b a L S = true.
Proof.
  intros Ha Hb H.
  assert (HA1 := A_V a b Ha Hb). assert (HA2 := A_V b a Hb Ha).
  unfold inducing_b in *. apply (inducing_exact d a b L S HA1) in H. apply (inducing_exact d b a L S HA2).
  apply (inducing_iff_inseparable d L S b a Hwf HU Hac HA2); [apply O_in, Hb|apply O_in, Ha|exact Hdis|].
  intros Z HZ HbZ HaZ Hs.
  apply (proj1 (inducing_iff_inseparable d L S a b Hwf HU Hac HA1 (proj2 (O_in a Ha)) (proj2 (O_in b Hb)) Hdis) H Z HZ HaZ HbZ).
  apply (msep_sym d [b] [a] (Z ++ S)); [intros v [<-|[]]; apply O_in, Hb|intros v [<-|[]]; apply O_in, Ha|exact Hs].
Qed.

(* an edge of the MAG: both ends observed, an inducing path between them, marks by ancestry *)
Lemma mag_step a k b : has_step m a k b = true ->
  In a O /\ In b O /\ inducing_b d a b L S = true /\
  arrow_src k = negb (in_an d S a b) /\ arrow_tgt k = negb (in_an d S b a).
Proof.
  intros H.
  pose proof (mag_marks d L S a b) as Mab. pose proof (mag_marks d L S b a) as Mba. cbv zeta in Mab, Mba.
  destruct Mab as [Pab [Dab [Bab [Uab _]]]]. destruct Mba as [Pba [Dba [Bba [Uba _]]]].
  assert (Hpair : (In (a, b) (mag_pairs d L S) \/ In (b, a) (mag_pairs d L S)) ->
                  In a O /\ In b O /\ inducing_b d a b L S = true).
  { intros [Hp|Hp]; apply mag_pairs_In in Hp; destruct Hp as [Hu Hi]; apply upairs_In in Hu; destruct Hu as [H1 H2].
    - auto.
    - split; [exact H2|]. split; [exact H1|]. apply inducing_sym; assumption. }
  destruct k; simpl in H; unfold has_d, has_b, has_u in H.
  - apply pmemb_In in H. fold m in Dab. apply Dab in H. destruct H as [Hp [H1 H2]].
    destruct (Hpair Hp) as [Ha [Hb Hi]]. repeat split; auto; simpl.
    + rewrite H1. reflexivity.
    + destruct (in_an d S b a); [congruence|reflexivity].
  - apply pmemb_In in H. fold m in Dba. apply Dba in H. destruct H as [Hp [H1 H2]].
    assert (Hp' : In (a, b) (mag_pairs d L S) \/ In (b, a) (mag_pairs d L S)) by tauto.
    destruct (Hpair Hp') as [Ha [Hb Hi]]. repeat split; auto; simpl.
    + destruct (in_an d S a b); [congruence|reflexivity].
    + rewrite H1. reflexivity.
  - apply smemb_In in H. fold m in Bab, Bba. destruct H as [H|H].
    + apply Bab in H. destruct H as [Hp [H1 H2]]. apply Pab in Hp.
      destruct (Hpair (or_introl Hp)) as [Ha [Hb Hi]]. repeat split; auto; simpl.
      * destruct (in_an d S a b); [congruence|reflexivity].
      * destruct (in_an d S b a); [congruence|reflexivity].
    + apply Bba in H. destruct H as [Hp [H1 H2]]. apply Pba in Hp.
      destruct (Hpair (or_intror Hp)) as [Ha [Hb Hi]]. repeat split; auto; simpl.
      * destruct (in_an d S a b); [congruence|reflexivity].
      * destruct (in_an d S b a); [congruence|reflexivity].
  - apply smemb_In in H. fold m in Uab, Uba. destruct H as [H|H].
    + apply Uab in H. destruct H as [Hp [H1 H2]]. apply Pab in Hp.
      destruct (Hpair (or_introl Hp)) as [Ha [Hb Hi]]. repeat split; auto; simpl.
      * rewrite H1. reflexivity.
      * rewrite H2. reflexivity.
    + apply Uba in H. destruct H as [Hp [H1 H2]]. apply Pba in Hp.
      destruct (Hpair (or_intror Hp)) as [Ha [Hb Hi]]. repeat split; auto; simpl.
      * rewrite H2. reflexivity.
      * rewrite H1. reflexivity.
Qed.

Variable Z : list nat.
Hypothesis HZ : incl Z O.
Let W := Z ++ S.

Lemma W_V : incl W (V d).
Proof. intros v Hv. apply in_app_or in Hv. destruct Hv as [Hv|Hv]; [apply O_in, HZ, Hv|apply S_V, Hv]. Qed.
Lemma S_W : incl S W.
Proof. intros v Hv. apply in_or_app. right; exact Hv. Qed.
Lemma L_W v : In v L -> ~ In v W.
Proof.
  intros HvL Hv. apply in_app_or in Hv. destruct Hv as [Hv|Hv].
  - apply HZ, O_in in Hv. apply (proj2 Hv). apply in_or_app. left; exact HvL.
  - apply (Hdis v HvL Hv).
Qed.
Lemma O_W v : In v O -> In v W -> In v Z.
Proof.
  intros Hv HvW. apply in_app_or in HvW. destruct HvW as [H|H]; [exact H|].
  exfalso. apply (proj2 (O_in v Hv)). apply in_or_app. right; exact H.
Qed.

(* ancestors in the MAG are ancestors, in the DAG, of the conditioning set extended by S *)
Lemma mag_anc o : in_anc m Z o -> in_anc d W o.
Proof.
  intros H. induction H as [o Ho|b o Hb IH Ho].
  - apply in_anc_Z. apply in_or_app. left; exact Ho.
  - apply parents_In in Ho. destruct Ho as [_ Hd].
    destruct (mag_step o Fwd b Hd) as [Ho [HbO [_ [Hs _]]]]. simpl in Hs.
    assert (E : in_an d S o b = true) by (destruct (in_an d S o b); [reflexivity|discriminate]).
    apply (in_an_spec o b HbO) in E. apply in_anc_trans with (b :: S); [|exact E].
    intros w [<-|Hw]; [exact IH|apply in_anc_Z, S_W, Hw].
Qed.

Lemma desc_free a : In a (V d) -> ~ in_anc d W a -> forall v, dpl d a v -> ~ In v W.
Proof. intros Ha Hna v Hv HvW. apply Hna. apply dpl_in_anc with v; [exact Ha|exact Hv|apply in_anc_Z, HvW]. Qed.

(* a in An(b u S) but not in An(W): a W-free directed path from a to b *)
Lemma tail_path a b : In a O -> In b O -> a <> b -> in_anc d (b :: S) a -> ~ in_anc d W a -> dpl d a b.
Proof.
  intros Ha Hb Hne H Hna.
  assert (HbS : incl (b :: S) (V d)) by (intros v [<-|Hv]; [apply O_in, Hb|apply S_V, Hv]).
  destruct (in_anc_dpl d (b :: S) a HbS H) as [z [[<-|Hz] Haz]].
  - destruct Haz as [E|Haz]; [congruence|exact Haz].
  - exfalso. apply Hna. destruct Haz as [->|Haz]; [apply in_anc_Z, S_W, Hz|].
    apply dpl_in_anc with z; [apply O_in, Ha|exact Haz|apply in_anc_Z, S_W, Hz].
Qed.

(* b in An(a u S), a ->+ b: then b is an ancestor of S (else a cycle) *)
Lemma back_anc a b : In a O -> In b O -> dpl d a b -> in_anc d (a :: S) b -> in_anc d W b.
Proof.
  intros Ha Hb Hab H.
  assert (HaS : incl (a :: S) (V d)) by (intros v [<-|Hv]; [apply O_in, Ha|apply S_V, Hv]).
  destruct (in_anc_dpl d (a :: S) b HaS H) as [z [[<-|Hz] Hbz]].
  - exfalso. destruct Hbz as [E|Hbz]; [subst b; apply (Hacy a Hab)|apply (Hacy a (dpl_trans d a b a Hab Hbz))].
  - destruct Hbz as [->|Hbz]; [apply in_anc_Z, S_W, Hz|].
    apply dpl_in_anc with z; [apply O_in, Hb|exact Hbz|apply in_anc_Z, S_W, Hz].
Qed.

Definition piece_ok (a : nat) (k : skind) (b : nat) (w : spath) : Prop :=
  steps_ok d a w /\ last_node a w = b /\ wopen d W None a w /\
  exists kf kl, fst_kind w = Some kf /\ larr None w = Some kl /\
    (arrow_src k = true -> arrow_src kf = true) /\
    (arrow_src k = false -> in_anc d W a \/ arrow_src kf = false) /\
    (arrow_tgt k = true -> arrow_tgt kl = true) /\
    (arrow_tgt k = false -> in_anc d W b \/ arrow_tgt kl = false).

Lemma fwd_piece_open a pf : In a (V d) -> ~ in_anc d W a -> allfwd pf -> pf <> [] ->
  (forall v, In v (map snd pf) -> dpl d a v) -> wopen d W None a pf.
Proof.
  intros Ha Hna Hf Hne Hn. destruct pf as [|[k0 c] pt]; [congruence|]. split; [exact I|].
  assert (Ek : k0 = Fwd) by (apply (Hf (k0, c)); left; reflexivity). subst k0.
  apply fwd_open.
  - intros s Hs. apply Hf. right; exact Hs.
  - apply (desc_free a Ha Hna), Hn. left; reflexivity.
  - intros v Hv. apply (desc_free a Ha Hna), Hn. right; exact Hv.
Qed.

Section Piece.
Variables (a b : nat) (k : skind).
Hypothesis Hstep : has_step m a k b = true.

Lemma piece_facts : In a O /\ In b O /\ a <> b /\ (exists p, inducing_path_def d L S a p b) /\
  arrow_src k = negb (in_an d S a b) /\ arrow_tgt k = negb (in_an d S b a).
Proof.
  destruct (mag_step a k b Hstep) as [Ha [Hb [Hi [Hsrc Htgt]]]].
  assert (HA := A_V a b Ha Hb).
  unfold inducing_b in Hi. apply (inducing_exact d a b L S HA) in Hi. destruct Hi as [p Hp].
  repeat split; auto; [|exists p; exact Hp].
  destruct Hp as [_ [_ [Hpn [_ [Hnd [Hl _]]]]]]. intros E. rewrite <- E in Hl. unfold nodes_of in Hnd.
  inversion Hnd as [|? ? Hn _]. apply Hn. rewrite <- Hl at 1. apply last_node_In. exact Hpn.
Qed.

(* tail at a in the MAG and a not an ancestor of W: the directed path a ->+ b *)
Lemma piece_fwd : arrow_src k = false -> ~ in_anc d W a -> exists w, piece_ok a k b w.
Proof.
  intros Esrc Hna. destruct piece_facts as [Ha [Hb [Hne [_ [Hsrc Htgt]]]]].
  assert (HaV : In a (V d)) by apply O_in, Ha.
  assert (Eab : in_an d S a b = true) by (rewrite Esrc in Hsrc; destruct (in_an d S a b); [reflexivity|discriminate]).
  apply (in_an_spec a b Hb) in Eab.
  assert (Hab := tail_path a b Ha Hb Hne Eab Hna).
  destruct (dpl_walk d a b Hab) as [pf [Hpn [Hpf [Hlp [Hff Hn]]]]].
  exists pf. split; [exact Hpf|]. split; [exact Hlp|]. split; [apply fwd_piece_open; assumption|].
  exists Fwd, Fwd. split; [apply allk_fst; [apply allfwd_allk, Hff|exact Hpn]|].
  split; [apply allk_larr; [apply allfwd_allk, Hff|exact Hpn]|].
  split; [intros E; congruence|]. split; [right; reflexivity|]. split; [reflexivity|].
  intros Et. left. apply back_anc with a; auto.
  apply (in_an_spec b a Ha). rewrite Et in Htgt. destruct (in_an d S b a); [reflexivity|discriminate].
Qed.

(* tail at b in the MAG and b not an ancestor of W: the reversed directed path b ->+ a *)
Lemma piece_bwd : arrow_tgt k = false -> ~ in_anc d W b -> exists w, piece_ok a k b w.
Proof.
  intros Etgt Hnb. destruct piece_facts as [Ha [Hb [Hne [_ [Hsrc Htgt]]]]].
  assert (HaV : In a (V d)) by apply O_in, Ha. assert (HbV : In b (V d)) by apply O_in, Hb.
  assert (Eba : in_an d S b a = true) by (rewrite Etgt in Htgt; destruct (in_an d S b a); [reflexivity|discriminate]).
  apply (in_an_spec b a Ha) in Eba.
  assert (Hba := tail_path b a Hb Ha (not_eq_sym Hne) Eba Hnb).
  destruct (dpl_walk d b a Hba) as [pf [Hpn [Hpf [Hlp [Hff Hn]]]]].
  assert (Hrb : allk Bwd (rev_path b pf)) by (apply rev_allfwd, allfwd_allk, Hff).
  assert (Hrn : rev_path b pf <> []) by (apply rev_path_nonnil; exact Hpn).
  exists (rev_path b pf). rewrite <- Hlp.
  split; [apply rev_path_steps; assumption|].
  split; [apply rev_path_last|].
  split; [apply rev_path_open, fwd_piece_open; assumption|].
  exists Bwd, Bwd. split; [apply allk_fst; assumption|].
  split; [apply allk_larr; assumption|].
  split; [reflexivity|]. split; [|split; [intros E; congruence|right; reflexivity]].
  intros Es. left. rewrite Hlp. apply back_anc with b; auto.
  apply (in_an_spec a b Hb). rewrite Es in Hsrc. destruct (in_an d S a b); [reflexivity|discriminate].
Qed.

(* otherwise: unfold the inducing path *)
Lemma piece_gen : (arrow_src k = true \/ in_anc d W a) -> (arrow_tgt k = true \/ in_anc d W b) ->
  exists w, piece_ok a k b w.
Proof.
  intros H1 H2. destruct piece_facts as [Ha [Hb [Hne [[p Hp] [Hsrc Htgt]]]]].
  assert (HA := A_V a b Ha Hb).
  destruct p as [|[k1 c] q]; [destruct Hp as [_ [_ [Hpn _]]]; congruence|].
  pose proof Hp as [_ [_ [_ [Hst [Hnd [Hl Hin]]]]]].
  destruct Hst as [Hc [Hs Hq]]. rewrite last_node_cons in Hl.
  unfold nodes_of in Hnd. cbn [map snd] in Hnd. apply NoDup_cons_iff in Hnd. destruct Hnd as [Hnx Hnd'].
  destruct (build_marks d L S W a b HA W_V S_W L_W q k1 c [(k1, c)] k1)
    as [w [R1 [R2 [R3 [[kf [Hf1 Hf2]] [kl [Hl1 Hl2]]]]]]]; auto.
  - simpl. auto.
  - simpl. auto.
  - exists k1. split; [reflexivity|right; reflexivity].
  - exists w. split; [exact R1|]. split; [exact R2|]. split; [exact R3|].
    exists kf, kl. split; [exact Hf1|]. split; [exact Hl1|]. split; [|split; [|split]].
    + intros Es.
      assert (Hn1 : ~ in_anc d (b :: S) a).
      { intros H. apply (in_an_spec a b Hb) in H. rewrite H, Es in Hsrc. discriminate. }
      destruct Hf2 as [Hf2|Hf2]; [exact Hf2|subst kf].
      apply (first_arrow d HU Hacy L S a b HA k1 c q Hp Hn1).
    + intros Es. destruct H1 as [H1|H1]; [congruence|left; exact H1].
    + intros Et.
      assert (Hn2 : ~ in_anc d (a :: S) b).
      { intros H. apply (in_an_spec b a Ha) in H. rewrite H, Et in Htgt. discriminate. }
      destruct Hl2 as [Hl2|Hl2]; [exact Hl2|].
      apply (last_arrow d HU Hacy L S a b HA ((k1, c) :: q) kl Hp); [cbn [larr]; symmetry; exact Hl2|exact Hn2].
    + intros Et. destruct H2 as [H2|H2]; [congruence|left; exact H2].
Qed.

Lemma mag_piece : exists w, piece_ok a k b w.
Proof.
  destruct (arrow_src k) eqn:Esrc.
  - destruct (arrow_tgt k) eqn:Etgt; [apply piece_gen; auto|].
    destruct (memb b (anc_of d W)) eqn:Eb.
    + apply piece_gen; [auto|right; apply (in_anc_spec d W b W_V); exact Eb].
    + apply piece_bwd; [exact Etgt|]. intros H. apply (in_anc_spec d W b W_V) in H. congruence.
  - destruct (memb a (anc_of d W)) eqn:Ea.
    + assert (HaW : in_anc d W a) by (apply (in_anc_spec d W a W_V); exact Ea).
      destruct (arrow_tgt k) eqn:Etgt; [apply piece_gen; auto|].
      destruct (memb b (anc_of d W)) eqn:Eb.
      * apply piece_gen; [auto|right; apply (in_anc_spec d W b W_V); exact Eb].
      * apply piece_bwd; [exact Etgt|]. intros H. apply (in_anc_spec d W b W_V) in H. congruence.
    + apply piece_fwd; [exact Esrc|]. intros H. apply (in_anc_spec d W a W_V) in H. congruence.
Qed.
End Piece.

(* ================================================================== Part 3: unfolding an m-connecting path of the MAG *)
Lemma piece_wopen_from w o ka kf :
  fst_kind w = Some kf -> wopen d W None o w -> ccond d W (Some ka) o kf -> wopen d W (Some ka) o w.
Proof.
  intros Hf Hop Hc. destruct w as [|[k c] t]; [discriminate|]. simpl in Hf. inversion Hf; subst.
  destruct Hop as [_ Hop]. split; assumption.
Qed.

Lemma larr_nonnil w arr kl : w <> [] -> larr None w = Some kl -> larr arr w = Some kl.
Proof. destruct w as [|[k c] t]; [congruence|]. intros _ H. exact H. Qed.

Lemma fst_kind_nonnil w kf : fst_kind w = Some kf -> w <> [].
Proof. destruct w; [discriminate|discriminate]. Qed.

Variable x y : nat.

Lemma unfold_path : forall q o k1 w,
  In o O ->
  steps_ok d x w -> last_node x w = o -> wopen d W None x w -> w <> [] ->
  (exists ka, larr None w = Some ka /\ (arrow_tgt k1 = true -> arrow_tgt ka = true) /\
              (arrow_tgt k1 = false -> in_anc d W o \/ arrow_tgt ka = false)) ->
  steps_ok m o q -> wopen m Z (Some k1) o q -> last_node o q = y ->
  exists w', steps_ok d x w' /\ last_node x w' = y /\ wopen d W None x w'.
Proof.
  induction q as [|[k2 o'] t IH]; intros o k1 w Ho Hst Hl Hop Hne [ka [Hka [I1 I2]]] Hq Hmo Hly.
  - rewrite last_node_nil in Hly. subst o. exists w. auto.
  - destruct Hq as [_ [Hs Hq]]. destruct Hmo as [Hcc Hmo]. rewrite last_node_cons in Hly.
    destruct (mag_piece o o' k2 Hs) as [pw [P1 [P2 [P3 [kf [kl [Pf [Pl [Q1 [Q2 [Q3 Q4]]]]]]]]]]].
    destruct (mag_step o k2 o' Hs) as [_ [Ho' _]].
    assert (Hpne := fst_kind_nonnil pw kf Pf).
    apply (IH o' k2 (w ++ pw)); auto.
    + apply steps_ok_app. rewrite Hl. auto.
    + rewrite last_node_app, Hl. exact P2.
    + apply wopen_app. split; [exact Hop|]. rewrite Hka, Hl.
      apply piece_wopen_from with kf; auto.
      (* the junction at o *)
      simpl in Hcc. simpl. destruct (collider ka kf) eqn:Ed.
      * apply andb_true_iff in Ed. destruct Ed as [Eta Esf].
        destruct (collider k1 k2) eqn:Em; [apply mag_anc; exact Hcc|].
        apply andb_false_iff in Em. destruct Em as [Em|Em].
        -- destruct (I2 Em) as [H|H]; [exact H|congruence].
        -- destruct (Q2 Em) as [H|H]; [exact H|congruence].
      * destruct (collider k1 k2) eqn:Em.
        -- apply andb_true_iff in Em. destruct Em as [Em1 Em2].
           unfold collider in Ed. rewrite (I1 Em1), (Q1 Em2) in Ed. discriminate.
        -- intros HoW. apply Hcc. apply O_W; assumption.
    + intros E. apply app_eq_nil in E. destruct E; contradiction.
    + exists kl. split; [rewrite larr_app; apply larr_nonnil; assumption|]. split; assumption.
Qed.

Theorem mag_path_unfolds p : x <> y -> mconn m Z x p y -> exists p', mconn d W x p' y.
Proof.
  intros Hxy [Hne [Hst [_ [Hl Hop]]]]. destruct p as [|[k1 o1] t]; [congruence|].
  destruct Hst as [_ [Hs Hq]]. rewrite last_node_cons in Hl.
  destruct (mag_piece x o1 k1 Hs) as [pw [P1 [P2 [P3 [kf [kl [Pf [Pl [Q1 [Q2 [Q3 Q4]]]]]]]]]]].
  destruct (mag_step x k1 o1 Hs) as [_ [Ho1 _]].
  destruct (unfold_path t o1 k1 pw Ho1 P1 P2 P3 (fst_kind_nonnil pw kf Pf)) as [w [W1 [W2 W3]]]; auto.
  - exists kl. auto.
  - apply (open_inner_cons_wopen m Z t k1 o1). exact Hop.
  - destruct (open_walk_to_path d W x y w) as [p' [Hc _]]; auto.
    + exact Hacy.
    + apply no_und_ancestral. exact HU.
    + apply (open_inner_wopen d W x w). exact W3.
    + exists p'. exact Hc.
Qed.
End Mag.

(* ================================================================== the independence clause, first half, ALL sizes:
   whatever d-separates x and y given Z u S in the DAG, m-separates them given Z in the MAG
   (the MAG asserts no dependence that the DAG with S selected and L marginalised does not have) *)
Theorem mag_independence_fwd d L S :
  is_dag d -> incl (L ++ S) (V d) -> (forall v, In v L -> ~ In v S) ->
  forall x y Z, In x (obs d L S) -> In y (obs d L S) -> x <> y -> incl Z (obs d L S) ->
    dsep d [x] [y] (Z ++ S) -> msep (dag_to_mag_model d L S) [x] [y] Z.
Proof.
  intros [Hwf [HB [HU [HC Hac]]]] HLS Hdis x y Z Hx Hy Hne HZ Hsep x' y' p [<-|[]] [<-|[]] Hc.
  unfold dsep in Hsep. rewrite (only_directed_dag d HB HU HC) in Hsep.
  destruct (mag_path_unfolds d Hwf HU Hac L S HLS Hdis Z HZ x y p Hne Hc) as [p' Hp'].
  apply (Hsep x y p'); [left; reflexivity|left; reflexivity|exact Hp'].
Qed.
