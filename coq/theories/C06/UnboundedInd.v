(* C06 — towards the independence clause of dag_to_mag (Richardson–Spirtes Thm 4.18) for all sizes.
   Part 1: end marks of an inducing path: a tail at an endpoint makes that endpoint an ancestor of the other one or of S.
   Part 2: every edge of the model MAG unfolds into an open walk of the DAG with matching end marks.
   Part 3: an m-connecting path of the MAG given Z unfolds into an open walk of the DAG given Z u S, hence
           d-separation given Z u S in the DAG  ->  m-separation given Z in the MAG      (mag_independence_fwd). *)
From Coq Require Import List Arith Bool Lia.
From PG Require Import Base.ListSet Base.Closure Graph.MGraph Graph.MSep Graph.MSepDec Graph.Walks
  C06.Model C06.Spec C06.Proofs C06.Unbounded C06.UnboundedWalk C06.UnboundedMag.
Import ListNotations.

Lemma dpl_trans g a b c : dpl g a b -> dpl g b c -> dpl g a c.
Proof.
  intros Hab Hbc. induction Hbc as [c Hc Hd|c e Hbc IH He Hd].
  - apply dpl_snoc with b; assumption.
  - apply dpl_snoc with c; assumption.
Qed.

Lemma allbwd_dpl g : forall q v, allk Bwd q -> q <> [] -> In v (V g) -> steps_ok g v q -> dpl g (last_node v q) v.
Proof.
  induction q as [|[k c] t IH]; intros v H Hne Hv Hst; [congruence|].
  assert (E : k = Bwd) by (apply (H (k, c)); left; reflexivity). subst k.
  destruct Hst as [Hc [Hs Hst]]. simpl in Hs. rewrite last_node_cons.
  destruct t as [|s t']; [rewrite last_node_nil; apply dpl_one; assumption|].
  apply dpl_snoc with c; [|exact Hv|exact Hs].
  apply IH; auto; [intros s0 Hs0; apply H; right; exact Hs0|discriminate].
Qed.

(* ================================================================== Part 1: end marks of inducing paths *)
Section EndMarks.
Variable g : mgraph.
Hypothesis HU : U g = [].
Hypothesis Hacy : acyclic g.
Variables (L S : list nat) (x y : nat).
Hypothesis HA : incl (x :: y :: S) (V g).
Let A := x :: y :: S.

Lemma anc_split_x c : in_anc g A c -> (c = x \/ dpl g c x) \/ in_anc g (y :: S) c.
Proof.
  intros H. assert (Hc : In c (V g)) by (apply in_anc_V with A; assumption).
  destruct (in_anc_dpl g A c HA H) as [z [Hz Hcz]]. destruct Hz as [<-|Hz]; [left; exact Hcz|right].
  destruct Hcz as [->|Hcz]; [apply in_anc_Z; exact Hz|].
  apply dpl_in_anc with z; [exact Hc|exact Hcz|apply in_anc_Z; exact Hz].
Qed.

Lemma anc_split_y c : in_anc g A c -> (c = y \/ dpl g c y) \/ in_anc g (x :: S) c.
Proof.
  intros H. assert (Hc : In c (V g)) by (apply in_anc_V with A; assumption).
  destruct (in_anc_dpl g A c HA H) as [z [Hz Hcz]].
  destruct Hz as [<-|[<-|Hz]]; [right| left; exact Hcz |right].
  - destruct Hcz as [->|Hcz]; [apply in_anc_Z; left; reflexivity|].
    apply dpl_in_anc with x; [exact Hc|exact Hcz|apply in_anc_Z; left; reflexivity].
  - destruct Hcz as [->|Hcz]; [apply in_anc_Z; right; exact Hz|].
    apply dpl_in_anc with z; [exact Hc|exact Hcz|apply in_anc_Z; right; exact Hz].
Qed.

(* following the path from a tail: only -> steps until a collider or y *)
Lemma first_mark : forall t a' c, (a' = x \/ dpl g x a') -> In a' (V g) ->
  steps_ok g a' ((Fwd, c) :: t) -> ind_inner g A L ((Fwd, c) :: t) -> last_node a' ((Fwd, c) :: t) = y ->
  in_anc g (y :: S) a'.
Proof.
  induction t as [|[k2 e] t' IH]; intros a' c Hxa Ha Hst Hin Hl.
  - rewrite last_node_cons, last_node_nil in Hl. subst c. destruct Hst as [Hy [Hd _]]. simpl in Hd.
    apply in_anc_parent with y; [exact Ha|exact Hd|apply in_anc_Z; left; reflexivity].
  - destruct Hst as [Hc [Hd Hst]]. simpl in Hd.
    assert (Hxc : dpl g x c).
    { destruct Hxa as [->|Hxa]; [apply dpl_one; assumption|apply dpl_snoc with a'; assumption]. }
    change (ind_inner g A L ((Fwd, c) :: (k2, e) :: t'))
      with ((if collider Fwd k2 then in_anc g A c else In c L) /\ ind_inner g A L ((k2, e) :: t')) in Hin.
    destruct Hin as [Hcc Hin]. rewrite last_node_cons in Hl.
    apply in_anc_parent with c; [exact Ha|exact Hd|].
    assert (Hcol : in_anc g A c -> in_anc g (y :: S) c).
    { intros H. destruct (anc_split_x c H) as [[->|Hcx]|H']; [destruct (Hacy x Hxc)| |exact H'].
      destruct (Hacy x (dpl_trans g x c x Hxc Hcx)). }
    destruct k2; simpl in Hcc.
    + apply (IH c e); auto.
    + apply Hcol, Hcc.
    + apply Hcol, Hcc.
    + destruct Hst as [_ [Hs _]]. rewrite (no_un g c e HU) in Hs. discriminate.
Qed.

Lemma first_arrow k c t :
  inducing_path_def g L S x ((k, c) :: t) y -> ~ in_anc g (y :: S) x -> arrow_src k = true.
Proof.
  intros [_ [_ [_ [Hst [_ [Hl Hin]]]]]] Hn. destruct k; try reflexivity.
  - exfalso. apply Hn. apply (first_mark t x c); auto. apply HA. left; reflexivity.
  - destruct Hst as [_ [Hs _]]. rewrite (no_un g x c HU) in Hs. discriminate.
Qed.

(* a suffix that ends with a <- step: either it consists of <- steps only, or y is an ancestor of x or S *)
Lemma last_mark : forall q v kin, In v (V g) -> q <> [] ->
  steps_ok g v q -> last_node v q = y -> ind_inner g A L ((kin, v) :: q) -> larr (Some kin) q = Some Bwd ->
  allk Bwd q \/ in_anc g (x :: S) y.
Proof.
  induction q as [|[k c] t IH]; intros v kin Hv Hne Hst Hl Hin Hla; [congruence|].
  destruct Hst as [Hc [Hs Hst]]. rewrite last_node_cons in Hl. cbn [larr] in Hla.
  destruct t as [|[k2 e] t'].
  - left. cbn [larr] in Hla. assert (E1 : k = Bwd) by congruence. subst k. intros s [<-|[]]. reflexivity.
  - change (ind_inner g A L ((kin, v) :: (k, c) :: (k2, e) :: t'))
      with ((if collider kin k then in_anc g A v else In v L) /\ ind_inner g A L ((k, c) :: (k2, e) :: t')) in Hin.
    destruct Hin as [_ Hin].
    assert (Hne2 : (k2, e) :: t' <> []) by discriminate.
    destruct (IH c k Hc Hne2 Hst Hl Hin Hla) as [Hall|Hq]; [|right; exact Hq].
    assert (E2 : k2 = Bwd) by (apply (Hall (k2, e)); left; reflexivity).
    assert (Hyc : dpl g y c).
    { rewrite <- Hl. apply allbwd_dpl; auto; try discriminate. }
    change (ind_inner g A L ((k, c) :: (k2, e) :: t'))
      with ((if collider k k2 then in_anc g A c else In c L) /\ ind_inner g A L ((k2, e) :: t')) in Hin.
    destruct Hin as [Hcc _]. subst k2.
    assert (HyV : In y (V g)) by (apply HA; right; left; reflexivity).
    destruct k; simpl in Hcc.
    + right. destruct (anc_split_y c Hcc) as [[->|Hcy]|H'].
      * destruct (Hacy y Hyc).
      * destruct (Hacy y (dpl_trans g y c y Hyc Hcy)).
      * apply dpl_in_anc with c; assumption.
    + left. intros s [<-|Hs0]; [reflexivity|apply Hall, Hs0].
    + right. destruct (anc_split_y c Hcc) as [[->|Hcy]|H'].
      * destruct (Hacy y Hyc).
      * destruct (Hacy y (dpl_trans g y c y Hyc Hcy)).
      * apply dpl_in_anc with c; assumption.
    + rewrite (no_un g v c HU) in Hs. discriminate.
Qed.

Lemma last_arrow p kl :
  inducing_path_def g L S x p y -> larr None p = Some kl -> ~ in_anc g (x :: S) y -> arrow_tgt kl = true.
Proof.
  intros [_ [_ [Hne [Hst [_ [Hl Hin]]]]]] Hla Hn.
  assert (HxV : In x (V g)) by (apply HA; left; reflexivity).
  assert (HyV : In y (V g)) by (apply HA; right; left; reflexivity).
  assert (Hstp : steps_ok g x p) by exact Hst.
  destruct p as [|[k1 a] q]; [congruence|]. cbn [larr] in Hla.
  destruct Hst as [Ha [Hs Hq]]. rewrite last_node_cons in Hl.
  destruct kl; try reflexivity.
  - exfalso. apply Hn. destruct q as [|[k2 b] t].
    + cbn [larr] in Hla. assert (E1 : k1 = Bwd) by congruence. subst k1. rewrite last_node_nil in Hl. subst a. simpl in Hs.
      apply in_anc_parent with x; [exact HyV|exact Hs|apply in_anc_Z; left; reflexivity].
    + assert (Hne2 : (k2, b) :: t <> []) by discriminate.
      destruct (last_mark ((k2, b) :: t) a k1 Ha Hne2 Hq Hl Hin Hla) as [Hall|Hq']; [|exact Hq'].
      assert (E2 : k2 = Bwd) by (apply (Hall (k2, b)); left; reflexivity). subst k2.
      assert (Hya : dpl g y a) by (rewrite <- Hl; apply allbwd_dpl; auto; try discriminate).
      change (ind_inner g A L ((k1, a) :: (Bwd, b) :: t))
        with ((if collider k1 Bwd then in_anc g A a else In a L) /\ ind_inner g A L ((Bwd, b) :: t)) in Hin.
      destruct Hin as [Hcc _].
      destruct k1; simpl in Hcc.
      * destruct (anc_split_y a Hcc) as [[->|Hay]|H']; [destruct (Hacy y Hya)| |apply dpl_in_anc with a; assumption].
        destruct (Hacy y (dpl_trans g y a y Hya Hay)).
      * simpl in Hs. apply dpl_in_anc with a; [exact HyV|exact Hya|].
        apply in_anc_parent with x; [exact Ha|exact Hs|apply in_anc_Z; left; reflexivity].
      * destruct (anc_split_y a Hcc) as [[->|Hay]|H']; [destruct (Hacy y Hya)| |apply dpl_in_anc with a; assumption].
        destruct (Hacy y (dpl_trans g y a y Hya Hay)).
      * rewrite (no_un g x a HU) in Hs. discriminate.
  - (* the last step cannot be undirected *)
    exfalso. clear Hn.
    assert (K : forall q v kin, steps_ok g v q -> larr (Some kin) q = Some Un -> kin = Un \/ False).
    { induction q0 as [|[k c] t IHq]; intros v kin Hst0 Hl0; [cbn [larr] in Hl0; inversion Hl0; left; reflexivity|].
      destruct Hst0 as [_ [Hs0 Hst0]]. cbn [larr] in Hl0. destruct (IHq c k Hst0 Hl0) as [->|[]].
      rewrite (no_un g v c HU) in Hs0. discriminate. }
    destruct (K q a k1 Hq Hla) as [->|[]]. rewrite (no_un g x a HU) in Hs. discriminate.
Qed.
End EndMarks.
