(* C06 — dag_to_mag, adjacency clause for ALL DAGs: x, y adjacent in the MAG  <->  no set of other observed nodes
   d-separates them given S  (Spec.mag_adjacency_stmt), from C06/Unbounded.inducing_iff_inseparable. *)
From Coq Require Import List Arith Bool Lia.
From PG Require Import Base.ListSet Base.Closure Graph.MGraph Graph.MSep Graph.MSepDec Graph.Walks
  C06.Model C06.Spec C06.Proofs C06.Unbounded.
Import ListNotations.

Lemma only_directed_dag d : B d = [] -> U d = [] -> C d = [] -> only_directed d = d.
Proof. destruct d as [v e b u c]. simpl. intros -> -> ->. reflexivity. Qed.

(* adjacency in the model MAG = the pair was found adjacent, in either listing order *)
Lemma adjacent_mag d L S x y :
  adjacent (dag_to_mag_model d L S) x y = true <-> In (x, y) (mag_pairs d L S) \/ In (y, x) (mag_pairs d L S).
Proof.
  pose proof (mag_marks d L S x y) as Mxy. pose proof (mag_marks d L S y x) as Myx. cbv zeta in Mxy, Myx.
  destruct Mxy as [Pxy [Dxy [Bxy [Uxy Cm]]]]. destruct Myx as [Pyx [Dyx [Byx [Uyx _]]]].
  unfold adjacent, has_d, has_b, has_u, has_c. rewrite Cm. simpl pmemb.
  rewrite !orb_false_r, !orb_true_iff, !pmemb_In. unfold smemb. rewrite !orb_true_iff, !pmemb_In.
  rewrite Dxy, Dyx, Bxy, Byx, Uxy, Uyx, <- Pxy, <- Pyx. split.
  - tauto.
  - intros H. destruct (in_an d S x y) eqn:E1, (in_an d S y x) eqn:E2; intuition congruence.
Qed.

Theorem mag_adjacency_all d L S :
  is_dag d -> incl (L ++ S) (V d) -> (forall v, In v L -> ~ In v S) -> mag_adjacency_stmt d L S.
Proof.
  intros [Hwf [HB [HU [HC Hac]]]] HLS Hdis x y Hx Hy Hne.
  unfold dsep. rewrite (only_directed_dag d HB HU HC).
  assert (HxV : In x (V d) /\ ~ In x (L ++ S)) by (unfold obs in Hx; apply diffb_In in Hx; exact Hx).
  assert (HyV : In y (V d) /\ ~ In y (L ++ S)) by (unfold obs in Hy; apply diffb_In in Hy; exact Hy).
  assert (HS : incl S (V d)) by (intros v Hv; apply HLS, in_or_app; right; exact Hv).
  assert (HA : incl (x :: y :: S) (V d)) by (intros v [<-|[<-|Hv]]; [tauto|tauto|apply HS, Hv]).
  assert (HA' : incl (y :: x :: S) (V d)) by (intros v [<-|[<-|Hv]]; [tauto|tauto|apply HS, Hv]).
  (* the search is exact, and existence of an inducing path = inseparability, in both orders *)
  assert (Ixy : inducing_b d x y L S = true <->
                forall Z, incl Z (obs d L S) -> ~ In x Z -> ~ In y Z -> ~ msep d [x] [y] (Z ++ S)).
  { unfold inducing_b. rewrite (inducing_exact d x y L S HA).
    apply inducing_iff_inseparable; tauto. }
  assert (Iyx : inducing_b d y x L S = true <->
                forall Z, incl Z (obs d L S) -> ~ In y Z -> ~ In x Z -> ~ msep d [y] [x] (Z ++ S)).
  { unfold inducing_b. rewrite (inducing_exact d y x L S HA').
    apply inducing_iff_inseparable; tauto. }
  assert (Hsym : forall Z, msep d [x] [y] Z <-> msep d [y] [x] Z).
  { intros Z. apply msep_sym; intros v [<-|[]]; tauto. }
  rewrite adjacent_mag, !mag_pairs_In. split.
  - intros [[_ H]|[_ H]].
    + apply Ixy. exact H.
    + intros Z HZ HxZ HyZ Hs. apply (proj1 Iyx H Z HZ HyZ HxZ). apply Hsym. exact Hs.
  - intros H. destruct (upairs_complete (obs d L S) x y Hx Hy Hne) as [Hp|Hp].
    + left. split; [exact Hp|]. apply Ixy. exact H.
    + right. split; [exact Hp|]. apply Iyx. intros Z HZ HyZ HxZ Hs. apply (H Z HZ HxZ HyZ). apply Hsym. exact Hs.
Qed.
