(* C06 — [build] of C06/Unbounded.v with the END MARKS of the open walk tracked: the walk obtained from an inducing path
   starts (ends) either with the first (last) step kind of the inducing path or with an arrowhead at x (at y).
   Used for the independence clause of dag_to_mag (C06/UnboundedInd.v). *)
From Coq Require Import List Arith Bool Lia.
From PG Require Import Base.ListSet Base.Closure Graph.MGraph Graph.MSep Graph.MSepDec Graph.Walks
  C06.Model C06.Spec C06.Proofs C06.Unbounded.
Import ListNotations.

Definition fst_kind (w : spath) : option skind := match w with [] => None | (k, _) :: _ => Some k end.

Lemma fst_kind_app w q : w <> [] -> fst_kind (w ++ q) = fst_kind w.
Proof. destruct w as [|[k b] t]; [congruence|reflexivity]. Qed.

Definition allk (k : skind) (p : spath) : Prop := forall s, In s p -> fst s = k.

Lemma allfwd_allk p : allfwd p <-> allk Fwd p.
Proof. unfold allfwd, allk. tauto. Qed.

Lemma allk_fst k p : allk k p -> p <> [] -> fst_kind p = Some k.
Proof. destruct p as [|[k0 b] t]; [congruence|]. intros H _. simpl. f_equal. apply (H (k0, b)). left; reflexivity. Qed.

Lemma allk_larr k : forall p arr, allk k p -> p <> [] -> larr arr p = Some k.
Proof.
  induction p as [|[k0 b] t IH]; intros arr H Hne; [congruence|].
  assert (E : k0 = k) by (apply (H (k0, b)); left; reflexivity). subst k0. cbn [larr].
  destruct t as [|s t']; [reflexivity|]. apply IH; [|discriminate]. intros s0 Hs0. apply H. right; exact Hs0.
Qed.

Lemma rev_allfwd : forall p a, allk Fwd p -> allk Bwd (rev_path a p).
Proof.
  induction p as [|[k b] t IH]; intros a H; [intros s []|].
  assert (E : k = Fwd) by (apply (H (k, b)); left; reflexivity). subst k. cbn [rev_path].
  intros s Hs. apply in_app_or in Hs. destruct Hs as [Hs|[<-|[]]]; [|reflexivity].
  apply (IH b); [|exact Hs]. intros s0 Hs0. apply H. right; exact Hs0.
Qed.

Lemma rev_path_nonnil a p : p <> [] -> rev_path a p <> [].
Proof. destruct p as [|[k b] t]; [congruence|]. intros _ E. cbn [rev_path] in E. apply app_eq_nil in E. destruct E; discriminate. Qed.

Section Build.
Variable g : mgraph.
Hypothesis HU : U g = [].
Variables (L S W : list nat) (x y : nat).
Hypothesis HA : incl (x :: y :: S) (V g).
Hypothesis HW : incl W (V g).
Hypothesis HSW : incl S W.
Hypothesis HLW : forall v, In v L -> ~ In v W.
Let A := x :: y :: S.

Definition first_ok (kf0 : skind) (w : spath) : Prop :=
  exists kf, fst_kind w = Some kf /\ (arrow_src kf = true \/ kf = kf0).

Lemma build_marks : forall q k1 a w kf0,
  steps_ok g x w -> last_node x w = a -> wopen g W None x w -> larr None w = Some k1 -> first_ok kf0 w ->
  steps_ok g a q -> last_node a q = y -> ind_inner g A L ((k1, a) :: q) ->
  ~ In x (a :: map snd q) -> NoDup (a :: map snd q) ->
  exists w', steps_ok g x w' /\ last_node x w' = y /\ wopen g W None x w' /\ first_ok kf0 w' /\
             exists kl, larr None w' = Some kl /\ (arrow_tgt kl = true \/ Some kl = larr (Some k1) q).
Proof.
  induction q as [|[k2 b] t IH]; intros k1 a w kf0 Hst Hl Hop Harr Hf Hq Hly Hin Hnx Hnd.
  - rewrite last_node_nil in Hly. subst a. exists w. repeat split; auto. exists k1. auto.
  - change (ind_inner g A L ((k1, a) :: (k2, b) :: t))
      with ((if collider k1 k2 then in_anc g A a else In a L) /\ ind_inner g A L ((k2, b) :: t)) in Hin.
    destruct Hin as [Hc Hin]. destruct Hq as [Hb [Hs Hq]]. rewrite last_node_cons in Hly.
    assert (Hwne : w <> []) by (intros ->; discriminate).
    assert (HaV : In a (V g)) by (rewrite <- Hl; apply walk_end_V; assumption).
    assert (Hax : a <> x) by (intros ->; apply Hnx; left; reflexivity).
    assert (Hay : a <> y).
    { intros E. inversion Hnd as [|? ? Hn _]. apply Hn. rewrite E, <- Hly.
      rewrite <- (last_node_cons b k2 b t). apply last_node_In. discriminate. }
    assert (K : (exists w', steps_ok g x w' /\ last_node x w' = y /\ wopen g W None x w' /\ first_ok kf0 w' /\
                            exists kl, larr None w' = Some kl /\ arrow_tgt kl = true) \/
                (exists w0, steps_ok g x w0 /\ last_node x w0 = a /\ wopen g W None x w0 /\ first_ok kf0 w0 /\ w0 <> [] /\
                            ccond g W (larr None w0) a k2)).
    { destruct (collider k1 k2) eqn:Ec.
      2:{ right. exists w. repeat split; auto. rewrite Harr. simpl. rewrite Ec. apply HLW. exact Hc. }
      destruct (memb a (anc_of g W)) eqn:Ea.
      { right. exists w. repeat split; auto. rewrite Harr. simpl. rewrite Ec. apply in_anc_spec; assumption. }
      assert (Hna : ~ in_anc g W a).
      { intros H. apply (in_anc_spec g W a HW) in H. congruence. }
      assert (HaW : ~ In a W) by (intros H; apply Hna, in_anc_Z, H).
      assert (Hdesc : forall v, dpl g a v -> ~ In v W).
      { intros v Hv HvW. apply Hna. apply dpl_in_anc with v; [exact HaV|exact Hv|apply in_anc_Z, HvW]. }
      destruct (in_anc_dpl g A a HA Hc) as [z [Hz Haz]].
      destruct Hz as [<-|[<-|Hz]].
      - right. destruct Haz as [E|Haz]; [congruence|].
        destruct (dpl_walk g a x Haz) as [pf [Hne [Hpf [Hlp [Hff Hn]]]]].
        destruct pf as [|[k0 c] pt]; [congruence|].
        assert (Ek : k0 = Fwd) by (apply (Hff (k0, c)); left; reflexivity). subst k0.
        assert (Hrb : allk Bwd (rev_path a ((Fwd, c) :: pt))) by (apply rev_allfwd, allfwd_allk, Hff).
        assert (Hrn : rev_path a ((Fwd, c) :: pt) <> []) by (apply rev_path_nonnil; discriminate).
        exists (rev_path a ((Fwd, c) :: pt)). rewrite <- Hlp. split; [|split; [|split; [|split; [|split]]]].
        * apply rev_path_steps; assumption.
        * apply rev_path_last.
        * apply rev_path_open. split; [exact I|]. apply fwd_open.
          -- intros s0 Hs0. apply Hff. right; exact Hs0.
          -- apply Hdesc, Hn. left; reflexivity.
          -- intros v Hv. apply Hdesc, Hn. right; exact Hv.
        * exists Bwd. split; [apply allk_fst; assumption|left; reflexivity].
        * exact Hrn.
        * rewrite rev_path_larr by discriminate. simpl. exact HaW.
      - left. destruct Haz as [E|Haz]; [congruence|].
        destruct (dpl_walk g a y Haz) as [pf [Hne [Hpf [Hlp [Hff Hn]]]]].
        exists (w ++ pf). split; [|split; [|split; [|split]]].
        + apply steps_ok_app. rewrite Hl. auto.
        + rewrite last_node_app, Hl. exact Hlp.
        + apply wopen_app. split; [exact Hop|]. rewrite Harr, Hl.
          destruct pf as [|[k0 c] pt]; [congruence|].
          assert (Ek : k0 = Fwd) by (apply (Hff (k0, c)); left; reflexivity). subst k0.
          split.
          * simpl. unfold collider. simpl. rewrite andb_false_r. exact HaW.
          * apply fwd_open.
            -- intros s0 Hs0. apply Hff. right; exact Hs0.
            -- apply Hdesc, Hn. left; reflexivity.
            -- intros v Hv. apply Hdesc, Hn. right; exact Hv.
        + destruct Hf as [kf [Hk1 Hk2]]. exists kf. rewrite fst_kind_app by exact Hwne. auto.
        + exists Fwd. split; [|reflexivity]. rewrite larr_app. apply allk_larr; [apply allfwd_allk, Hff|exact Hne].
      - exfalso. apply Hna. destruct Haz as [->|Haz]; [apply in_anc_Z, HSW, Hz|].
        apply dpl_in_anc with z; [exact HaV|exact Haz|apply in_anc_Z, HSW, Hz]. }
    destruct K as [[w' [K1 [K2 [K3 [K4 [kl [K5 K6]]]]]]]|[w0 [H1 [H2 [H3 [H4 [H5 H6]]]]]]].
    { exists w'. repeat split; auto. exists kl. auto. }
    destruct (IH k2 b (w0 ++ [(k2, b)]) kf0) as [w' [R1 [R2 [R3 [R4 [kl [R5 R6]]]]]]]; auto.
    + apply steps_ok_app. split; [exact H1|]. rewrite H2. simpl. auto.
    + rewrite last_node_app. reflexivity.
    + apply wopen_app. split; [exact H3|]. rewrite H2. simpl. auto.
    + rewrite larr_app. reflexivity.
    + destruct H4 as [kf [Hk1 Hk2]]. exists kf. rewrite fst_kind_app by exact H5. auto.
    + intros Hx. apply Hnx. right. exact Hx.
    + inversion Hnd; assumption.
    + exists w'. repeat split; auto. exists kl. split; [exact R5|]. exact R6.
Qed.
End Build.
