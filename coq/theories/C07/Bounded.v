(* C07 — "no inducing path between non-adjacent nodes <-> every non-adjacent pair is separable" and
   "valid_mag <-> the four conditions of the property" for ALL ADMGs (bows allowed) on at most 4 nodes. *)
From Coq Require Import List Arith Bool Lia.
From PG Require Import Base.ListSet Graph.MGraph Graph.MSep C06.Model C06.Enum C07.Model C07.Enum C07.BoundedDefs
  C07.Bounded_s00 C07.Bounded_s01 C07.Bounded_s02 C07.Bounded_s03 C07.Bounded_s04 C07.Bounded_s05 C07.Bounded_s06 C07.Bounded_s07 C07.Bounded_s08 C07.Bounded_s09 C07.Bounded_s10 C07.Bounded_s11 C07.Bounded_s12 C07.Bounded_s13 C07.Bounded_s14 C07.Bounded_s15.
Import ListNotations.

Lemma small_n : forallb (fun n => forallb max_ok (admgs n)) [0; 1; 2; 3] = true.
Proof. vm_cast_no_check (eq_refl true). Qed.

Lemma shards_cover : psublists (all_upairs 4) = bshard 0 ++ bshard 1 ++ bshard 2 ++ bshard 3 ++ bshard 4 ++ bshard 5 ++ bshard 6 ++ bshard 7 ++ bshard 8 ++ bshard 9 ++ bshard 10 ++ bshard 11 ++ bshard 12 ++ bshard 13 ++ bshard 14 ++ bshard 15.
Proof. vm_compute. reflexivity. Qed.

Lemma admgs_with_app n l1 l2 g :
  In g (admgs_with n (l1 ++ l2)) -> In g (admgs_with n l1) \/ In g (admgs_with n l2).
Proof.
  unfold admgs_with. rewrite !in_flat_map. intros [d [Hd H]]. rewrite map_app in H. apply in_app_or in H.
  destruct H as [H|H]; [left|right]; exists d; auto.
Qed.

Lemma all_4 g : In g (admgs 4) -> max_ok g = true.
Proof.
  unfold admgs. rewrite shards_cover. intros H.
  apply admgs_with_app in H. destruct H as [H|H]; [exact (proj1 (forallb_forall _ _) shard_0 g H)|].
  apply admgs_with_app in H. destruct H as [H|H]; [exact (proj1 (forallb_forall _ _) shard_1 g H)|].
  apply admgs_with_app in H. destruct H as [H|H]; [exact (proj1 (forallb_forall _ _) shard_2 g H)|].
  apply admgs_with_app in H. destruct H as [H|H]; [exact (proj1 (forallb_forall _ _) shard_3 g H)|].
  apply admgs_with_app in H. destruct H as [H|H]; [exact (proj1 (forallb_forall _ _) shard_4 g H)|].
  apply admgs_with_app in H. destruct H as [H|H]; [exact (proj1 (forallb_forall _ _) shard_5 g H)|].
  apply admgs_with_app in H. destruct H as [H|H]; [exact (proj1 (forallb_forall _ _) shard_6 g H)|].
  apply admgs_with_app in H. destruct H as [H|H]; [exact (proj1 (forallb_forall _ _) shard_7 g H)|].
  apply admgs_with_app in H. destruct H as [H|H]; [exact (proj1 (forallb_forall _ _) shard_8 g H)|].
  apply admgs_with_app in H. destruct H as [H|H]; [exact (proj1 (forallb_forall _ _) shard_9 g H)|].
  apply admgs_with_app in H. destruct H as [H|H]; [exact (proj1 (forallb_forall _ _) shard_10 g H)|].
  apply admgs_with_app in H. destruct H as [H|H]; [exact (proj1 (forallb_forall _ _) shard_11 g H)|].
  apply admgs_with_app in H. destruct H as [H|H]; [exact (proj1 (forallb_forall _ _) shard_12 g H)|].
  apply admgs_with_app in H. destruct H as [H|H]; [exact (proj1 (forallb_forall _ _) shard_13 g H)|].
  apply admgs_with_app in H. destruct H as [H|H]; [exact (proj1 (forallb_forall _ _) shard_14 g H)|].
  exact (proj1 (forallb_forall _ _) shard_15 g H).
Qed.

(* E, Bi ARBITRARY edge lists: the ADMG on 0..n-1 with directed edge set E and bidirected edge set Bi *)
Theorem max_ok_bounded_4 n E Bi : n <= 4 -> acyclicb (admg_of n E Bi) = true -> max_ok (admg_of n E Bi) = true.
Proof.
  intros Hn Hac. pose proof (admg_of_enum n E Bi Hac) as Hin.
  destruct (Nat.eq_dec n 4) as [->|Hne]; [apply all_4; exact Hin|].
  pose proof small_n as H. rewrite forallb_forall in H.
  assert (Hn3 : In n [0; 1; 2; 3]) by (simpl; lia).
  specialize (H n Hn3). rewrite forallb_forall in H. apply H. exact Hin.
Qed.

Corollary maximal_is_separable_bounded_4 n E Bi :
  n <= 4 -> acyclicb (admg_of n E Bi) = true ->
  is_maximal_model (admg_of n E Bi) = spec_maximal (admg_of n E Bi).
Proof.
  intros Hn Hac. pose proof (max_ok_bounded_4 n E Bi Hn Hac) as H. unfold max_ok in H.
  apply andb_true_iff in H. destruct H as [H _]. apply eqb_prop in H. exact H.
Qed.

Corollary valid_mag_bounded_4 n E Bi :
  n <= 4 -> acyclicb (admg_of n E Bi) = true ->
  valid_mag_model (admg_of n E Bi) = spec_valid_mag (admg_of n E Bi).
Proof.
  intros Hn Hac. pose proof (max_ok_bounded_4 n E Bi Hn Hac) as H. unfold max_ok in H.
  apply andb_true_iff in H. destruct H as [_ H]. apply eqb_prop in H. exact H.
Qed.

(* non-trivial instance: 0 <-> 1 <-> 2 <-> 3 with 1 -> 3 and 2 -> 0: the collider path 0 <-> 1 <-> 2 <-> 3 is inducing
   (1, 2 are ancestors of the endpoints), 0 and 3 are not adjacent and indeed no set separates them *)
Example maximal_example :
  let g := admg_of 4 [(1, 3); (2, 0)] [(0, 1); (1, 2); (2, 3)] in
  acyclicb g = true /\ adjacent g 0 3 = false /\ is_maximal_model g = false /\ spec_maximal g = false.
Proof. vm_compute. repeat split; reflexivity. Qed.
