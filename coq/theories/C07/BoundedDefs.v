(* C07 — what the kernel computes per ADMG, and the split of the 64 bidirected edge sets on 4 nodes into 16 shards *)
From Coq Require Import List Arith Bool Lia.
From PG Require Import Base.ListSet Graph.MGraph Graph.MSep C06.Model C06.Enum C07.Model C07.Enum.
Import ListNotations.

(* inducing-path criterion = separability by definition; and valid_mag = the four conditions of the property *)
Definition max_ok (g : mgraph) : bool :=
  Bool.eqb (is_maximal_model g) (spec_maximal g) && Bool.eqb (valid_mag_model g) (spec_valid_mag g).

Definition bshard (k : nat) : list (list (nat * nat)) := firstn 4 (skipn (4 * k) (psublists (all_upairs 4))).
