(* C07 — the bounded kernel computation restated with the Props of Spec.v. *)
From Coq Require Import List Arith Bool Lia.
From PG Require Import Base.ListSet Graph.MGraph Graph.MSep C06.Model C06.Enum C06.Proofs
  C07.Model C07.Spec C07.Enum C07.Proofs C07.Lift C07.BoundedDefs C07.Bounded.
Import ListNotations.

Lemma upairs_neq l a b : NoDup l -> In (a, b) (upairs l) -> a <> b.
Proof.
  induction l as [|c t IH]; simpl; [tauto|]. intros Hnd H. inversion Hnd; subst.
  apply in_app_or in H. destruct H as [H|H].
  - apply in_map_iff in H. destruct H as [b' [E Hb]]. inversion E; subst. intros ->. contradiction.
  - apply IH; assumption.
Qed.

Lemma wf_admg_of n E Bi : wf (admg_of n E Bi).
Proof.
  unfold wf, wfb, admg_of. simpl. rewrite !andb_true_iff. repeat split; try reflexivity.
  - apply edges_ok_spec. intros a b H. apply canon_edges_In in H. unfold nodes. rewrite !in_seq. lia.
  - apply edges_ok_spec. intros a b H. unfold canon_bi in H. apply filter_In in H. destruct H as [H _].
    unfold all_upairs in H. split; [|split].
    + apply upairs_In in H. tauto.
    + apply upairs_In in H. tauto.
    + apply upairs_neq with (nodes n); [apply seq_NoDup|exact H].
Qed.

(* for EVERY directed edge list E (acyclic) and bidirected edge list Bi on 0..n-1, n <= 4 (bows allowed):
   no inducing path between non-adjacent nodes  <->  every non-adjacent pair is m-separated by some set of other nodes *)
Theorem maximal_is_separable_bounded_4_prop n E Bi :
  n <= 4 -> acyclicb (admg_of n E Bi) = true ->
  (is_maximal_model (admg_of n E Bi) = true <-> maximal_p (admg_of n E Bi)).
Proof.
  intros Hn Hac. rewrite (maximal_is_separable_bounded_4 n E Bi Hn Hac). apply spec_maximal_spec.
Qed.

(* ... and valid_mag decides exactly the four conditions of the property text *)
Theorem valid_mag_bounded_4_prop n E Bi :
  n <= 4 -> acyclicb (admg_of n E Bi) = true ->
  let g := admg_of n E Bi in
  (valid_mag_model g = true <-> U g = [] /\ no_bow_p g /\ acyclic_p g /\ ancestral_bi_p g /\ maximal_p g).
Proof.
  intros Hn Hac g. unfold g. rewrite (valid_mag_bounded_4 n E Bi Hn Hac).
  apply spec_valid_mag_spec. apply wf_admg_of.
Qed.
