(* C07 — kernel computation, shard 7 of 16: all 543 acyclic directed layers on 4 nodes x 4 of the 64 bidirected edge sets *)
From Coq Require Import List Arith Bool.
From PG Require Import Graph.MGraph C06.Enum C07.Model C07.Enum C07.BoundedDefs.
Import ListNotations.

Lemma shard_7 : forallb max_ok (admgs_with 4 (bshard 7)) = true.
Proof. vm_cast_no_check (eq_refl true). Qed.
