(* Enumeration of all ADMGs (directed + bidirected layers, bows allowed, directed layer acyclic) on 0..n-1. *)
From Coq Require Import List Arith Bool Lia.
From PG Require Import Base.ListSet Graph.MGraph C06.Model C06.Enum.
Import ListNotations.

Definition all_upairs (n : nat) : list (nat * nat) := upairs (nodes n).

(* canonical listing of an arbitrary bidirected edge list (read symmetrically) over the pairs a < b of 0..n-1 *)
Definition canon_bi (n : nat) (Bi : list (nat * nat)) : list (nat * nat) :=
  filter (fun p => smemb (fst p) (snd p) Bi) (all_upairs n).

Definition admg_of (n : nat) (E Bi : list (nat * nat)) : mgraph :=
  MkG (nodes n) (canon_edges n E) (canon_bi n Bi) [] [].

Definition admgs_with (n : nat) (bis : list (list (nat * nat))) : list mgraph :=
  flat_map (fun d => map (fun Bi => MkG (nodes n) (D d) Bi [] []) bis) (dags n).
Definition admgs (n : nat) : list mgraph := admgs_with n (psublists (all_upairs n)).

Lemma acyclicb_layers vs E B1 U1 C1 B2 U2 C2 :
  acyclicb (MkG vs E B1 U1 C1) = acyclicb (MkG vs E B2 U2 C2).
Proof. reflexivity. Qed.

Lemma admg_of_enum n E Bi : acyclicb (admg_of n E Bi) = true -> In (admg_of n E Bi) (admgs n).
Proof.
  intros H. unfold admgs, admgs_with. apply in_flat_map. exists (dag_of n E). split.
  - apply dag_of_enum. exact H.
  - apply in_map_iff. exists (canon_bi n Bi). split; [reflexivity|]. apply filter_in_psublists.
Qed.
