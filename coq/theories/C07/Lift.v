(* C07 — the brute-force separability oracle reflects the Prop [maximal_p] (via Graph/MSepDec.msep_dec_spec). *)
From Coq Require Import List Arith Bool Lia.
From PG Require Import Base.ListSet Base.Closure Graph.MGraph Graph.MSep Graph.MSepDec
  C06.Model C06.Enum C06.Lift C07.Model C07.Spec C07.Proofs.
Import ListNotations.

Lemma spec_maximal_spec g : spec_maximal g = true <-> maximal_p g.
Proof.
  unfold spec_maximal, maximal_p. rewrite forallb_forall. split.
  - intros H x y Hx Hy Hne Hadj.
    assert (Hp : In (x, y) (opairs (V g))) by (apply ordered_pairs_In; auto).
    specialize (H _ Hp). cbn [fst snd] in H. rewrite Hadj in H. rewrite orb_false_l in H.
    unfold separable in H. apply existsb_exists in H. destruct H as [Z [Hin Hs]].
    pose proof (sublists_incl _ _ Hin) as Hi. exists Z.
    assert (HZ : incl Z (V g)) by (intros v Hv; apply Hi in Hv; apply diffb_In in Hv; tauto).
    split; [exact HZ|]. split; [|split].
    + intros Hx'. apply Hi in Hx'. apply diffb_In in Hx'. apply (proj2 Hx'). left; reflexivity.
    + intros Hy'. apply Hi in Hy'. apply diffb_In in Hy'. apply (proj2 Hy'). right; left; reflexivity.
    + apply msep_dec_spec; assumption.
  - intros H [x y] Hp. apply ordered_pairs_In in Hp. destruct Hp as [Hx [Hy Hne]]. cbn [fst snd].
    destruct (adjacent g x y) eqn:Hadj; [reflexivity|]. rewrite orb_false_l.
    destruct (H x y Hx Hy Hne Hadj) as [Z [HZ [HxZ [HyZ Hs]]]].
    destruct (sublists_complete (diffb (V g) [x; y]) Z) as [Z' [Hin Heq]].
    { intros v Hv. apply diffb_In. split; [apply HZ, Hv|]. intros [<-|[<-|[]]]; contradiction. }
    unfold separable. apply existsb_exists. exists Z'. split; [exact Hin|].
    apply msep_dec_spec.
    + intros v Hv. apply (sublists_incl _ _ Hin) in Hv. apply diffb_In in Hv. tauto.
    + apply msep_seteq with Z; assumption.
Qed.

(* spec_valid_mag reflects the four conditions of the property text *)
Lemma spec_valid_mag_spec g : wf g ->
  (spec_valid_mag g = true <-> U g = [] /\ no_bow_p g /\ acyclic_p g /\ ancestral_bi_p g /\ maximal_p g).
Proof.
  intros Hwf. unfold spec_valid_mag, one_edge_per_pair.
  rewrite !andb_true_iff, (no_bow_spec g), acyclicb_spec, (no_bi_anc_spec g Hwf), spec_maximal_spec. split.
  - intros [[[[H1 [H2 _]] H3] H4] H5]. repeat (split; [assumption|]); try assumption.
    split; [unfold no_undirected in H1; destruct (U g); [reflexivity|discriminate]|].
    split; [exact H2|]. split; [exact H3|]. split; [exact H4|exact H5].
  - intros [H1 [H2 [H3 [H4 H5]]]]. split; [|exact H5]. split; [|exact H4]. split; [|exact H3].
    split; [unfold no_undirected; rewrite H1; reflexivity|]. split; [exact H2|].
    (* a 2-cycle is a directed cycle *)
    apply forallb_forall. intros [a b] Hab. cbn [fst snd]. apply negb_true_iff.
    destruct (has_d g b a) eqn:E; [|reflexivity]. exfalso.
    assert (Hd : has_d g a b = true) by (apply pmemb_In; exact Hab).
    destruct (wf_D g Hwf a b Hd) as [Ha [Hb _]]. apply (H3 a Ha).
    apply dpath_trans with b; apply dpath_edge; assumption.
Qed.
