(* C07: executable model of valid_mag (generic.py L653-714), has_adc (L620-650), is_maximal (L793-828).
   Direct transcription; the inducing-path search is C06's repaired [inducing_model] (L = S = {} as in the defaults). *)
From Coq Require Import List Arith Bool Lia.
From PG Require Import Base.ListSet Base.Closure Base.Sx Graph.MGraph Graph.MSep C06.Model.
Import ListNotations.

(* is_maximal: no inducing path between any non-adjacent pair.  The code visits every unordered pair once, in the
   direction set iteration yields first; the model looks at both directions (the search is symmetric when complete). *)
Definition is_maximal_model (g : mgraph) : bool :=
  forallb (fun p => adjacent g (fst p) (snd p) || negb (inducing_b g (fst p) (snd p) [] []))
          (opairs (V g)).

(* proper ancestor in the directed layer (nx.ancestors never contains the node itself) *)
Definition panc (g : mgraph) (a v : nat) : bool := negb (Nat.eqb a v) && reaches_plus g a v.

(* has_adc: for some node v, a bidirected edge joins a proper ancestor of v to a proper descendant of v *)
Definition has_adc_model (g : mgraph) : bool :=
  existsb (fun v =>
             existsb (fun e => (panc g (fst e) v && panc g v (snd e)) || (panc g (snd e) v && panc g v (fst e)))
                     (B g))
          (V g).

(* L683-690: an undirected edge, or a bidirected and a directed edge on one pair *)
Definition no_undirected (g : mgraph) : bool := match U g with [] => true | _ => false end.
Definition no_bow (g : mgraph) : bool :=
  forallb (fun e => negb (has_d g (fst e) (snd e) || has_d g (snd e) (fst e))) (B g).

Definition valid_mag_model (g : mgraph) : bool :=
  no_undirected g && no_bow g && acyclicb g && negb (has_adc_model g) && is_maximal_model g.

(* ---------------- brute-force spec oracles ---------------- *)
(* every non-adjacent pair is m-separated by some set of other nodes *)
Definition separable (g : mgraph) (x y : nat) : bool :=
  existsb (fun Z => msep_dec g [x] [y] Z) (sublists (diffb (V g) [x; y])).
Definition spec_maximal (g : mgraph) : bool :=
  forallb (fun p => adjacent g (fst p) (snd p) || separable g (fst p) (snd p)) (opairs (V g)).

(* at most one edge per pair: no bow, no 2-cycle *)
Definition one_edge_per_pair (g : mgraph) : bool :=
  no_bow g && forallb (fun e => negb (has_d g (snd e) (fst e))) (D g).
(* no bidirected edge between a node and one of its (proper) ancestors *)
Definition no_bi_anc (g : mgraph) : bool :=
  forallb (fun e => negb (reaches_plus g (fst e) (snd e) || reaches_plus g (snd e) (fst e))) (B g).
Definition spec_valid_mag (g : mgraph) : bool :=
  no_undirected g && one_edge_per_pair g && acyclicb g && no_bi_anc g && spec_maximal g.

(* run_case: L [I mode; graph] -> L [valid_mag; is_maximal; has_adc; spec_valid_mag; spec_maximal]
   mode 0: with oracles, mode 1: model only (oracle fields 2) *)
Definition run_case (s : sx) : sx :=
  let g := sx_graph (sx_nth s 1) in
  match sx_nat (sx_nth s 0) with
  | 0 => L [of_bool (valid_mag_model g); of_bool (is_maximal_model g); of_bool (has_adc_model g);
            of_bool (spec_valid_mag g); of_bool (spec_maximal g)]
  | _ => L [of_bool (valid_mag_model g); of_bool (is_maximal_model g); of_bool (has_adc_model g); I 2; I 2]
  end.
