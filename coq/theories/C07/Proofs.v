(* C07 — unbounded theorems about the local part of valid_mag and about has_adc. *)
From Coq Require Import List Arith Bool Lia.
From PG Require Import Base.ListSet Base.Closure Graph.MGraph Graph.MSep C06.Model C07.Model C07.Spec.
Import ListNotations.

Lemma rp_spec g a b : In a (V g) -> (reaches_plus g a b = true <-> dpath_plus g a b).
Proof.
  intros Ha. unfold reaches_plus, dpath_plus. rewrite memb_In.
  apply closure_spec with (univ := V g); auto using Nat.eqb_eq, children_univ.
Qed.

Lemma dpath_in_V g a b : dpath_plus g a b -> In b (V g).
Proof. intros H. destruct H as [c Hc|c e _ He]; apply children_In in Hc || apply children_In in He; tauto. Qed.

Lemma dpath_trans g a v b : dpath_plus g a v -> dpath_plus g v b -> dpath_plus g a b.
Proof.
  intros Hav Hvb. unfold dpath_plus in *. induction Hvb as [c Hc|c e Hc IH He].
  - apply reach_step with v; assumption.
  - apply reach_step with c; assumption.
Qed.

Lemma dpath_edge g a b : In b (V g) -> has_d g a b = true -> dpath_plus g a b.
Proof. intros Hb H. apply reach_init. apply children_In. auto. Qed.

(* a ->+ b is one edge, or a ->+ v -> b through an inner node *)
Lemma dpath_split g a b : dpath_plus g a b -> has_d g a b = true \/ exists v, dpath_plus g a v /\ dpath_plus g v b.
Proof.
  intros H. destruct H as [c Hc|c e Hc He].
  - left. apply children_In in Hc. tauto.
  - right. exists c. split; [exact Hc|]. apply reach_init. exact He.
Qed.

Lemma acyclicb_spec g : acyclicb g = true <-> acyclic_p g.
Proof.
  unfold acyclicb, acyclic_p. rewrite forallb_forall. split; intros H v Hv.
  - specialize (H v Hv). apply negb_true_iff in H. intros Hp. apply (rp_spec g v v Hv) in Hp. congruence.
  - apply negb_true_iff. destruct (reaches_plus g v v) eqn:E; [|reflexivity].
    exfalso. apply (H v Hv). apply (rp_spec g v v Hv). exact E.
Qed.

Section WF.
Variable g : mgraph.
Hypothesis Hwf : wf g.

Lemma wf_B a b : In (a, b) (B g) -> In a (V g) /\ In b (V g) /\ a <> b.
Proof.
  unfold wf, wfb in Hwf. rewrite !andb_true_iff in Hwf. destruct Hwf as [[[_ H] _] _].
  apply (proj1 (edges_ok_spec _ _) H).
Qed.
Lemma wf_D a b : has_d g a b = true -> In a (V g) /\ In b (V g) /\ a <> b.
Proof.
  unfold has_d. rewrite pmemb_In. unfold wf, wfb in Hwf. rewrite !andb_true_iff in Hwf.
  destruct Hwf as [[[H _] _] _]. apply (proj1 (edges_ok_spec _ _) H).
Qed.
Lemma has_b_V a b : has_b g a b = true -> In a (V g) /\ In b (V g) /\ a <> b.
Proof.
  unfold has_b. rewrite smemb_In. intros [H|H]; apply wf_B in H; intuition.
Qed.

Lemma dpath_src_neq a b : acyclic_p g -> In a (V g) -> dpath_plus g a b -> a <> b.
Proof. intros Hac Ha Hp ->. apply (Hac b Ha Hp). Qed.

Lemma no_bow_spec : no_bow g = true <-> no_bow_p g.
Proof.
  unfold no_bow, no_bow_p. rewrite forallb_forall. split.
  - intros H a b Hb. unfold has_b in Hb. apply smemb_In in Hb. destruct Hb as [Hb|Hb].
    + specialize (H _ Hb). simpl in H. apply negb_true_iff, orb_false_iff in H. tauto.
    + specialize (H _ Hb). simpl in H. apply negb_true_iff, orb_false_iff in H. tauto.
  - intros H [a b] Hab. simpl. apply negb_true_iff, orb_false_iff. apply H.
    unfold has_b. apply smemb_In. left; exact Hab.
Qed.

Lemma no_bi_anc_spec : no_bi_anc g = true <-> ancestral_bi_p g.
Proof.
  unfold no_bi_anc, ancestral_bi_p. rewrite forallb_forall. split.
  - intros H a b Hb. destruct (has_b_V a b Hb) as [Ha [Hb' _]].
    assert (Hk : reaches_plus g a b = false /\ reaches_plus g b a = false).
    { unfold has_b in Hb. apply smemb_In in Hb. destruct Hb as [Hb|Hb]; specialize (H _ Hb); simpl in H;
        apply negb_true_iff, orb_false_iff in H; tauto. }
    destruct Hk as [H1 H2]. split; intros Hp.
    + apply (rp_spec g a b Ha) in Hp. congruence.
    + apply (rp_spec g b a Hb') in Hp. congruence.
  - intros H [a b] Hab. simpl. apply negb_true_iff, orb_false_iff.
    assert (Hb : has_b g a b = true) by (unfold has_b; apply smemb_In; left; exact Hab).
    destruct (has_b_V a b Hb) as [Ha [Hb' _]]. destruct (H a b Hb) as [H1 H2]. split.
    + destruct (reaches_plus g a b) eqn:E; [|reflexivity]. exfalso. apply H1. apply (rp_spec g a b Ha). exact E.
    + destruct (reaches_plus g b a) eqn:E; [|reflexivity]. exfalso. apply H2. apply (rp_spec g b a Hb'). exact E.
Qed.

Lemma panc_spec a v : In a (V g) -> (panc g a v = true <-> a <> v /\ dpath_plus g a v).
Proof.
  intros Ha. unfold panc. rewrite andb_true_iff, negb_true_iff, Nat.eqb_neq, (rp_spec g a v Ha). tauto.
Qed.

Lemma has_adc_spec : has_adc_model g = true <->
  exists v a b, In v (V g) /\ has_b g a b = true /\ a <> v /\ dpath_plus g a v /\ v <> b /\ dpath_plus g v b.
Proof.
  unfold has_adc_model. rewrite existsb_exists. split.
  - intros [v [Hv H]]. apply existsb_exists in H. destruct H as [[a b] [He H]]. simpl in H.
    destruct (wf_B a b He) as [Ha [Hb _]]. apply orb_true_iff in H. destruct H as [H|H]; apply andb_true_iff in H; destruct H as [H1 H2].
    + apply (panc_spec a v Ha) in H1. apply (panc_spec v b Hv) in H2. exists v, a, b.
      repeat split; try tauto. unfold has_b. apply smemb_In. left; exact He.
    + apply (panc_spec b v Hb) in H1. apply (panc_spec v a Hv) in H2. exists v, b, a.
      repeat split; try tauto. unfold has_b. apply smemb_In. right; exact He.
  - intros [v [a [b [Hv [Hb [H1 [H2 [H3 H4]]]]]]]]. exists v. split; [exact Hv|]. apply existsb_exists.
    destruct (has_b_V a b Hb) as [Ha [Hb' _]]. unfold has_b in Hb. apply smemb_In in Hb. destruct Hb as [Hb|Hb].
    + exists (a, b). split; [exact Hb|]. simpl. apply orb_true_iff. left. apply andb_true_iff. split.
      * apply (panc_spec a v Ha). tauto.
      * apply (panc_spec v b Hv). tauto.
    + exists (b, a). split; [exact Hb|]. simpl. apply orb_true_iff. right. apply andb_true_iff. split.
      * apply (panc_spec a v Ha). tauto.
      * apply (panc_spec v b Hv). tauto.
Qed.

Lemma has_adc_gap_wf : acyclic_p g -> no_bow_p g -> (has_adc_model g = false <-> ancestral_bi_p g).
Proof.
  intros Hac Hnb. split.
  - intros Hadc.
    assert (K : forall a b, has_b g a b = true -> ~ dpath_plus g a b).
    { intros a b Hb Hp. destruct (has_b_V a b Hb) as [Ha [Hb' _]].
      destruct (dpath_split g a b Hp) as [Hd|[v [H1 H2]]].
      - destruct (Hnb a b Hb) as [E _]. congruence.
      - assert (Hv : In v (V g)) by (apply dpath_in_V with a; exact H1).
        assert (E : has_adc_model g = true).
        { apply has_adc_spec. exists v, a, b. repeat split; auto.
          - apply dpath_src_neq; assumption.
          - apply dpath_src_neq; assumption. }
        congruence. }
    intros a b Hb. split; [apply K; exact Hb|apply K; rewrite has_b_sym; exact Hb].
  - intros Hanc. destruct (has_adc_model g) eqn:E; [|reflexivity]. exfalso.
    apply has_adc_spec in E. destruct E as [v [a [b [Hv [Hb [_ [H1 [_ H2]]]]]]]].
    destruct (Hanc a b Hb) as [K _]. apply K. apply dpath_trans with v; assumption.
Qed.

Lemma valid_mag_local_wf :
  valid_mag_model g = true <->
  U g = [] /\ no_bow_p g /\ acyclic_p g /\ ancestral_bi_p g /\ is_maximal_model g = true.
Proof.
  unfold valid_mag_model. rewrite !andb_true_iff, negb_true_iff, no_bow_spec, acyclicb_spec. split.
  - intros [[[[H1 H2] H3] H4] H5].
    split; [unfold no_undirected in H1; destruct (U g); [reflexivity|discriminate]|].
    split; [exact H2|]. split; [exact H3|]. split; [|exact H5].
    apply (proj1 (has_adc_gap_wf H3 H2)). exact H4.
  - intros [H1 [H2 [H3 [H4 H5]]]].
    split; [|exact H5]. split; [|apply (proj2 (has_adc_gap_wf H3 H2)); exact H4].
    split; [|exact H3]. split; [|exact H2]. unfold no_undirected. rewrite H1. reflexivity.
Qed.
End WF.

Theorem valid_mag_local : valid_mag_local_stmt.
Proof. intros g Hwf. apply valid_mag_local_wf. exact Hwf. Qed.

Theorem has_adc_gap : has_adc_gap_stmt.
Proof. intros g Hwf. apply has_adc_gap_wf. exact Hwf. Qed.

Theorem undirected_rejected : undirected_rejected_stmt.
Proof. intros g H. unfold valid_mag_model, no_undirected. destruct (U g); [congruence|reflexivity]. Qed.

(* the gap is real: 0 -> 1 with 0 <-> 1 has no "almost directed cycle" for has_adc, yet 0 is an ancestor of its spouse *)
Theorem has_adc_bow_missed : has_adc_bow_missed_stmt.
Proof.
  exists (MkG [0; 1] [(0, 1)] [(0, 1)] [] []). split; [reflexivity|]. split.
  - apply acyclicb_spec. reflexivity.
  - split; [reflexivity|]. intros H. destruct (H 0 1 eq_refl) as [K _]. apply K.
    apply reach_init. simpl. left; reflexivity.
Qed.

(* boundary: on the empty graph (and on graphs of isolated nodes) all five conditions of valid_mag_local hold vacuously,
   so the theorems fix the answers: valid_mag = True, is_maximal = True, has_adc = False *)
Example valid_mag_empty :
  let e := MkG [] [] [] [] [] in
  wf e /\ valid_mag_model e = true /\ is_maximal_model e = true /\ has_adc_model e = false /\
  valid_mag_model (MkG [0; 1; 2] [] [] [] []) = true.
Proof. vm_compute. repeat split; reflexivity. Qed.
