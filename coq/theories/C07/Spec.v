(* C07 — the property as Props (compare with properties.jsonl, id C07):
   valid_mag g  <->  at most one edge per pair /\ no directed cycle /\ no bidirected edge between a node and one of its
                     ancestors /\ every non-adjacent pair is m-separated by some set of other nodes;
   is_maximal g <->  that last condition;   an undirected edge => valid_mag rejects. *)
From Coq Require Import List Arith Bool Lia.
From PG Require Import Base.ListSet Base.Closure Graph.MGraph Graph.MSep C06.Model C07.Model.
Import ListNotations.

(* a ->+ b : a directed path of length >= 1 *)
Definition dpath_plus (g : mgraph) (a b : nat) : Prop := reach (children g) (children g a) b.

Definition no_bow_p (g : mgraph) : Prop :=
  forall a b, has_b g a b = true -> has_d g a b = false /\ has_d g b a = false.
Definition acyclic_p (g : mgraph) : Prop := forall v, In v (V g) -> ~ dpath_plus g v v.
Definition ancestral_bi_p (g : mgraph) : Prop :=
  forall a b, has_b g a b = true -> ~ dpath_plus g a b /\ ~ dpath_plus g b a.
(* every non-adjacent pair is m-separated by some set of other nodes *)
Definition maximal_p (g : mgraph) : Prop :=
  forall x y, In x (V g) -> In y (V g) -> x <> y -> adjacent g x y = false ->
    exists Z, incl Z (V g) /\ ~ In x Z /\ ~ In y Z /\ msep g [x] [y] Z.

(* the local (non-maximality) part, unbounded: valid_mag_model = those four conditions + is_maximal_model *)
Definition valid_mag_local_stmt : Prop := forall g, wf g ->
  (valid_mag_model g = true <->
   U g = [] /\ no_bow_p g /\ acyclic_p g /\ ancestral_bi_p g /\ is_maximal_model g = true).
Definition undirected_rejected_stmt : Prop := forall g, U g <> [] -> valid_mag_model g = false.
(* has_adc alone misses the bow a -> b, a <-> b; valid_mag catches that case by the one-edge-per-pair scan *)
Definition has_adc_gap_stmt : Prop := forall g, wf g -> acyclic_p g -> no_bow_p g ->
  (has_adc_model g = false <-> ancestral_bi_p g).
Definition has_adc_bow_missed_stmt : Prop :=
  exists g, wf g /\ acyclic_p g /\ has_adc_model g = false /\ ~ ancestral_bi_p g.

(* FULL statement of the research-level clause (Richardson & Spirtes 2002: no inducing path <-> separable), for ADMGs
   with bows allowed; proved for all ADMGs on at most 4 nodes (Bounded*.v), beyond that covered by the tie's oracle. *)
Definition is_admg (g : mgraph) : Prop := wf g /\ NoDup (V g) /\ U g = [] /\ C g = [] /\ acyclic_p g.
Definition maximal_is_separable_stmt : Prop := forall g, is_admg g -> (is_maximal_model g = true <-> maximal_p g).
Definition valid_mag_full_stmt : Prop := forall g, wf g -> NoDup (V g) -> C g = [] ->
  (valid_mag_model g = true <-> U g = [] /\ no_bow_p g /\ acyclic_p g /\ ancestral_bi_p g /\ maximal_p g).
