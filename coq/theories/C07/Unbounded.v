(* C07 — for ALL sizes: is_maximal (no inducing path between non-adjacent nodes, L = S = {}) <-> every non-adjacent pair is
   m-separated by some set of other nodes; hence valid_mag <-> the four clauses of the property.  Holds for every graph
   with directed and bidirected edges and acyclic directed layer (bows and non-ancestral graphs included), from
   C06/Unbounded.inducing_unblockable / sepset_separates. *)
From Coq Require Import List Arith Bool Lia.
From PG Require Import Base.ListSet Base.Closure Graph.MGraph Graph.MSep Graph.MSepDec Graph.Walks
  C06.Model C06.Spec C06.Enum C06.Proofs C06.Unbounded C07.Model C07.Spec C07.Proofs.
Import ListNotations.

Theorem maximal_is_separable_all g :
  U g = [] -> acyclicb g = true -> (is_maximal_model g = true <-> maximal_p g).
Proof.
  intros HU Hac. unfold is_maximal_model, maximal_p. rewrite forallb_forall. split.
  - intros H x y Hx Hy Hne Hadj.
    assert (Hp : In (x, y) (opairs (V g))) by (apply ordered_pairs_In; auto).
    specialize (H _ Hp). cbn [fst snd] in H. rewrite Hadj, orb_false_l in H. apply negb_true_iff in H.
    assert (HA : incl (x :: y :: []) (V g)) by (intros v [<-|[<-|[]]]; assumption).
    assert (Hno : forall p, ~ inducing_path_def g [] [] x p y).
    { intros p Hpd. unfold inducing_b in H.
      assert (E : fst (inducing_model g x y [] []) = true) by (apply (inducing_exact g x y [] [] HA); exists p; exact Hpd).
      congruence. }
    exists (sepset g [] [] x y).
    assert (Hin : forall v, In v (sepset g [] [] x y) -> In v (V g) /\ v <> x /\ v <> y).
    { intros v Hv. unfold sepset in Hv. rewrite app_nil_r in Hv. apply (sepset0_In g [] [] x y v HA) in Hv. tauto. }
    split; [intros v Hv; apply Hin, Hv|]. split; [intros Hv; apply Hin in Hv; tauto|].
    split; [intros Hv; apply Hin in Hv; tauto|].
    apply sepset_separates; auto.
  - intros H [x y] Hp. apply ordered_pairs_In in Hp. destruct Hp as [Hx [Hy Hne]]. cbn [fst snd].
    destruct (adjacent g x y) eqn:Hadj; [reflexivity|]. rewrite orb_false_l. apply negb_true_iff.
    destruct (inducing_b g x y [] []) eqn:E; [|reflexivity]. exfalso.
    destruct (H x y Hx Hy Hne Hadj) as [Z [HZ [_ [_ Hs]]]].
    assert (HA : incl (x :: y :: []) (V g)) by (intros v [<-|[<-|[]]]; assumption).
    unfold inducing_b in E. apply (inducing_exact g x y [] [] HA) in E. destruct E as [p Hpd].
    apply (inducing_unblockable g HU [] [] Z x y HA HZ) with p; auto.
    intros v [].
Qed.

Theorem valid_mag_full g : wf g ->
  (valid_mag_model g = true <-> U g = [] /\ no_bow_p g /\ acyclic_p g /\ ancestral_bi_p g /\ maximal_p g).
Proof.
  intros Hwf. rewrite (valid_mag_local g Hwf). split.
  - intros [H1 [H2 [H3 [H4 H5]]]]. repeat (split; [assumption|]).
    apply maximal_is_separable_all; auto. apply C07.Proofs.acyclicb_spec. exact H3.
  - intros [H1 [H2 [H3 [H4 H5]]]]. repeat (split; [assumption|]).
    apply maximal_is_separable_all; auto. apply C07.Proofs.acyclicb_spec. exact H3.
Qed.

(* the statements of C07/Spec.v *)
Theorem maximal_is_separable : maximal_is_separable_stmt.
Proof.
  intros g [Hwf [_ [HU [_ Hac]]]]. apply maximal_is_separable_all; [exact HU|].
  apply C07.Proofs.acyclicb_spec. exact Hac.
Qed.

Theorem valid_mag_full_spec : valid_mag_full_stmt.
Proof. intros g Hwf _ _. apply valid_mag_full. exact Hwf. Qed.
