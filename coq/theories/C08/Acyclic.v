(* C08: the boolean acyclicity test of Graph/MGraph.v is sound for the Prop [acyclic] of Spec.v, and the refutation witness
   restated against the Prop-level spec [consistent_ext]. *)
From Coq Require Import List Arith Bool Lia.
From PG Require Import Base.ListSet Base.Closure Graph.MGraph C08.Model C08.Spec C08.Refuted.
Import ListNotations.

Lemma reach_trans {A} (step : A -> list A) init init' c :
  (forall x, In x init' -> reach step init x) -> reach step init' c -> reach step init c.
Proof.
  intros H R. induction R as [a Ha|a b Ra IH Hb]; [apply H; exact Ha|].
  eapply reach_step; [exact IH|exact Hb].
Qed.

Section Acyc.
Variable d : mgraph.
Hypothesis Hwf : forall x y, has_d d x y = true -> In x (V d) /\ In y (V d).

Lemma dpath_reach a b : dpath d a b -> reach (children d) (children d a) b.
Proof.
  intros P. induction P as [a b H|a b c H P IH].
  - apply reach_init. apply children_In. split; [apply (Hwf a b H)|exact H].
  - apply (reach_trans (children d) (children d a) (children d b)); [|exact IH].
    intros x Hx. eapply reach_step; [|exact Hx].
    apply reach_init. apply children_In. split; [apply (Hwf a b H)|exact H].
Qed.

Lemma acyclicb_sound : acyclicb d = true -> acyclic d.
Proof.
  intros Hb v P. unfold acyclicb in Hb. rewrite forallb_forall in Hb.
  assert (Hv : In v (V d)). { inversion P as [a b H|a b c H _]; subst; apply (Hwf _ _ H). }
  specialize (Hb v Hv). apply negb_true_iff in Hb. unfold reaches_plus in Hb.
  apply memb_false in Hb. apply Hb.
  apply (proj2 (desc_of_spec d (children d v) v (children_univ d v Hv))).
  apply dpath_reach. exact P.
Qed.
End Acyc.

(* the witness of Refuted.v against the Prop-level spec: wit_d is a consistent extension of the simple PDAG wit_p in the sense
   of Spec.consistent_ext, the coded rule 1 orients 2 -> 3, and wit_d has 3 -> 2 *)
Lemma wit_simple : simple_pdag wit_p.
Proof.
  intros a b H.
  destruct a as [|[|[|[|a]]]]; destruct b as [|[|[|[|b]]]]; try discriminate H; split; reflexivity.
Qed.

Lemma wit_ext : consistent_ext wit_p wit_d.
Proof.
  unfold consistent_ext. split; [reflexivity|]. split.
  - apply acyclicb_sound; [|vm_compute; reflexivity].
    intros x y H. unfold has_d in H. apply pmemb_In in H. simpl in H.
    destruct H as [E|[E|[E|[E|[]]]]]; inversion E; subst; simpl; auto 10.
  - split; [split; apply incl_refl|]. split; [|split].
    + intros a b. destruct a as [|[|[|[|a]]]]; destruct b as [|[|[|[|b]]]]; reflexivity.
    + intros e He. simpl in *. tauto.
    + intros a c b.
      destruct a as [|[|[|[|a]]]]; destruct c as [|[|[|[|c]]]]; destruct b as [|[|[|[|b]]]];
        vm_compute; split; intros H; try exact H; try discriminate H.
Qed.

Theorem meek_sound_code_refuted_spec_proof :
  exists p d i j, simple_pdag p /\ consistent_ext p d /\ has_u p i j = true /\ r1_code p i j = true /\ ~ In (i, j) (D d).
Proof.
  exists wit_p, wit_d, 2, 3. split; [exact wit_simple|]. split; [exact wit_ext|].
  split; [reflexivity|]. split; [reflexivity|].
  simpl. intros [E|[E|[E|[E|[]]]]]; discriminate E.
Qed.
