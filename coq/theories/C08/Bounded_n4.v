(* C08: completeness on patterns, by kernel computation over every DAG on <= 4 nodes (543 + 25 + 3 + 1 + 1 graphs). *)
From Coq Require Import List Arith Bool Lia.
From PG Require Import Base.ListSet Graph.MGraph C08.Model C08.Spec.
Import ListNotations.

Definition complete_check (d : mgraph) : bool := pdag_eqb (meek_model (pattern_of d)) (essential_graph d).

Lemma complete_upto_4 : forallb (fun n => forallb complete_check (all_dags n)) [0; 1; 2; 3; 4] = true.
Proof. vm_compute. reflexivity. Qed.

Theorem meek_complete_on_patterns_bounded_4_proof :
  forall n d, n <= 4 -> In d (all_dags n) -> pdag_eqb (meek_model (pattern_of d)) (essential_graph d) = true.
Proof.
  intros n d Hn Hd. pose proof complete_upto_4 as H. rewrite forallb_forall in H.
  assert (Hin : In n [0; 1; 2; 3; 4]) by (simpl; lia).
  specialize (H n Hin). rewrite forallb_forall in H. apply (H d Hd).
Qed.

(* the enumeration is the expected one: 1, 1, 3, 25, 543 labelled DAGs *)
Example all_dags_counts : map (fun n => length (all_dags n)) [0; 1; 2; 3; 4] = [1; 1; 3; 25; 543].
Proof. vm_compute. reflexivity. Qed.

(* non-vacuity: a DAG whose pattern needs rule 1 *)
Example complete_example :
  let d := dir_graph [0; 1; 2; 3] [(0, 2); (1, 2); (2, 3)] in
  D (pattern_of d) = [(0, 2); (1, 2)] /\ D (meek_model (pattern_of d)) = [(2, 3); (0, 2); (1, 2)] /\ complete_check d = true.
Proof. vm_compute. auto. Qed.
