(* C08: completeness on patterns for every DAG on 5 nodes (29281 graphs), assembled from the 4 shards. *)
From Coq Require Import List Arith Bool Lia.
From PG Require Import Base.ListSet Graph.MGraph C08.Model C08.Spec C08.Bounded_n4 C08.Fast C08.Bounded_n5_s00 C08.Bounded_n5_s01 C08.Bounded_n5_s02 C08.Bounded_n5_s03.
Import ListNotations.

Definition all_shards : list (list (nat * nat)) := shard_00 ++ shard_01 ++ shard_02 ++ shard_03.

Lemma all_shards_ok : forallb (fast_skel_sig (nodes 5)) all_shards = true.
Proof.
  apply forallb_forall. intros s Hs. unfold all_shards in Hs. rewrite !in_app_iff in Hs.
  destruct Hs as [H|[H|[H|H]]].
  - exact (proj1 (forallb_forall _ _) shard_00_ok s H).
  - exact (proj1 (forallb_forall _ _) shard_01_ok s H).
  - exact (proj1 (forallb_forall _ _) shard_02_ok s H).
  - exact (proj1 (forallb_forall _ _) shard_03_ok s H).
Qed.

Definition cover_check (all sk : list (list (nat * nat))) : bool := forallb (fun s => existsb (plist_eqb s) all) sk.

Lemma shards_cover_b : cover_check all_shards (skeletons 5) = true.
Proof. vm_compute. reflexivity. Qed.

Lemma shards_cover s : In s (skeletons 5) -> In s all_shards.
Proof.
  intros H. pose proof shards_cover_b as C. unfold cover_check in C. rewrite forallb_forall in C. specialize (C s H).
  apply existsb_exists in C. destruct C as [s' [Hs' E]]. apply plist_eqb_eq in E. subst. exact Hs'.
Qed.

Theorem complete_5 : forall d, In d (all_dags 5) -> complete_check d = true.
Proof. exact (fast_sound 5 all_shards shards_cover all_shards_ok). Qed.

Theorem meek_complete_on_patterns_bounded_5_proof :
  forall n d, n <= 5 -> In d (all_dags n) -> pdag_eqb (meek_model (pattern_of d)) (essential_graph d) = true.
Proof.
  intros n d Hn Hd. destruct (Nat.eq_dec n 5) as [->|Hne].
  - exact (complete_5 d Hd).
  - apply (meek_complete_on_patterns_bounded_4_proof n); [lia|exact Hd].
Qed.
