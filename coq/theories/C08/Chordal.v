(* C08: chordal undirected graphs through perfect elimination orderings (PEO), over an abstract symmetric irreflexive
   adjacency relation.  Contents: simplicial vertices; PEOs are hereditary; Dirac's lemma (a graph with a PEO is complete or
   has two non-adjacent simplicial vertices); KEY LEMMA [peo_last]: for every vertex a there is a PEO in which a comes LAST —
   so the orientation "later in the PEO -> earlier" (acyclic, without v-structure, see ChordalOrient.v) can be made to have
   any chosen vertex as a source, hence any edge a - b oriented a -> b or b -> a. *)
From Coq Require Import List Arith Bool Lia.
Import ListNotations.

Section Chordal.
Variable adj : nat -> nat -> bool.
Hypothesis adj_sym : forall a b, adj a b = adj b a.
Hypothesis adj_irrefl : forall a, adj a a = false.

(* the neighbours of v inside t are pairwise adjacent *)
Definition simpl_in (t : list nat) (v : nat) : Prop :=
  forall x y, In x t -> In y t -> adj v x = true -> adj v y = true -> x <> y -> adj x y = true.

(* l is a perfect elimination ordering: every vertex is simplicial among the LATER ones *)
Fixpoint is_peo (l : list nat) : Prop :=
  match l with [] => True | v :: t => simpl_in t v /\ is_peo t end.

Definition complete (l : list nat) : Prop := forall x y, In x l -> In y l -> x <> y -> adj x y = true.

Lemma simpl_in_incl t t' v : incl t' t -> simpl_in t v -> simpl_in t' v.
Proof. intros Hi H x y Hx Hy. apply H; apply Hi; assumption. Qed.

Lemma simpl_in_cons s t : simpl_in t s -> simpl_in (s :: t) s.
Proof.
  intros H x y [<-|Hx] [<-|Hy] A1 A2 Hne; try (rewrite adj_irrefl in *; discriminate).
  apply H; assumption.
Qed.

Definition rem (w : nat) (l : list nat) : list nat := filter (fun x => negb (Nat.eqb x w)) l.

Lemma rem_In w l x : In x (rem w l) <-> In x l /\ x <> w.
Proof. unfold rem. rewrite filter_In, negb_true_iff, Nat.eqb_neq. tauto. Qed.

Lemma rem_NoDup w l : NoDup l -> NoDup (rem w l).
Proof. apply NoDup_filter. Qed.

Lemma rem_length_le w l : length (rem w l) <= length l.
Proof. induction l as [|x t IH]; simpl; [lia|]. destruct (negb (Nat.eqb x w)); simpl; lia. Qed.

Lemma rem_length w l : In w l -> length (rem w l) < length l.
Proof.
  induction l as [|x t IH]; simpl; [tauto|]. intros [->|H].
  - rewrite Nat.eqb_refl. simpl. pose proof (rem_length_le w t). unfold rem in *. lia.
  - specialize (IH H). destruct (negb (Nat.eqb x w)); simpl; unfold rem in *; lia.
Qed.

(* PEOs are hereditary *)
Lemma is_peo_rem w l : is_peo l -> is_peo (rem w l).
Proof.
  induction l as [|v t IH]; simpl; [tauto|]. intros [Hs Hp].
  destruct (negb (Nat.eqb v w)); simpl; [|apply IH; exact Hp].
  split; [|apply IH; exact Hp]. eapply simpl_in_incl; [|exact Hs].
  intros x Hx. apply rem_In in Hx. tauto.
Qed.

(* Dirac: complete, or two non-adjacent simplicial vertices *)
Lemma dirac l : NoDup l -> is_peo l ->
  complete l \/ exists x y, In x l /\ In y l /\ x <> y /\ adj x y = false /\ simpl_in l x /\ simpl_in l y.
Proof.
  induction l as [|s t IH]; intros Hnd Hp.
  - left. intros x y [].
  - inversion Hnd as [|? ? Hs Hnd']; subst. destruct Hp as [Hss Hp].
    assert (Ss : simpl_in (s :: t) s) by (apply simpl_in_cons; exact Hss).
    assert (Lift : forall x, In x t -> adj s x = false -> simpl_in t x -> simpl_in (s :: t) x).
    { intros x Hx Hsx Hsi p q [<-|Hp'] [<-|Hq] A1 A2 Hne;
        try (rewrite (adj_sym x s), Hsx in *; discriminate). apply Hsi; assumption. }
    destruct (IH Hnd' Hp) as [Hc|(x & y & Hx & Hy & Hxy & Hna & Sx & Sy)].
    + destruct (forallb (adj s) t) eqn:E.
      * left. rewrite forallb_forall in E. intros p q [<-|Hp'] [<-|Hq] Hne; try congruence.
        -- apply E. exact Hq.
        -- rewrite adj_sym. apply E. exact Hp'.
        -- apply Hc; assumption.
      * right. assert (X : exists w, In w t /\ adj s w = false).
        { clear -E. induction t as [|w t IH]; simpl in E; [discriminate|].
          destruct (adj s w) eqn:A; [destruct (IH E) as [w' [H1 H2]]; exists w'; simpl; auto|exists w; simpl; auto]. }
        destruct X as [w [Hw Hsw]]. exists s, w. repeat split; simpl; auto.
        -- intros ->. contradiction.
        -- apply Lift; [exact Hw|exact Hsw|]. intros p q Hp' Hq _ _ Hne. apply Hc; assumption.
    + right. destruct (adj s x) eqn:Ax.
      * destruct (adj s y) eqn:Ay.
        -- exfalso. rewrite (Hss x y Hx Hy Ax Ay Hxy) in Hna. discriminate.
        -- exists s, y. repeat split; simpl; auto. intros ->. contradiction.
      * exists s, x. repeat split; simpl; auto. intros ->. contradiction.
Qed.

Lemma complete_simpl l v : complete l -> simpl_in l v.
Proof. intros Hc x y Hx Hy _ _ Hne. apply Hc; assumption. Qed.

(* a second simplicial vertex, different from a given one *)
Lemma other_simplicial l a : NoDup l -> is_peo l -> 2 <= length l -> exists s, In s l /\ s <> a /\ simpl_in l s.
Proof.
  intros Hnd Hp Hlen. destruct (dirac l Hnd Hp) as [Hc|(x & y & Hx & Hy & Hxy & _ & Sx & Sy)].
  - destruct l as [|p [|q r]]; simpl in Hlen; try lia.
    inversion Hnd as [|? ? Hpq _]; subst.
    destruct (Nat.eq_dec p a) as [->|Hne].
    + exists q. split; [simpl; auto|]. split; [intros ->; apply Hpq; simpl; auto|apply complete_simpl; exact Hc].
    + exists p. split; [simpl; auto|]. split; [exact Hne|apply complete_simpl; exact Hc].
  - destruct (Nat.eq_dec x a) as [->|Hne]; [exists y|exists x]; auto.
Qed.

(* KEY LEMMA: a PEO of the same vertex set in which a is the last vertex *)
Lemma peo_last : forall n l, length l <= n -> NoDup l -> is_peo l -> forall a, In a l ->
  exists l', NoDup (l' ++ [a]) /\ (forall x, In x (l' ++ [a]) <-> In x l) /\ is_peo (l' ++ [a]).
Proof.
  induction n as [|n IH]; intros l Hlen Hnd Hp a Ha.
  - destruct l; [destruct Ha|simpl in Hlen; lia].
  - destruct (le_lt_dec 2 (length l)) as [H2|H1].
    + destruct (other_simplicial l a Hnd Hp H2) as (s & Hs & Hsa & Ss).
      assert (Ha' : In a (rem s l)) by (apply rem_In; split; [exact Ha|auto]).
      pose proof (rem_length s l Hs) as Hl.
      destruct (IH (rem s l) ltac:(lia) (rem_NoDup s l Hnd) (is_peo_rem s l Hp) a Ha') as (l' & N' & E' & P').
      exists (s :: l'). split; [|split].
      * simpl. constructor; [|exact N']. intros X. apply E' in X. apply rem_In in X. tauto.
      * intros x. simpl. rewrite E', rem_In. split; [intros [<-|[H _]]; auto|].
        intros H. destruct (Nat.eq_dec s x); [auto|right; split; auto].
      * simpl. split; [|exact P']. eapply simpl_in_incl; [|exact Ss].
        intros x Hx. apply E' in Hx. apply rem_In in Hx. tauto.
    + destruct l as [|p [|q r]]; [destruct Ha| |simpl in H1; lia]. destruct Ha as [->|[]].
      exists []. simpl. split; [exact Hnd|]. split; [tauto|exact Hp].
Qed.

(* ---- positions ---- *)
Fixpoint idx (l : list nat) (x : nat) : nat :=
  match l with [] => 0 | v :: t => if Nat.eqb x v then 0 else S (idx t x) end.

Lemma idx_lt l x : In x l -> idx l x < length l.
Proof.
  induction l as [|v t IH]; simpl; [tauto|]. intros H. destruct (Nat.eqb x v) eqn:E; [lia|].
  apply Nat.eqb_neq in E. destruct H as [->|H]; [congruence|]. specialize (IH H). lia.
Qed.

Lemma idx_inj l x y : In x l -> In y l -> idx l x = idx l y -> x = y.
Proof.
  induction l as [|v t IH]; simpl; [tauto|]. intros Hx Hy.
  destruct (Nat.eqb x v) eqn:E1; destruct (Nat.eqb y v) eqn:E2; intros H; try discriminate.
  - apply Nat.eqb_eq in E1. apply Nat.eqb_eq in E2. congruence.
  - apply Nat.eqb_neq in E1. apply Nat.eqb_neq in E2. destruct Hx as [->|Hx]; [congruence|].
    destruct Hy as [->|Hy]; [congruence|]. apply IH; auto.
Qed.

Lemma idx_app_last l a x : ~ In a l -> In x l -> idx (l ++ [a]) x < idx (l ++ [a]) a.
Proof.
  induction l as [|v t IH]; simpl; [tauto|]. intros Hn Hx.
  destruct (Nat.eqb a v) eqn:E; [apply Nat.eqb_eq in E; subst; tauto|].
  destruct (Nat.eqb x v) eqn:E2; [lia|]. apply Nat.eqb_neq in E2.
  destruct Hx as [->|Hx]; [congruence|]. apply -> Nat.succ_lt_mono. apply IH; tauto.
Qed.

(* the neighbours of c at later positions are pairwise adjacent *)
Lemma peo_later l : is_peo l -> forall c x y, In c l -> In x l -> In y l ->
  idx l c < idx l x -> idx l c < idx l y -> adj c x = true -> adj c y = true -> x <> y -> adj x y = true.
Proof.
  induction l as [|v t IH]; simpl; [tauto|]. intros [Hs Hp] c x y Hc Hx Hy.
  destruct (Nat.eqb c v) eqn:Ec; destruct (Nat.eqb x v) eqn:Ex; destruct (Nat.eqb y v) eqn:Ey; intros L1 L2; try lia.
  - apply Nat.eqb_eq in Ec. subst c. apply Nat.eqb_neq in Ex. apply Nat.eqb_neq in Ey.
    destruct Hx as [->|Hx]; [congruence|]. destruct Hy as [->|Hy]; [congruence|]. apply Hs; assumption.
  - apply Nat.eqb_neq in Ec. apply Nat.eqb_neq in Ex. apply Nat.eqb_neq in Ey.
    destruct Hc as [->|Hc]; [congruence|]. destruct Hx as [->|Hx]; [congruence|]. destruct Hy as [->|Hy]; [congruence|].
    apply IH; auto; lia.
Qed.
End Chordal.
