(* C08: completeness of the Meek closure on patterns for ALL sizes on the DAGs without v-structures: the pattern is the
   all-undirected skeleton, no rule fires, and NO edge is compelled — by the chordal orientation lemma every edge a -> b of the
   DAG is reversed in some member of the Markov equivalence class (a perfect elimination ordering with b last). *)
From Coq Require Import List Arith Bool Lia.
From PG Require Import Base.ListSet Base.Closure Graph.MGraph C08.Model C08.Spec C08.Proofs C08.Bounded_n4 C08.Cover C08.Fast
                       C08.Ext C08.ExtEss C08.Reflect C08.Chordal C08.ChordalOrient.
Import ListNotations.

(* ---------- acyclicb is complete: a graph that is acyclic (Prop) passes the boolean test ---------- *)
Lemma dpath_snoc8 d a y b : dpath d a y -> has_d d y b = true -> dpath d a b.
Proof.
  intros P H. induction P as [a y Hy|a x y Hx P IH].
  - eapply dp_cons; [exact Hy|apply dp_one; exact H].
  - eapply dp_cons; [exact Hx|apply IH; exact H].
Qed.

Lemma reach_dpath g v a : reach (children g) (children g v) a -> dpath g v a.
Proof.
  intros R. induction R as [a Ha|a b Ra IH Hb].
  - apply children_In in Ha. apply dp_one. tauto.
  - apply children_In in Hb. apply (dpath_snoc8 g v a b IH). tauto.
Qed.

Lemma acyclicb_complete g : acyclic g -> acyclicb g = true.
Proof.
  intros Hac. unfold acyclicb. apply forallb_forall. intros v _. apply negb_true_iff.
  destruct (reaches_plus g v v) eqn:E; [|reflexivity]. exfalso.
  unfold reaches_plus in E. apply memb_In in E. apply closure_sound in E; [|exact Nat.eqb_eq].
  apply (Hac v). apply reach_dpath. exact E.
Qed.

(* ---------- a source-rooted PEO ---------- *)
Lemma chordal_source_peo t u : pwf t -> chordal_g t -> In u (V t) ->
  exists l, NoDup l /\ (forall x, In x l <-> In x (V t)) /\ is_peo (has_u t) l /\
            (forall v, In v (V t) -> v <> u -> idx l v < idx l u).
Proof.
  intros Hwf (l & Hnd & Hel & Hp) Hu.
  destruct (peo_last (has_u t) (has_u_sym t) (u_irrefl t l Hwf Hel) (length l) l (le_n _) Hnd Hp u (proj2 (Hel u) Hu))
    as (l' & N' & E' & P').
  exists (l' ++ [u]). split; [exact N'|]. split; [intros x; rewrite E'; apply Hel|]. split; [exact P'|].
  intros v Hv Hne. apply idx_app_last.
  - pose proof (NoDup_remove_2 l' [] u N') as X. rewrite app_nil_r in X. exact X.
  - assert (X : In v (l' ++ [u])) by (apply E'; apply Hel; exact Hv). apply in_app_or in X.
    destruct X as [X|[X|[]]]; [exact X|congruence].
Qed.

(* ---------- a v-structure-free DAG with a topological order has a chordal skeleton ---------- *)
Definition vfree_g (d : mgraph) : Prop := forall a c b, vstructb d a c b = false.
(* l lists children before parents *)
Definition rev_topo (d : mgraph) (l : list nat) : Prop :=
  NoDup l /\ (forall x, In x l <-> In x (V d)) /\ forall a b, has_d d a b = true -> idx l b < idx l a.

Lemma peo_of_later (adj : nat -> nat -> bool) l : NoDup l ->
  (forall c x y, In c l -> In x l -> In y l -> idx l c < idx l x -> idx l c < idx l y ->
                 adj c x = true -> adj c y = true -> x <> y -> adj x y = true) -> is_peo adj l.
Proof.
  induction l as [|v t IH]; intros Hnd H; simpl; [exact I|].
  inversion Hnd as [|? ? Hv Hnd']; subst. split.
  - intros x y Hx Hy A1 A2 Hne. apply (H v x y); simpl; auto.
    + rewrite Nat.eqb_refl. destruct (Nat.eqb x v) eqn:E; [apply Nat.eqb_eq in E; subst; tauto|lia].
    + rewrite Nat.eqb_refl. destruct (Nat.eqb y v) eqn:E; [apply Nat.eqb_eq in E; subst; tauto|lia].
  - apply IH; [exact Hnd'|]. intros c x y Hc Hx Hy L1 L2. apply (H c x y); simpl; auto.
    + destruct (Nat.eqb c v) eqn:E1; [apply Nat.eqb_eq in E1; subst; tauto|].
      destruct (Nat.eqb x v) eqn:E2; [apply Nat.eqb_eq in E2; subst; tauto|lia].
    + destruct (Nat.eqb c v) eqn:E1; [apply Nat.eqb_eq in E1; subst; tauto|].
      destruct (Nat.eqb y v) eqn:E2; [apply Nat.eqb_eq in E2; subst; tauto|lia].
Qed.

Lemma filter_none {A} (f : A -> bool) l : (forall e, f e = false) -> filter f l = [].
Proof. intros H. induction l as [|e t IH]; simpl; [reflexivity|]. rewrite H. exact IH. Qed.
Lemma filter_all {A} (f : A -> bool) l : (forall e, f e = true) -> filter f l = l.
Proof. intros H. induction l as [|e t IH]; simpl; [reflexivity|]. rewrite H, IH. reflexivity. Qed.

Section VFree.
Variable d0 : mgraph.
Hypothesis Hwf : edges_ok (V d0) (D d0) = true.
Hypothesis HU : U d0 = [].
Hypothesis Hvf : vfree_g d0.
Variable l0 : list nat.
Hypothesis Htopo : rev_topo d0 l0.
Let sk := skeleton_of d0.

Lemma sk_has_u a b : has_u sk a b = has_d d0 a b || has_d d0 b a.
Proof. reflexivity. Qed.

Lemma sk_pwf : pwf sk.
Proof. split; [reflexivity|exact Hwf]. Qed.

Lemma d0_padj a b : padj d0 a b = has_u sk a b.
Proof. unfold padj. unfold has_u at 1. rewrite HU. simpl. rewrite orb_false_r. reflexivity. Qed.

Lemma sk_chordal : chordal_g sk.
Proof.
  destruct Htopo as (Hnd & Hel & Hord). exists l0. split; [exact Hnd|]. split; [exact Hel|].
  apply peo_of_later; [exact Hnd|]. intros c x y Hc Hx Hy L1 L2 A1 A2 Hne.
  rewrite sk_has_u in A1, A2. 
  assert (P1 : has_d d0 x c = true).
  { apply orb_true_iff in A1. destruct A1 as [A|A]; [apply Hord in A; lia|exact A]. }
  assert (P2 : has_d d0 y c = true).
  { apply orb_true_iff in A2. destruct A2 as [A|A]; [apply Hord in A; lia|exact A]. }
  pose proof (Hvf x c y) as X. unfold vstructb in X. rewrite P1, P2, (proj2 (Nat.eqb_neq x y) Hne) in X. simpl in X.
  apply negb_false_iff in X. rewrite d0_padj in X. exact X.
Qed.

(* every edge of d0 is reversed in some member of its Markov equivalence class *)
Lemma not_compelled a b : has_u sk a b = true -> compelled (meq_dags d0) a b = false.
Proof.
  intros Hab.
  assert (Hb : In b (V sk)).
  { pose proof sk_pwf as [_ W]. rewrite edges_ok_spec in W. unfold has_u in Hab. apply smemb_In in Hab.
    destruct Hab as [H|H]; apply W in H; tauto. }
  assert (Hne : a <> b).
  { pose proof sk_pwf as [_ W]. rewrite edges_ok_spec in W. unfold has_u in Hab. apply smemb_In in Hab.
    destruct Hab as [H|H]; apply W in H; intuition congruence. }
  assert (Ha : In a (V sk)).
  { pose proof sk_pwf as [_ W]. rewrite edges_ok_spec in W. unfold has_u in Hab. apply smemb_In in Hab.
    destruct Hab as [H|H]; apply W in H; tauto. }
  destruct (chordal_source_peo sk b sk_pwf sk_chordal Hb) as (l & Hnd & Hel & Hp & Hlast).
  set (x := peo_dag sk l).
  assert (HD : D sk = []) by reflexivity.
  assert (Hx : In x (meq_dags d0)).
  { unfold meq_dags. apply filter_In. split.
    - unfold candidates. apply in_map_iff. exists (orient_by l (udedup (U sk))). split; [reflexivity|].
      apply orient_by_orientation.
    - apply andb_true_iff. split.
      + apply acyclicb_complete. apply (d_acyclic sk l sk_pwf HD Hel).
      + unfold same_vstructs. apply forallb_forall. intros p _. apply forallb_forall. intros q _.
        apply forallb_forall. intros r _. rewrite Hvf. unfold x.
        rewrite (d_vfree sk l sk_pwf HD Hel Hp). reflexivity. }
  destruct (compelled (meq_dags d0) a b) eqn:E; [|reflexivity]. exfalso.
  unfold compelled in E. rewrite forallb_forall in E. specialize (E x Hx).
  apply (d_has_d sk l sk_pwf HD Hel) in E. destruct E as [_ L].
  specialize (Hlast a Ha Hne). lia.
Qed.

Lemma pattern_vfree : pattern_of d0 = MkG (V d0) [] [] (D d0) [].
Proof.
  unfold pattern_of.
  assert (F : forall e, in_vstruct d0 (fst e) (snd e) = false).
  { intros e. unfold in_vstruct. destruct (existsb _ _) eqn:E; [|reflexivity].
    apply existsb_exists in E. destruct E as [b [_ E]]. rewrite Hvf in E. discriminate. }
  f_equal.
  - apply filter_none. exact F.
  - apply filter_all. intros e. rewrite F. reflexivity.
Qed.

Lemma meek_no_directed g : D g = [] -> meek_model g = g.
Proof.
  intros HD. assert (NF : forall i j, fires g i j = false).
  { intros i j. unfold fires, r1, r2, r3, r4.
    assert (P : forall v, parents g v = []).
    { intros v. unfold parents. induction (V g) as [|a t IH]; simpl; [reflexivity|].
      unfold has_d at 1. rewrite HD. simpl. exact IH. }
    assert (C' : forall v, children g v = []).
    { intros v. unfold children. induction (V g) as [|a t IH]; simpl; [reflexivity|].
      unfold has_d at 1. rewrite HD. simpl. exact IH. }
    rewrite !P, C'. simpl. apply andb_false_r. }
  assert (S : sweep g = g).
  { unfold sweep. apply sweep_on_nofire. intros e _. apply NF. }
  unfold meek_model. simpl. rewrite S, Nat.eqb_refl. reflexivity.
Qed.

Lemma pdag_eqb_refl g : pdag_eqb g g = true.
Proof.
  unfold pdag_eqb. rewrite !andb_true_iff. repeat split.
  - apply seteqb_spec. split; apply incl_refl.
  - apply pincl_spec. auto.
  - apply pincl_spec. auto.
  - apply sincl_spec. intros a b H. apply smemb_In. auto.
  - apply sincl_spec. intros a b H. apply smemb_In. auto.
Qed.

Theorem complete_vfree : pdag_eqb (meek_model (pattern_of d0)) (essential_graph d0) = true.
Proof.
  rewrite pattern_vfree, meek_no_directed by reflexivity.
  assert (E : peq (essential_graph d0) (MkG (V d0) [] [] (D d0) [])).
  { rewrite essential_graph_ess_with. split; [reflexivity|]. split; intros a b.
    - rewrite ess_has_d. unfold has_d at 3. simpl.
      destruct (has_d d0 a b || has_d d0 b a) eqn:A; [|reflexivity].
      rewrite (not_compelled a b) by (rewrite sk_has_u; exact A). reflexivity.
    - rewrite ess_has_u. change (has_u (MkG (V d0) [] [] (D d0) []) a b) with (has_u sk a b). rewrite sk_has_u.
      destruct (has_d d0 a b || has_d d0 b a) eqn:A; [|reflexivity].
      rewrite (not_compelled a b) by (rewrite sk_has_u; exact A).
      rewrite (not_compelled b a) by (rewrite sk_has_u, orb_comm; exact A). reflexivity. }
  rewrite pdag_eqb_sym, (pdag_eqb_peq _ _ _ E). apply pdag_eqb_refl.
Qed.
End VFree.
