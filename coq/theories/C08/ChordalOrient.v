(* C08: from a perfect elimination ordering of an all-undirected PDAG t to a consistent DAG extension without v-structures
   (orientation "later in the PEO -> earlier"), and the KEY consequence: in a chordal undirected graph every edge u - v can
   be oriented u -> v (and v -> u) inside such an extension. *)
From Coq Require Import List Arith Bool Lia.
From PG Require Import Base.ListSet Graph.MGraph C08.Model C08.Spec C08.Proofs C08.Ext C08.ExtEss C08.Reflect C08.Chordal.
Import ListNotations.

(* chordal: the undirected layer has a perfect elimination ordering of the node set *)
Definition chordal_g (t : mgraph) : Prop :=
  exists l, NoDup l /\ (forall x, In x l <-> In x (V t)) /\ is_peo (has_u t) l.

Definition orient_by (l : list nat) (us : list (nat * nat)) : list (nat * nat) :=
  map (fun e => if Nat.ltb (idx l (snd e)) (idx l (fst e)) then e else (snd e, fst e)) us.

Definition peo_dag (t : mgraph) (l : list nat) : mgraph :=
  dir_graph (V t) (orient_by l (udedup (U t)) ++ D t).

Lemma orient_by_In l us x y :
  In (x, y) (orient_by l us) <->
  (In (x, y) us /\ idx l y < idx l x) \/ (In (y, x) us /\ ~ idx l x < idx l y).
Proof.
  unfold orient_by. rewrite in_map_iff. split.
  - intros [[p q] [E He]]. simpl in E. destruct (Nat.ltb (idx l q) (idx l p)) eqn:L.
    + inversion E; subst. apply Nat.ltb_lt in L. auto.
    + inversion E; subst. apply Nat.ltb_ge in L. right. split; [exact He|lia].
  - intros [[H L]|[H L]].
    + exists (x, y). simpl. apply Nat.ltb_lt in L. rewrite L. auto.
    + exists (y, x). simpl. destruct (Nat.ltb (idx l x) (idx l y)) eqn:L'; [apply Nat.ltb_lt in L'; tauto|auto].
Qed.

Lemma orient_by_orientation l us : In (orient_by l us) (orientations us).
Proof.
  induction us as [|[x y] t IH]; simpl; [left; reflexivity|].
  apply in_or_app. destruct (Nat.ltb (idx l y) (idx l x)); [left|right]; apply in_map; exact IH.
Qed.

Section PeoDag.
Variables (t : mgraph) (l : list nat).
Hypothesis Hwf : pwf t.
Hypothesis HD : D t = [].
Hypothesis Hnd : NoDup l.
Hypothesis Hel : forall x, In x l <-> In x (V t).
Hypothesis Hpeo : is_peo (has_u t) l.
Let d := peo_dag t l.

Lemma u_nodes a b : has_u t a b = true -> In a l /\ In b l /\ a <> b.
Proof.
  destruct Hwf as [_ HU]. rewrite edges_ok_spec in HU. intros H. unfold has_u in H. apply smemb_In in H.
  rewrite !Hel. destruct H as [H|H]; apply HU in H; intuition congruence.
Qed.

Lemma u_irrefl a : has_u t a a = false.
Proof. destruct (has_u t a a) eqn:E; [|reflexivity]. apply u_nodes in E. tauto. Qed.

Lemma d_has_d x y : has_d d x y = true <-> has_u t x y = true /\ idx l y < idx l x.
Proof.
  unfold has_d, d, peo_dag. simpl. rewrite HD, app_nil_r, pmemb_In, orient_by_In. split.
  - intros [[H L]|[H L]].
    + split; [|exact L]. unfold has_u. rewrite <- (smemb_udedup x y (U t)). apply smemb_In. auto.
    + assert (Hu : has_u t x y = true) by (unfold has_u; rewrite <- (smemb_udedup x y (U t)); apply smemb_In; auto).
      split; [exact Hu|]. destruct (u_nodes x y Hu) as (Hx & Hy & Hne).
      destruct (Nat.eq_dec (idx l x) (idx l y)) as [E|E]; [apply (idx_inj l x y Hx Hy) in E; tauto|lia].
  - intros [Hu L]. unfold has_u in Hu. rewrite <- (smemb_udedup x y (U t)) in Hu. apply smemb_In in Hu.
    destruct Hu as [H|H]; [left; auto|right; split; [exact H|lia]].
Qed.

Lemma d_rank a b : dpath d a b -> idx l b < idx l a.
Proof.
  intros P. induction P as [a b H|a b c H P IH]; apply d_has_d in H; lia.
Qed.

Lemma d_acyclic : acyclic d.
Proof. intros v P. apply d_rank in P. lia. Qed.

Lemma d_padj a b : padj d a b = padj t a b.
Proof.
  apply eq_true_iff_eq. rewrite !padj_true, !d_has_d.
  assert (E1 : has_d t a b = false) by (unfold has_d; rewrite HD; reflexivity).
  assert (E2 : has_d t b a = false) by (unfold has_d; rewrite HD; reflexivity).
  assert (E3 : has_u d a b = false) by reflexivity.
  rewrite E1, E2, E3, (has_u_sym t b a). split.
  - intros [[H _]|[[H _]|H]]; auto; discriminate.
  - intros [H|[H|H]]; try discriminate. destruct (u_nodes a b H) as (Ha & Hb & Hne).
    destruct (Nat.lt_trichotomy (idx l a) (idx l b)) as [L|[L|L]]; [right; left; auto| |left; auto].
    apply (idx_inj l a b Ha Hb) in L. tauto.
Qed.

Lemma d_vfree a c b : vstructb d a c b = false.
Proof.
  destruct (vstructb d a c b) eqn:X; [|reflexivity]. exfalso.
  unfold vstructb in X. rewrite !andb_true_iff, !negb_true_iff, Nat.eqb_neq in X.
  destruct X as [[[H1 H2] Hne] Hna]. apply d_has_d in H1. apply d_has_d in H2.
  destruct H1 as [U1 L1]. destruct H2 as [U2 L2].
  destruct (u_nodes a c U1) as (Ha & Hc & _). destruct (u_nodes b c U2) as (Hb & _ & _).
  assert (A : has_u t a b = true).
  { apply (peo_later (has_u t) l Hpeo c a b Hc Ha Hb L1 L2); [rewrite has_u_sym; exact U1|rewrite has_u_sym; exact U2|exact Hne]. }
  rewrite d_padj in Hna. unfold padj in Hna. rewrite A, !orb_true_r in Hna. discriminate.
Qed.

Lemma peo_dag_ext : consistent_ext t d.
Proof.
  unfold consistent_ext. split; [reflexivity|]. split; [exact d_acyclic|]. split; [split; apply incl_refl|].
  split; [exact d_padj|]. split; [rewrite HD; intros e []|].
  intros a c b. rewrite d_vfree. split; [discriminate|].
  unfold vstructb, has_d. rewrite HD. simpl. discriminate.
Qed.
End PeoDag.

(* the all-undirected chordal graph has a v-structure-free consistent extension ... *)
Theorem chordal_vext t : pwf t -> D t = [] -> chordal_g t ->
  exists d, consistent_ext t d /\ (forall a c b, vstructb d a c b = false).
Proof.
  intros Hwf HD (l & Hnd & Hel & Hp). exists (peo_dag t l). split.
  - apply peo_dag_ext; assumption.
  - apply d_vfree; assumption.
Qed.

(* ... and, for EVERY undirected edge u - v, one that contains u -> v: the first hand-orientation of the procedure
   "orient one edge, close under R1-R4, repeat" is always extendable *)
Theorem chordal_any_edge t u v : pwf t -> D t = [] -> chordal_g t -> has_u t u v = true ->
  exists d, consistent_ext (orient t u v) d /\ (forall a c b, vstructb d a c b = false).
Proof.
  intros Hwf HD (l & Hnd & Hel & Hp) Huv.
  destruct (u_nodes t l Hwf Hel u v Huv) as (Hu & Hv & Hne).
  destruct (peo_last (has_u t) (has_u_sym t) (u_irrefl t l Hwf Hel) (length l) l (le_n _) Hnd Hp u Hu) as (l' & N' & E' & P').
  assert (Hel' : forall x, In x (l' ++ [u]) <-> In x (V t)) by (intros x; rewrite E'; apply Hel).
  set (d := peo_dag t (l' ++ [u])).
  assert (Hext : consistent_ext t d) by (apply peo_dag_ext; assumption).
  assert (Hvf : forall a c b, vstructb d a c b = false) by (apply d_vfree; assumption).
  assert (Huvd : has_d d u v = true).
  { apply (d_has_d t (l' ++ [u]) Hwf HD Hel'). split; [exact Huv|].
    apply idx_app_last.
    - pose proof (NoDup_remove_2 l' [] u N') as X. rewrite app_nil_r in X. exact X.
    - assert (X : In v (l' ++ [u])) by (apply E'; exact Hv). apply in_app_or in X.
      destruct X as [X|[X|[]]]; [exact X|congruence]. }
  exists d. split; [|exact Hvf].
  destruct Hext as (H1 & H2 & H3 & H4 & H5 & H6).
  unfold consistent_ext. split; [exact H1|]. split; [exact H2|]. split; [exact H3|]. split; [|split].
  - intros a b. rewrite H4. symmetry. apply orient_padj. exact Huv.
  - intros e [<-|He]; [apply pmemb_In; exact Huvd|apply H5; exact He].
  - intros a c b. rewrite Hvf. split; [discriminate|].
    unfold vstructb. rewrite !has_d_orient. unfold has_d. rewrite HD. simpl. rewrite !orb_false_r.
    destruct (pair_eqb (a, c) (u, v)) eqn:E1; [|discriminate].
    destruct (pair_eqb (b, c) (u, v)) eqn:E2; [|discriminate].
    apply pair_eqb_eq in E1. apply pair_eqb_eq in E2. inversion E1; inversion E2; subst.
    rewrite Nat.eqb_refl. discriminate.
Qed.
