(* C08: coverage of the enumeration all_dags n: every well-formed DAG on the nodes 0..n-1 is, as a set of directed edges,
   a member of all_dags n (its canonical listing), and the bounded completeness theorem restated over arbitrary DAGs
   through that canonical listing. *)
From Coq Require Import List Arith Bool Lia.
From PG Require Import Base.ListSet Base.Closure Graph.MGraph C08.Model C08.Spec C08.Bounded_n4 C08.Acyclic.
Import ListNotations.

Lemma upairs_seq_In n : forall s a b, In (a, b) (upairs (seq s n)) <-> s <= a /\ a < b /\ b < s + n.
Proof.
  induction n as [|n IH]; intros s a b; simpl; [lia|].
  rewrite in_app_iff, in_map_iff, IH. split.
  - intros [[y [E Hy]]|H]; [inversion E; subst; apply in_seq in Hy; lia|lia].
  - intros H. destruct (Nat.eq_dec a s) as [->|Hne].
    + left. exists b. split; [reflexivity|apply in_seq; lia].
    + right. lia.
Qed.

Lemma upairs_nodes_In n a b : In (a, b) (upairs (nodes n)) <-> a < b /\ b < n.
Proof. unfold nodes. rewrite upairs_seq_In. lia. Qed.

(* canonical listing of an edge set E over the unordered pairs ps: per pair the direction E has (if any) *)
Definition pick (E : list (nat * nat)) (e : nat * nat) : list (nat * nat) :=
  if pmemb e E then [e] else if pmemb (snd e, fst e) E then [(snd e, fst e)] else [].

Definition canon_edges (n : nat) (E : list (nat * nat)) : list (nat * nat) := flat_map (pick E) (upairs (nodes n)).
Definition canon_dag (n : nat) (E : list (nat * nat)) : mgraph := dir_graph (nodes n) (canon_edges n E).

Lemma pick_in_enum E ps : In (flat_map (pick E) ps) (dir_choices ps).
Proof.
  induction ps as [|[a b] t IH]; simpl; [left; reflexivity|]. unfold pick at 1. simpl.
  apply in_or_app. destruct (pmemb (a, b) E).
  - right. apply in_or_app. left. simpl. apply in_map. exact IH.
  - destruct (pmemb (b, a) E).
    + right. apply in_or_app. right. simpl. apply in_map. exact IH.
    + left. exact IH.
Qed.

Lemma pick_set_eq E ps :
  (forall a b, In (a, b) E -> In (a, b) ps \/ In (b, a) ps) ->
  (forall a b, In (a, b) E -> ~ In (b, a) E) ->
  set_eq E (flat_map (pick E) ps).
Proof.
  intros Hcov Hanti. split.
  - intros [a b] H. apply in_flat_map. destruct (Hcov a b H) as [Hp|Hp].
    + exists (a, b). split; [exact Hp|]. unfold pick. apply pmemb_In in H. rewrite H. left; reflexivity.
    + exists (b, a). split; [exact Hp|]. unfold pick.
      destruct (pmemb (b, a) E) eqn:E1; [apply pmemb_In in E1; destruct (Hanti a b H E1)|].
      simpl. apply pmemb_In in H. rewrite H. left; reflexivity.
  - intros x H. apply in_flat_map in H. destruct H as [e [_ H]]. unfold pick in H.
    destruct (pmemb e E) eqn:E1.
    + destruct H as [<-|[]]. apply pmemb_In. exact E1.
    + destruct (pmemb (snd e, fst e) E) eqn:E2; [|destruct H]. destruct H as [<-|[]]. apply pmemb_In. exact E2.
Qed.

(* for EVERY edge list E: the canonical DAG is enumerated as soon as it is acyclic *)
Lemma canon_dag_enum n E : acyclicb (canon_dag n E) = true -> In (canon_dag n E) (all_dags n).
Proof.
  intros H. unfold all_dags. apply filter_In. split; [|exact H].
  unfold canon_dag, canon_edges. apply in_map. apply pick_in_enum.
Qed.

(* ---- acyclicb depends on the directed layer only as a set ---- *)
Lemma iter_ext {A} (eqb : A -> A -> bool) (s s' : A -> list A) : (forall x, s x = s' x) ->
  forall n acc, iter A eqb s n acc = iter A eqb s' n acc.
Proof.
  intros H. induction n as [|n IH]; intros acc; simpl; [reflexivity|].
  unfold round. rewrite (flat_map_ext s s' H). apply IH.
Qed.

Lemma closure_ext {A} (eqb : A -> A -> bool) (s s' : A -> list A) init fuel :
  (forall x, s x = s' x) -> closure eqb s init fuel = closure eqb s' init fuel.
Proof. intros H. unfold closure. apply iter_ext. exact H. Qed.

Lemma forallb_ext' {A} (f g : A -> bool) l : (forall x, f x = g x) -> forallb f l = forallb g l.
Proof. intros H. induction l as [|a l IH]; simpl; [reflexivity|]. rewrite H, IH. reflexivity. Qed.

Lemma acyclicb_ext g g' : V g = V g' -> (forall a b, has_d g a b = has_d g' a b) -> acyclicb g = acyclicb g'.
Proof.
  intros HV Hd.
  assert (Hc : forall v, children g v = children g' v).
  { intros v. unfold children. rewrite HV. apply filter_ext. intros a. apply Hd. }
  unfold acyclicb. rewrite HV. apply forallb_ext'. intros v. unfold reaches_plus.
  rewrite HV, (Hc v). f_equal. f_equal. apply closure_ext. exact Hc.
Qed.

Lemma has_d_set_eq g g' : set_eq (D g) (D g') -> forall a b, has_d g a b = has_d g' a b.
Proof.
  intros [H1 H2] a b. apply eq_true_iff_eq. unfold has_d. rewrite !pmemb_In. split; [apply H1|apply H2].
Qed.

(* every well-formed DAG on 0..n-1: its canonical listing has the same nodes, the same directed edges as a set, and is a
   member of the enumeration *)
Theorem all_dags_cover n d :
  V d = nodes n -> wfb d = true -> acyclicb d = true ->
  let c := canon_dag n (D d) in
  V c = V d /\ set_eq (D d) (D c) /\ In c (all_dags n).
Proof.
  intros HV Hwf Hac c.
  assert (Hend : forall a b, In (a, b) (D d) -> In a (V d) /\ In b (V d) /\ a <> b).
  { unfold wfb in Hwf. rewrite !andb_true_iff in Hwf. destruct Hwf as [[[H _] _] _].
    apply edges_ok_spec. exact H. }
  assert (Hacp : acyclic d).
  { apply acyclicb_sound; [|exact Hac]. intros x y H. apply pmemb_In in H. apply Hend in H. tauto. }
  assert (Hs : set_eq (D d) (D c)).
  { unfold c, canon_dag, canon_edges. simpl. apply pick_set_eq.
    - intros a b H. apply Hend in H. rewrite HV in H. unfold nodes in H. rewrite !in_seq in H.
      rewrite !upairs_nodes_In. lia.
    - intros a b H1 H2. apply (Hacp a). eapply dp_cons; [apply pmemb_In; exact H1|].
      apply dp_one. apply pmemb_In. exact H2. }
  split; [symmetry; exact HV|]. split; [exact Hs|].
  apply canon_dag_enum. rewrite <- Hac. symmetry. apply acyclicb_ext; [exact HV|].
  apply has_d_set_eq. exact Hs.
Qed.

(* the bounded completeness theorem over arbitrary edge lists / arbitrary DAGs, through the canonical listing *)
Theorem meek_complete_canon_4 n E : n <= 4 -> acyclicb (canon_dag n E) = true ->
  pdag_eqb (meek_model (pattern_of (canon_dag n E))) (essential_graph (canon_dag n E)) = true.
Proof.
  intros Hn Hac. apply (meek_complete_on_patterns_bounded_4_proof n); [exact Hn|apply canon_dag_enum; exact Hac].
Qed.

Theorem meek_complete_all_dags_4 n d : n <= 4 -> V d = nodes n -> wfb d = true -> acyclicb d = true ->
  let c := canon_dag n (D d) in
  V c = V d /\ set_eq (D d) (D c) /\
  pdag_eqb (meek_model (pattern_of c)) (essential_graph c) = true.
Proof.
  intros Hn HV Hwf Hac c. destruct (all_dags_cover n d HV Hwf Hac) as (H1 & H2 & H3).
  split; [exact H1|]. split; [exact H2|].
  apply (meek_complete_on_patterns_bounded_4_proof n); assumption.
Qed.
