(* C08: the n <= 5 completeness theorem over every well-formed DAG on 0..n-1, through the canonical listing (Cover.v). *)
From Coq Require Import List Arith Bool Lia.
From PG Require Import Base.ListSet Graph.MGraph C08.Model C08.Spec C08.Bounded_n4 C08.Cover C08.Bounded_n5.
Import ListNotations.

Theorem meek_complete_all_dags_5 n d : n <= 5 -> V d = nodes n -> wfb d = true -> acyclicb d = true ->
  let c := canon_dag n (D d) in
  V c = V d /\ set_eq (D d) (D c) /\
  pdag_eqb (meek_model (pattern_of c)) (essential_graph c) = true.
Proof.
  intros Hn HV Hwf Hac c. destruct (all_dags_cover n d HV Hwf Hac) as (H1 & H2 & H3).
  split; [exact H1|]. split; [exact H2|].
  apply (meek_complete_on_patterns_bounded_5_proof n); assumption.
Qed.
