(* C08: graph extensionality of the model side: pattern_of and meek_model depend on a graph only through its node list and
   the relations has_d / has_u, so the bounded completeness theorem speaks about the closure of the pattern built from the
   DAG's OWN edge lists (the oracle essential_graph is evaluated on the canonical listing of the same DAG). *)
From Coq Require Import List Arith Bool Lia.
From PG Require Import Base.ListSet Graph.MGraph C08.Model C08.Spec C08.Proofs C08.Bounded_n4 C08.Cover C08.Bounded_n5 C08.Cover5.
Import ListNotations.

Definition peq (g h : mgraph) : Prop :=
  V g = V h /\ (forall a b, has_d g a b = has_d h a b) /\ (forall a b, has_u g a b = has_u h a b).

Lemma peq_refl g : peq g g.
Proof. repeat split. Qed.
Lemma peq_sym g h : peq g h -> peq h g.
Proof. intros (H1 & H2 & H3). repeat split; auto. Qed.
Lemma peq_trans g h k : peq g h -> peq h k -> peq g k.
Proof. intros (H1 & H2 & H3) (K1 & K2 & K3). repeat split; intros; congruence. Qed.

Lemma existsb_ext' {A} (f g : A -> bool) l : (forall x, f x = g x) -> existsb f l = existsb g l.
Proof. intros H. induction l as [|a l IH]; simpl; [reflexivity|]. rewrite H, IH. reflexivity. Qed.

Section RuleExt.
Variables g h : mgraph.
Hypothesis E : peq g h.
Let HV : V g = V h := proj1 E.
Let Hd : forall a b, has_d g a b = has_d h a b := proj1 (proj2 E).
Let Hu : forall a b, has_u g a b = has_u h a b := proj2 (proj2 E).

Lemma padj_ext a b : padj g a b = padj h a b.
Proof. unfold padj. rewrite !Hd, Hu. reflexivity. Qed.
Lemma parents_ext v : parents g v = parents h v.
Proof. unfold parents. rewrite HV. apply filter_ext. intros a. apply Hd. Qed.
Lemma children_ext v : children g v = children h v.
Proof. unfold children. rewrite HV. apply filter_ext. intros a. apply Hd. Qed.

Lemma fires_ext i j : fires g i j = fires h i j.
Proof.
  unfold fires, r1, r2, r3, r4. rewrite Hu, !parents_ext, children_ext. f_equal. f_equal; [f_equal; [f_equal|]|].
  - apply existsb_ext'. intros k. rewrite padj_ext. reflexivity.
  - apply existsb_ext'. intros k. apply Hd.
  - apply existsb_ext'. intros k. rewrite Hu. f_equal.
    apply existsb_ext'. intros l. rewrite Hu, padj_ext. reflexivity.
  - apply existsb_ext'. intros l. rewrite padj_ext, parents_ext. f_equal.
    apply existsb_ext'. intros k. rewrite Hu, padj_ext. reflexivity.
Qed.

Lemma orient_ext i j : peq (orient g i j) (orient h i j).
Proof.
  split; [exact HV|]. split.
  - intros a b. rewrite !has_d_orient, Hd. reflexivity.
  - intros a b. apply eq_true_iff_eq. rewrite !has_u_orient, Hu. tauto.
Qed.

Lemma vstructb_ext a c b : vstructb g a c b = vstructb h a c b.
Proof. unfold vstructb. rewrite !Hd, padj_ext. reflexivity. Qed.
Lemma in_vstruct_ext a c : in_vstruct g a c = in_vstruct h a c.
Proof. unfold in_vstruct. rewrite HV. apply existsb_ext'. intros b. apply vstructb_ext. Qed.
End RuleExt.

Lemma step1_ext g h e : peq g h -> peq (step1 g e) (step1 h e).
Proof.
  intros E. unfold step1. rewrite (fires_ext g h E). destruct (fires h (fst e) (snd e)); [apply orient_ext|]; exact E.
Qed.

Lemma sweep_on_ext ps : forall g h, peq g h -> peq (sweep_on ps g) (sweep_on ps h).
Proof. induction ps as [|e t IH]; intros g h E; simpl; [exact E|apply IH, step1_ext, E]. Qed.

Lemma sweep_ext g h : peq g h -> peq (sweep g) (sweep h).
Proof. intros E. unfold sweep. rewrite (proj1 E). apply sweep_on_ext. exact E. Qed.

(* the loop test "the sweep removed no undirected edge" is "no rule fires on any pair" *)
Definition nofire (g : mgraph) : bool := forallb (fun e => negb (fires g (fst e) (snd e))) (all_pairs (V g)).

Lemma sweep_on_nofire ps : forall g, (forall e, In e ps -> fires g (fst e) (snd e) = false) -> sweep_on ps g = g.
Proof.
  induction ps as [|e t IH]; intros g H; simpl; [reflexivity|].
  unfold step1. rewrite (H e (or_introl eq_refl)). apply IH. intros e' He'. apply H. right. exact He'.
Qed.

Lemma loop_test g : Nat.eqb (length (U (sweep g))) (length (U g)) = nofire g.
Proof.
  apply eq_true_iff_eq. unfold nofire. rewrite Nat.eqb_eq, forallb_forall. split.
  - intros H e He. apply negb_true_iff. apply (proj2 (sweep_on_fix _ _ H) e He).
  - intros H. unfold sweep. rewrite sweep_on_nofire; [reflexivity|].
    intros e He. apply negb_true_iff. apply H. exact He.
Qed.

Lemma nofire_ext g h : peq g h -> nofire g = nofire h.
Proof.
  intros E. unfold nofire. rewrite (proj1 E). apply forallb_ext'. intros e. rewrite (fires_ext g h E). reflexivity.
Qed.

Lemma meek_loop_ext f : forall f' g h, length (U g) < f -> length (U h) < f' -> peq g h ->
  peq (meek_loop f g) (meek_loop f' h).
Proof.
  induction f as [|f IH]; intros f' g h Hg Hh E; [lia|]. destruct f' as [|f']; [lia|]. simpl.
  rewrite !loop_test, (nofire_ext g h E).
  destruct (nofire h) eqn:T; [apply sweep_ext; exact E|].
  assert (Tg : Nat.eqb (length (U (sweep g))) (length (U g)) = false) by (rewrite loop_test, (nofire_ext g h E); exact T).
  assert (Th : Nat.eqb (length (U (sweep h))) (length (U h)) = false) by (rewrite loop_test; exact T).
  apply Nat.eqb_neq in Tg. apply Nat.eqb_neq in Th.
  pose proof (sweep_on_len (all_pairs (V g)) g) as Lg. pose proof (sweep_on_len (all_pairs (V h)) h) as Lh.
  unfold sweep in *. apply IH; [lia|lia|]. apply (sweep_ext g h E).
Qed.

Theorem meek_model_ext g h : peq g h -> peq (meek_model g) (meek_model h).
Proof. intros E. unfold meek_model. apply meek_loop_ext; [lia|lia|exact E]. Qed.

Lemma pmemb_filter f e l : pmemb e (filter f l) = pmemb e l && f e.
Proof.
  apply eq_true_iff_eq. rewrite andb_true_iff, !pmemb_In, filter_In. tauto.
Qed.

Theorem pattern_of_ext d c : peq d c -> peq (pattern_of d) (pattern_of c).
Proof.
  intros E. destruct E as (HV & Hd & Hu). assert (E : peq d c) by (repeat split; assumption).
  split; [exact HV|]. split.
  - intros a b. unfold has_d at 1 2. unfold pattern_of. cbn [D]. rewrite !pmemb_filter. cbn [fst snd].
    fold (has_d d a b). fold (has_d c a b). rewrite Hd, (in_vstruct_ext d c E). reflexivity.
  - intros a b. unfold has_u at 1 2. unfold pattern_of, smemb. cbn [U]. rewrite !pmemb_filter. cbn [fst snd].
    fold (has_d d a b). fold (has_d c a b). fold (has_d d b a). fold (has_d c b a).
    rewrite !Hd, !(in_vstruct_ext d c E). reflexivity.
Qed.

(* pdag_eqb compares through has_d / has_u only *)
Lemma pincl_spec l m : pincl l m = true <-> forall a b, In (a, b) l -> In (a, b) m.
Proof.
  unfold pincl. rewrite forallb_forall. split.
  - intros H a b Hab. apply pmemb_In. apply (H (a, b) Hab).
  - intros H [a b] Hab. apply pmemb_In. apply H. exact Hab.
Qed.
Lemma sincl_spec l m : sincl l m = true <-> forall a b, In (a, b) l -> smemb a b m = true.
Proof.
  unfold sincl. rewrite forallb_forall. split.
  - intros H a b Hab. apply (H (a, b) Hab).
  - intros H [a b] Hab. apply H. exact Hab.
Qed.

Lemma pdag_eqb_peq g g' h : peq g g' -> pdag_eqb g h = pdag_eqb g' h.
Proof.
  intros (HV & Hd & Hu). unfold pdag_eqb. rewrite HV.
  assert (D1 : pincl (D g) (D h) = pincl (D g') (D h)).
  { apply eq_true_iff_eq. rewrite !pincl_spec. split; intros H a b Hab; apply H; apply pmemb_In;
      [rewrite <- pmemb_In in Hab; fold (has_d g' a b) in Hab; fold (has_d g a b); rewrite Hd; exact Hab
      |rewrite <- pmemb_In in Hab; fold (has_d g a b) in Hab; fold (has_d g' a b); rewrite <- Hd; exact Hab]. }
  assert (D2 : pincl (D h) (D g) = pincl (D h) (D g')).
  { apply eq_true_iff_eq. rewrite !pincl_spec. split; intros H a b Hab; apply H in Hab; apply pmemb_In;
      apply pmemb_In in Hab; [fold (has_d g a b) in Hab; fold (has_d g' a b); rewrite <- Hd; exact Hab
      |fold (has_d g' a b) in Hab; fold (has_d g a b); rewrite Hd; exact Hab]. }
  assert (U1 : sincl (U g) (U h) = sincl (U g') (U h)).
  { apply eq_true_iff_eq. rewrite !sincl_spec. split; intros H a b Hab.
    - assert (X : has_u g a b = true) by (rewrite Hu; apply smemb_In; auto).
      apply smemb_In in X. destruct X as [X|X]; [apply H; exact X|rewrite smemb_sym; apply H; exact X].
    - assert (X : has_u g' a b = true) by (rewrite <- Hu; apply smemb_In; auto).
      apply smemb_In in X. destruct X as [X|X]; [apply H; exact X|rewrite smemb_sym; apply H; exact X]. }
  assert (U2 : sincl (U h) (U g) = sincl (U h) (U g')).
  { apply eq_true_iff_eq. rewrite !sincl_spec. split; intros H a b Hab; apply H in Hab;
      [fold (has_u g a b) in Hab; fold (has_u g' a b); rewrite <- Hu; exact Hab
      |fold (has_u g' a b) in Hab; fold (has_u g a b); rewrite Hu; exact Hab]. }
  rewrite D1, D2, U1, U2. reflexivity.
Qed.

(* EVERY well-formed DAG d on 0..n-1, n <= 5, with its OWN edge lists on the model side: the Meek closure of the pattern of
   d equals the essential graph (oracle evaluated on the canonical listing c of d: same nodes, set-equal directed edges) *)
Theorem meek_complete_own_lists_5 n d : n <= 5 -> V d = nodes n -> wfb d = true -> acyclicb d = true ->
  B d = [] -> U d = [] -> C d = [] ->
  let c := canon_dag n (D d) in
  V c = V d /\ set_eq (D d) (D c) /\
  pdag_eqb (meek_model (pattern_of d)) (essential_graph c) = true.
Proof.
  intros Hn HV Hwf Hac HB HU HC c. destruct (meek_complete_all_dags_5 n d Hn HV Hwf Hac) as (H1 & H2 & H3).
  fold c in H1, H2, H3. split; [exact H1|]. split; [exact H2|].
  assert (E : peq d c).
  { split; [symmetry; exact H1|]. split; [apply has_d_set_eq; exact H2|].
    intros a b. unfold has_u. rewrite HU. reflexivity. }
  rewrite (pdag_eqb_peq _ _ _ (meek_model_ext _ _ (pattern_of_ext d c E))). exact H3.
Qed.
