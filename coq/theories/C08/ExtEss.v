(* C08: graph extensionality of the oracle side: essential_graph depends on the DAG only through its node list and has_d
   (although it enumerates orientations of the LISTED edges), so the bounded completeness theorem holds for every
   well-formed DAG on 0..n-1 with its own edge lists. *)
From Coq Require Import List Arith Bool Lia.
From PG Require Import Base.ListSet Graph.MGraph C08.Model C08.Spec C08.Proofs C08.Bounded_n4 C08.Cover C08.Fast C08.Bounded_n5
                       C08.Cover5 C08.Ext.
Import ListNotations.

Lemma smemb_udedup a b l : smemb a b (udedup l) = smemb a b l.
Proof.
  induction l as [|e t IH]; simpl; [reflexivity|].
  assert (IH' : In (a, b) (udedup t) \/ In (b, a) (udedup t) <-> In (a, b) t \/ In (b, a) t).
  { rewrite <- !smemb_In, IH. tauto. }
  destruct (smemb (fst e) (snd e) t) eqn:E.
  - apply eq_true_iff_eq. rewrite !smemb_In. simpl. split; [tauto|].
    apply smemb_In in E. destruct e as [x y]. simpl in E.
    intros [[H|H]|[H|H]]; try tauto; inversion H; subst; tauto.
  - apply eq_true_iff_eq. rewrite !smemb_In. simpl. tauto.
Qed.

Fixpoint undb (l : list (nat * nat)) : bool :=
  match l with [] => true | e :: t => negb (smemb (fst e) (snd e) t) && undb t end.

Lemma undb_udedup l : undb (udedup l) = true.
Proof.
  induction l as [|e t IH]; simpl; [reflexivity|].
  destruct (smemb (fst e) (snd e) t) eqn:E; [exact IH|]. simpl. rewrite smemb_udedup, E, IH. reflexivity.
Qed.

(* what an orientation of l is, as a set *)
Lemma orient_O1 l : forall o a b, In o (orientations l) -> In (a, b) o -> smemb a b l = true.
Proof.
  induction l as [|[x y] t IH]; intros o a b Ho Hab; simpl in Ho.
  - destruct Ho as [<-|[]]. destruct Hab.
  - apply in_app_or in Ho. destruct Ho as [Ho|Ho]; apply in_map_iff in Ho; destruct Ho as [o' [<- Ho']];
      destruct Hab as [E|Hab]; try (inversion E; subst; apply smemb_In; simpl; auto);
      specialize (IH o' a b Ho' Hab); apply smemb_In in IH; apply smemb_In; simpl; tauto.
Qed.

Lemma orient_O2 l : forall o a b, In o (orientations l) -> smemb a b l = true -> In (a, b) o \/ In (b, a) o.
Proof.
  induction l as [|[x y] t IH]; intros o a b Ho Hab; simpl in Ho.
  - discriminate.
  - apply smemb_In in Hab. simpl in Hab.
    apply in_app_or in Ho. destruct Ho as [Ho|Ho]; apply in_map_iff in Ho; destruct Ho as [o' [<- Ho']]; simpl;
      destruct Hab as [[E|H]|[E|H]]; try (inversion E; subst; auto; fail);
      destruct (IH o' a b Ho') as [X|X]; try (apply smemb_In; auto); auto.
Qed.

Lemma orient_O3 l : undb l = true -> forall o a b, In o (orientations l) -> In (a, b) o -> In (b, a) o -> a = b.
Proof.
  induction l as [|[x y] t IH]; intros Hu o a b Ho H1 H2; simpl in Ho.
  - destruct Ho as [<-|[]]. destruct H1.
  - simpl in Hu. apply andb_true_iff in Hu. destruct Hu as [Hn Hu]. apply negb_true_iff in Hn.
    assert (T : forall o' p q, In o' (orientations t) -> In (p, q) o' -> (p, q) <> (x, y) /\ (p, q) <> (y, x)).
    { intros o' p q Ho' Hpq. pose proof (orient_O1 t o' p q Ho' Hpq) as S.
      split; intros E; inversion E; subst; [congruence|rewrite smemb_sym in S; congruence]. }
    apply in_app_or in Ho. destruct Ho as [Ho|Ho]; apply in_map_iff in Ho; destruct Ho as [o' [<- Ho']];
      destruct H1 as [E1|H1]; destruct H2 as [E2|H2];
      try (inversion E1; subst); try (inversion E2; subst); try reflexivity;
      try (exfalso; match goal with
                    | H : In (_, _) o' |- _ => destruct (T o' _ _ Ho' H) as [N1 N2]; congruence
                    end).
    all: apply (IH Hu o' a b Ho' H1 H2).
Qed.

Definition flipto (o l' : list (nat * nat)) : list (nat * nat) :=
  map (fun e => if pmemb e o then e else (snd e, fst e)) l'.

Lemma flipto_orient o l' : In (flipto o l') (orientations l').
Proof.
  induction l' as [|[x y] t IH]; simpl; [left; reflexivity|].
  apply in_or_app. destruct (pmemb (x, y) o); [left|right]; apply in_map; exact IH.
Qed.

Lemma flipto_In l l' o : (forall a b, smemb a b l = smemb a b l') -> undb l = true -> In o (orientations l) ->
  forall a b, In (a, b) (flipto o l') <-> In (a, b) o.
Proof.
  intros Hs Hu Ho a b. unfold flipto. rewrite in_map_iff. split.
  - intros [[x y] [E He]]. destruct (pmemb (x, y) o) eqn:P.
    + inversion E; subst. apply pmemb_In. exact P.
    + simpl in E. inversion E; subst.
      assert (S : smemb b a l = true) by (rewrite Hs; apply smemb_In; auto).
      destruct (orient_O2 l o b a Ho S) as [X|X]; [|exact X]. apply pmemb_In in X. congruence.
  - intros H. pose proof (orient_O1 l o a b Ho H) as S. rewrite Hs in S. apply smemb_In in S.
    destruct S as [S|S].
    + exists (a, b). split; [|exact S]. apply pmemb_In in H. rewrite H. reflexivity.
    + exists (b, a). split; [|exact S]. destruct (pmemb (b, a) o) eqn:P; [|reflexivity].
      apply pmemb_In in P. rewrite (orient_O3 l Hu o a b Ho H P). reflexivity.
Qed.

Lemma same_vstructs_ext p p' q q' : peq p p' -> peq q q' -> same_vstructs p q = same_vstructs p' q'.
Proof.
  intros E1 E2. unfold same_vstructs. rewrite (proj1 E1).
  apply forallb_ext'. intros a. apply forallb_ext'. intros c. apply forallb_ext'. intros b.
  rewrite (vstructb_ext p p' E1), (vstructb_ext q q' E2). reflexivity.
Qed.

(* one direction; the other follows by symmetry of peq *)
Lemma compelled_le d c a b : peq d c ->
  compelled (meq_dags c) a b = true -> compelled (meq_dags d) a b = true.
Proof.
  intros E H. unfold compelled in *. rewrite forallb_forall in *. intros x Hx.
  unfold meq_dags, candidates, skeleton_of in Hx. simpl in Hx.
  apply filter_In in Hx. destruct Hx as [Hx Hf]. apply in_map_iff in Hx. destruct Hx as [o [<- Ho]].
  apply andb_true_iff in Hf. destruct Hf as [Ha Hv].
  set (l := udedup (D d)) in *. set (l' := udedup (D c)).
  assert (Hs : forall p q, smemb p q l = smemb p q l').
  { intros p q. unfold l, l'. rewrite !smemb_udedup. unfold smemb.
    fold (has_d d p q) (has_d d q p) (has_d c p q) (has_d c q p). rewrite !(proj1 (proj2 E)). reflexivity. }
  set (y := dir_graph (V c) (flipto o l' ++ [])).
  assert (Exy : peq (dir_graph (V d) (o ++ [])) y).
  { split; [exact (proj1 E)|]. split; [|reflexivity].
    intros p q. apply eq_true_iff_eq. unfold has_d, y. simpl. rewrite !app_nil_r, !pmemb_In.
    symmetry. apply (flipto_In l l' o Hs (undb_udedup (D d)) Ho). }
  assert (Hy : In y (meq_dags c)).
  { unfold meq_dags, candidates, skeleton_of. simpl. apply filter_In. split.
    - apply in_map_iff. exists (flipto o l'). split; [reflexivity|apply flipto_orient].
    - rewrite <- (acyclicb_ext _ _ (proj1 Exy) (proj1 (proj2 Exy))), Ha. simpl.
      rewrite <- (same_vstructs_ext d c _ _ E Exy). exact Hv. }
  specialize (H y Hy). rewrite (proj1 (proj2 Exy)). exact H.
Qed.

Lemma compelled_ext d c a b : peq d c -> compelled (meq_dags d) a b = compelled (meq_dags c) a b.
Proof.
  intros E. apply eq_true_iff_eq. split; apply compelled_le; [apply peq_sym|]; exact E.
Qed.

(* the edge relations of the essential graph *)
Lemma ess_has_d cls d a b :
  has_d (ess_with cls d) a b = (has_d d a b || has_d d b a) && compelled cls a b.
Proof.
  apply eq_true_iff_eq. unfold has_d at 1. unfold ess_with. cbn [D].
  rewrite pmemb_In, in_app_iff, filter_In, in_map_iff, andb_true_iff, orb_true_iff. cbn [fst snd].
  assert (S : In (a, b) (udedup (D d)) \/ In (b, a) (udedup (D d)) <-> has_d d a b = true \/ has_d d b a = true).
  { rewrite <- smemb_In, smemb_udedup. unfold smemb, has_d. rewrite orb_true_iff. tauto. }
  split.
  - intros [[H1 H2]|[[x y] [Exy Hf]]]; [tauto|]. apply filter_In in Hf. cbn [fst snd] in *.
    inversion Exy; subst. tauto.
  - intros [H1 H2]. apply S in H1. destruct H1 as [H1|H1]; [left; tauto|].
    right. exists (b, a). split; [reflexivity|]. apply filter_In. cbn [fst snd]. tauto.
Qed.

Lemma ess_has_u cls d a b :
  has_u (ess_with cls d) a b =
  (has_d d a b || has_d d b a) && (negb (compelled cls a b) && negb (compelled cls b a)).
Proof.
  apply eq_true_iff_eq. unfold has_u at 1. unfold ess_with. cbn [U].
  rewrite smemb_In, !filter_In, !andb_true_iff, orb_true_iff. cbn [fst snd].
  assert (S : In (a, b) (udedup (D d)) \/ In (b, a) (udedup (D d)) <-> has_d d a b = true \/ has_d d b a = true).
  { rewrite <- smemb_In, smemb_udedup. unfold smemb, has_d. rewrite orb_true_iff. tauto. }
  tauto.
Qed.

Theorem essential_graph_ext d c : peq d c -> peq (essential_graph d) (essential_graph c).
Proof.
  intros E. rewrite !essential_graph_ess_with. split; [exact (proj1 E)|]. split; intros a b.
  - rewrite !ess_has_d, !(proj1 (proj2 E)), (compelled_ext d c a b E). reflexivity.
  - rewrite !ess_has_u, !(proj1 (proj2 E)), (compelled_ext d c a b E), (compelled_ext d c b a E). reflexivity.
Qed.

Lemma pdag_eqb_sym g h : pdag_eqb g h = pdag_eqb h g.
Proof.
  unfold pdag_eqb. assert (S : seteqb (V g) (V h) = seteqb (V h) (V g)) by (unfold seteqb; apply andb_comm).
  rewrite S. destruct (seteqb (V h) (V g)), (pincl (D g) (D h)), (pincl (D h) (D g)), (sincl (U g) (U h)), (sincl (U h) (U g));
    reflexivity.
Qed.

Lemma pdag_eqb_peq_r g h h' : peq h h' -> pdag_eqb g h = pdag_eqb g h'.
Proof. intros E. rewrite (pdag_eqb_sym g h), (pdag_eqb_sym g h'). apply pdag_eqb_peq. exact E. Qed.

(* EVERY well-formed DAG on the nodes 0..n-1, n <= 5, whatever the order / duplication of its edge list:
   the Meek closure of its pattern is its essential graph *)
Theorem meek_complete_every_dag_5 n d : n <= 5 -> V d = nodes n -> wfb d = true -> acyclicb d = true ->
  B d = [] -> U d = [] -> C d = [] ->
  pdag_eqb (meek_model (pattern_of d)) (essential_graph d) = true.
Proof.
  intros Hn HV Hwf Hac HB HU HC.
  destruct (meek_complete_own_lists_5 n d Hn HV Hwf Hac HB HU HC) as (H1 & H2 & H3).
  set (c := canon_dag n (D d)) in *.
  assert (E : peq d c).
  { split; [symmetry; exact H1|]. split; [apply has_d_set_eq; exact H2|].
    intros a b. unfold has_u. rewrite HU. reflexivity. }
  rewrite (pdag_eqb_peq_r _ _ _ (essential_graph_ext d c E)). exact H3.
Qed.
