(* C08: table-driven evaluation of the completeness check, one skeleton at a time: the acyclic orientations of a skeleton
   are computed once and every DAG of the skeleton takes its Markov class from that list.  [fast_skel_sound] proves that
   the table-driven check implies complete_check (the naive one, which re-enumerates all orientations for every DAG). *)
From Coq Require Import List Arith Bool Lia.
From PG Require Import Base.ListSet Graph.MGraph C08.Model C08.Spec C08.Bounded_n4.
Import ListNotations.

Fixpoint plist_eqb (l m : list (nat * nat)) : bool :=
  match l, m with
  | [], [] => true
  | a :: l', b :: m' => if pair_eqb a b then plist_eqb l' m' else false
  | _, _ => false
  end.
Lemma plist_eqb_eq l : forall m, plist_eqb l m = true -> l = m.
Proof.
  induction l as [|a l IH]; intros [|b m] H; simpl in H; try discriminate; [reflexivity|].
  destruct (pair_eqb a b) eqn:E; [|discriminate]. apply pair_eqb_eq in E. subst. f_equal. apply IH. exact H.
Qed.

(* essential graph from a given Markov class *)
Definition ess_with (cls : list mgraph) (d : mgraph) : mgraph :=
  let us := udedup (D d) in
  MkG (V d)
      (filter (fun e => compelled cls (fst e) (snd e)) us
         ++ map (fun e => (snd e, fst e)) (filter (fun e => compelled cls (snd e) (fst e)) us))
      []
      (filter (fun e => negb (compelled cls (fst e) (snd e)) && negb (compelled cls (snd e) (fst e))) us)
      [].

Lemma essential_graph_ess_with d : essential_graph d = ess_with (meq_dags d) d.
Proof. reflexivity. Qed.

Lemma compelled_seteq cls cls' a b : (forall x, In x cls <-> In x cls') -> compelled cls a b = compelled cls' a b.
Proof.
  intros H. unfold compelled. apply eq_true_iff_eq. rewrite !forallb_forall.
  split; intros X x Hx; apply X; apply H; exact Hx.
Qed.

Lemma ess_with_seteq cls cls' d : (forall x, In x cls <-> In x cls') -> ess_with cls d = ess_with cls' d.
Proof.
  intros H. unfold ess_with.
  assert (E : forall a b, compelled cls a b = compelled cls' a b) by (intros; apply compelled_seteq; exact H).
  f_equal.
  - f_equal; [|f_equal]; apply filter_ext; intros e; apply E.
  - apply filter_ext. intros e. rewrite !E. reflexivity.
Qed.

(* flipping some edges of the listed skeleton does not change the set of orientations *)
Lemma orientations_flip s : forall o, In o (orientations s) -> forall x, In x (orientations o) <-> In x (orientations s).
Proof.
  induction s as [|[a b] t IH]; intros o Ho x; simpl in Ho.
  - destruct Ho as [<-|[]]. tauto.
  - apply in_app_or in Ho. destruct Ho as [Ho|Ho]; apply in_map_iff in Ho; destruct Ho as [o' [<- Ho']];
      simpl; rewrite !in_app_iff, !in_map_iff; specialize (IH o' Ho').
    + split; intros [[y [E Hy]]|[y [E Hy]]]; [left|right|left|right]; exists y; (split; [exact E|apply IH; exact Hy]).
    + split; intros [[y [E Hy]]|[y [E Hy]]]; [right|left|right|left]; exists y; (split; [exact E|apply IH; exact Hy]).
Qed.

Definition skel_dags (vs : list nat) (s : list (nat * nat)) : list mgraph :=
  filter acyclicb (map (dir_graph vs) (orientations s)).

Definition fast_skel (vs : list nat) (s : list (nat * nat)) : bool :=
  let dags := skel_dags vs s in
  forallb (fun d =>
     if plist_eqb (udedup (D d)) (D d) then
       pdag_eqb (meek_model (pattern_of d)) (ess_with (filter (same_vstructs d) dags) d)
     else false) dags.

Lemma class_sound vs s d : In d (skel_dags vs s) -> udedup (D d) = D d ->
  essential_graph d = ess_with (filter (same_vstructs d) (skel_dags vs s)) d.
Proof.
  intros Hd Eu. rewrite essential_graph_ess_with. apply ess_with_seteq.
  unfold skel_dags in Hd. apply filter_In in Hd. destruct Hd as [Hd _].
  apply in_map_iff in Hd. destruct Hd as [o [<- Ho]].
  intros x. unfold meq_dags, candidates, skeleton_of, skel_dags. simpl in *. rewrite Eu.
  rewrite !filter_In, !in_map_iff, andb_true_iff. split.
  - intros [[o' [<- Ho']] [Ha Hv]]. rewrite app_nil_r in *. split; [split|exact Hv]; [|exact Ha].
    exists o'. split; [reflexivity|]. apply (orientations_flip s o Ho). exact Ho'.
  - intros [[[o' [<- Ho']] Ha] Hv]. split; [|split; assumption].
    exists o'. rewrite app_nil_r. split; [reflexivity|]. apply (orientations_flip s o Ho). exact Ho'.
Qed.

Lemma fast_skel_sound vs s : fast_skel vs s = true -> forall d, In d (skel_dags vs s) -> complete_check d = true.
Proof.
  intros H d Hd. unfold fast_skel in H. rewrite forallb_forall in H. specialize (H d Hd).
  destruct (plist_eqb (udedup (D d)) (D d)) eqn:Eu; [|discriminate]. apply plist_eqb_eq in Eu.
  unfold complete_check. rewrite (class_sound vs s d Hd Eu). exact H.
Qed.

(* ---- the same with one v-structure signature per DAG instead of one same_vstructs call per pair of DAGs ---- *)
Fixpoint blist_eqb (l m : list bool) : bool :=
  match l, m with
  | [], [] => true
  | a :: l', b :: m' => if Bool.eqb a b then blist_eqb l' m' else false
  | _, _ => false
  end.

Definition sigb (vs : list nat) (g : mgraph) : list bool :=
  flat_map (fun a => flat_map (fun c => map (fun b => vstructb g a c b) vs) vs) vs.

Lemma forallb_ext2 {A} (f g : A -> bool) l : (forall x, f x = g x) -> forallb f l = forallb g l.
Proof. intros H. induction l as [|a l IH]; simpl; [reflexivity|]. rewrite H, IH. reflexivity. Qed.

Lemma blist_map {A} (f g : A -> bool) l :
  forallb (fun b => Bool.eqb (f b) (g b)) l = blist_eqb (map f l) (map g l).
Proof. induction l as [|a l IH]; simpl; [reflexivity|]. rewrite IH. destruct (Bool.eqb (f a) (g a)); reflexivity. Qed.

Lemma blist_app l1 : forall m1 l2 m2, length l1 = length m1 ->
  blist_eqb (l1 ++ l2) (m1 ++ m2) = blist_eqb l1 m1 && blist_eqb l2 m2.
Proof.
  induction l1 as [|a l1 IH]; intros [|b m1] l2 m2 H; simpl in *; try discriminate; [reflexivity|].
  destruct (Bool.eqb a b); [apply IH; lia|reflexivity].
Qed.

Lemma blist_flat {A} (F G : A -> list bool) l : (forall x, length (F x) = length (G x)) ->
  forallb (fun x => blist_eqb (F x) (G x)) l = blist_eqb (flat_map F l) (flat_map G l).
Proof.
  intros H. induction l as [|a l IH]; simpl; [reflexivity|]. rewrite blist_app by apply H. rewrite IH. reflexivity.
Qed.

Lemma flat_map_len {A B} (F G : A -> list B) l : (forall x, length (F x) = length (G x)) ->
  length (flat_map F l) = length (flat_map G l).
Proof. intros H. induction l as [|a l IH]; simpl; [reflexivity|]. rewrite !app_length, H, IH. reflexivity. Qed.

Lemma same_vstructs_sig p d : same_vstructs p d = blist_eqb (sigb (V p) p) (sigb (V p) d).
Proof.
  unfold same_vstructs, sigb. rewrite <- blist_flat.
  - apply forallb_ext2. intros a. rewrite <- blist_flat.
    + apply forallb_ext2. intros c. apply blist_map.
    + intros c. rewrite !map_length. reflexivity.
  - intros a. apply flat_map_len. intros c. rewrite !map_length. reflexivity.
Qed.

Lemma table_filter {A B} (h : A -> B) (P : B -> bool) (l : list A) :
  map fst (filter (fun r => P (snd r)) (map (fun m => (m, h m)) l)) = filter (fun m => P (h m)) l.
Proof.
  induction l as [|a l IH]; simpl; [reflexivity|]. destruct (P (h a)); simpl; rewrite IH; reflexivity.
Qed.

Lemma skel_dags_V vs s d : In d (skel_dags vs s) -> V d = vs.
Proof. unfold skel_dags. rewrite filter_In, in_map_iff. intros [[o [<- _]] _]. reflexivity. Qed.

Definition fast_skel_sig (vs : list nat) (s : list (nat * nat)) : bool :=
  let tab := map (fun d => (d, sigb vs d)) (skel_dags vs s) in
  forallb (fun row : mgraph * list bool =>
     let d := fst row in
     if plist_eqb (udedup (D d)) (D d) then
       pdag_eqb (meek_model (pattern_of d))
                (ess_with (map fst (filter (fun r : mgraph * list bool => blist_eqb (snd row) (snd r)) tab)) d)
     else false) tab.

Lemma fast_skel_sig_sound vs s : fast_skel_sig vs s = true -> forall d, In d (skel_dags vs s) -> complete_check d = true.
Proof.
  intros H d Hd. unfold fast_skel_sig in H. rewrite forallb_forall in H.
  specialize (H (d, sigb vs d)). simpl in H.
  assert (Hrow : In (d, sigb vs d) (map (fun d => (d, sigb vs d)) (skel_dags vs s))).
  { apply in_map_iff. exists d. split; [reflexivity|exact Hd]. }
  specialize (H Hrow).
  destruct (plist_eqb (udedup (D d)) (D d)) eqn:Eu; [|discriminate]. apply plist_eqb_eq in Eu.
  unfold complete_check. rewrite (class_sound vs s d Hd Eu).
  rewrite (table_filter (sigb vs) (blist_eqb (sigb vs d))) in H.
  erewrite filter_ext; [exact H|]. intros d'. rewrite same_vstructs_sig, (skel_dags_V vs s d Hd). reflexivity.
Qed.

(* every member of dir_choices is an orientation of a sub-skeleton *)
Fixpoint psublists (l : list (nat * nat)) : list (list (nat * nat)) :=
  match l with
  | [] => [[]]
  | x :: t => let r := psublists t in r ++ map (cons x) r
  end.

Lemma dir_choices_skel ps : forall o, In o (dir_choices ps) -> exists s, In s (psublists ps) /\ In o (orientations s).
Proof.
  induction ps as [|[a b] t IH]; intros o Ho; simpl in Ho.
  - destruct Ho as [<-|[]]. exists []. simpl. auto.
  - apply in_app_or in Ho. destruct Ho as [Ho|Ho].
    + destruct (IH o Ho) as [s [Hs Hos]]. exists s. split; [simpl; apply in_or_app; left; exact Hs|exact Hos].
    + apply in_app_or in Ho. destruct Ho as [Ho|Ho]; apply in_map_iff in Ho; destruct Ho as [o' [<- Ho']];
        destruct (IH o' Ho') as [s [Hs Hos]]; exists ((a, b) :: s);
        (split; [simpl; apply in_or_app; right; apply in_map; exact Hs|]); simpl; apply in_or_app.
      * left. apply in_map. exact Hos.
      * right. apply in_map. exact Hos.
Qed.

Definition skeletons (n : nat) : list (list (nat * nat)) := psublists (upairs (nodes n)).

Lemma all_dags_skel n d : In d (all_dags n) -> exists s, In s (skeletons n) /\ In d (skel_dags (nodes n) s).
Proof.
  unfold all_dags. rewrite filter_In, in_map_iff. intros [[o [<- Ho]] Ha].
  destruct (dir_choices_skel _ o Ho) as [s [Hs Hos]]. exists s. split; [exact Hs|].
  unfold skel_dags. apply filter_In. split; [apply in_map; exact Hos|exact Ha].
Qed.

Lemma fast_sound n ss : (forall s, In s (skeletons n) -> In s ss) -> forallb (fast_skel_sig (nodes n)) ss = true ->
  forall d, In d (all_dags n) -> complete_check d = true.
Proof.
  intros Hcov H d Hd. destruct (all_dags_skel n d Hd) as [s [Hs Hds]].
  rewrite forallb_forall in H. apply (fast_skel_sig_sound (nodes n) s (H s (Hcov s Hs)) d Hds).
Qed.

(* sanity: the table-driven check on n = 4 *)
Lemma fast_4 : forallb (fast_skel_sig (nodes 4)) (skeletons 4) = true.
Proof. vm_compute. reflexivity. Qed.
