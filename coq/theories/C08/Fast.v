(* C08: table-driven evaluation of the completeness check, one skeleton at a time: the acyclic orientations of a skeleton
   are computed once and every DAG of the skeleton takes its Markov class from that list.  [fast_skel_sound] proves that
   the table-driven check implies complete_check (the naive one, which re-enumerates all orientations for every DAG). *)
From Coq Require Import List Arith Bool Lia.
From PG Require Import Base.ListSet Graph.MGraph C08.Model C08.Spec C08.Bounded_n4.
Import ListNotations.

Fixpoint plist_eqb (l m : list (nat * nat)) : bool :=
  match l, m with
  | [], [] => true
  | a :: l', b :: m' => if pair_eqb a b then plist_eqb l' m' else false
  | _, _ => false
  end.
Lemma plist_eqb_eq l : forall m, plist_eqb l m = true -> l = m.
Proof.
  induction l as [|a l IH]; intros [|b m] H; simpl in H; try discriminate; [reflexivity|].
  destruct (pair_eqb a b) eqn:E; [|discriminate]. apply pair_eqb_eq in E. subst. f_equal. apply IH. exact H.
Qed.

(* essential graph from a given Markov class *)
Definition ess_with (cls : list mgraph) (d : mgraph) : mgraph :=
  let us := udedup (D d) in
  MkG (V d)
      (filter (fun e => compelled cls (fst e) (snd e)) us
         ++ map (fun e => (snd e, fst e)) (filter (fun e => compelled cls (snd e) (fst e)) us))
      []
      (filter (fun e => negb (compelled cls (fst e) (snd e)) && negb (compelled cls (snd e) (fst e))) us)
      [].

Lemma essential_graph_ess_with d : essential_graph d = ess_with (meq_dags d) d.
Proof. reflexivity. Qed.

Lemma compelled_seteq cls cls' a b : (forall x, In x cls <-> In x cls') -> compelled cls a b = compelled cls' a b.
Proof.
  intros H. unfold compelled. apply eq_true_iff_eq. rewrite !forallb_forall.
  split; intros X x Hx; apply X; apply H; exact Hx.
Qed.

Lemma ess_with_seteq cls cls' d : (forall x, In x cls <-> In x cls') -> ess_with cls d = ess_with cls' d.
Proof.
  intros H. unfold ess_with.
  assert (E : forall a b, compelled cls a b = compelled cls' a b) by (intros; apply compelled_seteq; exact H).
  f_equal.
  - f_equal; [|f_equal]; apply filter_ext; intros e; apply E.
  - apply filter_ext. intros e. rewrite !E. reflexivity.
Qed.

(* flipping some edges of the listed skeleton does not change the set of orientations *)
Lemma orientations_flip s : forall o, In o (orientations s) -> forall x, In x (orientations o) <-> In x (orientations s).
Proof.
  induction s as [|[a b] t IH]; intros o Ho x; simpl in Ho.
  - destruct Ho as [<-|[]]. tauto.
  - apply in_app_or in Ho. destruct Ho as [Ho|Ho]; apply in_map_iff in Ho; destruct Ho as [o' [<- Ho']];
      simpl; rewrite !in_app_iff, !in_map_iff; specialize (IH o' Ho').
    + split; intros [[y [E Hy]]|[y [E Hy]]]; [left|right|left|right]; exists y; (split; [exact E|apply IH; exact Hy]).
    + split; intros [[y [E Hy]]|[y [E Hy]]]; [right|left|right|left]; exists y; (split; [exact E|apply IH; exact Hy]).
Qed.

Definition skel_dags (vs : list nat) (s : list (nat * nat)) : list mgraph :=
  filter acyclicb (map (dir_graph vs) (orientations s)).

Definition fast_skel (vs : list nat) (s : list (nat * nat)) : bool :=
  let dags := skel_dags vs s in
  forallb (fun d =>
     if plist_eqb (udedup (D d)) (D d) then
       pdag_eqb (meek_model (pattern_of d)) (ess_with (filter (same_vstructs d) dags) d)
     else false) dags.

Lemma fast_skel_sound vs s : fast_skel vs s = true -> forall d, In d (skel_dags vs s) -> complete_check d = true.
Proof.
  intros H d Hd. unfold fast_skel in H. rewrite forallb_forall in H. specialize (H d Hd).
  destruct (plist_eqb (udedup (D d)) (D d)) eqn:Eu; [|discriminate]. apply plist_eqb_eq in Eu.
  unfold complete_check. rewrite essential_graph_ess_with.
  rewrite (ess_with_seteq (meq_dags d) (filter (same_vstructs d) (skel_dags vs s)) d); [exact H|].
  unfold skel_dags in Hd. apply filter_In in Hd. destruct Hd as [Hd _].
  apply in_map_iff in Hd. destruct Hd as [o [<- Ho]].
  intros x. unfold meq_dags, candidates, skeleton_of, skel_dags. simpl in *. rewrite Eu.
  rewrite !filter_In, !in_map_iff, andb_true_iff. split.
  - intros [[o' [<- Ho']] [Ha Hv]]. rewrite app_nil_r in *. split; [split|exact Hv]; [|exact Ha].
    exists o'. split; [reflexivity|]. apply (orientations_flip s o Ho). exact Ho'.
  - intros [[[o' [<- Ho']] Ha] Hv]. split; [|split; assumption].
    exists o'. rewrite app_nil_r. split; [reflexivity|]. apply (orientations_flip s o Ho). exact Ho'.
Qed.

(* every member of dir_choices is an orientation of a sub-skeleton *)
Fixpoint psublists (l : list (nat * nat)) : list (list (nat * nat)) :=
  match l with
  | [] => [[]]
  | x :: t => let r := psublists t in r ++ map (cons x) r
  end.

Lemma dir_choices_skel ps : forall o, In o (dir_choices ps) -> exists s, In s (psublists ps) /\ In o (orientations s).
Proof.
  induction ps as [|[a b] t IH]; intros o Ho; simpl in Ho.
  - destruct Ho as [<-|[]]. exists []. simpl. auto.
  - apply in_app_or in Ho. destruct Ho as [Ho|Ho].
    + destruct (IH o Ho) as [s [Hs Hos]]. exists s. split; [simpl; apply in_or_app; left; exact Hs|exact Hos].
    + apply in_app_or in Ho. destruct Ho as [Ho|Ho]; apply in_map_iff in Ho; destruct Ho as [o' [<- Ho']];
        destruct (IH o' Ho') as [s [Hs Hos]]; exists ((a, b) :: s);
        (split; [simpl; apply in_or_app; right; apply in_map; exact Hs|]); simpl; apply in_or_app.
      * left. apply in_map. exact Hos.
      * right. apply in_map. exact Hos.
Qed.

Definition skeletons (n : nat) : list (list (nat * nat)) := psublists (upairs (nodes n)).

Lemma all_dags_skel n d : In d (all_dags n) -> exists s, In s (skeletons n) /\ In d (skel_dags (nodes n) s).
Proof.
  unfold all_dags. rewrite filter_In, in_map_iff. intros [[o [<- Ho]] Ha].
  destruct (dir_choices_skel _ o Ho) as [s [Hs Hos]]. exists s. split; [exact Hs|].
  unfold skel_dags. apply filter_In. split; [apply in_map; exact Hos|exact Ha].
Qed.

Lemma fast_sound n ss : (forall s, In s (skeletons n) -> In s ss) -> forallb (fast_skel (nodes n)) ss = true ->
  forall d, In d (all_dags n) -> complete_check d = true.
Proof.
  intros Hcov H d Hd. destruct (all_dags_skel n d Hd) as [s [Hs Hds]].
  rewrite forallb_forall in H. apply (fast_skel_sound (nodes n) s (H s (Hcov s Hs)) d Hds).
Qed.

(* sanity: the table-driven check on n = 4 *)
Lemma fast_4 : forallb (fast_skel (nodes 4)) (skeletons 4) = true.
Proof. vm_compute. reflexivity. Qed.
