(* C08: for the Meek closure q of the pattern of a DAG d:  (1b) every edge derivable in C04's system Der d is directed in q
   (so the directed edges of q are EXACTLY the Der edges), and (2) the CHAIN LEMMA: a -> b directed and b - c undirected in q
   implies a -> c directed in q (q is a chain graph; by induction on the derivation, using that no rule fires on q). *)
From Coq Require Import List Arith Bool Lia.
From PG Require Import Base.ListSet Graph.MGraph C08.Model C08.Spec C08.Proofs C08.MeekDer.
From PG Require C04.Dag C04.DagFacts C04.Chickering.
Import ListNotations.

Section Chain.
Variables d q : mgraph.
Hypothesis Hd : is_dag d.
Hypothesis HqV : V q = V d.
Hypothesis Hqs : simple_pdag q.
Hypothesis Hqe : consistent_ext q d.
Hypothesis Hqc : rule_closed q.
Hypothesis HqD : forall a b, has_d q a b = true -> Der d a b.
Let E := D d.

Lemma E_nodes a b : In (a, b) E -> In a (V q) /\ In b (V q) /\ a <> b.
Proof. rewrite HqV. apply (proj1 Hd). Qed.

Lemma q_adj a b : padj q a b = padj d a b.
Proof. symmetry. apply (proj1 (proj2 (proj2 (proj2 Hqe)))). Qed.

Lemma q_E a b : has_d q a b = true -> In (a, b) E.
Proof. intros H. apply (proj1 (proj2 (proj2 (proj2 (proj2 Hqe))))). apply pmemb_In. exact H. Qed.

Lemma E2 a b : In (a, b) E -> In (b, a) E -> False.
Proof. exact (PG.C04.Chickering.no2 d Hd a b). Qed.
Lemma E3 a b c : In (a, b) E -> In (b, c) E -> In (c, a) E -> False.
Proof. exact (PG.C04.Chickering.no3 d Hd a b c). Qed.

Lemma padj_d_E a b : padj d a b = true -> In (a, b) E \/ In (b, a) E.
Proof. intros H. apply padj_iff in H. exact (PG.C04.Chickering.adj_dir d Hd a b H). Qed.

Lemma u_E a b : has_u q a b = true -> In (a, b) E \/ In (b, a) E.
Proof. intros H. apply padj_d_E. rewrite <- q_adj. apply padj_true. auto. Qed.

Lemma u_nodes8 a b : has_u q a b = true -> In a (V q) /\ In b (V q).
Proof. intros H. destruct (u_E a b H) as [X|X]; apply E_nodes in X; tauto. Qed.

Lemma d_nodes8 a b : has_d q a b = true -> In a (V q) /\ In b (V q).
Proof. intros H. apply q_E in H. apply E_nodes in H. tauto. Qed.

(* the three ways two adjacent nodes can be joined in q *)
Lemma adj3 a b : padj q a b = true -> has_d q a b = true \/ has_d q b a = true \/ has_u q a b = true.
Proof. apply padj_true. Qed.

Lemma Padj_q a b : Padj d a b -> padj q a b = true.
Proof. intros H. rewrite q_adj. apply padj_iff. exact H. Qed.
Lemma nPadj_q a b : ~ Padj d a b -> padj q a b = false.
Proof. intros H. rewrite q_adj. apply padj_niff. exact H. Qed.

Lemma edge_cases a b : In (a, b) E -> has_d q a b = true \/ has_u q a b = true.
Proof.
  intros H. assert (P : padj q a b = true) by (apply Padj_q; left; exact H).
  destruct (adj3 a b P) as [X|[X|X]]; auto. exfalso. apply q_E in X. exact (E2 a b H X).
Qed.

(* no rule fires on q: the four rules in contrapositive form *)
Lemma nofire i j : has_u q i j = true -> fires q i j = false.
Proof. intros H. destruct (u_nodes8 i j H). apply Hqc; assumption. Qed.

Lemma R1c k i j : has_d q k i = true -> has_u q i j = true -> padj q k j = false -> False.
Proof.
  intros H1 H2 H3. pose proof (nofire i j H2) as F. unfold fires in F. rewrite H2 in F. simpl in F.
  assert (X : r1 q i j = true).
  { unfold r1. apply existsb_exists. exists k. split; [apply parents_In; split; [apply (d_nodes8 k i H1)|exact H1]|].
    rewrite H3. reflexivity. }
  rewrite X in F. discriminate.
Qed.

Lemma R2c i k j : has_d q i k = true -> has_d q k j = true -> has_u q i j = true -> False.
Proof.
  intros H1 H2 H3. pose proof (nofire i j H3) as F. unfold fires in F. rewrite H3 in F. simpl in F.
  assert (X : r2 q i j = true).
  { unfold r2. apply existsb_exists. exists k. split; [apply children_In; split; [apply (d_nodes8 i k H1)|exact H1]|exact H2]. }
  rewrite X, orb_true_r in F. discriminate.
Qed.

Lemma R3c i k l j : has_u q i k = true -> has_u q i l = true -> has_d q k j = true -> has_d q l j = true ->
  k <> l -> padj q k l = false -> has_u q i j = true -> False.
Proof.
  intros H1 H2 H3 H4 H5 H6 H7. pose proof (nofire i j H7) as F. unfold fires in F. rewrite H7 in F. simpl in F.
  assert (X : r3 q i j = true).
  { unfold r3. apply existsb_exists. exists k. split; [apply parents_In; split; [apply (d_nodes8 k j H3)|exact H3]|].
    rewrite H1. simpl. apply existsb_exists. exists l. split; [apply parents_In; split; [apply (d_nodes8 l j H4)|exact H4]|].
    rewrite H2, H6, (proj2 (Nat.eqb_neq k l) H5). reflexivity. }
  rewrite X, !orb_true_r in F. discriminate.
Qed.

Lemma R4c i k l j : has_u q i k = true -> has_d q k l = true -> has_d q l j = true ->
  padj q k j = false -> padj q i l = true -> has_u q i j = true -> False.
Proof.
  intros H1 H2 H3 H4 H5 H6. pose proof (nofire i j H6) as F. unfold fires in F. rewrite H6 in F. simpl in F.
  assert (X : r4 q i j = true).
  { unfold r4. apply existsb_exists. exists l. split; [apply parents_In; split; [apply (d_nodes8 l j H3)|exact H3]|].
    rewrite H5. simpl. apply existsb_exists. exists k. split; [apply parents_In; split; [apply (d_nodes8 k l H2)|exact H2]|].
    rewrite H1, H4. reflexivity. }
  rewrite X, !orb_true_r in F. discriminate.
Qed.

Lemma usym a b : has_u q a b = true -> has_u q b a = true.
Proof. rewrite (has_u_sym q a b). auto. Qed.
Lemma psym a b : padj q a b = false -> padj q b a = false.
Proof. rewrite (padj_sym q a b). auto. Qed.

(* ---------- (1b) Der edges are directed in q ---------- *)
Theorem Der_sub_closure a b : Der d a b -> has_d q a b = true.
Proof.
  intros H. induction H as [a b c Hv|c a b Hca IH Hab Hn|a c b Hac IH1 Hcb IH2 Hab
                           |a b c e Hac Hae Hcb IH1 Heb IH2 Hn Hne Hab Hside|a b c e Hac Hce IH1 Heb IH2 Hn Hae Hab].
  - apply vstructb_iff in Hv. apply (proj2 (proj2 (proj2 (proj2 (proj2 Hqe))))) in Hv.
    unfold vstructb in Hv. rewrite !andb_true_iff in Hv. tauto.
  - destruct (edge_cases a b Hab) as [X|X]; [exact X|exfalso]. apply (R1c c a b IH X). apply nPadj_q. exact Hn.
  - destruct (edge_cases a b Hab) as [X|X]; [exact X|exfalso]. exact (R2c a c b IH1 IH2 X).
  - destruct (edge_cases a b Hab) as [X|X]; [exact X|exfalso].
    pose proof (nPadj_q c e Hn) as Nce.
    destruct (adj3 a c (Padj_q a c Hac)) as [A|[A|A]]; [exact (R2c a c b A IH1 X)| |];
      destruct (adj3 a e (Padj_q a e Hae)) as [B'|[B'|B']]; try exact (R2c a e b B' IH2 X).
    + apply Hside. split; apply q_E; assumption.
    + exact (R1c c a e A B' Nce).
    + exact (R1c e a c B' A (psym c e Nce)).
    + exact (R3c a c e b A B' IH1 IH2 Hne Nce X).
  - destruct (edge_cases a b Hab) as [X|X]; [exact X|exfalso].
    pose proof (nPadj_q c b Hn) as Ncb.
    destruct (adj3 a c (Padj_q a c Hac)) as [A|[A|A]].
    + destruct (adj3 a e (Padj_q a e Hae)) as [B'|[B'|B']].
      * exact (R2c a e b B' IH2 X).
      * exact (E3 a c e (q_E _ _ A) (q_E _ _ IH1) (q_E _ _ B')).
      * exact (R2c a c e A IH1 B').
    + exact (R1c c a b A X Ncb).
    + exact (R4c a c e b A IH1 IH2 Ncb (Padj_q a e Hae) X).
Qed.

Theorem closure_eq_Der a b : has_d q a b = true <-> Der d a b.
Proof. split; [apply HqD|apply Der_sub_closure]. Qed.

(* ---------- (2) the chain lemma ---------- *)
Theorem chain_lemma a b : Der d a b -> forall c, has_u q b c = true -> has_d q a c = true.
Proof.
  intros H. induction H as [a b u Hv|k a b Hka IH Hab Hn|a k b Hak IH1 Hkb IH2 Hab
                           |a b k l Hak Hal Hkb IH1 Hlb IH2 Hn Hne Hab Hside|a b k l Hak Hkl IH1 Hlb IH2 Hn Hal Hab];
    intros c Hbc.
  - (* v-structure a -> b <- u *)
    assert (Hab : has_d q a b = true) by (apply Der_sub_closure; apply (PG.C04.Chickering.DV d a b u Hv)).
    assert (Hub : has_d q u b = true).
    { apply Der_sub_closure. apply (PG.C04.Chickering.DV d u b a). apply PG.C04.Chickering.Vstr_sym. exact Hv. }
    destruct Hv as (_ & _ & Hau & Hnau). pose proof (nPadj_q a u Hnau) as Nau.
    destruct (padj q a c) eqn:Pac; [|exfalso; exact (R1c a b c Hab Hbc Pac)].
    destruct (adj3 a c Pac) as [X|[X|X]]; [exact X|exfalso; exact (R2c c a b X Hab (usym b c Hbc))|exfalso].
    destruct (padj q u c) eqn:Puc; [|exact (R1c u b c Hub Hbc Puc)].
    destruct (adj3 u c Puc) as [Y|[Y|Y]].
    + exact (R1c u c a Y (usym a c X) (psym a u Nau)).
    + exact (R2c c u b Y Hub (usym b c Hbc)).
    + exact (R3c c a u b (usym a c X) (usym u c Y) Hab Hub Hau Nau (usym b c Hbc)).
  - (* D1: k -> a derived, k and b non-adjacent *)
    assert (Hab' : has_d q a b = true) by (apply Der_sub_closure; apply (PG.C04.Chickering.D1 d k a b); assumption).
    destruct (padj q a c) eqn:Pac; [|exfalso; exact (R1c a b c Hab' Hbc Pac)].
    destruct (adj3 a c Pac) as [X|[X|X]]; [exact X|exfalso; exact (R2c c a b X Hab' (usym b c Hbc))|exfalso].
    pose proof (IH c X) as Hkc. exact (R1c k c b Hkc (usym b c Hbc) (nPadj_q k b Hn)).
  - (* D2: a -> k -> b *)
    assert (Hab' : has_d q a b = true) by (apply Der_sub_closure; apply (PG.C04.Chickering.D2 d a k b); assumption).
    destruct (padj q a c) eqn:Pac; [|exfalso; exact (R1c a b c Hab' Hbc Pac)].
    destruct (adj3 a c Pac) as [X|[X|X]]; [exact X|exfalso; exact (R2c c a b X Hab' (usym b c Hbc))|exfalso].
    exact (R2c a k c (Der_sub_closure a k Hak) (IH2 c Hbc) X).
  - (* D3 *)
    assert (Hab' : has_d q a b = true) by (apply Der_sub_closure; apply (PG.C04.Chickering.D3 d a b k l); assumption).
    destruct (padj q a c) eqn:Pac; [|exfalso; exact (R1c a b c Hab' Hbc Pac)].
    destruct (adj3 a c Pac) as [X|[X|X]]; [exact X|exfalso; exact (R2c c a b X Hab' (usym b c Hbc))|exfalso].
    pose proof (IH1 c Hbc) as Hkc. pose proof (IH2 c Hbc) as Hlc. pose proof (nPadj_q k l Hn) as Nkl.
    destruct (adj3 a k (Padj_q a k Hak)) as [A|[A|A]]; [exact (R2c a k c A Hkc X)| |];
      destruct (adj3 a l (Padj_q a l Hal)) as [B'|[B'|B']]; try exact (R2c a l c B' Hlc X).
    + apply Hside. split; apply q_E; assumption.
    + exact (R1c k a l A B' Nkl).
    + exact (R1c l a k B' A (psym k l Nkl)).
    + exact (R3c a k l c A B' Hkc Hlc Hne Nkl X).
  - (* D4 *)
    assert (Hab' : has_d q a b = true) by (apply Der_sub_closure; apply (PG.C04.Chickering.D4 d a b k l); assumption).
    destruct (padj q a c) eqn:Pac; [|exfalso; exact (R1c a b c Hab' Hbc Pac)].
    destruct (adj3 a c Pac) as [X|[X|X]]; [exact X|exfalso; exact (R2c c a b X Hab' (usym b c Hbc))|exfalso].
    pose proof (IH2 c Hbc) as Hlc. pose proof (Der_sub_closure k l Hkl) as Qkl. pose proof (Der_sub_closure l b Hlb) as Qlb.
    pose proof (nPadj_q k b Hn) as Nkb.
    destruct (padj q k c) eqn:Pkc.
    + destruct (adj3 k c Pkc) as [Y|[Y|Y]].
      * exact (R1c k c b Y (usym b c Hbc) Nkb).
      * exact (E3 c k l (q_E _ _ Y) (q_E _ _ Qkl) (q_E _ _ Hlc)).
      * assert (Pcl : padj q c l = true) by (apply padj_true; auto).
        exact (R4c c k l b (usym k c Y) Qkl Qlb Nkb Pcl (usym b c Hbc)).
    + destruct (adj3 a k (Padj_q a k Hak)) as [A|[A|A]].
      * destruct (adj3 a l (Padj_q a l Hal)) as [B'|[B'|B']].
        -- exact (R2c a l c B' Hlc X).
        -- exact (E3 a k l (q_E _ _ A) (q_E _ _ Qkl) (q_E _ _ B')).
        -- exact (R2c a k l A Qkl B').
      * exact (R1c k a c A X Pkc).
      * destruct (adj3 a l (Padj_q a l Hal)) as [B'|[B'|B']].
        -- exact (R2c a l c B' Hlc X).
        -- exact (R2c k l a Qkl B' (usym a k A)).
        -- exact (R4c a k l c A Qkl Hlc Pkc (Padj_q a l Hal) X).
Qed.

(* in terms of q only *)
Corollary chain_q a b c : has_d q a b = true -> has_u q b c = true -> has_d q a c = true.
Proof. intros H1 H2. apply (chain_lemma a b (HqD a b H1) c H2). Qed.
End Chain.
