(* C08: MEEK COMPLETENESS ON PATTERNS FOR ALL SIZES (Meek 1995 Thm 3), assembled from
   - MeekDer.v / MeekChain.v: the directed edges of meek_model (pattern_of d) are exactly C04's derivable edges [Der d];
   - C04 (b-c04c05): Der edges are essential (Chickering.Der_essential) and every non-Der edge is reversed in a Markov
     equivalent DAG (taken here as the section hypothesis [Hrev]; instantiated in MeekCompleteAll.v);
   - the reflection of the brute-force oracle: the members of [meq_dags d] are exactly (up to listing) the DAGs Markov
     equivalent to d. *)
From Coq Require Import List Arith Bool Lia.
From PG Require Import Base.ListSet Graph.MGraph C08.Model C08.Spec C08.Proofs C08.Acyclic C08.Fast C08.Ext C08.ExtEss C08.Reflect
                       C08.Chordal C08.ChordalComplete C08.Topo C08.MeekDer C08.MeekChain.
From PG Require C04.Dag C04.DagFacts C04.Chickering.
Import ListNotations.

Notation meq := PG.C04.Dag.meq.

(* flipto with an arbitrary edge list in place of an orientation *)
Lemma flipto_In_gen o l' :
  (forall a b, In (a, b) o -> smemb a b l' = true) ->
  (forall a b, smemb a b l' = true -> In (a, b) o \/ In (b, a) o) ->
  (forall a b, In (a, b) o -> In (b, a) o -> a = b) ->
  forall a b, In (a, b) (flipto o l') <-> In (a, b) o.
Proof.
  intros H1 H2 H3 a b. unfold flipto. rewrite in_map_iff. split.
  - intros [[x y] [E He]]. destruct (pmemb (x, y) o) eqn:P.
    + inversion E; subst. apply pmemb_In. exact P.
    + simpl in E. inversion E; subst.
      assert (S : smemb b a l' = true) by (apply smemb_In; auto).
      destruct (H2 b a S) as [X|X]; [|exact X]. apply pmemb_In in X. congruence.
  - intros H. pose proof (H1 a b H) as S. apply smemb_In in S. destruct S as [S|S].
    + exists (a, b). split; [|exact S]. apply pmemb_In in H. rewrite H. reflexivity.
    + exists (b, a). split; [|exact S]. destruct (pmemb (b, a) o) eqn:P; [|reflexivity].
      apply pmemb_In in P. rewrite (H3 a b H P). reflexivity.
Qed.

Section MC.
Variable d : mgraph.
Hypothesis Hd : is_dag d.
Let E := D d.
Let sk := skeleton_of d.

Lemma d_edges_ok : edges_ok (V d) (D d) = true.
Proof. apply edges_ok_spec. exact (proj1 Hd). Qed.

Lemma sk_pwf8 : pwf sk.
Proof. split; [reflexivity|exact d_edges_ok]. Qed.

Lemma sk_u a b : has_u sk a b = padj d a b.
Proof.
  unfold padj. assert (Ud : has_u d a b = false) by (unfold has_u; rewrite (dU0 d Hd); reflexivity).
  rewrite Ud, orb_false_r. reflexivity.
Qed.

Lemma rank_of_acyclic x : edges_ok (V x) (D x) = true -> acyclic x -> PG.C04.Dag.acyclic x.
Proof.
  intros Hw Hac. destruct (topo_exists x Hw Hac) as (l & Hnd & Hel & Hord).
  exists (fun v => length l - idx l v). intros a b H.
  assert (Hab : has_d x a b = true) by (apply pmemb_In; exact H).
  pose proof (Hord a b Hab) as L. rewrite edges_ok_spec in Hw. apply Hw in H. destruct H as (Ha & Hb & _).
  pose proof (idx_lt l a (proj2 (Hel a) Ha)). lia.
Qed.

Lemma acyclic_of_rank g : PG.C04.Dag.acyclic g -> acyclic g.
Proof.
  intros [rk Hrk].
  assert (P : forall a b, dpath g a b -> rk a < rk b).
  { intros a b P. induction P as [a b H|a b c H P IH]; apply pmemb_In in H; apply Hrk in H; lia. }
  intros v Pv. apply P in Pv. lia.
Qed.

(* ---------- P1: members of the oracle's class are Markov equivalent DAGs ---------- *)
Lemma class_member_meq x : In x (meq_dags d) -> is_dag x /\ meq d x.
Proof.
  intros Hx. unfold meq_dags in Hx. apply filter_In in Hx. destruct Hx as [Hc Hf].
  apply andb_true_iff in Hf. destruct Hf as [Hac Hvs].
  unfold candidates in Hc. apply in_map_iff in Hc. destruct Hc as [o [<- Ho]]. fold sk in Ho.
  set (x := dir_graph (V sk) (o ++ D sk)) in *.
  assert (Nodes : forall a b, has_d x a b = true -> In a (V d) /\ In b (V d)) by (apply (cand_nodes sk o sk_pwf8 Ho)).
  assert (Padjx : forall a b, padj x a b = padj d a b).
  { intros a b. unfold x. rewrite (cand_padj sk o Ho a b). unfold padj at 1.
    assert (Z1 : has_d sk a b = false) by reflexivity. assert (Z2 : has_d sk b a = false) by reflexivity.
    rewrite Z1, Z2. simpl. apply sk_u. }
  assert (Hwx : edges_ok (V x) (D x) = true).
  { apply edges_ok_spec. intros a b H. assert (Hab : has_d x a b = true) by (apply pmemb_In; exact H).
    destruct (Nodes a b Hab) as [Ha Hb]. split; [exact Ha|]. split; [exact Hb|].
    assert (P : padj d a b = true) by (rewrite <- Padjx; apply padj_true; auto).
    apply padj_iff in P. destruct (PG.C04.Chickering.adj_dir d Hd a b P) as [X|X]; apply (proj1 Hd) in X; intuition congruence. }
  split.
  - split; [exact (proj1 (edges_ok_spec (V x) (D x)) Hwx)|]. split; [reflexivity|]. split; [reflexivity|]. split; [reflexivity|].
    apply rank_of_acyclic; [exact Hwx|]. apply acyclicb_sound; [|exact Hac]. intros a b H. apply Nodes. exact H.
  - split; [split; apply incl_refl|]. split.
    + intros a b. rewrite <- !padj_iff, Padjx. tauto.
    + intros a c b. rewrite <- !vstructb_iff.
      assert (Eq : In a (V d) -> In c (V d) -> In b (V d) -> vstructb d a c b = vstructb x a c b).
      { intros Ha Hc' Hb. unfold same_vstructs in Hvs. rewrite forallb_forall in Hvs.
        specialize (Hvs a Ha). rewrite forallb_forall in Hvs. specialize (Hvs c Hc').
        rewrite forallb_forall in Hvs. specialize (Hvs b Hb). apply eqb_prop in Hvs. exact Hvs. }
      assert (Nd : vstructb d a c b = true -> In a (V d) /\ In c (V d) /\ In b (V d)).
      { unfold vstructb. rewrite !andb_true_iff. intros [[[H1 H2] _] _].
        apply pmemb_In in H1. apply pmemb_In in H2. apply (proj1 Hd) in H1. apply (proj1 Hd) in H2. tauto. }
      assert (Nx : vstructb x a c b = true -> In a (V d) /\ In c (V d) /\ In b (V d)).
      { unfold vstructb. rewrite !andb_true_iff. intros [[[H1 H2] _] _]. apply Nodes in H1. apply Nodes in H2. tauto. }
      split; intros X.
      * destruct (Nd X) as (Ha & Hc' & Hb). pose proof (Eq Ha Hc' Hb) as Q. unfold x, sk in *. rewrite <- Q. exact X.
      * destruct (Nx X) as (Ha & Hc' & Hb). pose proof (Eq Ha Hc' Hb) as Q. unfold x, sk in *. rewrite Q. exact X.
Qed.

(* ---------- P2: every Markov equivalent DAG has a representative in the oracle's class ---------- *)
Lemma class_complete g : is_dag g -> meq d g ->
  exists x, In x (meq_dags d) /\ forall a b, has_d x a b = true <-> In (a, b) (D g).
Proof.
  intros Hg (HVg & Hsk & Hvs).
  set (l' := udedup (U sk)). set (o := flipto (D g) l').
  assert (Lmem : forall a b, smemb a b l' = true <-> Padj d a b).
  { intros a b. unfold l'. rewrite smemb_udedup. fold (has_u sk a b). rewrite sk_u. apply padj_iff. }
  assert (Ug : U g = []) by (destruct Hg as (_ & _ & H & _); exact H).
  assert (Pg : forall a b, Padj g a b <-> In (a, b) (D g) \/ In (b, a) (D g)).
  { intros a b. unfold PG.C04.Dag.Padj. rewrite Ug. simpl. tauto. }
  assert (No2 : forall a b, In (a, b) (D g) -> In (b, a) (D g) -> False).
  { exact (PG.C04.Chickering.no2 g Hg). }
  assert (Oin : forall a b, In (a, b) o <-> In (a, b) (D g)).
  { apply flipto_In_gen.
    - intros a b H. apply Lmem. apply Hsk. apply Pg. auto.
    - intros a b H. apply Lmem in H. apply Hsk in H. apply Pg. exact H.
    - intros a b H1 H2. destruct (No2 a b H1 H2). }
  set (x := dir_graph (V sk) (o ++ D sk)).
  assert (Hx : forall a b, has_d x a b = true <-> In (a, b) (D g)).
  { intros a b. unfold has_d, x. simpl. rewrite app_nil_r, pmemb_In. apply Oin. }
  exists x. split; [|exact Hx].
  assert (Ho : In o (orientations (udedup (U sk)))) by apply flipto_orient.
  assert (Padjx : forall a b, padj x a b = padj d a b).
  { intros a b. unfold x. rewrite (cand_padj sk o Ho a b). unfold padj at 1.
    assert (Z1 : has_d sk a b = false) by reflexivity. assert (Z2 : has_d sk b a = false) by reflexivity.
    rewrite Z1, Z2. simpl. apply sk_u. }
  unfold meq_dags. apply filter_In. split.
  - unfold candidates. apply in_map_iff. exists o. split; [reflexivity|exact Ho].
  - apply andb_true_iff. split.
    + apply acyclicb_complete. pose proof (acyclic_of_rank g (proj2 (proj2 (proj2 (proj2 Hg))))) as Ag.
      intros v P. apply (Ag v). apply (dpath_ext x g); [|exact P].
      intros a b. apply eq_true_iff_eq. rewrite Hx. unfold has_d. rewrite pmemb_In. tauto.
    + unfold same_vstructs. apply forallb_forall. intros a _. apply forallb_forall. intros c _.
      apply forallb_forall. intros b _. apply eqb_true_iff. apply eq_true_iff_eq.
      rewrite (vstructb_iff d a c b), Hvs, <- (vstructb_iff g a c b).
      unfold vstructb. rewrite Padjx.
      assert (Pdg : padj d a b = padj g a b).
      { apply eq_true_iff_eq. rewrite !padj_iff. apply Hsk. }
      rewrite Pdg.
      assert (Hd1 : has_d x a c = has_d g a c).
      { apply eq_true_iff_eq. rewrite Hx. unfold has_d. rewrite pmemb_In. tauto. }
      assert (Hd2 : has_d x b c = has_d g b c).
      { apply eq_true_iff_eq. rewrite Hx. unfold has_d. rewrite pmemb_In. tauto. }
      rewrite Hd1, Hd2. tauto.
Qed.

(* ---------- the hypothesis supplied by C04: every non-derivable edge is reversed in an equivalent DAG ---------- *)
Hypothesis Hrev : forall a b, In (a, b) E -> ~ Der d a b -> exists g, is_dag g /\ meq d g /\ In (b, a) (D g).

Lemma Der_dec a b : In (a, b) E -> Der d a b \/ ~ Der d a b.
Proof.
  intros H. destruct (has_d (meek_model (pattern_of d)) a b) eqn:X.
  - left. apply (proj2 (proj2 (closure_sub_Der d Hd)) a b X).
  - right. intros Hder.
    pose proof (closure_sub_Der d Hd) as (Hs & He & HD).
    assert (Y : has_d (meek_model (pattern_of d)) a b = true).
    { apply (Der_sub_closure d (meek_model (pattern_of d)) Hd); try assumption.
      - destruct (meek_only_orients_proof (pattern_of d)) as (HV & _). exact HV.
      - apply meek_terminates_proof. }
    congruence.
Qed.

Lemma compelled_Der a b : In (a, b) E -> (compelled (meq_dags d) a b = true <-> Der d a b).
Proof.
  intros Hab. split.
  - intros Hc. destruct (Der_dec a b Hab) as [H|H]; [exact H|exfalso].
    destruct (Hrev a b Hab H) as (g & Hg & Hm & Hba).
    destruct (class_complete g Hg Hm) as (x & Hx & Hxd).
    unfold compelled in Hc. rewrite forallb_forall in Hc. specialize (Hc x Hx). apply Hxd in Hc.
    exact (PG.C04.Chickering.no2 g Hg a b Hc Hba).
  - intros Hder. unfold compelled. apply forallb_forall. intros x Hx.
    destruct (class_member_meq x Hx) as [Hxd Hxm].
    destruct (PG.C04.Chickering.Der_essential d Hd a b Hder) as [_ Hess].
    apply pmemb_In. apply (Hess x Hxd Hxm).
Qed.

Lemma compelled_rev a b : In (a, b) E -> compelled (meq_dags d) b a = false.
Proof.
  intros Hab. destruct (compelled (meq_dags d) b a) eqn:Hc; [|reflexivity]. exfalso.
  assert (Hdd : meq d d).
  { split; [split; apply incl_refl|]. split; intros; tauto. }
  destruct (class_complete d Hd Hdd) as (x & Hx & Hxd).
  unfold compelled in Hc. rewrite forallb_forall in Hc. specialize (Hc x Hx). apply Hxd in Hc.
  exact (PG.C04.Chickering.no2 d Hd a b Hab Hc).
Qed.

Theorem meek_complete_all : pdag_eqb (meek_model (pattern_of d)) (essential_graph d) = true.
Proof.
  set (q := meek_model (pattern_of d)).
  pose proof (closure_sub_Der d Hd) as (Hs & He & HD). fold q in Hs, He, HD.
  assert (HV : V q = V d) by (destruct (meek_only_orients_proof (pattern_of d)) as (HV & _); exact HV).
  assert (Hc : rule_closed q) by apply meek_terminates_proof.
  assert (QD : forall a b, has_d q a b = true <-> Der d a b) by (apply closure_eq_Der; assumption).
  assert (Adj : forall a b, padj q a b = padj d a b) by (apply (q_adj d q); assumption).
  assert (EE : forall a b, has_d d a b || has_d d b a = padj d a b).
  { intros a b. unfold padj. assert (Ud : has_u d a b = false) by (unfold has_u; rewrite (dU0 d Hd); reflexivity).
    rewrite Ud, orb_false_r. reflexivity. }
  assert (EP : peq (essential_graph d) q).
  { rewrite essential_graph_ess_with. split; [symmetry; exact HV|]. split; intros a b.
    - rewrite ess_has_d, EE. apply eq_true_iff_eq. rewrite andb_true_iff, QD. split.
      + intros [P C]. apply padj_iff in P. destruct (PG.C04.Chickering.adj_dir d Hd a b P) as [X|X].
        * apply (compelled_Der a b X). exact C.
        * rewrite (compelled_rev b a X) in C. discriminate.
      + intros H. pose proof (PG.C04.Chickering.Der_edge d a b H) as X. split.
        * apply padj_iff. left. exact X.
        * apply (compelled_Der a b X). exact H.
    - rewrite ess_has_u, EE. apply eq_true_iff_eq. rewrite !andb_true_iff, !negb_true_iff. split.
      + intros [P [C1 C2]]. assert (Pq : padj q a b = true) by (rewrite Adj; exact P).
        apply padj_true in Pq. destruct Pq as [X|[X|X]]; [| |exact X]; exfalso.
        * pose proof (proj1 (QD a b) X) as Hder. pose proof (PG.C04.Chickering.Der_edge d a b Hder) as Xe.
          apply (compelled_Der a b Xe) in Hder. congruence.
        * pose proof (proj1 (QD b a) X) as Hder. pose proof (PG.C04.Chickering.Der_edge d b a Hder) as Xe.
          apply (compelled_Der b a Xe) in Hder. congruence.
      + intros H. assert (P : padj d a b = true) by (rewrite <- Adj; apply padj_true; auto).
        split; [exact P|]. destruct (Hs a b H) as [N1 N2].
        apply padj_iff in P. destruct (PG.C04.Chickering.adj_dir d Hd a b P) as [X|X].
        * split; [|apply (compelled_rev a b X)].
          destruct (compelled (meq_dags d) a b) eqn:C; [|reflexivity].
          apply (compelled_Der a b X) in C. apply QD in C. congruence.
        * split; [apply (compelled_rev b a X)|].
          destruct (compelled (meq_dags d) b a) eqn:C; [|reflexivity].
          apply (compelled_Der b a X) in C. apply QD in C. congruence. }
  rewrite pdag_eqb_sym, (pdag_eqb_peq _ _ _ EP). apply pdag_eqb_refl.
Qed.
End MC.
