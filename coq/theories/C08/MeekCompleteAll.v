(* C08: Meek 1995 Thm 3 for ALL sizes: for every DAG d the Meek closure of its pattern equals its essential graph
   (the brute-force oracle of Model.v).  MeekComplete.v + C04/ReversibleDer.v (every non-derivable edge is reversed in a
   Markov equivalent DAG; by b-c04c05, itself resting on the PEO theory of C08/Chordal.v). *)
From Coq Require Import List Arith Bool Lia.
From PG Require Import Base.ListSet Graph.MGraph C08.Model C08.Spec C08.Acyclic C08.MeekDer C08.MeekChain C08.MeekComplete.
From PG Require C04.Dag C04.Chickering C04.ReversibleDer.
Import ListNotations.

Theorem meek_complete_is_dag d : is_dag d -> pdag_eqb (meek_model (pattern_of d)) (essential_graph d) = true.
Proof.
  intros Hd. apply (meek_complete_all d Hd). intros a b. exact (PG.C04.ReversibleDer.Der_or_reversible d Hd a b).
Qed.

(* in the vocabulary of this property: a well-formed graph with only a directed layer that passes the acyclicity test *)
Theorem meek_complete_every_dag d :
  edges_ok (V d) (D d) = true -> B d = [] -> U d = [] -> C d = [] -> acyclicb d = true ->
  pdag_eqb (meek_model (pattern_of d)) (essential_graph d) = true.
Proof.
  intros Hw HB HU HC Hac. apply meek_complete_is_dag.
  split; [exact (proj1 (edges_ok_spec _ _) Hw)|]. split; [exact HB|]. split; [exact HU|]. split; [exact HC|].
  apply rank_of_acyclic; [exact Hw|]. apply acyclicb_sound; [|exact Hac].
  intros x y H. apply pmemb_In in H. apply (proj1 (edges_ok_spec _ _) Hw) in H. tauto.
Qed.

(* the closure's directed edges are exactly the essential ones (Prop-level, C04's [essential]) *)
Theorem closure_directed_iff_essential d : is_dag d -> forall a b,
  has_d (meek_model (pattern_of d)) a b = true <-> PG.C04.Dag.essential d a b.
Proof.
  intros Hd a b. rewrite (PG.C04.ReversibleDer.essential_iff_Der d Hd a b).
  pose proof (closure_sub_Der d Hd) as (Hs & He & HD).
  apply (closure_eq_Der d (meek_model (pattern_of d)) Hd); try assumption.
  - destruct (C08.Proofs.meek_only_orients_proof (pattern_of d)) as (HV & _). exact HV.
  - apply C08.Proofs.meek_terminates_proof.
Qed.

Theorem closure_directed_iff_Der_all d : is_dag d -> forall a b,
  has_d (meek_model (pattern_of d)) a b = true <-> Der d a b.
Proof.
  intros Hd a b. pose proof (closure_sub_Der d Hd) as (Hs & He & HD).
  apply (closure_eq_Der d (meek_model (pattern_of d)) Hd); try assumption.
  - destruct (C08.Proofs.meek_only_orients_proof (pattern_of d)) as (HV & _). exact HV.
  - apply C08.Proofs.meek_terminates_proof.
Qed.

Theorem closure_chain_all d : is_dag d -> forall a b c,
  has_d (meek_model (pattern_of d)) a b = true -> has_u (meek_model (pattern_of d)) b c = true ->
  has_d (meek_model (pattern_of d)) a c = true.
Proof.
  intros Hd a b c. pose proof (closure_sub_Der d Hd) as (Hs & He & HD).
  apply (chain_q d (meek_model (pattern_of d)) Hd); try assumption.
  - destruct (C08.Proofs.meek_only_orients_proof (pattern_of d)) as (HV & _). exact HV.
  - apply C08.Proofs.meek_terminates_proof.
Qed.
