(* C08: the directed edges of the Meek closure of the pattern of a DAG d are exactly the edges derivable in C04's system
   [Der d] (v-structure edges + four orientation rules relative to d, C04/Chickering.v). *)
From Coq Require Import List Arith Bool Lia.
From PG Require Import Base.ListSet Graph.MGraph C08.Model C08.Spec C08.Proofs.
From PG Require C04.Dag C04.DagFacts C04.Chickering.
Import ListNotations.

Notation is_dag := PG.C04.Dag.is_dag.
Notation Padj := PG.C04.Dag.Padj.
Notation Vstr := PG.C04.Dag.Vstr.
Notation Der := PG.C04.Chickering.Der.

Lemma padj_iff g a b : padj g a b = true <-> Padj g a b.
Proof. exact (PG.C04.DagFacts.padj_Padj g a b). Qed.
Lemma padj_niff g a b : padj g a b = false <-> ~ Padj g a b.
Proof. exact (PG.C04.DagFacts.padj_false g a b). Qed.
Lemma vstructb_iff g a c b : vstructb g a c b = true <-> Vstr g a c b.
Proof. exact (PG.C04.DagFacts.vstrb_Vstr g a c b). Qed.

(* a generic invariant of the closure loop *)
Lemma loop_invariant (Inv : mgraph -> Prop) :
  (forall g i j, Inv g -> fires g i j = true -> Inv (orient g i j)) -> forall p, Inv p -> Inv (meek_model p).
Proof.
  intros Hstep.
  assert (S1 : forall g e, Inv g -> Inv (step1 g e)).
  { intros g e Hg. unfold step1. destruct (fires g (fst e) (snd e)) eqn:F; [apply Hstep; assumption|exact Hg]. }
  assert (S2 : forall ps g, Inv g -> Inv (sweep_on ps g)).
  { induction ps as [|e t IH]; intros g Hg; simpl; [exact Hg|apply IH, S1, Hg]. }
  assert (S3 : forall f g, Inv g -> Inv (meek_loop f g)).
  { induction f as [|f IH]; intros g Hg; simpl; [exact Hg|].
    destruct (Nat.eqb _ _); [|apply IH]; apply S2; exact Hg. }
  intros p Hp. apply S3. exact Hp.
Qed.

Section MD.
Variable d : mgraph.
Hypothesis Hd : is_dag d.
Let E := D d.

Let HE : forall a b, In (a, b) E -> In a (V d) /\ In b (V d) /\ a <> b := proj1 Hd.
Lemma dU0 : U d = [].
Proof. pose proof Hd as (_ & _ & H & _). exact H. Qed.

Lemma d_acyclic8 : acyclic d.
Proof.
  pose proof Hd as (_ & _ & _ & _ & [rk Hrk]).
  assert (P : forall a b, dpath d a b -> rk a < rk b).
  { intros a b P. induction P as [a b H|a b c H P IH]; apply pmemb_In in H; apply Hrk in H; lia. }
  intros v Pv. apply P in Pv. lia.
Qed.

Lemma hd_E a b : has_d d a b = true <-> In (a, b) E.
Proof. apply pmemb_In. Qed.

Lemma E_no2 a b : In (a, b) E -> In (b, a) E -> False.
Proof. exact (PG.C04.Chickering.no2 d Hd a b). Qed.

Let p := pattern_of d.

Lemma pat_has_d a b : has_d p a b = true <-> In (a, b) E /\ in_vstruct d a b = true.
Proof. unfold has_d, p, pattern_of. simpl. rewrite pmemb_In, filter_In. simpl. tauto. Qed.

Lemma pat_has_u a b : has_u p a b = true <->
  (In (a, b) E /\ in_vstruct d a b = false) \/ (In (b, a) E /\ in_vstruct d b a = false).
Proof.
  unfold has_u, p, pattern_of. simpl. rewrite smemb_In, !filter_In. simpl. rewrite !negb_true_iff. tauto.
Qed.

Lemma pat_padj a b : padj d a b = padj p a b.
Proof.
  apply eq_true_iff_eq. rewrite !padj_true, !pat_has_d, pat_has_u, !hd_E.
  assert (Ud : has_u d a b = false) by (unfold has_u; rewrite dU0; reflexivity). rewrite Ud.
  destruct (in_vstruct d a b); destruct (in_vstruct d b a); intuition discriminate.
Qed.

Lemma in_vstruct_iff a c : in_vstruct d a c = true <-> exists b, vstructb d a c b = true.
Proof.
  unfold in_vstruct. rewrite existsb_exists. split; [intros [b [_ H]]; exists b; exact H|].
  intros [b H]. exists b. split; [|exact H]. unfold vstructb in H. rewrite !andb_true_iff in H.
  destruct H as [[[_ H] _] _]. apply hd_E in H. apply HE in H. tauto.
Qed.

Lemma pat_simple : simple_pdag p.
Proof.
  intros a b H. apply pat_has_u in H. split.
  - destruct (has_d p a b) eqn:X; [|reflexivity]. apply pat_has_d in X. destruct X as [X1 X2].
    destruct H as [[_ H]|[H _]]; [congruence|destruct (E_no2 a b X1 H)].
  - destruct (has_d p b a) eqn:X; [|reflexivity]. apply pat_has_d in X. destruct X as [X1 X2].
    destruct H as [[H _]|[_ H]]; [destruct (E_no2 a b H X1)|congruence].
Qed.

Lemma pat_ext : consistent_ext p d.
Proof.
  unfold consistent_ext. split; [exact dU0|]. split; [exact d_acyclic8|]. split; [split; apply incl_refl|].
  split; [exact pat_padj|]. split.
  - intros [a b] H. apply hd_E. apply pmemb_In in H. apply pat_has_d in H. apply hd_E. tauto.
  - intros a c b. unfold vstructb at 2. rewrite <- pat_padj. fold (vstructb d a c b). split.
    + intros X. pose proof X as Y. unfold vstructb in Y. rewrite !andb_true_iff in Y.
      destruct Y as [[[Y1 Y2] Y3] Y4].
      assert (P1 : has_d p a c = true).
      { apply pat_has_d. split; [apply hd_E; exact Y1|]. apply in_vstruct_iff. exists b. exact X. }
      assert (P2 : has_d p b c = true).
      { apply pat_has_d. split; [apply hd_E; exact Y2|]. apply in_vstruct_iff. exists a.
        unfold vstructb. rewrite Y1, Y2. rewrite padj_sym, Nat.eqb_sym. rewrite Y4. simpl.
        rewrite andb_true_r. exact Y3. }
      rewrite P1, P2, Y3, Y4. reflexivity.
    + rewrite !andb_true_iff. intros [[[Y1 Y2] Y3] Y4]. apply pat_has_d in Y1. apply pat_has_d in Y2.
      unfold vstructb. rewrite (proj2 (hd_E a c) (proj1 Y1)), (proj2 (hd_E b c) (proj1 Y2)), Y3, Y4. reflexivity.
Qed.

Let q := meek_model p.

Lemma q_inv : simple_pdag q /\ consistent_ext q d.
Proof. apply (inv_loop d _ p). split; [exact pat_simple|exact pat_ext]. Qed.

(* ---------- (1a) every directed edge of the closure is derivable ---------- *)
Definition InvDer (g : mgraph) : Prop :=
  simple_pdag g /\ consistent_ext g d /\ forall a b, has_d g a b = true -> Der d a b.

Lemma Vstr_of a c b : vstructb d a c b = true -> Vstr d a c b.
Proof. apply vstructb_iff. Qed.

Lemma InvDer_pat : InvDer p.
Proof.
  split; [exact pat_simple|]. split; [exact pat_ext|]. intros a b H. apply pat_has_d in H.
  destruct H as [_ H]. apply in_vstruct_iff in H. destruct H as [c H].
  apply (PG.C04.Chickering.DV d a b c). apply Vstr_of. exact H.
Qed.

Lemma InvDer_step g i j : InvDer g -> fires g i j = true -> InvDer (orient g i j).
Proof.
  intros (Hs & He & HD) F.
  pose proof (fires_sound g d Hs He i j F) as Hij. apply hd_E in Hij.
  pose proof (fires_has_u _ _ _ F) as Hu.
  pose proof He as (_ & _ & _ & Hadj & _ & Hv).
  split; [apply simple_orient; assumption|]. split; [apply ext_orient; assumption|].
  intros a b H. apply has_d_orient_true in H. destruct H as [Eab|H]; [|apply HD; exact H].
  inversion Eab; subst a b. clear Eab.
  assert (NP : forall x y, padj g x y = false -> ~ Padj d x y).
  { intros x y N. apply padj_niff. rewrite Hadj. exact N. }
  assert (PP : forall x y, padj g x y = true -> Padj d x y).
  { intros x y N. apply padj_iff. rewrite Hadj. exact N. }
  unfold fires in F. apply andb_true_iff in F. destruct F as [_ F].
  rewrite !orb_true_iff in F. destruct F as [[[F|F]|F]|F].
  - unfold r1 in F. apply existsb_exists in F. destruct F as [k [Hk Hn]].
    apply parents_In in Hk. destruct Hk as [_ Hk]. apply negb_true_iff in Hn.
    apply (PG.C04.Chickering.D1 d k i j); [apply HD; exact Hk|exact Hij|apply NP; exact Hn].
  - unfold r2 in F. apply existsb_exists in F. destruct F as [k [Hk Hkj]].
    apply children_In in Hk. destruct Hk as [_ Hk].
    apply (PG.C04.Chickering.D2 d i k j); [apply HD; exact Hk|apply HD; exact Hkj|exact Hij].
  - unfold r3 in F. apply existsb_exists in F. destruct F as [k [Hk F]].
    apply andb_true_iff in F. destruct F as [Hik F]. apply existsb_exists in F. destruct F as [l [Hl F]].
    rewrite !andb_true_iff, !negb_true_iff, Nat.eqb_neq in F. destruct F as [[Hil Hne] Hna].
    apply parents_In in Hk. destruct Hk as [_ Hk]. apply parents_In in Hl. destruct Hl as [_ Hl].
    apply (PG.C04.Chickering.D3 d i j k l); try (apply HD; assumption); try assumption.
    + apply PP. apply padj_true. auto.
    + apply PP. apply padj_true. auto.
    + apply NP. exact Hna.
    + intros [X1 X2].
      (* k -> i <- l would be a v-structure of d, hence directed in g: but i - k is undirected *)
      assert (Vs : vstructb d k i l = true).
      { unfold vstructb. rewrite (proj2 (hd_E k i) X1), (proj2 (hd_E l i) X2), (proj2 (Nat.eqb_neq k l) Hne).
        rewrite Hadj, Hna. reflexivity. }
      apply Hv in Vs. unfold vstructb in Vs. rewrite !andb_true_iff in Vs. destruct Vs as [[[Y _] _] _].
      destruct (Hs i k Hik) as [_ Z]. congruence.
  - unfold r4 in F. apply existsb_exists in F. destruct F as [l [Hl F]].
    apply andb_true_iff in F. destruct F as [Hil F]. apply existsb_exists in F. destruct F as [k [Hk F]].
    rewrite andb_true_iff, negb_true_iff in F. destruct F as [Hik Hna].
    apply parents_In in Hk. destruct Hk as [_ Hk]. apply parents_In in Hl. destruct Hl as [_ Hl].
    apply (PG.C04.Chickering.D4 d i j k l); try (apply HD; assumption); try assumption.
    + apply PP. apply padj_true. auto.
    + apply NP. exact Hna.
    + apply PP. exact Hil.
Qed.

Theorem closure_sub_Der : InvDer q.
Proof. apply (loop_invariant InvDer); [exact InvDer_step|exact InvDer_pat]. Qed.
End MD.
