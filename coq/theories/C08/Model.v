(* C08: executable model of the Meek-rule closure (pywhy_graphs/algorithms/pag.py L922-1113, _apply_meek_rules and
   _meek_rule1.._meek_rule4) in the form the property demands: the four TEXTBOOK rules, stated with PARENTS / CHILDREN
   (the code as it stands uses AncestralMixin.predecessors / successors = ancestors / descendants, see Refuted.v).
   A PDAG is an [mgraph] of which only the layers D (directed) and U (undirected) are read.
   Also in this file: the brute-force spec oracles (all orientations, consistent extensions, essential graph). *)
From Coq Require Import List Arith Bool Lia.
From PG Require Import Base.ListSet Base.Closure Base.Sx Graph.MGraph.
Import ListNotations.

(* adjacency in a PDAG *)
Definition padj (g : mgraph) (a b : nat) : bool := has_d g a b || has_d g b a || has_u g a b.

(* ---------- the four rules for an ordered pair (i,j) with i - j ---------- *)
(* R1: k -> i, k and j non-adjacent *)
Definition r1 (g : mgraph) (i j : nat) : bool :=
  existsb (fun k => negb (padj g k j)) (parents g i).
(* R2: i -> k -> j *)
Definition r2 (g : mgraph) (i j : nat) : bool :=
  existsb (fun k => has_d g k j) (children g i).
(* R3: i - k -> j, i - l -> j, k and l non-adjacent (k <> l) *)
Definition r3 (g : mgraph) (i j : nat) : bool :=
  existsb (fun k => has_u g i k &&
     existsb (fun l => has_u g i l && negb (Nat.eqb k l) && negb (padj g k l)) (parents g j))
    (parents g j).
(* R4: i - k -> l -> j, k and j non-adjacent, i adjacent to l *)
Definition r4 (g : mgraph) (i j : nat) : bool :=
  existsb (fun l => padj g i l &&
     existsb (fun k => has_u g i k && negb (padj g k j)) (parents g l))
    (parents g j).

Definition fires (g : mgraph) (i j : nat) : bool :=
  has_u g i j && (r1 g i j || r2 g i j || r3 g i j || r4 g i j).

(* CPDAG.orient_uncertain_edge: remove the undirected edge {i,j}, add i -> j *)
Definition und_is (i j : nat) (e : nat * nat) : bool := pair_eqb e (i, j) || pair_eqb e (j, i).
Definition orient (g : mgraph) (i j : nat) : mgraph :=
  MkG (V g) ((i, j) :: D g) (B g) (filter (fun e => negb (und_is i j e)) (U g)) (C g).

Definition step1 (g : mgraph) (e : nat * nat) : mgraph :=
  if fires g (fst e) (snd e) then orient g (fst e) (snd e) else g.

(* ordered pairs in the sweep order of the code: for i in nodes: for j in ... *)
Definition all_pairs (vs : list nat) : list (nat * nat) :=
  flat_map (fun a => map (fun b => (a, b)) vs) vs.

Definition sweep_on (ps : list (nat * nat)) (g : mgraph) : mgraph := fold_left step1 ps g.
Definition sweep (g : mgraph) : mgraph := sweep_on (all_pairs (V g)) g.

(* while change_flag: sweep.  One successful sweep removes at least one undirected edge. *)
Fixpoint meek_loop (fuel : nat) (g : mgraph) : mgraph :=
  match fuel with
  | 0 => g
  | S f => let g' := sweep g in
           if Nat.eqb (length (U g')) (length (U g)) then g' else meek_loop f g'
  end.

Definition meek_model (g : mgraph) : mgraph := meek_loop (S (length (U g))) g.

(* ---------- spec oracles (brute force) ---------- *)
(* v-structure a -> c <- b with a, b distinct and non-adjacent (read on the directed layer) *)
Definition vstructb (g : mgraph) (a c b : nat) : bool :=
  has_d g a c && has_d g b c && negb (Nat.eqb a b) && negb (padj g a b).

Definition same_vstructs (p d : mgraph) : bool :=
  forallb (fun a => forallb (fun c => forallb (fun b => Bool.eqb (vstructb p a c b) (vstructb d a c b)) (V p)) (V p)) (V p).

(* all ways to orient a list of undirected edges *)
Fixpoint orientations (us : list (nat * nat)) : list (list (nat * nat)) :=
  match us with
  | [] => [[]]
  | (a, b) :: t => let r := orientations t in map (cons (a, b)) r ++ map (cons (b, a)) r
  end.

Definition dir_graph (vs : list nat) (ds : list (nat * nat)) : mgraph := MkG vs ds [] [] [].

(* undirected edges of p, one representative per unordered pair *)
Fixpoint udedup (l : list (nat * nat)) : list (nat * nat) :=
  match l with
  | [] => []
  | e :: t => if smemb (fst e) (snd e) t then udedup t else e :: udedup t
  end.

(* candidate full orientations of p: D p plus one direction per undirected edge *)
Definition candidates (p : mgraph) : list mgraph :=
  map (fun o => dir_graph (V p) (o ++ D p)) (orientations (udedup (U p))).

(* d (a candidate: same skeleton, D p included) is a consistent extension: acyclic, same v-structures *)
Definition is_ext (p d : mgraph) : bool := acyclicb d && same_vstructs p d.

Definition extensions (p : mgraph) : list mgraph := filter (is_ext p) (candidates p).
Definition has_extension (p : mgraph) : bool := match extensions p with [] => false | _ => true end.

(* maximally oriented graph: a - b becomes a -> b iff every consistent extension has a -> b *)
Definition compelled (exts : list mgraph) (a b : nat) : bool := forallb (fun d => has_d d a b) exts.
Definition max_oriented (p : mgraph) : mgraph :=
  let exts := extensions p in
  let us := udedup (U p) in
  MkG (V p)
      (D p ++ filter (fun e => compelled exts (fst e) (snd e)) us
           ++ map (fun e => (snd e, fst e)) (filter (fun e => compelled exts (snd e) (fst e)) us))
      []
      (filter (fun e => negb (compelled exts (fst e) (snd e)) && negb (compelled exts (snd e) (fst e))) us)
      [].

(* pattern of a DAG: skeleton, exactly the v-structure edges directed *)
Definition in_vstruct (d : mgraph) (a c : nat) : bool :=
  existsb (fun b => vstructb d a c b) (V d).
Definition pattern_of (d : mgraph) : mgraph :=
  MkG (V d) (filter (fun e => in_vstruct d (fst e) (snd e)) (D d)) []
      (filter (fun e => negb (in_vstruct d (fst e) (snd e))) (D d)) [].

(* essential graph of a DAG d: the maximally oriented graph of the skeleton w.r.t. the Markov-equivalent DAGs
   (same skeleton, same v-structures), by enumeration of all orientations of the skeleton *)
Definition skeleton_of (d : mgraph) : mgraph := MkG (V d) [] [] (D d) [].
Definition meq_dags (d : mgraph) : list mgraph :=
  filter (fun d' => acyclicb d' && same_vstructs d d') (candidates (skeleton_of d)).
Definition essential_graph (d : mgraph) : mgraph :=
  let cls := meq_dags d in
  let us := udedup (D d) in
  MkG (V d)
      (filter (fun e => compelled cls (fst e) (snd e)) us
         ++ map (fun e => (snd e, fst e)) (filter (fun e => compelled cls (snd e) (fst e)) us))
      []
      (filter (fun e => negb (compelled cls (fst e) (snd e)) && negb (compelled cls (snd e) (fst e))) us)
      [].

(* equality of PDAGs as edge sets *)
Definition pincl (l m : list (nat * nat)) : bool := forallb (fun e => pmemb e m) l.
Definition sincl (l m : list (nat * nat)) : bool := forallb (fun e => smemb (fst e) (snd e) m) l.
Definition pdag_eqb (g h : mgraph) : bool :=
  seteqb (V g) (V h) && pincl (D g) (D h) && pincl (D h) (D g) && sincl (U g) (U h) && sincl (U h) (U g).

(* ---------- run_case ----------
   L [I 0; pdag]        -> L [D q; U q; I has_ext; D m; U m]   q = meek_model pdag, m = max_oriented pdag (oracle)
   L [I 1; pdag]        -> L [D q; U q]                          model only (large graphs)
   L [I 2; pdag; dag]   -> L [D q; U q; D e; U e; I pat_ok]     e = essential_graph dag, pat_ok: pdag = pattern_of dag *)
Definition out_du (g : mgraph) : list sx := [of_pairs (psort_set (D g)); of_pairs (norm_pairs (U g))].

Definition run_case (s : sx) : sx :=
  let p := sx_graph (sx_nth s 1) in
  let q := meek_model p in
  match sx_nat (sx_nth s 0) with
  | 0 => let m := max_oriented p in
         L (out_du q ++ [of_bool (has_extension p)] ++ out_du m)
  | 1 => L (out_du q)
  | _ => let d := sx_graph (sx_nth s 2) in
         L (out_du q ++ out_du (essential_graph d) ++ [of_bool (pdag_eqb p (pattern_of d))])
  end.
