(* C08: unbounded proofs about meek_model: only orients, terminates on a rule-closed graph, sound. *)
From Coq Require Import List Arith Bool Lia.
From PG Require Import Base.ListSet Base.Closure Base.Sx Graph.MGraph C08.Model C08.Spec.
Import ListNotations.

(* ---------- orient ---------- *)
Lemma und_is_spec i j e : und_is i j e = true <-> e = (i, j) \/ e = (j, i).
Proof. unfold und_is. rewrite orb_true_iff, !pair_eqb_eq. tauto. Qed.

Lemma has_d_orient g i j a b : has_d (orient g i j) a b = pair_eqb (a, b) (i, j) || has_d g a b.
Proof. reflexivity. Qed.

Lemma has_d_orient_true g i j a b :
  has_d (orient g i j) a b = true <-> (a, b) = (i, j) \/ has_d g a b = true.
Proof. rewrite has_d_orient, orb_true_iff, pair_eqb_eq. tauto. Qed.

Lemma has_u_orient g i j a b :
  has_u (orient g i j) a b = true <->
  has_u g a b = true /\ ~ ((a, b) = (i, j) \/ (a, b) = (j, i)).
Proof.
  unfold has_u, orient; simpl. rewrite !smemb_In, !filter_In, !negb_true_iff.
  assert (E1 : und_is i j (a, b) = false <-> ~ ((a, b) = (i, j) \/ (a, b) = (j, i))).
  { rewrite <- und_is_spec. destruct (und_is i j (a, b)); split; congruence. }
  assert (E2 : und_is i j (b, a) = false <-> ~ ((a, b) = (i, j) \/ (a, b) = (j, i))).
  { rewrite <- E1. unfold und_is. rewrite !orb_false_iff.
    assert (X : forall p q, pair_eqb p q = false <-> p <> q).
    { intros p q. rewrite <- pair_eqb_eq. destruct (pair_eqb p q); split; congruence. }
    rewrite !X. split; intros [H1 H2]; split; intro H; inversion H; subst; congruence. }
  rewrite E1, E2. tauto.
Qed.

Lemma has_u_true_sym g a b : has_u g a b = true -> has_u g b a = true.
Proof. rewrite (has_u_sym g a b). auto. Qed.

Lemma padj_true g a b : padj g a b = true <-> has_d g a b = true \/ has_d g b a = true \/ has_u g a b = true.
Proof. unfold padj. rewrite !orb_true_iff. tauto. Qed.

Lemma padj_sym g a b : padj g a b = padj g b a.
Proof. unfold padj. rewrite (has_u_sym g a b). destruct (has_d g a b), (has_d g b a); reflexivity. Qed.

Lemma orient_padj g i j a b : has_u g i j = true -> padj (orient g i j) a b = padj g a b.
Proof.
  intros Hu. apply eq_true_iff_eq. rewrite !padj_true, !has_d_orient_true, has_u_orient. split.
  - intros [[E|H]|[[E|H]|[H _]]]; auto.
    + inversion E; subst. auto.
    + inversion E; subst. right; right. apply has_u_true_sym. exact Hu.
  - intros [H|[H|H]]; auto.
    destruct (pair_eqb (a, b) (i, j)) eqn:E1; [apply pair_eqb_eq in E1; auto|].
    destruct (pair_eqb (b, a) (i, j)) eqn:E2; [apply pair_eqb_eq in E2; auto|].
    right; right. split; [exact H|]. intros [E|E].
    + apply pair_eqb_eq in E. congruence.
    + inversion E; subst. rewrite (proj2 (pair_eqb_eq (i, j) (i, j)) eq_refl) in E2. discriminate.
Qed.

Lemma orient_U_incl g i j : incl (U (orient g i j)) (U g).
Proof. intros e He. simpl in He. apply filter_In in He. tauto. Qed.

Lemma filter_length_le {A} (f : A -> bool) l : length (filter f l) <= length l.
Proof. induction l as [|x t IH]; simpl; [lia|]. destruct (f x); simpl; lia. Qed.

Lemma filter_length_lt {A} (f : A -> bool) l x : In x l -> f x = false -> length (filter f l) < length l.
Proof.
  induction l as [|y t IH]; simpl; [tauto|]. intros [->|H] Hf.
  - rewrite Hf. pose proof (filter_length_le f t). lia.
  - specialize (IH H Hf). destruct (f y); simpl; lia.
Qed.

Lemma orient_U_lt g i j : has_u g i j = true -> length (U (orient g i j)) < length (U g).
Proof.
  intros Hu. unfold has_u in Hu. apply smemb_In in Hu. simpl.
  destruct Hu as [H|H]; eapply filter_length_lt; try exact H; apply negb_false_iff, und_is_spec; auto.
Qed.

Lemma fires_has_u g i j : fires g i j = true -> has_u g i j = true.
Proof. unfold fires. rewrite andb_true_iff. tauto. Qed.

(* ---------- only_orients ---------- *)
Lemma only_orients_refl p : only_orients p p.
Proof. unfold only_orients. repeat split; auto using incl_refl. Qed.

Lemma only_orients_orient p g i j : only_orients p g -> has_u g i j = true -> only_orients p (orient g i j).
Proof.
  intros (HV & HB & HC & Hadj & HD & HU & Hnew) F.
  unfold only_orients. repeat split; auto.
  - intros a b. rewrite orient_padj by exact F. apply Hadj.
  - simpl. apply incl_tl. exact HD.
  - eapply incl_tran; [apply orient_U_incl|exact HU].
  - intros a b [E|H]; [|auto]. inversion E; subst a b. right.
    unfold has_u in *. apply smemb_In in F. apply smemb_In. destruct F as [F|F]; [left|right]; apply HU; exact F.
Qed.

Lemma only_orients_step p g e : only_orients p g -> only_orients p (step1 g e).
Proof.
  intros H. unfold step1.
  destruct (fires g (fst e) (snd e)) eqn:F; [|exact H].
  apply only_orients_orient; [exact H|apply fires_has_u; exact F].
Qed.

Lemma only_orients_trans p q r : only_orients p q -> only_orients q r -> only_orients p r.
Proof.
  intros (HV & HB & HC & Hadj & HD & HU & Hnew) (HV' & HB' & HC' & Hadj' & HD' & HU' & Hnew').
  unfold only_orients.
  split; [congruence|]. split; [congruence|]. split; [congruence|].
  split; [intros a b; rewrite Hadj'; apply Hadj|].
  split; [eapply incl_tran; eassumption|]. split; [eapply incl_tran; eassumption|].
  intros a b H. apply Hnew' in H. destruct H as [H|H]; [auto|]. right.
  unfold has_u in *. apply smemb_In in H. apply smemb_In. destruct H as [H|H]; [left|right]; apply HU; exact H.
Qed.

Lemma only_orients_sweep_on p ps : forall g, only_orients p g -> only_orients p (sweep_on ps g).
Proof.
  induction ps as [|e t IH]; intros g H; simpl; [exact H|]. apply IH. apply only_orients_step. exact H.
Qed.

Lemma only_orients_loop p fuel : forall g, only_orients p g -> only_orients p (meek_loop fuel g).
Proof.
  induction fuel as [|f IH]; intros g H; simpl; [exact H|].
  destruct (Nat.eqb _ _); [|apply IH]; apply only_orients_sweep_on; exact H.
Qed.

Theorem meek_only_orients_proof p : only_orients p (meek_model p).
Proof. apply only_orients_loop, only_orients_refl. Qed.

(* ---------- termination ---------- *)
Lemma step1_len g e : length (U (step1 g e)) <= length (U g).
Proof.
  unfold step1. destruct (fires _ _ _) eqn:F; [|lia].
  apply fires_has_u, orient_U_lt in F. lia.
Qed.

Lemma sweep_on_len ps : forall g, length (U (sweep_on ps g)) <= length (U g).
Proof.
  induction ps as [|e t IH]; intros g; simpl; [lia|].
  specialize (IH (step1 g e)). pose proof (step1_len g e). lia.
Qed.

Lemma sweep_on_fix ps : forall g, length (U (sweep_on ps g)) = length (U g) ->
  sweep_on ps g = g /\ forall e, In e ps -> fires g (fst e) (snd e) = false.
Proof.
  induction ps as [|e t IH]; intros g H; simpl in *; [split; [reflexivity|tauto]|].
  unfold step1 in *. destruct (fires g (fst e) (snd e)) eqn:F.
  - apply fires_has_u, orient_U_lt in F.
    pose proof (sweep_on_len t (orient g (fst e) (snd e))). lia.
  - destruct (IH g H) as [E1 E2]. split; [exact E1|]. intros e' [<-|He']; auto.
Qed.

Lemma all_pairs_In vs i j : In i vs -> In j vs -> In (i, j) (all_pairs vs).
Proof.
  intros Hi Hj. unfold all_pairs. apply in_flat_map. exists i. split; [exact Hi|].
  apply in_map. exact Hj.
Qed.

Lemma meek_loop_closed fuel : forall g, length (U g) < fuel -> rule_closed (meek_loop fuel g).
Proof.
  induction fuel as [|f IH]; intros g Hl; [lia|]. simpl.
  destruct (Nat.eqb _ _) eqn:E.
  - apply Nat.eqb_eq in E. apply sweep_on_fix in E. destruct E as [E1 E2].
    unfold sweep in *. rewrite E1. intros i j Hi Hj.
    apply (E2 (i, j)). apply all_pairs_In; assumption.
  - apply Nat.eqb_neq in E. apply IH.
    pose proof (sweep_on_len (all_pairs (V g)) g). unfold sweep in *. lia.
Qed.

Lemma meek_loop_len fuel : forall g, length (U (meek_loop fuel g)) <= length (U g).
Proof.
  induction fuel as [|f IH]; intros g; simpl; [lia|].
  pose proof (sweep_on_len (all_pairs (V g)) g) as H. unfold sweep.
  destruct (Nat.eqb _ _); [exact H|]. specialize (IH (sweep_on (all_pairs (V g)) g)). lia.
Qed.

Lemma meek_model_len g : length (U (meek_model g)) <= length (U g).
Proof. apply meek_loop_len. Qed.

Theorem meek_terminates_proof p : rule_closed (meek_model p).
Proof. apply meek_loop_closed. lia. Qed.

(* ---------- soundness ---------- *)
Lemma simple_orient g i j : simple_pdag g -> has_u g i j = true -> simple_pdag (orient g i j).
Proof.
  intros Hs Hu a b H. apply has_u_orient in H. destruct H as [H Hne].
  destruct (Hs a b H) as [H1 H2]. rewrite !has_d_orient, H1, H2, !orb_false_r. split.
  - destruct (pair_eqb (a, b) (i, j)) eqn:E; [apply pair_eqb_eq in E; tauto|reflexivity].
  - destruct (pair_eqb (b, a) (i, j)) eqn:E; [|reflexivity].
    apply pair_eqb_eq in E. inversion E; subst. tauto.
Qed.

Lemma has_d_In g a b : has_d g a b = true <-> In (a, b) (D g).
Proof. apply pmemb_In. Qed.

Section Sound.
Variables (g d : mgraph).
Hypothesis Hs : simple_pdag g.
Hypothesis Hext : consistent_ext g d.

Let HUd : U d = [] := proj1 Hext.
Let Hac : acyclic d := proj1 (proj2 Hext).
Let Hadj : forall a b, padj d a b = padj g a b := proj1 (proj2 (proj2 (proj2 Hext))).
Let HD : incl (D g) (D d) := proj1 (proj2 (proj2 (proj2 (proj2 Hext)))).
Let Hv : forall a c b, vstructb d a c b = true <-> vstructb g a c b = true := proj2 (proj2 (proj2 (proj2 (proj2 Hext)))).

Lemma d_of_g a b : has_d g a b = true -> has_d d a b = true.
Proof. rewrite !has_d_In. apply HD. Qed.

Lemma d_dir a b : padj g a b = true -> has_d d a b = true \/ has_d d b a = true.
Proof.
  intros H. rewrite <- Hadj in H. apply padj_true in H.
  destruct H as [H|[H|H]]; auto. unfold has_u in H. rewrite HUd in H. discriminate.
Qed.

Lemma u_dir a b : has_u g a b = true -> has_d d a b = true \/ has_d d b a = true.
Proof. intros H. apply d_dir. apply padj_true. auto. Qed.

Lemma vs_in_d a c b : has_d d a c = true -> has_d d b c = true -> a <> b -> padj g a b = false ->
  has_d g a c = true /\ has_d g b c = true.
Proof.
  intros H1 H2 Hne Hna.
  assert (X : vstructb d a c b = true).
  { unfold vstructb. rewrite H1, H2, Hadj, Hna. simpl. rewrite (proj2 (Nat.eqb_neq a b) Hne). reflexivity. }
  apply Hv in X. unfold vstructb in X. rewrite !andb_true_iff in X. tauto.
Qed.

Lemma cyc2 a b : has_d d a b = true -> has_d d b a = true -> False.
Proof. intros H1 H2. apply (Hac a). eapply dp_cons; [exact H1|]. apply dp_one. exact H2. Qed.
Lemma cyc3 a b c : has_d d a b = true -> has_d d b c = true -> has_d d c a = true -> False.
Proof. intros H1 H2 H3. apply (Hac a). eapply dp_cons; [exact H1|]. eapply dp_cons; [exact H2|]. apply dp_one. exact H3. Qed.
Lemma cyc4 a b c e : has_d d a b = true -> has_d d b c = true -> has_d d c e = true -> has_d d e a = true -> False.
Proof.
  intros H1 H2 H3 H4. apply (Hac a). eapply dp_cons; [exact H1|]. eapply dp_cons; [exact H2|].
  eapply dp_cons; [exact H3|]. apply dp_one. exact H4.
Qed.

Lemma u_not_d a b : has_u g a b = true -> has_d g b a = true -> False.
Proof. intros H1 H2. destruct (Hs a b H1) as [_ H]. congruence. Qed.

Lemma r1_sound i j : has_u g i j = true -> r1 g i j = true -> has_d d j i = true -> False.
Proof.
  intros Hu H Hji. unfold r1 in H. apply existsb_exists in H. destruct H as [k [Hk Hna]].
  apply parents_In in Hk. destruct Hk as [_ Hk]. apply negb_true_iff in Hna.
  destruct (Nat.eq_dec k j) as [->|Hne]; [exact (u_not_d i j Hu Hk)|].
  destruct (vs_in_d k i j (d_of_g _ _ Hk) Hji Hne Hna) as [_ H]. exact (u_not_d i j Hu H).
Qed.

Lemma r2_sound i j : r2 g i j = true -> has_d d j i = true -> False.
Proof.
  intros H Hji. unfold r2 in H. apply existsb_exists in H. destruct H as [k [Hk Hkj]].
  apply children_In in Hk. destruct Hk as [_ Hk].
  eapply cyc3; [apply d_of_g; exact Hk|apply d_of_g; exact Hkj|exact Hji].
Qed.

Lemma r3_sound i j : r3 g i j = true -> has_d d j i = true -> False.
Proof.
  intros H Hji. unfold r3 in H. apply existsb_exists in H. destruct H as [k [Hk H]].
  apply andb_true_iff in H. destruct H as [Hik H]. apply existsb_exists in H. destruct H as [l [Hl H]].
  rewrite !andb_true_iff, !negb_true_iff, Nat.eqb_neq in H. destruct H as [[Hil Hne] Hna].
  apply parents_In in Hk. destruct Hk as [_ Hk]. apply parents_In in Hl. destruct Hl as [_ Hl].
  assert (Hki : has_d d k i = true).
  { destruct (u_dir i k Hik) as [X|X]; [|exact X]. exfalso. eapply cyc3; [exact Hji|exact X|apply d_of_g; exact Hk]. }
  assert (Hli : has_d d l i = true).
  { destruct (u_dir i l Hil) as [X|X]; [|exact X]. exfalso. eapply cyc3; [exact Hji|exact X|apply d_of_g; exact Hl]. }
  destruct (vs_in_d k i l Hki Hli Hne Hna) as [X _]. exact (u_not_d i k Hik X).
Qed.

Lemma r4_sound i j : r4 g i j = true -> has_d d j i = true -> False.
Proof.
  intros H Hji. unfold r4 in H. apply existsb_exists in H. destruct H as [l [Hl H]].
  apply andb_true_iff in H. destruct H as [_ H]. apply existsb_exists in H. destruct H as [k [Hk H]].
  rewrite andb_true_iff, negb_true_iff in H. destruct H as [Hik Hna].
  apply parents_In in Hk. destruct Hk as [_ Hk]. apply parents_In in Hl. destruct Hl as [_ Hl].
  assert (Hki : has_d d k i = true).
  { destruct (u_dir i k Hik) as [X|X]; [|exact X]. exfalso.
    eapply cyc4; [exact X|apply d_of_g; exact Hk|apply d_of_g; exact Hl|exact Hji]. }
  destruct (Nat.eq_dec k j) as [->|Hne].
  - eapply cyc2; [apply d_of_g; exact Hk|apply d_of_g; exact Hl].
  - destruct (vs_in_d k i j Hki Hji Hne Hna) as [X _]. exact (u_not_d i k Hik X).
Qed.

Lemma fires_sound i j : fires g i j = true -> has_d d i j = true.
Proof.
  intros F. unfold fires in F. apply andb_true_iff in F. destruct F as [Hu F].
  destruct (u_dir i j Hu) as [X|X]; [exact X|exfalso].
  rewrite !orb_true_iff in F. destruct F as [[[F|F]|F]|F].
  - eapply r1_sound; eauto.
  - eapply r2_sound; eauto.
  - eapply r3_sound; eauto.
  - eapply r4_sound; eauto.
Qed.

Lemma ext_orient i j : fires g i j = true -> consistent_ext (orient g i j) d.
Proof.
  intros F. pose proof (fires_sound i j F) as Hij. pose proof (fires_has_u _ _ _ F) as Hu.
  pose proof Hext as (H1 & H2 & H3 & H4 & H5 & H6).
  unfold consistent_ext. repeat split; auto; try apply H3.
  - intros a b. rewrite orient_padj by exact Hu. apply Hadj.
  - intros e [<-|He]; [apply has_d_In; exact Hij|apply HD; exact He].
  - intros X. apply Hv in X. unfold vstructb in *. rewrite orient_padj by exact Hu.
    rewrite !andb_true_iff in *. rewrite !has_d_orient_true. tauto.
  - intros X. unfold vstructb in X. rewrite orient_padj in X by exact Hu.
    rewrite !andb_true_iff in X. rewrite !has_d_orient_true in X.
    destruct X as [[[Xa Xb] Xc] Xd].
    assert (Y : forall x y, (x, y) = (i, j) \/ has_d g x y = true -> has_d d x y = true).
    { intros x y [E|E]; [inversion E; subst; exact Hij|apply d_of_g; exact E]. }
    unfold vstructb. rewrite (Y _ _ Xa), (Y _ _ Xb), Xc, Hadj, Xd. reflexivity.
Qed.
End Sound.

Definition inv_sound (d g : mgraph) : Prop := simple_pdag g /\ consistent_ext g d.

Lemma inv_step d g e : inv_sound d g -> inv_sound d (step1 g e).
Proof.
  intros [Hs He]. unfold step1. destruct (fires g (fst e) (snd e)) eqn:F; [|split; assumption].
  split; [apply simple_orient; [exact Hs|apply fires_has_u; exact F]|apply ext_orient; assumption].
Qed.

Lemma inv_sweep_on d ps : forall g, inv_sound d g -> inv_sound d (sweep_on ps g).
Proof. induction ps as [|e t IH]; intros g H; simpl; [exact H|apply IH, inv_step, H]. Qed.

Lemma inv_loop d fuel : forall g, inv_sound d g -> inv_sound d (meek_loop fuel g).
Proof.
  induction fuel as [|f IH]; intros g H; simpl; [exact H|].
  destruct (Nat.eqb _ _); [|apply IH]; apply inv_sweep_on; exact H.
Qed.

(* the set of consistent extensions is preserved: every extension of p is an extension of the closure *)
Theorem meek_ext_preserved p d : simple_pdag p -> consistent_ext p d -> consistent_ext (meek_model p) d.
Proof. intros Hs He. apply (inv_loop d _ p). split; assumption. Qed.

Theorem meek_sound_proof p : simple_pdag p -> sound_for p (meek_model p).
Proof.
  intros Hs d He. pose proof (meek_ext_preserved p d Hs He) as H.
  destruct H as (_ & _ & _ & _ & H & _). exact H.
Qed.

(* conversely every extension of the closure is an extension of p when it has no v-structure beyond those of p:
   not needed for the property; the closure never loses an extension, which is the soundness clause. *)

(* non-vacuity: a PDAG with an extension on which rule 1 fires *)
Example sound_example :
  let p := MkG [0; 1; 2] [(0, 1)] [] [(1, 2)] [] in
  let d := MkG [0; 1; 2] [(1, 2); (0, 1)] [] [] [] in
  D (meek_model p) = [(1, 2); (0, 1)] /\ is_ext p d = true.
Proof. vm_compute. auto. Qed.
