(* C08: the boolean extension oracle is sound for the Prop-level spec: a candidate orientation accepted by [is_ext] is a
   consistent DAG extension in the sense of Spec.consistent_ext; and a fully oriented PDAG that has a consistent extension
   IS that extension (same directed edges), hence acyclic with exactly the extension's v-structures. *)
From Coq Require Import List Arith Bool Lia.
From PG Require Import Base.ListSet Graph.MGraph C08.Model C08.Spec C08.Proofs C08.Acyclic C08.Cover C08.Ext C08.ExtEss.
Import ListNotations.

(* endpoints of the listed edges are nodes, no self loops (the D and U layers) *)
Definition pwf (p : mgraph) : Prop := edges_ok (V p) (D p) = true /\ edges_ok (V p) (U p) = true.

Lemma pmemb_app e l m : pmemb e (l ++ m) = pmemb e l || pmemb e m.
Proof. apply eq_true_iff_eq. rewrite orb_true_iff, !pmemb_In, in_app_iff. tauto. Qed.

Section Cand.
Variables (p : mgraph) (o : list (nat * nat)).
Hypothesis Hwf : pwf p.
Hypothesis Ho : In o (orientations (udedup (U p))).
Let d := dir_graph (V p) (o ++ D p).

Lemma cand_has_d a b : has_d d a b = pmemb (a, b) o || has_d p a b.
Proof. unfold has_d, d. simpl. apply pmemb_app. Qed.

Lemma o_has_u a b : In (a, b) o -> has_u p a b = true.
Proof. intros H. pose proof (orient_O1 _ o a b Ho H) as S. rewrite smemb_udedup in S. exact S. Qed.

Lemma has_u_o a b : has_u p a b = true -> In (a, b) o \/ In (b, a) o.
Proof. intros H. apply (orient_O2 _ o a b Ho). rewrite smemb_udedup. exact H. Qed.

Lemma cand_padj a b : padj d a b = padj p a b.
Proof.
  apply eq_true_iff_eq. rewrite !padj_true, !cand_has_d, !orb_true_iff, !pmemb_In.
  assert (Ud : has_u d a b = false) by reflexivity. rewrite Ud. split.
  - intros [[H|H]|[[H|H]|H]]; try discriminate; auto.
    + right; right. apply o_has_u. exact H.
    + right; right. rewrite has_u_sym. apply o_has_u. exact H.
  - intros [H|[H|H]]; auto. destruct (has_u_o a b H); auto.
Qed.

Lemma cand_nodes a b : has_d d a b = true -> In a (V p) /\ In b (V p).
Proof.
  destruct Hwf as [HD HU]. rewrite edges_ok_spec in HD, HU.
  rewrite cand_has_d, orb_true_iff, pmemb_In. intros [H|H].
  - apply o_has_u in H. unfold has_u in H. apply smemb_In in H. destruct H as [H|H]; apply HU in H; tauto.
  - apply pmemb_In in H. apply HD in H. tauto.
Qed.

Lemma p_nodes a b : has_d p a b = true -> In a (V p) /\ In b (V p).
Proof. destruct Hwf as [HD _]. rewrite edges_ok_spec in HD. intros H. apply pmemb_In in H. apply HD in H. tauto. Qed.

Lemma is_ext_sound : is_ext p d = true -> consistent_ext p d.
Proof.
  intros H. unfold is_ext in H. apply andb_true_iff in H. destruct H as [Hac Hvs].
  unfold consistent_ext. split; [reflexivity|]. split.
  { apply acyclicb_sound; [|exact Hac]. intros x y Hxy. apply cand_nodes. exact Hxy. }
  split; [split; apply incl_refl|]. split; [exact cand_padj|]. split.
  { intros e He. unfold d. simpl. apply in_or_app. right. exact He. }
  intros a c b.
  assert (Vd : vstructb d a c b = true -> In a (V p) /\ In c (V p) /\ In b (V p)).
  { unfold vstructb. rewrite !andb_true_iff. intros [[[H1 H2] _] _].
    apply cand_nodes in H1. apply cand_nodes in H2. tauto. }
  assert (Vp : vstructb p a c b = true -> In a (V p) /\ In c (V p) /\ In b (V p)).
  { unfold vstructb. rewrite !andb_true_iff. intros [[[H1 H2] _] _].
    apply p_nodes in H1. apply p_nodes in H2. tauto. }
  assert (E : In a (V p) -> In c (V p) -> In b (V p) -> vstructb p a c b = vstructb d a c b).
  { intros Ha Hc Hb. unfold same_vstructs in Hvs. rewrite forallb_forall in Hvs.
    specialize (Hvs a Ha). rewrite forallb_forall in Hvs. specialize (Hvs c Hc).
    rewrite forallb_forall in Hvs. specialize (Hvs b Hb). apply eqb_prop in Hvs. exact Hvs. }
  split; intros X.
  - destruct (Vd X) as (Ha & Hc & Hb). rewrite (E Ha Hc Hb). exact X.
  - destruct (Vp X) as (Ha & Hc & Hb). rewrite <- (E Ha Hc Hb). exact X.
Qed.
End Cand.

Theorem has_extension_sound p : pwf p -> has_extension p = true -> exists d, consistent_ext p d.
Proof.
  intros Hwf H. unfold has_extension in H. destruct (extensions p) as [|d t] eqn:E; [discriminate|].
  assert (Hd : In d (extensions p)) by (rewrite E; left; reflexivity).
  unfold extensions in Hd. apply filter_In in Hd. destruct Hd as [Hc He].
  unfold candidates in Hc. apply in_map_iff in Hc. destruct Hc as [o [<- Ho]].
  exists (dir_graph (V p) (o ++ D p)). apply is_ext_sound; assumption.
Qed.

Lemma dpath_ext q d : (forall a b, has_d q a b = has_d d a b) -> forall a b, dpath q a b -> dpath d a b.
Proof.
  intros E a b P. induction P as [a b H|a b c H P IH].
  - apply dp_one. rewrite <- E. exact H.
  - eapply dp_cons; [rewrite <- E; exact H|exact IH].
Qed.

(* a fully oriented PDAG with a consistent extension is that extension *)
Theorem full_is_extension q d : U q = [] -> consistent_ext q d ->
  (forall a b, has_d q a b = has_d d a b) /\ acyclic q /\ (forall a c b, vstructb q a c b = true <-> vstructb d a c b = true).
Proof.
  intros HU (HUd & Hac & _ & Hadj & HD & Hv).
  assert (E : forall a b, has_d q a b = has_d d a b).
  { intros a b. apply eq_true_iff_eq. split.
    - intros H. apply pmemb_In. apply HD. apply pmemb_In. exact H.
    - intros H. assert (P : padj q a b = true).
      { rewrite <- Hadj. apply padj_true. auto. }
      apply padj_true in P. destruct P as [P|[P|P]]; [exact P| |unfold has_u in P; rewrite HU in P; discriminate].
      exfalso. apply (Hac a). eapply dp_cons; [exact H|]. apply dp_one. apply pmemb_In. apply HD. apply pmemb_In. exact P. }
  split; [exact E|]. split.
  - intros v P. apply (Hac v). apply (dpath_ext q d E). exact P.
  - intros a c b. symmetry. apply Hv.
Qed.
