(* C08: the rules AS CODED before the repair (pag.py L965-1113 at snapshot a440b1e) iterate graph.predecessors(i), which on a CPDAG
   is AncestralMixin.predecessors = all proper ANCESTORS of i (classes/base.py L36-42).  With ancestors rule 1 is unsound. *)
From Coq Require Import List Arith Bool Lia.
From PG Require Import Base.ListSet Graph.MGraph C08.Model C08.Spec.
Import ListNotations.

Definition ancestors_proper (g : mgraph) (i : nat) : list nat := filter (fun k => reaches_plus g k i) (V g).

(* _meek_rule1 as coded: for k in graph.predecessors(i): if j not in neighbors(k): orient i -> j *)
Definition r1_code (g : mgraph) (i j : nat) : bool :=
  existsb (fun k => negb (padj g k j)) (ancestors_proper g i).

(* k=0 -> m=1 -> i=2,  m - j=3,  i - j *)
Definition wit_p : mgraph := MkG [0; 1; 2; 3] [(0, 1); (1, 2)] [] [(1, 3); (2, 3)] [].
Definition wit_d : mgraph := MkG [0; 1; 2; 3] [(1, 3); (3, 2); (0, 1); (1, 2)] [] [] [].

(* the coded rule 1 fires on the undirected edge 2 - 3 although the consistent extension wit_d has 3 -> 2;
   the textbook rule does not fire, and the model's closure leaves 2 - 3 undirected *)
Theorem meek_sound_code_refuted_proof :
  exists p d i j,
    is_ext p d = true /\ In d (candidates p) /\ has_u p i j = true /\
    r1_code p i j = true /\ has_d d i j = false /\ has_d d j i = true /\
    fires p i j = false /\ has_u (meek_model p) i j = true.
Proof. exists wit_p, wit_d, 2, 3. vm_compute. repeat split; auto. Qed.

(* second witness (found by the correspondence check): 2 -> 0 -> 1, 1 - 2.  The coded rule 1 takes the ancestor 2 of 1 as
   "k -> 1 with k and 2 non-adjacent" (k = j) and orients 1 -> 2, closing a directed cycle. *)
Example code_rule1_creates_cycle :
  let p := MkG [0; 1; 2] [(2, 0); (0, 1)] [] [(1, 2)] [] in
  r1_code p 1 2 = true /\ acyclicb p = true /\ acyclicb (orient p 1 2) = false /\ has_extension p = true.
Proof. vm_compute. auto. Qed.
