(* C08 run_case for the harness: the three modes of Model.run_case (restated here: the extracted program must contain a single
   function called run_case) plus the UNIT-level mode
   L [I 0; pdag]        -> L [D q; U q; I has_ext; D m; U m]   q = meek_model pdag, m = max_oriented pdag (oracle)
   L [I 1; pdag]        -> L [D q; U q]                          model only (large graphs)
   L [I 2; pdag; dag]   -> L [D q; U q; D e; U e; I pat_ok]     e = essential_graph dag, pat_ok: pdag = pattern_of dag
   L [I 3; pdag; L pairs] -> L [L [r1; r2; r3; r4] per ordered pair (i,j)]   does rule k of the proved model fire on the edge i - j *)
From Coq Require Import List Arith Bool Lia.
From PG Require Import Base.ListSet Base.Sx Graph.MGraph C08.Model.
Import ListNotations.

Definition run_case (s : sx) : sx :=
  let p := sx_graph (sx_nth s 1) in
  match sx_nat (sx_nth s 0) with
  | 0 => let q := meek_model p in let m := max_oriented p in
         L (out_du q ++ [of_bool (has_extension p)] ++ out_du m)
  | 1 => L (out_du (meek_model p))
  | 2 => let q := meek_model p in let d := sx_graph (sx_nth s 2) in
         L (out_du q ++ out_du (essential_graph d) ++ [of_bool (pdag_eqb p (pattern_of d))])
  | _ => L (map (fun e : nat * nat => let (i, j) := e in
              let u := has_u p i j in
              L [of_bool (u && r1 p i j); of_bool (u && r2 p i j); of_bool (u && r3 p i j); of_bool (u && r4 p i j)])
            (sx_pairs (sx_nth s 2)))
  end.

Lemma run_case_agrees s : sx_nat (sx_nth s 0) <= 2 -> run_case s = C08.Model.run_case s.
Proof.
  intros H. unfold run_case, C08.Model.run_case.
  destruct (sx_nat (sx_nth s 0)) as [|[|[|n]]]; try reflexivity. simpl in H.
  lia.
Qed.
