(* C08: the property as Props over the formal graph.
   Property text: "Starting from the pattern of any DAG, the library's Meek-rule closure orients precisely the edges that are
   compelled in the DAG's Markov equivalence class, giving the same graph as dag_to_cpdag.  On any partially directed input it
   only turns undirected edges into directed ones, every orientation it makes holds in every consistent DAG extension of the
   input, and it terminates." *)
From Coq Require Import List Arith Bool Lia.
From PG Require Import Base.ListSet Base.Closure Base.Sx Graph.MGraph C08.Model.
Import ListNotations.

(* a PDAG with at most one edge per pair as far as the two layers interact: no pair both undirected and directed *)
Definition simple_pdag (g : mgraph) : Prop :=
  forall a b, has_u g a b = true -> has_d g a b = false /\ has_d g b a = false.

(* directed paths of length >= 1 and acyclicity *)
Inductive dpath (d : mgraph) : nat -> nat -> Prop :=
| dp_one a b : has_d d a b = true -> dpath d a b
| dp_cons a b c : has_d d a b = true -> dpath d b c -> dpath d a c.
Definition acyclic (d : mgraph) : Prop := forall v, ~ dpath d v v.

(* d is a consistent DAG extension of the PDAG p (the wording of C05 / Dor-Tarsi): a DAG on the same nodes with the same
   skeleton, containing every directed edge of p, with exactly the v-structures of p *)
Definition consistent_ext (p d : mgraph) : Prop :=
  U d = [] /\ acyclic d /\ set_eq (V d) (V p) /\
  (forall a b, padj d a b = padj p a b) /\
  incl (D p) (D d) /\
  (forall a c b, vstructb d a c b = true <-> vstructb p a c b = true).

(* clause "it only turns undirected edges into directed ones" *)
Definition only_orients (p q : mgraph) : Prop :=
  V q = V p /\ B q = B p /\ C q = C p /\
  (forall a b, padj q a b = padj p a b) /\
  incl (D p) (D q) /\ incl (U q) (U p) /\
  (forall a b, In (a, b) (D q) -> In (a, b) (D p) \/ has_u p a b = true).

(* clause "it terminates": the loop with fuel |U|+1 ends on a graph that is closed under the four rules *)
Definition rule_closed (q : mgraph) : Prop :=
  forall i j, In i (V q) -> In j (V q) -> fires q i j = false.

(* clause "every orientation it makes holds in every consistent DAG extension of the input" *)
Definition sound_for (p q : mgraph) : Prop :=
  forall d, consistent_ext p d -> incl (D q) (D d).

(* clause "from the pattern of any DAG ... orients precisely the compelled edges": FULL statement (Meek 1995, Thm 3).
   [essential_graph d] is the brute-force oracle of Model.v: an edge of the skeleton is directed a -> b iff every DAG with
   the skeleton and the v-structures of d has a -> b.  Proved only bounded (Bounded_n4.v); kept here as the statement. *)
Definition is_dagb (d : mgraph) : bool :=
  acyclicb d && match B d, U d, C d with [], [], [] => true | _, _, _ => false end.
Definition complete_on_patterns : Prop :=
  forall d, is_dagb d = true -> wfb d = true -> pdag_eqb (meek_model (pattern_of d)) (essential_graph d) = true.

(* the enumeration used by the bounded theorem: every directed graph on 0..n-1 with at most one direction per pair *)
Definition nodes (n : nat) : list nat := seq 0 n.
Fixpoint upairs (vs : list nat) : list (nat * nat) :=
  match vs with [] => [] | a :: t => map (fun b => (a, b)) t ++ upairs t end.
Fixpoint dir_choices (es : list (nat * nat)) : list (list (nat * nat)) :=
  match es with
  | [] => [[]]
  | (a, b) :: t => let r := dir_choices t in r ++ map (cons (a, b)) r ++ map (cons (b, a)) r
  end.
Definition all_dags (n : nat) : list mgraph :=
  filter acyclicb (map (dir_graph (nodes n)) (dir_choices (upairs (nodes n)))).
