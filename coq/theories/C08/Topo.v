(* C08: every well-formed acyclic directed graph has a reverse topological order (children before parents), constructed by
   sorting the nodes by the number of their descendants.  Removes the order hypothesis of complete_vfree. *)
From Coq Require Import List Arith Bool Lia.
From PG Require Import Base.ListSet Base.Closure Graph.MGraph C08.Model C08.Spec C08.Acyclic C08.Chordal C08.ChordalComplete.
Import ListNotations.

(* ---- insertion sort by a key ---- *)
Fixpoint ins (k : nat -> nat) (x : nat) (l : list nat) : list nat :=
  match l with
  | [] => [x]
  | y :: t => if Nat.leb (k x) (k y) then x :: l else y :: ins k x t
  end.
Definition sortk (k : nat -> nat) (l : list nat) : list nat := fold_right (ins k) [] l.

Lemma ins_In k x l z : In z (ins k x l) <-> z = x \/ In z l.
Proof.
  induction l as [|y t IH]; simpl; [intuition|]. destruct (Nat.leb (k x) (k y)); simpl; [intuition|].
  rewrite IH. intuition.
Qed.

Lemma ins_NoDup k x l : NoDup l -> ~ In x l -> NoDup (ins k x l).
Proof.
  induction l as [|y t IH]; intros Hnd Hx; simpl; [constructor; [tauto|constructor]|].
  destruct (Nat.leb (k x) (k y)); [constructor; assumption|].
  inversion Hnd as [|? ? Hy Ht]; subst. constructor.
  - rewrite ins_In. simpl in Hx. intros [->|H]; tauto.
  - apply IH; [exact Ht|simpl in Hx; tauto].
Qed.

Fixpoint srt (k : nat -> nat) (l : list nat) : Prop :=
  match l with [] => True | y :: t => (forall z, In z t -> k y <= k z) /\ srt k t end.

Lemma ins_srt k x l : srt k l -> srt k (ins k x l).
Proof.
  induction l as [|y t IH]; simpl; [intros _; split; [tauto|exact I]|]. intros [H1 H2].
  destruct (Nat.leb (k x) (k y)) eqn:E.
  - apply Nat.leb_le in E. simpl. split; [|split; assumption].
    intros z [<-|Hz]; [exact E|specialize (H1 z Hz); lia].
  - apply Nat.leb_gt in E. simpl. split; [|apply IH; exact H2].
    intros z Hz. apply ins_In in Hz. destruct Hz as [->|Hz]; [lia|apply H1; exact Hz].
Qed.

Lemma sortk_In k l z : In z (sortk k l) <-> In z l.
Proof. induction l as [|x t IH]; simpl; [tauto|]. rewrite ins_In, IH. intuition. Qed.
Lemma sortk_NoDup k l : NoDup l -> NoDup (sortk k l).
Proof.
  induction l as [|x t IH]; intros H; simpl; [constructor|]. inversion H; subst.
  apply ins_NoDup; [apply IH; assumption|rewrite sortk_In; assumption].
Qed.
Lemma sortk_srt k l : srt k (sortk k l).
Proof. induction l as [|x t IH]; simpl; [exact I|apply ins_srt; exact IH]. Qed.

Lemma srt_idx k l a b : srt k l -> In a l -> In b l -> k b < k a -> idx l b < idx l a.
Proof.
  induction l as [|y t IH]; simpl; [tauto|]. intros [H1 H2] Ha Hb Hk.
  destruct (Nat.eqb a y) eqn:Ea.
  - apply Nat.eqb_eq in Ea. subst y. destruct Hb as [->|Hb]; [lia|]. specialize (H1 b Hb). lia.
  - apply Nat.eqb_neq in Ea. destruct Ha as [->|Ha]; [congruence|].
    destruct (Nat.eqb b y) eqn:Eb; [lia|]. apply Nat.eqb_neq in Eb. destruct Hb as [->|Hb]; [congruence|].
    apply -> Nat.succ_lt_mono. apply IH; assumption.
Qed.

(* ---- number of descendants ---- *)
Lemma iter_NoDup {A} (eqb : A -> A -> bool) (eqb_eq : forall a b, eqb a b = true <-> a = b) step n :
  forall acc, NoDup acc -> NoDup (iter A eqb step n acc).
Proof.
  induction n as [|n IH]; intros acc H; simpl; [exact H|]. apply IH. unfold round.
  apply add_new_NoDup; assumption.
Qed.

Lemma desc_NoDup g s : NoDup (desc_of g s).
Proof.
  unfold desc_of, closure. apply (iter_NoDup Nat.eqb Nat.eqb_eq). apply gdedup_NoDup; try exact Nat.eqb_eq; try exact (children g).
Qed.

Definition rank (g : mgraph) (x : nat) : nat := length (desc_of g [x]).

Lemma reach_single g b y : reach (children g) [b] y -> y = b \/ dpath g b y.
Proof.
  intros R. induction R as [y Hy|a y Ra IH Hy].
  - destruct Hy as [<-|[]]. left; reflexivity.
  - apply children_In in Hy. destruct Hy as [_ Hy]. right. destruct IH as [->|P].
    + apply dp_one. exact Hy.
    + apply (dpath_snoc8 g b a y P Hy).
Qed.

Section Rank.
Variable g : mgraph.
Hypothesis Hwf : edges_ok (V g) (D g) = true.
Hypothesis Hac : acyclic g.

Lemma edge_nodes a b : has_d g a b = true -> In a (V g) /\ In b (V g).
Proof. rewrite edges_ok_spec in Hwf. intros H. apply pmemb_In in H. apply Hwf in H. tauto. Qed.

Lemma rank_lt a b : has_d g a b = true -> rank g b < rank g a.
Proof.
  intros H. destruct (edge_nodes a b H) as [Ha Hb].
  assert (Ia : incl [a] (V g)) by (intros x [<-|[]]; exact Ha).
  assert (Ib : incl [b] (V g)) by (intros x [<-|[]]; exact Hb).
  assert (Hincl : incl (a :: desc_of g [b]) (desc_of g [a])).
  { intros x [<-|Hx].
    - apply (desc_of_spec g [a] a Ia). apply reach_init. left; reflexivity.
    - apply (desc_of_spec g [a] x Ia). apply (desc_of_spec g [b] x Ib) in Hx.
      apply (reach_trans (children g) [a] [b]); [|exact Hx].
      intros y [<-|[]]. eapply reach_step; [apply reach_init; left; reflexivity|].
      apply children_In. split; assumption. }
  assert (Hnd : NoDup (a :: desc_of g [b])).
  { constructor; [|apply desc_NoDup]. intros X. apply (desc_of_spec g [b] a Ib) in X.
    apply reach_single in X. destruct X as [->|P].
    - apply (Hac b). apply dp_one. exact H.
    - apply (Hac a). eapply dp_cons; [exact H|exact P]. }
  pose proof (NoDup_incl_length Hnd Hincl) as L. unfold rank. simpl in L. lia.
Qed.

Theorem topo_exists : exists l, rev_topo g l.
Proof.
  exists (sortk (rank g) (dedup (V g))). split; [apply sortk_NoDup, dedup_NoDup|]. split.
  - intros x. rewrite sortk_In, dedup_In. tauto.
  - intros a b H. destruct (edge_nodes a b H) as [Ha Hb].
    apply (srt_idx (rank g)); [apply sortk_srt| | |apply rank_lt; exact H];
      rewrite sortk_In, dedup_In; assumption.
Qed.
End Rank.

(* completeness on patterns, ALL sizes, for EVERY well-formed acyclic DAG without v-structures *)
Theorem complete_vfree_all d0 : edges_ok (V d0) (D d0) = true -> U d0 = [] -> acyclic d0 -> vfree_g d0 ->
  pdag_eqb (meek_model (pattern_of d0)) (essential_graph d0) = true.
Proof.
  intros Hwf HU Hac Hvf. destruct (topo_exists d0 Hwf Hac) as [l0 Ht].
  exact (complete_vfree d0 Hwf HU Hvf l0 Ht).
Qed.

(* ---- conversely: an all-undirected graph with a v-structure-free consistent extension is chordal ---- *)
From PG Require Import C08.Proofs C08.Reflect C08.ChordalOrient.

Lemma is_peo_ext (adj adj' : nat -> nat -> bool) l : (forall a b, adj a b = adj' a b) -> is_peo adj l -> is_peo adj' l.
Proof.
  intros E. induction l as [|v t IH]; simpl; [tauto|]. intros [Hs Hp]. split; [|apply IH; exact Hp].
  intros x y Hx Hy A1 A2 Hne. rewrite <- E in *. apply Hs; assumption.
Qed.

Theorem vfree_extension_gives_chordal t d : pwf t -> D t = [] ->
  consistent_ext t d -> (forall a c b, vstructb d a c b = false) -> chordal_g t.
Proof.
  intros [_ HUw] HD (HUd & Hac & [HV1 HV2] & Hadj & _ & _) Hvf.
  rewrite edges_ok_spec in HUw.
  assert (Eadj : forall a b, has_u (skeleton_of d) a b = has_u t a b).
  { intros a b. change (has_u (skeleton_of d) a b) with (has_d d a b || has_d d b a).
    pose proof (Hadj a b) as P. unfold padj in P. unfold has_u at 1 in P. rewrite HUd in P. simpl in P.
    rewrite orb_false_r in P. rewrite P. unfold has_d. rewrite HD. reflexivity. }
  assert (Hwfd : edges_ok (V d) (D d) = true).
  { apply edges_ok_spec. intros a b H.
    assert (X : has_u t a b = true).
    { rewrite <- Eadj. change (has_u (skeleton_of d) a b) with (has_d d a b || has_d d b a).
      apply orb_true_iff. left. apply pmemb_In. exact H. }
    unfold has_u in X. apply smemb_In in X. destruct X as [X|X]; apply HUw in X;
      (split; [apply HV2; tauto|split; [apply HV2; tauto|intuition congruence]]). }
  destruct (topo_exists d Hwfd Hac) as [l0 Ht].
  destruct (sk_chordal d HUd Hvf l0 Ht) as (l & Hnd & Hel & Hp).
  exists l. split; [exact Hnd|]. split.
  - intros x. rewrite Hel. simpl. split; [apply HV1|apply HV2].
  - apply (is_peo_ext (has_u (skeleton_of d)) (has_u t)); [exact Eadj|exact Hp].
Qed.
