(* C09: the two kernel computations (n <= 3 naive, n = 4 table-driven) combined *)
From Coq Require Import List Arith Bool Lia.
From PG Require Import Graph.MGraph C09.Model C09.Oracle C09.Spec C09.Bounded_n3 C09.Bounded_n4.

Lemma p2m_member_upto_4 : forall n m0, n <= 4 -> In m0 (all_mags n) -> member_check m0 = true.
Proof.
  intros n m0 Hn. destruct (Nat.eq_dec n 4) as [->|Hne].
  - exact (p2m_member_bounded_4_proof m0).
  - apply p2m_member_bounded_3_proof. lia.
Qed.
