(* C09: membership clauses by kernel computation over every valid MAG (no undirected edges) on <= 3 nodes (1+1+4+56 graphs). *)
From Coq Require Import List Arith Bool Lia.
From PG Require Import Base.ListSet Graph.MGraph C08.Model C09.Model C09.Oracle C09.Spec.
Import ListNotations.

Lemma member_upto_3 : forallb (fun n => forallb member_check (all_mags n)) [0; 1; 2; 3] = true.
Proof. vm_compute. reflexivity. Qed.

Theorem p2m_member_bounded_3_proof : forall n m0, n <= 3 -> In m0 (all_mags n) -> member_check m0 = true.
Proof.
  intros n m0 Hn Hm. pose proof member_upto_3 as H. rewrite forallb_forall in H.
  assert (Hin : In n [0; 1; 2; 3]) by (simpl; lia).
  specialize (H n Hin). rewrite forallb_forall in H. apply (H m0 Hm).
Qed.

(* what member_check = true says, clause by clause *)
Lemma member_check_clauses m0 : member_check m0 = true ->
  let g := pag_of_mag m0 in let m := pag_to_mag_model g in
  structure_ok g m = true /\ acyclicb m = true /\ no_adc m = true /\ unsh_colliders_marked g m = true /\
  valid_mag_spec m = true /\ markov_equivb m m0 = true.
Proof. unfold member_check, check_with. simpl. rewrite !andb_true_iff. tauto. Qed.

Example all_mags_counts : map (fun n => length (all_mags n)) [0; 1; 2; 3] = [1; 1; 4; 56].
Proof. vm_compute. reflexivity. Qed.

(* non-vacuity: the MAG 0 -> 2 <- 1, 2 -> 3 has the PAG 0 o-> 2 <-o 1, 2 -> 3 *)
Example pag_of_mag_example :
  pag_of_mag (MkG [0; 1; 2; 3] [(0, 2); (1, 2); (2, 3)] [] [] [])
  = MkG [0; 1; 2; 3] [(0, 2); (1, 2); (2, 3)] [] [] [(2, 0); (2, 1)].
Proof. vm_compute. reflexivity. Qed.
