(* C09: membership clauses for every valid MAG on 4 nodes by kernel computation.
   The naive evaluation of member_check recomputes the Markov class (3^e candidates x 24 separation queries) for each of the
   2492 MAGs; here the candidates of one skeleton are tabulated once (ancestral?, separation signature) and every MAG of that
   skeleton is checked against the table.  [fast_skel_sound] proves that the table-driven check implies member_check. *)
From Coq Require Import List Arith Bool Lia.
From PG Require Import Base.ListSet Graph.MGraph C08.Model C09.Model C09.Oracle C09.Spec.
Import ListNotations.

Fixpoint plist_eqb (l m : list (nat * nat)) : bool :=
  match l, m with
  | [], [] => true
  | a :: l', b :: m' => if pair_eqb a b then plist_eqb l' m' else false
  | _, _ => false
  end.

Lemma plist_eqb_eq l : forall m, plist_eqb l m = true -> l = m.
Proof.
  induction l as [|a l IH]; intros [|b m] H; simpl in H; try discriminate; [reflexivity|].
  destruct (pair_eqb a b) eqn:E; [|discriminate]. apply pair_eqb_eq in E. subst. f_equal. apply IH. exact H.
Qed.

Definition table (vs : list nat) (cands : list mgraph) : list (mgraph * (bool * list bool)) :=
  map (fun m => (m, row_of vs m)) cands.

Definition fast_skel (vs : list nat) (s : list (nat * nat)) : bool :=
  let tab := table vs (graphs_on vs s) in
  forallb (fun row : mgraph * (bool * list bool) =>
     let m0 := fst row in
     if valid_mag_spec m0 then
       if plist_eqb (adj_pairs m0) s then
         if fst (snd row) then
           check_with (pag_from (map fst (filter (fun r : mgraph * (bool * list bool) => class_test (snd (snd row)) (snd r)) tab)) m0) m0
         else false
       else false
     else true) tab.

Lemma table_filter {A B} (h : A -> B) (P : B -> bool) (l : list A) :
  map fst (filter (fun r => P (snd r)) (map (fun m => (m, h m)) l)) = filter (fun m => P (h m)) l.
Proof.
  induction l as [|a l IH]; simpl; [reflexivity|]. destruct (P (h a)); simpl; rewrite IH; reflexivity.
Qed.

Lemma graphs_on_V vs s m : In m (graphs_on vs s) -> V m = vs.
Proof. unfold graphs_on. rewrite in_map_iff. intros [db [<- _]]. reflexivity. Qed.

Lemma fast_skel_sound vs s : fast_skel vs s = true ->
  forall m0, In m0 (graphs_on vs s) -> valid_mag_spec m0 = true -> member_check m0 = true.
Proof.
  intros H m0 Hin Hv. unfold fast_skel in H. rewrite forallb_forall in H.
  specialize (H (m0, row_of vs m0)). simpl in H.
  assert (Hrow : In (m0, row_of vs m0) (table vs (graphs_on vs s))).
  { unfold table. apply in_map_iff. exists m0. split; [reflexivity|exact Hin]. }
  specialize (H Hrow). rewrite Hv in H.
  destruct (plist_eqb (adj_pairs m0) s) eqn:Es; [|discriminate]. apply plist_eqb_eq in Es.
  destruct (ancestralb m0) eqn:Ea; [|discriminate].
  unfold member_check, pag_of_mag, mag_class, same_adj_graphs.
  rewrite (graphs_on_V vs s m0 Hin), Es.
  unfold table in H. rewrite (table_filter (row_of vs) (class_test (qsig_on vs m0))) in H. exact H.
Qed.

Definition fast_all (n : nat) (ss : list (list (nat * nat))) : bool := forallb (fast_skel (nodes n)) ss.

Lemma fast_all_sound n : fast_all n (skeletons n) = true -> forall m0, In m0 (all_mags n) -> member_check m0 = true.
Proof.
  intros H m0 Hin. unfold all_mags in Hin. apply in_flat_map in Hin. destruct Hin as [s [Hs Hm]].
  apply filter_In in Hm. destruct Hm as [Hm Hv].
  unfold fast_all in H. rewrite forallb_forall in H. apply (fast_skel_sound (nodes n) s (H s Hs) m0 Hm Hv).
Qed.

(* what mag_class is: ancestral + Markov equivalent members of the graphs with the adjacencies of m0 *)
Lemma blist_eqb_refl l : blist_eqb l l = true.
Proof. induction l as [|a l IH]; simpl; [reflexivity|]. rewrite Bool.eqb_reflx. exact IH. Qed.

Lemma mag_class_spec m0 m :
  In m (mag_class m0) <-> In m (same_adj_graphs m0) /\ ancestralb m = true /\ markov_equivb m m0 = true.
Proof.
  unfold mag_class. rewrite filter_In. split; intros [Hin H]; split; try exact Hin.
  - unfold class_test, row_of in H. simpl in H. destruct (ancestralb m) eqn:Ea; [|discriminate].
    split; [reflexivity|]. unfold markov_equivb.
    rewrite (graphs_on_V _ _ _ Hin).
    assert (E : seteqb (V m0) (V m0) = true) by (apply seteqb_spec; split; apply incl_refl).
    rewrite E. exact H.
  - destruct H as [Ha He]. unfold class_test, row_of. simpl. rewrite Ha.
    unfold markov_equivb in He. rewrite (graphs_on_V _ _ _ Hin) in He.
    destruct (seteqb (V m0) (V m0)); [exact He|discriminate].
Qed.

Lemma fast_4 : fast_all 4 (skeletons 4) = true.
Proof. vm_compute. reflexivity. Qed.

Theorem p2m_member_bounded_4_proof : forall m0, In m0 (all_mags 4) -> member_check m0 = true.
Proof. exact (fast_all_sound 4 fast_4). Qed.

Example all_mags_4_count : length (all_mags 4) = 2492.
Proof. vm_compute. reflexivity. Qed.
