(* C09: what the chordal orientation lemma (C08/Chordal.v, ChordalOrient.v) gives for pag_to_mag at ALL sizes:
   - the boolean chordality test (perfect elimination ordering by brute force) implies the Prop chordal_g;
   - on a chordal circle component the FIRST hand-orientation is always extendable, so [rounds_extendable] only has to be
     assumed from the second round on; if the first round already orients everything the component clauses hold outright. *)
From Coq Require Import List Arith Bool Lia.
From PG Require Import Base.ListSet Graph.MGraph C08.Model C08.Spec C08.Proofs C08.Reflect C08.Chordal C08.ChordalOrient
                       C09.Model C09.Proofs C09.Component C09.ChordalDefs.
Import ListNotations.

(* ---------- chordalb (boolean, brute force) => chordal_g ---------- *)
Lemma simplicial_sound t vs v : simplicial t vs v = true -> simpl_in (has_u t) vs v.
Proof.
  unfold simplicial. rewrite forallb_forall. intros H x y Hx Hy A1 A2 Hne.
  assert (Fx : In x (filter (fun w => has_u t v w) vs)) by (apply filter_In; auto).
  assert (Fy : In y (filter (fun w => has_u t v w) vs)) by (apply filter_In; auto).
  specialize (H x Fx). rewrite forallb_forall in H. specialize (H y Fy).
  apply orb_true_iff in H. destruct H as [H|H]; [apply Nat.eqb_eq in H; congruence|exact H].
Qed.

Lemma peo_b_sound t fuel : forall vs, NoDup vs -> peo_b fuel vs t = true ->
  exists l, NoDup l /\ (forall x, In x l <-> In x vs) /\ is_peo (has_u t) l.
Proof.
  induction fuel as [|f IH]; intros vs Hnd H.
  - destruct vs; [|discriminate]. exists []. simpl. split; [constructor|]. split; [tauto|exact I].
  - destruct vs as [|a r] eqn:Evs; [exists []; simpl; split; [constructor|split; [tauto|exact I]]|].
    rewrite <- Evs in *. assert (H' : existsb (fun v => if simplicial t vs v
                then peo_b f (filter (fun w => negb (Nat.eqb w v)) vs) t else false) vs = true).
    { rewrite Evs in *. exact H. }
    apply existsb_exists in H'. destruct H' as [v [Hv Hc]].
    destruct (simplicial t vs v) eqn:S; [|discriminate].
    destruct (IH _ (NoDup_filter _ Hnd) Hc) as (l & Nl & El & Pl).
    exists (v :: l). split; [|split].
    + constructor; [|exact Nl]. intros X. apply El in X. apply filter_In in X.
      destruct X as [_ X]. apply negb_true_iff, Nat.eqb_neq in X. congruence.
    + intros x. simpl. rewrite El, filter_In, negb_true_iff, Nat.eqb_neq. split; [intros [<-|[X _]]; auto|].
      intros X. destruct (Nat.eq_dec v x); [auto|right; split; auto].
    + simpl. split; [|exact Pl]. eapply simpl_in_incl; [|apply simplicial_sound; exact S].
      intros x Hx. apply El in Hx. apply filter_In in Hx. tauto.
Qed.

Theorem chordalb_sound t : NoDup (V t) -> chordalb t = true -> chordal_g t.
Proof. intros Hnd H. apply (peo_b_sound t (length (V t)) (V t) Hnd H). Qed.

(* ---------- the first round, all sizes ---------- *)
Theorem first_round_extendable t u v : pwf t -> D t = [] -> chordal_g t -> has_u t u v = true -> vext (orient t u v).
Proof. intros Hwf HD Hc Huv. exact (chordal_any_edge t u v Hwf HD Hc Huv). Qed.

Theorem chordal_vext_all t : pwf t -> D t = [] -> chordal_g t -> vext t.
Proof. intros Hwf HD Hc. exact (chordal_vext t Hwf HD Hc). Qed.

(* rounds_extendable has to be assumed from the second round on only *)
Theorem rounds_from_second f t : pwf t -> D t = [] -> chordal_g t ->
  match U t with
  | [] => True
  | (u, v) :: _ => rounds_extendable f (meek_model (orient t u v))
  end -> rounds_extendable (S f) t.
Proof.
  intros Hwf HD Hc H. simpl. destruct (U t) as [|[u v] r] eqn:E; [exact I|].
  split; [|exact H]. apply first_round_extendable; try assumption. apply (head_has_u t u v r E).
Qed.

(* if the closure after the first hand-orientation leaves no undirected edge: unconditional *)
Theorem component_one_round t : pwf t -> D t = [] -> chordal_g t ->
  match U t with
  | [] => True
  | (u, v) :: _ => U (meek_model (orient t u v)) = []
  end ->
  let q := orient_all (length (U t)) t in U q = [] /\ acyclic q /\ vfree q.
Proof.
  intros Hwf HD Hc H1.
  assert (Hs : simple_pdag t).
  { intros a b _. unfold has_d. rewrite HD. split; reflexivity. }
  apply component_ok; [exact Hs|apply chordal_vext_all; assumption| |apply le_n].
  destruct (U t) as [|[u v] r] eqn:E; [exact I|]. simpl length.
  apply rounds_from_second; try assumption. rewrite E.
  destruct (length r) as [|k]; [exact I|]. simpl. rewrite H1. exact I.
Qed.

(* ---------- composed with Whole.v: the shape clauses with "chordal circle component" in place of the first round ---------- *)
From PG Require Import C09.Oracle C09.Whole.

Theorem p2m_shape_chordal g :
  pag_hyps g -> pwf (temp_cpdag g) -> chordal_g (temp_cpdag g) ->
  (* the rounds after the first one (nothing to assume when the first round orients the whole component) *)
  match U (temp_cpdag g) with
  | [] => True
  | (u, v) :: r => rounds_extendable (length r) (meek_model (orient (temp_cpdag g) u v))
  end ->
  let m := pag_to_mag_model g in
  acyclic m /\
  (forall a b, has_b m a b = true -> dpath m a b -> False) /\
  (forall a c b, arrow_at m a c = true -> arrow_at m b c = true -> a <> b -> adjacent m a b = false ->
                 arrow_at g a c = true /\ arrow_at g b c = true).
Proof.
  intros HP Hwf Hc Hr. apply p2m_shape_all_sizes; [exact HP|].
  destruct (U (temp_cpdag g)) as [|[u v] r] eqn:E; [exact I|]. simpl length.
  apply rounds_from_second; try assumption; [reflexivity|]. rewrite E. exact Hr.
Qed.
