(* C09: bounded discharge of the hypothesis of Component.v: definitions.  Undirected graphs on 0..n-1, chordality by a
   perfect elimination ordering (brute force), and the per-graph check: chordal <-> has a v-structure-free consistent
   extension, and then every round of the model's run (orient the first undirected edge, close under R1-R4) is extendable. *)
From Coq Require Import List Arith Bool Lia.
From PG Require Import Base.ListSet Graph.MGraph C08.Model C08.Spec C08.Fast C08.Reflect C09.Model C09.Component.
Import ListNotations.

Definition und_graphs (n : nat) : list mgraph := map (fun s => MkG (nodes n) [] [] s []) (skeletons n).

Definition simplicial (t : mgraph) (vs : list nat) (v : nat) : bool :=
  let nb := filter (fun w => has_u t v w) vs in
  forallb (fun x => forallb (fun y => Nat.eqb x y || has_u t x y) nb) nb.

Fixpoint peo_b (fuel : nat) (vs : list nat) (t : mgraph) : bool :=
  match vs with
  | [] => true
  | _ => match fuel with
         | 0 => false
         | S f => existsb (fun v => if simplicial t vs v then peo_b f (filter (fun w => negb (Nat.eqb w v)) vs) t else false) vs
         end
  end.

(* chordal: the graph has a perfect elimination ordering *)
Definition chordalb (t : mgraph) : bool := peo_b (length (V t)) (V t) t.

Definition pwfb (t : mgraph) : bool := edges_ok (V t) (D t) && edges_ok (V t) (U t).

Definition chordal_check (t : mgraph) : bool :=
  pwfb t && Bool.eqb (chordalb t) (vextb t) && (if vextb t then rounds_ext_b (length (U t)) t else true).

Lemma chordal_check_sound t : chordal_check t = true -> chordalb t = true ->
  pwf t /\ vext t /\ rounds_extendable (length (U t)) t.
Proof.
  unfold chordal_check. rewrite !andb_true_iff. intros [[Hw He] Hr] Hc.
  unfold pwfb in Hw. apply andb_true_iff in Hw.
  assert (Hwf : pwf t) by exact Hw.
  rewrite Hc in He. apply eqb_prop in He. rewrite <- He in Hr.
  split; [exact Hwf|]. split; [apply vextb_sound; [exact Hwf|symmetry; exact He]|].
  apply rounds_ext_sound; assumption.
Qed.
