(* C09: Meek's lemma on chordal graphs, bounded: for EVERY undirected graph on <= 5 nodes, chordal (perfect elimination
   ordering) <-> it has a v-structure-free consistent DAG extension, and if so every round of the model's run is
   extendable; hence (Component.v) the orientation produced by "orient one edge, close under R1-R4, repeat" leaves no
   undirected edge, is acyclic and has no unshielded collider. *)
From Coq Require Import List Arith Bool Lia.
From PG Require Import Base.ListSet Graph.MGraph C08.Model C08.Spec C08.Fast C08.Reflect C09.Model C09.Proofs C09.Component
                       C09.ChordalDefs C09.Chordal_b5a C09.Chordal_b5b C09.Chordal_b5c.
Import ListNotations.

Lemma small_ok : forallb (fun n => forallb chordal_check (und_graphs n)) [0; 1; 2; 3; 4] = true.
Proof. vm_compute. reflexivity. Qed.

Lemma und5_split : und_graphs 5 = slice_a ++ slice_b ++ slice_c.
Proof. vm_compute. reflexivity. Qed.

Lemma chordal_check_upto_5 n t : n <= 5 -> In t (und_graphs n) -> chordal_check t = true.
Proof.
  intros Hn Ht. destruct (Nat.eq_dec n 5) as [->|Hne].
  - rewrite und5_split, !in_app_iff in Ht.
    destruct Ht as [H|[H|H]];
      [exact (proj1 (forallb_forall _ _) slice_a_ok t H)|exact (proj1 (forallb_forall _ _) slice_b_ok t H)
      |exact (proj1 (forallb_forall _ _) slice_c_ok t H)].
  - pose proof small_ok as S. rewrite forallb_forall in S.
    assert (Hin : In n [0; 1; 2; 3; 4]) by (simpl; lia).
    specialize (S n Hin). rewrite forallb_forall in S. exact (S t Ht).
Qed.

Theorem chordal_iff_vext_bounded_5 n t : n <= 5 -> In t (und_graphs n) -> chordalb t = vextb t.
Proof.
  intros Hn Ht. pose proof (chordal_check_upto_5 n t Hn Ht) as H. unfold chordal_check in H.
  rewrite !andb_true_iff in H. destruct H as [[_ H] _]. apply eqb_prop in H. exact H.
Qed.

Theorem meek_chordal_lemma_bounded_5 n t : n <= 5 -> In t (und_graphs n) -> chordalb t = true ->
  let q := orient_all (length (U t)) t in
  U q = [] /\ acyclic q /\ vfree q /\ only_orients t q.
Proof.
  intros Hn Ht Hc q.
  destruct (chordal_check_sound t (chordal_check_upto_5 n t Hn Ht) Hc) as (Hwf & Hx & Hr).
  assert (Hs : simple_pdag t).
  { unfold und_graphs in Ht. apply in_map_iff in Ht. destruct Ht as [s [<- _]]. intros a b _. split; reflexivity. }
  destruct (component_ok (length (U t)) t Hs Hx Hr (le_n _)) as (H1 & H2 & H3).
  repeat split; try assumption; apply orient_all_only_orients.
Qed.

Example chordal_counts : map (fun n => length (filter chordalb (und_graphs n))) [3; 4; 5] = [8; 61; 822].
Proof. vm_compute. reflexivity. Qed.
