(* C09: chordal_check on the undirected graphs number 850 .. 850+174-1 of the 1024 on 5 nodes, by kernel computation *)
From Coq Require Import List Arith Bool.
From PG Require Import Graph.MGraph C08.Model C08.Spec C08.Fast C09.Model C09.Component C09.ChordalDefs.
Import ListNotations.

Definition slice_c : list mgraph := firstn 174 (skipn 850 (und_graphs 5)).
Lemma slice_c_ok : forallb chordal_check slice_c = true.
Proof. vm_compute. reflexivity. Qed.
