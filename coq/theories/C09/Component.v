(* C09: the orientation of the circle component (phase 2) for ALL sizes, reduced to the extendability of each manual
   orientation: if every PDAG "current graph + the edge oriented by hand" has a v-structure-free consistent DAG extension
   (the content of Meek 1995 Thm 4 on a chordal component — NOT proved here, stated as the hypothesis [rounds_extendable]),
   then the oriented component has no undirected edge left, is acyclic and has no unshielded collider.
   The step "closure under R1-R4 keeps every extension" is C08's meek_extensions_preserved. *)
From Coq Require Import List Arith Bool Lia.
From PG Require Import Base.ListSet Graph.MGraph C08.Model C08.Spec C08.Proofs C08.Acyclic C08.Cover C08.Ext C08.ExtEss C08.Reflect
                       C09.Model C09.Proofs.
Import ListNotations.

Definition vfree (d : mgraph) : Prop := forall a c b, vstructb d a c b = false.
(* g has a consistent DAG extension without v-structures *)
Definition vext (g : mgraph) : Prop := exists d, consistent_ext g d /\ vfree d.

Fixpoint rounds_extendable (f : nat) (t : mgraph) : Prop :=
  match f with
  | 0 => True
  | S f' => match U t with
            | [] => True
            | (u, v) :: _ => vext (orient t u v) /\ rounds_extendable f' (meek_model (orient t u v))
            end
  end.

Lemma vext_meek g : simple_pdag g -> vext g -> simple_pdag (meek_model g) /\ vext (meek_model g).
Proof.
  intros Hs [d [He Hv]]. destruct (inv_loop d (S (length (U g))) g (conj Hs He)) as [Hs' He'].
  split; [exact Hs'|]. exists d. split; assumption.
Qed.

Theorem component_ok f : forall t, simple_pdag t -> vext t -> rounds_extendable f t -> length (U t) <= f ->
  let q := orient_all f t in
  U q = [] /\ acyclic q /\ vfree q.
Proof.
  induction f as [|f IH]; intros t Hs Hx Hr Hl; simpl.
  - assert (HU : U t = []) by (destruct (U t); [reflexivity|simpl in Hl; lia]).
    destruct Hx as [d [He Hv]]. destruct (full_is_extension t d HU He) as (_ & Hac & Hvs).
    split; [exact HU|]. split; [exact Hac|]. intros a c b.
    destruct (vstructb t a c b) eqn:X; [|reflexivity]. apply Hvs in X. rewrite Hv in X. discriminate.
  - destruct (U t) as [|[u v] r] eqn:E.
    + destruct Hx as [d [He Hv]]. destruct (full_is_extension t d E He) as (_ & Hac & Hvs).
      split; [exact E|]. split; [exact Hac|]. intros a c b.
      destruct (vstructb t a c b) eqn:X; [|reflexivity]. apply Hvs in X. rewrite Hv in X. discriminate.
    + simpl in Hr. rewrite E in Hr. destruct Hr as [Hx1 Hr1].
      pose proof (head_has_u t u v r E) as Hu.
      destruct (vext_meek (orient t u v) (simple_orient t u v Hs Hu) Hx1) as [Hs2 Hx2].
      apply IH; try assumption.
      pose proof (orient_U_lt t u v Hu) as H1. pose proof (meek_model_len (orient t u v)) as H2.
      rewrite E in H1. simpl (length (_ :: _)) in *. lia.
Qed.

(* the temporary CPDAG of pag_to_mag has no directed edge *)
Lemma temp_simple g : simple_pdag (temp_cpdag g).
Proof. intros a b _. split; reflexivity. Qed.

Theorem p2m_component_ok g :
  vext (temp_cpdag g) -> rounds_extendable (length (U (temp_cpdag g))) (temp_cpdag g) ->
  let oc := oriented_component g in U oc = [] /\ acyclic oc /\ vfree oc.
Proof.
  intros Hx Hr. unfold oriented_component. apply component_ok; auto using temp_simple.
Qed.

(* ---------- boolean version of the hypothesis along the model's own run, and its reflection ---------- *)
Definition vfreeb (d : mgraph) : bool :=
  forallb (fun a => forallb (fun c => forallb (fun b => negb (vstructb d a c b)) (V d)) (V d)) (V d).
Definition vextb (g : mgraph) : bool := existsb vfreeb (extensions g).

Fixpoint rounds_ext_b (f : nat) (t : mgraph) : bool :=
  match f with
  | 0 => true
  | S f' => match U t with
            | [] => true
            | (u, v) :: _ => let g := orient t u v in
                             if vextb g then rounds_ext_b f' (meek_model g) else false
            end
  end.

Lemma vextb_sound g : pwf g -> vextb g = true -> vext g.
Proof.
  intros Hwf H. unfold vextb in H. apply existsb_exists in H. destruct H as [d [Hd Hv]].
  unfold extensions in Hd. apply filter_In in Hd. destruct Hd as [Hc He].
  unfold candidates in Hc. apply in_map_iff in Hc. destruct Hc as [o [<- Ho]].
  exists (dir_graph (V g) (o ++ D g)). split; [apply is_ext_sound; assumption|].
  intros a c b. destruct (vstructb (dir_graph (V g) (o ++ D g)) a c b) eqn:X; [|reflexivity]. exfalso.
  assert (N : In a (V g) /\ In c (V g) /\ In b (V g)).
  { unfold vstructb in X. rewrite !andb_true_iff in X. destruct X as [[[H1 H2] _] _].
    apply (cand_nodes g o Hwf Ho) in H1. apply (cand_nodes g o Hwf Ho) in H2. tauto. }
  destruct N as (Ha & Hc' & Hb). unfold vfreeb in Hv. simpl in Hv.
  rewrite forallb_forall in Hv. specialize (Hv a Ha). rewrite forallb_forall in Hv. specialize (Hv c Hc').
  rewrite forallb_forall in Hv. specialize (Hv b Hb). rewrite X in Hv. discriminate.
Qed.

Lemma pwf_orient t u v : pwf t -> In (u, v) (U t) -> pwf (orient t u v).
Proof.
  intros [HD HU] Huv. unfold pwf. rewrite edges_ok_spec in HD, HU. rewrite !edges_ok_spec. simpl. split.
  - intros a b [E|H]; [inversion E; subst; apply HU; exact Huv|apply HD; exact H].
  - intros a b H. apply filter_In in H. apply HU. tauto.
Qed.

Lemma pwf_meek t : pwf t -> pwf (meek_model t).
Proof.
  intros [HD HU]. destruct (meek_only_orients_proof t) as (HV & _ & _ & _ & _ & HUi & Hnew).
  unfold pwf. rewrite edges_ok_spec in HD, HU. rewrite HV, !edges_ok_spec. split.
  - intros a b H. apply Hnew in H. destruct H as [H|H]; [apply HD; exact H|].
    unfold has_u in H. apply smemb_In in H. destruct H as [H|H]; apply HU in H; intuition congruence.
  - intros a b H. apply HU. apply HUi. exact H.
Qed.

Lemma rounds_ext_sound f : forall t, pwf t -> rounds_ext_b f t = true -> rounds_extendable f t.
Proof.
  induction f as [|f IH]; intros t Hwf H; simpl in *; [exact I|].
  destruct (U t) as [|[u v] r] eqn:E; [exact I|].
  destruct (vextb (orient t u v)) eqn:X; [|discriminate].
  assert (Hw : pwf (orient t u v)) by (apply pwf_orient; [exact Hwf|rewrite E; left; reflexivity]).
  split; [apply vextb_sound; assumption|]. apply IH; [apply pwf_meek; exact Hw|exact H].
Qed.

(* non-vacuity: the path 0 - 1 - 2 - 3 - 4 *)
Example rounds_example :
  let t := MkG [0; 1; 2; 3; 4] [] [] [(0, 1); (1, 2); (2, 3); (3, 4)] [] in
  vextb t = true /\ rounds_ext_b 4 t = true /\ D (orient_all 4 t) = [(3, 4); (2, 3); (1, 2); (0, 1)].
Proof. vm_compute. auto. Qed.

(* the hypothesis [vext (temp_cpdag g)] of p2m_component_ok follows from the first round (or is trivial without o-o edges) *)
Lemma vext_of_orient t u v : has_u t u v = true -> vext (orient t u v) -> vext t.
Proof.
  intros Hu [d [(H1 & H2 & H3 & H4 & H5 & H6) Hv]]. exists d. split; [|exact Hv].
  unfold consistent_ext. split; [exact H1|]. split; [exact H2|]. split; [exact H3|]. split; [|split].
  - intros a b. rewrite H4. apply orient_padj. exact Hu.
  - intros e He. apply H5. simpl. right. exact He.
  - intros a c b. rewrite Hv. split; [discriminate|]. intros X. exfalso.
    assert (Y : vstructb (orient t u v) a c b = true).
    { unfold vstructb in *. rewrite orient_padj by exact Hu. rewrite !andb_true_iff in *.
      rewrite !has_d_orient_true. tauto. }
    apply H6 in Y. rewrite Hv in Y. discriminate.
Qed.

Lemma vext_temp g : rounds_extendable (length (U (temp_cpdag g))) (temp_cpdag g) -> vext (temp_cpdag g).
Proof.
  intros Hr.
  assert (N : forall a b, has_d (temp_cpdag g) a b = false) by reflexivity.
  set (t := temp_cpdag g) in *.
  destruct (U t) as [|[u v] r] eqn:E.
  - exists t. split.
    + unfold consistent_ext. split; [exact E|]. split.
      * intros x P. inversion P as [a b H|a b c H _]; rewrite N in H; discriminate H.
      * split; [split; apply incl_refl|]. split; [reflexivity|]. split; [apply incl_refl|tauto].
    + intros a c b. unfold vstructb. rewrite N. reflexivity.
  - change (rounds_extendable (S (length r)) t) in Hr. cbn [rounds_extendable] in Hr. rewrite E in Hr.
    destruct Hr as [Hx _]. apply (vext_of_orient _ u v (head_has_u _ u v r E) Hx).
Qed.
