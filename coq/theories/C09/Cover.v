(* C09: coverage of the enumeration all_mags n: for ARBITRARY directed / bidirected edge lists the canonical listing over the
   nodes 0..n-1 (skeleton in the order of upairs, per edge the kind the lists give it) is enumerated as soon as it is a valid
   MAG; a well-formed one-edge-per-pair graph on 0..n-1 has the same edges as its canonical listing; and the bounded
   membership theorem restated through the canonical listing. *)
From Coq Require Import List Arith Bool Lia.
From PG Require Import Base.ListSet Graph.MGraph C08.Model C09.Model C09.Oracle C09.Spec C09.Bounded.
Import ListNotations.

Lemma filter_in_psublists f l : In (filter f l) (psublists l).
Proof.
  induction l as [|x t IH]; simpl; [left; reflexivity|].
  apply in_or_app. destruct (f x); [right; apply in_map; exact IH|left; exact IH].
Qed.

Lemma upairs_seq_In n : forall s a b, In (a, b) (upairs (seq s n)) <-> s <= a /\ a < b /\ b < s + n.
Proof.
  induction n as [|n IH]; intros s a b; simpl; [lia|].
  rewrite in_app_iff, in_map_iff, IH. split.
  - intros [[y [E Hy]]|H]; [inversion E; subst; apply in_seq in Hy; lia|lia].
  - intros H. destruct (Nat.eq_dec a s) as [->|Hne].
    + left. exists b. split; [reflexivity|apply in_seq; lia].
    + right. lia.
Qed.
Lemma upairs_nodes_In n a b : In (a, b) (upairs (nodes n)) <-> a < b /\ b < n.
Proof. unfold nodes. rewrite upairs_seq_In. lia. Qed.

Ltac crush_in :=
  split; intro;
  repeat match goal with
  | H : _ \/ _ |- _ => destruct H
  | H : _ /\ _ |- _ => destruct H
  | H : (_, _) = (_, _) |- _ => inversion H; subst; clear H
  end; try tauto; auto 6.

Section Canon.
Variables (Dl Bl : list (nat * nat)).

Definition adj_in (e : nat * nat) : bool :=
  pmemb e Dl || pmemb (snd e, fst e) Dl || smemb (fst e) (snd e) Bl.

(* per edge of the skeleton the kind the lists give it: a -> b, else b -> a, else a <-> b *)
Fixpoint chosen (s : list (nat * nat)) : list (nat * nat) * list (nat * nat) :=
  match s with
  | [] => ([], [])
  | (a, b) :: t =>
      let r := chosen t in
      if pmemb (a, b) Dl then ((a, b) :: fst r, snd r)
      else if pmemb (b, a) Dl then ((b, a) :: fst r, snd r)
      else (fst r, (a, b) :: snd r)
  end.

Lemma chosen_in s : In (chosen s) (edge_choices s).
Proof.
  induction s as [|[a b] t IH]; simpl; [left; reflexivity|].
  apply in_or_app. destruct (pmemb (a, b) Dl).
  - left. apply in_map_iff. exists (chosen t). split; [reflexivity|exact IH].
  - right. apply in_or_app. destruct (pmemb (b, a) Dl).
    + left. apply in_map_iff. exists (chosen t). split; [reflexivity|exact IH].
    + right. apply in_map_iff. exists (chosen t). split; [reflexivity|exact IH].
Qed.

Lemma chosen_D_In s x y :
  In (x, y) (fst (chosen s)) <->
  (In (x, y) s /\ In (x, y) Dl) \/ (In (y, x) s /\ In (x, y) Dl /\ ~ In (y, x) Dl).
Proof.
  induction s as [|[a b] t IH]; simpl; [tauto|].
  destruct (pmemb (a, b) Dl) eqn:E1; [|destruct (pmemb (b, a) Dl) eqn:E2]; simpl; rewrite IH.
  - apply pmemb_In in E1. crush_in.
  - apply pmemb_false in E1. apply pmemb_In in E2. crush_in.
  - apply pmemb_false in E1. apply pmemb_false in E2. crush_in.
Qed.

Lemma chosen_B_In s x y :
  In (x, y) (snd (chosen s)) <-> In (x, y) s /\ ~ In (x, y) Dl /\ ~ In (y, x) Dl.
Proof.
  induction s as [|[a b] t IH]; simpl; [tauto|].
  destruct (pmemb (a, b) Dl) eqn:E1; [|destruct (pmemb (b, a) Dl) eqn:E2]; simpl; rewrite IH.
  - apply pmemb_In in E1. crush_in.
  - apply pmemb_false in E1. apply pmemb_In in E2. crush_in.
  - apply pmemb_false in E1. apply pmemb_false in E2. crush_in.
Qed.

Definition canon_skel (n : nat) : list (nat * nat) := filter adj_in (upairs (nodes n)).
Definition canon_mag (n : nat) : mgraph :=
  let c := chosen (canon_skel n) in MkG (nodes n) (fst c) (snd c) [] [].

Lemma canon_mag_enum n : valid_mag_spec (canon_mag n) = true -> In (canon_mag n) (all_mags n).
Proof.
  intros H. unfold all_mags. apply in_flat_map. exists (canon_skel n). split.
  - unfold skeletons, canon_skel. apply filter_in_psublists.
  - apply filter_In. split; [|exact H]. unfold graphs_on, canon_mag.
    apply in_map_iff. exists (chosen (canon_skel n)). split; [reflexivity|apply chosen_in].
Qed.
End Canon.

(* a well-formed graph on 0..n-1 with at most one edge per pair has the edges of its canonical listing *)
Theorem canon_mag_same_edges n m :
  V m = nodes n -> simple_mag m = true ->
  let c := canon_mag (D m) (B m) n in
  V c = V m /\ (forall a b, has_d c a b = has_d m a b) /\ (forall a b, has_b c a b = has_b m a b).
Proof.
  intros HV Hs c. unfold simple_mag in Hs. rewrite !andb_true_iff in Hs. destruct Hs as [[[Hwf H1] _] _].
  rewrite allb_forallb, forallb_forall in H1.
  unfold wfb in Hwf. rewrite !andb_true_iff in Hwf. destruct Hwf as [[[HwD HwB] _] _].
  rewrite edges_ok_spec in HwD, HwB. rewrite HV in HwD, HwB, H1.
  assert (Hlt : forall l, (forall a b, In (a, b) l -> In a (nodes n) /\ In b (nodes n) /\ a <> b) ->
                forall a b, In (a, b) l -> a < n /\ b < n /\ a <> b).
  { intros l Hl a b H. apply Hl in H. unfold nodes in H. rewrite !in_seq in H. lia. }
  assert (Hone : forall a b, a < b -> b < n ->
     match has_d m a b, has_d m b a, has_b m a b with
     | true, true, _ | true, _, true | _, true, true => false | _, _, _ => true end = true).
  { intros a b Hab Hb. apply (H1 (a, b)). apply upairs_nodes_In. lia. }
  assert (Hskel : forall a b, In (a, b) (canon_skel (D m) (B m) n) <->
                  a < b /\ b < n /\ (In (a, b) (D m) \/ In (b, a) (D m) \/ In (a, b) (B m) \/ In (b, a) (B m))).
  { intros a b. unfold canon_skel, adj_in. rewrite filter_In, upairs_nodes_In. simpl.
    rewrite !orb_true_iff, !pmemb_In, smemb_In. tauto. }
  split; [symmetry; exact HV|]. split.
  - intros a b. apply eq_true_iff_eq. unfold has_d at 1. unfold c, canon_mag. simpl.
    rewrite pmemb_In, chosen_D_In, !Hskel. unfold has_d. rewrite pmemb_In. split; [tauto|].
    intros H. pose proof (Hlt _ HwD a b H) as (Ha & Hb & Hne).
    destruct (Nat.lt_ge_cases a b) as [Hab|Hab].
    + left. tauto.
    + right. assert (Hba : b < a) by lia. split; [tauto|]. split; [exact H|].
      intros H2. specialize (Hone b a Hba Ha). unfold has_d in Hone.
      apply pmemb_In in H. apply pmemb_In in H2. rewrite H, H2 in Hone. discriminate.
  - intros a b. apply eq_true_iff_eq. unfold has_b at 1. unfold c, canon_mag. simpl.
    rewrite smemb_In, !chosen_B_In, !Hskel. unfold has_b. rewrite smemb_In. split.
    + intros [[[Hab [Hb H]] [N1 N2]]|[[Hab [Hb H]] [N1 N2]]]; tauto.
    + intros H.
      assert (Hab : a < n /\ b < n /\ a <> b).
      { destruct H as [H|H]; apply (Hlt _ HwB) in H; lia. }
      assert (X : forall x y, x < y -> y < n -> (In (x, y) (B m) \/ In (y, x) (B m)) ->
                  ~ In (x, y) (D m) /\ ~ In (y, x) (D m)).
      { intros x y Hxy Hy Hb. specialize (Hone x y Hxy Hy). unfold has_d, has_b in Hone.
        assert (E : smemb x y (B m) = true) by (apply smemb_In; exact Hb). rewrite E in Hone.
        split; intros HD; apply pmemb_In in HD; rewrite HD in Hone;
          [destruct (pmemb (y, x) (D m))|destruct (pmemb (x, y) (D m))]; discriminate. }
      destruct (Nat.lt_ge_cases a b) as [Hlt'|Hge].
      * left. destruct (X a b Hlt' (proj1 (proj2 Hab)) H). tauto.
      * right. assert (Hba : b < a) by lia. destruct (X b a Hba (proj1 Hab)) as [N1 N2]; [tauto|]. tauto.
Qed.

(* the bounded membership theorem for ARBITRARY edge lists, through the canonical listing on 0..n-1, n <= 4 *)
Theorem p2m_member_canon_4 n Dl Bl : n <= 4 -> valid_mag_spec (canon_mag Dl Bl n) = true ->
  member_check (canon_mag Dl Bl n) = true.
Proof.
  intros Hn Hv. apply (p2m_member_upto_4 n); [exact Hn|apply canon_mag_enum; exact Hv].
Qed.
