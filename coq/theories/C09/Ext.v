(* C09: the oracles and the model-side check depend on a graph only through its node list and the edge relations
   has_d / has_b (graph extensionality); with Cover.v this lifts the bounded theorem to EVERY valid MAG on 0..n-1,
   whatever the order / duplication of its edge lists. *)
From Coq Require Import List Arith Bool Lia.
From PG Require Import Base.ListSet Base.Closure Graph.MGraph Graph.MSep C08.Model C08.Cover
                       C09.Model C09.Oracle C09.Spec C09.Bounded C09.Cover.
Import ListNotations.

Definition geq (g g' : mgraph) : Prop :=
  V g = V g' /\ (forall a b, has_d g a b = has_d g' a b) /\ (forall a b, has_b g a b = has_b g' a b) /\
  U g = U g' /\ C g = C g'.

Section Ext.
Variables g g' : mgraph.
Hypothesis H : geq g g'.
Let HV : V g = V g' := proj1 H.
Let Hd : forall a b, has_d g a b = has_d g' a b := proj1 (proj2 H).
Let Hb : forall a b, has_b g a b = has_b g' a b := proj1 (proj2 (proj2 H)).
Let HU : U g = U g' := proj1 (proj2 (proj2 (proj2 H))).
Let HC : C g = C g' := proj2 (proj2 (proj2 (proj2 H))).

Lemma has_u_ext a b : has_u g a b = has_u g' a b.
Proof. unfold has_u. rewrite HU. reflexivity. Qed.

Lemma has_step_ext a k b : has_step g a k b = has_step g' a k b.
Proof. destruct k; simpl; auto using has_u_ext. Qed.

Lemma next_steps_ext a vis : next_steps g a vis = next_steps g' a vis.
Proof.
  unfold next_steps. rewrite HV. apply flat_map_ext. intros k. f_equal.
  apply filter_ext. intros b. rewrite has_step_ext. reflexivity.
Qed.

Lemma paths_from_ext fuel : forall a vis, paths_from g fuel a vis = paths_from g' fuel a vis.
Proof.
  induction fuel as [|f IH]; intros a vis; simpl; [reflexivity|].
  rewrite next_steps_ext. apply flat_map_ext. intros s. rewrite IH. reflexivity.
Qed.

Lemma parents_ext v : parents g v = parents g' v.
Proof. unfold parents. rewrite HV. apply filter_ext. intros a. apply Hd. Qed.

Lemma anc_of_ext s : anc_of g s = anc_of g' s.
Proof. unfold anc_of. rewrite HV. apply closure_ext. exact parents_ext. Qed.

Lemma open_inner_b_ext anZ Z p : open_inner_b g anZ Z p = open_inner_b g' anZ Z p.
Proof.
  induction p as [|[k1 b] t IH]; [reflexivity|]. destruct t as [|[k2 c] t']; [reflexivity|].
  change (open_inner_b g anZ Z ((k1, b) :: (k2, c) :: t'))
    with ((if collider k1 k2 then memb b anZ else negb (memb b Z)) && open_inner_b g anZ Z ((k2, c) :: t')).
  change (open_inner_b g' anZ Z ((k1, b) :: (k2, c) :: t'))
    with ((if collider k1 k2 then memb b anZ else negb (memb b Z)) && open_inner_b g' anZ Z ((k2, c) :: t')).
  rewrite IH. reflexivity.
Qed.

Lemma msep_dec_ext X Y Z : msep_dec g X Y Z = msep_dec g' X Y Z.
Proof.
  unfold msep_dec. apply forallb_ext'. intros x. apply forallb_ext'. intros y.
  unfold mconn_paths, all_paths. rewrite anc_of_ext, HV, paths_from_ext.
  erewrite filter_ext; [reflexivity|]. intros p. simpl. rewrite open_inner_b_ext. reflexivity.
Qed.

Lemma madj_ext a b : madj g a b = madj g' a b.
Proof. unfold madj. rewrite !Hd, Hb. reflexivity. Qed.

Lemma adj_pairs_ext : adj_pairs g = adj_pairs g'.
Proof. unfold adj_pairs. rewrite HV. apply filter_ext. intros e. apply madj_ext. Qed.

Lemma qsig_on_ext vs : qsig_on vs g = qsig_on vs g'.
Proof.
  unfold qsig_on. apply flat_map_ext. intros e. apply map_ext. intros Z. apply msep_dec_ext.
Qed.

Lemma In_D_ext a b : In (a, b) (D g) <-> In (a, b) (D g').
Proof. pose proof (Hd a b) as E. unfold has_d in E. rewrite <- !pmemb_In, E. tauto. Qed.

Lemma In_B_ext a b : In (a, b) (B g) \/ In (b, a) (B g) <-> In (a, b) (B g') \/ In (b, a) (B g').
Proof. pose proof (Hb a b) as E. unfold has_b in E. rewrite <- !smemb_In, E. tauto. Qed.

Lemma wfb_ext : wfb g = wfb g'.
Proof.
  unfold wfb. rewrite HU, HC, HV. f_equal. f_equal. f_equal.
  - apply eq_true_iff_eq. rewrite !edges_ok_spec. split; intros X a b Hab; apply X; apply In_D_ext; exact Hab.
  - apply eq_true_iff_eq. rewrite !edges_ok_spec.
    split; intros X a b Hab.
    + destruct (proj2 (In_B_ext a b) (or_introl Hab)) as [Y|Y]; apply X in Y; intuition congruence.
    + destruct (proj1 (In_B_ext a b) (or_introl Hab)) as [Y|Y]; apply X in Y; intuition congruence.
Qed.

Lemma simple_mag_ext : simple_mag g = simple_mag g'.
Proof.
  unfold simple_mag. rewrite wfb_ext, HU, HC, HV. f_equal. f_equal. f_equal.
  rewrite !allb_forallb. apply forallb_ext'. intros [a b]. unfold one_edge. rewrite !Hd, Hb. reflexivity.
Qed.

Lemma acyclicb_ext9 : acyclicb g = acyclicb g'.
Proof. apply acyclicb_ext; assumption. Qed.

Lemma no_adc_ext : no_adc g = no_adc g'.
Proof.
  unfold no_adc. rewrite !allb_forallb. apply eq_true_iff_eq. rewrite !forallb_forall.
  assert (S : forall gg a b,
     negb (memb a (anc_of gg [b])) && negb (memb b (anc_of gg [a])) =
     negb (memb b (anc_of gg [a])) && negb (memb a (anc_of gg [b]))) by (intros; apply andb_comm).
  split; intros X [a b] Hab; simpl.
  - destruct (proj2 (In_B_ext a b) (or_introl Hab)) as [Y|Y]; apply X in Y; simpl in Y;
      rewrite <- !anc_of_ext; [exact Y|rewrite S; exact Y].
  - destruct (proj1 (In_B_ext a b) (or_introl Hab)) as [Y|Y]; apply X in Y; simpl in Y;
      rewrite !anc_of_ext; [exact Y|rewrite S; exact Y].
Qed.

Lemma ancestralb_ext : ancestralb g = ancestralb g'.
Proof. unfold ancestralb. rewrite acyclicb_ext9, no_adc_ext. reflexivity. Qed.

Lemma maximalb_ext : maximalb g = maximalb g'.
Proof.
  unfold maximalb. rewrite !allb_forallb, HV. apply forallb_ext'. intros e. rewrite madj_ext.
  destruct (madj g' (fst e) (snd e)); [reflexivity|].
  unfold separable, others. rewrite !anyb_existsb, HV.
  induction (sublists (others_of (V g') (fst e) (snd e))) as [|Z t IH]; cbn [existsb]; [reflexivity|].
  rewrite msep_dec_ext, IH. reflexivity.
Qed.

Lemma valid_mag_spec_ext : valid_mag_spec g = valid_mag_spec g'.
Proof. unfold valid_mag_spec. rewrite simple_mag_ext, ancestralb_ext, maximalb_ext. reflexivity. Qed.

Lemma mag_class_ext : mag_class g = mag_class g'.
Proof. unfold mag_class, same_adj_graphs. rewrite HV, adj_pairs_ext, qsig_on_ext. reflexivity. Qed.

Lemma pag_of_mag_ext : pag_of_mag g = pag_of_mag g'.
Proof. unfold pag_of_mag, pag_from. rewrite mag_class_ext, adj_pairs_ext, HV. reflexivity. Qed.

Lemma markov_equivb_ext_r m : markov_equivb m g = markov_equivb m g'.
Proof. unfold markov_equivb. rewrite HV, qsig_on_ext. reflexivity. Qed.

Lemma member_check_ext : member_check g = member_check g'.
Proof. unfold member_check, check_with. rewrite pag_of_mag_ext, markov_equivb_ext_r. reflexivity. Qed.
End Ext.

(* EVERY valid MAG (valid_mag_spec) on the nodes 0..n-1, n <= 4, any listing of its edges *)
Theorem p2m_member_all_mags_4 n m : n <= 4 -> V m = nodes n -> valid_mag_spec m = true -> member_check m = true.
Proof.
  intros Hn HV Hv.
  assert (Hs : simple_mag m = true).
  { unfold valid_mag_spec in Hv. destruct (simple_mag m); [reflexivity|discriminate]. }
  destruct (canon_mag_same_edges n m HV Hs) as (E1 & E2 & E3).
  set (c := canon_mag (D m) (B m) n) in *.
  assert (HUC : U m = [] /\ C m = []).
  { unfold simple_mag in Hs. rewrite !andb_true_iff in Hs. destruct Hs as [[_ Hu] Hc].
    destruct (U m); [|discriminate]. destruct (C m); [|discriminate]. auto. }
  assert (G : geq c m).
  { unfold geq. destruct HUC as [-> ->]. repeat split; auto. }
  rewrite <- (member_check_ext c m G). apply (p2m_member_upto_4 n); [exact Hn|].
  apply canon_mag_enum. change (valid_mag_spec c = true). rewrite (valid_mag_spec_ext c m G). exact Hv.
Qed.

(* ... hence the enumeration covers the class: every valid MAG on 0..n-1 has a member of all_mags n with the same nodes
   and the same directed / bidirected edge relations *)
Theorem all_mags_cover n m : V m = nodes n -> valid_mag_spec m = true ->
  exists c, In c (all_mags n) /\ V c = V m /\
            (forall a b, has_d c a b = has_d m a b) /\ (forall a b, has_b c a b = has_b m a b).
Proof.
  intros HV Hv.
  assert (Hs : simple_mag m = true).
  { unfold valid_mag_spec in Hv. destruct (simple_mag m); [reflexivity|discriminate]. }
  destruct (canon_mag_same_edges n m HV Hs) as (E1 & E2 & E3).
  exists (canon_mag (D m) (B m) n). repeat split; auto.
  assert (HUC : U m = [] /\ C m = []).
  { unfold simple_mag in Hs. rewrite !andb_true_iff in Hs. destruct Hs as [[_ Hu] Hc].
    destruct (U m); [|discriminate]. destruct (C m); [|discriminate]. auto. }
  apply canon_mag_enum. rewrite (valid_mag_spec_ext _ m); [exact Hv|].
  unfold geq. destruct HUC as [-> ->]. repeat split; auto.
Qed.
