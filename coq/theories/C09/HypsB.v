(* C09: boolean form of the hypotheses of p2m_shape_all_sizes (over the node list), evaluated by the harness on every PAG of
   a MAG it generates (run_case mode 1) and, in the kernel, on the PAG of every valid MAG on <= 3 nodes. *)
From Coq Require Import List Arith Bool Lia.
From PG Require Import Base.ListSet Graph.MGraph C08.Model C09.Model C09.Oracle C09.Spec C09.Component.
Import ListNotations.

Definition all2 (vs : list nat) (f : nat -> nat -> bool) : bool := allb (fun a => allb (f a) vs) vs.
Definition all3 (vs : list nat) (f : nat -> nat -> nat -> bool) : bool := allb (fun a => all2 vs (f a)) vs.
Definition imp (a b : bool) : bool := if a then b else true.

Definition pag_hypsb (g : mgraph) : bool :=
  let vs := V g in
  allb (fun a => negb (has_d g a a) && negb (has_b g a a)) vs &&
  all2 vs (fun x y => imp (has_c g x y && has_c g y x) (negb (has_d g x y) && negb (has_d g y x) && negb (has_b g x y))) &&
  all2 vs (fun u v => imp (has_c g u v) (has_d g v u || has_c g v u)) &&
  all3 vs (fun a c b => imp (arrow_at g a c && has_c g b c && has_c g c b && negb (Nat.eqb a b)) (arrow_at g a b)) &&
  all3 vs (fun a c b => imp (has_d g a c && has_c g b c && has_c g c b && negb (Nat.eqb a b)) (has_d g a b)) &&
  acyclicb g && no_adc g.

Definition rounds_ok_b (g : mgraph) : bool :=
  let t := temp_cpdag g in rounds_ext_b (length (U t)) t.

(* for the harness: evaluated only when the circle component has at most 8 o-o edges (the enumeration of extensions is
   exponential in that number); larger components report true *)
Definition rounds_ok_small_b (g : mgraph) : bool :=
  if Nat.leb (length (U (temp_cpdag g))) 8 then rounds_ok_b g else true.

Lemma hyps_upto_3 :
  forallb (fun n => forallb (fun m0 => let g := pag_of_mag m0 in pag_hypsb g && rounds_ok_b g) (all_mags n)) [0; 1; 2; 3] = true.
Proof. vm_compute. reflexivity. Qed.

Theorem pag_hyps_hold_bounded_3 n m0 : n <= 3 -> In m0 (all_mags n) ->
  pag_hypsb (pag_of_mag m0) = true /\ rounds_ok_b (pag_of_mag m0) = true.
Proof.
  intros Hn Hm. pose proof hyps_upto_3 as H. rewrite forallb_forall in H.
  assert (Hin : In n [0; 1; 2; 3]) by (simpl; lia).
  specialize (H n Hin). rewrite forallb_forall in H. specialize (H m0 Hm). simpl in H.
  apply andb_true_iff in H. exact H.
Qed.
