(* C09: Meek's Theorem 4 for ALL sizes on skeletons that are disjoint unions of CLIQUES AND TREES, stated locally:
   [ct_skel]: the three nodes of every triangle have the same closed neighbourhood (so a connected component containing a
   triangle is a clique, the others are triangle-free; with chordality: trees).  Same elimination argument as Meek4Forest.v;
   the end z of a directed chain is simplicial because all its neighbours are adjacent to its directed parent (R1, no
   unshielded collider) and hence lie in one clique; if the chain ends at a itself, a lies in a clique component and the
   chain started at b stays in it, where closedness under R2 makes the directed layer transitive. *)
From Coq Require Import List Arith Bool Lia.
From PG Require Import Base.ListSet Graph.MGraph C08.Model C08.Spec C08.Proofs C08.Acyclic C08.Ext C08.ExtEss C08.Reflect
                       C08.Chordal C08.ChordalOrient C08.ChordalComplete C08.Topo
                       C09.Model C09.Proofs C09.Component C09.Rounds C09.Meek4Elim C09.Meek4Forest.
Import ListNotations.

Definition ct_skel (g : mgraph) : Prop :=
  forall x y z u, padj g x y = true -> padj g y z = true -> padj g x z = true ->
                  padj g x u = true -> u <> y -> padj g y u = true.

Lemma ct_class : skeleton_class ct_skel.
Proof. intros g h _ Hadj Ht x y z u. rewrite !Hadj. apply Ht. Qed.

(* the neighbours of a triangle node are pairwise adjacent *)
Lemma ct_nbrs g : ct_skel g -> forall x y z, padj g x y = true -> padj g y z = true -> padj g x z = true ->
  forall u v, padj g x u = true -> padj g x v = true -> u <> v -> padj g u v = true.
Proof.
  intros Ht x y z Hxy Hyz Hxz u v Hu Hv Hne.
  destruct (Nat.eq_dec u y) as [->|Huy].
  - apply (Ht x y z v Hxy Hyz Hxz Hv). auto.
  - assert (Hyu : padj g y u = true) by (apply (Ht x y z u Hxy Hyz Hxz Hu Huy)).
    apply (Ht x u y v Hu); [rewrite padj_sym; exact Hyu|exact Hxy|exact Hv|auto].
Qed.

Section CT.
Variable g : mgraph.
Hypothesis Hw : pwf g.
Hypothesis Hs : simple_pdag g.
Hypothesis Hc : rule_closed g.
Hypothesis Hx : vext g.
Hypothesis Hct : ct_skel g.
Variables a b : nat.
Hypothesis Hab : has_u g a b = true.

Lemma R1c' k i j : has_d g k i = true -> has_u g i j = true -> padj g k j = false -> False.
Proof.
  intros H1 H2 H3. destruct (g_u_nodes g Hw i j H2) as (Hi & Hj & _). destruct (g_d_nodes g Hw k i H1) as (Hk & _ & _).
  pose proof (Hc i j Hi Hj) as F. unfold fires in F. rewrite H2 in F. simpl in F.
  assert (X : r1 g i j = true).
  { unfold r1. apply existsb_exists. exists k. split; [apply parents_In; auto|rewrite H3; reflexivity]. }
  rewrite X in F. discriminate.
Qed.

Lemma R2c' i k j : has_d g i k = true -> has_d g k j = true -> has_u g i j = true -> False.
Proof.
  intros H1 H2 H3. destruct (g_u_nodes g Hw i j H3) as (Hi & Hj & _). destruct (g_d_nodes g Hw i k H1) as (_ & Hk & _).
  pose proof (Hc i j Hi Hj) as F. unfold fires in F. rewrite H3 in F. simpl in F.
  assert (X : r2 g i j = true).
  { unfold r2. apply existsb_exists. exists k. split; [apply children_In; auto|exact H2]. }
  rewrite X, orb_true_r in F. discriminate.
Qed.

Lemma Dvf p q c : has_d g p c = true -> has_d g q c = true -> p <> q -> padj g p q = true.
Proof.
  intros H1 H2 Hne. destruct Hx as [d [(_ & _ & _ & Hadj & HD & _) Hvf]].
  assert (E1 : has_d d p c = true) by (apply pmemb_In; apply HD; apply pmemb_In; exact H1).
  assert (E2 : has_d d q c = true) by (apply pmemb_In; apply HD; apply pmemb_In; exact H2).
  pose proof (Hvf p c q) as X. unfold vstructb in X. rewrite E1, E2, (proj2 (Nat.eqb_neq p q) Hne) in X. simpl in X.
  apply negb_false_iff in X. rewrite Hadj in X. exact X.
Qed.

Section WithOrder.
Variable l0 : list nat.
Hypothesis Hnd0 : NoDup l0.
Hypothesis Hel0 : forall x, In x l0 <-> In x (V g).
Hypothesis Hpeo0 : is_peo (padj g) l0.
Hypothesis Hcomp0 : compat g l0.

(* a node of R with a directed parent in R and no directed edge into R is simplicial in R *)
Lemma chain_end_simplicial R z w : In z R -> In w R -> has_d g w z = true -> (forall y, In y R -> has_d g z y = false) ->
  simpl_in (padj g) R z.
Proof.
  intros Hz Hw' Hwz Hsink.
  assert (Pzw : padj g z w = true) by (apply padj_true; auto).
  assert (Nb : forall r, In r R -> padj g z r = true -> r <> w -> padj g w r = true).
  { intros r Hr Hzr Hne. apply padj_true in Hzr. destruct Hzr as [H|[H|H]].
    - rewrite (Hsink r Hr) in H. discriminate.
    - apply (Dvf w r z Hwz H). auto.
    - destruct (padj g w r) eqn:E; [reflexivity|]. exfalso. exact (R1c' w z r Hwz H E). }
  intros p q Hp Hq A1 A2 Hpq.
  destruct (Nat.eq_dec p w) as [->|Hpw]; [apply Nb; auto|].
  destruct (Nat.eq_dec q w) as [->|Hqw]; [rewrite padj_sym; apply Nb; auto|].
  (* z, w, p form a triangle: the neighbours of z are pairwise adjacent *)
  apply (ct_nbrs g Hct z w p Pzw (Nb p Hp A1 Hpw) A1 p q A1 A2 Hpq).
Qed.

(* following directed edges from b inside R while b stays adjacent to (indeed a parent of) the current node *)
Lemma chain_from_b R : (forall x y, In x R -> In y R -> (x = b \/ has_d g b x = true) -> has_d g x y = true -> padj g b y = true) ->
  forall n x, idx l0 x < n -> In x R -> (x = b \/ has_d g b x = true) ->
  exists z, In z R /\ (z = b \/ has_d g b z = true) /\ forall y, In y R -> has_d g z y = false.
Proof.
  intros Hadjb. induction n as [|n IH]; intros x Hn Hx' Hbx; [lia|].
  destruct (existsb (fun y => has_d g x y) R) eqn:E.
  - apply existsb_exists in E. destruct E as (y & Hy & Hxy).
    apply (IH y); [pose proof (Hcomp0 x y Hxy); lia|exact Hy|]. right.
    destruct Hbx as [->|Hbx]; [exact Hxy|].
    pose proof (Hadjb x y Hx' Hy (or_intror Hbx) Hxy) as P. apply padj_true in P. destruct P as [P|[P|P]]; [exact P| |].
    + exfalso. pose proof (Hcomp0 b x Hbx). pose proof (Hcomp0 x y Hxy). pose proof (Hcomp0 y b P). lia.
    + exfalso. exact (R2c' b x y Hbx Hxy P).
  - exists x. split; [exact Hx'|]. split; [exact Hbx|]. intros y Hy.
    destruct (has_d g x y) eqn:Exy; [|reflexivity].
    assert (X : existsb (fun y => has_d g x y) R = true) by (apply existsb_exists; exists y; auto). congruence.
Qed.

Theorem eligible_exists_ct R : NoDup R -> incl R (V g) -> R <> [] -> exists s, eligible g a b R s.
Proof.
  intros Hnd Hin Hne.
  destruct (g_u_nodes g Hw a b Hab) as (HaV & HbV & Hneab).
  destruct (min_idx l0 R Hne) as (s0 & Hs0 & Hm0).
  destruct (min_simplicial_sink g Hw l0 Hel0 Hpeo0 Hcomp0 R s0 Hin Hs0 Hm0) as [Ssim Ssink].
  destruct (Nat.eq_dec s0 a) as [Ea|Ea]; [|exists s0; repeat split; auto; intros; congruence].
  destruct (in_dec Nat.eq_dec b R) as [HbR|HbR]; [|exists s0; repeat split; auto].
  subst s0. rename Hs0 into HaR.
  assert (Pab : padj g a b = true) by (apply padj_true; auto).
  assert (Nba : has_d g b a = false) by (destruct (Hs a b Hab) as [_ N]; exact N).
  (* an eligible node below b, given that b is adjacent to every node reached *)
  assert (FromB : (forall x y, In x R -> In y R -> (x = b \/ has_d g b x = true) -> has_d g x y = true -> padj g b y = true) ->
                  (forall z, In z R -> (z = b \/ has_d g b z = true) -> simpl_in (padj g) R z) ->
                  exists s, eligible g a b R s).
  { intros HA HS. destruct (chain_from_b R HA (S (idx l0 b)) b (Nat.lt_succ_diag_r _) HbR (or_introl eq_refl))
      as (z & Hz & Hbz & Hzs).
    exists z. split; [exact Hz|]. split; [apply HS; assumption|]. split; [exact Hzs|].
    intros Eza. subst z. destruct Hbz as [E|E]; congruence. }
  set (lR := filter (fun x => memb x R) l0).
  assert (ElR : forall x, In x lR <-> In x R).
  { intros x. unfold lR. rewrite filter_In, memb_In, Hel0. split; [tauto|]. intros H. split; [apply Hin; exact H|exact H]. }
  assert (NlR : NoDup lR) by (apply NoDup_filter; exact Hnd0).
  assert (PlR : is_peo (padj g) lR) by (apply is_peo_filter; exact Hpeo0).
  destruct (dirac (padj g) (fun x y => padj_sym g x y) (g_adj_irrefl g Hw) lR NlR PlR)
    as [Hcpl|(x & y & Hx' & Hy & Hxy & Hnxy & Sx & Sy)].
  - (* R is a clique *)
    assert (Cpl : forall p q, In p R -> In q R -> p <> q -> padj g p q = true).
    { intros p q Hp Hq. apply Hcpl; apply ElR; assumption. }
    apply FromB.
    + intros p q Hp Hq Hbp Hpq. apply Cpl; [exact HbR|exact Hq|]. intros <-.
      destruct Hbp as [->|Hbp]; [apply (g_d_nodes g Hw) in Hpq; tauto|].
      pose proof (Hcomp0 b p Hbp). pose proof (Hcomp0 p b Hpq). lia.
    + intros z Hz _ p q Hp Hq _ _ Hpq. apply Cpl; assumption.
  - assert (Simp : forall v, simpl_in (padj g) lR v -> simpl_in (padj g) R v).
    { intros v H. eapply simpl_in_incl; [|exact H]. intros r Hr. apply ElR. exact Hr. }
    assert (Pick : exists x', In x' R /\ x' <> a /\ simpl_in (padj g) R x').
    { destruct (Nat.eq_dec x a) as [->|Hxa]; [exists y|exists x]; repeat split; try (apply ElR; assumption); auto. }
    destruct Pick as (x' & Hx'R & Hx'a & Sx').
    destruct (existsb (fun q => has_d g x' q) R) eqn:E.
    + apply existsb_exists in E. destruct E as (y0 & Hy0 & Hxy0).
      destruct (sink_chain g l0 Hcomp0 R (S (idx l0 y0)) y0 x' (Nat.lt_succ_diag_r _) Hy0 Hx'R Hxy0) as (z & w' & Hz & Hw' & Hwz & Hzs).
      destruct (Nat.eq_dec z a) as [Eza|Nza].
      * (* the chain ended at a: a has a directed parent w', so a, w', b is a triangle and a's component is a clique *)
        subst z.
        assert (Pwb : padj g w' b = true).
        { destruct (padj g w' b) eqn:E; [reflexivity|]. exfalso. exact (R1c' w' a b Hwz Hab E). }
        assert (Paw : padj g a w' = true) by (apply padj_true; auto).
        assert (Tb : forall u v, padj g b u = true -> padj g b v = true -> u <> v -> padj g u v = true).
        { apply (ct_nbrs g Hct b a w'); [rewrite padj_sym; exact Pab|exact Paw|rewrite padj_sym; exact Pwb]. }
        assert (NbrA : forall u, padj g b u = true -> u <> a -> padj g a u = true).
        { intros u Hu Hua. apply (Tb a u); [rewrite padj_sym; exact Pab|exact Hu|auto]. }
        apply FromB.
        -- intros p q Hp Hq Hbp Hpq. destruct Hbp as [->|Hbp]; [apply padj_true; auto|].
           assert (Pbp : padj g b p = true) by (apply padj_true; auto).
           destruct (Nat.eq_dec q b) as [->|Hqb].
           { exfalso. pose proof (Hcomp0 b p Hbp). pose proof (Hcomp0 p b Hpq). lia. }
           destruct (Nat.eq_dec p a) as [->|Hpa]; [congruence|].
           (* p, b, a is a triangle, so the neighbour q of p is a neighbour of b *)
           assert (Ppa : padj g p a = true) by (rewrite padj_sym; apply NbrA; assumption).
           apply (Hct p b a q); [rewrite padj_sym; exact Pbp|rewrite padj_sym; exact Pab|exact Ppa|apply padj_true; auto|exact Hqb].
        -- intros z2 Hz2 Hbz p q Hp Hq A1 A2 Hpq. destruct Hbz as [->|Hbz]; [apply Tb; assumption|].
           assert (Pbz : padj g b z2 = true) by (apply padj_true; auto).
           assert (Hza : z2 <> a) by (intros ->; congruence).
           assert (Pza : padj g z2 a = true) by (rewrite padj_sym; apply NbrA; assumption).
           apply (ct_nbrs g Hct z2 b a); [rewrite padj_sym; exact Pbz|rewrite padj_sym; exact Pab|exact Pza|exact A1|exact A2|exact Hpq].
      * exists z. split; [exact Hz|]. split; [apply (chain_end_simplicial R z w'); assumption|]. split; [exact Hzs|].
        intros; congruence.
    + exists x'. split; [exact Hx'R|]. split; [exact Sx'|]. split; [|intros; congruence].
      intros q Hq. destruct (has_d g x' q) eqn:Eq; [|reflexivity].
      assert (X : existsb (fun q => has_d g x' q) R = true) by (apply existsb_exists; exists q; auto). congruence.
Qed.
End WithOrder.

Theorem ct_extendable : vext (orient g a b).
Proof.
  destruct (peo_of_ext g Hw Hx) as (l0 & Hnd0 & Hel0 & Hpeo0 & Hcomp0).
  apply (extend_by_elimination g Hw a b Hs Hab). intros R Hnd Hin Hne.
  apply (eligible_exists_ct l0 Hnd0 Hel0 Hpeo0 Hcomp0 R Hnd Hin Hne).
Qed.
End CT.

Theorem meek4_ct : meek4_on ct_skel.
Proof. intros g Pg Hs Hw Hc Hx u v Huv. apply ct_extendable; assumption. Qed.

(* the class contains the cluster skeletons and the triangle-free ones *)
Lemma cluster_ct g : cluster g -> ct_skel g.
Proof. intros Hcl x y z u Hxy _ _ Hxu Huy. apply (Hcl y x u); [rewrite padj_sym; exact Hxy|exact Hxu|auto]. Qed.
Lemma triangle_free_ct g : triangle_free g -> ct_skel g.
Proof. intros Htf x y z u Hxy Hyz Hxz _ _. exfalso. exact (Htf x y z Hxy Hyz Hxz). Qed.

From PG Require Import C09.Oracle C09.Whole.

Theorem rounds_ct f t : ct_skel t -> pwf t -> D t = [] -> vext t -> rounds_extendable f t.
Proof.
  intros Hct Hw HD Hx. apply (rounds_of_meek4 ct_skel ct_class meek4_ct).
  split; [exact Hct|]. split; [intros x y _; unfold has_d; rewrite HD; split; reflexivity|].
  split; [exact Hw|]. split; [apply no_directed_closed; exact HD|exact Hx].
Qed.

(* PARTIAL answer to meek4_on chordal_skel: the shape clauses for ALL sizes, no hypothesis on the rounds, when the circle
   component is chordal and every connected component of it is a clique or a tree (ct_skel) *)
Theorem p2m_shape_ct_partial g : pag_hyps g -> pwf (temp_cpdag g) -> chordal_g (temp_cpdag g) -> ct_skel (temp_cpdag g) ->
  let m := pag_to_mag_model g in
  acyclic m /\
  (forall a b, has_b m a b = true -> dpath m a b -> False) /\
  (forall a c b, arrow_at m a c = true -> arrow_at m b c = true -> a <> b -> adjacent m a b = false ->
                 arrow_at g a c = true /\ arrow_at g b c = true).
Proof.
  intros HP Hw Hc Hct. apply p2m_shape_all_sizes; [exact HP|].
  apply rounds_ct; [exact Hct|exact Hw|reflexivity|apply (chordal_vext (temp_cpdag g) Hw eq_refl Hc)].
Qed.
