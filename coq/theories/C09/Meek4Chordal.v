(* C09: MEEK'S THEOREM 4 ON CHORDAL SKELETONS, ALL SIZES (proof by the lead, formalised here).
   K closed under R1, R2, R4, with a v-structure-free consistent extension (hence a chordal skeleton), a - b undirected:
   there is a perfect elimination ordering (sinks first) compatible with the directed layer that eliminates b before a.
   Induction on the node set R: remove a simplicial node s outside {a, b} (Dirac's lemma), order R - s by induction, and
   re-insert s IMMEDIATELY AFTER its last-eliminated directed child t* (first, if it has none). *)
From Coq Require Import List Arith Bool Lia.
From PG Require Import Base.ListSet Graph.MGraph C08.Model C08.Spec C08.Proofs C08.Acyclic C08.Ext C08.ExtEss C08.Reflect
                       C08.Chordal C08.ChordalOrient C08.ChordalComplete C08.Topo
                       C09.Model C09.Proofs C09.Component C09.Rounds C09.Meek4Elim C09.Meek4Forest.
Import ListNotations.

(* ---------- inserting a node at position k ---------- *)
Fixpoint ins (k s : nat) (l : list nat) : list nat :=
  match k, l with
  | 0, _ => s :: l
  | S k', x :: t => x :: ins k' s t
  | S _, [] => [s]
  end.

Lemma ins_In k s : forall l x, In x (ins k s l) <-> x = s \/ In x l.
Proof.
  induction k as [|k IH]; intros l x; simpl; [intuition|]. destruct l as [|y t]; simpl; [intuition|].
  rewrite IH. intuition.
Qed.

Lemma ins_NoDup k s : forall l, NoDup l -> ~ In s l -> NoDup (ins k s l).
Proof.
  induction k as [|k IH]; intros l Hnd Hs; simpl; [constructor; assumption|].
  destruct l as [|y t]; [constructor; [intros []|constructor]|].
  inversion Hnd; subst. constructor.
  - rewrite ins_In. simpl in Hs. intros [->|H]; tauto.
  - apply IH; [assumption|simpl in Hs; tauto].
Qed.

Lemma idx_ins_s k s : forall l, ~ In s l -> k <= length l -> idx (ins k s l) s = k.
Proof.
  induction k as [|k IH]; intros l Hs Hk; simpl; [rewrite Nat.eqb_refl; reflexivity|].
  destruct l as [|y t]; [simpl in Hk; lia|]. simpl.
  destruct (Nat.eqb s y) eqn:E; [apply Nat.eqb_eq in E; subst; simpl in Hs; tauto|].
  f_equal. apply IH; [simpl in Hs; tauto|simpl in Hk; lia].
Qed.

Lemma idx_ins_lt k s : forall l x, In x l -> x <> s -> idx l x < k -> idx (ins k s l) x = idx l x.
Proof.
  induction k as [|k IH]; intros l x Hx Hne Hlt; [lia|]. destruct l as [|y t]; [destruct Hx|]. simpl in *.
  destruct (Nat.eqb x y) eqn:E; [reflexivity|]. apply Nat.eqb_neq in E. f_equal. apply IH; [|exact Hne|lia].
  destruct Hx as [->|Hx]; [congruence|exact Hx].
Qed.

Lemma idx_ins_ge k s : forall l x, In x l -> x <> s -> k <= idx l x -> idx (ins k s l) x = S (idx l x).
Proof.
  induction k as [|k IH]; intros l x Hx Hne Hge; simpl.
  - destruct (Nat.eqb x s) eqn:E; [apply Nat.eqb_eq in E; congruence|reflexivity].
  - destruct l as [|y t]; [destruct Hx|]. simpl in *.
    destruct (Nat.eqb x y) eqn:E; [lia|]. apply Nat.eqb_neq in E. f_equal. apply IH; [|exact Hne|lia].
    destruct Hx as [->|Hx]; [congruence|exact Hx].
Qed.

(* position after the last element satisfying f *)
Fixpoint cut (f : nat -> bool) (l : list nat) : nat :=
  match l with
  | [] => 0
  | x :: t => let c := cut f t in if Nat.eqb c 0 then (if f x then 1 else 0) else S c
  end.

Lemma cut_le f l : cut f l <= length l.
Proof. induction l as [|x t IH]; simpl; [lia|]. destruct (Nat.eqb (cut f t) 0); [destruct (f x); lia|lia]. Qed.

Lemma cut_above f l : NoDup l -> forall x, In x l -> f x = true -> idx l x < cut f l.
Proof.
  induction l as [|y t IH]; intros Hnd x Hx Hf; [destruct Hx|]. inversion Hnd; subst. simpl.
  destruct (Nat.eqb x y) eqn:E.
  - apply Nat.eqb_eq in E. subst. rewrite Hf. destruct (Nat.eqb (cut f t) 0); lia.
  - apply Nat.eqb_neq in E. destruct Hx as [->|Hx]; [congruence|].
    specialize (IH H2 x Hx Hf). destruct (Nat.eqb (cut f t) 0) eqn:C; [apply Nat.eqb_eq in C; lia|lia].
Qed.

Lemma cut_witness f l : NoDup l -> cut f l <> 0 -> exists t, In t l /\ f t = true /\ S (idx l t) = cut f l.
Proof.
  induction l as [|y t IH]; intros Hnd Hc; simpl in *; [congruence|]. inversion Hnd; subst.
  destruct (Nat.eqb (cut f t) 0) eqn:C.
  - destruct (f y) eqn:F; [|congruence]. exists y. rewrite Nat.eqb_refl. auto.
  - apply Nat.eqb_neq in C. destruct (IH H2 C) as (w & Hw & Fw & Ew). exists w. split; [auto|]. split; [exact Fw|].
    destruct (Nat.eqb w y) eqn:E; [apply Nat.eqb_eq in E; subst; tauto|]. lia.
Qed.

Section M4.
Variable g : mgraph.
Hypothesis Hw : pwf g.
Hypothesis Hs : simple_pdag g.
Hypothesis Hc : rule_closed g.
Hypothesis Hx : vext g.
Variables a b : nat.
Hypothesis Hab : has_u g a b = true.

(* the rules in contrapositive form *)
Lemma Q1 k i j : has_d g k i = true -> has_u g i j = true -> padj g k j = false -> False.
Proof.
  intros H1 H2 H3. destruct (g_u_nodes g Hw i j H2) as (Hi & Hj & _). destruct (g_d_nodes g Hw k i H1) as (Hk & _ & _).
  pose proof (Hc i j Hi Hj) as F. unfold fires in F. rewrite H2 in F. simpl in F.
  assert (X : r1 g i j = true).
  { unfold r1. apply existsb_exists. exists k. split; [apply parents_In; auto|rewrite H3; reflexivity]. }
  rewrite X in F. discriminate.
Qed.
Lemma Q2 i k j : has_d g i k = true -> has_d g k j = true -> has_u g i j = true -> False.
Proof.
  intros H1 H2 H3. destruct (g_u_nodes g Hw i j H3) as (Hi & Hj & _). destruct (g_d_nodes g Hw i k H1) as (_ & Hk & _).
  pose proof (Hc i j Hi Hj) as F. unfold fires in F. rewrite H3 in F. simpl in F.
  assert (X : r2 g i j = true).
  { unfold r2. apply existsb_exists. exists k. split; [apply children_In; auto|exact H2]. }
  rewrite X, orb_true_r in F. discriminate.
Qed.
Lemma Q4 i k l j : has_u g i k = true -> has_d g k l = true -> has_d g l j = true ->
  padj g k j = false -> padj g i l = true -> has_u g i j = true -> False.
Proof.
  intros H1 H2 H3 H4 H5 H6. destruct (g_u_nodes g Hw i j H6) as (Hi & Hj & _).
  destruct (g_d_nodes g Hw k l H2) as (Hk & Hl & _).
  pose proof (Hc i j Hi Hj) as F. unfold fires in F. rewrite H6 in F. simpl in F.
  assert (X : r4 g i j = true).
  { unfold r4. apply existsb_exists. exists l. split; [apply parents_In; auto|].
    rewrite H5. simpl. apply existsb_exists. exists k. split; [apply parents_In; auto|]. rewrite H1, H4. reflexivity. }
  rewrite X, !orb_true_r in F. discriminate.
Qed.
Lemma QV p q c : has_d g p c = true -> has_d g q c = true -> p <> q -> padj g p q = true.
Proof.
  intros H1 H2 Hne. destruct Hx as [d [(_ & _ & _ & Hadj & HD & _) Hvf]].
  assert (E1 : has_d d p c = true) by (apply pmemb_In; apply HD; apply pmemb_In; exact H1).
  assert (E2 : has_d d q c = true) by (apply pmemb_In; apply HD; apply pmemb_In; exact H2).
  pose proof (Hvf p c q) as X. unfold vstructb in X. rewrite E1, E2, (proj2 (Nat.eqb_neq p q) Hne) in X. simpl in X.
  apply negb_false_iff in X. rewrite Hadj in X. exact X.
Qed.

Lemma usym8 x y : has_u g x y = true -> has_u g y x = true.
Proof. rewrite (has_u_sym g x y). auto. Qed.

Section WithOrder.
Variable l0 : list nat.
Hypothesis Hnd0 : NoDup l0.
Hypothesis Hel0 : forall x, In x l0 <-> In x (V g).
Hypothesis Hpeo0 : is_peo (padj g) l0.
Hypothesis Hcomp0 : compat g l0.

(* no directed 2- or 3-cycles *)
Lemma no2 x y : has_d g x y = true -> has_d g y x = true -> False.
Proof. intros H1 H2. apply Hcomp0 in H1. apply Hcomp0 in H2. lia. Qed.
Lemma no3 x y z : has_d g x y = true -> has_d g y z = true -> has_d g z x = true -> False.
Proof. intros H1 H2 H3. apply Hcomp0 in H1. apply Hcomp0 in H2. apply Hcomp0 in H3. lia. Qed.

(* u -> s -> t with u, t adjacent: u -> t *)
Lemma trans_adj u s t : has_d g u s = true -> has_d g s t = true -> padj g u t = true -> has_d g u t = true.
Proof.
  intros H1 H2 P. apply padj_true in P. destruct P as [P|[P|P]]; [exact P| |].
  - exfalso. exact (no3 u s t H1 H2 P).
  - exfalso. exact (Q2 u s t H1 H2 P).
Qed.

(* Lemma S: a simplicial node of R outside {a, b} *)
Lemma simplicial_outside R : NoDup R -> incl R (V g) -> In a R -> In b R -> 3 <= length R ->
  exists s, In s R /\ s <> a /\ s <> b /\ simpl_in (padj g) R s.
Proof.
  intros Hnd Hin Ha Hb Hlen.
  set (lR := filter (fun x => memb x R) l0).
  assert (ElR : forall x, In x lR <-> In x R).
  { intros x. unfold lR. rewrite filter_In, memb_In, Hel0. split; [tauto|]. intros H. split; [apply Hin; exact H|exact H]. }
  assert (NlR : NoDup lR) by (apply NoDup_filter; exact Hnd0).
  assert (PlR : is_peo (padj g) lR) by (apply is_peo_filter; exact Hpeo0).
  assert (Simp : forall v, simpl_in (padj g) lR v -> simpl_in (padj g) R v).
  { intros v H. eapply simpl_in_incl; [|exact H]. intros r Hr. apply ElR. exact Hr. }
  assert (Pab : padj g a b = true) by (apply padj_true; auto).
  destruct (dirac (padj g) (fun x y => padj_sym g x y) (g_adj_irrefl g Hw) lR NlR PlR)
    as [Hcpl|(x & y & Hx' & Hy & Hxy & Hnxy & Sx & Sy)].
  - (* complete: any third node *)
    assert (T : exists s, In s R /\ s <> a /\ s <> b).
    { destruct R as [|r1 [|r2 [|r3 R']]]; simpl in Hlen; try lia.
      inversion Hnd as [|? ? N1 Hnd1]; subst. inversion Hnd1 as [|? ? N2 Hnd2]; subst. inversion Hnd2 as [|? ? N3 _]; subst.
      simpl in N1, N2.
      destruct (Nat.eq_dec r1 a), (Nat.eq_dec r1 b), (Nat.eq_dec r2 a), (Nat.eq_dec r2 b), (Nat.eq_dec r3 a), (Nat.eq_dec r3 b);
        subst; try (exfalso; tauto);
        try (exists r1; simpl; split; [auto|split; assumption]);
        try (exists r2; simpl; split; [auto|split; assumption]);
        try (exists r3; simpl; split; [auto|split; assumption]). }
    destruct T as (s & HsR & Hsa & Hsb). exists s. repeat split; auto.
    intros p q Hp Hq _ _ Hpq. apply Hcpl; try (apply ElR; assumption). exact Hpq.
  - destruct (Nat.eq_dec x a) as [Exa|Exa]; destruct (Nat.eq_dec x b) as [Exb|Exb];
      destruct (Nat.eq_dec y a) as [Eya|Eya]; destruct (Nat.eq_dec y b) as [Eyb|Eyb]; subst;
      try congruence;
      try (rewrite padj_sym in Hnxy; congruence);
      try (exists y; repeat split; try (apply ElR; assumption); auto; fail);
      try (exists x; repeat split; try (apply ElR; assumption); auto; fail).
Qed.

(* the ordering of a node set containing a and b *)
Theorem order_exists : forall n R, length R <= n -> NoDup R -> incl R (V g) -> In a R -> In b R ->
  exists l, NoDup l /\ (forall x, In x l <-> In x R) /\ is_peo (padj g) l /\ compat_on g l /\ idx l b < idx l a.
Proof.
  destruct (g_u_nodes g Hw a b Hab) as (HaV & HbV & Hneab).
  induction n as [|n IH]; intros R Hlen Hnd Hin Ha Hb.
  - destruct R; [destruct Ha|simpl in Hlen; lia].
  - destruct (le_lt_dec 3 (length R)) as [H3|H2].
    + (* remove a simplicial node s outside {a, b} *)
      destruct (simplicial_outside R Hnd Hin Ha Hb H3) as (s & HsR & Hsa & Hsb & Ssim).
      pose proof (rem_length s R HsR) as Hl.
      destruct (IH (rem s R) ltac:(lia) (rem_NoDup s R Hnd)) as (l' & N' & E' & P' & C' & AB').
      { intros x Hxr. apply rem_In in Hxr. apply Hin. tauto. }
      { apply rem_In. auto. }
      { apply rem_In. auto. }
      assert (Hsl : ~ In s l') by (intros X; apply E' in X; apply rem_In in X; tauto).
      assert (InR : forall x, In x l' -> In x R /\ x <> s) by (intros x Hx'; apply E' in Hx'; apply rem_In in Hx'; exact Hx').
      set (k := cut (fun t => has_d g s t) l').
      set (l := ins k s l').
      assert (Hk : k <= length l') by apply cut_le.
      assert (Is : idx l s = k) by (apply idx_ins_s; assumption).
      assert (Ilt : forall x, In x l' -> idx l' x < k -> idx l x = idx l' x).
      { intros x Hx' L. apply idx_ins_lt; [exact Hx'|apply (InR x Hx')|exact L]. }
      assert (Ige : forall x, In x l' -> k <= idx l' x -> idx l x = S (idx l' x)).
      { intros x Hx' L. apply idx_ins_ge; [exact Hx'|apply (InR x Hx')|exact L]. }
      assert (Mono : forall x y, In x l' -> In y l' -> (idx l x < idx l y <-> idx l' x < idx l' y)).
      { intros x y Hx' Hy. destruct (le_lt_dec k (idx l' x)) as [Lx|Lx]; destruct (le_lt_dec k (idx l' y)) as [Ly|Ly];
          rewrite ?(Ige x Hx' Lx), ?(Ilt x Hx' Lx), ?(Ige y Hy Ly), ?(Ilt y Hy Ly); lia. }
      assert (Child : forall t, In t l' -> has_d g s t = true -> idx l' t < k).
      { intros t Ht Hst. apply (cut_above (fun t => has_d g s t) l' N' t Ht Hst). }
      assert (Tstar : k <> 0 -> exists t, In t l' /\ has_d g s t = true /\ S (idx l' t) = k).
      { intros Hk0. apply (cut_witness (fun t => has_d g s t) l' N' Hk0). }
      assert (NbrAdj : forall p q, In p l' -> In q l' -> padj g s p = true -> padj g s q = true -> p <> q -> padj g p q = true).
      { intros p q Hp Hq A1 A2 Hpq. apply (Ssim p q); try (apply (InR _)); assumption. }
      (* a directed parent of s comes after every directed child of s *)
      assert (Parent : forall u, In u l' -> has_d g u s = true -> k <= idx l' u).
      { intros u Hu Hus. destruct (Nat.eq_dec k 0) as [E0|N0]; [lia|].
        destruct (Tstar N0) as (t & Ht & Hst & Ek).
        assert (Hut : u <> t) by (intros ->; exact (no2 t s Hus Hst)).
        assert (Put : padj g u t = true).
        { apply NbrAdj; try assumption; [rewrite padj_sym|]; apply padj_true; auto. }
        pose proof (trans_adj u s t Hus Hst Put) as Hd. pose proof (C' u t Hu Ht Hd). lia. }
      exists l. split; [apply ins_NoDup; assumption|]. split; [|split; [|split]].
      * intros x. unfold l. rewrite ins_In, E', rem_In. split; [intros [->|[H _]]; auto|].
        intros H. destruct (Nat.eq_dec x s); [auto|right; split; auto].
      * (* perfect *)
        apply peo_of_later; [apply ins_NoDup; assumption|].
        assert (Key : forall h y, In h l' -> In y l' -> idx l' h < k -> idx l' h < idx l' y ->
                      padj g h s = true -> padj g h y = true -> padj g s y = true).
        { intros h y Hh Hy Lh Lhy Ahs Ahy. destruct (padj g s y) eqn:Nsy; [reflexivity|exfalso].
          destruct (has_d g s h) eqn:Dsh.
          - (* h is a directed child of s *)
            apply padj_true in Ahy. destruct Ahy as [H|[H|H]].
            + pose proof (C' h y Hh Hy H). lia.
            + assert (Hys : y <> s) by (apply (InR y Hy)).
              pose proof (QV s y h Dsh H (not_eq_sym Hys)) as P. congruence.
            + exact (Q1 s h y Dsh H Nsy).
          - (* s - h undirected (h -> s is impossible: parents come after k) *)
            assert (Ush : has_u g h s = true).
            { apply padj_true in Ahs. destruct Ahs as [H|[H|H]]; [|congruence|exact H].
              pose proof (Parent h Hh H). lia. }
            assert (Hk0 : k <> 0) by lia.
            destruct (Tstar Hk0) as (t & Ht & Hst & Ek).
            assert (Hht : h <> t) by (intros ->; congruence).
            assert (Lht : idx l' h < idx l' t).
            { destruct (Nat.eq_dec (idx l' h) (idx l' t)) as [E|E]; [apply (idx_inj l' h t Hh Ht) in E; congruence|lia]. }
            assert (Pht : padj g h t = true).
            { apply NbrAdj; try assumption; [rewrite padj_sym; exact Ahs|apply padj_true; auto]. }
            assert (Hyt : y <> t) by (intros ->; assert (padj g s t = true) by (apply padj_true; auto); congruence).
            assert (Pyt : padj g y t = true).
            { apply (peo_later (padj g) l' P' h y t Hh Hy Ht Lhy Lht Ahy Pht Hyt). }
            assert (Dty : has_d g t y = true).
            { apply padj_true in Pyt. destruct Pyt as [H|[H|H]]; [|exact H|].
              - assert (Hys : y <> s) by (apply (InR y Hy)).
                pose proof (QV s y t Hst H (not_eq_sym Hys)) as P. congruence.
              - exfalso. exact (Q1 s t y Hst (usym8 y t H) Nsy). }
            apply padj_true in Ahy. destruct Ahy as [H|[H|H]].
            + pose proof (C' h y Hh Hy H). lia.
            + apply (Q1 y h s H Ush). rewrite padj_sym. exact Nsy.
            + exact (Q4 h s t y Ush Hst Dty Nsy Pht H). }
        intros c x y Hc' Hx' Hy Lx Ly A1 A2 Hne.
        apply ins_In in Hc'. apply ins_In in Hx'. apply ins_In in Hy.
        destruct Hc' as [->|Hc'].
        -- (* c = s *)
           destruct Hx' as [->|Hx']; [rewrite (g_adj_irrefl g Hw) in A1; discriminate|].
           destruct Hy as [->|Hy]; [rewrite (g_adj_irrefl g Hw) in A2; discriminate|].
           apply NbrAdj; assumption.
        -- destruct Hx' as [->|Hx']; destruct Hy as [->|Hy]; try congruence.
           ++ (* x = s *)
              rewrite Is in Lx.
              assert (Lc : idx l' c < k).
              { destruct (le_lt_dec k (idx l' c)) as [L|L]; [rewrite (Ige c Hc' L) in Lx; lia|exact L]. }
              apply (Key c y Hc' Hy Lc); [apply (Mono c y Hc' Hy); exact Ly|exact A1|exact A2].
           ++ (* y = s *)
              rewrite Is in Ly.
              assert (Lc : idx l' c < k).
              { destruct (le_lt_dec k (idx l' c)) as [L|L]; [rewrite (Ige c Hc' L) in Ly; lia|exact L]. }
              rewrite padj_sym. apply (Key c x Hc' Hx' Lc); [apply (Mono c x Hc' Hx'); exact Lx|exact A2|exact A1].
           ++ apply (peo_later (padj g) l' P' c x y Hc' Hx' Hy); try assumption;
                [apply (Mono c x Hc' Hx'); exact Lx|apply (Mono c y Hc' Hy); exact Ly].
      * (* compatible *)
        intros x y Hx' Hy Hxy. apply ins_In in Hx'. apply ins_In in Hy.
        destruct Hx' as [->|Hx']; destruct Hy as [->|Hy].
        -- apply (g_d_nodes g Hw) in Hxy. tauto.
        -- pose proof (Child y Hy Hxy) as L. rewrite Is, (Ilt y Hy L). exact L.
        -- pose proof (Parent x Hx' Hxy) as L. rewrite Is, (Ige x Hx' L). lia.
        -- apply (Mono y x Hy Hx'). apply C'; assumption.
      * apply (Mono b a); [apply E'; apply rem_In; auto|apply E'; apply rem_In; auto|exact AB'].
    + (* R = {a, b} *)
      exists [b; a].
      assert (Rab : forall x, In x R <-> x = a \/ x = b).
      { intros x. split; [|intros [->| ->]; assumption]. intros Hx'.
        destruct (Nat.eq_dec x a) as [|Na]; [auto|]. destruct (Nat.eq_dec x b) as [|Nb]; [auto|]. exfalso.
        assert (L3 : 3 <= length R).
        { assert (I3 : incl [x; a; b] R) by (intros z [<-|[<-|[<-|[]]]]; assumption).
          apply (NoDup_incl_length (l := [x; a; b])); [|exact I3].
          constructor; [simpl; intuition congruence|]. constructor; [simpl; intuition congruence|].
          constructor; [intros []|constructor]. }
        lia. }
      split; [constructor; [simpl; intuition congruence|constructor; [intros []|constructor]]|].
      split; [intros x; rewrite Rab; simpl; intuition|]. split; [|split].
      * simpl. split; [|split; [intros x y []|exact I]].
        intros x y [<-|[]] [<-|[]] _ _ Hne. congruence.
      * destruct (Hs a b Hab) as [N1 N2]. intros x y [<-|[<-|[]]] [<-|[<-|[]]] H; try congruence;
          apply (g_d_nodes g Hw) in H; tauto.
      * simpl. rewrite Nat.eqb_refl. destruct (Nat.eqb a b) eqn:E; [apply Nat.eqb_eq in E; congruence|lia].
Qed.
End WithOrder.

Theorem chordal_extendable : vext (orient g a b).
Proof.
  destruct (peo_of_ext g Hw Hx) as (l0 & Hnd0 & Hel0 & Hpeo0 & Hcomp0).
  destruct (g_u_nodes g Hw a b Hab) as (HaV & HbV & Hneab).
  destruct (order_exists l0 Hnd0 Hel0 Hpeo0 Hcomp0 (length (dedup (V g))) (dedup (V g)) (le_n _) (dedup_NoDup _))
    as (l & Hnd & Hl & Hp & Hcm & Hba); try (apply (proj2 (dedup_In _ (V g))); assumption).
  { intros x Hx'. exact (proj1 (dedup_In x (V g)) Hx'). }
  assert (Hl' : forall x, In x l <-> In x (V g)) by (intros x; rewrite Hl; apply dedup_In).
  assert (Hcomp : compat g l).
  { intros x y H. destruct (g_d_nodes g Hw x y H) as (Hx' & Hy & _). apply Hcm; try (apply Hl'; assumption). exact H. }
  (* with this ordering every node set has an eligible node: its first node in l *)
  apply (extend_by_elimination g Hw a b Hs Hab). intros R HndR Hin Hne.
  destruct (min_idx l R Hne) as (s0 & Hs0 & Hm0).
  destruct (min_simplicial_sink g Hw l Hl' Hp Hcomp R s0 Hin Hs0 Hm0) as [Ssim Ssink].
  exists s0. split; [exact Hs0|]. split; [exact Ssim|]. split; [exact Ssink|].
  intros -> HbR. specialize (Hm0 b HbR). lia.
Qed.
End M4.

Theorem meek4_chordal_any : forall P, meek4_on P.
Proof. intros P g _ Hs Hw Hc Hx u v Huv. apply chordal_extendable; assumption. Qed.
