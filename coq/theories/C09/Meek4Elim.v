(* C09: Meek's Theorem 4 on chordal skeletons through ELIMINATION ORDERINGS.
   (1) a perfect elimination ordering l of the skeleton that is COMPATIBLE with the directed layer (x -> y directed implies
       y before x: sinks first) yields a v-structure-free consistent extension (orient every undirected edge later -> earlier);
   (2) conversely such an extension yields a compatible PEO;
   (3) a compatible PEO can be BUILT by elimination whenever every non-empty set R of remaining nodes has an ELIGIBLE node:
       simplicial in R, no directed edge into R, and not a while b remains — then it puts b before a, i.e. a -> b;
   (4) hence:  meek4 (an extension containing a -> b for an undirected a - b)  <=  eligible nodes always exist.
   The existence of eligible nodes is proved in Meek4Forest.v for triangle-free chordal skeletons (forests). *)
From Coq Require Import List Arith Bool Lia.
From PG Require Import Base.ListSet Graph.MGraph C08.Model C08.Spec C08.Proofs C08.Acyclic C08.Ext C08.ExtEss C08.Reflect
                       C08.Chordal C08.ChordalOrient C08.ChordalComplete C08.Topo
                       C09.Model C09.Proofs C09.Component C09.Rounds.
Import ListNotations.

Definition compat (g : mgraph) (l : list nat) : Prop :=
  forall x y, has_d g x y = true -> idx l y < idx l x.

Definition peo_ext (g : mgraph) (l : list nat) : mgraph :=
  dir_graph (V g) (orient_by l (udedup (U g)) ++ D g).

Section Elim.
Variable g : mgraph.
Hypothesis Hw : pwf g.

Lemma g_u_nodes a b : has_u g a b = true -> In a (V g) /\ In b (V g) /\ a <> b.
Proof.
  destruct Hw as [_ HU]. rewrite edges_ok_spec in HU. intros H. unfold has_u in H. apply smemb_In in H.
  destruct H as [H|H]; apply HU in H; intuition congruence.
Qed.
Lemma g_d_nodes a b : has_d g a b = true -> In a (V g) /\ In b (V g) /\ a <> b.
Proof. destruct Hw as [HD _]. rewrite edges_ok_spec in HD. intros H. apply pmemb_In in H. apply HD. exact H. Qed.
Lemma g_adj_nodes a b : padj g a b = true -> In a (V g) /\ In b (V g) /\ a <> b.
Proof.
  intros H. apply padj_true in H. destruct H as [H|[H|H]];
    [apply g_d_nodes in H|apply g_d_nodes in H|apply g_u_nodes in H]; intuition congruence.
Qed.
Lemma g_adj_irrefl a : padj g a a = false.
Proof. destruct (padj g a a) eqn:E; [|reflexivity]. apply g_adj_nodes in E. tauto. Qed.

(* ---------- (1) compatible PEO => extension ---------- *)
Section FromPeo.
Variable l : list nat.
Hypothesis Hnd : NoDup l.
Hypothesis Hel : forall x, In x l <-> In x (V g).
Hypothesis Hpeo : is_peo (padj g) l.
Hypothesis Hc : compat g l.
Local Notation o := (orient_by l (udedup (U g))).
Local Notation d := (peo_ext g l).

Lemma o_orient : In o (orientations (udedup (U g))).
Proof. apply orient_by_orientation. Qed.

Lemma ext_rank a b : has_d d a b = true -> idx l b < idx l a.
Proof.
  intros H. unfold peo_ext in H. rewrite (cand_has_d g o a b) in H. apply orb_true_iff in H. destruct H as [H|H].
  - apply pmemb_In in H. apply orient_by_In in H. destruct H as [[_ L]|[H L]]; [exact L|].
    assert (Hu' : has_u g b a = true).
    { unfold has_u. rewrite <- (C08.ExtEss.smemb_udedup b a (U g)). apply smemb_In. auto. }
    destruct (g_u_nodes b a Hu') as (Hb & Ha & Hne). apply Hel in Ha. apply Hel in Hb.
    destruct (Nat.eq_dec (idx l a) (idx l b)) as [E|E]; [apply (idx_inj l a b Ha Hb) in E; congruence|lia].
  - apply Hc. exact H.
Qed.

Lemma ext_has_u a b : has_u g a b = true -> idx l b < idx l a -> has_d d a b = true.
Proof.
  intros Hu L. unfold peo_ext. rewrite (cand_has_d g o a b). apply orb_true_iff. left. apply pmemb_In.
  apply orient_by_In. unfold has_u in Hu. rewrite <- (C08.ExtEss.smemb_udedup a b (U g)) in Hu.
  apply smemb_In in Hu. destruct Hu as [H|H]; [left; auto|right; split; [exact H|lia]].
Qed.

Lemma ext_acyclic : acyclic d.
Proof.
  assert (R : forall a b, dpath d a b -> idx l b < idx l a).
  { intros a b P. induction P as [a b H|a b c H P IH]; apply ext_rank in H; lia. }
  intros x P. apply R in P. lia.
Qed.

Lemma ext_padj a b : padj d a b = padj g a b.
Proof. apply (cand_padj g o o_orient). Qed.

Lemma ext_vfree a c b : vstructb d a c b = false.
Proof.
  destruct (vstructb d a c b) eqn:X; [|reflexivity]. exfalso.
  unfold vstructb in X. rewrite !andb_true_iff, !negb_true_iff, Nat.eqb_neq in X. destruct X as [[[H1 H2] Hne] Hn].
  assert (P1 : padj g a c = true) by (rewrite <- ext_padj; apply padj_true; auto).
  assert (P2 : padj g b c = true) by (rewrite <- ext_padj; apply padj_true; auto).
  destruct (g_adj_nodes a c P1) as (Ha & Hc' & _). destruct (g_adj_nodes b c P2) as (Hb & _ & _).
  apply ext_rank in H1. apply ext_rank in H2.
  assert (A : padj g a b = true).
  { apply (peo_later (padj g) l Hpeo c a b); try (apply Hel; assumption); try assumption;
      rewrite padj_sym; assumption. }
  rewrite ext_padj in Hn. congruence.
Qed.

Lemma peo_ext_ok : consistent_ext g d /\ vfree d.
Proof.
  split; [|exact ext_vfree].
  unfold consistent_ext. split; [reflexivity|]. split; [exact ext_acyclic|]. split; [split; apply incl_refl|].
  split; [exact ext_padj|]. split.
  - intros e He. unfold peo_ext. simpl. apply in_or_app. right. exact He.
  - intros a c b. rewrite ext_vfree. split; [discriminate|]. intros X. exfalso.
    assert (Y : vstructb d a c b = true).
    { unfold vstructb in *. rewrite !andb_true_iff in *. destruct X as [[[X1 X2] X3] X4].
      rewrite ext_padj. repeat split; try assumption; unfold peo_ext; rewrite (cand_has_d g o);
        apply orb_true_iff; right; assumption. }
    rewrite ext_vfree in Y. discriminate.
Qed.
End FromPeo.

(* ---------- (2) extension => compatible PEO ---------- *)
Lemma peo_of_ext : vext g ->
  exists l, NoDup l /\ (forall x, In x l <-> In x (V g)) /\ is_peo (padj g) l /\ compat g l.
Proof.
  intros [d [(HUd & Hac & [HV1 HV2] & Hadj & HD & _) Hvf]].
  assert (Hwfd : edges_ok (V d) (D d) = true).
  { apply edges_ok_spec. intros a b H.
    assert (X : padj g a b = true) by (rewrite <- Hadj; apply padj_true; left; apply pmemb_In; exact H).
    destruct (g_adj_nodes a b X) as (Ha & Hb & Hne). split; [apply HV2; exact Ha|split; [apply HV2; exact Hb|exact Hne]]. }
  destruct (topo_exists d Hwfd Hac) as (l & Hnd & Hel & Hord).
  exists l. split; [exact Hnd|]. split; [intros x; rewrite Hel; split; [apply HV1|apply HV2]|]. split.
  - apply peo_of_later; [exact Hnd|]. intros c x y Hc' Hx Hy L1 L2 A1 A2 Hne.
    assert (Dir : forall z, padj g c z = true -> idx l c < idx l z -> has_d d z c = true).
    { intros z A L. rewrite <- Hadj in A. apply padj_true in A. destruct A as [A|[A|A]].
      - apply Hord in A. lia.
      - exact A.
      - unfold has_u in A. rewrite HUd in A. discriminate. }
    pose proof (Dir x A1 L1) as P1. pose proof (Dir y A2 L2) as P2.
    pose proof (Hvf x c y) as X. unfold vstructb in X. rewrite P1, P2, (proj2 (Nat.eqb_neq x y) Hne) in X. simpl in X.
    apply negb_false_iff in X. rewrite Hadj in X. exact X.
  - intros x y H. apply Hord. apply pmemb_In. apply HD. apply pmemb_In. exact H.
Qed.

(* ---------- (3) building a compatible PEO by elimination ---------- *)
Variables a b : nat.

Definition eligible (R : list nat) (s : nat) : Prop :=
  In s R /\ simpl_in (padj g) R s /\ (forall y, In y R -> has_d g s y = false) /\ (s = a -> ~ In b R).

Definition compat_on (l : list nat) : Prop :=
  forall x y, In x l -> In y l -> has_d g x y = true -> idx l y < idx l x.

Lemma build : (forall R, NoDup R -> incl R (V g) -> R <> [] -> exists s, eligible R s) ->
  forall n R, length R <= n -> NoDup R -> incl R (V g) ->
  exists l, NoDup l /\ (forall x, In x l <-> In x R) /\ is_peo (padj g) l /\ compat_on l /\
            (In a R -> In b R -> idx l b < idx l a).
Proof.
  intros Hel. induction n as [|n IH]; intros R Hlen Hnd Hin.
  - destruct R; [|simpl in Hlen; lia]. exists []. simpl. repeat split; try tauto; try constructor. intros x y [].
  - destruct R as [|r0 R0] eqn:ER; [exists []; simpl; repeat split; try tauto; try constructor; intros x y []|].
    rewrite <- ER in *. assert (Rne : R <> []) by (rewrite ER; discriminate).
    destruct (Hel R Hnd Hin Rne) as (s & Hs & Hsimp & Hsink & Hab).
    pose proof (rem_length s R Hs) as Hl.
    destruct (IH (rem s R) ltac:(lia) (rem_NoDup s R Hnd)) as (l' & N' & E' & P' & C' & AB').
    { intros x Hx. apply rem_In in Hx. apply Hin. tauto. }
    assert (Hsl : ~ In s l') by (intros X; apply E' in X; apply rem_In in X; tauto).
    exists (s :: l'). split; [constructor; assumption|]. split; [|split; [|split]].
    + intros x. simpl. rewrite E', rem_In. split; [intros [<-|[H _]]; auto|].
      intros H. destruct (Nat.eq_dec s x); [auto|right; split; auto].
    + simpl. split; [|exact P']. eapply simpl_in_incl; [|exact Hsimp]. intros x Hx. apply E' in Hx. apply rem_In in Hx. tauto.
    + intros x y Hx Hy Hxy. simpl.
      destruct (Nat.eqb y s) eqn:Ey.
      * apply Nat.eqb_eq in Ey. subst y. destruct (Nat.eqb x s) eqn:Ex; [|lia].
        apply Nat.eqb_eq in Ex. subst x. apply g_d_nodes in Hxy. tauto.
      * apply Nat.eqb_neq in Ey. destruct (Nat.eqb x s) eqn:Ex.
        -- apply Nat.eqb_eq in Ex. subst x. destruct Hy as [Hy|Hy]; [congruence|].
           apply E' in Hy. apply rem_In in Hy. rewrite (Hsink y (proj1 Hy)) in Hxy. discriminate.
        -- apply Nat.eqb_neq in Ex. destruct Hx as [Hx|Hx]; [congruence|]. destruct Hy as [Hy|Hy]; [congruence|].
           apply -> Nat.succ_lt_mono. apply C'; assumption.
    + intros Ha Hb. simpl. destruct (Nat.eqb b s) eqn:Eb.
      * apply Nat.eqb_eq in Eb. subst s. destruct (Nat.eqb a b) eqn:Eab; [|lia].
        apply Nat.eqb_eq in Eab. exfalso. apply (Hab (eq_sym Eab)). exact Hb.
      * apply Nat.eqb_neq in Eb. destruct (Nat.eqb a s) eqn:Ea.
        -- apply Nat.eqb_eq in Ea. subst s. exfalso. apply (Hab eq_refl). exact Hb.
        -- apply Nat.eqb_neq in Ea. apply -> Nat.succ_lt_mono. apply AB'; apply rem_In; split; auto.
Qed.

(* ---------- (4) assembly ---------- *)
Theorem extend_by_elimination :
  simple_pdag g -> has_u g a b = true ->
  (forall R, NoDup R -> incl R (V g) -> R <> [] -> exists s, eligible R s) ->
  vext (orient g a b).
Proof.
  intros Hs Hab Hel.
  destruct (build Hel (length (dedup (V g))) (dedup (V g)) (le_n _) (dedup_NoDup _))
    as (l & Hnd & Hl & Hp & Hc & Hba).
  { intros x Hx. exact (proj1 (dedup_In x (V g)) Hx). }
  assert (Hl' : forall x, In x l <-> In x (V g)) by (intros x; rewrite Hl; apply dedup_In).
  assert (Hcomp : compat g l).
  { intros x y H. destruct (g_d_nodes x y H) as (Hx & Hy & _). apply Hc; try (apply Hl'; assumption). exact H. }
  destruct (g_u_nodes a b Hab) as (Ha & Hb & Hne).
  assert (L : idx l b < idx l a) by (apply Hba; apply (proj2 (dedup_In _ (V g))); assumption).
  assert (HX : consistent_ext g (peo_ext g l) /\ vfree (peo_ext g l)) by (apply peo_ext_ok; assumption).
  destruct HX as [Hext Hvf].
  assert (Hd : has_d (peo_ext g l) a b = true) by (apply ext_has_u; assumption).
  exists (peo_ext g l). split; [|exact Hvf].
  destruct Hext as (H1 & H2 & H3 & H4 & H5 & H6).
  unfold consistent_ext. split; [exact H1|]. split; [exact H2|]. split; [exact H3|]. split; [|split].
  - intros x y. rewrite H4. symmetry. apply orient_padj. exact Hab.
  - intros e [<-|He]; [apply pmemb_In; exact Hd|apply H5; exact He].
  - intros x c y. rewrite Hvf. split; [discriminate|]. intros X. exfalso.
    assert (Y : vstructb (peo_ext g l) x c y = true).
    { unfold vstructb in *. rewrite !andb_true_iff in *. destruct X as [[[X1 X2] X3] X4].
      rewrite orient_padj in X4 by exact Hab. rewrite H4.
      assert (M : forall p q, has_d (orient g a b) p q = true -> has_d (peo_ext g l) p q = true).
      { intros p q M. apply has_d_orient_true in M. destruct M as [E|M]; [inversion E; subst; exact Hd|].
        apply pmemb_In. apply H5. apply pmemb_In. exact M. }
      repeat split; auto. }
    rewrite Hvf in Y. discriminate.
Qed.
End Elim.
