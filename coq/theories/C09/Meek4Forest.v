(* C09: Meek's Theorem 4 for ALL sizes on triangle-free chordal skeletons (forests): in a PDAG closed under R1-R4 that has a
   v-structure-free consistent extension, every set R of remaining nodes has an eligible node (Meek4Elim.v), so every
   undirected edge a - b can be hand-oriented a -> b keeping such an extension. *)
From Coq Require Import List Arith Bool Lia.
From PG Require Import Base.ListSet Graph.MGraph C08.Model C08.Spec C08.Proofs C08.Acyclic C08.Ext C08.ExtEss C08.Reflect
                       C08.Chordal C08.ChordalOrient C08.ChordalComplete C08.Topo
                       C09.Model C09.Proofs C09.Component C09.Rounds C09.Meek4Elim.
Import ListNotations.

Definition triangle_free (g : mgraph) : Prop :=
  forall x y z, padj g x y = true -> padj g y z = true -> padj g x z = true -> False.

Lemma triangle_free_class : skeleton_class triangle_free.
Proof. intros g h _ Hadj Ht x y z. rewrite !Hadj. apply Ht. Qed.

(* PEOs are hereditary for arbitrary sub-selections *)
Lemma is_peo_filter (adj : nat -> nat -> bool) (f : nat -> bool) l : is_peo adj l -> is_peo adj (filter f l).
Proof.
  induction l as [|v t IH]; simpl; [tauto|]. intros [Hs Hp]. destruct (f v); simpl; [|apply IH; exact Hp].
  split; [|apply IH; exact Hp]. eapply simpl_in_incl; [|exact Hs]. intros x Hx. apply filter_In in Hx. tauto.
Qed.

Section Forest.
Variable g : mgraph.
Hypothesis Hw : pwf g.
Hypothesis Hs : simple_pdag g.
Hypothesis Hc : rule_closed g.
Hypothesis Hx : vext g.
Hypothesis Htf : triangle_free g.
Variables a b : nat.
Hypothesis Hab : has_u g a b = true.

Lemma adj_sym8 x y : padj g x y = padj g y x.
Proof. apply padj_sym. Qed.

(* R1 in contrapositive form *)
Lemma R1f k i j : has_d g k i = true -> has_u g i j = true -> padj g k j = false -> False.
Proof.
  intros H1 H2 H3. destruct (g_u_nodes g Hw i j H2) as (Hi & Hj & _). destruct (g_d_nodes g Hw k i H1) as (Hk & _ & _).
  pose proof (Hc i j Hi Hj) as F. unfold fires in F. rewrite H2 in F. simpl in F.
  assert (X : r1 g i j = true).
  { unfold r1. apply existsb_exists. exists k. split; [apply parents_In; auto|rewrite H3; reflexivity]. }
  rewrite X in F. discriminate.
Qed.

(* the directed layer has no unshielded collider *)
Lemma D_vfree p q c : has_d g p c = true -> has_d g q c = true -> p <> q -> padj g p q = true.
Proof.
  intros H1 H2 Hne. destruct Hx as [d [(_ & _ & _ & Hadj & HD & _) Hvf]].
  assert (E1 : has_d d p c = true) by (apply pmemb_In; apply HD; apply pmemb_In; exact H1).
  assert (E2 : has_d d q c = true) by (apply pmemb_In; apply HD; apply pmemb_In; exact H2).
  pose proof (Hvf p c q) as X. unfold vstructb in X. rewrite E1, E2, (proj2 (Nat.eqb_neq p q) Hne) in X. simpl in X.
  apply negb_false_iff in X. rewrite Hadj in X. exact X.
Qed.

Section WithOrder.
Variable l0 : list nat.
Hypothesis Hnd0 : NoDup l0.
Hypothesis Hel0 : forall x, In x l0 <-> In x (V g).
Hypothesis Hpeo0 : is_peo (padj g) l0.
Hypothesis Hcomp0 : compat g l0.

Lemma min_idx (R : list nat) : R <> [] -> exists s, In s R /\ forall x, In x R -> idx l0 s <= idx l0 x.
Proof.
  induction R as [|r t IH]; [congruence|]. intros _. destruct t as [|r' t'].
  - exists r. split; [left; reflexivity|]. intros x [<-|[]]. lia.
  - destruct (IH ltac:(discriminate)) as (s & Hs' & Hm).
    destruct (le_lt_dec (idx l0 r) (idx l0 s)) as [L|L].
    + exists r. split; [left; reflexivity|]. intros x [<-|Hx']; [lia|]. specialize (Hm x Hx'). lia.
    + exists s. split; [right; exact Hs'|]. intros x [<-|Hx']; [lia|]. apply Hm. exact Hx'.
Qed.

Lemma min_simplicial_sink R s : incl R (V g) -> In s R -> (forall x, In x R -> idx l0 s <= idx l0 x) ->
  simpl_in (padj g) R s /\ forall y, In y R -> has_d g s y = false.
Proof.
  intros Hin Hs' Hm. split.
  - intros x y Hx' Hy A1 A2 Hne.
    assert (Lx : idx l0 s < idx l0 x).
    { pose proof (Hm x Hx'). destruct (Nat.eq_dec (idx l0 s) (idx l0 x)) as [E|E]; [|lia].
      apply idx_inj in E; try (apply Hel0; apply Hin; assumption). subst x. rewrite (g_adj_irrefl g Hw) in A1. discriminate. }
    assert (Ly : idx l0 s < idx l0 y).
    { pose proof (Hm y Hy). destruct (Nat.eq_dec (idx l0 s) (idx l0 y)) as [E|E]; [|lia].
      apply idx_inj in E; try (apply Hel0; apply Hin; assumption). subst y. rewrite (g_adj_irrefl g Hw) in A2. discriminate. }
    apply (peo_later (padj g) l0 Hpeo0 s x y); try (apply Hel0; apply Hin; assumption); assumption.
  - intros y Hy. destruct (has_d g s y) eqn:E; [|reflexivity]. apply Hcomp0 in E. specialize (Hm y Hy). lia.
Qed.

(* following directed edges inside R down to a node of R without a directed edge into R *)
Lemma sink_chain R : forall n x w, idx l0 x < n -> In x R -> In w R -> has_d g w x = true ->
  exists z w', In z R /\ In w' R /\ has_d g w' z = true /\ forall y, In y R -> has_d g z y = false.
Proof.
  induction n as [|n IH]; intros x w Hn Hx' Hw' Hwx; [lia|].
  destruct (existsb (fun y => has_d g x y) R) eqn:E.
  - apply existsb_exists in E. destruct E as (y & Hy & Hxy).
    apply (IH y x); [pose proof (Hcomp0 x y Hxy); lia|exact Hy|exact Hx'|exact Hxy].
  - exists x, w. repeat split; try assumption. intros y Hy.
    destruct (has_d g x y) eqn:Exy; [|reflexivity].
    assert (X : existsb (fun y => has_d g x y) R = true) by (apply existsb_exists; exists y; auto). congruence.
Qed.

(* a node of R with a directed parent in R and no directed edge into R has that parent as its only neighbour in R *)
Lemma only_neighbour R z w : In z R -> In w R -> has_d g w z = true -> (forall y, In y R -> has_d g z y = false) ->
  forall q, In q R -> padj g z q = true -> q = w.
Proof.
  intros Hz Hw' Hwz Hsink q Hq Hzq. destruct (Nat.eq_dec q w) as [E|Hne]; [exact E|exfalso].
  assert (Pwz : padj g w z = true) by (apply padj_true; auto).
  assert (Nwq : padj g w q = false).
  { destruct (padj g w q) eqn:E; [|reflexivity]. exfalso. exact (Htf w z q Pwz Hzq E). }
  apply padj_true in Hzq. destruct Hzq as [H|[H|H]].
  - rewrite (Hsink q Hq) in H. discriminate.
  - pose proof (D_vfree w q z Hwz H (not_eq_sym Hne)) as P. congruence.
  - exact (R1f w z q Hwz H Nwq).
Qed.

Theorem eligible_exists R : NoDup R -> incl R (V g) -> R <> [] -> exists s, eligible g a b R s.
Proof.
  intros Hnd Hin Hne.
  destruct (g_u_nodes g Hw a b Hab) as (HaV & HbV & Hneab).
  destruct (min_idx R Hne) as (s0 & Hs0 & Hm0).
  destruct (min_simplicial_sink R s0 Hin Hs0 Hm0) as [Ssim Ssink].
  destruct (Nat.eq_dec s0 a) as [Ea|Ea]; [|exists s0; repeat split; auto; intros; congruence].
  destruct (in_dec Nat.eq_dec b R) as [HbR|HbR]; [|exists s0; repeat split; auto].
  subst s0. rename Hs0 into HaR.
  (* a is the first node of the extension's ordering among R and b remains: find another eligible node *)
  set (lR := filter (fun x => memb x R) l0).
  assert (ElR : forall x, In x lR <-> In x R).
  { intros x. unfold lR. rewrite filter_In, memb_In, Hel0. split; [tauto|]. intros H. split; [apply Hin; exact H|exact H]. }
  assert (NlR : NoDup lR) by (apply NoDup_filter; exact Hnd0).
  assert (PlR : is_peo (padj g) lR) by (apply is_peo_filter; exact Hpeo0).
  assert (Simp : forall x, simpl_in (padj g) lR x -> simpl_in (padj g) R x).
  { intros x H. eapply simpl_in_incl; [|exact H]. intros y Hy. apply ElR. exact Hy. }
  destruct (dirac (padj g) adj_sym8 (g_adj_irrefl g Hw) lR NlR PlR) as [Hcpl|(x & y & Hx' & Hy & Hxy & Hnxy & Sx & Sy)].
  - (* R is a clique, hence R = {a, b} by triangle-freeness: b is eligible *)
    assert (Cpl : forall p q, In p R -> In q R -> p <> q -> padj g p q = true).
    { intros p q Hp Hq. apply Hcpl; apply ElR; assumption. }
    assert (Pab : padj g a b = true) by (apply padj_true; auto).
    exists b. split; [exact HbR|]. split; [|split].
    + intros p q Hp Hq A1 A2 Hpq. exfalso. apply (Htf p b q); [rewrite padj_sym; exact A1|exact A2|apply Cpl; assumption].
    + intros q Hq. destruct (has_d g b q) eqn:E; [|reflexivity]. exfalso.
      destruct (Nat.eq_dec q a) as [->|Hqa].
      * destruct (Hs a b Hab) as [_ N]. congruence.
      * assert (Pbq : padj g b q = true) by (apply padj_true; auto).
        apply (Htf a b q Pab Pbq). apply Cpl; auto.
    + intros E. congruence.
  - (* two non-adjacent simplicial nodes: take one different from a *)
    assert (Pick : exists x', In x' R /\ x' <> a /\ simpl_in (padj g) R x').
    { destruct (Nat.eq_dec x a) as [->|Hxa]; [exists y|exists x]; repeat split; try (apply ElR; assumption); auto. }
    destruct Pick as (x' & Hx'R & Hx'a & Sx').
    destruct (existsb (fun q => has_d g x' q) R) eqn:E.
    + apply existsb_exists in E. destruct E as (y0 & Hy0 & Hxy0).
      destruct (sink_chain R (S (idx l0 y0)) y0 x' (Nat.lt_succ_diag_r _) Hy0 Hx'R Hxy0) as (z & w' & Hz & Hw' & Hwz & Hzs).
      pose proof (only_neighbour R z w' Hz Hw' Hwz Hzs) as Only.
      exists z. split; [exact Hz|]. split; [|split; [exact Hzs|]].
      * intros p q Hp Hq A1 A2 Hpq. exfalso. apply Hpq. rewrite (Only p Hp A1), (Only q Hq A2). reflexivity.
      * intros Eza. subst z. exfalso.
        assert (Pwa : padj g w' a = true) by (apply padj_true; auto).
        assert (Pab : padj g a b = true) by (apply padj_true; auto).
        apply (R1f w' a b Hwz Hab). destruct (padj g w' b) eqn:E; [|reflexivity]. exfalso. exact (Htf w' a b Pwa Pab E).
    + exists x'. split; [exact Hx'R|]. split; [exact Sx'|]. split; [|intros; congruence].
      intros q Hq. destruct (has_d g x' q) eqn:Eq; [|reflexivity].
      assert (X : existsb (fun q => has_d g x' q) R = true) by (apply existsb_exists; exists q; auto). congruence.
Qed.
End WithOrder.

Theorem forest_extendable : vext (orient g a b).
Proof.
  destruct (peo_of_ext g Hw Hx) as (l0 & Hnd0 & Hel0 & Hpeo0 & Hcomp0).
  apply (extend_by_elimination g Hw a b Hs Hab). intros R Hnd Hin Hne.
  apply (eligible_exists l0 Hnd0 Hel0 Hpeo0 Hcomp0 R Hnd Hin Hne).
Qed.
End Forest.

Theorem meek4_forest : meek4_on triangle_free.
Proof. intros g Pg Hs Hw Hc Hx u v Huv. apply forest_extendable; assumption. Qed.

(* ---------- consequences for pag_to_mag ---------- *)
From PG Require Import C09.Oracle C09.Whole.

(* all rounds, all sizes, on a forest-shaped circle component *)
Theorem rounds_forest f t : triangle_free t -> pwf t -> D t = [] -> vext t -> rounds_extendable f t.
Proof.
  intros Htf Hw HD Hx. apply (rounds_of_meek4 triangle_free triangle_free_class meek4_forest).
  split; [exact Htf|]. split; [intros x y _; unfold has_d; rewrite HD; split; reflexivity|].
  split; [exact Hw|]. split; [apply no_directed_closed; exact HD|exact Hx].
Qed.

(* PARTIAL answer to meek4_on chordal_skel: the shape clauses for ALL sizes, no hypothesis on the rounds, when the circle
   component is chordal and triangle-free, i.e. a forest (paths, stars, trees) *)
Theorem p2m_shape_forest_partial g : pag_hyps g -> pwf (temp_cpdag g) -> chordal_g (temp_cpdag g) -> triangle_free (temp_cpdag g) ->
  let m := pag_to_mag_model g in
  acyclic m /\
  (forall a b, has_b m a b = true -> dpath m a b -> False) /\
  (forall a c b, arrow_at m a c = true -> arrow_at m b c = true -> a <> b -> adjacent m a b = false ->
                 arrow_at g a c = true /\ arrow_at g b c = true).
Proof.
  intros HP Hw Hc Htf. apply p2m_shape_all_sizes; [exact HP|].
  apply rounds_forest; [exact Htf|exact Hw|reflexivity|apply (chordal_vext (temp_cpdag g) Hw eq_refl Hc)].
Qed.

(* what is MISSING for chordal skeletons in general, as one statement: in every closed, v-free-extendable PDAG with a chordal
   skeleton and every non-empty set R of nodes, some node of R is simplicial in R, has no directed edge into R, and is not a
   while b remains (for an undirected edge a - b).  From it meek4_on chordal_skel follows: *)
Definition eligible_nodes_exist (P : mgraph -> Prop) : Prop :=
  forall g, P g -> simple_pdag g -> pwf g -> rule_closed g -> vext g ->
  forall a b, has_u g a b = true ->
  forall R, NoDup R -> incl R (V g) -> R <> [] -> exists s, eligible g a b R s.

Theorem meek4_from_eligible_nodes P : eligible_nodes_exist P -> meek4_on P.
Proof.
  intros H g Pg Hs Hw Hc Hx u v Huv. apply (extend_by_elimination g Hw u v Hs Huv).
  apply (H g Pg Hs Hw Hc Hx u v Huv).
Qed.

Theorem eligible_nodes_exist_forest : eligible_nodes_exist triangle_free.
Proof.
  intros g Pg Hs Hw Hc Hx a b Hab R Hnd Hin Hne.
  destruct (peo_of_ext g Hw Hx) as (l0 & Hnd0 & Hel0 & Hpeo0 & Hcomp0).
  apply (eligible_exists g Hw Hs Hc Hx Pg a b Hab l0 Hnd0 Hel0 Hpeo0 Hcomp0 R Hnd Hin Hne).
Qed.
