(* C09: executable model of pag_to_mag (pywhy_graphs/algorithms/pag.py L1116-1186) in the form the property demands.
   Phase 1: every circle edge (u,v) (circle mark at v):  v -> u present: drop the circle (u <-o v becomes u <- v);
            reverse circle absent: orient (u -o v becomes u -> v); otherwise u o-o v goes (once) into a temporary CPDAG.
   Phase 2: while the temporary CPDAG has an undirected edge: orient the first one as stored, run the Meek closure (C08).
   Phase 3 (REPAIRED assembly): nodes, directed, bidirected and undirected edges of the working copy plus the directed
            edges of the temporary CPDAG.  (The code as written keeps the directed edges only, see Refuted.v.) *)
From Coq Require Import List Arith Bool Lia.
From PG Require Import Base.ListSet Base.Closure Base.Sx Graph.MGraph C08.Model.
Import ListNotations.

Inductive mark := Tail | Arrow | Circle.

(* the mark at b on the edge between a and b (DESIGN section 3) *)
Definition mark_at (g : mgraph) (a b : nat) : option mark :=
  if has_d g a b || has_b g a b then Some Arrow
  else if has_c g a b then Some Circle
  else if adjacent g a b then Some Tail else None.

(* phase 1 *)
Definition c_drop (g : mgraph) (e : nat * nat) : bool := has_d g (snd e) (fst e).
Definition c_reorient (g : mgraph) (e : nat * nat) : bool :=
  negb (has_d g (snd e) (fst e)) && negb (has_c g (snd e) (fst e)).
Definition c_oo (g : mgraph) (e : nat * nat) : bool :=
  negb (has_d g (snd e) (fst e)) && has_c g (snd e) (fst e).

Definition working (g : mgraph) : mgraph :=
  MkG (V g) (D g ++ filter (c_reorient g) (C g)) (B g) (U g) [].

Definition temp_cpdag (g : mgraph) : mgraph :=
  MkG (V g) [] [] (udedup (filter (c_oo g) (C g))) [].

(* phase 2 *)
Fixpoint orient_all (fuel : nat) (t : mgraph) : mgraph :=
  match fuel with
  | 0 => t
  | S f => match U t with
           | [] => t
           | (u, v) :: _ => orient_all f (meek_model (orient t u v))
           end
  end.

Definition oriented_component (g : mgraph) : mgraph :=
  let t := temp_cpdag g in orient_all (length (U t)) t.

(* phase 3 *)
Definition pag_to_mag_model (g : mgraph) : mgraph :=
  let w := working g in
  MkG (V g) (D w ++ D (oriented_component g)) (B w) (U w) [].
