(* C09: brute-force SPEC oracles: valid MAG (by separability), Markov equivalence (same m-separations, decided with the
   shared oracle msep_dec), the Markov equivalence class of a MAG by enumeration, and the PAG of a MAG by the definition in
   the property: an endpoint mark is kept iff it is shared by every Markov-equivalent MAG, else it is a circle. *)
From Coq Require Import List Arith Bool Lia.
From PG Require Import Base.ListSet Base.Closure Base.Sx Graph.MGraph Graph.MSep C08.Model C09.Model.
Import ListNotations.

(* short-circuiting variants (vm_compute is strict in the arguments of andb / forallb) *)
Fixpoint allb {A} (f : A -> bool) (l : list A) : bool :=
  match l with [] => true | a :: t => if f a then allb f t else false end.
Fixpoint anyb {A} (f : A -> bool) (l : list A) : bool :=
  match l with [] => false | a :: t => if f a then true else anyb f t end.

Lemma allb_forallb {A} (f : A -> bool) l : allb f l = forallb f l.
Proof. induction l as [|a t IH]; simpl; [reflexivity|]. rewrite IH. destruct (f a); reflexivity. Qed.
Lemma anyb_existsb {A} (f : A -> bool) l : anyb f l = existsb f l.
Proof. induction l as [|a t IH]; simpl; [reflexivity|]. rewrite IH. destruct (f a); reflexivity. Qed.

(* unordered pairs of distinct nodes, each once *)
Fixpoint upairs (vs : list nat) : list (nat * nat) :=
  match vs with [] => [] | a :: t => map (fun b => (a, b)) t ++ upairs t end.

Definition madj (g : mgraph) (a b : nat) : bool := has_d g a b || has_d g b a || has_b g a b.

(* at most one edge per pair, directed/bidirected layers only *)
Definition one_edge (g : mgraph) (e : nat * nat) : bool :=
  let (a, b) := e in
  match has_d g a b, has_d g b a, has_b g a b with
  | true, true, _ | true, _, true | _, true, true => false
  | _, _, _ => true
  end.
Definition simple_mag (g : mgraph) : bool :=
  wfb g && allb (one_edge g) (upairs (V g))
  && match U g with [] => true | _ => false end && match C g with [] => true | _ => false end.

(* no almost directed cycle: no a <-> b with a an ancestor of b or b an ancestor of a *)
Definition no_adc (g : mgraph) : bool :=
  allb (fun e => negb (memb (fst e) (anc_of g [snd e])) && negb (memb (snd e) (anc_of g [fst e]))) (B g).

Definition others_of (vs : list nat) (x y : nat) : list nat :=
  filter (fun v => negb (Nat.eqb v x) && negb (Nat.eqb v y)) vs.
Definition others (g : mgraph) (x y : nat) : list nat := others_of (V g) x y.

(* maximal: every non-adjacent pair is m-separated by some subset of the other nodes *)
Definition separable (g : mgraph) (x y : nat) : bool :=
  anyb (fun Z => msep_dec g [x] [y] Z) (sublists (others g x y)).
Definition maximalb (g : mgraph) : bool :=
  allb (fun e => if madj g (fst e) (snd e) then true else separable g (fst e) (snd e)) (upairs (V g)).

Definition ancestralb (g : mgraph) : bool := if acyclicb g then no_adc g else false.
Definition valid_mag_spec (g : mgraph) : bool :=
  if simple_mag g then if ancestralb g then maximalb g else false else false.

(* separation signature of g over the node list vs: the answers to all queries {x} _|_ {y} | Z,
   x <> y an unordered pair of vs, Z a subset of the other nodes of vs, in a fixed order *)
Definition qsig_on (vs : list nat) (g : mgraph) : list bool :=
  flat_map (fun e => map (fun Z => msep_dec g [fst e] [snd e] Z) (sublists (others_of vs (fst e) (snd e)))) (upairs vs).

Fixpoint blist_eqb (l m : list bool) : bool :=
  match l, m with
  | [], [] => true
  | a :: l', b :: m' => if Bool.eqb a b then blist_eqb l' m' else false
  | _, _ => false
  end.

(* Markov equivalence: the same nodes and the same m-separations {x} _|_ {y} | Z for all x <> y, Z within the rest *)
Definition markov_equivb (g h : mgraph) : bool :=
  if seteqb (V g) (V h) then blist_eqb (qsig_on (V h) g) (qsig_on (V h) h) else false.

(* all graphs with the adjacencies of m0, every adjacent pair one of a -> b, b -> a, a <-> b *)
Fixpoint edge_choices (es : list (nat * nat)) : list (list (nat * nat) * list (nat * nat)) :=
  match es with
  | [] => [([], [])]
  | (a, b) :: t =>
      let r := edge_choices t in
      map (fun db => ((a, b) :: fst db, snd db)) r ++
      map (fun db => ((b, a) :: fst db, snd db)) r ++
      map (fun db => (fst db, (a, b) :: snd db)) r
  end.

Definition adj_pairs (g : mgraph) : list (nat * nat) :=
  filter (fun e => madj g (fst e) (snd e)) (upairs (V g)).

Definition graphs_on (vs : list nat) (s : list (nat * nat)) : list mgraph :=
  map (fun db => MkG vs (fst db) (snd db) [] []) (edge_choices s).
Definition same_adj_graphs (m0 : mgraph) : list mgraph := graphs_on (V m0) (adj_pairs m0).

(* per candidate: is it ancestral, and (if so) its separation signature *)
Definition row_of (vs : list nat) (m : mgraph) : bool * list bool :=
  let a := ancestralb m in (a, if a then qsig_on vs m else []).
Definition class_test (s0 : list bool) (x : bool * list bool) : bool :=
  if fst x then blist_eqb (snd x) s0 else false.

(* the Markov equivalence class of the MAG m0: the ancestral graphs with the adjacencies of m0 that are Markov equivalent
   to m0 (lemma mag_class_spec in Bounded_n4.v; given m0 maximal, an ancestral graph with the same adjacencies and the same
   separations is maximal too — checked anyway by [valid_mag_spec] in the theorems) *)
Definition mag_class (m0 : mgraph) : list mgraph :=
  let vs := V m0 in
  let s0 := qsig_on vs m0 in
  filter (fun m => class_test s0 (row_of vs m)) (same_adj_graphs m0).

Definition arrow_at (g : mgraph) (a b : nat) : bool := has_d g a b || has_b g a b.   (* arrowhead at b *)

(* invariant mark at b on the edge a,b over the class *)
Definition inv_mark (cls : list mgraph) (a b : nat) : mark :=
  if allb (fun m => arrow_at m a b) cls then Arrow
  else if allb (fun m => negb (arrow_at m a b)) cls then Tail else Circle.

Definition pag_edges (cls : list mgraph) (e : nat * nat) : mgraph :=
  let (a, b) := e in
  match inv_mark cls b a, inv_mark cls a b with       (* mark at a, mark at b *)
  | Tail, Arrow => MkG [] [(a, b)] [] [] []
  | Arrow, Tail => MkG [] [(b, a)] [] [] []
  | Arrow, Arrow => MkG [] [] [(a, b)] [] []
  | Circle, Arrow => MkG [] [(a, b)] [] [] [(b, a)]
  | Arrow, Circle => MkG [] [(b, a)] [] [] [(a, b)]
  | Circle, Circle => MkG [] [] [] [] [(a, b); (b, a)]
  | Tail, Circle => MkG [] [] [] [] [(a, b)]
  | Circle, Tail => MkG [] [] [] [] [(b, a)]
  | Tail, Tail => MkG [] [] [] [(a, b)] []
  end.

Definition pag_from (cls : list mgraph) (m0 : mgraph) : mgraph :=
  let parts := map (pag_edges cls) (adj_pairs m0) in
  MkG (V m0) (flat_map D parts) (flat_map B parts) (flat_map U parts) (flat_map C parts).
Definition pag_of_mag (m0 : mgraph) : mgraph := pag_from (mag_class m0) m0.

(* ---- clauses about a result m for the PAG g ---- *)
(* unshielded collider a *-> c <-* b of m; it must be a definite collider of g (arrowheads at c from a and from b in g) *)
Definition unsh_colliders_marked (g m : mgraph) : bool :=
  allb (fun c => allb (fun e : nat * nat =>
      let (a, b) := e in
      if arrow_at m a c then if arrow_at m b c then if adjacent m a b then true
        else (if arrow_at g a c then arrow_at g b c else false) else true else true)
    (upairs (V m))) (V m).

Definition mark_eqb (x y : option mark) : bool :=
  match x, y with
  | None, None | Some Tail, Some Tail | Some Arrow, Some Arrow | Some Circle, Some Circle => true
  | _, _ => false
  end.

(* the structural clauses: same nodes, same adjacencies, no circle left, every non-circle mark kept,
   every circle became an arrowhead or a tail *)
Definition ordered_pairs (vs : list nat) : list (nat * nat) := all_pairs vs.
Definition structure_ok (g m : mgraph) : bool :=
  seteqb (V g) (V m) && match C m with [] => true | _ => false end &&
  allb (fun e : nat * nat => let (a, b) := e in
     match mark_at g a b with
     | None => mark_eqb (mark_at m a b) None
     | Some Circle => mark_eqb (mark_at m a b) (Some Arrow) || mark_eqb (mark_at m a b) (Some Tail)
     | Some k => mark_eqb (mark_at m a b) (Some k)
     end) (ordered_pairs (V g)).
