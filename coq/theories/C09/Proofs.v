(* C09: unbounded proofs: structure (nodes, adjacencies, marks) and complete orientation of the circle component. *)
From Coq Require Import List Arith Bool Lia.
From PG Require Import Base.ListSet Base.Closure Base.Sx Graph.MGraph C08.Model C08.Spec C08.Proofs C09.Model C09.Oracle C09.Spec.
Import ListNotations.

(* ---------- phase 2 ---------- *)
Lemma head_has_u t u v r : U t = (u, v) :: r -> has_u t u v = true.
Proof. intros E. unfold has_u. apply smemb_In. left. rewrite E. left. reflexivity. Qed.

Lemma orient_all_only_orients f : forall t, only_orients t (orient_all f t).
Proof.
  induction f as [|f IH]; intros t; simpl; [apply only_orients_refl|].
  destruct (U t) as [|[u v] r] eqn:E; [apply only_orients_refl|].
  pose proof (head_has_u t u v r E) as Hu.
  eapply only_orients_trans; [|apply IH].
  eapply only_orients_trans; [|apply meek_only_orients_proof].
  apply only_orients_orient; [apply only_orients_refl|exact Hu].
Qed.

Lemma orient_all_done f : forall t, length (U t) <= f -> U (orient_all f t) = [].
Proof.
  induction f as [|f IH]; intros t Hl; simpl.
  - destruct (U t); [reflexivity|simpl in Hl; lia].
  - destruct (U t) as [|[u v] r] eqn:E; [exact E|].
    apply IH. pose proof (head_has_u t u v r E) as Hu.
    pose proof (orient_U_lt t u v Hu) as H1. pose proof (meek_model_len (orient t u v)) as H2.
    rewrite E in H1. simpl (length (_ :: _)) in *. lia.
Qed.

Theorem p2m_terminates_proof g : component_oriented g.
Proof. unfold component_oriented, oriented_component. apply orient_all_done. lia. Qed.

(* ---------- the temporary CPDAG ---------- *)
Lemma smemb_udedup a b l : smemb a b (udedup l) = smemb a b l.
Proof.
  induction l as [|e t IH]; simpl; [reflexivity|].
  assert (IH' : In (a, b) (udedup t) \/ In (b, a) (udedup t) <-> In (a, b) t \/ In (b, a) t).
  { rewrite <- !smemb_In, IH. tauto. }
  destruct (smemb (fst e) (snd e) t) eqn:E.
  - apply eq_true_iff_eq. rewrite !smemb_In. simpl. split; [tauto|].
    apply smemb_In in E. destruct e as [x y]. simpl in E.
    intros [[H|H]|[H|H]]; try tauto; inversion H; subst; tauto.
  - apply eq_true_iff_eq. rewrite !smemb_In. simpl. tauto.
Qed.

Lemma has_u_temp g a b :
  has_u (temp_cpdag g) a b = true <->
  (has_c g a b = true /\ has_c g b a = true /\ has_d g b a = false) \/
  (has_c g b a = true /\ has_c g a b = true /\ has_d g a b = false).
Proof.
  unfold has_u, temp_cpdag; simpl. rewrite smemb_udedup, smemb_In, !filter_In.
  unfold c_oo, has_c; simpl. rewrite !andb_true_iff, !negb_true_iff, !pmemb_In. tauto.
Qed.

Lemma oc_facts g :
  let oc := oriented_component g in
  (forall a b, padj oc a b = has_u (temp_cpdag g) a b) /\ U oc = [] /\
  (forall a b, has_d oc a b = true -> has_u (temp_cpdag g) a b = true).
Proof.
  intros oc. pose proof (orient_all_only_orients (length (U (temp_cpdag g))) (temp_cpdag g)) as H.
  fold (oriented_component g) in H. fold oc in H.
  destruct H as (_ & _ & _ & Hadj & _ & _ & Hnew). split; [|split].
  - intros a b. rewrite Hadj. unfold padj, has_d. simpl. reflexivity.
  - apply p2m_terminates_proof.
  - intros a b Hd. apply pmemb_In in Hd. apply Hnew in Hd. destruct Hd as [[]|Hd]. exact Hd.
Qed.

(* ---------- structure ---------- *)
Lemma has_d_model g a b :
  has_d (pag_to_mag_model g) a b = true <->
  has_d g a b = true \/
  (has_c g a b = true /\ has_d g b a = false /\ has_c g b a = false) \/
  has_d (oriented_component g) a b = true.
Proof.
  unfold has_d at 1. unfold pag_to_mag_model, working; simpl.
  rewrite pmemb_In, !in_app_iff, filter_In. unfold c_reorient; simpl.
  rewrite !andb_true_iff, !negb_true_iff. unfold has_d, has_c. rewrite !pmemb_In. tauto.
Qed.

Lemma has_d_model_c g a b : has_d (pag_to_mag_model g) a b = true -> has_d g a b = true \/ has_c g a b = true.
Proof.
  intros H. apply has_d_model in H. destruct H as [H|[H|H]]; [auto|tauto|].
  apply (proj2 (proj2 (oc_facts g))) in H. apply has_u_temp in H. tauto.
Qed.

Lemma model_layers g : let m := pag_to_mag_model g in V m = V g /\ B m = B g /\ U m = U g /\ C m = [].
Proof. simpl. auto. Qed.

Lemma adjacent_model g a b : adjacent (pag_to_mag_model g) a b = adjacent g a b.
Proof.
  apply eq_true_iff_eq. unfold adjacent.
  assert (EB : has_b (pag_to_mag_model g) a b = has_b g a b) by reflexivity.
  assert (EU : has_u (pag_to_mag_model g) a b = has_u g a b) by reflexivity.
  assert (EC1 : has_c (pag_to_mag_model g) a b = false) by reflexivity.
  assert (EC2 : has_c (pag_to_mag_model g) b a = false) by reflexivity.
  rewrite EB, EU, EC1, EC2, !orb_true_iff. split.
  - intros [[[[[H|H]|H]|H]|H]|H]; try discriminate; try (apply has_d_model_c in H); tauto.
  - assert (X : forall x y, has_c g x y = true ->
               has_d (pag_to_mag_model g) x y = true \/ has_d (pag_to_mag_model g) y x = true).
    { intros x y Hc. rewrite !has_d_model.
      destruct (has_d g y x) eqn:E1; [right; left; reflexivity|].
      destruct (has_c g y x) eqn:E2; [|left; right; left; repeat split; assumption].
      assert (Hu : has_u (temp_cpdag g) x y = true) by (apply has_u_temp; auto).
      destruct (oc_facts g) as (Hadj & HU & _). rewrite <- Hadj in Hu.
      apply padj_true in Hu. unfold has_u in Hu at 1. rewrite HU in Hu. simpl in Hu.
      destruct Hu as [Hu|[Hu|Hu]]; [left; right; right; exact Hu|right; right; right; exact Hu|discriminate]. }
    intros [[[[[H|H]|H]|H]|H]|H].
    + left; left; left; left; left. apply has_d_model. auto.
    + left; left; left; left; right. apply has_d_model. auto.
    + tauto.
    + tauto.
    + destruct (X a b H); tauto.
    + destruct (X b a H); tauto.
Qed.

Theorem p2m_structure_proof g : structure_kept g (pag_to_mag_model g).
Proof.
  unfold structure_kept. split; [reflexivity|]. split; [reflexivity|]. split; [apply adjacent_model|].
  assert (HA : forall a b, has_d g a b || has_b g a b = true ->
               has_d (pag_to_mag_model g) a b || has_b (pag_to_mag_model g) a b = true).
  { intros a b H. apply orb_true_iff in H. apply orb_true_iff. destruct H as [H|H]; [left|right; exact H].
    apply has_d_model. auto. }
  assert (HM : forall a b, mark_at (pag_to_mag_model g) a b = Some Arrow \/
               (has_d (pag_to_mag_model g) a b || has_b (pag_to_mag_model g) a b = false /\
                mark_at (pag_to_mag_model g) a b = if adjacent g a b then Some Tail else None)).
  { intros a b. unfold mark_at. rewrite adjacent_model.
    destruct (has_d (pag_to_mag_model g) a b || has_b (pag_to_mag_model g) a b); [left; reflexivity|right].
    split; [reflexivity|]. reflexivity. }
  split.
  - intros a b k Hk Hnc. unfold mark_at in Hk.
    destruct (has_d g a b || has_b g a b) eqn:E1.
    + inversion Hk; subst k. unfold mark_at. rewrite (HA a b E1). reflexivity.
    + destruct (has_c g a b) eqn:E2; [inversion Hk; subst k; congruence|].
      destruct (adjacent g a b) eqn:E3; [|discriminate]. inversion Hk; subst k.
      destruct (HM a b) as [H|[H1 H2]]; [|rewrite H2, E3; reflexivity].
      exfalso. unfold mark_at in H.
      destruct (has_d (pag_to_mag_model g) a b || has_b (pag_to_mag_model g) a b) eqn:E4.
      * apply orb_true_iff in E4. apply orb_false_iff in E1. destruct E1 as [E1a E1b].
        destruct E4 as [E4|E4].
        -- apply has_d_model_c in E4. destruct E4; congruence.
        -- change (has_b g a b = true) in E4. congruence.
      * destruct (has_c (pag_to_mag_model g) a b); [discriminate|].
        destruct (adjacent (pag_to_mag_model g) a b); discriminate.
  - intros a b Hk.
    assert (Hadj : adjacent g a b = true).
    { unfold mark_at in Hk. destruct (has_d g a b || has_b g a b); [discriminate|].
      destruct (has_c g a b) eqn:E; [|destruct (adjacent g a b); discriminate].
      unfold adjacent. rewrite E. rewrite !orb_true_r. reflexivity. }
    destruct (HM a b) as [H|[_ H]]; [auto|]. rewrite Hadj in H. auto.
Qed.

(* non-vacuity: a PAG with all kinds of marks *)
Example structure_example :
  let g := MkG [0; 1; 2; 3; 4] [(0, 1)] [(1, 2)] [] [(1, 0); (2, 3); (3, 2); (3, 4); (4, 3)] in
  pag_to_mag_model g = MkG [0; 1; 2; 3; 4] [(0, 1); (4, 3); (3, 2)] [(1, 2)] [] [].
Proof. vm_compute. reflexivity. Qed.
