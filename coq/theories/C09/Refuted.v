(* C09: the assembly AS CODED before the repair (pag.py L1176-1186 at snapshot a440b1e) builds the result from the directed
   edges of the working copy and of the temporary CPDAG only: bidirected / undirected edges and edgeless nodes are lost. *)
From Coq Require Import List Arith Bool Lia.
From PG Require Import Base.ListSet Graph.MGraph C08.Model C09.Model C09.Oracle C09.Spec.
Import ListNotations.

Definition nodes_of_edges (ds : list (nat * nat)) : list nat := dedup (flat_map (fun e => [fst e; snd e]) ds).
Definition pag_to_mag_code (g : mgraph) : mgraph :=
  let ds := D (working g) ++ D (oriented_component g) in
  MkG (nodes_of_edges ds) ds [] [] [].

(* the node-set and adjacency clauses fail for the coded assembly: an isolated node, and a bidirected edge *)
Theorem p2m_structure_code_refuted_proof :
  (exists g, wfb g = true /\ seteqb (V (pag_to_mag_code g)) (V g) = false) /\
  (exists g a b, wfb g = true /\ adjacent g a b = true /\ adjacent (pag_to_mag_code g) a b = false).
Proof.
  split.
  - exists (MkG [0] [] [] [] []). vm_compute. auto.
  - exists (MkG [0; 1; 2] [(0, 1)] [(1, 2)] [] []), 1, 2. vm_compute. auto.
Qed.
