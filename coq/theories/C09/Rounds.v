(* C09: the loop of pag_to_mag on the circle component, round by round.
   (1) [rounds_of_meek4]: rounds_extendable follows from ONE graph-theoretic statement about a class P of skeletons,
       [meek4_on P]: in a PDAG with skeleton in P that is closed under R1-R4 and has a v-structure-free consistent extension,
       every undirected edge can be hand-oriented either way keeping such an extension (Meek 1995 Thm 4 on P);
   (2) [meek4_cluster]: that statement PROVED for all sizes when adjacency is transitive (the skeleton is a disjoint union
       of cliques): closedness makes the directed part transitive, so adding u -> v cannot close a cycle, and any topological
       order gives the extension;
   For P = chordal skeletons the statement is left as the explicit hypothesis of p2m_shape_meek4 (ChordalAll proves its first round). *)
From Coq Require Import List Arith Bool Lia.
From PG Require Import Base.ListSet Graph.MGraph C08.Model C08.Spec C08.Proofs C08.Acyclic C08.Ext C08.ExtEss C08.Reflect
                       C08.Chordal C08.ChordalOrient C08.ChordalComplete C08.Topo
                       C09.Model C09.Proofs C09.Component.
Import ListNotations.

Definition meek4_on (P : mgraph -> Prop) : Prop :=
  forall g, P g -> simple_pdag g -> pwf g -> rule_closed g -> vext g ->
  forall u v, has_u g u v = true -> vext (orient g u v).

(* P only looks at nodes and skeleton *)
Definition skeleton_class (P : mgraph -> Prop) : Prop :=
  forall g h, V h = V g -> (forall a b, padj h a b = padj g a b) -> P g -> P h.

Definition round_inv (P : mgraph -> Prop) (g : mgraph) : Prop :=
  P g /\ simple_pdag g /\ pwf g /\ rule_closed g /\ vext g.

Lemma round_step P g u v r : skeleton_class P -> meek4_on P -> round_inv P g -> U g = (u, v) :: r ->
  vext (orient g u v) /\ round_inv P (meek_model (orient g u v)).
Proof.
  intros HP HM (Pg & Hs & Hw & Hc & Hx) E.
  pose proof (head_has_u g u v r E) as Hu.
  assert (Hx1 : vext (orient g u v)) by (apply HM; assumption).
  split; [exact Hx1|].
  destruct (vext_meek (orient g u v) (simple_orient g u v Hs Hu) Hx1) as [Hs2 Hx2].
  assert (Hw1 : pwf (orient g u v)) by (apply pwf_orient; [exact Hw|rewrite E; left; reflexivity]).
  destruct (meek_only_orients_proof (orient g u v)) as (HV & _ & _ & Hadj & _).
  split; [|split; [exact Hs2|split; [apply pwf_meek; exact Hw1|split; [apply meek_terminates_proof|exact Hx2]]]].
  apply (HP g); [rewrite HV; reflexivity| |exact Pg].
  intros a b. rewrite Hadj. apply orient_padj. exact Hu.
Qed.

Theorem rounds_of_meek4 P : skeleton_class P -> meek4_on P ->
  forall f g, round_inv P g -> rounds_extendable f g.
Proof.
  intros HP HM. induction f as [|f IH]; intros g Hg; simpl; [exact I|].
  destruct (U g) as [|[u v] r] eqn:E; [exact I|].
  destruct (round_step P g u v r HP HM Hg E) as [H1 H2]. split; [exact H1|apply IH; exact H2].
Qed.

(* a PDAG without directed edges is closed under the four rules *)
Lemma no_directed_closed g : D g = [] -> rule_closed g.
Proof.
  intros HD i j _ _. unfold fires, r1, r2, r3, r4.
  assert (Pn : forall v, parents g v = []).
  { intros v. unfold parents. induction (V g) as [|a t IH]; simpl; [reflexivity|].
    unfold has_d at 1. rewrite HD. simpl. exact IH. }
  assert (Cn : forall v, children g v = []).
  { intros v. unfold children. induction (V g) as [|a t IH]; simpl; [reflexivity|].
    unfold has_d at 1. rewrite HD. simpl. exact IH. }
  rewrite !Pn, Cn. simpl. apply andb_false_r.
Qed.

(* ---------- (2) cluster skeletons ---------- *)
Definition cluster (g : mgraph) : Prop :=
  forall a b c, padj g a b = true -> padj g b c = true -> a <> c -> padj g a c = true.

Lemma cluster_class : skeleton_class cluster.
Proof. intros g h _ Hadj Hc a b c. rewrite !Hadj. apply Hc. Qed.

Definition star (g : mgraph) (a b : nat) : Prop := a = b \/ dpath g a b.

Lemma dpath_app g a b c : dpath g a b -> dpath g b c -> dpath g a c.
Proof.
  intros P Q. induction P as [a b H|a x b H P IH]; [eapply dp_cons; [exact H|exact Q]|].
  eapply dp_cons; [exact H|apply IH; exact Q].
Qed.

Lemma star_app g a b c : star g a b -> star g b c -> star g a c.
Proof.
  intros [->|P] [->|Q]; [left; reflexivity|right; exact Q|right; exact P|right; apply (dpath_app g a b c P Q)].
Qed.

Lemma dpath_incl g d : incl (D g) (D d) -> forall a b, dpath g a b -> dpath d a b.
Proof.
  intros HD a b P. induction P as [a b H|a b c H P IH].
  - apply dp_one. apply pmemb_In. apply HD. apply pmemb_In. exact H.
  - eapply dp_cons; [apply pmemb_In; apply HD; apply pmemb_In; exact H|exact IH].
Qed.

Section Cluster.
Variable g : mgraph.
Hypothesis Hcl : cluster g.
Hypothesis Hs : simple_pdag g.
Hypothesis Hw : pwf g.
Hypothesis Hc : rule_closed g.
Hypothesis Hx : vext g.
Variables u v : nat.
Hypothesis Huv : has_u g u v = true.
Let g' := orient g u v.

Lemma g_nodes a b : has_d g a b = true -> In a (V g) /\ In b (V g) /\ a <> b.
Proof. destruct Hw as [HD _]. rewrite edges_ok_spec in HD. intros H. apply pmemb_In in H. apply HD. exact H. Qed.

Lemma g_acyclic : acyclic g.
Proof.
  destruct Hx as [d [(_ & Hac & _ & _ & HD & _) _]]. intros x P. apply (Hac x). apply (dpath_incl g d HD). exact P.
Qed.

(* closedness under R2 in contrapositive form *)
Lemma r2_closed a k b : has_d g a k = true -> has_d g k b = true -> has_u g a b = true -> False.
Proof.
  intros H1 H2 H3. destruct (g_nodes a k H1) as (Ha & Hk & _). destruct (g_nodes k b H2) as (_ & Hb & _).
  pose proof (Hc a b Ha Hb) as F. unfold fires in F. rewrite H3 in F. simpl in F.
  assert (X : r2 g a b = true).
  { unfold r2. apply existsb_exists. exists k. split; [apply children_In; auto|exact H2]. }
  rewrite X, orb_true_r in F. discriminate.
Qed.

(* the directed part is transitive *)
Lemma g_trans a b : dpath g a b -> has_d g a b = true.
Proof.
  intros P. induction P as [a b H|a k b H P IH]; [exact H|].
  assert (Hne : a <> b).
  { intros ->. apply (g_acyclic b). eapply dp_cons; [exact H|exact P]. }
  assert (Pab : padj g a b = true).
  { apply (Hcl a k b); [apply padj_true; auto|apply padj_true; auto|exact Hne]. }
  apply padj_true in Pab. destruct Pab as [X|[X|X]]; [exact X| |].
  - exfalso. apply (g_acyclic a). eapply dp_cons; [exact H|]. eapply dp_cons; [exact IH|apply dp_one; exact X].
  - exfalso. exact (r2_closed a k b H IH X).
Qed.

Lemma split_path a b : dpath g' a b -> dpath g a b \/ (star g a u /\ star g v b).
Proof.
  intros P. induction P as [a b H|a x b H P IH].
  - apply has_d_orient_true in H. destruct H as [E|H]; [inversion E; subst; right; split; left; reflexivity|].
    left. apply dp_one. exact H.
  - apply has_d_orient_true in H. destruct H as [E|H].
    + inversion E; subst. right. split; [left; reflexivity|]. destruct IH as [Q|[_ Q]]; [right; exact Q|exact Q].
    + destruct IH as [Q|[Q1 Q2]].
      * left. eapply dp_cons; [exact H|exact Q].
      * right. split; [|exact Q2]. apply (star_app g a x u); [right; apply dp_one; exact H|exact Q1].
Qed.

Lemma g'_acyclic : acyclic g'.
Proof.
  intros x P. destruct (split_path x x P) as [Q|[Q1 Q2]]; [exact (g_acyclic x Q)|].
  pose proof (star_app g v x u Q2 Q1) as [E|Q].
  - subst. destruct Hw as [_ HU]. rewrite edges_ok_spec in HU. unfold has_u in Huv. apply smemb_In in Huv.
    destruct Huv as [X|X]; apply HU in X; tauto.
  - apply g_trans in Q. destruct (Hs u v Huv) as [_ N]. congruence.
Qed.

Lemma g'_pwf : pwf g'.
Proof.
  unfold has_u in Huv. apply smemb_In in Huv. destruct Huv as [X|X].
  - apply pwf_orient; assumption.
  - (* (v,u) is listed: orient still adds (u,v), endpoints and u <> v come from the listed edge *)
    destruct Hw as [HD HU]. unfold pwf. rewrite edges_ok_spec in HD, HU. rewrite !edges_ok_spec. simpl. split.
    + intros a b [E|H]; [inversion E; subst; apply HU in X; intuition congruence|apply HD; exact H].
    + intros a b H. apply filter_In in H. apply HU. tauto.
Qed.

Theorem cluster_extendable : vext g'.
Proof.
  destruct (topo_exists g' (proj1 g'_pwf) g'_acyclic) as (l & Hnd & Hel & Hord).
  set (o := orient_by l (udedup (U g'))).
  assert (Ho : In o (orientations (udedup (U g')))) by apply orient_by_orientation.
  set (d := dir_graph (V g') (o ++ D g')).
  assert (Hdd : forall a b, has_d d a b = true -> idx l b < idx l a).
  { intros a b H. unfold d in H. rewrite (cand_has_d g' o a b) in H. apply orb_true_iff in H. destruct H as [H|H].
    - apply pmemb_In in H. unfold o in H. apply orient_by_In in H. destruct H as [[_ L]|[H L]]; [exact L|].
      assert (Hu' : has_u g' b a = true).
      { unfold has_u. rewrite <- (smemb_udedup b a (U g')). apply smemb_In. auto. }
      destruct g'_pwf as [_ HU]. rewrite edges_ok_spec in HU. unfold has_u in Hu'. apply smemb_In in Hu'.
      assert (N : In a l /\ In b l /\ a <> b).
      { rewrite !Hel. destruct Hu' as [Y|Y]; apply HU in Y; intuition congruence. }
      destruct N as (Ha & Hb & Hne).
      destruct (Nat.eq_dec (idx l a) (idx l b)) as [E|E]; [apply (idx_inj l a b Ha Hb) in E; tauto|lia].
    - apply Hord. exact H. }
  assert (Hac : acyclic d).
  { assert (R : forall a b, dpath d a b -> idx l b < idx l a).
    { intros a b P. induction P as [a b H|a b c H P IH]; apply Hdd in H; lia. }
    intros x P. apply R in P. lia. }
  assert (Hadj : forall a b, padj d a b = padj g' a b) by (intros a b; apply (cand_padj g' o Ho)).
  assert (Cl' : cluster g').
  { apply (cluster_class g g'); [reflexivity| |exact Hcl]. intros a b. apply orient_padj. exact Huv. }
  assert (Vf : forall m, (forall a b, padj m a b = padj g' a b) -> forall a c b, vstructb m a c b = false).
  { intros m Hm a c b. destruct (vstructb m a c b) eqn:X; [|reflexivity]. exfalso.
    unfold vstructb in X. rewrite !andb_true_iff, !negb_true_iff, Nat.eqb_neq in X. destruct X as [[[H1 H2] Hne] Hn].
    assert (P1 : padj g' a c = true) by (rewrite <- Hm; apply padj_true; auto).
    assert (P2 : padj g' c b = true) by (rewrite <- Hm; apply padj_true; auto).
    rewrite Hm, (Cl' a c b P1 P2 Hne) in Hn. discriminate. }
  exists d. split.
  - unfold consistent_ext. split; [reflexivity|]. split; [exact Hac|]. split; [split; apply incl_refl|].
    split; [exact Hadj|]. split.
    + intros e He. unfold d. simpl. apply in_or_app. right. exact He.
    + intros a c b. rewrite (Vf d Hadj a c b), (Vf g' (fun _ _ => eq_refl) a c b). tauto.
  - intros a c b. apply Vf. exact Hadj.
Qed.
End Cluster.

Theorem meek4_cluster : meek4_on cluster.
Proof. intros g Pg Hs Hw Hc Hx u v Huv. apply cluster_extendable; assumption. Qed.

(* all rounds, all sizes, on a cluster skeleton *)
Theorem rounds_cluster f t : cluster t -> pwf t -> D t = [] -> vext t -> rounds_extendable f t.
Proof.
  intros Hcl Hw HD Hx. apply (rounds_of_meek4 cluster cluster_class meek4_cluster).
  split; [exact Hcl|]. split; [intros a b _; unfold has_d; rewrite HD; split; reflexivity|].
  split; [exact Hw|]. split; [apply no_directed_closed; exact HD|exact Hx].
Qed.

(* ---------- the classes used for pag_to_mag ---------- *)
(* chordal skeleton of a PDAG: a perfect elimination ordering w.r.t. adjacency (any layer) *)
Definition chordal_skel (g : mgraph) : Prop :=
  exists l, NoDup l /\ (forall x, In x l <-> In x (V g)) /\ is_peo (padj g) l.

Lemma chordal_skel_class : skeleton_class chordal_skel.
Proof.
  intros g h HV Hadj (l & Hnd & Hel & Hp). exists l. split; [exact Hnd|]. split; [intros x; rewrite HV; apply Hel|].
  apply (is_peo_ext (padj g) (padj h)); [intros a b; symmetry; apply Hadj|exact Hp].
Qed.

Lemma chordal_skel_of_g t : D t = [] -> chordal_g t -> chordal_skel t.
Proof.
  intros HD (l & Hnd & Hel & Hp). exists l. split; [exact Hnd|]. split; [exact Hel|].
  apply (is_peo_ext (has_u t) (padj t)); [|exact Hp]. intros a b. unfold padj, has_d. rewrite HD. reflexivity.
Qed.

Lemma cluster_chordal t : D t = [] -> cluster t -> chordal_g t.
Proof.
  intros HD Hcl. exists (dedup (V t)). split; [apply dedup_NoDup|]. split; [intros x; apply dedup_In|].
  assert (E : forall a b, has_u t a b = padj t a b) by (intros a b; unfold padj, has_d; rewrite HD; reflexivity).
  induction (dedup (V t)) as [|v r IH]; simpl; [exact I|]. split; [|exact IH].
  intros x y _ _ A1 A2 Hne. rewrite E in *. apply (Hcl x v y); [rewrite padj_sym; exact A1|exact A2|exact Hne].
Qed.

From PG Require Import C09.Oracle C09.Whole.

(* ALL SIZES, no hypothesis on the rounds: the circle component is a disjoint union of cliques *)
Theorem p2m_shape_cluster g : pag_hyps g -> pwf (temp_cpdag g) -> cluster (temp_cpdag g) ->
  let m := pag_to_mag_model g in
  acyclic m /\
  (forall a b, has_b m a b = true -> dpath m a b -> False) /\
  (forall a c b, arrow_at m a c = true -> arrow_at m b c = true -> a <> b -> adjacent m a b = false ->
                 arrow_at g a c = true /\ arrow_at g b c = true).
Proof.
  intros HP Hw Hcl. apply p2m_shape_all_sizes; [exact HP|].
  apply rounds_cluster; [exact Hcl|exact Hw|reflexivity|].
  apply (chordal_vext (temp_cpdag g) Hw eq_refl). apply cluster_chordal; [reflexivity|exact Hcl].
Qed.

(* ALL SIZES on a chordal circle component, from the single statement meek4_on chordal_skel *)
Theorem p2m_shape_meek4 g : meek4_on chordal_skel ->
  pag_hyps g -> pwf (temp_cpdag g) -> chordal_g (temp_cpdag g) ->
  let m := pag_to_mag_model g in
  acyclic m /\
  (forall a b, has_b m a b = true -> dpath m a b -> False) /\
  (forall a c b, arrow_at m a c = true -> arrow_at m b c = true -> a <> b -> adjacent m a b = false ->
                 arrow_at g a c = true /\ arrow_at g b c = true).
Proof.
  intros HM HP Hw Hc. apply p2m_shape_all_sizes; [exact HP|].
  apply (rounds_of_meek4 chordal_skel chordal_skel_class HM).
  split; [apply chordal_skel_of_g; [reflexivity|exact Hc]|].
  split; [intros a b _; split; reflexivity|]. split; [exact Hw|].
  split; [apply no_directed_closed; reflexivity|apply (chordal_vext (temp_cpdag g) Hw eq_refl Hc)].
Qed.
