(* C09 run_case: model + spec oracles for the harness.
   L [I 0; pag]              -> L [graph m; structure_ok]                       m = pag_to_mag_model pag
   L [I 1; pag; mag0]        -> L [graph m; L verdicts; L [pag_hypsb pag; rounds_ok_small_b pag]]   verdicts of m against pag and the source MAG,
                                                                                 and the hypotheses of p2m_shape_all_sizes on pag
   L [I 2; pag; mag0; m]     -> L [L verdicts]                                  verdicts of a GIVEN graph m (the implementation's result)
   L [I 3; mag0]             -> L [valid_mag_spec mag0; graph (pag_of_mag mag0)]
   L [I 4; pag; m]           -> L [structure_ok pag m]                          structural clauses of a GIVEN graph m
   L [I 5; pdag; L pairs]    -> L [L [r1; r2; r3; r4] per ordered pair (i,j)]   UNIT level: does rule k of the proved model (C08) fire on i - j
   L [I 6; pag; m]           -> L [structure_ok; acyclic; no adc; unshielded colliders marked]   cheap verdicts of a GIVEN m (large graphs)
   L [I 7; pdag]             -> L [D q; U q]   q = meek_model pdag: the closure the proved model computes for ONE round's input
   verdicts = [structure_ok; acyclic; no almost directed cycle; unshielded colliders marked in pag; valid_mag_spec; markov_equiv mag0] *)
From Coq Require Import List Arith Bool.
From PG Require Import Base.ListSet Base.Sx Graph.MGraph C08.Model C09.Model C09.Oracle C09.HypsB.
Import ListNotations.

Definition verdicts (g m0 m : mgraph) : sx :=
  L [of_bool (structure_ok g m); of_bool (acyclicb m); of_bool (no_adc m); of_bool (unsh_colliders_marked g m);
     of_bool (valid_mag_spec m); of_bool (markov_equivb m m0)].

Definition run_case (s : sx) : sx :=
  let g := sx_graph (sx_nth s 1) in
  match sx_nat (sx_nth s 0) with
  | 0 => let m := pag_to_mag_model g in L [of_graph m; of_bool (structure_ok g m)]
  | 1 => let m := pag_to_mag_model g in
         L [of_graph m; verdicts g (sx_graph (sx_nth s 2)) m; L [of_bool (pag_hypsb g); of_bool (rounds_ok_small_b g)]]
  | 2 => L [verdicts g (sx_graph (sx_nth s 2)) (sx_graph (sx_nth s 3))]
  | 3 => L [of_bool (valid_mag_spec g); of_graph (pag_of_mag g)]
  | 4 => L [of_bool (structure_ok g (sx_graph (sx_nth s 2)))]
  | 5 => L (map (fun e : nat * nat => let (i, j) := e in
              let u := has_u g i j in
              L [of_bool (u && r1 g i j); of_bool (u && r2 g i j); of_bool (u && r3 g i j); of_bool (u && r4 g i j)])
            (sx_pairs (sx_nth s 2)))
  | 6 => let m := sx_graph (sx_nth s 2) in
         L [of_bool (structure_ok g m); of_bool (acyclicb m); of_bool (no_adc m); of_bool (unsh_colliders_marked g m)]
  | _ => L (out_du (meek_model g))
  end.
