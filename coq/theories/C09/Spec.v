(* C09: the property as Props.
   Property text: "For every PAG P, pag_to_mag(P) returns a graph on P's nodes with exactly P's adjacencies in which every
   arrowhead and tail of P is kept and every circle has become an arrowhead or a tail, with no directed cycle, no bidirected
   edge between a node and its ancestor, and no unshielded collider that P does not already mark.  When P is the PAG of a MAG,
   the result is a valid MAG Markov equivalent to it; P is not modified." *)
From Coq Require Import List Arith Bool Lia.
From PG Require Import Base.ListSet Base.Closure Base.Sx Graph.MGraph Graph.MSep C08.Model C09.Model C09.Oracle.
Import ListNotations.

(* node / adjacency / mark-preservation clauses (all mark graphs; [mark_at] reads a pair that carries several layers with
   the priority arrowhead > circle > tail, so no "one kind per pair" hypothesis is needed) *)
Definition structure_kept (g m : mgraph) : Prop :=
  V m = V g /\ C m = [] /\
  (forall a b, adjacent m a b = adjacent g a b) /\
  (forall a b k, mark_at g a b = Some k -> k <> Circle -> mark_at m a b = Some k) /\
  (forall a b, mark_at g a b = Some Circle -> mark_at m a b = Some Arrow \/ mark_at m a b = Some Tail).

(* the circle component is oriented completely: no undirected edge is left in the temporary CPDAG *)
Definition component_oriented (g : mgraph) : Prop := U (oriented_component g) = [].

(* membership clauses for the PAG of a MAG m0, with the boolean oracles of Oracle.v
   (valid_mag_spec: simple, acyclic, no almost directed cycle, maximal by separability;
    markov_equivb: the same m-separations {x} | {y} given Z, all x <> y, all Z in the rest, decided by msep_dec) *)
Definition check_with (g m0 : mgraph) : bool :=
  let m := pag_to_mag_model g in
  structure_ok g m && acyclicb m && no_adc m && unsh_colliders_marked g m && valid_mag_spec m && markov_equivb m m0.
Definition member_check (m0 : mgraph) : bool := check_with (pag_of_mag m0) m0.

(* FULL statement (Zhang 2008, Thm 2): for every valid MAG m0 (any size) member_check m0 = true.  Proved bounded only. *)
Definition p2m_member_full : Prop := forall m0, valid_mag_spec m0 = true -> member_check m0 = true.

(* the enumeration of the bounded theorems: a skeleton (any set of unordered pairs of 0..n-1) and, per edge of the skeleton,
   one of a -> b, b -> a, a <-> b; of these graphs the valid MAGs *)
Definition nodes (n : nat) : list nat := seq 0 n.
Fixpoint psublists (l : list (nat * nat)) : list (list (nat * nat)) :=
  match l with
  | [] => [[]]
  | x :: t => let r := psublists t in r ++ map (cons x) r
  end.
Definition skeletons (n : nat) : list (list (nat * nat)) := psublists (upairs (nodes n)).
Definition all_mags (n : nat) : list mgraph :=
  flat_map (fun s => filter valid_mag_spec (graphs_on (nodes n) s)) (skeletons n).
