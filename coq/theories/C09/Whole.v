(* C09: the three "shape" clauses of the property for ALL sizes, from (i) the facts about the oriented circle component
   (acyclic, no unshielded collider: Component.v, conditional on the extendability of each round) and (ii) the standard
   invariants of a PAG stated as hypotheses [pag_hyps] (Zhang 2008, Lemma 3.3.1: an arrowhead into a node of an o-o edge is
   copied to the other end).  Conclusions: the result has no directed cycle, no bidirected edge between a node and its
   ancestor, and no unshielded collider that the PAG does not already mark. *)
From Coq Require Import List Arith Bool Lia.
From PG Require Import Base.ListSet Graph.MGraph C08.Model C08.Spec C08.Proofs C09.Model C09.Oracle C09.Proofs C09.Component.
Import ListNotations.

Record pag_hyps (g : mgraph) : Prop := {
  no_self : forall a, has_d g a a = false /\ has_b g a a = false;
  (* an o-o pair carries no other edge *)
  oo_simple : forall x y, has_c g x y = true -> has_c g y x = true ->
              has_d g x y = false /\ has_d g y x = false /\ has_b g x y = false;
  (* no -o edge (they need selection bias: undirected edges in the MAG) *)
  no_tail_circle : forall u v, has_c g u v = true -> has_d g v u = true \/ has_c g v u = true;
  (* Zhang 2008 Lemma 3.3.1, used for o-o edges only:  a *-> c o-o b  implies  a *-> b,  and  a -> c o-o b  implies a -> b *)
  zhang_arrow : forall a c b, arrow_at g a c = true -> has_c g b c = true -> has_c g c b = true -> a <> b ->
                arrow_at g a b = true;
  zhang_dir : forall a c b, has_d g a c = true -> has_c g b c = true -> has_c g c b = true -> a <> b ->
              has_d g a b = true;
  g_acyclic : acyclic g;
  g_no_adc : forall x b, has_b g x b = true -> dpath g x b -> False }.

Section Whole.
Variable g : mgraph.
Hypothesis HP : pag_hyps g.
Let oc := oriented_component g.
Let m := pag_to_mag_model g.
Hypothesis oc_acyclic : acyclic oc.
Hypothesis oc_vfree : vfree oc.

Lemma oc_oo a b : has_d oc a b = true -> has_c g a b = true /\ has_c g b a = true.
Proof.
  intros H. apply (proj2 (proj2 (oc_facts g))) in H. apply has_u_temp in H. tauto.
Qed.

Lemma m_has_d a b : has_d m a b = true <-> has_d g a b = true \/ has_d oc a b = true.
Proof.
  unfold m. rewrite has_d_model. fold oc. split; [|tauto].
  intros [H|[[H1 [H2 H3]]|H]]; auto.
  destruct (no_tail_circle g HP a b H1); congruence.
Qed.

Lemma m_has_b a b : has_b m a b = has_b g a b.
Proof. reflexivity. Qed.

(* oc-paths of length >= 0 *)
Inductive ocs : nat -> nat -> Prop :=
| ocs_refl a : ocs a a
| ocs_step a b c : has_d oc a b = true -> ocs b c -> ocs a c.

Lemma dpath_ocs a b : dpath oc a b -> ocs a b.
Proof.
  intros P. induction P as [a b H|a b c H P IH].
  - eapply ocs_step; [exact H|apply ocs_refl].
  - eapply ocs_step; [exact H|exact IH].
Qed.

Lemma L_arrow z c x : arrow_at g z c = true -> ocs c x -> arrow_at g z x = true.
Proof.
  intros Hz P. induction P as [c|c c1 x H P IH]; [exact Hz|].
  apply IH. destruct (oc_oo c c1 H) as [C1 C2].
  destruct (Nat.eq_dec z c1) as [->|Hne].
  - exfalso. destruct (oo_simple g HP c1 c C2 C1) as (D1 & _ & B1).
    unfold arrow_at in Hz. rewrite D1, B1 in Hz. discriminate.
  - apply (zhang_arrow g HP z c c1 Hz C2 C1 Hne).
Qed.

Lemma L_dir z c x : has_d g z c = true -> ocs c x -> has_d g z x = true.
Proof.
  intros Hz P. induction P as [c|c c1 x H P IH]; [exact Hz|].
  apply IH. destruct (oc_oo c c1 H) as [C1 C2].
  destruct (Nat.eq_dec z c1) as [->|Hne].
  - exfalso. destruct (oo_simple g HP c1 c C2 C1) as (D1 & _ & _). congruence.
  - apply (zhang_dir g HP z c c1 Hz C2 C1 Hne).
Qed.

(* normal form of a directed path of the result: oc-edges first, then edges of the PAG's directed layer *)
Lemma normal_form a b : dpath m a b -> dpath oc a b \/ exists x, ocs a x /\ dpath g x b.
Proof.
  intros P. induction P as [a b H|a b c H P IH].
  - apply m_has_d in H. destruct H as [H|H]; [right|left; apply dp_one; exact H].
    exists a. split; [apply ocs_refl|apply dp_one; exact H].
  - apply m_has_d in H. destruct H as [H|H].
    + right. exists a. split; [apply ocs_refl|]. destruct IH as [Q|[x [Q1 Q2]]].
      * apply dp_one. apply (L_dir a b c H (dpath_ocs b c Q)).
      * eapply dp_cons; [apply (L_dir a b x H Q1)|exact Q2].
    + destruct IH as [Q|[x [Q1 Q2]]].
      * left. eapply dp_cons; [exact H|exact Q].
      * right. exists x. split; [eapply ocs_step; [exact H|exact Q1]|exact Q2].
Qed.

Lemma dpath_last d a b : dpath d a b -> has_d d a b = true \/ exists y, dpath d a y /\ has_d d y b = true.
Proof.
  intros P. induction P as [a b H|a b c H P IH]; [left; exact H|]. right.
  destruct IH as [Q|[y [Q1 Q2]]].
  - exists b. split; [apply dp_one; exact H|exact Q].
  - exists y. split; [eapply dp_cons; [exact H|exact Q1]|exact Q2].
Qed.

Lemma dpath_snoc d a y b : dpath d a y -> has_d d y b = true -> dpath d a b.
Proof.
  intros P H. induction P as [a y Hy|a x y Hx P IH].
  - eapply dp_cons; [exact Hy|apply dp_one; exact H].
  - eapply dp_cons; [exact Hx|apply IH; exact H].
Qed.

Theorem whole_acyclic : acyclic m.
Proof.
  intros v P. destruct (normal_form v v P) as [Q|[x [Q1 Q2]]].
  - exact (oc_acyclic v Q).
  - (* oc* v x, then g+ x v: absorb the oc part into the last g-edge: a g-cycle at x *)
    destruct (dpath_last g x v Q2) as [H|[y [R1 R2]]].
    + apply (g_acyclic g HP x). apply dp_one. apply (L_dir x v x H Q1).
    + apply (g_acyclic g HP x). apply (dpath_snoc g x y x R1). apply (L_dir y v x R2 Q1).
Qed.

Theorem whole_no_adc a b : has_b m a b = true -> dpath m a b -> False.
Proof.
  rewrite m_has_b. intros HB P.
  assert (Hba : arrow_at g b a = true).
  { unfold arrow_at. rewrite (has_b_sym g b a), HB. apply orb_true_r. }
  destruct (normal_form a b P) as [Q|[x [Q1 Q2]]].
  - pose proof (L_arrow b a b Hba (dpath_ocs a b Q)) as X. unfold arrow_at in X.
    destruct (no_self g HP b) as [N1 N2]. rewrite N1, N2 in X. discriminate.
  - pose proof (L_arrow b a x Hba Q1) as X. unfold arrow_at in X. apply orb_true_iff in X. destruct X as [X|X].
    + apply (g_acyclic g HP x). apply (dpath_snoc g x b x Q2 X).
    + apply (g_no_adc g HP x b); [rewrite has_b_sym; exact X|exact Q2].
Qed.

(* every unshielded collider a *-> c <-* b of the result is a collider of the PAG (arrowheads at c on both edges) *)
Theorem whole_colliders a c b :
  arrow_at m a c = true -> arrow_at m b c = true -> a <> b -> adjacent m a b = false ->
  arrow_at g a c = true /\ arrow_at g b c = true.
Proof.
  intros Ha Hb Hne Hna. unfold m in Hna. rewrite adjacent_model in Hna.
  assert (Split : forall z, arrow_at m z c = true -> arrow_at g z c = true \/ has_d oc z c = true).
  { intros z Hz. unfold arrow_at in *. rewrite m_has_b in Hz. apply orb_true_iff in Hz.
    destruct Hz as [Hz|Hz]; [|left; rewrite Hz; apply orb_true_r].
    apply m_has_d in Hz. destruct Hz as [Hz|Hz]; [left; rewrite Hz; reflexivity|right; exact Hz]. }
  assert (Adj : forall x y, arrow_at g x y = true -> adjacent g x y = true).
  { intros x y H. unfold arrow_at in H. unfold adjacent. apply orb_true_iff in H. destruct H as [H|H]; rewrite H.
    - reflexivity.
    - rewrite !orb_true_r. reflexivity. }
  assert (Mixed : forall x y, x <> y -> adjacent g x y = false -> arrow_at g x c = true -> has_d oc y c = true -> False).
  { intros x y Hxy Hn Hx Hy. destruct (oc_oo y c Hy) as [C1 C2].
    pose proof (zhang_arrow g HP x c y Hx C1 C2 Hxy) as Z. apply Adj in Z. congruence. }
  destruct (Split a Ha) as [A|A]; destruct (Split b Hb) as [B'|B'].
  - split; assumption.
  - exfalso. apply (Mixed a b Hne Hna A B').
  - exfalso. rewrite adjacent_sym in Hna. apply (Mixed b a (not_eq_sym Hne) Hna B' A).
  - exfalso. (* a -> c <- b inside the component: a v-structure of oc *)
    assert (Pn : padj oc a b = false).
    { unfold oc. rewrite (proj1 (oc_facts g) a b). destruct (has_u (temp_cpdag g) a b) eqn:X; [|reflexivity].
      exfalso. apply has_u_temp in X.
      assert (Cab : has_c g a b = true) by tauto.
      unfold adjacent in Hna. rewrite !orb_false_iff in Hna. destruct Hna as [[_ Y] _]. congruence. }
    pose proof (oc_vfree a c b) as V0. unfold vstructb in V0. rewrite A, B', Pn in V0. simpl in V0.
    rewrite (proj2 (Nat.eqb_neq a b) Hne) in V0. discriminate.
Qed.
End Whole.

(* ALL sizes, conditional: a PAG with the invariants [pag_hyps] whose circle component admits, at every round of the model's
   run, a v-structure-free consistent extension *)
Theorem p2m_shape_all_sizes g :
  pag_hyps g -> rounds_extendable (length (U (temp_cpdag g))) (temp_cpdag g) ->
  let m := pag_to_mag_model g in
  acyclic m /\
  (forall a b, has_b m a b = true -> dpath m a b -> False) /\
  (forall a c b, arrow_at m a c = true -> arrow_at m b c = true -> a <> b -> adjacent m a b = false ->
                 arrow_at g a c = true /\ arrow_at g b c = true).
Proof.
  intros HP Hr. destruct (p2m_component_ok g (vext_temp g Hr) Hr) as (_ & Hac & Hvf).
  split; [apply whole_acyclic; assumption|]. split.
  - intros a b. apply whole_no_adc; assumption.
  - intros a c b. apply whole_colliders; assumption.
Qed.
