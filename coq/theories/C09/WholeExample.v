(* C09: the hypotheses of p2m_shape_all_sizes are satisfiable: 3 -> 0, 3 -> 1, 3 -> 2 with the circle path 0 o-o 1 o-o 2 *)
From Coq Require Import List Arith Bool Lia.
From PG Require Import Base.ListSet Graph.MGraph C08.Model C08.Spec C08.Acyclic C08.Reflect
                       C09.Model C09.Oracle C09.Proofs C09.Component C09.Whole.
Import ListNotations.

Definition ex_pag : mgraph := MkG [0; 1; 2; 3] [(3, 0); (3, 1); (3, 2)] [] [] [(0, 1); (1, 0); (1, 2); (2, 1)].

Ltac cases4 x := destruct x as [|[|[|[|x]]]].

Lemma ex_hyps : pag_hyps ex_pag.
Proof.
  constructor.
  - intros a. cases4 a; split; reflexivity.
  - intros x y. cases4 x; cases4 y; vm_compute; intros; try discriminate; auto.
  - intros u v. cases4 u; cases4 v; vm_compute; intros; try discriminate; auto.
  - intros a c b. cases4 a; cases4 c; cases4 b; vm_compute; intros; try discriminate; try congruence; auto.
  - intros a c b. cases4 a; cases4 c; cases4 b; vm_compute; intros; try discriminate; try congruence; auto.
  - apply acyclicb_sound; [|vm_compute; reflexivity].
    intros x y H. unfold has_d in H. apply pmemb_In in H. simpl in H.
    destruct H as [E|[E|[E|[]]]]; inversion E; subst; simpl; auto 10.
  - intros x b H. unfold has_b in H. simpl in H. discriminate.
Qed.

Lemma ex_temp_pwf : pwf (temp_cpdag ex_pag).
Proof. split; vm_compute; reflexivity. Qed.

Example ex_shape :
  let m := pag_to_mag_model ex_pag in
  m = MkG [0; 1; 2; 3] [(3, 0); (3, 1); (3, 2); (2, 1); (1, 0)] [] [] [] /\
  acyclic m /\
  (forall a b, has_b m a b = true -> dpath m a b -> False) /\
  (forall a c b, arrow_at m a c = true -> arrow_at m b c = true -> a <> b -> adjacent m a b = false ->
                 arrow_at ex_pag a c = true /\ arrow_at ex_pag b c = true).
Proof.
  split; [vm_compute; reflexivity|].
  apply p2m_shape_all_sizes.
  - exact ex_hyps.
  - apply rounds_ext_sound; [exact ex_temp_pwf|vm_compute; reflexivity].
Qed.
