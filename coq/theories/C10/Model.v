(* C10: executable model of what the property demands of bidirected_to_unobserved_confounder
   (pywhy_graphs/networkx/algorithms/causal/convert.py L43-64): the canonical DAG of an ADMG.
   Every bidirected edge {a,b} (the i-th one) is replaced by a NEW parentless node [fresh i] with the two
   children a and b.  The naming function [fresh] is a parameter: the obligation the code must meet is
   "fresh i is not a node of G and fresh is injective" (the code uses "U<i>" without a freshness test). *)
From Coq Require Import List Arith Bool Lia.
From PG Require Import Base.ListSet Base.Closure Base.Sx Graph.MGraph Graph.MSep C01.Model.
Import ListNotations.

(* the bidirected edges, one representative per unordered pair, in a canonical order *)
Definition bi_edges (g : mgraph) : list (nat * nat) := norm_pairs (B g).

(* latent edges for the edge list [bs], the first one numbered [i] *)
Fixpoint latent_edges (fresh : nat -> nat) (i : nat) (bs : list (nat * nat)) : list (nat * nat) :=
  match bs with
  | [] => []
  | (a, b) :: t => (fresh i, a) :: (fresh i, b) :: latent_edges fresh (S i) t
  end.

Definition latent_nodes (fresh : nat -> nat) (n : nat) : list nat := map fresh (seq 0 n).

Definition canon_of (fresh : nat -> nat) (vs : list nat) (ds bs : list (nat * nat)) : mgraph :=
  MkG (vs ++ latent_nodes fresh (length bs)) (ds ++ latent_edges fresh 0 bs) [] [] [].

Definition canon_model (g : mgraph) (fresh : nat -> nat) : mgraph :=
  canon_of fresh (V g) (D g) (bi_edges g).

(* the naming function used by run_case: above every caller node *)
Definition fresh_above (g : mgraph) (i : nat) : nat := S (fold_right Nat.max 0 (V g)) + i.

(* latent triples (u, a, b) *)
Fixpoint latent_triples (fresh : nat -> nat) (i : nat) (bs : list (nat * nat)) : list sx :=
  match bs with
  | [] => []
  | (a, b) :: t => L [I (fresh i); I a; I b] :: latent_triples fresh (S i) t
  end.

(* run_case: L [I mode; graph; L [ L [X;Y;Z]; ...]]
   -> L [ canonical graph ; latent triples ; per query L [model on canon; model on g; (mode 0:) oracle on canon; oracle on g] ]
   result code of the model: 0 false / 1 true / 2 raises (cyclic) *)
Definition run_case (s : sx) : sx :=
  let g := sx_graph (sx_nth s 1) in
  let c := canon_model g (fresh_above g) in
  let qs := sx_list (sx_nth s 2) in
  let q3 (q : sx) := (sx_nats (sx_nth q 0), sx_nats (sx_nth q 1), sx_nats (sx_nth q 2)) in
  let res :=
    match sx_nat (sx_nth s 0) with
    | 0 => map (fun q => let '(X, Y, Z) := q3 q in
                         L [res_code (msep_model c X Y Z); res_code (msep_model g X Y Z);
                            of_bool (msep_dec c X Y Z); of_bool (msep_dec g X Y Z)]) qs
    | _ => map (fun q => let '(X, Y, Z) := q3 q in
                         L [res_code (msep_model c X Y Z); res_code (msep_model g X Y Z)]) qs
    end in
  L [of_graph c; L (latent_triples (fresh_above g) 0 (bi_edges g)); L res].
