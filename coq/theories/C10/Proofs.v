(* C10: structure clauses of the canonical DAG (unbounded): nodes and directed edges kept, one new parentless node per
   bidirected edge whose only children are the two endpoints, only directed edges, well formed and acyclic. *)
From Coq Require Import List Arith Bool Lia.
From PG Require Import Base.ListSet Base.Closure Graph.MGraph Graph.MSep C10.Model C10.Spec C10.ProofsSep.
Import ListNotations.

Lemma latent_in_Vc g fresh i : i < length (bi_edges g) -> In (fresh i) (V (canon_model g fresh)).
Proof.
  intros Hi. simpl. apply in_or_app. right. unfold latent_nodes. apply in_map. apply in_seq. lia.
Qed.

Lemma Vc_cases g fresh v : In v (V (canon_model g fresh)) ->
  In v (V g) \/ exists i, i < length (bi_edges g) /\ v = fresh i.
Proof.
  simpl. intros H. apply in_app_or in H. destruct H as [H|H]; [left; exact H|right].
  unfold latent_nodes in H. apply in_map_iff in H. destruct H as [i [E Hi]]. apply in_seq in Hi.
  exists i. split; [lia|auto].
Qed.

(* an edge of the canonical DAG that starts at an original node is an edge of g *)
Lemma has_d_canon_orig g fresh a b : wf g -> fresh_ok g fresh -> In a (V g) ->
  has_d (canon_model g fresh) a b = true -> has_d g a b = true /\ In b (V g).
Proof.
  intros Hwf [Hf1 _] Ha H. apply has_d_canon in H. destruct H as [H|(j & a' & b' & Hn & Hu & _)].
  - split; [apply pmemb_In; exact H|apply (wf_D g a b Hwf H)].
  - exfalso. apply (bs_nth g j a' b' Hwf) in Hn. destruct Hn as (_ & _ & _ & _ & Hj).
    apply (Hf1 j Hj). rewrite <- Hu. exact Ha.
Qed.

(* every edge of the canonical DAG ends at an original node *)
Lemma has_d_canon_tgt g fresh a b : wf g -> has_d (canon_model g fresh) a b = true -> In b (V g).
Proof.
  intros Hwf H. apply has_d_canon in H. destruct H as [H|(j & a' & b' & Hn & _ & Hx)].
  - apply (wf_D g a b Hwf H).
  - apply (bs_nth g j a' b' Hwf) in Hn. destruct Hx; subst; tauto.
Qed.

Theorem canon_structure_proof : canon_structure_stmt.
Proof.
  intros g fresh Hwf Hf. assert (Hf' := Hf). destruct Hf' as [Hf1 Hf2]. unfold canon_structure_of.
  split; [|split; [|split; [|split; [|split; [|split; [|split]]]]]]; try reflexivity.
  - intros v Hv. simpl. apply in_or_app. left; exact Hv.
  - intros a b Ha Hb. apply eq_true_iff_eq. split.
    + intros H. apply (has_d_canon_orig g fresh a b Hwf Hf Ha H).
    + intros H. apply has_d_canon. left. apply pmemb_In. exact H.
  - intros a b. apply has_b_bs.
  - intros i a b Hn. pose proof (bs_nth g i a b Hwf Hn) as (Ha & Hb & Hab & _ & Hi).
    split; [apply latent_in_Vc; exact Hi|]. split; [apply Hf1; exact Hi|]. split.
    + intros p. destruct (has_d (canon_model g fresh) p (fresh i)) eqn:E; [|reflexivity].
      exfalso. apply has_d_canon_tgt in E; auto. apply (Hf1 i Hi E).
    + intros x. split.
      * intros H. apply has_d_canon in H. destruct H as [H|(j & a' & b' & Hn' & Hu & Hx)].
        -- exfalso. apply (Hf1 i Hi). apply (wf_D g _ _ Hwf H).
        -- pose proof (bs_nth g j a' b' Hwf Hn') as (_ & _ & _ & _ & Hj).
           assert (i = j) by (apply Hf2; auto). subst j. rewrite Hn in Hn'. inversion Hn'; subst. exact Hx.
      * intros Hx. apply has_d_canon. right. exists i, a, b. auto.
  - intros v Hv. apply Vc_cases. exact Hv.
Qed.

(* ---------- the result is a well-formed DAG ---------- *)
Lemma canon_reach_orig g fresh init x : wf g -> fresh_ok g fresh -> incl init (V g) ->
  reach (children (canon_model g fresh)) init x -> reach (children g) init x /\ In x (V g).
Proof.
  intros Hwf Hf Hi H. induction H as [x Hx|x y Hx IH Hy].
  - split; [apply reach_init; exact Hx|apply Hi; exact Hx].
  - destruct IH as [IH1 IH2]. apply children_In in Hy. destruct Hy as [_ Hy].
    apply has_d_canon_orig in Hy; auto. destruct Hy as [Hd Hy]. split; [|exact Hy].
    eapply reach_step; [exact IH1|]. apply children_In. auto.
Qed.

Theorem canon_dag_proof : canon_dag_stmt.
Proof.
  intros g fresh Hwf Hac Hf. assert (Hf' := Hf). destruct Hf' as [Hf1 Hf2]. split.
  - unfold wf, wfb. simpl. rewrite !andb_true_r. apply edges_ok_spec. intros a b Hab.
    assert (H : has_d (canon_model g fresh) a b = true) by (apply pmemb_In; exact Hab).
    assert (Hb : In b (V g)) by (apply (has_d_canon_tgt g fresh a b Hwf H)).
    apply has_d_canon in H. destruct H as [H|(j & a' & b' & Hn & Hu & Hx)].
    + apply (wf_D g a b Hwf) in H. destruct H as (Ha & _ & Hne).
      repeat split; auto; apply in_or_app; left; auto.
    + pose proof (bs_nth g j a' b' Hwf Hn) as (_ & _ & _ & _ & Hj). subst a. split; [|split].
      * apply (latent_in_Vc g fresh j Hj).
      * apply in_or_app. left. exact Hb.
      * intros E. apply (Hf1 j Hj). rewrite E. exact Hb.
  - unfold acyclicb. apply forallb_forall. intros v Hv. apply negb_true_iff.
    destruct (reaches_plus (canon_model g fresh) v v) eqn:E; [|reflexivity]. exfalso.
    unfold reaches_plus in E. apply memb_In in E. eapply closure_sound in E; [|apply Nat.eqb_eq].
    assert (Hch : incl (children (canon_model g fresh) v) (V g)).
    { intros x Hx. apply children_In in Hx. destruct Hx as [_ Hx]. apply (has_d_canon_tgt g fresh v x Hwf Hx). }
    apply canon_reach_orig in E; auto. destruct E as [E Hvg].
    unfold acyclicb in Hac. rewrite forallb_forall in Hac. specialize (Hac v Hvg).
    apply negb_true_iff in Hac. unfold reaches_plus in Hac. apply memb_false in Hac. apply Hac.
    apply closure_spec with (univ := V g); auto using Nat.eqb_eq, children_univ.
    eapply reach_incl; [|exact E]. intros x Hx. apply children_In in Hx. destruct Hx as [_ Hx].
    apply has_d_canon_orig in Hx; auto. apply children_In. tauto.
Qed.

(* the naming function of run_case meets the obligation *)
Lemma fold_max_ge l v : In v l -> v <= fold_right Nat.max 0 l.
Proof. induction l as [|x t IH]; simpl; [tauto|]. intros [->|H]; [lia|apply IH in H; lia]. Qed.

Lemma fresh_above_ok g : fresh_ok g (fresh_above g).
Proof.
  unfold fresh_ok, fresh_above. split.
  - intros i _ H. apply fold_max_ge in H. lia.
  - intros i j _ _ H. lia.
Qed.

(* the same clause for the boolean oracle the harness runs (d-separation of the result vs m-separation of the input) *)
From PG Require Import Graph.MSepDec.
Theorem canon_preserves_sep_dec_proof : forall g fresh X Y Z, wf g -> U g = [] -> fresh_ok g fresh ->
  incl X (V g) -> incl Y (V g) -> incl Z (V g) ->
  msep_dec (canon_model g fresh) X Y Z = msep_dec g X Y Z.
Proof.
  intros g fresh X Y Z Hwf HU Hf HX HY HZ. apply eq_true_iff_eq.
  rewrite (msep_dec_spec g X Y Z HZ).
  rewrite (msep_dec_spec (canon_model g fresh) X Y Z).
  - apply canon_preserves_sep_proof; auto.
  - intros v Hv. simpl. apply in_or_app. left. apply HZ. exact Hv.
Qed.

(* the hypotheses are satisfiable on a non-trivial input: 0 -> 1, 1 <-> 2, 0 <-> 2 *)
Definition ex_g : mgraph := MkG [0; 1; 2] [(0, 1)] [(1, 2); (2, 0)] [] [].
Example ex_g_hyps : wf ex_g /\ U ex_g = [] /\ acyclicb ex_g = true /\ fresh_ok ex_g (fresh_above ex_g).
Proof. split; [reflexivity|]. split; [reflexivity|]. split; [reflexivity|apply fresh_above_ok]. Qed.
Example ex_g_canon :
  canon_model ex_g (fresh_above ex_g) = MkG [0; 1; 2; 3; 4] [(0, 1); (3, 0); (3, 2); (4, 1); (4, 2)] [] [] [].
Proof. reflexivity. Qed.
Example ex_g_sep : msep_dec ex_g [0] [2] [] = false /\ msep_dec (canon_model ex_g (fresh_above ex_g)) [0] [2] [] = false /\
                   msep_dec (MkG [0;1;2] [(0,1)] [(1,2)] [] []) [0] [2] [] = true.
Proof. vm_compute. auto. Qed.
