(* C10: the canonical DAG preserves separation among original nodes:
     msep (canon_model g fresh) X Y Z <-> msep g X Y Z     (path surgery, both directions). *)
From Coq Require Import List Arith Bool Lia.
From PG Require Import Base.ListSet Base.Closure Graph.MGraph Graph.MSep C10.Model C10.Spec.
Import ListNotations.

(* ---------- generic path facts ---------- *)
Definition fsrc (p : spath) : bool := match p with [] => false | (k, _) :: _ => arrow_src k end.

Lemma last_indep (l : list nat) : forall x d d', last (x :: l) d = last (x :: l) d'.
Proof.
  induction l as [|y l IH]; intros x d d'; [reflexivity|].
  change (last (y :: l) d = last (y :: l) d'). apply IH.
Qed.

Lemma last_node_cons a k b t : last_node a ((k, b) :: t) = last_node b t.
Proof.
  unfold last_node. simpl map. destruct (map snd t) as [|y l]; [reflexivity|].
  change (last (y :: l) a = last (y :: l) b). apply last_indep.
Qed.

Lemma nodes_of_cons a k b t : nodes_of a ((k, b) :: t) = a :: nodes_of b t.
Proof. reflexivity. Qed.

Lemma open_inner_cons2 G Z k1 b k2 c0 t :
  open_inner G Z ((k1, b) :: (k2, c0) :: t) <->
  (if collider k1 k2 then in_anc G Z b else ~ In b Z) /\ open_inner G Z ((k2, c0) :: t).
Proof. simpl. tauto. Qed.

Lemma open_cons_transfer G1 G2 Z k k' b (t t' : spath) :
  arrow_tgt k = arrow_tgt k' ->
  (in_anc G1 Z b -> in_anc G2 Z b) ->
  (t = [] -> t' = []) ->
  fsrc t' = fsrc t ->
  (open_inner G1 Z t -> open_inner G2 Z t') ->
  open_inner G1 Z ((k, b) :: t) -> open_inner G2 Z ((k', b) :: t').
Proof.
  intros Hk Ha He Hf Ho H.
  destruct t' as [|[k2' c'] t'']; [exact I|].
  destruct t as [|[k2 c0] t0]; [specialize (He eq_refl); discriminate|].
  simpl in Hf.
  apply open_inner_cons2 in H. apply open_inner_cons2.
  destruct H as [H1 H2]. split; [|apply Ho; exact H2].
  unfold collider in *. rewrite <- Hk, Hf.
  destruct (arrow_tgt k && arrow_src k2); auto.
Qed.

(* ---------- abstract surgery: g with bidirected edges, c with a latent common parent per bidirected edge ---------- *)
Section Abs.
Variables g c : mgraph.
Variable Z : list nat.
Hypothesis HZ : incl Z (V g).
Hypothesis Hgu : forall a b, has_u g a b = false.
Hypothesis Hcb : forall a b, has_b c a b = false.
Hypothesis Hcu : forall a b, has_u c a b = false.
Hypothesis HV : incl (V g) (V c).
Hypothesis Hsub : forall a b, has_d g a b = true -> has_d c a b = true.
Hypothesis Hdd : forall a b, In a (V g) -> has_d c a b = true -> has_d g a b = true.
Hypothesis Htgt : forall x a, has_d c x a = true -> In a (V g).
Hypothesis Hch : forall u x y z, ~ In u (V g) -> has_d c u x = true -> has_d c u y = true ->
  has_d c u z = true -> x <> y -> z = x \/ z = y.
Hypothesis Hchb : forall u a b, ~ In u (V g) -> has_d c u a = true -> has_d c u b = true -> a <> b ->
  has_b g a b = true.
Hypothesis Hbi : forall a b, has_b g a b = true ->
  exists u, In u (V c) /\ ~ In u (V g) /\ has_d c u a = true /\ has_d c u b = true.

Lemma anc_g_c b : in_anc g Z b -> in_anc c Z b.
Proof.
  unfold in_anc. intros H. induction H as [a Ha|a b Ha IH Hb].
  - constructor; exact Ha.
  - apply reach_step with a; [exact IH|]. apply parents_In in Hb. apply parents_In.
    destruct Hb as [Hb1 Hb2]. split; [apply HV; exact Hb1|apply Hsub; exact Hb2].
Qed.

Lemma anc_c_g b : In b (V g) -> in_anc c Z b -> in_anc g Z b.
Proof.
  unfold in_anc. intros Hb H. revert Hb. induction H as [a Ha|a b Ha IH Hb]; intros Hbv.
  - constructor; exact Ha.
  - apply parents_In in Hb. destruct Hb as [_ Hb].
    assert (Hav : In a (V g)) by (apply Htgt with b; exact Hb).
    apply reach_step with a; [apply IH; exact Hav|].
    apply parents_In. split; [exact Hbv|apply Hdd; assumption].
Qed.

Lemma g_to_c : forall p a, In a (V g) -> steps_ok g a p -> NoDup (nodes_of a p) ->
  exists q, steps_ok c a q /\ last_node a q = last_node a p /\ NoDup (nodes_of a q) /\
    (p = [] <-> q = []) /\ fsrc q = fsrc p /\ (open_inner g Z p -> open_inner c Z q) /\
    (forall v, In v (nodes_of a q) -> In v (V g) -> In v (nodes_of a p)) /\
    (forall u, In u (nodes_of a q) -> ~ In u (V g) ->
       exists a' b', a' <> b' /\ In a' (nodes_of a p) /\ In b' (nodes_of a p) /\
                     has_d c u a' = true /\ has_d c u b' = true).
Proof.
  induction p as [|[k b] t IH]; intros a Ha Hst Hnd.
  - exists []. simpl. repeat split; auto.
    intros u [<-|[]] Hu. contradiction.
  - simpl in Hst. destruct Hst as [Hbv [Hs Hst]].
    rewrite nodes_of_cons in Hnd. inversion Hnd as [|? ? Hna Hnd']; subst.
    destruct (IH b Hbv Hst Hnd') as [q' [Q1 [Q2 [Q3 [Q4 [Q5 [Q6 [Q7 Q8]]]]]]]].
    assert (Hab : a <> b).
    { intros ->. apply Hna. left; reflexivity. }
    assert (Hnaq : ~ In a (nodes_of b q')).
    { intros Hin. apply Hna. apply Q7; assumption. }
    assert (Hk : k = Bi \/ (arrow_tgt k = arrow_tgt k /\ k <> Bi /\ has_step c a k b = true)).
    { destruct k; simpl in *; auto.
      - right. repeat split; auto; discriminate.
      - right. repeat split; auto; discriminate.
      - rewrite Hgu in Hs. discriminate. }
    destruct Hk as [->|[_ [Hkb Hsc]]].
    + (* bidirected step: go through the latent *)
      simpl in Hs. destruct (Hbi a b Hs) as [u [Huc [Hug [Hua Hub]]]].
      assert (Hnuq : ~ In u (nodes_of b q')).
      { intros Hin. destruct (Q8 u Hin Hug) as [a' [b' [Hne [Ia [Ib [Da Db]]]]]].
        destruct (Hch u a' b' a Hug Da Db Hua Hne) as [->| ->]; apply Hna; assumption. }
      exists ((Bwd, u) :: (Fwd, b) :: q').
      split; [simpl; repeat split; auto|].
      split; [rewrite !last_node_cons; exact Q2|].
      split.
      { rewrite !nodes_of_cons. constructor.
        - intros [E|Hin]; [subst; contradiction|contradiction].
        - constructor; assumption. }
      split; [split; discriminate|].
      split; [reflexivity|].
      split.
      { intros Ho. apply open_inner_cons2. split.
        - simpl. intros Hz. apply Hug. apply HZ. exact Hz.
        - apply open_cons_transfer with (G1 := g) (k := Bi) (t := t); auto.
          + apply anc_g_c.
          + apply Q4. }
      split.
      { rewrite !nodes_of_cons. intros v [<-|[<-|Hin]] Hv.
        - left; reflexivity.
        - contradiction.
        - right. apply Q7; assumption. }
      { rewrite !nodes_of_cons. intros w [<-|[<-|Hin]] Hw.
        - contradiction.
        - exists a, b. repeat split; auto.
          + left; reflexivity.
          + right. left; reflexivity.
        - destruct (Q8 w Hin Hw) as [a' [b' [Hne [Ia [Ib [Da Db]]]]]].
          exists a', b'. repeat split; auto; right; assumption. }
    + (* directed step, kept *)
      exists ((k, b) :: q').
      split; [simpl; repeat split; auto|].
      split; [rewrite !last_node_cons; exact Q2|].
      split; [rewrite nodes_of_cons; constructor; assumption|].
      split; [split; discriminate|].
      split; [reflexivity|].
      split.
      { apply open_cons_transfer; auto.
        - apply anc_g_c.
        - apply Q4. }
      split.
      { rewrite !nodes_of_cons. intros v [<-|Hin] Hv.
        - left; reflexivity.
        - right. apply Q7; assumption. }
      { rewrite !nodes_of_cons. intros w [<-|Hin] Hw.
        - contradiction.
        - destruct (Q8 w Hin Hw) as [a' [b' [Hne [Ia [Ib [Da Db]]]]]].
          exists a', b'. repeat split; auto; right; assumption. }
Qed.

Lemma c_to_g : forall n p a, length p <= n -> In a (V g) -> steps_ok c a p ->
  NoDup (nodes_of a p) -> In (last_node a p) (V g) ->
  exists q, steps_ok g a q /\ last_node a q = last_node a p /\ NoDup (nodes_of a q) /\
    (p = [] <-> q = []) /\ fsrc q = fsrc p /\ (open_inner c Z p -> open_inner g Z q) /\
    incl (nodes_of a q) (nodes_of a p).
Proof.
  induction n as [|n IH]; intros p a Hl Ha Hst Hnd Hlast.
  - destruct p; [|simpl in Hl; lia]. exists []. simpl. repeat split; auto. apply incl_refl.
  - destruct p as [|[k v] t].
    { exists []. simpl. repeat split; auto. apply incl_refl. }
    simpl in Hl. simpl in Hst. destruct Hst as [Hvc [Hs Hst]].
    rewrite nodes_of_cons in Hnd. inversion Hnd as [|? ? Hna Hnd']; subst.
    rewrite last_node_cons in Hlast.
    destruct (in_dec Nat.eq_dec v (V g)) as [Hv|Hv].
    + (* original node: a directed step of g *)
      destruct (IH t v ltac:(lia) Hv Hst Hnd' Hlast) as [q' [Q1 [Q2 [Q3 [Q4 [Q5 [Q6 Q7]]]]]]].
      assert (Hsg : has_step g a k v = true).
      { destruct k; simpl in *.
        - apply Hdd; assumption.
        - apply Hdd; assumption.
        - rewrite Hcb in Hs; discriminate.
        - rewrite Hcu in Hs; discriminate. }
      exists ((k, v) :: q').
      split; [simpl; repeat split; auto|].
      split; [rewrite !last_node_cons; exact Q2|].
      split.
      { rewrite nodes_of_cons. constructor; [|exact Q3]. intros Hin. apply Hna. apply Q7. exact Hin. }
      split; [split; discriminate|].
      split; [reflexivity|].
      split.
      { apply open_cons_transfer; auto.
        - apply anc_c_g. exact Hv.
        - apply Q4. }
      { rewrite !nodes_of_cons. intros w [<-|Hin]; [left; reflexivity|right; apply Q7; exact Hin]. }
    + (* latent node: entered backwards, left forwards *)
      assert (Hkv : k = Bwd /\ has_d c v a = true).
      { destruct k; simpl in *.
        - exfalso. apply Hv. apply Htgt with a. exact Hs.
        - auto.
        - rewrite Hcb in Hs; discriminate.
        - rewrite Hcu in Hs; discriminate. }
      destruct Hkv as [-> Hva].
      destruct t as [|[k2 b] t'].
      { exfalso. apply Hv. exact Hlast. }
      simpl in Hst. destruct Hst as [Hbc [Hs2 Hst2]].
      assert (Hk2 : k2 = Fwd /\ has_d c v b = true).
      { destruct k2; simpl in *.
        - auto.
        - exfalso. apply Hv. apply Htgt with b. exact Hs2.
        - rewrite Hcb in Hs2; discriminate.
        - rewrite Hcu in Hs2; discriminate. }
      destruct Hk2 as [-> Hvb].
      assert (Hbv : In b (V g)) by (apply Htgt with v; exact Hvb).
      rewrite nodes_of_cons in Hnd'. inversion Hnd' as [|? ? Hnv Hnd'']; subst.
      rewrite last_node_cons in Hlast. simpl in Hl.
      assert (Hab : a <> b).
      { intros ->. apply Hna. right. left; reflexivity. }
      destruct (IH t' b ltac:(lia) Hbv Hst2 Hnd'' Hlast) as [q' [Q1 [Q2 [Q3 [Q4 [Q5 [Q6 Q7]]]]]]].
      assert (Hbg : has_b g a b = true) by (apply Hchb with v; assumption).
      exists ((Bi, b) :: q').
      split; [simpl; repeat split; auto|].
      split; [rewrite !last_node_cons; exact Q2|].
      split.
      { rewrite nodes_of_cons. constructor; [|exact Q3]. intros Hin. apply Hna. right. apply Q7. exact Hin. }
      split; [split; discriminate|].
      split; [reflexivity|].
      split.
      { intros Ho. apply open_inner_cons2 in Ho. destruct Ho as [_ Ho]. revert Ho.
        apply open_cons_transfer; auto.
        - apply anc_c_g. exact Hbv.
        - apply Q4. }
      { rewrite !nodes_of_cons. intros w [<-|Hin]; [left; reflexivity|right; right; apply Q7; exact Hin]. }
Qed.

Theorem abs_msep_iff X Y : incl X (V g) -> incl Y (V g) -> (msep c X Y Z <-> msep g X Y Z).
Proof.
  intros HX HY. unfold msep. split; intros H x y p Hx Hy Hc.
  - destruct Hc as [Hne [Hst [Hnd [Hl Ho]]]].
    destruct (g_to_c p x (HX x Hx) Hst Hnd) as [q [Q1 [Q2 [Q3 [Q4 [Q5 [Q6 _]]]]]]].
    apply (H x y q Hx Hy). unfold mconn. repeat split; auto.
    + intros E. apply Hne. apply Q4. exact E.
    + congruence.
  - destruct Hc as [Hne [Hst [Hnd [Hl Ho]]]].
    assert (Hlv : In (last_node x p) (V g)) by (rewrite Hl; apply HY; exact Hy).
    destruct (c_to_g (length p) p x (le_n _) (HX x Hx) Hst Hnd Hlv) as [q [Q1 [Q2 [Q3 [Q4 [Q5 [Q6 _]]]]]]].
    apply (H x y q Hx Hy). unfold mconn. repeat split; auto.
    + intros E. apply Hne. apply Q4. exact E.
    + congruence.
Qed.
End Abs.

(* ---------- the concrete canonical DAG meets the abstract hypotheses ---------- *)
Lemma norm_pair_cases p : norm_pair p = p \/ norm_pair p = (snd p, fst p).
Proof. unfold norm_pair. destruct (Nat.leb (fst p) (snd p)); auto. Qed.

Lemma bs_In g a b : In (a, b) (bi_edges g) -> In (a, b) (B g) \/ In (b, a) (B g).
Proof.
  unfold bi_edges, norm_pairs. rewrite psort_set_In, in_map_iff. intros [[a' b'] [E H]].
  destruct (norm_pair_cases (a', b')) as [E'|E']; rewrite E' in E; simpl in E; inversion E; subst; auto.
Qed.

Lemma In_bs g a b : In (a, b) (B g) -> In (a, b) (bi_edges g) \/ In (b, a) (bi_edges g).
Proof.
  intros H. unfold bi_edges, norm_pairs.
  destruct (norm_pair_cases (a, b)) as [E|E]; [left|right];
    apply psort_set_In, in_map_iff; exists (a, b); split; auto.
Qed.

Lemma has_b_bs g a b : has_b g a b = true <-> In (a, b) (bi_edges g) \/ In (b, a) (bi_edges g).
Proof.
  unfold has_b. rewrite smemb_In. split; intros [H|H].
  - apply In_bs in H. tauto.
  - apply In_bs in H. tauto.
  - apply bs_In in H. tauto.
  - apply bs_In in H. tauto.
Qed.

Lemma latent_edges_In fresh bs : forall i u x,
  In (u, x) (latent_edges fresh i bs) <->
  exists j a b, nth_error bs j = Some (a, b) /\ u = fresh (i + j) /\ (x = a \/ x = b).
Proof.
  induction bs as [|[a0 b0] t IH]; intros i u x; simpl.
  - split; [tauto|]. intros (j & a & b & H & _). destruct j; discriminate.
  - split.
    + intros [E|[E|H]].
      * injection E as <- <-. exists 0, a0, b0. rewrite Nat.add_0_r. auto.
      * injection E as <- <-. exists 0, a0, b0. rewrite Nat.add_0_r. auto.
      * apply IH in H. destruct H as (j & a & b & Hn & Hu & Hx).
        exists (S j), a, b. simpl. rewrite Nat.add_succ_r. auto.
    + intros (j & a & b & Hn & Hu & Hx). destruct j; simpl in Hn.
      * injection Hn as <- <-. rewrite Nat.add_0_r in Hu. destruct Hx; subst; auto.
      * right; right. apply IH. exists j, a, b. repeat split; auto.
        rewrite Hu. f_equal. lia.
Qed.

Lemma has_d_canon g fresh x y :
  has_d (canon_model g fresh) x y = true <->
  In (x, y) (D g) \/
  exists j a b, nth_error (bi_edges g) j = Some (a, b) /\ x = fresh j /\ (y = a \/ y = b).
Proof.
  unfold has_d, canon_model, canon_of. simpl. rewrite pmemb_In, in_app_iff, latent_edges_In.
  simpl. tauto.
Qed.

Lemma wf_D g a b : wf g -> In (a, b) (D g) -> In a (V g) /\ In b (V g) /\ a <> b.
Proof.
  unfold wf, wfb. rewrite !andb_true_iff. intros [[[H _] _] _]. revert a b. apply edges_ok_spec. exact H.
Qed.

Lemma wf_B g a b : wf g -> In (a, b) (B g) -> In a (V g) /\ In b (V g) /\ a <> b.
Proof.
  unfold wf, wfb. rewrite !andb_true_iff. intros [[[_ H] _] _]. revert a b. apply edges_ok_spec. exact H.
Qed.

Lemma bs_nth g j a b : wf g -> nth_error (bi_edges g) j = Some (a, b) ->
  In a (V g) /\ In b (V g) /\ a <> b /\ has_b g a b = true /\ j < length (bi_edges g).
Proof.
  intros Hwf H.
  assert (Hj : j < length (bi_edges g)) by (apply nth_error_Some; congruence).
  apply nth_error_In in H.
  assert (Hb : has_b g a b = true) by (apply has_b_bs; auto).
  destruct (bs_In g a b H) as [H'|H']; apply (wf_B g _ _ Hwf) in H'; intuition.
Qed.

Theorem canon_preserves_sep_proof : canon_preserves_sep_stmt.
Proof.
  intros g fresh X Y Z Hwf HU [Hf1 Hf2] HX HY HZ.
  apply abs_msep_iff; auto.
  - intros a b. unfold has_u. rewrite HU. reflexivity.
  - intros v Hv. simpl. apply in_or_app. left; exact Hv.
  - intros a b H. apply has_d_canon. left. apply pmemb_In. exact H.
  - intros a b Ha H. apply has_d_canon in H. destruct H as [H|(j & a' & b' & Hn & Hu & _)].
    + apply pmemb_In. exact H.
    + exfalso. apply (bs_nth g j a' b' Hwf) in Hn. destruct Hn as (_ & _ & _ & _ & Hj).
      apply (Hf1 j Hj). rewrite <- Hu. exact Ha.
  - intros x a H. apply has_d_canon in H. destruct H as [H|(j & a' & b' & Hn & Hu & Hx)].
    + apply (wf_D g x a Hwf H).
    + apply (bs_nth g j a' b' Hwf) in Hn. destruct Hx; subst; tauto.
  - intros u x y z Hu Hx Hy Hz Hne.
    apply has_d_canon in Hx. destruct Hx as [H|(j1 & a1 & b1 & Hn1 & Hu1 & Hx)];
      [exfalso; apply Hu; apply (wf_D g u x Hwf H)|].
    apply has_d_canon in Hy. destruct Hy as [H|(j2 & a2 & b2 & Hn2 & Hu2 & Hy)];
      [exfalso; apply Hu; apply (wf_D g u y Hwf H)|].
    apply has_d_canon in Hz. destruct Hz as [H|(j3 & a3 & b3 & Hn3 & Hu3 & Hz)];
      [exfalso; apply Hu; apply (wf_D g u z Hwf H)|].
    pose proof (bs_nth g j1 a1 b1 Hwf Hn1) as (_ & _ & _ & _ & Hj1).
    pose proof (bs_nth g j2 a2 b2 Hwf Hn2) as (_ & _ & _ & _ & Hj2).
    pose proof (bs_nth g j3 a3 b3 Hwf Hn3) as (_ & _ & _ & _ & Hj3).
    assert (j2 = j1) by (apply Hf2; auto; congruence).
    assert (j3 = j1) by (apply Hf2; auto; congruence).
    subst j2 j3. rewrite Hn1 in Hn2, Hn3. inversion Hn2; inversion Hn3; subst.
    destruct Hx, Hy, Hz; subst; auto; congruence.
  - intros u a b Hu Ha Hb Hne.
    apply has_d_canon in Ha. destruct Ha as [H|(j1 & a1 & b1 & Hn1 & Hu1 & Ha)];
      [exfalso; apply Hu; apply (wf_D g u a Hwf H)|].
    apply has_d_canon in Hb. destruct Hb as [H|(j2 & a2 & b2 & Hn2 & Hu2 & Hb)];
      [exfalso; apply Hu; apply (wf_D g u b Hwf H)|].
    pose proof (bs_nth g j1 a1 b1 Hwf Hn1) as (_ & _ & _ & Hb1 & Hj1).
    pose proof (bs_nth g j2 a2 b2 Hwf Hn2) as (_ & _ & _ & _ & Hj2).
    assert (j2 = j1) by (apply Hf2; auto; congruence).
    subst j2. rewrite Hn1 in Hn2. inversion Hn2; subst.
    destruct Ha, Hb; subst; auto; try congruence.
    rewrite has_b_sym. exact Hb1.
  - intros a b H. apply has_b_bs in H.
    assert (Hex : exists j a' b', nth_error (bi_edges g) j = Some (a', b') /\
                   ((a' = a /\ b' = b) \/ (a' = b /\ b' = a))).
    { destruct H as [H|H]; apply In_nth_error in H; destruct H as [j Hj].
      - exists j, a, b. auto.
      - exists j, b, a. auto. }
    destruct Hex as (j & a' & b' & Hn & Hab).
    pose proof (bs_nth g j a' b' Hwf Hn) as (_ & _ & _ & _ & Hj).
    exists (fresh j). split; [|split; [|split]].
    + simpl. apply in_or_app. right. unfold latent_nodes. apply in_map. apply in_seq. lia.
    + apply Hf1. exact Hj.
    + apply has_d_canon. right. exists j, a', b'. intuition.
    + apply has_d_canon. right. exists j, a', b'. intuition.
Qed.
