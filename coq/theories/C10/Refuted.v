(* C10: why the freshness obligation is needed — with the naming the unpatched code uses ("U<i>" regardless of the caller's
   nodes; in the formal graph: fresh i = i while 0,1,.. are caller nodes) both clauses of the property fail. *)
From Coq Require Import List Arith Bool Lia.
From PG Require Import Base.ListSet Graph.MGraph Graph.MSep C10.Model C10.Spec.
Import ListNotations.

Definition colliding (i : nat) : nat := i.

(* caller nodes 0,1 with 0 <-> 1: the "new" node 0 is the caller's node 0; the result has the self-loop 0 -> 0 *)
Theorem canon_without_freshness_not_a_dag_refuted :
  exists g, is_admg g /\ ~ fresh_ok g colliding /\ acyclicb (canon_model g colliding) = false.
Proof.
  exists (MkG [0; 1] [] [(0, 1)] [] []). split; [repeat split|split]; try reflexivity.
  intros [H _]. apply (H 0); simpl; auto.
Qed.

(* caller nodes 0,1,2 with 1 <-> 2: caller node 0 silently becomes the common parent; 0 and 2 are m-separated in G
   but d-connected in the result *)
Theorem canon_without_freshness_sep_refuted :
  exists g, is_admg g /\ ~ fresh_ok g colliding /\
            msep_dec g [0] [2] [] = true /\ msep_dec (canon_model g colliding) [0] [2] [] = false.
Proof.
  exists (MkG [0; 1; 2] [] [(1, 2)] [] []). split; [repeat split|split; [|split]]; try reflexivity.
  intros [H _]. apply (H 0); simpl; auto.
Qed.
