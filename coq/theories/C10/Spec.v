(* C10: the property as Props over the formal graph.
   "bidirected_to_unobserved_confounder(G) returns a DAG that contains G's nodes [with their attributes] and G's directed
    edges and, for each bidirected edge, one new parentless node distinct from all existing nodes whose only children are that
    edge's two endpoints.  For all disjoint sets of original nodes, d-separation in the result equals m-separation in G."
   Node attributes are not part of the formal graph (observed by the harness only). *)
From Coq Require Import List Arith Bool Lia.
From PG Require Import Base.ListSet Base.Closure Graph.MGraph Graph.MSep C10.Model.
Import ListNotations.

(* the obligation on the naming function: the names used are new and pairwise different *)
Definition fresh_ok (g : mgraph) (fresh : nat -> nat) : Prop :=
  (forall i, i < length (bi_edges g) -> ~ In (fresh i) (V g)) /\
  (forall i j, i < length (bi_edges g) -> j < length (bi_edges g) -> fresh i = fresh j -> i = j).

(* ADMG: only directed and bidirected edges, well formed, acyclic directed layer *)
Definition is_admg (g : mgraph) : Prop := wf g /\ U g = [] /\ C g = [] /\ acyclicb g = true.

(* structure clauses, for a result graph c *)
Definition canon_structure_of (g : mgraph) (fresh : nat -> nat) (c : mgraph) : Prop :=
  incl (V g) (V c) /\
  (forall a b, In a (V g) -> In b (V g) -> has_d c a b = has_d g a b) /\     (* directed edges among original nodes: exactly G's *)
  B c = [] /\ U c = [] /\ C c = [] /\
  (* the bidirected edges are exactly the listed ones, each unordered pair once *)
  (forall a b, has_b g a b = true <-> In (a, b) (bi_edges g) \/ In (b, a) (bi_edges g)) /\
  (forall i a b, nth_error (bi_edges g) i = Some (a, b) ->
     In (fresh i) (V c) /\ ~ In (fresh i) (V g) /\
     (forall p, has_d c p (fresh i) = false) /\                                  (* parentless *)
     (forall x, has_d c (fresh i) x = true <-> x = a \/ x = b)) /\               (* only children: the two endpoints *)
  (* every node of the result is an original node or one of the new ones *)
  (forall v, In v (V c) -> In v (V g) \/ exists i, i < length (bi_edges g) /\ v = fresh i).

Definition canon_structure_stmt : Prop :=
  forall g fresh, wf g -> fresh_ok g fresh -> canon_structure_of g fresh (canon_model g fresh).

Definition canon_dag_stmt : Prop :=
  forall g fresh, wf g -> acyclicb g = true -> fresh_ok g fresh ->
    wf (canon_model g fresh) /\ acyclicb (canon_model g fresh) = true.

(* separation clause at the level of the path definition (msep of Graph/MSep.v; the result has only directed edges, so
   msep on it IS d-separation).  Disjointness of X, Y, Z and acyclicity are not needed. *)
Definition canon_preserves_sep_stmt : Prop :=
  forall g fresh X Y Z, wf g -> U g = [] -> fresh_ok g fresh ->
    incl X (V g) -> incl Y (V g) -> incl Z (V g) ->
    (msep (canon_model g fresh) X Y Z <-> msep g X Y Z).
