(* C11 -- the anterior-restriction lemma, at the path level (vocabulary of Graph/MSep.v):
   in a graph with no arrowhead at an endpoint of an undirected edge, every node of a path that is m-connecting given Z
   between x and y lies in every node set S that contains x, y and Z and is closed under parents and undirected
   neighbours (an "anterior-closed" set); hence the path is m-connecting in the induced subgraph on S, and
       msep (restrict g S) [x] [y] Z  ->  msep g [x] [y] Z. *)
From Coq Require Import List Arith Bool Lia.
From PG Require Import Base.ListSet Base.Closure Graph.MGraph Graph.MSep Graph.Walks C12.Model.
Import ListNotations.

(* ---------- the induced subgraph ---------- *)
Lemma pmemb_keep S l a b : pmemb (a, b) (keep_edges S l) = pmemb (a, b) l && memb a S && memb b S.
Proof.
  apply eq_true_iff_eq. unfold keep_edges. rewrite !andb_true_iff, !pmemb_In, filter_In, andb_true_iff. simpl. tauto.
Qed.

Lemma smemb_keep S l a b : smemb a b (keep_edges S l) = smemb a b l && memb a S && memb b S.
Proof.
  unfold smemb. rewrite !pmemb_keep.
  destruct (pmemb (a, b) l), (pmemb (b, a) l), (memb a S), (memb b S); reflexivity.
Qed.

Lemma has_step_restrict g S a k b :
  has_step (restrict g S) a k b = has_step g a k b && memb a S && memb b S.
Proof.
  destruct k; simpl; unfold has_d, has_b, has_u, restrict; simpl; rewrite ?pmemb_keep, ?smemb_keep; try reflexivity.
  destruct (pmemb (b, a) (D g)), (memb a S), (memb b S); reflexivity.
Qed.

Lemma V_restrict g S a : In a (V (restrict g S)) <-> In a (V g) /\ In a S.
Proof. unfold restrict. simpl. rewrite filter_In, memb_In. tauto. Qed.

Lemma has_d_restrict g S a b : has_d (restrict g S) a b = has_d g a b && memb a S && memb b S.
Proof. apply (has_step_restrict g S a Fwd b). Qed.
Lemma has_b_restrict g S a b : has_b (restrict g S) a b = has_b g a b && memb a S && memb b S.
Proof. apply (has_step_restrict g S a Bi b). Qed.
Lemma has_u_restrict g S a b : has_u (restrict g S) a b = has_u g a b && memb a S && memb b S.
Proof. apply (has_step_restrict g S a Un b). Qed.

Lemma ancestral_und_restrict g S : ancestral_und g -> ancestral_und (restrict g S).
Proof.
  intros H a b c Hu. rewrite has_u_restrict in Hu. rewrite !andb_true_iff in Hu.
  destruct Hu as [[Hu _] _]. destruct (H a b c Hu) as [H1 H2].
  rewrite has_d_restrict, has_b_restrict, H1, H2. split; reflexivity.
Qed.

(* ---------- anterior-closed sets ---------- *)
Definition ant_closed (g : mgraph) (S : list nat) : Prop :=
  forall v, In v S -> incl (parents g v) S /\ incl (unbrs g v) S.

Lemma ant_closed_anc g S Z b : ant_closed g S -> incl Z S -> in_anc g Z b -> In b S.
Proof.
  intros Hc HZ H. induction H as [a Ha|a b Ha IH Hb]; [apply HZ; exact Ha|].
  apply (proj1 (Hc a IH)). exact Hb.
Qed.

Lemma ant_step_univ g x : In x (V g) -> incl (parents g x ++ unbrs g x) (V g).
Proof.
  intros _ a Ha. apply in_app_or in Ha. destruct Ha as [Ha|Ha]; [apply parents_In in Ha|apply unbrs_In in Ha]; tauto.
Qed.

Lemma ant_of_spec g s a : incl s (V g) ->
  (In a (ant_of g s) <-> reach (fun v => parents g v ++ unbrs g v) s a).
Proof.
  intros Hs. unfold ant_of. apply closure_spec with (univ := V g); auto using Nat.eqb_eq, ant_step_univ.
Qed.

Lemma ant_of_closed g s : incl s (V g) -> ant_closed g (ant_of g s).
Proof.
  intros Hs v Hv. apply (ant_of_spec g s v Hs) in Hv. split; intros a Ha; apply (ant_of_spec g s a Hs);
    apply reach_step with v; try exact Hv; apply in_or_app; [left|right]; exact Ha.
Qed.

Lemma ant_of_init g s : incl s (V g) -> incl s (ant_of g s).
Proof. intros Hs a Ha. apply (ant_of_spec g s a Hs). constructor. exact Ha. Qed.

Lemma ant_of_V g s : incl s (V g) -> incl (ant_of g s) (V g).
Proof.
  intros Hs. unfold ant_of. apply closure_univ; auto using Nat.eqb_eq, ant_step_univ.
Qed.

(* ---------- every node of an m-connecting path is in S ---------- *)
Section Path.
Variable g : mgraph.
Variable S Z : list nat.
Hypothesis Hanc : ancestral_und g.
Hypothesis Hcl : ant_closed g S.
Hypothesis HZ : incl Z S.

Lemma tail_step_in b k c : In b (V g) -> has_step g b k c = true -> arrow_src k = false -> In c S -> In b S.
Proof.
  intros Hb Hst Hk Hc. destruct k; simpl in Hk; try discriminate; simpl in Hst.
  - apply (proj1 (Hcl c Hc)). apply parents_In. tauto.
  - apply (proj2 (Hcl c Hc)). apply unbrs_In. rewrite has_u_sym. tauto.
Qed.

(* a node left through a tail (-> or --) is in S as soon as the end of the open path is *)
Lemma tail_out : forall t k b, In b (V g) -> steps_ok g b t -> open_inner g Z ((k, b) :: t) ->
  match t with [] => False | (k2, _) :: _ => arrow_src k2 = false end ->
  In (last_node b t) S -> In b S.
Proof.
  induction t as [|[k2 c] t IH]; intros k b Hb Hst Hop Hhd Hl; [contradiction|].
  rewrite last_node_cons in Hl. apply steps_ok_cons in Hst. destruct Hst as [Hc [Hstep Hst]].
  apply (tail_step_in b k2 c Hb Hstep Hhd).
  destruct t as [|[k3 d] t'].
  - rewrite last_node_nil in Hl. exact Hl.
  - pose proof Hop as Hop2. simpl in Hop2. destruct Hop2 as [_ Hop2].
    pose proof (IH k2 c Hc Hst Hop2) as IHc. simpl in IHc.
    destruct Hop2 as [Hcond _].
    destruct (arrow_src k3) eqn:E3.
    + (* arrowhead at c on the way out *)
      destruct k2; simpl in Hhd; try discriminate.
      * (* -> c <-* : collider, an ancestor of Z *)
        assert (Hcol : collider Fwd k3 = true) by (unfold collider; simpl; exact E3).
        rewrite Hcol in Hcond. apply (ant_closed_anc g S Z c Hcl HZ). exact Hcond.
      * (* -- c <-* : excluded by the ancestral condition *)
        exfalso. simpl in Hstep. apply steps_ok_cons in Hst. destruct Hst as [_ [Hst3 _]].
        rewrite has_u_sym in Hstep. destruct (Hanc d c b Hstep) as [H1 H2].
        destruct k3; simpl in E3; try discriminate; simpl in Hst3.
        -- congruence.
        -- rewrite has_b_sym in Hst3. congruence.
    + apply IHc; [reflexivity|exact Hl].
Qed.

Lemma path_nodes_in : forall p a, In a (V g) -> In a S -> steps_ok g a p -> open_inner g Z p ->
  In (last_node a p) S -> forall v, In v (map snd p) -> In v S.
Proof.
  induction p as [|[k1 b] t IH]; intros a Ha HaS Hst Hop' Hl v Hv; [destruct Hv|].
  apply steps_ok_cons in Hst. destruct Hst as [Hb [Hstep Hst]]. rewrite last_node_cons in Hl.
  assert (Hop2 : open_inner g Z t).
  { destruct t as [|[k2 c] t']; [exact I|]. simpl in Hop'. tauto. }
  assert (HbS : In b S).
  { destruct t as [|[k2 c] t'].
    - rewrite last_node_nil in Hl. exact Hl.
    - destruct (arrow_tgt k1) eqn:E1.
      + destruct (arrow_src k2) eqn:E2.
        * assert (Hcol : collider k1 k2 = true) by (unfold collider; rewrite E1, E2; reflexivity).
          change (open_inner g Z ((k1, b) :: (k2, c) :: t')) with
            ((if collider k1 k2 then in_anc g Z b else ~ In b Z) /\ open_inner g Z ((k2, c) :: t')) in Hop'.
          rewrite Hcol in Hop'. apply (ant_closed_anc g S Z b Hcl HZ). tauto.
        * apply (tail_out ((k2, c) :: t') k1 b Hb Hst Hop' E2 Hl).
      + (* tail at b on the step from a: b is a parent / undirected neighbour of a *)
        destruct k1; simpl in E1; try discriminate; simpl in Hstep.
        * apply (proj1 (Hcl a HaS)). apply parents_In. tauto.
        * apply (proj2 (Hcl a HaS)). apply unbrs_In. tauto. }
  simpl in Hv. destruct Hv as [<-|Hv]; [exact HbS|].
  apply (IH b Hb HbS Hst Hop2 Hl v Hv).
Qed.

(* ---------- the path is m-connecting in the induced subgraph ---------- *)
Lemma in_anc_restrict b : in_anc g Z b -> in_anc (restrict g S) Z b /\ In b S.
Proof.
  intros H. induction H as [a Ha|a b Ha IH Hb].
  - split; [constructor; exact Ha|apply HZ; exact Ha].
  - destruct IH as [IH HaS]. assert (HbS : In b S) by (apply (proj1 (Hcl a HaS)); exact Hb).
    split; [|exact HbS]. apply reach_step with a; [exact IH|].
    apply parents_In in Hb. apply parents_In. rewrite V_restrict, has_d_restrict.
    destruct Hb as [HbV Hd]. rewrite Hd. simpl.
    rewrite (proj2 (memb_In b S) HbS), (proj2 (memb_In a S) HaS). tauto.
Qed.

Lemma steps_ok_restrict : forall p a, In a S -> steps_ok g a p -> (forall v, In v (map snd p) -> In v S) ->
  steps_ok (restrict g S) a p.
Proof.
  induction p as [|[k b] t IH]; intros a Ha Hst Hin; [exact I|].
  apply steps_ok_cons in Hst. destruct Hst as [Hb [Hstep Hst]].
  assert (HbS : In b S) by (apply Hin; left; reflexivity).
  apply steps_ok_cons. split; [apply V_restrict; tauto|]. split.
  - rewrite has_step_restrict, Hstep, (proj2 (memb_In a S) Ha), (proj2 (memb_In b S) HbS). reflexivity.
  - apply IH; [exact HbS|exact Hst|]. intros v Hv. apply Hin. right. exact Hv.
Qed.

Lemma open_inner_restrict : forall p, open_inner g Z p -> open_inner (restrict g S) Z p.
Proof.
  induction p as [|[k1 b] t IH]; intros H; [exact I|].
  destruct t as [|[k2 c] t']; [exact I|].
  change ((if collider k1 k2 then in_anc g Z b else ~ In b Z) /\ open_inner g Z ((k2, c) :: t')) in H.
  change ((if collider k1 k2 then in_anc (restrict g S) Z b else ~ In b Z) /\ open_inner (restrict g S) Z ((k2, c) :: t')).
  destruct H as [H1 H2]. split; [|apply IH; exact H2].
  destruct (collider k1 k2); [apply in_anc_restrict; exact H1|exact H1].
Qed.

Lemma mconn_restrict x p y : In x (V g) -> In x S -> In y S ->
  mconn g Z x p y -> mconn (restrict g S) Z x p y.
Proof.
  intros HxV Hx Hy [Hne [Hst [Hnd [Hl Hop]]]].
  assert (Hin : forall v, In v (map snd p) -> In v S).
  { apply (path_nodes_in p x HxV Hx Hst Hop). rewrite Hl. exact Hy. }
  repeat split; try assumption.
  - apply steps_ok_restrict; assumption.
  - apply open_inner_restrict. exact Hop.
Qed.

End Path.
